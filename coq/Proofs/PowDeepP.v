(* Proofs/PowDeepP.v — HeadersMessage.is_valid as a decision procedure on well-formed headers
   and its composition with HeadersMessage.parse.

   * on well-formed headers (what Block.parse_header returns from 80 bytes) check_pow, hash and
     is_valid never raise;
   * is_valid returns True EXACTLY when every header passes check_pow and every header but the
     first names the hash of its predecessor (both directions, for the outer function that
     starts with last_block = None);
   * HeadersMessage.parse applied to the peer's layout of the headers followed by is_valid()
     is is_valid() of those headers. *)
From V Require Import Base.Prelude Base.Ints Model.Helper Model.Block Model.Pow Model.Network
  Model.MerkleBlockX Proofs.HelperP Proofs.NetworkP Proofs.PowP.

Section PD.
Variable hash256 : bytes -> bytes.

Lemma serialize_header_total h : header_wf h -> exists s, serialize_header h = Ok s.
Proof.
  intros (Hv & Ht & _). unfold serialize_header.
  rewrite (int_to_le_ok (h_version h) 4) by (rewrite pow256_4; lia).
  rewrite (int_to_le_ok (h_time h) 4) by (rewrite pow256_4; lia).
  cbn [bind]. eauto.
Qed.

Lemma bits_to_target_x_no_index_error bits : bits <> [] -> bits_to_target_x bits <> B2T_index_error.
Proof.
  intros H. unfold bits_to_target_x. destruct (rev bits) as [|e rc] eqn:E.
  - exfalso. apply H. rewrite <- (rev_involutive bits), E. reflexivity.
  - cbv zeta. destruct (_ && _); [discriminate|]. destruct (_ <=? _); discriminate.
Qed.

(* never an exception on a well-formed header: bits that encode no valid target give False *)
Lemma check_pow_total h : header_wf h -> exists b, check_pow hash256 h = Ok b.
Proof.
  intros W. destruct (serialize_header_total h W) as [s Es].
  destruct W as (_ & _ & _ & _ & Lb & _).
  assert (h_bits h <> []) as Hne by (intros E; rewrite E in Lb; discriminate Lb).
  pose proof (bits_to_target_x_no_index_error _ Hne) as HX.
  unfold check_pow. rewrite Es. cbn [bind].
  destruct (bits_to_target_x (h_bits h)); [eauto | eauto | contradiction].
Qed.

Lemma block_hash_total h : header_wf h -> exists hh, block_hash hash256 h = Ok hh.
Proof.
  intros W. destruct (serialize_header_total h W) as [s Es]. unfold block_hash. rewrite Es.
  cbn [bind]. eauto.
Qed.

Lemma headers_loop_total : forall hs last, Forall header_wf hs ->
  exists b, headers_valid_loop hash256 hs last = Ok b.
Proof.
  induction hs as [|h r IH]; intros last W; [cbn; eauto|].
  inversion W as [|? ? Wh Wr]; subst. cbn [headers_valid_loop].
  destruct (check_pow_total h Wh) as [ok ->]. cbn [bind].
  destruct (negb ok); [eauto|].
  destruct (negb _); [eauto|].
  destruct (block_hash_total h Wh) as [hh ->]. cbn [bind]. apply IH, Wr.
Qed.

(* every header passes PoW, and each header after the first names its predecessor's hash *)
Definition chain_ok (hs : list header) : Prop :=
  Forall (fun h => check_pow hash256 h = Ok true) hs /\
  match hs with
  | [] => True
  | h0 :: r => exists hh0, block_hash hash256 h0 = Ok hh0 /\ linked hash256 hh0 r
  end.

Hypothesis hash_nonempty : forall x, hash256 x <> [].

Lemma headers_is_valid_iff hs : headers_is_valid hash256 hs = Ok true <-> chain_ok hs.
Proof.
  split.
  - destruct hs as [|h0 r]; [intros _; split; [constructor | exact I]|].
    intros H. exact (headers_is_valid_linkage hash256 hash_nonempty h0 r H).
  - destruct hs as [|h0 r]; [reflexivity|]. intros [F [hh0 [EH L]]].
    inversion F as [|? ? Hp Fr]; subst.
    unfold headers_is_valid. cbn [headers_valid_loop]. rewrite Hp. cbn [bind negb].
    rewrite EH. cbn [bind]. now apply headers_linked_valid.
Qed.

(* on well-formed headers is_valid decides chain_ok *)
Lemma headers_is_valid_decides hs : Forall header_wf hs ->
  exists ok, headers_is_valid hash256 hs = Ok ok /\ (ok = true <-> chain_ok hs).
Proof.
  intros W. destruct (headers_loop_total hs None W) as [ok E]. exists ok.
  split; [exact E|]. rewrite <- headers_is_valid_iff. unfold headers_is_valid. rewrite E.
  split; [intros ->; reflexivity | intros [= ->]; reflexivity].
Qed.

(* HeadersMessage.parse(layout).is_valid() *)
Lemma wire_headers hs : Forall header_wf hs -> zlen hs < 18446744073709551616 ->
  exists b, headers_layout hs = Ok b /\
    forall rest, headers_parse_is_valid hash256 (b ++ rest) = headers_is_valid hash256 hs.
Proof.
  intros W L. destruct (headers_roundtrip hs [] W L) as [b [Eb _]]. exists b. split; [exact Eb|].
  intros rest. destruct (headers_roundtrip hs rest W L) as [b' [Eb' P]].
  rewrite Eb in Eb'. injection Eb' as <-.
  unfold headers_parse_is_valid. rewrite P. reflexivity.
Qed.
End PD.
