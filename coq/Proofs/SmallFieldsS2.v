(* exhaustive field-law sweep (elements, pairs, triples of F_p) for the primes 68 <= p < 80 *)
From V Require Import Base.Prelude Model.Pecc Proofs.CurveSweep Proofs.SmallFields.
Lemma field_range_68_80 : chk_field_range 68 12 = true.
Proof. vm_cast_no_check (eq_refl true). Qed.
