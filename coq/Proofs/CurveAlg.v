(* Proofs/CurveAlg.v — algebra of the model's curve operations under the explicit hypothesis
   [scalar_laws C] (Proofs/GroupHyp.v): the facts the taproot and MuSig proofs use. *)
From Coq Require Import Znumtheory.
From V Require Import Base.Prelude Base.Ints Model.Pecc Proofs.GroupHyp.

Section CurveAlg.
Variable C : curve.
Hypothesis SL : scalar_laws C.
Let p := cp C.
Let n := cn C.

Notation addT := (addT C).
Notation mulT := (mulT C).
Notation negT := (negT C).
Notation valid := (valid C).
Notation Gp := (G C).

Lemma n_pos : 0 < n.
Proof. pose proof (sl_n_odd C SL). fold n in H. lia. Qed.

Lemma p_odd : p mod 2 = 1.
Proof.
  pose proof (sl_p_prime C SL) as Hp. pose proof (sl_p_odd C SL) as H2. fold p in Hp, H2.
  assert (0 <= p mod 2 < 2) by (apply Z.mod_pos_bound; lia).
  destruct (Z.eq_dec (p mod 2) 0) as [E|E]; [|lia].
  apply Z.mod_divide in E; [|lia].
  apply (prime_divisors p Hp) in E. lia.
Qed.

Lemma G_valid : valid Gp. Proof. exact (sl_G_valid C SL). Qed.

Lemma rmul_ok k P : valid P -> rmul C k P = Ok (mulT k P).
Proof. intros H. exact (proj1 (sl_mul_ok C SL k P H)). Qed.
Lemma mul_valid k P : valid P -> valid (mulT k P).
Proof. intros H. exact (proj2 (sl_mul_ok C SL k P H)). Qed.
Lemma padd_ok P Q : valid P -> valid Q -> padd C P Q = Ok (addT P Q).
Proof. intros H1 H2. exact (proj1 (sl_add_ok C SL P Q H1 H2)). Qed.
Lemma add_valid P Q : valid P -> valid Q -> valid (addT P Q).
Proof. intros H1 H2. exact (proj2 (sl_add_ok C SL P Q H1 H2)). Qed.
Lemma neg_valid P : valid P -> valid (negT P).
Proof. exact (sl_neg_valid C SL P). Qed.
Lemma valid_inf : valid None. Proof. exact I. Qed.

Lemma mulT_cong a b P : a mod n = b mod n -> mulT a P = mulT b P.
Proof. intros H. rewrite <- (sl_mul_mod C SL a P), <- (sl_mul_mod C SL b P). fold n. now rewrite H. Qed.

Lemma negT_mul k P : valid P -> negT (mulT k P) = mulT (- k) P.
Proof.
  intros H. rewrite <- (sl_mul_neg1 C SL) by now apply mul_valid.
  rewrite (sl_mul_mul C SL) by assumption. f_equal; lia.
Qed.

Lemma mulG_add a b : addT (mulT a Gp) (mulT b Gp) = mulT (a + b) Gp.
Proof. symmetry. apply (sl_mul_add C SL). apply G_valid. Qed.

Lemma mulG_inj a b : mulT a Gp = mulT b Gp -> a mod n = b mod n.
Proof.
  intros H.
  assert (E : mulT (a - b) Gp = None).
  { replace (a - b) with (a + - b) by lia. rewrite <- mulG_add, H.
    rewrite <- negT_mul by apply G_valid. apply (sl_add_neg C SL). apply mul_valid, G_valid. }
  apply (sl_G_order C SL) in E. fold n in E.
  pose proof n_pos.
  rewrite Zminus_mod in E.
  assert (0 <= a mod n < n) by (apply Z.mod_pos_bound; lia).
  assert (0 <= b mod n < n) by (apply Z.mod_pos_bound; lia).
  destruct (Z.eq_dec (a mod n) (b mod n)) as [E'|N]; [exact E'|].
  exfalso.
  destruct (Z_lt_le_dec (a mod n) (b mod n)).
  - replace (a mod n - b mod n) with ((a mod n - b mod n + n) + (-1) * n) in E by lia.
    rewrite Z.mod_add, Z.mod_small in E by lia. lia.
  - rewrite Z.mod_small in E by lia. lia.
Qed.

Lemma mulG_not_inf d : 0 < d < n -> mulT d Gp <> None.
Proof.
  intros H E. apply (sl_G_order C SL) in E. fold n in E. rewrite Z.mod_small in E by lia. lia.
Qed.

(* PrivateKey(secret).point *)
Lemma pubkey_ok d : 1 <= d <= n - 1 -> pubkey C d = Ok (mulT d Gp).
Proof.
  intros H. unfold pubkey. fold n.
  destruct (n - 1 <? d) eqn:E1; [lia|]. destruct (d <? 1) eqn:E2; [lia|]. cbn [orb].
  apply rmul_ok, G_valid.
Qed.

Lemma pubkey_err d : ~ (1 <= d <= n - 1) -> pubkey C d = Err.
Proof.
  intros H. unfold pubkey. fold n.
  destruct (n - 1 <? d) eqn:E1; [reflexivity|]. destruct (d <? 1) eqn:E2; [reflexivity|]. lia.
Qed.

(* coordinates of a valid finite point *)
Lemma valid_range x y : valid (Some (x, y)) -> 0 <= x < p /\ 0 < y < p.
Proof.
  intros H. pose proof (sl_no_y0 C SL x y H) as Hy. destruct H as (Hx & Hy' & _).
  unfold felem_ok in *. fold p in Hx, Hy'. lia.
Qed.

Lemma negT_coords x y : valid (Some (x, y)) -> negT (Some (x, y)) = Some (x, p - y).
Proof.
  intros H. apply valid_range in H as [_ Hy]. unfold GroupHyp.negT. fold p. f_equal. f_equal.
  replace (- y) with ((p - y) + (-1) * p) by lia. rewrite Z.mod_add by lia. apply Z.mod_small. lia.
Qed.

Lemma parity_flip y : 0 < y < p -> (p - y) mod 2 = 1 - y mod 2.
Proof.
  intros H. pose proof p_odd as Hp.
  rewrite Zminus_mod, Hp.
  assert (Hy : y mod 2 = 0 \/ y mod 2 = 1) by (pose proof (Z.mod_pos_bound y 2); lia).
  destruct Hy as [-> | ->]; reflexivity.
Qed.

(* the even-y representative of +-P *)
Definition evenT (P : point) : point :=
  match P with
  | None => None
  | Some (x, y) => if y mod 2 =? 1 then negT P else P
  end.

Lemma even_point_ok x y : valid (Some (x, y)) -> even_point C (Some (x, y)) = Ok (evenT (Some (x, y))).
Proof.
  intros H. unfold even_point, parity, evenT. cbn [bind].
  destruct (y mod 2 =? 1); [|reflexivity].
  unfold pneg. rewrite rmul_ok by assumption. f_equal. now apply (sl_mul_neg1 C SL).
Qed.

Lemma evenT_valid P : valid P -> valid (evenT P).
Proof.
  destruct P as [[x y]|]; intros H; [|exact I]. unfold evenT.
  destruct (y mod 2 =? 1); [now apply neg_valid | exact H].
Qed.

Lemma evenT_coords x y : valid (Some (x, y)) ->
  evenT (Some (x, y)) = Some (x, if y mod 2 =? 1 then p - y else y).
Proof.
  intros H. unfold evenT. destruct (y mod 2 =? 1); [now apply negT_coords | reflexivity].
Qed.

Lemma evenT_parity x y : valid (Some (x, y)) -> exists y', evenT (Some (x, y)) = Some (x, y') /\ y' mod 2 = 0.
Proof.
  intros H. rewrite evenT_coords by assumption. pose proof (valid_range x y H) as [_ Hy].
  destruct (y mod 2 =? 1) eqn:E; eexists; split; try reflexivity.
  - rewrite parity_flip by assumption. apply Z.eqb_eq in E. lia.
  - apply Z.eqb_neq in E. pose proof (Z.mod_pos_bound y 2). lia.
Qed.

(* evenT as a scalar multiple: sign +1 / -1 *)
Definition sgn_of (P : point) : Z :=
  match P with Some (_, y) => if y mod 2 =? 1 then -1 else 1 | None => 1 end.

Lemma evenT_mul P : valid P -> evenT P = mulT (sgn_of P) P.
Proof.
  destruct P as [[x y]|]; intros H; cbn [evenT sgn_of].
  - destruct (y mod 2 =? 1); [symmetry; now apply (sl_mul_neg1 C SL) | symmetry; now apply (sl_mul_1 C SL)].
  - symmetry. apply (sl_mul_inf C SL).
Qed.

Lemma evenT_mulG d : evenT (mulT d Gp) = mulT (sgn_of (mulT d Gp) * d) Gp.
Proof.
  rewrite evenT_mul by apply mul_valid, G_valid.
  now rewrite (sl_mul_mul C SL) by apply G_valid.
Qed.

(* two valid points with the same x and both even y are equal *)
Lemma same_x_even x y1 y2 :
  valid (Some (x, y1)) -> valid (Some (x, y2)) -> y1 mod 2 = y2 mod 2 -> y1 = y2.
Proof.
  intros H1 H2 Hp. destruct (sl_same_x C SL x y1 y2 H1 H2) as [E|E]; [now symmetry|].
  exfalso. pose proof (valid_range x y1 H1) as [_ Hy1]. fold p in E.
  replace (- y1) with ((p - y1) + (-1) * p) in E by lia.
  rewrite Z.mod_add, Z.mod_small in E by lia. subst y2.
  rewrite parity_flip in Hp by assumption.
  pose proof (Z.mod_pos_bound y1 2). lia.
Qed.

(* points with the same x coordinate have the same even representative *)
Lemma evenT_same_x x y1 y2 :
  valid (Some (x, y1)) -> valid (Some (x, y2)) -> evenT (Some (x, y1)) = evenT (Some (x, y2)).
Proof.
  intros H1 H2.
  destruct (evenT_parity x y1 H1) as (a & Ea & Pa). destruct (evenT_parity x y2 H2) as (b & Eb & Pb).
  rewrite Ea, Eb. f_equal. f_equal.
  apply (same_x_even x a b); [rewrite <- Ea; now apply evenT_valid | rewrite <- Eb; now apply evenT_valid | lia].
Qed.

(* S256Point.__add__ with an int *)
Lemma padd_int_ok E t : valid E -> padd_int C E t = Ok (addT E (mulT t Gp)).
Proof.
  intros H. unfold padd_int. rewrite rmul_ok by apply G_valid. cbn [bind].
  apply padd_ok; [exact H | apply mul_valid, G_valid].
Qed.

(* even_secret *)
Lemma even_secret_ok d : 1 <= d <= n - 1 ->
  exists e, even_secret C d = Ok e /\ 1 <= e <= n - 1 /\
            e mod n = (sgn_of (mulT d Gp) * d) mod n /\ evenT (mulT d Gp) = mulT e Gp.
Proof.
  intros H. unfold even_secret. rewrite pubkey_ok by assumption. cbn [bind].
  pose proof (mulG_not_inf d ltac:(lia)) as Hn.
  destruct (mulT d Gp) as [[x y]|] eqn:EP; [|congruence]. cbn [parity bind]. fold n.
  assert (Hev : evenT (Some (x, y)) = mulT (sgn_of (Some (x, y)) * d) Gp) by (rewrite <- EP; apply evenT_mulG).
  cbn [sgn_of] in *.
  destruct (y mod 2 =? 1); eexists; (split; [reflexivity|]); (split; [lia|]); split.
  - replace (n - d) with (-1 * d + 1 * n) by lia. now rewrite Z.mod_add by lia.
  - rewrite Hev. apply mulT_cong. replace (n - d) with (-1 * d + 1 * n) by lia. now rewrite Z.mod_add by lia.
  - f_equal; lia.
  - rewrite Hev. f_equal; lia.
Qed.

End CurveAlg.
