(* Proofs/ScriptCanonP.v — the canonical script encodings (Spec/ScriptCanon.v) are exactly the
   serialisations of strict command lists; a parsed script re-serialises to the bytes it was
   parsed from iff those bytes are canonical (or the parser fell back to .raw) (C04). *)
From V Require Import Base.Prelude Base.Ints Model.Helper Model.Script Spec.ScriptCanon
  Proofs.HelperP Proofs.ScriptP.

Lemma to_le_2_small l : 0 <= l < 65536 -> to_le 2 l = [l mod 256; l / 256].
Proof.
  intros H. cbn [to_le]. f_equal. f_equal. apply Z.mod_small.
  split; [apply Z.div_pos; lia|apply Z.div_lt_upper_bound; lia].
Qed.

(* ---- canonical bytes -> strict commands ---- *)
Lemma canon_bytes_cmds raw :
  canon_script_bytes raw -> exists cs, cmds_strictb cs = true /\ ser_cmds cs = Ok raw.
Proof.
  induction 1 as [|o r Ho _ [cs [S E]]|d r Hd _ [cs [S E]]|d r Hd _ [cs [S E]]|d r Hd _ [cs [S E]]].
  - exists []. split; reflexivity.
  - exists (Op o :: cs). split.
    + cbn [cmds_strictb forallb cmd_strictb]. fold (cmds_strictb cs). rewrite S, andb_true_r.
      unfold op_wfb. destruct Ho as [->|Ho]; [reflexivity|].
      apply orb_true_iff. right. apply andb_true_iff. split; apply Z.leb_le; lia.
    + cbn [ser_cmds ser_cmd]. rewrite E.
      replace ((o <? 0) || (255 <? o)) with false
        by (symmetry; apply orb_false_iff; split; [apply Z.ltb_ge|apply Z.ltb_ge]; lia).
      reflexivity.
  - exists (Push d :: cs). split.
    + cbn [cmds_strictb forallb cmd_strictb]. fold (cmds_strictb cs). rewrite S, andb_true_r.
      apply andb_true_iff. split; apply Z.leb_le; lia.
    + cbn [ser_cmds ser_cmd]. rewrite E.
      replace (zlen d <=? 75) with true by (symmetry; apply Z.leb_le; lia). reflexivity.
  - exists (Push d :: cs). split.
    + cbn [cmds_strictb forallb cmd_strictb]. fold (cmds_strictb cs). rewrite S, andb_true_r.
      apply andb_true_iff. split; apply Z.leb_le; lia.
    + cbn [ser_cmds ser_cmd]. rewrite E.
      replace (zlen d <=? 75) with false by (symmetry; apply Z.leb_gt; lia).
      replace (zlen d <? 256) with true by (symmetry; apply Z.ltb_lt; lia). reflexivity.
  - exists (Push d :: cs). split.
    + cbn [cmds_strictb forallb cmd_strictb]. fold (cmds_strictb cs). rewrite S, andb_true_r.
      apply andb_true_iff. split; apply Z.leb_le; lia.
    + cbn [ser_cmds ser_cmd]. rewrite E.
      replace (zlen d <=? 75) with false by (symmetry; apply Z.leb_gt; lia).
      replace (zlen d <? 256) with false by (symmetry; apply Z.ltb_ge; lia).
      replace (zlen d <=? 520) with true by (symmetry; apply Z.leb_le; lia).
      rewrite to_le_2_small by lia. reflexivity.
Qed.

(* ---- strict commands -> canonical bytes ---- *)
Lemma cmds_canon_bytes cs : forall raw,
  cmds_strictb cs = true -> ser_cmds cs = Ok raw -> canon_script_bytes raw.
Proof.
  induction cs as [|c r IH]; intros raw S E.
  - inversion E. constructor.
  - cbn [cmds_strictb forallb] in S. apply andb_true_iff in S as [Sc Sr].
    cbn [ser_cmds] in E. apply bind_ok in E as [a [Ea E]]. apply bind_ok in E as [b [Eb E]].
    inversion E; subst raw. clear E. specialize (IH b Sr Eb).
    destruct c as [o|d]; cbn [cmd_strictb ser_cmd] in *.
    + destruct ((o <? 0) || (255 <? o)) eqn:R; [discriminate|]. inversion Ea; subst a.
      cbn [app]. apply csb_op; [|exact IH].
      unfold op_wfb in Sc. apply orb_true_iff in Sc as [Sc|Sc]; [left; now apply Z.eqb_eq|right].
      apply andb_true_iff in Sc as [S1 S2]. apply Z.leb_le in S1, S2. lia.
    + apply andb_true_iff in Sc as [S1 S2]. apply Z.leb_le in S1, S2.
      destruct (zlen d <=? 75) eqn:E75.
      { inversion Ea; subst a. cbn [app]. apply csb_direct; [lia|exact IH]. }
      destruct (zlen d <? 256) eqn:E256.
      { inversion Ea; subst a. cbn [app]. apply csb_pd1; [lia|exact IH]. }
      destruct (zlen d <=? 520) eqn:E520; [|discriminate].
      assert (a = 77 :: to_le 2 (zlen d) ++ d) as -> by congruence.
      rewrite to_le_2_small by lia. cbn [app]. apply csb_pd2; [lia|exact IH].
Qed.

(* the canonical encodings are exactly the image of the serialiser on strict command lists *)
Lemma canon_bytes_iff raw :
  canon_script_bytes raw <-> exists cs, cmds_strictb cs = true /\ ser_cmds cs = Ok raw.
Proof.
  split; [apply canon_bytes_cmds|]. intros [cs [S E]]. exact (cmds_canon_bytes cs raw S E).
Qed.

(* with empty pushes allowed the image is the same *)
Lemma cmds_wf_canon_bytes cs raw :
  cmds_wfb cs = true -> ser_cmds cs = Ok raw -> canon_script_bytes raw.
Proof.
  intros W E. apply (cmds_canon_bytes (canon_cmds cs)); [now apply canon_cmds_wf|].
  now rewrite ser_cmds_canon.
Qed.

(* ---- what the parser produces: int commands are never push prefixes ---- *)
Definition op_parsed (c : cmd) : Prop := match c with Op o => ~ (1 <= o <= 78) | Push _ => True end.

Lemma parse_loop_ops fuel : forall s count len acc cs n,
  Forall op_parsed acc -> parse_loop fuel s count len acc = Ok (cs, n) -> Forall op_parsed cs.
Proof.
  induction fuel as [|f IH]; intros s count len acc cs n Fa H.
  - cbn [parse_loop] in H. destruct (len <=? count); [|discriminate].
    inversion H; subst. now apply Forall_rev.
  - destruct s as [|b r].
    + cbn [parse_loop] in H. destruct (len <=? count); [|discriminate].
      inversion H; subst. now apply Forall_rev.
    + rewrite parse_loop_S in H. destruct (len <=? count).
      { inversion H; subst. now apply Forall_rev. }
      cbv zeta in H.
      destruct ((1 <=? b) && (b <=? 75)) eqn:E1.
      { destruct (readz b r) as [d r']. eapply IH; [|exact H]. constructor; [exact I|exact Fa]. }
      destruct (b =? 76) eqn:E2.
      { destruct (readz _ (skipn 1 r)) as [d r']. eapply IH; [|exact H]. constructor; [exact I|exact Fa]. }
      destruct (b =? 77) eqn:E3.
      { destruct (readz _ (skipn 2 r)) as [d r']. eapply IH; [|exact H]. constructor; [exact I|exact Fa]. }
      destruct (b =? 78) eqn:E4.
      { destruct (readz _ (skipn 4 r)) as [d r']. eapply IH; [|exact H]. constructor; [exact I|exact Fa]. }
      eapply IH; [|exact H]. constructor; [|exact Fa]. cbn [op_parsed].
      apply andb_false_iff in E1. apply Z.eqb_neq in E2, E3, E4. lia.
Qed.

Lemma parse_raw_ops raw sc : parse_raw raw = Ok sc -> Forall op_parsed (s_cmds sc).
Proof.
  unfold parse_raw. intros H. apply bind_ok in H as [[cs n] [E H]]. cbn beta iota in H.
  inversion H; subst sc. cbn [s_cmds]. eapply parse_loop_ops; [|exact E]. constructor.
Qed.

(* commands that were parsed and that serialise are well-formed *)
Lemma parsed_serialisable_wf cs raw :
  Forall op_parsed cs -> ser_cmds cs = Ok raw -> cmds_wfb cs = true.
Proof.
  intros F E. unfold cmds_wfb. apply forallb_forall. intros c Hc.
  assert (~ cmd_bad c) as NB.
  { intros B. assert (ser_cmds cs = Err) as X by (apply ser_cmds_err; eauto). congruence. }
  rewrite Forall_forall in F. specialize (F c Hc).
  destruct c as [o|d]; cbn [cmd_wfb cmd_bad op_parsed] in *.
  - unfold op_wfb. destruct (o =? 0) eqn:E0; [reflexivity|]. apply Z.eqb_neq in E0. cbn [orb].
    apply andb_true_iff. split; apply Z.leb_le; lia.
  - apply Z.leb_le. lia.
Qed.

(* ================= the converse of the round trip =================
   Script.parse(raw=b).raw_serialize() == b  iff  b is canonical or the parser kept b in .raw *)
Lemma reserialize_iff raw sc :
  parse_raw raw = Ok sc ->
  (raw_serialize sc = Ok raw <-> s_raw sc <> None \/ canon_script_bytes raw).
Proof.
  intros P. split.
  - intros R. destruct (s_raw sc) as [x|] eqn:Er; [left; discriminate|right].
    unfold raw_serialize in R. rewrite Er in R.
    apply (cmds_wf_canon_bytes (s_cmds sc)); [|exact R].
    eapply parsed_serialisable_wf; [|exact R]. eapply parse_raw_ops; exact P.
  - intros [N|C].
    + exact (proj2 (parse_raw_fallback raw sc P N)).
    + destruct (canon_bytes_cmds raw C) as [cs [S E]].
      destruct (script_roundtrip_strict cs S) as [b [Hb Hp]]. rewrite E in Hb. inversion Hb; subst b.
      rewrite P in Hp. inversion Hp; subst sc. unfold raw_serialize. cbn [mk_script s_raw s_cmds]. exact E.
Qed.

(* byte-level round trip of scripts against the independent definition *)
Lemma script_bytes_roundtrip raw :
  canon_script_bytes raw ->
  exists sc, parse_raw raw = Ok sc /\ s_raw sc = None /\ cmds_strictb (s_cmds sc) = true /\
             raw_serialize sc = Ok raw.
Proof.
  intros C. destruct (canon_bytes_cmds raw C) as [cs [S E]].
  destruct (script_roundtrip_strict cs S) as [b [Hb Hp]]. rewrite E in Hb. inversion Hb; subst b.
  exists (mk_script cs). repeat split; assumption.
Qed.

(* an exactly parsed script whose bytes are not canonical: either it cannot be serialised at all
   (a push of more than 520 bytes) or it serialises to different bytes *)
Lemma noncanonical_not_preserved raw sc :
  parse_raw raw = Ok sc -> s_raw sc = None -> ~ canon_script_bytes raw -> raw_serialize sc <> Ok raw.
Proof.
  intros P N NC R. apply (reserialize_iff raw sc P) in R. destruct R as [R|R]; [congruence|contradiction].
Qed.

(* upper bound used for the size side condition of script_wfb *)
Lemma cmd_size_le c a : ser_cmd c = Ok a -> cmd_size c <= 3 * zlen a.
Proof.
  destruct c as [o|d]; cbn [ser_cmd cmd_size].
  - destruct ((o <? 0) || (255 <? o)); [discriminate|]. intros [= <-]. rewrite zlen_cons, zlen_nil. lia.
  - pose proof (zlen_nonneg d) as P.
    destruct (zlen d <=? 75); [intros [= <-]; rewrite zlen_cons; lia|].
    destruct (zlen d <? 256); [intros [= <-]; rewrite !zlen_cons; lia|].
    destruct (zlen d <=? 520); [|discriminate]. intros H.
    assert (a = 77 :: to_le 2 (zlen d) ++ d) as -> by congruence.
    rewrite zlen_cons, zlen_app, zlen_to_le. lia.
Qed.

Lemma cmds_size_le cs : forall b, ser_cmds cs = Ok b -> cmds_size cs <= 3 * zlen b.
Proof.
  induction cs as [|c r IH]; cbn [ser_cmds cmds_size]; intros b H.
  - pose proof (zlen_nonneg b). lia.
  - apply bind_ok in H as [a [Ha H]]. apply bind_ok in H as [b' [Hb H]]. inversion H; subst b.
    rewrite zlen_app. pose proof (cmd_size_le _ _ Ha). pose proof (IH _ Hb). lia.
Qed.
