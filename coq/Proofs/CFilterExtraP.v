(* Proofs/CFilterExtraP.v — C18, further layers: hash_to_range against BIP158 and its bounds, exact
   membership characterisation (a query matches iff it collides with an element in [0, N*M)),
   SipHash digest()/hexdigest() and the two-argument constructor, CFilterMessage (key from the
   block hash) and CFHeadersMessage.last_header over the wire parsers. *)
From V Require Import Base.Prelude Base.Ints Model.Helper Model.Gcs Model.Network Model.CFilter
  Model.Siphash Model.CFilterMsg
  Proofs.HelperP Proofs.GcsP Proofs.CFilterP Proofs.SiphashP Proofs.NetworkP Proofs.Bip158P.
From V Require Spec.Siphash Spec.Bip158.

(* ---------------- hash_to_range ---------------- *)
Theorem hash_to_range_siphash key v f :
  length key = 16%nat -> bytes_ok key -> bytes_ok v -> 0 <= f ->
  hash_to_range siphash key v f = Ok (Spec.Bip158.hash_to_range key v f) /\
  0 <= Spec.Bip158.hash_to_range key v f /\
  (0 < f -> Spec.Bip158.hash_to_range key v f < f) /\
  (f = 0 -> Spec.Bip158.hash_to_range key v f = 0).
Proof.
  intros L Hk Hv Hf.
  assert (E : hash_to_range siphash key v f = Ok (Spec.Bip158.hash_to_range key v f)).
  { unfold hash_to_range. rewrite (siphash_eq_spec key v L Hk Hv). cbn [bind].
    unfold Spec.Bip158.hash_to_range. now rewrite Z.shiftr_div_pow2 by lia. }
  split; [exact E|].
  destruct (hash_to_range_bounds siphash key v f _
              (fun s Es => siphash_range key [v] L Hk (Forall_cons v Hv (Forall_nil _)) v s (or_introl eq_refl) Es) Hf E)
    as [A B].
  split; [exact A|]. split; [exact B|].
  intros ->. unfold Spec.Bip158.hash_to_range. rewrite Z.mul_0_r. reflexivity.
Qed.

Lemma hash_to_range_bad_key key v f : length key <> 16%nat -> hash_to_range siphash key v f = Err.
Proof.
  intros H. unfold hash_to_range, siphash. now rewrite (siphash_chunks_bad_key key [v] H).
Qed.

(* ---------------- exact membership ---------------- *)
Section WithSip.
Variable sip : bytes -> bytes -> result Z.

Lemma hashed_items_members key items l :
  hashed_items sip key items = Ok l ->
  forall h, In h l <-> exists y, In y items /\ hash_to_range sip key y (zlen items * GOLOMB_M) = Ok h.
Proof.
  unfold hashed_items. destruct (map_res _ items) as [m|] eqn:Em; [|discriminate]. cbn [bind]. intros [= <-] h.
  rewrite zsort_in. split.
  - intros Hin. destruct (map_res_out _ _ _ _ Em Hin) as [y [Hy E]]. now exists y.
  - intros [y [Hy E]]. destruct (map_res_in _ _ _ _ Em Hy) as [h' [E' I]]. congruence.
Qed.

(* a query is reported present exactly when its value in [0, N*M) is the value of an element *)
Theorem cf_contains_iff key items fb :
  sip_range sip key items -> encode_gcs sip key items = Ok fb ->
  exists cf, cf_parse key fb = Ok cf /\
    forall x, cf_contains sip cf x = Ok true <->
      exists y h, In y items /\ hash_to_range sip key x (zlen items * GOLOMB_M) = Ok h /\
                  hash_to_range sip key y (zlen items * GOLOMB_M) = Ok h.
Proof.
  intros Hr He. destruct (encode_decode_gcs sip key items fb Hr He) as [l [Eh Ed]].
  destruct (hashed_items_props sip key items l Hr Eh) as [Hl _].
  unfold cf_parse. rewrite Ed. cbn [bind]. eexists. split; [reflexivity|].
  assert (Hf : zlen l * GOLOMB_M = zlen items * GOLOMB_M) by (unfold zlen; now rewrite Hl).
  intros x. unfold cf_contains, cf_compute_hash, cf_new. cbn [cf_key cf_f cf_hashes]. rewrite Hf.
  destruct (hash_to_range sip key x (zlen items * GOLOMB_M)) as [h|] eqn:Ex; cbn [bind].
  - split.
    + intros [= Zm]. apply zmem_in in Zm. apply (hashed_items_members key items l Eh) in Zm.
      destruct Zm as [y [Hy Ey]]. now exists y, h.
    + intros [y [h' [Hy [[= <-] Ey]]]]. f_equal. apply zmem_in.
      apply (hashed_items_members key items l Eh). now exists y.
  - split; [discriminate|]. intros [y [h' [_ [A _]]]]. discriminate.
Qed.
End WithSip.

(* ---------------- SipHash object API ---------------- *)
Lemma int_to_le_8_in64 h : 0 <= h < 2 ^ 64 -> int_to_le h 8 = Ok (to_le 8 h).
Proof. intros H. apply int_to_le_ok. rewrite pow256_8. change (2 ^ 64) with 18446744073709551616 in H. lia. Qed.

Theorem siphash_digest_spec key v :
  length key = 16%nat -> bytes_ok key -> bytes_ok v ->
  siphash_digest key v = Ok (to_le 8 (Spec.Siphash.siphash24 key v)) /\
  siphash_hexdigest key v = Ok (hexlify (to_le 8 (Spec.Siphash.siphash24 key v))) /\
  from_le (to_le 8 (Spec.Siphash.siphash24 key v)) = Spec.Siphash.siphash24 key v.
Proof.
  intros L Hk Hv. pose proof (siphash24_in64 key v Hk Hv) as R. unfold in64 in R. rewrite W64_pow in R.
  assert (E : siphash_digest key v = Ok (to_le 8 (Spec.Siphash.siphash24 key v))).
  { unfold siphash_digest. rewrite (siphash_eq_spec key v L Hk Hv). cbn [bind]. now apply int_to_le_8_in64. }
  split; [exact E|]. split.
  - unfold siphash_hexdigest. now rewrite E.
  - apply from_le_to_le. rewrite pow256_8. change (2 ^ 64) with 18446744073709551616 in R. lia.
Qed.

(* SipHash_2_4(key, s0).update(c1)...update(cn).digest() *)
Theorem sip_object_digest key s0 chunks st :
  length key = 16%nat -> bytes_ok key -> bytes_ok s0 -> Forall (fun c => bytes_ok c) chunks ->
  sip_new key s0 = Ok st ->
  sip_hash (fold_left sip_update chunks st) = Spec.Siphash.siphash24 key (s0 ++ concat chunks) /\
  sip_digest (fold_left sip_update chunks st) = Ok (to_le 8 (Spec.Siphash.siphash24 key (s0 ++ concat chunks))).
Proof.
  intros L Hk H0 Hc. unfold sip_new. destruct (sip_init key) as [st0|] eqn:Ei; [|discriminate].
  cbn [bind]. intros [= <-].
  pose proof (siphash_chunks_spec key (s0 :: chunks) L Hk (Forall_cons s0 H0 Hc)) as S.
  unfold siphash_chunks in S. rewrite Ei in S. cbn [bind fold_left concat] in S. injection S as S.
  split; [exact S|]. unfold sip_digest. rewrite S. apply int_to_le_8_in64.
  pose proof (siphash24_in64 key (s0 ++ concat chunks) Hk) as R. unfold in64 in R. rewrite W64_pow in R.
  apply R. apply bytes_ok_app. split; [assumption|]. unfold bytes_ok. now apply Forall_concat.
Qed.

(* ---------------- CFilterMessage ---------------- *)
Section Msg.
Variable sip : bytes -> bytes -> result Z.

(* a cfilter message carrying the BIP158 filter of a block keyed with the first 16 bytes of the block hash in
   wire order: every element is reported present through CFilterMessage.parse(...).__contains__, and
   CFilterMessage.hash() is hash256 of the filter bytes *)
Theorem cfilter_message_members t bh items fb rest :
  length bh = 32%nat -> sip_range sip (cfmsg_key bh) items ->
  encode_gcs sip (cfmsg_key bh) items = Ok fb -> zlen fb < 9223372036854775808 ->
  exists wire, cfilter_layout t bh fb = Ok wire /\
    (forall x, In x items -> cfmsg_contains sip (wire ++ rest) x = Ok true) /\
    (forall x, In x items -> cfmsg_new_contains sip bh fb x = Ok true) /\
    (forall hash256, cfmsg_hash hash256 (wire ++ rest) = Ok (hash256 fb)).
Proof.
  intros Lb Hr He Hl.
  destruct (encode_decode_gcs sip _ items fb Hr He) as [l [Eh Ed]].
  destruct (cfilter_roundtrip t bh fb l rest Lb Hl Ed) as [wire [Ew Ep]].
  destruct (cf_no_false_negative sip _ items fb Hr He) as [cf [Ecf [_ [_ Hc]]]].
  exists wire. split; [exact Ew|].
  assert (Ecf' : cf = cf_new (cfmsg_key bh) l).
  { unfold cf_parse in Ecf. rewrite Ed in Ecf. cbn [bind] in Ecf. now injection Ecf as <-. }
  repeat split.
  - intros x Hx. unfold cfmsg_contains. rewrite Ep. cbn [bind]. rewrite <- Ecf'. now apply Hc.
  - intros x Hx. unfold cfmsg_new_contains. rewrite Ecf. cbn [bind]. now apply Hc.
  - intros h. unfold cfmsg_hash. now rewrite Ep.
Qed.
End Msg.

Lemma cfmsg_key_length bh : length bh = 32%nat -> length (cfmsg_key bh) = 16%nat.
Proof. intros H. unfold cfmsg_key. rewrite firstn_length, rev_length. lia. Qed.

Lemma cfmsg_key_ok bh : bytes_ok bh -> bytes_ok (cfmsg_key bh).
Proof. intros H. unfold cfmsg_key. now apply bytes_ok_firstn, bytes_ok_rev. Qed.

(* with the library's own SipHash, from the element list of a block: the cfilter message whose filter is the
   BIP158 filter under the key the block hash defines *)
Theorem cfilter_message_bip158 t bh items rest :
  length bh = 32%nat -> bytes_ok bh -> Forall bytes_ok items -> zlen items < 18446744073709551616 ->
  let fb := Spec.Bip158.filter_bytes (cfmsg_key bh) items in
  zlen fb < 9223372036854775808 ->
  exists wire, cfilter_layout t bh fb = Ok wire /\
    (forall x, In x items -> cfmsg_contains siphash (wire ++ rest) x = Ok true) /\
    (forall hash256, cfmsg_hash hash256 (wire ++ rest) = Ok (hash256 fb)).
Proof.
  intros Lb Hb Hi Hn fb Hl.
  pose proof (encode_gcs_bip158 (cfmsg_key bh) items (cfmsg_key_length bh Lb) (cfmsg_key_ok bh Hb) Hi Hn) as He.
  pose proof (siphash_range (cfmsg_key bh) items (cfmsg_key_length bh Lb) (cfmsg_key_ok bh Hb) Hi) as Hr.
  destruct (cfilter_message_members siphash t bh items fb rest Lb Hr He Hl) as [wire [A [B [_ C]]]].
  exists wire. repeat split; assumption.
Qed.

(* ---------------- CFHeadersMessage ---------------- *)
Section Hdr.
Variable hash256 : bytes -> bytes.

Lemma cfheader_chain_app prev a b :
  cfheader_chain hash256 prev (a ++ b) = cfheader_chain hash256 (cfheader_chain hash256 prev a) b.
Proof. unfold cfheader_chain. apply fold_left_app. Qed.

(* CFHeadersMessage.parse(wire).last_header, for every well-formed cfheaders message *)
Theorem cfheaders_last_header t stop prev hs rest :
  length stop = 32%nat -> length prev = 32%nat ->
  Forall (fun h => length h = 32%nat) hs -> zlen hs < 18446744073709551616 ->
  exists wire, cfheaders_layout t stop prev hs = Ok wire /\
    cfheaders_last hash256 (wire ++ rest) = Ok (fold_left (fun cur fh => hash256 (fh ++ cur)) hs prev).
Proof.
  intros Ls Lp Hw Hl. destruct (cfheaders_roundtrip t stop prev hs rest Ls Lp Hw Hl) as [wire [E P]].
  exists wire. split; [exact E|]. unfold cfheaders_last. rewrite P. reflexivity.
Qed.

(* two consecutive batches: when the second starts from the last header of the first, its last header is the
   header of the concatenated run *)
Theorem cfheaders_batches prev hs1 hs2 :
  cfheader_chain hash256 (cfheader_chain hash256 prev hs1) hs2 = cfheader_chain hash256 prev (hs1 ++ hs2).
Proof. symmetry. apply cfheader_chain_app. Qed.

(* the header after a run of filters, from the filters themselves: every step is
   hash256(hash256(filter) ++ previous header) *)
Theorem filter_headers_from_step prev fbs fb :
  filter_headers_from hash256 prev (fbs ++ [fb]) =
  hash256 (hash256 fb ++ filter_headers_from hash256 prev fbs).
Proof.
  unfold filter_headers_from. rewrite map_app, cfheader_chain_app. reflexivity.
Qed.
End Hdr.

(* the filter hash the chain consumes is the hash CompactFilter.hash() computes on every filter produced by
   encode_gcs (and CFilterMessage.hash() on the message that carries it) *)
Theorem filter_header_of_parsed (sip : bytes -> bytes -> result Z) hash256 key items fb prev :
  sip_range sip key items -> encode_gcs sip key items = Ok fb ->
  exists cf fh, cf_parse key fb = Ok cf /\ cf_hash hash256 cf = Ok fh /\
    cfheader_chain hash256 prev [fh] = hash256 (hash256 fb ++ prev).
Proof.
  intros Hr He. destruct (cf_serialize_parse_encode sip key items fb Hr He) as [cf [E1 [_ E3]]].
  exists cf, (hash256 fb). split; [exact E1|]. split; [apply E3|reflexivity].
Qed.
