(* Proofs/PsbtSignFinalP.v — Signer, Finaliser and the C06 model of Tx.verify_input composed:
   after sign_with_private_keys(K) on a PSBT whose input is an unsigned m-of-n P2WSH / P2SH-P2WSH /
   P2SH input, the input can be finalised EXACTLY when at least m of the script's keys are among the
   signers (and named in the input's derivations); the witness / scriptSig then carries the
   signatures of the first m such keys in script key order and verify_input accepts it whenever
   OP_CHECKMULTISIG accepts those m signatures. *)
From V Require Import Base.Prelude Base.Ints Model.Helper Model.Script Model.Tx Model.Psbt
  Model.PsbtSign Model.Op Model.Interp Model.Pecc Model.Taproot Model.Verify
  Proofs.PsbtDictP Proofs.PsbtCombineP Proofs.PsbtFinalP Proofs.PsbtFinal2P Proofs.PsbtSignP
  Proofs.VerifyP Proofs.VerifyCompleteP Proofs.PsbtVerifyP.

Definition mem (k : bytes) (l : list bytes) : bool := existsb (beq k) l.

(* pure dictionary fact: if the keys of the script that signed are exactly those satisfying S and
   key k carries f k, the signatures in script order are f over the signing script keys *)
Lemma key_sigs_signed keys (s : dict bytes) (S : bytes -> bool) (f : bytes -> bytes) :
  (forall k, In k keys -> dget s k = if S k then Some (f k) else None) ->
  key_sigs keys s = map f (filter S keys).
Proof.
  induction keys as [|k r IH]; intros H; [reflexivity|].
  unfold key_sigs in *. cbn [flat_map filter]. rewrite (H k (or_introl eq_refl)).
  rewrite IH by (intros k' Hk'; apply H; now right). destruct (S k); reflexivity.
Qed.

Section SF.
Variable sign_segwit : bytes -> tx -> Z -> option script -> option script -> result bytes.
Variable sign_legacy : bytes -> tx -> Z -> option script -> result bytes.

Notation sigfor := (sig_for sign_segwit sign_legacy).
Notation signin := (sign_in sign_segwit sign_legacy).
Notation signins := (sign_ins sign_segwit sign_legacy).
Notation signkey := (sign_key sign_segwit sign_legacy).
Notation signkeys := (sign_keys sign_segwit sign_legacy).

(* the signature key k contributes to input j (empty if the producer fails: then signing fails) *)
Definition the_sig (t : tx) (j : Z) (a : psbt_in) (ti : txin) (k : bytes) : bytes :=
  match sigfor k t j a ti with Ok sg => sg | Err => [] end.

Definition named (a : psbt_in) (k : bytes) : bool := is_some (dget (pi_named a) k).

(* the signature dictionary after the keys K have signed, one after the other *)
Fixpoint signed_sigs (K : list bytes) (t : tx) (j : Z) (a : psbt_in) (ti : txin) (s0 s : dict bytes) : Prop :=
  match K with
  | [] => s = s0
  | k :: r =>
      if named a k then exists sg, sigfor k t j a ti = Ok sg /\ signed_sigs r t j a ti (dset k sg s0) s
      else signed_sigs r t j a ti s0 s
  end.

Lemma signed_sigs_set K t j a ti s1 : forall s0 s,
  signed_sigs K t j (set_sigs a s1) ti s0 s <-> signed_sigs K t j a ti s0 s.
Proof.
  induction K as [|k r IH]; intros s0 s; cbn [signed_sigs]; [tauto|].
  change (named (set_sigs a s1) k) with (named a k).
  change (sigfor k t j (set_sigs a s1) ti) with (sigfor k t j a ti).
  destruct (named a k); [|apply IH]. split; intros [sg [H1 H2]]; exists sg; (split; [exact H1|]); now apply IH.
Qed.

Lemma signed_sigs_lookup K t j a ti : forall s0 s,
  signed_sigs K t j a ti s0 s ->
  forall k, dget s k = if mem k K && named a k then Some (the_sig t j a ti k) else dget s0 k.
Proof.
  induction K as [|k0 r IH]; intros s0 s H k; cbn [signed_sigs mem existsb] in *.
  - subst. reflexivity.
  - destruct (named a k0) eqn:N0.
    + destruct H as [sg [Hsg H]]. rewrite (IH _ _ H k). fold (mem k r).
      destruct (beq k k0) eqn:E.
      * apply beq_eq in E. subst k0. rewrite N0. cbn [orb andb].
        destruct (mem k r); cbn [andb]; [reflexivity|]. rewrite dget_dset_same.
        unfold the_sig. now rewrite Hsg.
      * cbn [orb]. destruct (mem k r && named a k); [reflexivity|].
        apply dget_dset_other. now apply beq_neq.
    + rewrite (IH _ _ H k). fold (mem k r). destruct (beq k k0) eqn:E; [|reflexivity].
      apply beq_eq in E. subst k0. rewrite N0. cbn [orb]. now rewrite !andb_false_r.
Qed.

Lemma sign_in_cases sec t i a ti y b :
  signin sec t i a ti = Ok (y, b) ->
  (named a sec = false /\ y = a) \/
  (named a sec = true /\ exists sg, sigfor sec t i a ti = Ok sg /\ y = set_sigs a (dset sec sg (pi_sigs a))).
Proof.
  unfold sign_in, named. destruct (is_some (dget (pi_named a) sec)).
  - intros H. apply bind_ok in H as [sg [Hs H]]. inversion H; subst. right. split; [reflexivity|]. eauto.
  - intros H. inversion H; subst. now left.
Qed.

Lemma sign_ins_nth sec t : forall l tis i ys b,
  signins sec t i l tis = Ok (ys, b) ->
  forall j a ti, nth_error l j = Some a -> nth_error tis j = Some ti ->
    exists y b', nth_error ys j = Some y /\ signin sec t (i + Z.of_nat j) a ti = Ok (y, b').
Proof.
  induction l as [|a0 l IH]; intros tis i ys b H j a ti Ha Hti.
  - destruct j; discriminate.
  - destruct tis as [|ti0 r']; [discriminate|]. cbn [sign_ins] in H.
    apply bind_ok in H as [[y0 b0] [H0 H]]. apply bind_ok in H as [[ys' b1] [H1 H]]. inversion H; subst.
    destruct j as [|j]; cbn in Ha, Hti.
    + inversion Ha; inversion Hti; subst. exists y0, b0. split; [reflexivity|]. now rewrite Z.add_0_r.
    + destruct (IH r' (i + 1) ys' b1 H1 j a ti Ha Hti) as (y & b' & Hy & Hs).
      exists y, b'. split; [exact Hy|]. replace (i + Z.of_nat (S j)) with (i + 1 + Z.of_nat j) by lia. exact Hs.
Qed.

(* every input after the keys K have signed *)
Lemma sign_keys_nth : forall K p P b,
  signkeys K p = Ok (P, b) ->
  p_tx P = p_tx p /\
  forall j a ti, nth_error (p_ins p) j = Some a -> nth_error (t_ins (p_tx p)) j = Some ti ->
    exists s, nth_error (p_ins P) j = Some (set_sigs a s) /\
              signed_sigs K (p_tx p) (Z.of_nat j) a ti (pi_sigs a) s.
Proof.
  induction K as [|k r IH]; intros p P b H.
  - cbn in H. inversion H; subst. split; [reflexivity|]. intros j a ti Ha _.
    exists (pi_sigs a). split; [now rewrite set_sigs_self|reflexivity].
  - cbn [sign_keys] in H. apply bind_ok in H as [[p1 b1] [H1 H]]. apply bind_ok in H as [[P' b2] [H2 H]].
    inversion H; subst P' b. clear H.
    destruct (sign_key_inv _ _ _ _ _ _ H1) as [ys [Hys ->]].
    destruct (IH _ _ _ H2) as [Et Hn]. cbn [with_ins p_tx p_ins] in Et, Hn.
    split; [exact Et|]. intros j a ti Ha Hti.
    destruct (sign_ins_nth _ _ _ _ _ _ _ Hys j a ti Ha Hti) as (y & b' & Hy & Hs).
    rewrite Z.add_0_l in Hs.
    destruct (Hn j y ti Hy Hti) as [s [HP Hss]].
    cbn [signed_sigs].
    destruct (sign_in_cases _ _ _ _ _ _ _ Hs) as [[N ->]|[N [sg [Hsg ->]]]]; rewrite N.
    + exists s. split; [exact HP|exact Hss].
    + exists s. split; [exact HP|]. exists sg. split; [exact Hsg|].
      apply signed_sigs_set in Hss. exact Hss.
Qed.

(* the signatures by script keys after signing: the signing script keys, in script order *)
Theorem signed_key_sigs K p P b j a ti keys :
  signkeys K p = Ok (P, b) ->
  nth_error (p_ins p) j = Some a -> nth_error (t_ins (p_tx p)) j = Some ti ->
  (forall k, In k keys -> dget (pi_sigs a) k = None) ->          (* no script key has signed yet *)
  exists s, nth_error (p_ins P) j = Some (set_sigs a s) /\
    key_sigs keys s = map (the_sig (p_tx p) (Z.of_nat j) a ti)
                          (filter (fun k => mem k K && named a k) keys).
Proof.
  intros H Ha Hti Hfresh. destruct (sign_keys_nth _ _ _ _ H) as [_ Hn].
  destruct (Hn j a ti Ha Hti) as [s [HP Hs]]. exists s. split; [exact HP|].
  apply key_sigs_signed. intros k Hk. rewrite (signed_sigs_lookup _ _ _ _ _ _ _ Hs k).
  now rewrite (Hfresh k Hk).
Qed.

(* ---- composition: sign, finalize, verify for a native P2WSH m-of-n input ---- *)
Section WithVerify.
Variable C : curve.
Variables ripemd160 sha1 sha256 hash160 hash256 : bytes -> bytes.
Variable so : sigops.
Variable c : txctx.

Theorem sign_finalize_verify_p2wsh K p P b j a ti spk ws m keys raw :
  signkeys K p = Ok (P, b) ->
  nth_error (p_ins p) j = Some a -> nth_error (t_ins (p_tx p)) j = Some ti ->
  (forall k, In k keys -> dget (pi_sigs a) k = None) ->
  in_script_pubkey a ti = Ok (Some spk) ->
  s_cmds spk = p2wsh_script (sha256 raw) -> length (sha256 raw) = 32%nat ->
  pi_redeem a = None -> pi_wscript a = Some ws ->
  s_cmds ws = multisig_script m keys -> raw_serialize ws = Ok raw ->
  parse_cmds raw = Ok (multisig_script m keys) ->
  1 <= m <= 16 -> 1 <= zlen keys <= 16 -> NoDup keys ->
  let signers := filter (fun k => mem k K && named a k) keys in
  let got := firstn (Z.to_nat m) (map (the_sig (p_tx p) (Z.of_nat j) a ti) signers) in
  exists x, nth_error (p_ins P) j = Some x /\
    ((exists x', in_finalize x ti = Ok x') <-> m <= zlen signers) /\
    forall x', in_finalize x ti = Ok x' ->
      pi_script_sig x' = Some (mk_script []) /\ pi_witness x' = Some ([] :: got ++ [raw]) /\
      (nonempty_sigs got = true -> so_multisig so (rev keys) (rev got) = Ok true ->
       verify_input C ripemd160 sha1 sha256 hash160 hash256 so c ([] :: got ++ [raw]) [] (s_cmds spk) = OTrue).
Proof.
  intros H Ha Hti Hfresh Hspk Hcs Hl Hr Hws Hw Hraw Hp Hm Hk Hn signers got.
  destruct (signed_key_sigs K p P b j a ti keys H Ha Hti Hfresh) as [s [HP Hks]].
  exists (set_sigs a s). split; [exact HP|].
  pose proof (finalize_p2wsh_multisig C ripemd160 sha1 sha256 hash160 hash256 so c
                (set_sigs a s) ti spk ws m keys raw Hspk Hcs Hl Hr Hws Hw Hraw Hp Hm Hk Hn) as [F1 F2].
  cbn [pi_sigs set_sigs] in F1, F2. rewrite Hks in F1, F2. fold signers in F1, F2. fold got in F2.
  split.
  - rewrite F1. unfold zlen. now rewrite map_length.
  - intros x' Hx. destruct (F2 x' Hx) as (E & _ & V). subst x'. cbn. repeat split; try reflexivity. exact V.
Qed.
End WithVerify.

End SF.
