(* Proofs/SighashVerifyExtP.v — C05: history independence at the outermost verifier.
   Tx.verify_input(i) (the C06 model of Script.evaluate run with the digests of the Tx object)
   (a) does not depend on the memo fields of the object (earlier digest computations), and
   (b) does not depend on the scriptSigs and witnesses of the OTHER inputs: signing or finalising
       input j leaves the verdict on input i unchanged.
   Both follow from: Script.evaluate only looks at the VERDICTS of the signature record. *)
From V Require Import Base.Prelude Base.Ints Model.Helper Model.Script Model.Op Model.Interp
  Model.Pecc Model.Taproot Model.Verify Model.Tx Model.Sighash Model.SighashSig
  Proofs.SighashP Proofs.SighashHistP Proofs.SighashSigP Proofs.SighashSignP Proofs.VerifyP.

(* two verdict records that answer every question alike *)
Definition so_ext (so1 so2 : sigops) : Prop :=
  (forall a b, so_checksig so1 a b = so_checksig so2 a b) /\
  (forall a b, so_multisig so1 a b = so_multisig so2 a b) /\
  (forall a, so_xonly_ok so1 a = so_xonly_ok so2 a) /\
  (forall a b c, so_schnorr so1 a b c = so_schnorr so2 a b c).

Section Ext.
Variables so1 so2 : sigops.
Hypothesis E : so_ext so1 so2.

Lemma op_checksig_ext s : op_checksig so1 s = op_checksig so2 s.
Proof.
  destruct E as (E1 & _). unfold op_checksig. destruct s as [|sec [|sg r]]; try reflexivity.
  destruct sg; [reflexivity|]. now rewrite E1.
Qed.

Lemma op_checksigverify_ext s : op_checksigverify so1 s = op_checksigverify so2 s.
Proof. unfold op_checksigverify. now rewrite op_checksig_ext. Qed.

Lemma op_checkmultisig_ext s : op_checkmultisig so1 s = op_checkmultisig so2 s.
Proof.
  destruct E as (_ & E2 & _). unfold op_checkmultisig. destruct s as [|e s1]; [reflexivity|].
  destruct (zlen s1 <? decode_num e + 1); [reflexivity|].
  destruct (pop_n (Z.to_nat (decode_num e)) s1) as [[secs s2]|]; cbn [bind]; [|reflexivity].
  destruct s2 as [|em s3]; [reflexivity|].
  destruct (zlen s3 <? decode_num em + 1); [reflexivity|].
  destruct (pop_n (Z.to_nat (decode_num em)) s3) as [[sigs s4]|]; cbn [bind]; [|reflexivity].
  destruct (existsb _ sigs); [reflexivity|]. destruct s4 as [|x s5]; [reflexivity|].
  now rewrite E2.
Qed.

Lemma op_checkmultisigverify_ext s : op_checkmultisigverify so1 s = op_checkmultisigverify so2 s.
Proof. unfold op_checkmultisigverify. now rewrite op_checkmultisig_ext. Qed.

Lemma op_checksig_schnorr_ext s : op_checksig_schnorr so1 s = op_checksig_schnorr so2 s.
Proof.
  destruct E as (_ & _ & E3 & E4). unfold op_checksig_schnorr. destruct s as [|pk [|sg r]]; try reflexivity.
  rewrite E3. destruct (negb (so_xonly_ok so2 pk)); [reflexivity|].
  destruct sg as [|x0 sg]; [reflexivity|]. destruct (negb (schnorr_form_ok (x0 :: sg))); [reflexivity|].
  destruct (schnorr_split _) as [sg' ht]. now rewrite E4.
Qed.

Lemma op_checksigverify_schnorr_ext s :
  op_checksigverify_schnorr so1 s = op_checksigverify_schnorr so2 s.
Proof. unfold op_checksigverify_schnorr. now rewrite op_checksig_schnorr_ext. Qed.

Lemma op_checksigadd_schnorr_ext s : op_checksigadd_schnorr so1 s = op_checksigadd_schnorr so2 s.
Proof.
  destruct E as (_ & _ & E3 & E4). unfold op_checksigadd_schnorr.
  destruct s as [|pk [|en [|sg r]]]; try reflexivity.
  rewrite E3. destruct (negb (so_xonly_ok so2 pk)); [reflexivity|].
  destruct sg as [|x0 sg]; [reflexivity|]. destruct (negb (schnorr_form_ok (x0 :: sg))); [reflexivity|].
  destruct (schnorr_split _) as [sg' ht]. now rewrite E4.
Qed.

Variable C : curve.
Variables ripemd160 sha1 sha256 hash160 hash256 : bytes -> bytes.
Variable c : txctx.
Variable witness : list bytes.

Lemma exec_op_ext tap o rest s a :
  exec_op (table ripemd160 sha1 sha256 hash160 hash256 so1 tap) c o rest s a =
  exec_op (table ripemd160 sha1 sha256 hash160 hash256 so2 tap) c o rest s a.
Proof.
  unfold exec_op, table. destruct tap.
  - unfold taproot_op_code_functions.
    destruct (o =? 172); [cbv beta iota; now rewrite op_checksig_schnorr_ext|].
    destruct (o =? 173); [cbv beta iota; now rewrite op_checksigverify_schnorr_ext|].
    destruct ((o =? 174) || (o =? 175)); [reflexivity|].
    destruct (o =? 186); [cbv beta iota; now rewrite op_checksigadd_schnorr_ext|].
    reflexivity.
  - unfold op_code_functions.
    destruct (o =? 172); [cbv beta iota; now rewrite op_checksig_ext|].
    destruct (o =? 173); [cbv beta iota; now rewrite op_checksigverify_ext|].
    destruct (o =? 174); [cbv beta iota; now rewrite op_checkmultisig_ext|].
    destruct (o =? 175); [cbv beta iota; now rewrite op_checkmultisigverify_ext|].
    reflexivity.
Qed.

Lemma witness_rule_ext rest s fl :
  witness_rule C sha256 so1 witness rest s fl = witness_rule C sha256 so2 witness rest s fl.
Proof.
  unfold witness_rule.
  repeat (match goal with
          | |- ?x = ?x => reflexivity
          | |- context [op_checksig_schnorr so1 ?st] => rewrite (op_checksig_schnorr_ext st)
          | |- context [match ?e with _ => _ end] =>
              lazymatch e with context [so1] => fail | _ => destruct e eqn:? end
          end).
Qed.

Lemma after_push_ext rest s fl :
  after_push C sha256 hash160 so1 witness rest s fl = after_push C sha256 hash160 so2 witness rest s fl.
Proof.
  unfold after_push. destruct (p2sh_rule hash160 rest s fl) as [[[rest1 s1] fl1]|]; cbn [bind]; [|reflexivity].
  apply witness_rule_ext.
Qed.

Lemma vloop_ext fuel : forall cmds s a fl,
  vloop C ripemd160 sha1 sha256 hash160 hash256 so1 c witness fuel cmds s a fl =
  vloop C ripemd160 sha1 sha256 hash160 hash256 so2 c witness fuel cmds s a fl.
Proof.
  induction fuel as [|f IH]; intros cmds s a fl; destruct cmds as [|cm rest]; try reflexivity.
  destruct cm as [o|b].
    + rewrite !vloop_op_step. rewrite exec_op_ext.
      destruct (exec_op (table ripemd160 sha1 sha256 hash160 hash256 so2 (f_tap fl)) c o rest s a)
        as [[[rest' s'] a']|]; [apply IH|reflexivity].
    + rewrite !vloop_push_step. rewrite after_push_ext.
      destruct (after_push C sha256 hash160 so2 witness rest (b :: s) fl) as [[[rest' s'] fl']|];
        [apply IH|reflexivity].
Qed.

Lemma evaluate_full_ext cmds p w :
  evaluate_full C ripemd160 sha1 sha256 hash160 hash256 so1 c witness cmds p w =
  evaluate_full C ripemd160 sha1 sha256 hash160 hash256 so2 c witness cmds p w.
Proof. unfold evaluate_full. apply vloop_ext. Qed.

Lemma verify_input_ext ss spk :
  verify_input C ripemd160 sha1 sha256 hash160 hash256 so1 c witness ss spk =
  verify_input C ripemd160 sha1 sha256 hash160 hash256 so2 c witness ss spk.
Proof. unfold verify_input. now rewrite !evaluate_full_ext. Qed.

End Ext.

(* ------------------------------------------------------------------ the Tx object *)
Lemma nth_error_upd_nth_other {A} (f : A -> A) j : forall (l : list A) i,
  i <> j -> nth_error (upd_nth j f l) i = nth_error l i.
Proof.
  induction j as [|j IH]; intros [|y r] i H; cbn [upd_nth]; try reflexivity.
  - destruct i; [congruence|reflexivity].
  - destruct i; [reflexivity|]. cbn [nth_error]. apply IH. congruence.
Qed.

Section OnTx.
Variables hash256 sha256 hash_tapsighash hash_tapleaf : bytes -> bytes.
Variable xonly_ok : bytes -> bool.
Variable pr : sigprims.
Variable C : curve.
Variables ripemd160 sha1 hash160 : bytes -> bytes.

Notation SIG_HASH := (sig_hash hash256 sha256 hash_tapsighash hash_tapleaf xonly_ok).
Notation SIGOPS := (tx_sigops hash256 sha256 hash_tapsighash hash_tapleaf xonly_ok pr).
Notation VERIFY := (tx_verify_input hash256 sha256 hash_tapsighash hash_tapleaf xonly_ok pr C
                      ripemd160 sha1 hash160).

Lemma sigops_memo_ext t sp idx m1 m2 : so_ext (SIGOPS t sp idx m1) (SIGOPS t sp idx m2).
Proof.
  split; [|split; [|split]].
  - intros a b. apply tx_checksig_indep.
  - intros a b. apply tx_multisig_indep.
  - reflexivity.
  - intros a b ht. cbn [so_schnorr tx_sigops]. now rewrite !tx_schnorr_fresh.
Qed.

(* (a) earlier digest computations on the object do not matter to verify_input *)
Theorem tx_verify_input_memo_indep t sp idx m1 m2 : VERIFY t sp idx m1 = VERIFY t sp idx m2.
Proof.
  unfold tx_verify_input. destruct (nth_error (t_ins t) idx) as [ti|]; [|reflexivity].
  destruct (nth_error sp idx) as [s|]; [|reflexivity].
  now rewrite (verify_input_ext _ _ (sigops_memo_ext t sp idx m1 m2)).
Qed.

(* Tx.sig_hash for input idx reads, beyond the core, only input idx itself *)
Lemma sig_hash_same_input t t' sp idx ht m :
  same_core t t' -> nth_error (t_ins t) idx = nth_error (t_ins t') idx ->
  SIG_HASH t sp idx ht m = SIG_HASH t' sp idx ht m.
Proof.
  intros Hc Hn. unfold sig_hash. rewrite <- Hn.
  destruct (nth_error (t_ins t) idx) as [ti|] eqn:Eti; [|reflexivity].
  destruct (nth_error sp idx) as [s|]; [|reflexivity].
  destruct (sig_hash_plan ti (sp_script s)) as [[redeem|redeem wscript|ext]|]; cbn [bind]; [| | |reflexivity].
  - now rewrite (sig_hash_legacy_core hash256 t t' sp idx redeem ht Hc).
  - now rewrite (sig_hash_bip143_core hash256 t t' sp idx redeem wscript ht m Hc).
  - rewrite (sig_hash_bip341_core sha256 hash_tapsighash hash_tapleaf xonly_ok t t' sp idx ext ht m Hc);
      [reflexivity|].
    intros a b Ea Eb. rewrite <- Hn in Eb. rewrite Eti in Ea. inversion Ea; inversion Eb; subst.
    left. reflexivity.
Qed.

Lemma sigops_same_input_ext t t' sp idx m :
  same_core t t' -> nth_error (t_ins t) idx = nth_error (t_ins t') idx ->
  so_ext (SIGOPS t sp idx m) (SIGOPS t' sp idx m).
Proof.
  intros Hc Hn.
  assert (Hd : forall ht, tx_digest hash256 sha256 hash_tapsighash hash_tapleaf xonly_ok t sp idx m ht =
                          tx_digest hash256 sha256 hash_tapsighash hash_tapleaf xonly_ok t' sp idx m ht).
  { intros ht. unfold tx_digest. now rewrite (sig_hash_same_input t t' sp idx ht m Hc Hn). }
  assert (Hck : forall a b, tx_checksig hash256 sha256 hash_tapsighash hash_tapleaf xonly_ok pr t sp idx m a b =
                            tx_checksig hash256 sha256 hash_tapsighash hash_tapleaf xonly_ok pr t' sp idx m a b).
  { intros a b. unfold tx_checksig. now rewrite Hd. }
  split; [|split; [|split]].
  - exact Hck.
  - intros a b. cbn [so_multisig tx_sigops]. apply multisig_loop_ext. intros k sg. now rewrite Hck.
  - reflexivity.
  - intros a b ht. cbn [so_schnorr tx_sigops]. unfold tx_schnorr. now rewrite Hd.
Qed.

(* (b) the verdict on input idx is the same on any state of the transaction that agrees on the
   core and on input idx itself: whatever was done to the OTHER inputs (signed, finalised,
   witnesses replaced) and whatever digests were computed in between *)
Theorem tx_verify_input_same_input t t' sp idx m m' :
  same_core t t' -> nth_error (t_ins t) idx = nth_error (t_ins t') idx ->
  VERIFY t sp idx m = VERIFY t' sp idx m'.
Proof.
  intros Hc Hn. rewrite (tx_verify_input_memo_indep t' sp idx m' m).
  pose proof (sigops_same_input_ext t t' sp idx m Hc Hn) as Hext.
  destruct Hc as (Hv & Ho & Hl & Hi).
  unfold tx_verify_input. rewrite <- Hn.
  destruct (nth_error (t_ins t) idx) as [ti|]; [|reflexivity].
  destruct (nth_error sp idx) as [s|]; [|reflexivity].
  rewrite <- Hv, <- Hl. now rewrite (verify_input_ext _ _ Hext).
Qed.

(* in particular: finalising (or otherwise editing scriptSig / witness of) input j <> idx *)
Corollary tx_verify_input_other_input_edit t sp idx j f m m' :
  j <> idx -> (forall i, in_core_eq i (f i)) ->
  VERIFY (tx_upd_in t j f) sp idx m' = VERIFY t sp idx m.
Proof.
  intros Hj Hf. symmetry. apply tx_verify_input_same_input.
  - now apply same_core_upd.
  - unfold tx_upd_in, with_ins. cbn [t_ins]. symmetry. apply nth_error_upd_nth_other. congruence.
Qed.

End OnTx.
