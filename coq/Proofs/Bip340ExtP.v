(* Proofs/Bip340ExtP.v — further proofs for C02:
   - verify_schnorr on point OBJECTS of either parity and signature objects with any integer s
     = BIP340 Verify of the corresponding byte strings (covers the `-1 * self` branch);
   - S256Point.parse + SchnorrSignature.parse + verify_schnorr on byte strings of ANY length
     (SEC keys, short / long signature strings) reduced to BIP340 Verify;
   - the 64-byte codec: serialize . parse = id, parse . serialize = id, parse injective, __eq__;
   - tamper clauses that need no assumption about the hash: for a key, message and R at most
     one s is accepted; a second accepted message collides in the challenge hash mod n;
   - the literal reject clauses of the property (R = 0, R >= p, R off the curve, s >= n, bad key);
   - bip340_k = the nonce of BIP340 Default Signing; length errors; the aux=None default;
   - sign_schnorr / verify_schnorr / bip340_k with TAG_HASH_CACHE threaded as state = the pure ones. *)
From Coq Require Import Znumtheory Zdiv Setoid Morphisms String.
From V Require Import Base.Prelude Base.Ints Base.Disp Base.Fermat Model.Pecc Model.Phash
  Proofs.GroupHyp Proofs.BytesP Proofs.EcdsaP Spec.Bip340 Proofs.Bip340P.
From V Require Proofs.PeccEnc.
Local Existing Instance eqm_setoid.
Local Existing Instance Zplus_eqm.
Local Existing Instance Zmult_eqm.
Local Existing Instance Zminus_eqm.
Local Existing Instance Zopp_eqm.

(* ================================================================== the canonical form of a signature string *)

Lemma sig_canon_length sig : (32 <= length sig)%nat -> length (sig_canon sig) = 64%nat.
Proof.
  intros H. unfold sig_canon. rewrite app_length, to_be_length, firstn_length. lia.
Qed.

Lemma sig_canon_ok sig : bytes_ok sig -> bytes_ok (sig_canon sig).
Proof.
  intros H. unfold sig_canon. apply bytes_ok_app. split; [now apply bytes_ok_firstn|apply to_be_ok].
Qed.

Lemma sig_canon_64 sig : length sig = 64%nat -> bytes_ok sig -> sig_canon sig = sig.
Proof.
  intros L B. unfold sig_canon.
  assert (L2 : length (skipn 32 sig) = 32%nat) by (rewrite skipn_length; lia).
  rewrite (firstn_all2 (n := 32) (skipn 32 sig)) by lia.
  rewrite (to_be_from_be_n 32) by (try assumption; now apply bytes_ok_skipn).
  apply firstn_skipn.
Qed.

Section Ext.
Variable C : curve.
Variable sha256 : bytes -> bytes.
Hypothesis SL : scalar_laws C.
Hypothesis Ha0 : ca C = 0.
Hypothesis Hp34 : cp C mod 4 = 3.
Hypothesis Hp256 : cp C <= 2 ^ 256.
Hypothesis Hn256 : cn C <= 2 ^ 256.
Let p := cp C.
Let n := cn C.

Local Notation valid_some := (valid_some C SL Ha0).
Local Notation evenP := (evenP C).
Local Notation verify_point := (verify_point C sha256).
Local Notation challenge := (challenge C sha256).

Lemma n_gt2' : 2 < n. Proof. exact (sl_n_odd C SL). Qed.

Lemma p_lt_pow : p < pow256 32.
Proof.
  rewrite pow256_32. fold p in Hp256, Hp34.
  destruct (Z.eq_dec p (2 ^ 256)) as [E|E]; [|lia].
  rewrite E in Hp34. vm_compute in Hp34. discriminate.
Qed.

(* ================================================================== group helpers *)

Lemma addT_cancel_r A B Q : valid C A -> valid C B -> valid C Q ->
  addT C A Q = addT C B Q -> A = B.
Proof.
  intros VA VB VQ E.
  pose proof (sl_neg_valid C SL Q VQ) as VN.
  rewrite <- (sl_add_0_r C SL A), <- (sl_add_0_r C SL B).
  rewrite <- (sl_add_neg C SL Q VQ).
  rewrite <- !(sl_add_assoc C SL) by assumption. now rewrite E.
Qed.

Lemma negT_inj A B : valid C A -> valid C B -> negT C A = negT C B -> A = B.
Proof.
  intros VA VB E.
  pose proof (sl_neg_valid C SL A VA) as VNA.
  assert (H : addT C A (negT C A) = addT C B (negT C A)).
  { rewrite (sl_add_neg C SL A VA). rewrite E. now rewrite (sl_add_neg C SL B VB). }
  exact (addT_cancel_r A B (negT C A) VA VB VNA H).
Qed.

Lemma mulT_sub a b Q : valid C Q ->
  mulT C (a - b) Q = addT C (mulT C a Q) (negT C (mulT C b Q)).
Proof.
  intros VQ. replace (a - b) with (a + - b) by ring.
  rewrite (sl_mul_add C SL) by assumption. now rewrite (mulT_neg C SL) by assumption.
Qed.

Lemma mulT_eq_sub a b Q : valid C Q -> mulT C a Q = mulT C b Q -> mulT C (a - b) Q = None.
Proof.
  intros VQ E. rewrite mulT_sub by assumption. rewrite E.
  apply (sl_add_neg C SL). now apply (mulT_valid C SL).
Qed.

(* every finite point has order n (n is prime): k*Q = O forces n | k *)
Lemma mulT_order k Q : valid C Q -> Q <> None -> mulT C k Q = None -> k mod n = 0.
Proof.
  intros VQ HQ E. pose proof n_gt2' as Hn.
  destruct (Z.eq_dec (k mod n) 0) as [Z|NZ]; [assumption|exfalso].
  pose proof (fermat_inv n k (sl_n_prime C SL) NZ) as Hinv.
  set (w := modpow k (n - 2) n) in *.
  apply HQ.
  assert (H1 : mulT C 1 Q = mulT C (w * k) Q).
  { apply (mulT_congr C SL). unfold eqm. fold n. rewrite (Z.mul_comm w k), Hinv.
    rewrite Z.mod_small; lia. }
  rewrite (sl_mul_1 C SL Q VQ) in H1. rewrite H1.
  rewrite <- (sl_mul_mul C SL) by assumption. rewrite E. apply (sl_mul_inf C SL).
Qed.

Lemma mod_eq_small a b : 0 <= a < n -> 0 <= b < n -> (a - b) mod n = 0 -> a = b.
Proof.
  intros Ha Hb E. apply Z.mod_divide in E; [|lia]. destruct E as [q E].
  assert (q = 0) by nia. lia.
Qed.

(* ================================================================== verify_point *)

Lemma evenP_idem P : valid C P -> evenP (evenP P) = evenP P.
Proof.
  destruct P as [[x y]|]; [|reflexivity]. intros HV.
  destruct (evenP_props C SL Ha0 Hp34 x y HV) as [y' [E [_ He]]]. rewrite E. cbn [Bip340P.evenP].
  replace (y' mod 2 =? 1) with false by (symmetry; apply Z.eqb_neq; lia). reflexivity.
Qed.

Lemma verify_point_even xr xp P m s : valid C P ->
  verify_point xr xp (evenP P) m s = verify_point xr xp P m s.
Proof. intros HV. unfold Bip340P.verify_point. now rewrite evenP_idem. Qed.

Lemma verify_point_smod xr xp P m s :
  verify_point xr xp P m (s mod n) = verify_point xr xp P m s.
Proof. unfold Bip340P.verify_point. unfold n. now rewrite (sl_mul_mod C SL). Qed.

(* ================================================================== verify_schnorr on objects *)

(* S256Point.verify_schnorr(msg, sig) for ANY point object P the constructor accepts (either
   parity) and ANY signature object: r a finite point of either parity, s any integer (the
   constructor only checks s < n; the addition reduces it mod n): the answer is BIP340 Verify of
   the byte strings bytes(x(P)), bytes(x(r)) || bytes(s mod n). *)
Theorem verify_object xp yp xr yr m s :
  valid C (Some (xp, yp)) -> valid C (Some (xr, yr)) ->
  schnorr_verify C sha256 (Some (xp, yp)) m (Some (xr, yr)) s =
  Ok (bip340_verify C sha256 (to_be 32 xp) m (to_be 32 xr ++ to_be 32 (s mod n))).
Proof.
  intros VP VR. pose proof n_gt2' as Hn.
  pose proof (proj1 (valid_some _ _) VP) as [Hxp _].
  pose proof (proj1 (valid_some _ _) VR) as [Hxr _]. fold p in Hxp, Hxr. fold p in Hp256.
  rewrite (schnorr_verify_core C sha256 SL Ha0 Hp34 Hp256) by (try assumption; lia).
  destruct (evenP_props C SL Ha0 Hp34 xp yp VP) as [ype [EPe [VPe Hype]]].
  assert (Hs : 0 <= s mod n < n) by (apply Z.mod_pos_bound; lia).
  destruct (sig_split (to_be 32 xr) (to_be 32 (s mod n)) (to_be_length _ _) (to_be_length _ _)) as [S1 S2].
  rewrite (bip340_verify_core C sha256 (to_be 32 xp) m _ xp ype).
  - rewrite S1, S2. fold n in Hn256.
    rewrite !from_be_to_be by (rewrite pow256_32; lia). fold p. fold n.
    replace (p <=? xr) with false by (symmetry; apply Z.leb_gt; lia).
    replace (n <=? s mod n) with false by (symmetry; apply Z.leb_gt; lia).
    rewrite verify_point_smod. rewrite <- EPe. rewrite verify_point_even by assumption. reflexivity.
  - rewrite int_of_from_be, from_be_to_be by (rewrite pow256_32; lia).
    apply (lift_x_of_valid C SL Ha0 Hp34); assumption.
  - assumption.
Qed.

Lemma verify_object_inf_key m r s : schnorr_verify C sha256 None m r s = Err.
Proof. reflexivity. Qed.

Lemma verify_object_inf_R xp yp m s : valid C (Some (xp, yp)) ->
  schnorr_verify C sha256 (Some (xp, yp)) m None s = Ok false.
Proof.
  intros VP. unfold schnorr_verify. rewrite (even_point_ok C SL) by assumption. reflexivity.
Qed.

(* ================================================================== byte strings of any length *)

Lemma parse_point_valid b P : parse_point C b = Ok P -> valid C P.
Proof.
  unfold parse_point. destruct (length b =? 32)%nat.
  - intros H. exact (proj1 (PeccEnc.parse_xonly_sound C SL Hp34 b P H)).
  - destruct ((length b =? 33)%nat || (length b =? 65)%nat); [|discriminate].
    intros H. exact (proj1 (PeccEnc.parse_sec_sound C Hp34 b P H)).
Qed.

Lemma schnorr_parse_inv sig r s : schnorr_parse C sig = Ok (r, s) ->
  parse_point C (firstn 32 sig) = Ok r /\ s = from_be (firstn 32 (skipn 32 sig)) /\ s < n /\ valid C r.
Proof.
  unfold schnorr_parse. destruct (parse_point C (firstn 32 sig)) as [r'|] eqn:E; [|discriminate].
  cbn [bind]. fold n. destruct (n <=? from_be (firstn 32 (skipn 32 sig))) eqn:E2; [discriminate|].
  intros [= <- <-]. apply Z.leb_gt in E2.
  split; [reflexivity|]. split; [reflexivity|]. split; [assumption|]. exact (parse_point_valid _ _ E).
Qed.

Lemma schnorr_parse_s_range sig r s : bytes_ok sig -> schnorr_parse C sig = Ok (r, s) -> 0 <= s < n.
Proof.
  intros Hb H. destruct (schnorr_parse_inv sig r s H) as [_ [-> [Hlt _]]].
  split; [|assumption]. apply from_be_bound. apply bytes_ok_firstn. now apply bytes_ok_skipn.
Qed.

(* S256Point.parse(pk).verify_schnorr(msg, SchnorrSignature.parse(sig)) for byte strings of ANY
   length (x-only, compressed or uncompressed SEC keys; short or long signature strings):
   True exactly when both parsers succeed with finite points and BIP340 Verify accepts the
   32-byte x coordinates and s. *)
Theorem accepts_general pk m sig : bytes_ok sig ->
  schnorr_accepts C sha256 pk m sig =
  match parse_point C pk, schnorr_parse C sig with
  | Ok (Some (xp, _)), Ok (Some (xr, _), s) =>
      bip340_verify C sha256 (to_be 32 xp) m (to_be 32 xr ++ to_be 32 s)
  | _, _ => false
  end.
Proof.
  intros Hb. unfold schnorr_accepts, schnorr_verify_bytes.
  destruct (parse_point C pk) as [[[xp yp]|]|] eqn:EP; cbn [bind].
  - pose proof (parse_point_valid _ _ EP) as VP.
    destruct (schnorr_parse C sig) as [[[[xr yr]|] s]|] eqn:ES; cbn [bind].
    + destruct (schnorr_parse_inv _ _ _ ES) as [_ [_ [_ VR]]].
      pose proof (schnorr_parse_s_range _ _ _ Hb ES) as Hs.
      rewrite verify_object by assumption. rewrite (Z.mod_small s n) by assumption.
      destruct (bip340_verify C sha256 _ m _); reflexivity.
    + rewrite verify_object_inf_R by assumption. reflexivity.
    + reflexivity.
  - destruct (schnorr_parse C sig) as [[r s]|]; reflexivity.
  - reflexivity.
Qed.

Lemma schnorr_parse_canon sig : bytes_ok sig -> (32 <= length sig)%nat ->
  schnorr_parse C (sig_canon sig) = schnorr_parse C sig.
Proof.
  intros B L. unfold schnorr_parse.
  assert (L1 : length (firstn 32 sig) = 32%nat) by (rewrite firstn_length; lia).
  destruct (sig_split (firstn 32 sig) (to_be 32 (from_be (firstn 32 (skipn 32 sig)))) L1
              (to_be_length _ _)) as [S1 S2].
  unfold sig_canon. rewrite S1, S2.
  rewrite from_be_to_be; [reflexivity|].
  assert (B2 : bytes_ok (firstn 32 (skipn 32 sig))) by (apply bytes_ok_firstn; now apply bytes_ok_skipn).
  pose proof (from_be_bound _ B2) as [H0 H1]. split; [assumption|].
  eapply Z.lt_le_trans; [exact H1|]. unfold pow256.
  apply Z.pow_le_mono_r; [lia|]. rewrite firstn_length. lia.
Qed.

Theorem schnorr_parse_too_short sig : (length sig < 32)%nat -> schnorr_parse C sig = Err.
Proof.
  intros L. unfold schnorr_parse. rewrite (firstn_all2 (n := 32) sig) by lia.
  rewrite PeccEnc.parse_point_rejects_length by lia. reflexivity.
Qed.

(* bytes after the 64th are never read *)
Theorem schnorr_parse_ignores_tail sig extra : length sig = 64%nat ->
  schnorr_parse C (sig ++ extra) = schnorr_parse C sig.
Proof.
  intros L. unfold schnorr_parse.
  rewrite firstn_app, L. change (32 - 64)%nat with 0%nat. rewrite firstn_O, app_nil_r.
  rewrite skipn_app, L. change (32 - 64)%nat with 0%nat. rewrite skipn_O.
  assert (L2 : length (skipn 32 sig) = 32%nat) by (rewrite skipn_length; lia).
  rewrite firstn_app, L2. change (32 - 32)%nat with 0%nat. rewrite firstn_O, app_nil_r.
  reflexivity.
Qed.

(* ================================================================== the 64-byte codec *)

Lemma xonly_of_parse_xonly b r : length b = 32%nat -> bytes_ok b -> parse_xonly C b = Ok r -> xonly r = b.
Proof.
  intros L B H. destruct (PeccEnc.parse_xonly_sound C SL Hp34 b r H) as [_ [[-> E]|[y [-> _]]]];
    cbn [xonly]; rewrite <- ?E; now apply to_be_from_be_n.
Qed.

(* SchnorrSignature.parse(sig).serialize() == sig for every 64-byte string the parser accepts *)
Theorem serialize_parse sig r s : length sig = 64%nat -> bytes_ok sig ->
  schnorr_parse C sig = Ok (r, s) -> schnorr_serialize r s = Ok sig.
Proof.
  intros L B H. pose proof (schnorr_parse_s_range _ _ _ B H) as Hs.
  destruct (schnorr_parse_inv _ _ _ H) as [HP [Es _]].
  assert (L1 : length (firstn 32 sig) = 32%nat) by (rewrite firstn_length; lia).
  assert (L2 : length (skipn 32 sig) = 32%nat) by (rewrite skipn_length; lia).
  rewrite parse_point_32 in HP by assumption.
  pose proof (xonly_of_parse_xonly _ _ L1 (bytes_ok_firstn 32 _ B) HP) as EX.
  unfold schnorr_serialize. fold n in Hn256.
  rewrite int_to_be_ok by (rewrite pow256_32; lia). cbn [bind]. rewrite EX. f_equal.
  rewrite Es. rewrite (firstn_all2 (n := 32) (skipn 32 sig)) by lia.
  rewrite (to_be_from_be_n 32) by (try assumption; now apply bytes_ok_skipn).
  apply firstn_skipn.
Qed.

(* for strings of any length >= 32 the re-serialisation is the canonical form *)
Theorem reserialize_canon sig r s : (32 <= length sig)%nat -> bytes_ok sig ->
  schnorr_parse C sig = Ok (r, s) -> schnorr_serialize r s = Ok (sig_canon sig).
Proof.
  intros L B H. apply serialize_parse.
  - now apply sig_canon_length.
  - now apply sig_canon_ok.
  - now rewrite schnorr_parse_canon.
Qed.

(* parsing is injective on 64-byte strings: two accepted strings with == objects are the same bytes *)
Theorem schnorr_parse_inj a b rs : length a = 64%nat -> bytes_ok a -> length b = 64%nat -> bytes_ok b ->
  schnorr_parse C a = Ok rs -> schnorr_parse C b = Ok rs -> a = b.
Proof.
  intros La Ba Lb Bb Ha Hb. destruct rs as [r s].
  pose proof (serialize_parse a r s La Ba Ha) as E1.
  pose proof (serialize_parse b r s Lb Bb Hb) as E2. congruence.
Qed.

Lemma pt_eq_iff P Q : pt_eq P Q = true <-> P = Q.
Proof.
  destruct P as [[x y]|], Q as [[x' y']|]; cbn [pt_eq]; try (split; [discriminate|congruence]); [|tauto].
  rewrite andb_true_iff, !Z.eqb_eq. split; [intros [-> ->]; reflexivity|intros [= -> ->]; auto].
Qed.

Lemma schnorr_sig_eq_iff x y : schnorr_sig_eq x y = true <-> x = y.
Proof.
  destruct x as [r s], y as [r' s']. unfold schnorr_sig_eq. cbn [fst snd].
  rewrite andb_true_iff, pt_eq_iff, Z.eqb_eq. split; [intros [-> ->]; reflexivity|intros [= -> ->]; auto].
Qed.

(* SchnorrSignature.parse(a) == SchnorrSignature.parse(b) is True exactly for equal accepted strings *)
Theorem schnorr_parse_eq_iff a b : length a = 64%nat -> bytes_ok a -> length b = 64%nat -> bytes_ok b ->
  (schnorr_parse_eq C a b = Ok true <-> a = b /\ exists rs, schnorr_parse C a = Ok rs).
Proof.
  intros La Ba Lb Bb. unfold schnorr_parse_eq. split.
  - destruct (schnorr_parse C a) as [x|] eqn:Ea; [|discriminate].
    destruct (schnorr_parse C b) as [y|] eqn:Eb; [|discriminate]. cbn [bind].
    intros [= H]. apply schnorr_sig_eq_iff in H. subst y.
    split; [exact (schnorr_parse_inj a b x La Ba Lb Bb Ea Eb)|now exists x].
  - intros [<- [rs E]]. rewrite E. cbn [bind]. f_equal. now apply schnorr_sig_eq_iff.
Qed.

(* SchnorrSignature.parse(SchnorrSignature(R, s).serialize()) for a finite R of either parity:
   the even representative of R (what the signer always uses) and s come back *)
Theorem parse_serialize x y s : valid C (Some (x, y)) -> x <> 0 -> 0 <= s < n ->
  exists b, schnorr_serialize (Some (x, y)) s = Ok b /\ length b = 64%nat /\ bytes_ok b /\
            schnorr_parse C b = Ok (evenP (Some (x, y)), s).
Proof.
  intros HV Hx0 Hs. fold n in Hn256.
  pose proof (proj1 (valid_some _ _) HV) as [Hx _]. fold p in Hx. fold p in Hp256.
  unfold schnorr_serialize. rewrite int_to_be_ok by (rewrite pow256_32; lia). cbn [bind xonly].
  eexists. split; [reflexivity|].
  split; [rewrite app_length, !to_be_length; reflexivity|].
  split; [apply bytes_ok_app; split; apply to_be_ok|].
  destruct (sig_split (to_be 32 x) (to_be 32 s) (to_be_length _ _) (to_be_length _ _)) as [S1 S2].
  unfold schnorr_parse. rewrite S1, S2.
  rewrite parse_point_32 by apply to_be_length.
  assert (Efx : from_be (to_be 32 x) = x) by (apply from_be_to_be; rewrite pow256_32; lia).
  rewrite (parse_xonly_lift C SL Ha0) by (rewrite ?Efx; try assumption; apply to_be_ok).
  rewrite Efx. destruct (evenP_props C SL Ha0 Hp34 x y HV) as [y' [E [HV' He]]].
  rewrite (lift_x_of_valid C SL Ha0 Hp34 x y' HV' He). cbn [opt_res bind]. fold n.
  rewrite from_be_to_be by (rewrite pow256_32; lia).
  replace (n <=? s) with false by (symmetry; apply Z.leb_gt; lia). now rewrite E.
Qed.

(* ================================================================== the reject clauses, literally *)

Lemma accepts_false_of_parse_err pk m sig : schnorr_parse C sig = Err -> schnorr_accepts C sha256 pk m sig = false.
Proof.
  intros E. unfold schnorr_accepts, schnorr_verify_bytes. rewrite E.
  destruct (parse_point C pk); reflexivity.
Qed.

(* s >= n: rejected, for every key string, message and signature string (no hypothesis at all) *)
Theorem reject_s_ge_n pk m sig : n <= from_be (firstn 32 (skipn 32 sig)) ->
  schnorr_accepts C sha256 pk m sig = false.
Proof.
  intros H. apply accepts_false_of_parse_err. unfold schnorr_parse.
  destruct (parse_point C (firstn 32 sig)); [|reflexivity]. cbn [bind]. fold n.
  replace (n <=? from_be (firstn 32 (skipn 32 sig))) with true by (symmetry; apply Z.leb_le; assumption).
  reflexivity.
Qed.

Lemma accepts_false_of_R_inf pk m sig s : schnorr_parse C sig = Ok (None, s) ->
  schnorr_accepts C sha256 pk m sig = false.
Proof.
  intros E. unfold schnorr_accepts, schnorr_verify_bytes. rewrite E.
  destruct (parse_point C pk) as [[[xp yp]|]|] eqn:EP; cbn [bind]; try reflexivity.
  rewrite verify_object_inf_R by exact (parse_point_valid _ _ EP). reflexivity.
Qed.

(* R = 0 *)
Theorem reject_R_zero pk m sig : (32 <= length sig)%nat -> from_be (firstn 32 sig) = 0 ->
  schnorr_accepts C sha256 pk m sig = false.
Proof.
  intros L H.
  assert (L1 : length (firstn 32 sig) = 32%nat) by (rewrite firstn_length; lia).
  destruct (schnorr_parse C sig) as [[r s]|] eqn:E; [|now apply accepts_false_of_parse_err].
  destruct (schnorr_parse_inv _ _ _ E) as [HP _].
  rewrite parse_point_32, parse_xonly_zero in HP by assumption. injection HP as <-.
  exact (accepts_false_of_R_inf pk m sig s E).
Qed.

(* R is not the x coordinate of a curve point (this includes every R >= p) *)
Theorem reject_R_not_on_curve pk m sig : (32 <= length sig)%nat -> bytes_ok sig ->
  (forall y, ~ valid C (Some (from_be (firstn 32 sig), y))) ->
  schnorr_accepts C sha256 pk m sig = false.
Proof.
  intros L B H.
  assert (L1 : length (firstn 32 sig) = 32%nat) by (rewrite firstn_length; lia).
  pose proof (bytes_ok_firstn 32 _ B) as B1.
  destruct (Z.eq_dec (from_be (firstn 32 sig)) 0) as [Z|NZ]; [now apply reject_R_zero|].
  apply accepts_false_of_parse_err. unfold schnorr_parse.
  rewrite parse_point_32 by assumption. rewrite (parse_xonly_lift C SL Ha0) by assumption.
  destruct (lift_x C (from_be (firstn 32 sig))) as [P|] eqn:EL; [exfalso|reflexivity].
  pose proof (from_be_bound _ B1) as [H0 _].
  destruct (lift_x_sound C SL Ha0 Hp34 _ P H0 EL) as [y [-> [HV _]]]. exact (H y HV).
Qed.

Theorem reject_R_ge_p pk m sig : (32 <= length sig)%nat -> bytes_ok sig ->
  p <= from_be (firstn 32 sig) -> schnorr_accepts C sha256 pk m sig = false.
Proof.
  intros L B H. apply reject_R_not_on_curve; try assumption.
  intros y HV. apply valid_some in HV. fold p in HV. lia.
Qed.

(* the 32-byte key is not the x coordinate of a curve point (includes 0 and every value >= p) *)
Theorem reject_bad_key pk m sig : length pk = 32%nat -> bytes_ok pk ->
  (forall y, ~ valid C (Some (from_be pk, y))) ->
  schnorr_accepts C sha256 pk m sig = false.
Proof.
  intros L B H. unfold schnorr_accepts, schnorr_verify_bytes. rewrite parse_point_32 by assumption.
  destruct (Z.eq_dec (from_be pk) 0) as [Z|NZ].
  - rewrite parse_xonly_zero by assumption. cbn [bind].
    destruct (schnorr_parse C sig) as [[r s]|]; reflexivity.
  - rewrite (parse_xonly_lift C SL Ha0) by assumption.
    destruct (lift_x C (from_be pk)) as [P|] eqn:EL; [exfalso|reflexivity].
    pose proof (from_be_bound _ B) as [H0 _].
    destruct (lift_x_sound C SL Ha0 Hp34 _ P H0 EL) as [y [-> [HV _]]]. exact (H y HV).
Qed.

(* ================================================================== tamper clauses without hash assumptions *)

(* what an accepting run of BIP340 Verify establishes *)
Lemma bip340_accept_inv pk m sig : bytes_ok pk -> bip340_verify C sha256 pk m sig = true ->
  exists yp y',
    let xp := from_be pk in
    let r := from_be (firstn 32 sig) in
    let s := from_be (firstn 32 (skipn 32 sig)) in
    valid C (Some (xp, yp)) /\ yp mod 2 = 0 /\ r < p /\ s < n /\
    verify_point r xp (Some (xp, yp)) m s = Some (r, y') /\ y' mod 2 = 0.
Proof.
  intros B H. pose proof (from_be_bound _ B) as [H0 _].
  destruct (lift_x C (int_of pk)) as [P|] eqn:EL.
  2:{ unfold bip340_verify in H. rewrite EL in H. discriminate. }
  rewrite int_of_from_be in EL.
  destruct (lift_x_sound C SL Ha0 Hp34 _ P H0 EL) as [yp [-> [HV [He _]]]].
  rewrite <- int_of_from_be in EL.
  rewrite (bip340_verify_core C sha256 pk m sig _ yp EL He) in H. cbv zeta in H. fold p n in H.
  destruct (p <=? from_be (firstn 32 sig)) eqn:E1; [discriminate|]. apply Z.leb_gt in E1.
  destruct (n <=? from_be (firstn 32 (skipn 32 sig))) eqn:E2; [discriminate|]. apply Z.leb_gt in E2.
  destruct (verify_point _ _ _ m _) as [[x' y']|] eqn:EV; [|discriminate].
  apply andb_true_iff in H as [Hy Hx]. apply Z.eqb_eq in Hy, Hx. subst x'.
  rewrite !int_of_from_be in EV. exists yp, y'. cbv zeta. split; [exact HV|]. repeat split; assumption.
Qed.

Lemma verify_point_s_unique xr xp yp m s s' y1 y2 :
  valid C (Some (xp, yp)) -> 0 <= s < n -> 0 <= s' < n ->
  verify_point xr xp (Some (xp, yp)) m s = Some (xr, y1) -> y1 mod 2 = 0 ->
  verify_point xr xp (Some (xp, yp)) m s' = Some (xr, y2) -> y2 mod 2 = 0 -> s = s'.
Proof.
  intros VP Hs Hs' E1 He1 E2 He2. pose proof (sl_G_valid C SL) as HG.
  pose proof (verify_point_valid C sha256 SL Ha0 Hp34 xr xp yp m s VP) as V1.
  pose proof (verify_point_valid C sha256 SL Ha0 Hp34 xr xp yp m s' VP) as V2.
  rewrite E1 in V1. rewrite E2 in V2.
  pose proof (even_unique C SL Ha0 Hp34 xr y1 y2 V1 V2 He1 He2) as Ey. subst y2.
  rewrite <- E2 in E1. unfold Bip340P.verify_point in E1.
  destruct (evenP_props C SL Ha0 Hp34 xp yp VP) as [ype [EPe [VPe _]]]. rewrite EPe in E1.
  apply addT_cancel_r in E1; try (apply (mulT_valid C SL); assumption).
  2:{ apply (sl_neg_valid C SL). apply (mulT_valid C SL). assumption. }
  apply mulT_eq_sub in E1; [|assumption]. apply (sl_G_order C SL) in E1. fold n in E1.
  now apply mod_eq_small.
Qed.

Lemma verify_point_e_unique xr xp yp m m' s y1 y2 :
  valid C (Some (xp, yp)) ->
  verify_point xr xp (Some (xp, yp)) m s = Some (xr, y1) -> y1 mod 2 = 0 ->
  verify_point xr xp (Some (xp, yp)) m' s = Some (xr, y2) -> y2 mod 2 = 0 ->
  challenge xr xp m = challenge xr xp m'.
Proof.
  intros VP E1 He1 E2 He2. pose proof (sl_G_valid C SL) as HG. pose proof n_gt2' as Hn.
  pose proof (verify_point_valid C sha256 SL Ha0 Hp34 xr xp yp m s VP) as V1.
  pose proof (verify_point_valid C sha256 SL Ha0 Hp34 xr xp yp m' s VP) as V2.
  rewrite E1 in V1. rewrite E2 in V2.
  pose proof (even_unique C SL Ha0 Hp34 xr y1 y2 V1 V2 He1 He2) as Ey. subst y2.
  rewrite <- E2 in E1. unfold Bip340P.verify_point in E1.
  destruct (evenP_props C SL Ha0 Hp34 xp yp VP) as [ype [EPe [VPe _]]]. rewrite EPe in E1.
  set (e := challenge xr xp m) in *. set (e' := challenge xr xp m') in *.
  assert (VsG : valid C (mulT C s (G C))) by (apply (mulT_valid C SL); assumption).
  assert (Ve : valid C (mulT C e (Some (xp, ype)))) by (apply (mulT_valid C SL); assumption).
  assert (Ve' : valid C (mulT C e' (Some (xp, ype)))) by (apply (mulT_valid C SL); assumption).
  rewrite (sl_add_comm C SL (mulT C s (G C))) in E1 by (try assumption; now apply (sl_neg_valid C SL)).
  rewrite (sl_add_comm C SL (mulT C s (G C)) (negT C (mulT C e' _))) in E1
    by (try assumption; now apply (sl_neg_valid C SL)).
  apply addT_cancel_r in E1; try assumption; try (now apply (sl_neg_valid C SL)).
  apply negT_inj in E1; try assumption.
  apply mulT_eq_sub in E1; [|assumption].
  apply mulT_order in E1; [|assumption|discriminate].
  apply mod_eq_small; try assumption; apply Z.mod_pos_bound; fold n; lia.
Qed.

(* ================================================================== True / False / exception, exactly *)

(* the three outcomes of S256Point.parse(pk).verify_schnorr(m, SchnorrSignature.parse(sig)) on a 32-byte
   key and a 64-byte string: an exception exactly for key = 0 (AttributeError: the point at infinity has
   no parity), a key or a non-zero R that is no x coordinate (ValueError from the constructor / sqrt) and
   s >= n (ValueError); False for R = 0; otherwise the verdict of BIP340 Verify *)
Theorem verify_bytes_exact pk m sig :
  length pk = 32%nat -> bytes_ok pk -> length sig = 64%nat -> bytes_ok sig ->
  schnorr_verify_bytes C sha256 pk m sig =
  let r := from_be (firstn 32 sig) in
  let s := from_be (firstn 32 (skipn 32 sig)) in
  if from_be pk =? 0 then Err
  else match lift_x C (from_be pk) with
       | None => Err
       | Some _ =>
           if r =? 0 then (if n <=? s then Err else Ok false)
           else match lift_x C r with
                | None => Err
                | Some _ => if n <=? s then Err else Ok (bip340_verify C sha256 pk m sig)
                end
       end.
Proof.
  intros Lpk Bpk L B. cbv zeta. pose proof n_gt2' as Hn. fold n in Hn256.
  assert (L1 : length (firstn 32 sig) = 32%nat) by (rewrite firstn_length; lia).
  assert (L2 : length (skipn 32 sig) = 32%nat) by (rewrite skipn_length; lia).
  pose proof (bytes_ok_firstn 32 _ B) as B1. pose proof (bytes_ok_skipn 32 _ B) as B2.
  unfold schnorr_verify_bytes. rewrite parse_point_32 by assumption.
  destruct (from_be pk =? 0) eqn:E0.
  { apply Z.eqb_eq in E0. rewrite parse_xonly_zero by assumption. cbn [bind].
    destruct (schnorr_parse C sig) as [[r s]|]; reflexivity. }
  apply Z.eqb_neq in E0. rewrite (parse_xonly_lift C SL Ha0) by assumption.
  destruct (lift_x C (from_be pk)) as [P|] eqn:EL; [|reflexivity].
  pose proof (from_be_bound _ Bpk) as [Hpk0 _].
  destruct (lift_x_sound C SL Ha0 Hp34 _ P Hpk0 EL) as [yp [-> [VP _]]]. cbn [opt_res bind].
  unfold schnorr_parse. rewrite parse_point_32 by assumption. fold n.
  set (r := from_be (firstn 32 sig)). set (s := from_be (firstn 32 (skipn 32 sig))).
  destruct (r =? 0) eqn:Er.
  { apply Z.eqb_eq in Er. rewrite parse_xonly_zero by assumption. cbn [bind].
    destruct (n <=? s); [reflexivity|]. cbn [bind]. now apply verify_object_inf_R. }
  apply Z.eqb_neq in Er. rewrite (parse_xonly_lift C SL Ha0) by assumption. fold r.
  destruct (lift_x C r) as [R|] eqn:ELr; [|reflexivity].
  pose proof (from_be_bound _ B1) as [Hr0 _]. fold r in Hr0.
  destruct (lift_x_sound C SL Ha0 Hp34 _ R Hr0 ELr) as [yr [-> [VR _]]]. cbn [opt_res bind].
  destruct (n <=? s) eqn:Es; [reflexivity|]. apply Z.leb_gt in Es. cbn [bind].
  rewrite verify_object by assumption. do 2 f_equal.
  - now apply to_be_from_be_n.
  - assert (Hs0 : 0 <= s) by (apply from_be_bound; now apply bytes_ok_firstn).
    rewrite (Z.mod_small s n) by lia. unfold r, s.
    rewrite (to_be_from_be_n 32) by assumption.
    rewrite (firstn_all2 (n := 32) (skipn 32 sig)) by lia.
    rewrite (to_be_from_be_n 32) by assumption. apply firstn_skipn.
Qed.

(* ================================================================== the signature object *)

Lemma schnorr_sign_via_obj d m a :
  schnorr_sign C sha256 d m a =
  ('(r, s) <- schnorr_sign_obj C sha256 d m a ;; schnorr_serialize r s).
Proof.
  unfold schnorr_sign, schnorr_sign_obj.
  destruct (pubkey C d) as [P|]; [|reflexivity]. cbn [bind].
  destruct (even_secret C d) as [e|]; [|reflexivity]. cbn [bind].
  destruct (bip340_k C sha256 d m a) as [k0|]; [|reflexivity]. cbn [bind].
  destruct (rmul C k0 (G C)) as [r0|]; [|reflexivity]. cbn [bind].
  destruct (parity r0) as [par|]; [|reflexivity]. cbn [bind].
  destruct (par =? 1).
  - destruct (rmul C (cn C - k0) (G C)) as [r|]; [|reflexivity]. cbn [bind].
    destruct (cn C <=? _); [reflexivity|].
    destruct (schnorr_verify C sha256 P m r _) as [[|]|]; reflexivity.
  - cbn [bind]. destruct (cn C <=? _); [reflexivity|].
    destruct (schnorr_verify C sha256 P m r0 _) as [[|]|]; reflexivity.
Qed.

Lemma sign_obj_shape d m a r s : schnorr_sign_obj C sha256 d m a = Ok (r, s) ->
  exists x y, r = Some (x, y) /\ valid C r /\ y mod 2 = 0 /\ 0 <= s < n.
Proof.
  unfold schnorr_sign_obj. pose proof (sl_G_valid C SL) as HG. pose proof n_gt2' as Hn.
  destruct (pubkey C d) as [P|]; [|discriminate]. cbn [bind].
  destruct (even_secret C d) as [e|]; [|discriminate]. cbn [bind].
  destruct (bip340_k C sha256 d m a) as [k0|]; [|discriminate]. cbn [bind].
  destruct (sl_mul_ok C SL k0 _ HG) as [Ek0 Vk0]. rewrite Ek0. cbn [bind].
  destruct (mulT C k0 (G C)) as [[xr yr]|] eqn:ER; [|discriminate]. cbn [parity bind].
  match goal with |- bind ?X _ = _ -> _ => assert (ERm : X = Ok (evenP (Some (xr, yr)))) end.
  { rewrite (evenP_mul C SL k0 xr yr HG ER).
    destruct (yr mod 2 =? 1); [apply (sl_mul_ok C SL _ _ HG)|now rewrite ER]. }
  rewrite ERm. cbn [bind].
  destruct (evenP_props C SL Ha0 Hp34 xr yr Vk0) as [yre [ERe [VRe Hyre]]]. rewrite ERe.
  match goal with |- (if cn C <=? ?S then _ else _) = _ -> _ => set (s0 := S) end.
  destruct (cn C <=? s0); [discriminate|].
  destruct (schnorr_verify C sha256 P m _ s0) as [[|]|]; try discriminate. cbn [bind].
  intros [= <- <-]. exists xr, yre. split; [reflexivity|]. split; [assumption|]. split; [assumption|].
  unfold s0. apply Z.mod_pos_bound. fold n. lia.
Qed.

(* ================================================================== statements that use "no point has x = 0" *)

Hypothesis Hlift0 : lift_x C 0 = None.

Lemma x_nonzero x y : valid C (Some (x, y)) -> x <> 0.
Proof. intros HV ->. exact (Hx0 C SL Ha0 Hp34 Hlift0 y HV). Qed.

(* signature strings of any length: accepted exactly when BIP340 Verify accepts the canonical
   64-byte form; strings shorter than 32 bytes are rejected *)
Theorem accepts_any_length pk m sig :
  length pk = 32%nat -> bytes_ok pk -> bytes_ok sig -> (32 <= length sig)%nat ->
  schnorr_accepts C sha256 pk m sig = bip340_verify C sha256 pk m (sig_canon sig).
Proof.
  intros Lpk Bpk B L.
  rewrite <- (verify_iff_bip340 C sha256 SL Ha0 Hp34 Hp256 Hlift0)
    by (try assumption; try (now apply sig_canon_length); now apply sig_canon_ok).
  unfold schnorr_accepts, schnorr_verify_bytes. now rewrite schnorr_parse_canon.
Qed.

Theorem accepts_too_short pk m sig : (length sig < 32)%nat -> schnorr_accepts C sha256 pk m sig = false.
Proof. intros L. apply accepts_false_of_parse_err. now apply schnorr_parse_too_short. Qed.

Theorem accepts_ignores_tail pk m sig extra : length sig = 64%nat ->
  schnorr_accepts C sha256 pk m (sig ++ extra) = schnorr_accepts C sha256 pk m sig.
Proof.
  intros L. unfold schnorr_accepts, schnorr_verify_bytes. now rewrite schnorr_parse_ignores_tail.
Qed.

(* a key given in SEC format (33 or 65 bytes, either parity) verifies exactly like its x-only form *)
Theorem accepts_sec_key x y c kb m sig : valid C (Some (x, y)) -> sec (Some (x, y)) c = Ok kb ->
  bytes_ok sig ->
  schnorr_accepts C sha256 kb m sig = schnorr_accepts C sha256 (xonly (Some (x, y))) m sig.
Proof.
  intros HV Hs B. pose proof p_lt_pow as Hpp.
  pose proof (proj1 (valid_some _ _) HV) as [Hx _]. fold p in Hx.
  rewrite !accepts_general by assumption.
  rewrite (PeccEnc.parse_point_sec C SL Ha0 Hp34 Hpp x y c kb HV Hs).
  cbn [xonly]. rewrite parse_point_32 by apply to_be_length.
  assert (Efx : from_be (to_be 32 x) = x) by (apply from_be_to_be; lia).
  rewrite (parse_xonly_lift C SL Ha0) by (rewrite ?Efx; first [apply to_be_ok|exact (x_nonzero x y HV)]).
  rewrite Efx. destruct (evenP_props C SL Ha0 Hp34 x y HV) as [y' [_ [HV' He]]].
  rewrite (lift_x_of_valid C SL Ha0 Hp34 x y' HV' He). reflexivity.
Qed.

(* sign -> the object -> serialize -> parse gives the same object back *)
Theorem sign_obj_roundtrip d m a r s : schnorr_sign_obj C sha256 d m a = Ok (r, s) ->
  exists sig, schnorr_sign C sha256 d m a = Ok sig /\ schnorr_serialize r s = Ok sig /\
              length sig = 64%nat /\ schnorr_parse C sig = Ok (r, s).
Proof.
  intros H. destruct (sign_obj_shape d m a r s H) as [x [y [-> [HV [He Hs]]]]].
  destruct (parse_serialize x y s HV (x_nonzero x y HV) Hs) as [b [E1 [L [_ E2]]]].
  exists b. rewrite schnorr_sign_via_obj, H. cbn [bind].
  split; [assumption|]. split; [assumption|]. split; [assumption|].
  rewrite E2. cbn [Bip340P.evenP]. replace (y mod 2 =? 1) with false by (symmetry; apply Z.eqb_neq; lia).
  reflexivity.
Qed.

Lemma tail32 (sig : bytes) : length sig = 64%nat -> firstn 32 (skipn 32 sig) = skipn 32 sig.
Proof. intros L. apply firstn_all2. rewrite skipn_length. lia. Qed.

(* altered s: for a key, a message and the R half of a signature string at most one s half is accepted *)
Theorem accept_s_unique pk m sig sig' :
  length pk = 32%nat -> bytes_ok pk -> length sig = 64%nat -> bytes_ok sig ->
  length sig' = 64%nat -> bytes_ok sig' -> firstn 32 sig' = firstn 32 sig ->
  schnorr_accepts C sha256 pk m sig = true -> schnorr_accepts C sha256 pk m sig' = true ->
  sig' = sig.
Proof.
  intros Lpk Bpk L B L' B' ER H1 H2.
  rewrite (verify_iff_bip340 C sha256 SL Ha0 Hp34 Hp256 Hlift0) in H1, H2 by assumption.
  destruct (bip340_accept_inv pk m sig Bpk H1) as [yp [y1 I1]].
  destruct (bip340_accept_inv pk m sig' Bpk H2) as [yp' [y2 I2]]. cbv zeta in I1, I2.
  destruct I1 as [V1 [E1 [_ [S1 [P1 Y1]]]]]. destruct I2 as [V2 [E2 [_ [S2 [P2 Y2]]]]].
  pose proof (even_unique C SL Ha0 Hp34 _ _ _ V1 V2 E1 E2) as <-.
  rewrite ER in P2. rewrite tail32 in S1, S2, P1, P2 by assumption.
  pose proof (from_be_bound _ (bytes_ok_skipn 32 _ B)) as [Z1 _].
  pose proof (from_be_bound _ (bytes_ok_skipn 32 _ B')) as [Z2 _].
  pose proof (verify_point_s_unique _ _ _ _ _ _ _ _ V1 (conj Z1 S1) (conj Z2 S2) P1 Y1 P2 Y2) as Es.
  assert (L2 : length (skipn 32 sig) = 32%nat) by (rewrite skipn_length; lia).
  assert (L2' : length (skipn 32 sig') = 32%nat) by (rewrite skipn_length; lia).
  rewrite <- (firstn_skipn 32 sig'), <- (firstn_skipn 32 sig). rewrite ER. f_equal.
  rewrite <- (to_be_from_be_n 32 (skipn 32 sig')) by (try assumption; now apply bytes_ok_skipn).
  rewrite <- (to_be_from_be_n 32 (skipn 32 sig)) by (try assumption; now apply bytes_ok_skipn).
  now rewrite Es.
Qed.

(* altered message: a second message accepted with the same key and signature has the same
   BIP340 challenge e = int(hash_challenge(R || P || m)) mod n *)
Theorem accept_msg_binding pk m m' sig :
  length pk = 32%nat -> bytes_ok pk -> length sig = 64%nat -> bytes_ok sig ->
  schnorr_accepts C sha256 pk m sig = true -> schnorr_accepts C sha256 pk m' sig = true ->
  challenge (from_be (firstn 32 sig)) (from_be pk) m = challenge (from_be (firstn 32 sig)) (from_be pk) m'.
Proof.
  intros Lpk Bpk L B H1 H2.
  rewrite (verify_iff_bip340 C sha256 SL Ha0 Hp34 Hp256 Hlift0) in H1, H2 by assumption.
  destruct (bip340_accept_inv pk m sig Bpk H1) as [yp [y1 I1]].
  destruct (bip340_accept_inv pk m' sig Bpk H2) as [yp' [y2 I2]]. cbv zeta in I1, I2.
  destruct I1 as [V1 [E1 [_ [S1 [P1 Y1]]]]]. destruct I2 as [V2 [E2 [_ [S2 [P2 Y2]]]]].
  pose proof (even_unique C SL Ha0 Hp34 _ _ _ V1 V2 E1 E2) as <-.
  exact (verify_point_e_unique _ _ _ _ _ _ _ _ V1 P1 Y1 P2 Y2).
Qed.

(* ... hence the two messages are equal or two different strings collide under x |-> int(sha256(x)) mod n *)
Theorem accept_msg_collision pk m m' sig :
  length pk = 32%nat -> bytes_ok pk -> length sig = 64%nat -> bytes_ok sig ->
  schnorr_accepts C sha256 pk m sig = true -> schnorr_accepts C sha256 pk m' sig = true ->
  m = m' \/ exists x y, x <> y /\ from_be (sha256 x) mod n = from_be (sha256 y) mod n.
Proof.
  intros Lpk Bpk L B H1 H2.
  pose proof (accept_msg_binding pk m m' sig Lpk Bpk L B H1 H2) as E.
  unfold Bip340P.challenge, tagged_hash in E. fold n in E.
  destruct (list_eq_dec Z.eq_dec m m') as [Em|Em]; [now left|right].
  eexists _, _. split; [|exact E].
  intros Q. apply Em. repeat apply app_inv_head in Q. exact Q.
Qed.

(* single-bit flips (indeed any change) in the s half of a signature produced by sign_schnorr are rejected *)
Theorem sign_other_s_rejected d m a sig sig' : length m = 32%nat -> length a = 32%nat ->
  schnorr_sign C sha256 d m a = Ok sig ->
  length sig' = 64%nat -> bytes_ok sig' -> firstn 32 sig' = firstn 32 sig -> sig' <> sig ->
  schnorr_accepts C sha256 (xonly (mulT C d (G C))) m sig' = false.
Proof.
  intros Lm La Hs L' B' ER Hne.
  destruct (sign_verifies C sha256 SL Ha0 Hp34 Hp256 Hn256 Hlift0 d m a sig Lm La Hs) as [L [B [HV _]]].
  set (pk := xonly (mulT C d (G C))) in *.
  assert (Lpk : length pk = 32%nat) by (unfold pk, xonly; destruct (mulT C d (G C)) as [[x y]|]; apply to_be_length).
  assert (Bpk : bytes_ok pk) by (unfold pk, xonly; destruct (mulT C d (G C)) as [[x y]|]; apply to_be_ok).
  assert (H1 : schnorr_accepts C sha256 pk m sig = true) by (unfold schnorr_accepts; now rewrite HV).
  destruct (schnorr_accepts C sha256 pk m sig') eqn:H2; [exfalso|reflexivity].
  exact (Hne (accept_s_unique pk m sig sig' Lpk Bpk L B L' B' ER H1 H2)).
Qed.

End Ext.

(* ================================================================== nonce derivation *)

Section Nonce.
Variable C : curve.
Variable sha256 : bytes -> bytes.
Hypothesis SL : scalar_laws C.
Hypothesis Hn256 : cn C <= 2 ^ 256.
Let n := cn C.

(* BIP340 Default Signing continues from its nonce k' *)
Lemma bip340_sign_from_nonce d m a :
  bip340_sign C sha256 d m a =
  match bip340_nonce C sha256 d m a with
  | None => None
  | Some k' =>
      if k' =? 0 then None
      else
        let P := mulT C d (G C) in
        let de := if has_even_y P then d else n - d in
        let R := mulT C k' (G C) in
        let k := if has_even_y R then k' else n - k' in
        let e := int_of (hash_tag sha256 t_challenge (bytesP R ++ bytesP P ++ m)) mod n in
        let sig := bytesP R ++ bytes32 ((k + e * de) mod n) in
        if bip340_verify C sha256 (bytesP P) m sig then Some sig else None
  end.
Proof.
  unfold bip340_sign, bip340_nonce. fold n. destruct ((d <=? 0) || (n <=? d))%bool; reflexivity.
Qed.

(* PrivateKey.bip340_k = the nonce of BIP340 Default Signing: t = bytes(d_even) xor hash_aux(a),
   k' = int(hash_nonce(t || bytes(P) || m)) mod n; both fail for a secret outside [1, n-1] *)
Theorem bip340_k_eq_spec d m a : length m = 32%nat -> length a = 32%nat ->
  bip340_k C sha256 d m a = opt_res (bip340_nonce C sha256 d m a).
Proof.
  intros Hm Ha. pose proof (sl_G_valid C SL) as HG. pose proof (sl_n_odd C SL) as Hn. fold n in Hn.
  unfold bip340_nonce, bip340_k, even_secret, pubkey. fold n.
  destruct ((n - 1 <? d) || (d <? 1))%bool eqn:Erange.
  { replace ((d <=? 0) || (n <=? d))%bool with true; [reflexivity|].
    symmetry. apply orb_true_iff. apply orb_true_iff in Erange. destruct Erange as [E|E].
    - right. apply Z.ltb_lt in E. apply Z.leb_le. lia.
    - left. apply Z.ltb_lt in E. apply Z.leb_le. lia. }
  apply orb_false_iff in Erange as [E1 E2]. apply Z.ltb_ge in E1. apply Z.ltb_ge in E2.
  replace ((d <=? 0) || (n <=? d))%bool with false.
  2:{ symmetry. apply orb_false_iff. split; [apply Z.leb_gt|apply Z.leb_gt]; lia. }
  destruct (sl_mul_ok C SL d _ HG) as [EdG VdG]. rewrite EdG. cbn [bind].
  destruct (mulT C d (G C)) as [[xp yp]|] eqn:EP.
  2:{ exfalso. apply (kG_not_inf C SL d); [fold n; lia|assumption]. }
  cbn [parity bind has_even_y]. rewrite Hm, Ha. cbn [Nat.eqb negb orb].
  assert (Hmod : 0 <= yp mod 2 < 2) by (apply Z.mod_pos_bound; lia).
  set (ed := if yp mod 2 =? 1 then n - d else d).
  assert (Hed : (if yp mod 2 =? 0 then d else n - d) = ed).
  { unfold ed. destruct (yp mod 2 =? 1) eqn:E; destruct (yp mod 2 =? 0) eqn:E'; try reflexivity; lia. }
  rewrite Hed.
  assert (Hedr : 0 <= ed < pow256 32).
  { rewrite pow256_32. unfold ed. fold n in Hn256. destruct (yp mod 2 =? 1); lia. }
  rewrite int_to_be_ok by assumption. cbn [bind opt_res].
  destruct tags_eq as [Ta [Tn Tc]]. rewrite xor_eq.
  unfold bytesP, bytes32, x_of. cbn [xonly].
  change (tagged_hash sha256) with (hash_tag sha256). rewrite Ta, Tn, !int_of_from_be. reflexivity.
Qed.

(* the length checks of bip340_k (after the key has been built) and their effect on signing *)
Theorem bip340_k_bad_length d m a : length m <> 32%nat \/ length a <> 32%nat ->
  bip340_k C sha256 d m a = Err.
Proof.
  intros H. unfold bip340_k.
  destruct (pubkey C d); [|reflexivity]. cbn [bind].
  destruct (even_secret C d); [|reflexivity]. cbn [bind].
  replace (negb (length m =? 32)%nat || negb (length a =? 32)%nat)%bool with true; [reflexivity|].
  symmetry. apply orb_true_iff. destruct H as [H|H]; [left|right];
    apply negb_true_iff; now apply Nat.eqb_neq.
Qed.

Theorem sign_bad_length d m a : length m <> 32%nat \/ length a <> 32%nat ->
  schnorr_sign C sha256 d m a = Err.
Proof.
  intros H. unfold schnorr_sign. rewrite (bip340_k_bad_length d m a H).
  destruct (pubkey C d); [|reflexivity]. cbn [bind].
  destruct (even_secret C d); reflexivity.
Qed.

(* a secret in range always has a nonce *)
Theorem bip340_k_total d m a : 1 <= d < n -> length m = 32%nat -> length a = 32%nat ->
  exists k0, bip340_k C sha256 d m a = Ok k0 /\ 0 <= k0 < n.
Proof.
  intros Hd Hm Ha. pose proof (sl_n_odd C SL) as Hn. fold n in Hn.
  rewrite bip340_k_eq_spec by assumption. unfold bip340_nonce. fold n.
  replace ((d <=? 0) || (n <=? d))%bool with false.
  2:{ symmetry. apply orb_false_iff. split; apply Z.leb_gt; lia. }
  cbn [opt_res]. eexists. split; [reflexivity|]. apply Z.mod_pos_bound. lia.
Qed.

End Nonce.

(* signing fails exactly when the derived nonce is 0 *)
Theorem sign_fails_iff C sha256 :
  scalar_laws C -> ca C = 0 -> cp C mod 4 = 3 -> cp C <= 2 ^ 256 -> cn C <= 2 ^ 256 ->
  forall d m a, 1 <= d < cn C -> length m = 32%nat -> length a = 32%nat ->
  (schnorr_sign C sha256 d m a = Err <-> bip340_k C sha256 d m a = Ok 0).
Proof.
  intros SL Ha0 Hp34 Hp256 Hn256 d m a Hd Hm Ha.
  destruct (bip340_k_total C sha256 SL Hn256 d m a Hd Hm Ha) as [k0 [Ek Hk]]. split.
  - intros E. destruct (Z.eq_dec k0 0) as [->|NZ]; [assumption|exfalso].
    destruct (sign_total C sha256 SL Ha0 Hp34 Hp256 Hn256 d m a k0 Hd Hm Ha Ek NZ) as [sig Es]. congruence.
  - intros E0. rewrite (sign_eq_bip340 C sha256 SL Ha0 Hp34 Hp256 Hn256) by assumption.
    rewrite bip340_sign_from_nonce.
    rewrite (bip340_k_eq_spec C sha256 SL Hn256) in E0 by assumption.
    destruct (bip340_nonce C sha256 d m a) as [k'|]; [|reflexivity]. cbn [opt_res] in E0.
    injection E0 as ->. reflexivity.
Qed.

(* ================================================================== TAG_HASH_CACHE as state *)

Section State.
Variable C : curve.
Variable sha256 : bytes -> bytes.
Local Notation cok := (cache_ok sha256).

Lemma th_ok c tag msg : cok c ->
  cok (fst (th sha256 c tag msg)) /\ snd (th sha256 c tag msg) = tagged_hash sha256 tag msg.
Proof. exact (th_step_ok sha256 c tag msg). Qed.

Lemma schnorr_verify_unfold P m r s :
  schnorr_verify C sha256 P m r s =
  (pt <- even_point C P ;;
   match r with
   | None => Ok false
   | Some _ => schnorr_verify_tail C pt r s (tagged_hash sha256 tag_challenge (xonly r ++ xonly pt ++ m))
   end).
Proof. reflexivity. Qed.

(* verify_schnorr run against any cache that satisfies the invariant: same answer, invariant kept *)
Theorem verify_st_transparent c P m r s : cok c ->
  snd (schnorr_verify_st C sha256 c P m r s) = schnorr_verify C sha256 P m r s /\
  cok (fst (schnorr_verify_st C sha256 c P m r s)).
Proof.
  intros Hc. rewrite schnorr_verify_unfold. unfold schnorr_verify_st.
  destruct (even_point C P) as [pt|]; cbn [bind]; [|split; [reflexivity|assumption]].
  destruct r as [xy|]; [|split; [reflexivity|assumption]].
  destruct (th_ok c tag_challenge (xonly (Some xy) ++ xonly pt ++ m) Hc) as [Hc1 Hd].
  destruct (th sha256 c tag_challenge (xonly (Some xy) ++ xonly pt ++ m)) as [c1 h].
  cbn [fst snd] in *. subst h. split; [reflexivity|assumption].
Qed.

Theorem bip340_k_st_transparent c d m a : cok c ->
  snd (bip340_k_st C sha256 c d m a) = bip340_k C sha256 d m a /\
  cok (fst (bip340_k_st C sha256 c d m a)).
Proof.
  intros Hc. unfold bip340_k_st, bip340_k.
  destruct (pubkey C d) as [P|]; cbn [bind]; [|split; [reflexivity|assumption]].
  destruct (even_secret C d) as [e|]; cbn [bind]; [|split; [reflexivity|assumption]].
  destruct (negb (length m =? 32)%nat || negb (length a =? 32)%nat)%bool; [split; [reflexivity|assumption]|].
  destruct (int_to_be e 32) as [eb|]; cbn [bind]; [|split; [reflexivity|assumption]].
  destruct (th_ok c tag_aux a Hc) as [Hc1 Hd1].
  destruct (th sha256 c tag_aux a) as [c1 ha]. cbn [fst snd] in *. subst ha.
  destruct (th_ok c1 tag_nonce (xor_bytes eb (tagged_hash sha256 tag_aux a) ++ xonly P ++ m) Hc1) as [Hc2 Hd2].
  destruct (th sha256 c1 tag_nonce _) as [c2 hn]. cbn [fst snd] in *. subst hn.
  split; [reflexivity|assumption].
Qed.

Theorem sign_st_transparent c d m a : cok c ->
  snd (schnorr_sign_st C sha256 c d m a) = schnorr_sign C sha256 d m a /\
  cok (fst (schnorr_sign_st C sha256 c d m a)).
Proof.
  intros Hc. unfold schnorr_sign_st, schnorr_sign.
  destruct (pubkey C d) as [P|]; cbn [bind]; [|split; [reflexivity|assumption]].
  destruct (even_secret C d) as [e|]; cbn [bind]; [|split; [reflexivity|assumption]].
  destruct (bip340_k_st_transparent c d m a Hc) as [Ek Hc1].
  destruct (bip340_k_st C sha256 c d m a) as [c1 kr]. cbn [fst snd] in *. rewrite <- Ek.
  destruct kr as [k0|]; cbn [bind]; [|split; [reflexivity|assumption]].
  destruct (rmul C k0 (G C)) as [r0|]; cbn [bind]; [|split; [reflexivity|assumption]].
  destruct (parity r0) as [par|]; cbn [bind]; [|split; [reflexivity|assumption]].
  match goal with |- context [match ?X with Ok _ => _ | Err => (c1, Err) end] => destruct X as [r|] end;
    cbn [bind]; [|split; [reflexivity|assumption]].
  destruct (th_ok c1 tag_challenge (xonly r ++ xonly P ++ m) Hc1) as [Hc2 Hd2].
  destruct (th sha256 c1 tag_challenge (xonly r ++ xonly P ++ m)) as [c2 hh]. cbn [fst snd] in *. subst hh.
  match goal with |- context [if cn C <=? ?S then _ else _] => set (s0 := S) end.
  destruct (cn C <=? s0); [split; [reflexivity|assumption]|].
  destruct (verify_st_transparent c2 P m r s0 Hc2) as [Ev Hc3].
  destruct (schnorr_verify_st C sha256 c2 P m r s0) as [c3 okr]. cbn [fst snd] in *. rewrite <- Ev.
  split; [reflexivity|assumption].
Qed.

Theorem verify_bytes_st_transparent c pk m sig : cok c ->
  snd (schnorr_verify_bytes_st C sha256 c pk m sig) = schnorr_verify_bytes C sha256 pk m sig /\
  cok (fst (schnorr_verify_bytes_st C sha256 c pk m sig)).
Proof.
  intros Hc. unfold schnorr_verify_bytes_st, schnorr_verify_bytes.
  destruct (parse_point C pk) as [P|]; cbn [bind]; [|split; [reflexivity|assumption]].
  destruct (schnorr_parse C sig) as [[r s]|]; cbn [bind]; [|split; [reflexivity|assumption]].
  now apply verify_st_transparent.
Qed.

(* a whole session: any interleaving of tagged_hash calls, signing and verification, from any
   cache satisfying the invariant (in particular the empty one) *)
Local Notation api_step := (api_step C sha256).
Local Notation api_pure := (api_pure C sha256).
Local Notation api_run := (api_run C sha256).

Lemma api_step_ok c call : cok c ->
  snd (api_step c call) = api_pure call /\ cok (fst (api_step c call)).
Proof.
  intros Hc. destruct call as [t m|d m a|pk m sig]; cbn [Phash.api_step Phash.api_pure].
  - destruct (th_ok c t m Hc) as [H1 H2]. destruct (th sha256 c t m) as [c1 h]. cbn [fst snd] in *.
    split; [now rewrite H2|assumption].
  - destruct (sign_st_transparent c d m a Hc) as [H1 H2].
    destruct (schnorr_sign_st C sha256 c d m a) as [c1 r]. cbn [fst snd] in *.
    split; [now rewrite H1|assumption].
  - destruct (verify_bytes_st_transparent c pk m sig Hc) as [H1 H2].
    destruct (schnorr_verify_bytes_st C sha256 c pk m sig) as [c1 r]. cbn [fst snd] in *.
    split; [now rewrite H1|assumption].
Qed.

Theorem api_session_transparent : forall calls c, cok c ->
  snd (api_run c calls) = map api_pure calls /\ cok (fst (api_run c calls)).
Proof.
  induction calls as [|call rest IH]; intros c Hc; cbn [Phash.api_run map].
  - split; [reflexivity|assumption].
  - destruct (api_step_ok c call Hc) as [Ho Hc1].
    destruct (api_step c call) as [c1 o]. cbn [fst snd] in *.
    destruct (IH c1 Hc1) as [Hos Hc2].
    destruct (api_run c1 rest) as [c2 os]. cbn [fst snd] in *.
    split; [now rewrite Ho, Hos|assumption].
Qed.

End State.
