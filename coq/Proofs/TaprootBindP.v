(* Proofs/TaprootBindP.v — the negative (tamper / binding) direction, end to end.
   sha256 is any function with 32-byte output; every statement has the collision disjunct and the
   algebraic coincidence disjunct (two DIFFERENT TapTweak hashes leading to output keys with the
   same x coordinate) explicit.  No curve hypotheses.
   (1) a single-byte alteration of a serialized control block accepted by ControlBlock.parse,
       used with the same leaf script, cannot reproduce the same x-only key and parity;
   (2) the same at the level of the commitment check of Script.evaluate, for the control block
       item and for the leaf script item of the witness (the latter with the explicit third
       disjunct "both witness scripts re-serialise to the same bytes");
   (3) the merkle root binds the tree: equal roots imply the same tree up to sibling order and
       leaf serialisation; equal x-only output keys imply that and the same x-only internal key. *)
From V Require Import Base.Prelude Base.Ints Model.Helper Model.Script Model.Pecc Model.Taproot
  Model.TaprootExt Spec.TxWf Proofs.HelperP Proofs.ScriptP Proofs.TaprootP Proofs.TaprootTamper
  Proofs.TaprootBytes Proofs.TaprootCodecP Proofs.TaprootSpendP.

(* same tree up to the order of siblings and up to the hashed serialisation of the leaves *)
Inductive tree_sim : taptree -> taptree -> Prop :=
| ts_leaf v sc v' sc' pre :
    leaf_preimage v sc = Ok pre -> leaf_preimage v' sc' = Ok pre -> tree_sim (Leaf v sc) (Leaf v' sc')
| ts_branch l r l' r' : tree_sim l l' -> tree_sim r r' -> tree_sim (Branch l r) (Branch l' r')
| ts_swap l r l' r' : tree_sim l r' -> tree_sim r l' -> tree_sim (Branch l r) (Branch l' r').

(* ---------------- serialisation is injective ---------------- *)
Lemma encode_varstr_inj r r' e : encode_varstr r = Ok e -> encode_varstr r' = Ok e -> r = r'.
Proof.
  unfold encode_varstr. intros H H'.
  destruct (encode_varint (zlen r)) as [l|] eqn:E; cbn [bind] in H; [|discriminate].
  destruct (encode_varint (zlen r')) as [l'|] eqn:E'; cbn [bind] in H'; [|discriminate].
  assert (R : forall (x : bytes) y, encode_varint (zlen x) = Ok y -> 0 <= zlen x < 18446744073709551616).
  { intros x y Hy. pose proof (zlen_nonneg x) as Hx.
    destruct (Z_lt_dec (zlen x) 18446744073709551616) as [L|G]; [lia|].
    rewrite varint_rejects in Hy by lia. discriminate. }
  pose proof (R r l E) as B. pose proof (R r' l' E') as B'.
  assert (EE : l ++ r = l' ++ r') by congruence.
  exact (proj2 (varint_prefix_free _ _ _ _ _ _ B B' E E' EE)).
Qed.

Lemma leaf_preimage_inv v sc pre :
  leaf_preimage v sc = Ok pre ->
  exists r s, raw_serialize sc = Ok r /\ encode_varstr r = Ok s /\ pre = v :: s /\ 0 <= v <= 255.
Proof.
  unfold leaf_preimage, int_to_byte, serialize_script. intros H.
  destruct (255 <? v) eqn:E1; [discriminate|]. destruct (v <? 0) eqn:E2; [discriminate|]. cbn [orb bind] in H.
  destruct (raw_serialize sc) as [r|]; cbn [bind] in H; [|discriminate].
  destruct (encode_varstr r) as [s|] eqn:Es; cbn [bind] in H; [|discriminate].
  exists r, s. repeat split; auto; try lia. cbn [app] in H. congruence.
Qed.

(* equal TapLeaf preimages: same leaf version and same raw script bytes *)
Lemma leaf_preimage_inj v sc v' sc' pre :
  leaf_preimage v sc = Ok pre -> leaf_preimage v' sc' = Ok pre ->
  v = v' /\ exists r, raw_serialize sc = Ok r /\ raw_serialize sc' = Ok r.
Proof.
  intros H H'. destruct (leaf_preimage_inv _ _ _ H) as (r & s & Hr & Hs & Hp & _).
  destruct (leaf_preimage_inv _ _ _ H') as (r' & s' & Hr' & Hs' & Hp' & _).
  assert (E : v :: s = v' :: s') by congruence. inversion E; subst v' s'.
  split; [reflexivity|]. exists r. split; [exact Hr|]. now rewrite (encode_varstr_inj r r' s Hs Hs').
Qed.

Lemma leaf_preimage_version v v' sc pre pre' :
  leaf_preimage v sc = Ok pre -> leaf_preimage v' sc = Ok pre' -> v <> v' -> pre <> pre'.
Proof.
  intros H H' N E. subst pre'. destruct (leaf_preimage_inj _ _ _ _ _ H H') as [Ev _]. contradiction.
Qed.

Lemma leaf_preimage_script v sc sc' pre pre' :
  leaf_preimage v sc = Ok pre -> leaf_preimage v sc' = Ok pre' ->
  raw_serialize sc <> raw_serialize sc' -> pre <> pre'.
Proof.
  intros H H' N E. subst pre'. destruct (leaf_preimage_inj _ _ _ _ _ H H') as [_ (r & R1 & R2)]. congruence.
Qed.

Section Bind.
Variable C : curve.
Variable sha256 : bytes -> bytes.
Hypothesis sha_len : forall x, length (sha256 x) = 32%nat.

Notation collision := (collision sha256).
Notation tree_hash := (tree_hash sha256).
Notation branch_hash := (branch_hash sha256).
Notation fold_path := (fold_path sha256).

(* two different TapTweak hashes whose output keys have the same x coordinate *)
Definition x_coincidence (k k' : point) (root root' : bytes) : Prop :=
  tweak sha256 k root <> tweak sha256 k' root' /\
  exists T T', tweaked_key C sha256 k root = Ok T /\ tweaked_key C sha256 k' root' = Ok T' /\
               xonly T = xonly T'.

(* ---------------- one altered hashed component changes the TapTweak hash ---------------- *)
Lemma tweak_differs cb cb' sc sc' pre pre' root root' :
  leaf_preimage (cb_version cb) sc = Ok pre -> leaf_preimage (cb_version cb') sc' = Ok pre' ->
  Forall len32 (cb_hashes cb) -> Forall len32 (cb_hashes cb') ->
  single_change (pre, cb_hashes cb, xonly (cb_key cb)) (pre', cb_hashes cb', xonly (cb_key cb')) ->
  cb_merkle_root sha256 cb sc = Ok root -> cb_merkle_root sha256 cb' sc' = Ok root' ->
  collision \/ tweak sha256 (cb_key cb) root <> tweak sha256 (cb_key cb') root'.
Proof.
  intros Hp Hp' F F' SC Hr Hr'.
  unfold cb_merkle_root, tap_leaf_hash in Hr, Hr'. rewrite Hp in Hr. rewrite Hp' in Hr'. cbn [bind] in Hr, Hr'.
  injection Hr as <-. injection Hr' as <-.
  set (lh := hash_tapleaf sha256 pre). set (lh' := hash_tapleaf sha256 pre').
  assert (Llh : length lh = 32%nat) by apply (tagged_len sha256 sha_len).
  assert (Llh' : length lh' = 32%nat) by apply (tagged_len sha256 sha_len).
  assert (K : collision \/ xonly (cb_key cb) ++ fold_path lh (cb_hashes cb)
                           <> xonly (cb_key cb') ++ fold_path lh' (cb_hashes cb')).
  { cbn in SC. destruct SC as [(N & Eh & Ek) | [(Ep & OD & Ek) | (Ep & Eh & Nk)]].
    - destruct (tagged_inj sha256 tag_tapleaf pre pre' N) as [D|Col]; [|left; exact Col].
      fold (hash_tapleaf sha256 pre) in D. fold (hash_tapleaf sha256 pre') in D. fold lh lh' in D.
      rewrite <- Eh.
      destruct (fold_diff_start sha256 sha_len (cb_hashes cb) lh lh' Llh Llh' F D) as [D'|Col]; [|left; exact Col].
      right. rewrite Ek. intros E. apply app_inv_head in E. contradiction.
    - assert (El : lh = lh') by (unfold lh, lh'; now rewrite Ep).
      rewrite <- El.
      destruct (fold_diff_hash sha256 sha_len lh _ _ Llh F F' OD) as [D'|Col]; [|left; exact Col].
      right. rewrite Ek. intros E. apply app_inv_head in E. contradiction.
    - assert (El : fold_path lh (cb_hashes cb) = fold_path lh' (cb_hashes cb'))
        by (unfold lh, lh'; now rewrite Ep, Eh).
      right. rewrite <- El. intros E. apply app_inv_tail in E. contradiction. }
  destruct K as [Col | K]; [left; exact Col|].
  destruct (tagged_inj sha256 tag_taptweak _ _ K) as [D|Col]; [right; exact D | left; exact Col].
Qed.

Lemma cb_external_pubkey_inv cb sc T :
  cb_external_pubkey C sha256 cb sc = Ok T ->
  exists pre root, leaf_preimage (cb_version cb) sc = Ok pre /\
                   cb_merkle_root sha256 cb sc = Ok root /\ tweaked_key C sha256 (cb_key cb) root = Ok T.
Proof.
  unfold cb_external_pubkey. intros H.
  destruct (cb_merkle_root sha256 cb sc) as [root|] eqn:Er; cbn [bind] in H; [|discriminate].
  unfold cb_merkle_root, tap_leaf_hash in Er.
  destruct (leaf_preimage (cb_version cb) sc) as [pre|] eqn:Ep; cbn [bind] in Er; [|discriminate].
  exists pre, root. repeat split; auto.
Qed.

(* x-only form of the tamper theorem: the two recomputed keys need only share the x coordinate *)
Theorem tamper_changes_xonly cb cb' sc sc' pre pre' T T' :
  leaf_preimage (cb_version cb) sc = Ok pre -> leaf_preimage (cb_version cb') sc' = Ok pre' ->
  Forall len32 (cb_hashes cb) -> Forall len32 (cb_hashes cb') ->
  single_change (pre, cb_hashes cb, xonly (cb_key cb)) (pre', cb_hashes cb', xonly (cb_key cb')) ->
  cb_external_pubkey C sha256 cb sc = Ok T -> cb_external_pubkey C sha256 cb' sc' = Ok T' ->
  xonly T = xonly T' ->
  collision \/
  exists root root',
    cb_merkle_root sha256 cb sc = Ok root /\ cb_merkle_root sha256 cb' sc' = Ok root' /\
    x_coincidence (cb_key cb) (cb_key cb') root root'.
Proof.
  intros Hp Hp' F F' SC HT HT' Hx.
  destruct (cb_external_pubkey_inv cb sc T HT) as (p1 & root & _ & Hr & Hk).
  destruct (cb_external_pubkey_inv cb' sc' T' HT') as (p2 & root' & _ & Hr' & Hk').
  destruct (tweak_differs cb cb' sc sc' pre pre' root root' Hp Hp' F F' SC Hr Hr') as [Col|D];
    [left; exact Col|].
  right. exists root, root'. split; [exact Hr|]. split; [exact Hr'|]. split; [exact D|].
  exists T, T'. repeat split; assumption.
Qed.

(* ---------------- (1) one altered byte of the serialized control block ---------------- *)
(* what the altered byte does, with everything that stays equal *)
Lemma tamper_byte_single_change raw raw' cb cb' :
  bytes_ok raw -> bytes_ok raw' ->
  cb_parse C raw = Ok cb -> cb_parse C raw' = Ok cb' -> one_byte_differs raw raw' ->
  (cb_key cb = cb_key cb' /\ cb_hashes cb = cb_hashes cb' /\
   (cb_version cb <> cb_version cb' \/ cb_version cb = cb_version cb' /\ cb_parity cb <> cb_parity cb')) \/
  (cb_version cb = cb_version cb' /\ cb_parity cb = cb_parity cb' /\
   xonly (cb_key cb) <> xonly (cb_key cb') /\ cb_hashes cb = cb_hashes cb') \/
  (cb_version cb = cb_version cb' /\ cb_parity cb = cb_parity cb' /\
   cb_key cb = cb_key cb' /\ one_differs (cb_hashes cb) (cb_hashes cb')).
Proof.
  intros Hok Hok' Hp Hp' OD.
  destruct (tamper_byte_classes C raw raw' cb cb' Hok Hok' Hp Hp' OD) as [H|[H|H]];
    [|right; left; exact H | right; right; exact H].
  left.
  destruct (cb_parse_fields C raw cb Hp) as (b0 & rest & k & E & _ & _ & Hk & Hv & Hpar & Hkey & Hh).
  destruct (cb_parse_fields C raw' cb' Hp') as (b0' & rest' & k' & E' & _ & _ & Hk' & Hv' & Hpar' & Hkey' & Hh').
  destruct OD as (a & x & y & b & Hr & Hr' & N).
  assert (Hzl : zlen raw' = zlen raw) by (unfold zlen; rewrite Hr, Hr', !app_length; reflexivity).
  destruct a as [|a0 a'].
  - cbn [app] in Hr, Hr'. rewrite Hr in E. rewrite Hr' in E'. inversion E; inversion E'. subst.
    split; [congruence|]. split; [congruence|].
    destruct (Z.eq_dec (cb_version cb) (cb_version cb')) as [Ev|Nv]; [right | left; exact Nv].
    split; [exact Ev|]. destruct H as [H|H]; [contradiction | exact H].
  - exfalso. cbn [app] in Hr, Hr'. rewrite Hr in E. rewrite Hr' in E'. inversion E; inversion E'. subst.
    destruct H as [H|H]; apply H; congruence.
Qed.

Theorem tamper_cb_byte raw raw' cb cb' sc T T' :
  bytes_ok raw -> bytes_ok raw' ->
  cb_parse C raw = Ok cb -> cb_parse C raw' = Ok cb' -> one_byte_differs raw raw' ->
  cb_external_pubkey C sha256 cb sc = Ok T -> parity T = Ok (cb_parity cb) ->
  cb_external_pubkey C sha256 cb' sc = Ok T' -> parity T' = Ok (cb_parity cb') ->
  xonly T = xonly T' ->
  collision \/
  exists root root',
    cb_merkle_root sha256 cb sc = Ok root /\ cb_merkle_root sha256 cb' sc = Ok root' /\
    x_coincidence (cb_key cb) (cb_key cb') root root'.
Proof.
  intros Hok Hok' Hp Hp' OD HT Hpar HT' Hpar' Hx.
  destruct (cb_parse_wf C raw cb Hok Hp) as (_ & _ & _ & F & _).
  destruct (cb_parse_wf C raw' cb' Hok' Hp') as (_ & _ & _ & F' & _).
  destruct (cb_external_pubkey_inv cb sc T HT) as (pre & root & Hpre & Hr & Hk).
  destruct (cb_external_pubkey_inv cb' sc T' HT') as (pre' & root' & Hpre' & Hr' & Hk').
  destruct (tamper_byte_single_change raw raw' cb cb' Hok Hok' Hp Hp' OD)
    as [(Ek & Eh & [Nv | [Ev Npar]]) | [(Ev & Epar & Nk & Eh) | (Ev & Epar & Ek & OH)]].
  - (* the leaf version bits of byte 0 *)
    apply (tamper_changes_xonly cb cb' sc sc pre pre' T T'); auto.
    cbn. left. split; [|split; [exact Eh | now rewrite Ek]].
    intros E. subst pre'. destruct (leaf_preimage_inj _ _ _ _ _ Hpre Hpre') as [Evv _]. contradiction.
  - (* only the parity bit: the recomputation is the same, the recorded parity is not *)
    exfalso. assert (ET : cb_external_pubkey C sha256 cb sc = cb_external_pubkey C sha256 cb' sc).
    { unfold cb_external_pubkey, cb_merkle_root. now rewrite Ev, Eh, Ek. }
    assert (T = T') by congruence. subst T'. apply Npar. congruence.
  - (* a byte of the x-only internal key *)
    apply (tamper_changes_xonly cb cb' sc sc pre pre' T T'); auto.
    cbn. right. right. split; [rewrite Ev in Hpre; congruence|]. split; [exact Eh | exact Nk].
  - (* a byte of one path hash *)
    apply (tamper_changes_xonly cb cb' sc sc pre pre' T T'); auto.
    cbn. right. left. split; [rewrite Ev in Hpre; congruence|]. split; [exact OH | now rewrite Ek].
Qed.

(* the hashes of a parsed control block are 32 bytes long (no assumption on the input bytes) *)
Lemma cb_parse_len32 raw cb : cb_parse C raw = Ok cb -> Forall len32 (cb_hashes cb).
Proof.
  intros H. destruct (cb_parse_ok_len C raw cb H) as (m & Hm & Hl).
  destruct raw as [|b0 rest]; [cbn in Hl; lia|]. cbn [length] in Hl.
  rewrite (cb_parse_unfold C b0 rest m Hm ltac:(lia)) in H.
  destruct (parse_xonly C (firstn 32 rest)) as [k|]; cbn [bind] in H; [|discriminate].
  assert (Hcb : cb = {| cb_version := Z.land b0 254; cb_parity := Z.land b0 1; cb_key := k;
                        cb_hashes := chunks32 m (skipn 32 rest) |}) by congruence.
  subst cb. cbn [cb_hashes]. apply chunks32_len32. rewrite skipn_length. lia.
Qed.

(* ---------------- (2) the commitment check of Script.evaluate ---------------- *)
Lemma commit_check_inv q rs raw :
  script_path_commit_check C sha256 q [rs; raw] = Ok true ->
  has_annex [rs; raw] = false /\
  exists cb sc T,
    cb_parse C raw = Ok cb /\ tap_script_of rs = Ok sc /\
    cb_external_pubkey C sha256 cb sc = Ok T /\ parity T = Ok (cb_parity cb) /\ xonly T = q.
Proof.
  intros H. destruct (has_annex [rs; raw]) eqn:Ha.
  - exfalso. unfold script_path_commit_check in H. rewrite Ha in H. cbn in H. discriminate.
  - split; [reflexivity|]. rewrite (commit_core C sha256 q rs raw Ha) in H.
    destruct (cb_parse C raw) as [cb|] eqn:E1; cbn [bind] in H; [|discriminate].
    destruct (tap_script_of rs) as [sc|] eqn:E2; cbn [bind] in H; [|discriminate].
    destruct (cb_external_pubkey C sha256 cb sc) as [T|] eqn:E3; cbn [bind] in H; [|discriminate].
    destruct (parity T) as [par|] eqn:E4; cbn [bind] in H; [|discriminate].
    destruct (par =? cb_parity cb) eqn:Ep; cbn [negb] in H; [|discriminate].
    apply Z.eqb_eq in Ep. subst par. injection H as H. apply beq_eq in H.
    exists cb, sc, T. repeat split; auto.
Qed.

(* the control-block item of the witness altered in one byte *)
Theorem commit_tamper_control_block q rs raw raw' :
  bytes_ok raw -> bytes_ok raw' -> one_byte_differs raw raw' ->
  script_path_commit_check C sha256 q [rs; raw] = Ok true ->
  script_path_commit_check C sha256 q [rs; raw'] = Ok true ->
  collision \/
  exists cb cb' sc root root',
    cb_parse C raw = Ok cb /\ cb_parse C raw' = Ok cb' /\ tap_script_of rs = Ok sc /\
    cb_merkle_root sha256 cb sc = Ok root /\ cb_merkle_root sha256 cb' sc = Ok root' /\
    x_coincidence (cb_key cb) (cb_key cb') root root'.
Proof.
  intros Hok Hok' OD H H'.
  destruct (commit_check_inv q rs raw H) as (_ & cb & sc & T & Hp & Hs & HT & Hpar & Hx).
  destruct (commit_check_inv q rs raw' H') as (_ & cb' & sc' & T' & Hp' & Hs' & HT' & Hpar' & Hx').
  assert (sc' = sc) by congruence. subst sc'.
  destruct (tamper_cb_byte raw raw' cb cb' sc T T' Hok Hok' Hp Hp' OD HT Hpar HT' Hpar' ltac:(congruence))
    as [Col | (root & root' & Hr & Hr' & X)]; [left; exact Col|].
  right. exists cb, cb', sc, root, root'. do 5 (split; [assumption|]). exact X.
Qed.

(* the leaf-script item of the witness altered (in any way): either both witness scripts
   re-serialise to the same bytes (the leaf hash is taken over Script.parse(...).raw_serialize(),
   not over the witness bytes), or a collision, or the coincidence *)
Theorem commit_tamper_leaf_script q rs rs' raw :
  script_path_commit_check C sha256 q [rs; raw] = Ok true ->
  script_path_commit_check C sha256 q [rs'; raw] = Ok true ->
  exists cb sc sc',
    cb_parse C raw = Ok cb /\ tap_script_of rs = Ok sc /\ tap_script_of rs' = Ok sc' /\
    (raw_serialize sc = raw_serialize sc' \/
     collision \/
     exists root root',
       cb_merkle_root sha256 cb sc = Ok root /\ cb_merkle_root sha256 cb sc' = Ok root' /\
       x_coincidence (cb_key cb) (cb_key cb) root root').
Proof.
  intros H H'.
  destruct (commit_check_inv q rs raw H) as (_ & cb & sc & T & Hp & Hs & HT & Hpar & Hx).
  destruct (commit_check_inv q rs' raw H') as (_ & cb' & sc' & T' & Hp' & Hs' & HT' & Hpar' & Hx').
  assert (cb' = cb) by congruence. subst cb'.
  exists cb, sc, sc'. split; [exact Hp|]. split; [exact Hs|]. split; [exact Hs'|].
  destruct (cb_external_pubkey_inv cb sc T HT) as (pre & root & Hpre & Hr & Hk).
  destruct (cb_external_pubkey_inv cb sc' T' HT') as (pre' & root' & Hpre' & Hr' & Hk').
  destruct (raw_serialize sc) as [r|] eqn:R.
  2:{ exfalso. unfold leaf_preimage, serialize_script in Hpre. rewrite R in Hpre.
      destruct (int_to_byte (cb_version cb)); discriminate. }
  destruct (raw_serialize sc') as [r'|] eqn:R'.
  2:{ exfalso. unfold leaf_preimage, serialize_script in Hpre'. rewrite R' in Hpre'.
      destruct (int_to_byte (cb_version cb)); discriminate. }
  destruct (list_eq_dec Z.eq_dec r r') as [->|N]; [left; reflexivity|]. right.
  assert (Np : pre <> pre').
  { apply (leaf_preimage_script (cb_version cb) sc sc'); auto. rewrite R, R'. congruence. }
  pose proof (cb_parse_len32 raw cb Hp) as F.
  destruct (tamper_changes_xonly cb cb sc sc' pre pre' T T' Hpre Hpre' F F) as [Col|X]; auto.
  { cbn. left. auto. }
  { congruence. }
Qed.

(* the honest script item is canonical: it is its own re-serialisation *)
Lemma honest_script_canonical cs rs :
  cmds_wfb cs = true -> ser_cmds cs = Ok rs -> zlen rs < 9223372036854775808 ->
  exists sc, tap_script_of rs = Ok sc /\ raw_serialize sc = Ok rs.
Proof.
  intros W Hser Hl.
  destruct (script_stream_roundtrip cs W rs Hser Hl) as (e & He & _ & Hps).
  unfold serialize_script, raw_serialize in He. cbn [mk_script s_raw s_cmds] in He.
  rewrite Hser in He. cbn [bind] in He.
  exists (mk_script (canon_cmds cs)). unfold tap_script_of. rewrite He. cbn [bind].
  specialize (Hps []). rewrite app_nil_r in Hps. rewrite Hps. cbn [bind]. split; [reflexivity|].
  unfold raw_serialize. cbn [mk_script s_raw s_cmds]. now rewrite ser_cmds_canon.
Qed.

(* ---------------- (3) the root binds the tree ---------------- *)
Lemma tag_sep tag tag' m m' :
  tag <> tag' -> tagged_hash sha256 tag m = tagged_hash sha256 tag' m' -> collision.
Proof.
  intros N E. unfold tagged_hash in E.
  destruct (list_eq_dec Z.eq_dec (sha256 tag) (sha256 tag')) as [Et|Nt].
  - exists tag, tag'. split; assumption.
  - eexists _, _. split; [|exact E]. intros E'.
    apply app_inj_len in E' as [E1 _]; [contradiction | now rewrite !sha_len].
Qed.

Lemma branch_preimage_pair a b a' b' :
  length a = 32%nat -> length b = 32%nat -> length a' = 32%nat -> length b' = 32%nat ->
  branch_preimage a b = branch_preimage a' b' -> (a = a' /\ b = b') \/ (a = b' /\ b = a').
Proof.
  intros La Lb La' Lb' E. unfold branch_preimage in E.
  destruct (blt a b), (blt a' b'); apply app_inj_len in E as [E1 E2]; try lia; subst; auto.
Qed.

Lemma tree_sim_hash t t' : tree_sim t t' -> exists h, tree_hash t = Ok h /\ tree_hash t' = Ok h.
Proof.
  induction 1 as [v sc v' sc' pre H H' | l r l' r' _ [a [A A']] _ [b [B B']] | l r l' r' _ [a [A A']] _ [b [B B']]];
    cbn [Taproot.tree_hash].
  - unfold tap_leaf_hash. rewrite H, H'. cbn [bind]. eauto.
  - rewrite A, A', B, B'. cbn [bind]. eauto.
  - rewrite A, A', B, B'. cbn [bind]. rewrite (branch_hash_sym sha256 b a). eauto.
Qed.

Theorem tree_hash_binding t : forall t' h,
  tree_hash t = Ok h -> tree_hash t' = Ok h -> tree_sim t t' \/ collision.
Proof.
  induction t as [v sc | l IHl r IHr]; intros [v' sc' | l' r'] h H H'; cbn [Taproot.tree_hash] in H, H'.
  - unfold tap_leaf_hash in H, H'.
    destruct (leaf_preimage v sc) as [pre|] eqn:E; cbn [bind] in H; [|discriminate].
    destruct (leaf_preimage v' sc') as [pre'|] eqn:E'; cbn [bind] in H'; [|discriminate].
    destruct (list_eq_dec Z.eq_dec pre pre') as [->|N]; [left; econstructor; eassumption|].
    right. destruct (tagged_inj sha256 tag_tapleaf pre pre' N) as [D|Col]; [|exact Col].
    exfalso. apply D. unfold hash_tapleaf in H, H'. congruence.
  - right. unfold tap_leaf_hash in H.
    destruct (leaf_preimage v sc) as [pre|]; cbn [bind] in H; [|discriminate].
    destruct (tree_hash l') as [a'|]; cbn [bind] in H'; [|discriminate].
    destruct (tree_hash r') as [b'|]; cbn [bind] in H'; [|discriminate].
    apply (tag_sep tag_tapleaf tag_tapbranch pre (branch_preimage a' b')); [discriminate|].
    unfold hash_tapleaf in H. unfold Taproot.branch_hash, hash_tapbranch in H'. congruence.
  - right. unfold tap_leaf_hash in H'.
    destruct (leaf_preimage v' sc') as [pre|]; cbn [bind] in H'; [|discriminate].
    destruct (tree_hash l) as [a|]; cbn [bind] in H; [|discriminate].
    destruct (tree_hash r) as [b|]; cbn [bind] in H; [|discriminate].
    apply (tag_sep tag_tapleaf tag_tapbranch pre (branch_preimage a b)); [discriminate|].
    unfold hash_tapleaf in H'. unfold Taproot.branch_hash, hash_tapbranch in H. congruence.
  - destruct (tree_hash l) as [a|] eqn:A; cbn [bind] in H; [|discriminate].
    destruct (tree_hash r) as [b|] eqn:B; cbn [bind] in H; [|discriminate].
    destruct (tree_hash l') as [a'|] eqn:A'; cbn [bind] in H'; [|discriminate].
    destruct (tree_hash r') as [b'|] eqn:B'; cbn [bind] in H'; [|discriminate].
    pose proof (tree_hash_len sha256 sha_len l a A) as La.
    pose proof (tree_hash_len sha256 sha_len r b B) as Lb.
    pose proof (tree_hash_len sha256 sha_len l' a' A') as La'.
    pose proof (tree_hash_len sha256 sha_len r' b' B') as Lb'.
    destruct (list_eq_dec Z.eq_dec (branch_preimage a b) (branch_preimage a' b')) as [E|N].
    + destruct (branch_preimage_pair a b a' b' La Lb La' Lb' E) as [[-> ->] | [-> ->]].
      * destruct (IHl l' a' eq_refl A') as [S1|Col]; [|right; exact Col].
        destruct (IHr r' b' eq_refl B') as [S2|Col]; [|right; exact Col].
        left. now apply ts_branch.
      * destruct (IHl r' b' eq_refl B') as [S1|Col]; [|right; exact Col].
        destruct (IHr l' a' eq_refl A') as [S2|Col]; [|right; exact Col].
        left. now apply ts_swap.
    + right. destruct (tagged_inj sha256 tag_tapbranch _ _ N) as [D|Col]; [|exact Col].
      exfalso. apply D. unfold Taproot.branch_hash, hash_tapbranch in H, H'. congruence.
Qed.

(* the x-only output key binds the tree and the x-only internal key *)
Theorem output_key_binding t t' P P' Q Q' :
  tree_external_pubkey C sha256 t P = Ok Q -> tree_external_pubkey C sha256 t' P' = Ok Q' ->
  xonly Q = xonly Q' ->
  (tree_sim t t' /\ xonly P = xonly P') \/ collision \/
  exists root root', tree_hash t = Ok root /\ tree_hash t' = Ok root' /\ x_coincidence P P' root root'.
Proof.
  unfold tree_external_pubkey. intros H H' Hx.
  destruct (tree_hash t) as [root|] eqn:R; cbn [bind] in H; [|discriminate].
  destruct (tree_hash t') as [root'|] eqn:R'; cbn [bind] in H'; [|discriminate].
  destruct (list_eq_dec Z.eq_dec (tweak sha256 P root) (tweak sha256 P' root')) as [E|N].
  - destruct (list_eq_dec Z.eq_dec (xonly P ++ root) (xonly P' ++ root')) as [E2|N2].
    + apply app_inj_len in E2 as [Ex Er]; [|now rewrite !xonly_length]. subst root'.
      destruct (tree_hash_binding t t' root R R') as [S|Col]; [left; split; assumption | right; left; exact Col].
    + right. left. destruct (tagged_inj sha256 tag_taptweak _ _ N2) as [D|Col]; [|exact Col].
      exfalso. apply D. exact E.
  - right. right. exists root, root'. split; [reflexivity|]. split; [reflexivity|]. split; [exact N|].
    exists Q, Q'. repeat split; assumption.
Qed.

End Bind.

(* the first disjunct of commit_tamper_leaf_script is inhabited: two different witness scripts
   (a one-byte push written directly and with OP_PUSHDATA1) re-serialise to the same bytes *)
Example reserialise_coincidence :
  exists rs rs' sc sc', rs <> rs' /\ tap_script_of rs = Ok sc /\ tap_script_of rs' = Ok sc' /\
                        raw_serialize sc = raw_serialize sc'.
Proof.
  exists [1; 170; 117; 81], [76; 1; 170; 117; 81]. eexists _, _.
  split; [discriminate|]. split; [reflexivity|]. split; reflexivity.
Qed.
