(* Proofs/SighashSignP.v — C05: signing and verifying use the same digest.
   (1) The three digests do not depend on the scriptSigs and witnesses of the inputs (BIP341: only
       on the annex / tap leaf of the input being signed): putting a signature into an input does
       not invalidate the signatures made before.
   (2) What Tx.get_sig_legacy / get_sig_segwit / get_sig_taproot sign is what op_checksig /
       op_checksig_schnorr recompute, through Tx.sig_hash's dispatch, on the finalised input, for
       the hash type byte the signer appended.
   (3) Tx.sign_p2pkh / sign_p2wpkh / sign_p2sh_p2wpkh / sign_p2tr_keypath return True whenever the
       signature primitive accepts its own signature (composition with the C06 completeness
       theorems for the script interpreter).
   (4) Tx.verify_input accepts a P2PKH / P2WPKH / P2TR key-path input only with a signature that
       the primitive accepts for the digest of the signature's own hash type (composition with the
       C06 soundness theorems). *)
From V Require Import Base.Prelude Base.Ints Model.Helper Model.Script Model.Op Model.Interp
  Model.Pecc Model.Taproot Model.Verify Model.Tx Model.Sighash Model.SighashSig
  Spec.TxData Spec.SigHashType Proofs.SighashP Proofs.SighashHistP Proofs.SighashDispatchP Proofs.SighashSigP
  Proofs.VerifyP Proofs.VerifyNestedP Proofs.SighashKindsP.

(* ------------------------------------------------------------------ (1) what the digests read *)

Definition in_core_eq (a b : txin) : Prop :=
  i_prev_tx a = i_prev_tx b /\ i_prev_index a = i_prev_index b /\ i_sequence a = i_sequence b.

(* same version, outputs, locktime; the inputs agree on outpoint and sequence (their scriptSigs
   and witnesses are arbitrary) *)
Definition same_core (t t' : tx) : Prop :=
  t_version t = t_version t' /\ t_outs t = t_outs t' /\ t_locktime t = t_locktime t' /\
  Forall2 in_core_eq (t_ins t) (t_ins t').

Lemma in_core_eq_refl a : in_core_eq a a.
Proof. repeat split. Qed.

Lemma same_core_refl t : same_core t t.
Proof.
  repeat split. induction (t_ins t) as [|a l IH]; constructor; [apply in_core_eq_refl|exact IH].
Qed.

Lemma in_core_eq_trans a b c : in_core_eq a b -> in_core_eq b c -> in_core_eq a c.
Proof. intros (A1 & A2 & A3) (B1 & B2 & B3). repeat split; congruence. Qed.

Lemma Forall2_trans_gen {A} (R : A -> A -> Prop) :
  (forall a b c, R a b -> R b c -> R a c) ->
  forall l1 l2 l3, Forall2 R l1 l2 -> Forall2 R l2 l3 -> Forall2 R l1 l3.
Proof.
  intros Ht l1 l2 l3 H. revert l3. induction H as [|a b l l' Hab _ IH]; intros l3 B; inversion B; subst.
  - constructor.
  - constructor; [eapply Ht; eassumption|apply IH; assumption].
Qed.

Lemma same_core_trans t1 t2 t3 : same_core t1 t2 -> same_core t2 t3 -> same_core t1 t3.
Proof.
  intros (A1 & A2 & A3 & A4) (B1 & B2 & B3 & B4). repeat split; try congruence.
  exact (Forall2_trans_gen in_core_eq in_core_eq_trans _ _ _ A4 B4).
Qed.

Lemma Forall2_len {A B} (R : A -> B -> Prop) l l' : Forall2 R l l' -> length l = length l'.
Proof. induction 1; cbn [length]; congruence. Qed.

Lemma Forall2_nth_error {A B} (R : A -> B -> Prop) l l' :
  Forall2 R l l' -> forall i,
  match nth_error l i, nth_error l' i with
  | Some a, Some b => R a b
  | None, None => True
  | _, _ => False
  end.
Proof.
  induction 1 as [|a b l l' H _ IH]; intros i; destruct i; cbn [nth_error]; auto. apply IH.
Qed.

Lemma Forall2_upd_nth {A} (R : A -> A -> Prop) (f : A -> A) :
  (forall a, R a a) -> (forall a, R a (f a)) -> forall k l, Forall2 R l (upd_nth k f l).
Proof.
  intros Hr Hf k. induction k as [|k IH]; intros [|y r]; cbn [upd_nth]; try constructor; auto.
  - induction r; constructor; auto.
Qed.

(* an edit of one input that keeps outpoint and sequence *)
Lemma same_core_upd t idx f :
  (forall i, in_core_eq i (f i)) -> same_core t (tx_upd_in t idx f).
Proof.
  intros H. unfold tx_upd_in, with_ins. repeat split; cbn [t_version t_outs t_locktime t_ins].
  apply Forall2_upd_nth; [apply in_core_eq_refl|exact H].
Qed.

Lemma nth_error_upd_nth {A} (f : A -> A) k : forall (l : list A) x,
  nth_error l k = Some x -> nth_error (upd_nth k f l) k = Some (f x).
Proof.
  induction k as [|k IH]; intros [|y r] x; cbn [upd_nth nth_error]; try discriminate.
  - now intros [= ->].
  - apply IH.
Qed.

Lemma tx_upd_in_nth t idx f ti :
  nth_error (t_ins t) idx = Some ti -> nth_error (t_ins (tx_upd_in t idx f)) idx = Some (f ti).
Proof. intros H. unfold tx_upd_in, with_ins. cbn [t_ins]. now apply nth_error_upd_nth. Qed.

(* ---- legacy ---- *)
Lemma legacy_ins_core ht idx code l l' :
  Forall2 in_core_eq l l' -> forall i, legacy_ins ht idx code i l = legacy_ins ht idx code i l'.
Proof.
  induction 1 as [|a b l l' (H1 & H2 & H3) _ IH]; intros i; cbn [legacy_ins]; [reflexivity|].
  unfold legacy_txin. rewrite H1, H2, H3, (IH (S i)). reflexivity.
Qed.

Lemma legacy_preimage_core t t' idx code ht :
  same_core t t' -> legacy_preimage t idx code ht = legacy_preimage t' idx code ht.
Proof.
  intros (Hv & Ho & Hl & Hi). unfold legacy_preimage, zlen.
  rewrite Hv, Ho, Hl, (Forall2_len _ _ _ Hi), (legacy_ins_core ht idx code _ _ Hi 0%nat). reflexivity.
Qed.

Lemma sig_hash_legacy_core hash256 t t' sp idx redeem ht :
  same_core t t' ->
  sig_hash_legacy hash256 t sp idx redeem ht = sig_hash_legacy hash256 t' sp idx redeem ht.
Proof.
  intros H. unfold sig_hash_legacy.
  destruct H as (Hv & Ho & Hl & Hi).
  rewrite (Forall2_len _ _ _ Hi).
  destruct (match redeem with Some r => Ok r | None => _ end) as [code|]; cbn [bind]; [|reflexivity].
  rewrite (legacy_preimage_core t t' idx code ht); [reflexivity|]. repeat split; assumption.
Qed.

(* ---- BIP143 ---- *)
Lemma prevouts_seqs_core l l' : Forall2 in_core_eq l l' -> prevouts_seqs l = prevouts_seqs l'.
Proof.
  induction 1 as [|a b l l' (H1 & H2 & H3) _ IH]; cbn [prevouts_seqs]; [reflexivity|].
  now rewrite H1, H2, H3, IH.
Qed.

Section Core.
Variables hash256 sha256 hash_tapsighash hash_tapleaf : bytes -> bytes.
Variable xonly_ok : bytes -> bool.

Lemma bip143_preimage_core t t' sp idx redeem wscript ht m :
  same_core t t' ->
  bip143_preimage hash256 t sp idx redeem wscript ht m =
  bip143_preimage hash256 t' sp idx redeem wscript ht m.
Proof.
  intros (Hv & Ho & Hl & Hi).
  assert (Hp : forall m0, hash_prevouts hash256 t m0 = hash_prevouts hash256 t' m0).
  { intros m0. unfold hash_prevouts. now rewrite (prevouts_seqs_core _ _ Hi). }
  assert (Hs : forall m0, hash_sequence hash256 t m0 = hash_sequence hash256 t' m0).
  { intros m0. unfold hash_sequence. now rewrite Hp. }
  assert (Hout : forall m0, hash_outputs hash256 t m0 = hash_outputs hash256 t' m0).
  { intros m0. unfold hash_outputs. now rewrite Ho. }
  unfold bip143_preimage.
  pose proof (Forall2_nth_error _ _ _ Hi idx) as Hn.
  destruct (nth_error (t_ins t) idx) as [ti|], (nth_error (t_ins t') idx) as [ti'|];
    try contradiction; [|reflexivity].
  destruct Hn as (H1 & H2 & H3). rewrite Hv, Hl, Ho, H1, H2, H3.
  destruct (int_to_le (t_version t') 4); cbn [bind]; [|reflexivity].
  rewrite Hp.
  destruct (if negb (ht_acp ht) then hash_prevouts hash256 t' m else Ok (m, zero32)) as [[m1 hp]|];
    cbn [bind]; [|reflexivity].
  rewrite Hs.
  destruct (if negb (ht_acp ht) && negb (ht_none_or_single5 ht) then hash_sequence hash256 t' m1
            else Ok (m1, zero32)) as [[m2 hs]|]; cbn [bind]; [|reflexivity].
  destruct (int_to_le (i_prev_index ti') 4); cbn [bind]; [|reflexivity].
  destruct (bip143_script_code _ _ _); cbn [bind]; [|reflexivity].
  destruct (serialize_script _); cbn [bind]; [|reflexivity].
  destruct (match nth_error sp idx with Some s0 => _ | None => Err end); cbn [bind]; [|reflexivity].
  destruct (int_to_le (i_sequence ti') 4); cbn [bind]; [|reflexivity].
  rewrite Hout. reflexivity.
Qed.

Lemma sig_hash_bip143_core t t' sp idx redeem wscript ht m :
  same_core t t' ->
  sig_hash_bip143 hash256 t sp idx redeem wscript ht m =
  sig_hash_bip143 hash256 t' sp idx redeem wscript ht m.
Proof. intros H. unfold sig_hash_bip143. now rewrite (bip143_preimage_core t t' sp idx _ _ ht m H). Qed.

(* ---- BIP341 ---- *)
Lemma sha_parts_core sp l l' :
  Forall2 in_core_eq l l' -> forall i, sha_parts l i sp = sha_parts l' i sp.
Proof.
  induction 1 as [|a b l l' (H1 & H2 & H3) _ IH]; intros i; cbn [sha_parts]; [reflexivity|].
  now rewrite H1, H2, H3, (IH (S i)).
Qed.

(* the witness of the input being signed matters only through its annex and, on the script
   path, its tap leaf: [wit_agree ext w w'] *)
Definition wit_agree (ext : Z) (w w' : list bytes) : Prop :=
  w = w' \/ ((ext =? 1) = false /\ has_annex w = false /\ has_annex w' = false).

Lemma bip341_preimage_core t t' sp idx ext ht m :
  same_core t t' ->
  (forall ti ti', nth_error (t_ins t) idx = Some ti -> nth_error (t_ins t') idx = Some ti' ->
                  wit_agree ext (i_witness ti) (i_witness ti')) ->
  bip341_preimage sha256 hash_tapleaf xonly_ok t sp idx ext ht m =
  bip341_preimage sha256 hash_tapleaf xonly_ok t' sp idx ext ht m.
Proof.
  intros (Hv & Ho & Hl & Hi) Hw.
  assert (Hp : forall m0, sha_prevouts sha256 t sp m0 = sha_prevouts sha256 t' sp m0).
  { intros m0. unfold sha_prevouts. now rewrite (sha_parts_core sp _ _ Hi 0%nat). }
  assert (Ha : forall m0, sha_amounts sha256 t sp m0 = sha_amounts sha256 t' sp m0).
  { intros m0. unfold sha_amounts. now rewrite Hp. }
  assert (Hk : forall m0, sha_script_pubkeys sha256 t sp m0 = sha_script_pubkeys sha256 t' sp m0).
  { intros m0. unfold sha_script_pubkeys. now rewrite Hp. }
  assert (Hq : forall m0, sha_sequences sha256 t sp m0 = sha_sequences sha256 t' sp m0).
  { intros m0. unfold sha_sequences. now rewrite Hp. }
  assert (Hout : forall m0, sha_outputs sha256 t m0 = sha_outputs sha256 t' m0).
  { intros m0. unfold sha_outputs. now rewrite Ho. }
  unfold bip341_preimage.
  pose proof (Forall2_nth_error _ _ _ Hi idx) as Hn.
  destruct (nth_error (t_ins t) idx) as [ti|] eqn:E1, (nth_error (t_ins t') idx) as [ti'|] eqn:E2;
    try contradiction; [|reflexivity].
  destruct Hn as (H1 & H2 & H3). specialize (Hw ti ti' eq_refl eq_refl).
  rewrite Hv, Hl, Ho, H1, H2, H3.
  destruct (int_to_byte ht); cbn [bind]; [|reflexivity].
  destruct (int_to_le (t_version t') 4); cbn [bind]; [|reflexivity].
  destruct (int_to_le (t_locktime t') 4); cbn [bind]; [|reflexivity].
  assert (Hins : (if negb (ht_acp ht)
                  then '(ma, a) <- sha_prevouts sha256 t sp m ;;
                       '(mb, b) <- sha_amounts sha256 t sp ma ;;
                       '(mc, c) <- sha_script_pubkeys sha256 t sp mb ;;
                       '(md, d) <- sha_sequences sha256 t sp mc ;; Ok (md, a ++ b ++ c ++ d)
                  else Ok (m, [])) =
                 (if negb (ht_acp ht)
                  then '(ma, a) <- sha_prevouts sha256 t' sp m ;;
                       '(mb, b) <- sha_amounts sha256 t' sp ma ;;
                       '(mc, c) <- sha_script_pubkeys sha256 t' sp mb ;;
                       '(md, d) <- sha_sequences sha256 t' sp mc ;; Ok (md, a ++ b ++ c ++ d)
                  else Ok (m, []))).
  { destruct (negb (ht_acp ht)); [|reflexivity]. rewrite Hp.
    destruct (sha_prevouts sha256 t' sp m) as [[ma pa]|]; cbn [bind]; [|reflexivity]. rewrite Ha.
    destruct (sha_amounts sha256 t' sp ma) as [[mb pb]|]; cbn [bind]; [|reflexivity]. rewrite Hk.
    destruct (sha_script_pubkeys sha256 t' sp mb) as [[mc pc]|]; cbn [bind]; [|reflexivity].
    now rewrite Hq. }
  rewrite Hins. clear Hins.
  match goal with |- context [bind ?e _] => destruct e as [[m1 ins]|] end; cbn [bind]; [|reflexivity].
  rewrite Hout.
  destruct (if negb (ht_none_or_single ht) then sha_outputs sha256 t' m1 else Ok (m1, []))
    as [[m2 outs]|]; cbn [bind]; [|reflexivity].
  destruct Hw as [Hw|(He & Hw1 & Hw2)].
  - now rewrite Hw.
  - rewrite Hw1, Hw2, He. reflexivity.
Qed.

Lemma sig_hash_bip341_core t t' sp idx ext ht m :
  same_core t t' ->
  (forall ti ti', nth_error (t_ins t) idx = Some ti -> nth_error (t_ins t') idx = Some ti' ->
                  wit_agree ext (i_witness ti) (i_witness ti')) ->
  sig_hash_bip341 sha256 hash_tapsighash hash_tapleaf xonly_ok t sp idx ext ht m =
  sig_hash_bip341 sha256 hash_tapsighash hash_tapleaf xonly_ok t' sp idx ext ht m.
Proof.
  intros H Hw. unfold sig_hash_bip341. now rewrite (bip341_preimage_core t t' sp idx ext ht m H Hw).
Qed.

End Core.

(* ------------------------------------------------------------------ (2) signer and verifier *)

Lemma rsnd_ok {A B} (r : result (A * B)) b : rsnd r = Ok b -> exists a, r = Ok (a, b).
Proof. unfold rsnd. destruct r as [[a b']|]; cbn [bind]; [intros [= ->]; eauto|discriminate]. Qed.

Lemma std_explicit ht :
  standard_hash_type ht = true -> (ht =? 0) = false -> taproot_explicit_hash_type ht = true.
Proof.
  intros H. apply std_cases in H. destruct H as [->|[->|[->|[->|[->|[->| ->]]]]]]; intros E;
    try reflexivity; discriminate E.
Qed.

Section Agree.
Variables hash256 sha256 hash_tapsighash hash_tapleaf : bytes -> bytes.
Variable xonly_ok : bytes -> bool.
Variable pr : sigprims.

Notation SIG_HASH := (sig_hash hash256 sha256 hash_tapsighash hash_tapleaf xonly_ok).
Notation SIGOPS := (tx_sigops hash256 sha256 hash_tapsighash hash_tapleaf xonly_ok pr).
Notation FRESH := (fresh_digest hash256 sha256 hash_tapsighash hash_tapleaf xonly_ok).

(* Tx.sig_hash on ANY later state t' of the transaction (same outpoints, sequences, outputs,
   version, locktime; scriptSigs and witnesses whatever they have become) returns, for a spent
   output of the given kind, what the builder the signer called returns on the state t it saw *)
Lemma sig_hash_p2pkh_core t t' sp idx ti' s h ht m' :
  same_core t t' -> nth_error (t_ins t') idx = Some ti' -> nth_error sp idx = Some s ->
  sp_script s = mk_script (p2pkh_script h) ->
  rsnd (SIG_HASH t' sp idx ht m') =
  ('(p, z) <- sig_hash_legacy hash256 t sp idx None ht ;;
   Ok {| so_alg := 0; so_pre := p; so_digest := DInt z |}).
Proof.
  intros Hc Eti Es Hspk. unfold sig_hash. rewrite Eti, Es, Hspk, plan_p2pkh. cbn [bind].
  rewrite <- (sig_hash_legacy_core hash256 t t' sp idx None ht Hc).
  destruct (sig_hash_legacy hash256 t sp idx None ht) as [[p d]|]; reflexivity.
Qed.

Lemma sig_hash_bip143_rsnd t sp idx redeem wscript ht m1 m2 :
  rsnd ('(m', (p, d)) <- sig_hash_bip143 hash256 t sp idx redeem wscript ht m1 ;;
        Ok (m', {| so_alg := 143; so_pre := Some p; so_digest := DInt d |})) =
  ('(p, z) <- rsnd (sig_hash_bip143 hash256 t sp idx redeem wscript ht m2) ;;
   Ok {| so_alg := 143; so_pre := Some p; so_digest := DInt z |}).
Proof.
  pose proof (sig_hash_bip143_indep hash256 t sp idx redeem wscript ht m1 m2) as H. unfold rsnd in *.
  destruct (sig_hash_bip143 hash256 t sp idx redeem wscript ht m1) as [[? [? ?]]|],
           (sig_hash_bip143 hash256 t sp idx redeem wscript ht m2) as [[? [? ?]]|];
    cbn [bind] in *; inversion H; reflexivity.
Qed.

Lemma sig_hash_p2wpkh_core t t' sp idx ti' s h ht m m' :
  same_core t t' -> nth_error (t_ins t') idx = Some ti' -> nth_error sp idx = Some s ->
  sp_script s = mk_script (p2wpkh_script h) -> length h = 20%nat ->
  rsnd (SIG_HASH t' sp idx ht m') =
  ('(p, z) <- rsnd (sig_hash_bip143 hash256 t sp idx None None ht m) ;;
   Ok {| so_alg := 143; so_pre := Some p; so_digest := DInt z |}).
Proof.
  intros Hc Eti Es Hspk Hh. unfold sig_hash. rewrite Eti, Es, Hspk, (plan_p2wpkh ti' h Hh). cbn [bind].
  rewrite <- (sig_hash_bip143_core hash256 t t' sp idx None None ht m' Hc).
  apply sig_hash_bip143_rsnd.
Qed.

Lemma sig_hash_p2sh_p2wpkh_core t t' sp idx ti' s h h20 ht m m' :
  same_core t t' -> nth_error (t_ins t') idx = Some ti' -> nth_error sp idx = Some s ->
  sp_script s = mk_script (p2sh_script h) -> length h = 20%nat ->
  nth_last 0 (s_cmds (i_script ti')) = Some (Push (0 :: 20 :: h20)) -> length h20 = 20%nat ->
  rsnd (SIG_HASH t' sp idx ht m') =
  ('(p, z) <- rsnd (sig_hash_bip143 hash256 t sp idx (Some (mk_script [Op 0; Push h20])) None ht m) ;;
   Ok {| so_alg := 143; so_pre := Some p; so_digest := DInt z |}).
Proof.
  intros Hc Eti Es Hspk Hh Hraw Hh20.
  assert (Hz : zlen h20 = 20) by (unfold zlen; rewrite Hh20; reflexivity).
  pose proof (script_convert_program h20 ltac:(lia)) as Hconv. rewrite Hz in Hconv.
  assert (Hk : is_p2wpkh (s_cmds (mk_script [Op 0; Push h20])) = true).
  { cbn [s_cmds mk_script is_p2wpkh]. now apply len_eqb. }
  unfold sig_hash. rewrite Eti, Es, Hspk, (plan_p2sh_p2wpkh ti' h _ _ Hh Hraw Hconv Hk). cbn [bind].
  rewrite <- (sig_hash_bip143_core hash256 t t' sp idx _ None ht m' Hc).
  apply sig_hash_bip143_rsnd.
Qed.

Lemma sig_hash_bip341_rsnd t sp idx ext ht m1 m2 :
  rsnd ('(m', (p, d)) <- sig_hash_bip341 sha256 hash_tapsighash hash_tapleaf xonly_ok t sp idx ext ht m1 ;;
        Ok (m', {| so_alg := 341; so_pre := Some p; so_digest := DBytes d |})) =
  ('(p, z) <- rsnd (sig_hash_bip341 sha256 hash_tapsighash hash_tapleaf xonly_ok t sp idx ext ht m2) ;;
   Ok {| so_alg := 341; so_pre := Some p; so_digest := DBytes z |}).
Proof.
  pose proof (sig_hash_bip341_indep sha256 hash_tapsighash hash_tapleaf xonly_ok t sp idx ext ht m1 m2) as H.
  unfold rsnd in *.
  destruct (sig_hash_bip341 sha256 hash_tapsighash hash_tapleaf xonly_ok t sp idx ext ht m1) as [[? [? ?]]|],
           (sig_hash_bip341 sha256 hash_tapsighash hash_tapleaf xonly_ok t sp idx ext ht m2) as [[? [? ?]]|];
    cbn [bind] in *; inversion H; reflexivity.
Qed.

(* taproot key path: the finalised witness is the single signature; the signer saw a witness
   without annex (e.g. the empty one) *)
Lemma sig_hash_p2tr_keypath_core t t' sp idx ti ti' s x sg ht m m' :
  same_core t t' -> nth_error (t_ins t) idx = Some ti -> nth_error (t_ins t') idx = Some ti' ->
  nth_error sp idx = Some s -> sp_script s = mk_script (p2tr_script x) -> length x = 32%nat ->
  has_annex (i_witness ti) = false -> i_witness ti' = [sg] ->
  rsnd (SIG_HASH t' sp idx ht m') =
  ('(p, z) <- rsnd (sig_hash_bip341 sha256 hash_tapsighash hash_tapleaf xonly_ok t sp idx 0 ht m) ;;
   Ok {| so_alg := 341; so_pre := Some p; so_digest := DBytes z |}).
Proof.
  intros Hc Eti Eti' Es Hspk Hx Hna Hw.
  unfold sig_hash. rewrite Eti', Es, Hspk, (plan_p2tr ti' x Hx), Hw. cbn [bind].
  assert (Hsa : Spec.Bip341.split_annex [sg] = (None, [sg])) by (destruct sg; reflexivity).
  rewrite Hsa. cbn [snd].
  change (2 <=? zlen [sg]) with false. cbv iota.
  rewrite <- (sig_hash_bip341_core sha256 hash_tapsighash hash_tapleaf xonly_ok t t' sp idx 0 ht m' Hc).
  - apply sig_hash_bip341_rsnd.
  - intros a b Ea Eb. rewrite Eti in Ea. rewrite Eti' in Eb. inversion Ea; inversion Eb; subst.
    right. rewrite Hw. repeat split; assumption.
Qed.

(* ---- what the get_sig_* methods return ---- *)
Lemma get_sig_legacy_inv t sp idx secret redeem sg :
  get_sig_legacy hash256 pr t sp idx secret redeem = Ok sg ->
  exists p z der, sig_hash_legacy hash256 t sp idx redeem 1 = Ok (p, z) /\
                  pr_sign pr secret (DInt z) = Ok der /\ sg = der ++ [1].
Proof.
  unfold get_sig_legacy. destruct (sig_hash_legacy hash256 t sp idx redeem 1) as [[p z]|]; [|discriminate].
  cbn [bind]. destruct (pr_sign pr secret (DInt z)) as [der|] eqn:Es; [|discriminate].
  cbn. intros [= <-]. exists p, z, der. auto.
Qed.

Lemma get_sig_segwit_inv t sp idx m secret redeem wscript sg :
  get_sig_segwit hash256 pr t sp idx m secret redeem wscript = Ok sg ->
  exists p z der, rsnd (sig_hash_bip143 hash256 t sp idx redeem wscript 1 m) = Ok (p, z) /\
                  pr_sign pr secret (DInt z) = Ok der /\ sg = der ++ [1].
Proof.
  unfold get_sig_segwit, rsnd.
  destruct (sig_hash_bip143 hash256 t sp idx redeem wscript 1 m) as [[m' [p z]]|]; [|discriminate].
  cbn [bind]. destruct (pr_sign pr secret (DInt z)) as [der|] eqn:Es; [|discriminate].
  cbn. intros [= <-]. exists p, z, der. auto.
Qed.

(* taproot: 64 bytes for SIGHASH_DEFAULT, else the 64 bytes followed by the hash type *)
Lemma get_sig_taproot_inv t sp idx m secret ext ht aux sg :
  get_sig_taproot sha256 hash_tapsighash hash_tapleaf xonly_ok pr t sp idx m secret ext ht aux = Ok sg ->
  exists p msg s64,
    rsnd (sig_hash_bip341 sha256 hash_tapsighash hash_tapleaf xonly_ok t sp idx ext ht m) = Ok (p, msg) /\
    pr_sign_schnorr pr secret (DBytes msg) aux = Ok s64 /\
    sg = (if ht =? 0 then s64 else s64 ++ [ht]) /\ 0 <= ht <= 255.
Proof.
  unfold get_sig_taproot, rsnd.
  destruct (sig_hash_bip341 sha256 hash_tapsighash hash_tapleaf xonly_ok t sp idx ext ht m)
    as [[m' [p msg]]|] eqn:E; [|discriminate].
  cbn [bind]. destruct (pr_sign_schnorr pr secret (DBytes msg) aux) as [s64|] eqn:Es; [|discriminate].
  cbn [bind].
  assert (Hr : 0 <= ht <= 255).
  { unfold sig_hash_bip341 in E.
    destruct (bip341_preimage sha256 hash_tapleaf xonly_ok t sp idx ext ht m) as [[m0 s0]|] eqn:E0;
      [|discriminate].
    unfold bip341_preimage in E0. destruct (nth_error (t_ins t) idx); [|discriminate].
    unfold int_to_byte in E0 at 1.
    destruct ((ht <? 0) || (255 <? ht)) eqn:Eb; [discriminate|].
    apply orb_false_iff in Eb as [B1 B2]. lia. }
  destruct (ht =? 0) eqn:E0.
  - intros [= <-]. exists p, msg, s64. auto.
  - unfold int_to_byte. destruct ((ht <? 0) || (255 <? ht)) eqn:Eb.
    + apply orb_true_iff in Eb as [B|B]; lia.
    + cbn [bind]. intros [= <-]. exists p, msg, s64. auto.
Qed.

(* ---- the verifying op codes, on any later state, recompute the digest that was signed ---- *)

Theorem signed_p2pkh_checked t sp idx s h secret sg :
  nth_error sp idx = Some s -> sp_script s = mk_script (p2pkh_script h) ->
  get_sig_legacy hash256 pr t sp idx secret None = Ok sg ->
  exists p z der,
    sig_hash_legacy hash256 t sp idx None 1 = Ok (p, z) /\ pr_sign pr secret (DInt z) = Ok der /\
    sg = der ++ [1] /\
    forall t' ti' m' sec r, same_core t t' -> nth_error (t_ins t') idx = Some ti' ->
      op_checksig (SIGOPS t' sp idx m') (sec :: sg :: r) =
      (b <- pr_ecdsa pr sec der (DInt z) ;; Ok (enc_bool b :: r)).
Proof.
  intros Es Hspk Hg. destruct (get_sig_legacy_inv _ _ _ _ _ _ Hg) as (p & z & der & Hz & Hs & ->).
  exists p, z, der. repeat split; try assumption.
  intros t' ti' m' sec r Hc Eti'.
  rewrite op_checksig_own_digest. unfold ecdsa_sig_hash_type.
  destruct (der ++ [1]) eqn:E; [exfalso; exact (app_one_not_nil _ _ E)|]. rewrite <- E.
  rewrite removelast_app_one, last_app_one. unfold fresh_digest.
  rewrite (tx_digest_of_sig_hash _ _ _ _ _ t' sp idx 1 memo_empty memo_empty _
             (sig_hash_p2pkh_core t t' sp idx ti' s h 1 memo_empty Hc Eti' Es Hspk)).
  rewrite Hz. reflexivity.
Qed.

Theorem signed_p2wpkh_checked t sp idx m s h secret sg :
  nth_error sp idx = Some s -> sp_script s = mk_script (p2wpkh_script h) -> length h = 20%nat ->
  get_sig_segwit hash256 pr t sp idx m secret None None = Ok sg ->
  exists p z der,
    rsnd (sig_hash_bip143 hash256 t sp idx None None 1 m) = Ok (p, z) /\
    pr_sign pr secret (DInt z) = Ok der /\ sg = der ++ [1] /\
    forall t' ti' m' sec r, same_core t t' -> nth_error (t_ins t') idx = Some ti' ->
      op_checksig (SIGOPS t' sp idx m') (sec :: sg :: r) =
      (b <- pr_ecdsa pr sec der (DInt z) ;; Ok (enc_bool b :: r)).
Proof.
  intros Es Hspk Hh Hg. destruct (get_sig_segwit_inv _ _ _ _ _ _ _ _ Hg) as (p & z & der & Hz & Hs & ->).
  exists p, z, der. repeat split; try assumption.
  intros t' ti' m' sec r Hc Eti'.
  rewrite op_checksig_own_digest. unfold ecdsa_sig_hash_type.
  destruct (der ++ [1]) eqn:E; [exfalso; exact (app_one_not_nil _ _ E)|]. rewrite <- E.
  rewrite removelast_app_one, last_app_one. unfold fresh_digest.
  rewrite (tx_digest_of_sig_hash _ _ _ _ _ t' sp idx 1 memo_empty memo_empty _
             (sig_hash_p2wpkh_core t t' sp idx ti' s h 1 m memo_empty Hc Eti' Es Hspk Hh)).
  rewrite Hz. reflexivity.
Qed.

Theorem signed_p2sh_p2wpkh_checked t sp idx m s h h20 secret sg :
  nth_error sp idx = Some s -> sp_script s = mk_script (p2sh_script h) -> length h = 20%nat ->
  length h20 = 20%nat ->
  get_sig_segwit hash256 pr t sp idx m secret (Some (mk_script [Op 0; Push h20])) None = Ok sg ->
  exists p z der,
    rsnd (sig_hash_bip143 hash256 t sp idx (Some (mk_script [Op 0; Push h20])) None 1 m) = Ok (p, z) /\
    pr_sign pr secret (DInt z) = Ok der /\ sg = der ++ [1] /\
    forall t' ti' m' sec r, same_core t t' -> nth_error (t_ins t') idx = Some ti' ->
      nth_last 0 (s_cmds (i_script ti')) = Some (Push (0 :: 20 :: h20)) ->
      op_checksig (SIGOPS t' sp idx m') (sec :: sg :: r) =
      (b <- pr_ecdsa pr sec der (DInt z) ;; Ok (enc_bool b :: r)).
Proof.
  intros Es Hspk Hh Hh20 Hg.
  destruct (get_sig_segwit_inv _ _ _ _ _ _ _ _ Hg) as (p & z & der & Hz & Hs & ->).
  exists p, z, der. repeat split; try assumption.
  intros t' ti' m' sec r Hc Eti' Hraw.
  rewrite op_checksig_own_digest. unfold ecdsa_sig_hash_type.
  destruct (der ++ [1]) eqn:E; [exfalso; exact (app_one_not_nil _ _ E)|]. rewrite <- E.
  rewrite removelast_app_one, last_app_one. unfold fresh_digest.
  rewrite (tx_digest_of_sig_hash _ _ _ _ _ t' sp idx 1 memo_empty memo_empty _
             (sig_hash_p2sh_p2wpkh_core t t' sp idx ti' s h h20 1 m memo_empty Hc Eti' Es Hspk Hh Hraw Hh20)).
  rewrite Hz. reflexivity.
Qed.

(* taproot key path, every hash type the signer accepts: the signature is well-formed in the
   sense of BIP341 exactly when the primitive returned 64 bytes, and OP_CHECKSIG (the key-path
   rule calls op_checksig_schnorr) recomputes the message that was signed *)
Theorem signed_p2tr_keypath_checked t sp idx m ti s x secret ht aux sg :
  nth_error (t_ins t) idx = Some ti -> nth_error sp idx = Some s ->
  sp_script s = mk_script (p2tr_script x) -> length x = 32%nat -> has_annex (i_witness ti) = false ->
  standard_hash_type ht = true ->
  get_sig_taproot sha256 hash_tapsighash hash_tapleaf xonly_ok pr t sp idx m secret 0 ht aux = Ok sg ->
  exists p msg s64,
    rsnd (sig_hash_bip341 sha256 hash_tapsighash hash_tapleaf xonly_ok t sp idx 0 ht m) = Ok (p, msg) /\
    pr_sign_schnorr pr secret (DBytes msg) aux = Ok s64 /\
    sg = (if ht =? 0 then s64 else s64 ++ [ht]) /\
    (length s64 = 64%nat -> taproot_sig_hash_type sg = Some (s64, ht) /\
     forall t' ti' m' pk r, same_core t t' -> nth_error (t_ins t') idx = Some ti' ->
       i_witness ti' = [sg] -> xonly_ok pk = true ->
       op_checksig_schnorr (SIGOPS t' sp idx m') (pk :: sg :: r) =
       (b <- pr_schnorr pr pk s64 (DBytes msg) ;; Ok (enc_bool b :: r))).
Proof.
  intros Eti Es Hspk Hx Hna Hstd Hg.
  destruct (get_sig_taproot_inv _ _ _ _ _ _ _ _ _ Hg) as (p & msg & s64 & Hz & Hs & Hsg & Hr).
  exists p, msg, s64. repeat split; try assumption.
  - (* the BIP341 reading of the signature *)
    unfold taproot_sig_hash_type. rewrite Hsg. destruct (ht =? 0) eqn:E0.
    + apply Z.eqb_eq in E0. subst ht. rewrite H. reflexivity.
    + rewrite app_length, H. cbn [length Nat.add Nat.eqb].
      rewrite last_app_one, (std_explicit ht Hstd E0), removelast_app_one. reflexivity.
  - intros t' ti' m' pk r Hc Eti' Hw Hpk.
    assert (Hty : taproot_sig_hash_type sg = Some (s64, ht)).
    { unfold taproot_sig_hash_type. rewrite Hsg. destruct (ht =? 0) eqn:E0.
      + apply Z.eqb_eq in E0. subst ht. rewrite H. reflexivity.
      + rewrite app_length, H. cbn [length Nat.add Nat.eqb].
        rewrite last_app_one, (std_explicit ht Hstd E0), removelast_app_one. reflexivity. }
    rewrite (op_checksig_schnorr_own_digest _ _ _ _ _ _ _ _ _ _ _ _ s64 ht r Hpk Hty).
    unfold fresh_digest.
    rewrite (tx_digest_of_sig_hash _ _ _ _ _ t' sp idx ht memo_empty memo_empty _
               (sig_hash_p2tr_keypath_core t t' sp idx ti ti' s x sg ht m memo_empty Hc Eti Eti' Es Hspk Hx
                  Hna Hw)).
    rewrite Hz. reflexivity.
Qed.

End Agree.

(* ------------------------------------------------------------------ (3), (4) through verify_input *)

Lemma enc_bool_inj b1 b2 : enc_bool b1 = enc_bool b2 -> b1 = b2.
Proof. destruct b1, b2; cbn; intros H; try reflexivity; discriminate. Qed.

(* reading the verdict back from the op code *)
Lemma checksig_of_op so sec sg r (R : result bool) :
  sg <> [] -> op_checksig so (sec :: sg :: r) = (b <- R ;; Ok (enc_bool b :: r)) ->
  so_checksig so sec sg = R.
Proof.
  intros Hs. unfold op_checksig. destruct sg as [|x sg]; [congruence|].
  destruct (so_checksig so sec (x :: sg)) as [b1|], R as [b2|]; cbn [bind]; intros H;
    try discriminate; try reflexivity.
  inversion H as [Hb]. now rewrite (enc_bool_inj _ _ Hb).
Qed.

Lemma upd_nth_const {A} (f : A -> A) k : forall (l : list A) x,
  nth_error l k = Some x -> upd_nth k (fun _ => f x) l = upd_nth k f l.
Proof.
  induction k as [|k IH]; intros [|y r] x; cbn [upd_nth nth_error]; try discriminate.
  - now intros [= ->].
  - intros H. now rewrite (IH r x H).
Qed.

Lemma tx_upd_in_const t idx f ti :
  nth_error (t_ins t) idx = Some ti -> tx_upd_in t idx (fun _ => f ti) = tx_upd_in t idx f.
Proof. intros H. unfold tx_upd_in. now rewrite (upd_nth_const f idx _ _ H). Qed.

Section Through.
Variables hash256 sha256 hash_tapsighash hash_tapleaf : bytes -> bytes.
Variable xonly_ok : bytes -> bool.
Variable pr : sigprims.
Variable C : curve.
Variables ripemd160 sha1 hash160 : bytes -> bytes.

Notation SIGOPS := (tx_sigops hash256 sha256 hash_tapsighash hash_tapleaf xonly_ok pr).
Notation FRESH := (fresh_digest hash256 sha256 hash_tapsighash hash_tapleaf xonly_ok).
Notation VERIFY := (tx_verify_input hash256 sha256 hash_tapsighash hash_tapleaf xonly_ok pr C
                      ripemd160 sha1 hash160).

(* ---------------- (3) Tx.sign_* return True ---------------- *)

(* P2PKH.  Hypothesis on the primitive: the key verifies what it signs (C01). *)
Theorem sign_p2pkh_accepts t sp idx m ti s secret compressed sec sg :
  nth_error (t_ins t) idx = Some ti -> nth_error sp idx = Some s ->
  pr_sec pr secret compressed = Ok sec ->
  sp_script s = mk_script (p2pkh_script (hash160 sec)) ->
  get_sig_legacy hash256 pr t sp idx secret None = Ok sg ->
  (forall p z der, sig_hash_legacy hash256 t sp idx None 1 = Ok (p, z) ->
                   pr_sign pr secret (DInt z) = Ok der -> pr_ecdsa pr sec der (DInt z) = Ok true) ->
  sign_p2pkh hash256 sha256 hash_tapsighash hash_tapleaf xonly_ok pr C ripemd160 sha1 hash160
    t sp idx m secret compressed =
  Ok (tx_upd_in t idx (finalize_p2pkh sg sec), OTrue).
Proof.
  intros Eti Es Hsec Hspk Hg Hprim.
  destruct (signed_p2pkh_checked hash256 sha256 hash_tapsighash hash_tapleaf xonly_ok pr
              t sp idx s _ secret sg Es Hspk Hg) as (p & z & der & Hz & Hs & Hsg & Hop).
  unfold sign_p2pkh, in_range. rewrite Hg, Hsec, Eti. cbn [bind].
  set (t' := tx_upd_in t idx (finalize_p2pkh sg sec)).
  assert (Hc : same_core t t') by (apply same_core_upd; intros i; repeat split).
  pose proof (tx_upd_in_nth t idx (finalize_p2pkh sg sec) ti Eti) as Eti'. fold t' in Eti'.
  unfold tx_verify_input. rewrite Eti', Es. cbn [bind]. rewrite Hspk.
  cbn [finalize_p2pkh in_with_script i_script i_witness i_sequence s_cmds mk_script].
  assert (Hne : sg <> []) by (rewrite Hsg; apply app_one_not_nil).
  rewrite (p2pkh_complete C ripemd160 sha1 sha256 hash160 hash256 (SIGOPS t' sp idx m) _ _ sec sg Hne);
    [reflexivity|].
  rewrite (checksig_of_op _ sec sg [] _ Hne (Hop t' _ m sec [] Hc Eti')).
  exact (Hprim p z der Hz Hs).
Qed.

Theorem sign_p2wpkh_accepts t sp idx m ti s secret compressed sec sg :
  nth_error (t_ins t) idx = Some ti -> nth_error sp idx = Some s ->
  pr_sec pr secret compressed = Ok sec ->
  sp_script s = mk_script (p2wpkh_script (hash160 sec)) -> length (hash160 sec) = 20%nat ->
  get_sig_segwit hash256 pr t sp idx m secret None None = Ok sg ->
  (forall p z der, rsnd (sig_hash_bip143 hash256 t sp idx None None 1 m) = Ok (p, z) ->
                   pr_sign pr secret (DInt z) = Ok der -> pr_ecdsa pr sec der (DInt z) = Ok true) ->
  sign_p2wpkh hash256 sha256 hash_tapsighash hash_tapleaf xonly_ok pr C ripemd160 sha1 hash160
    t sp idx m secret compressed =
  Ok (tx_upd_in t idx (fun i => in_with_wit [sg; sec] (in_with_script empty_script i)), OTrue).
Proof.
  intros Eti Es Hsec Hspk Hh Hg Hprim.
  destruct (signed_p2wpkh_checked hash256 sha256 hash_tapsighash hash_tapleaf xonly_ok pr
              t sp idx m s _ secret sg Es Hspk Hh Hg) as (p & z & der & Hz & Hs & Hsg & Hop).
  unfold sign_p2wpkh. rewrite Hg, Hsec, Eti. cbn [bind finalize_p2wpkh].
  set (f := fun i => in_with_wit [sg; sec] (in_with_script empty_script i)).
  change (in_with_wit [sg; sec] (in_with_script empty_script ti)) with (f ti).
  rewrite (tx_upd_in_const t idx f ti Eti).
  set (t' := tx_upd_in t idx f).
  assert (Hc : same_core t t') by (apply same_core_upd; intros i; repeat split).
  pose proof (tx_upd_in_nth t idx f ti Eti) as Eti'. fold t' in Eti'.
  unfold tx_verify_input. rewrite Eti', Es. cbn [bind]. rewrite Hspk. unfold f.
  cbn [in_with_wit in_with_script i_script i_witness i_sequence s_cmds mk_script empty_script].
  assert (Hne : sg <> []) by (rewrite Hsg; apply app_one_not_nil).
  rewrite (p2wpkh_complete C ripemd160 sha1 sha256 hash160 hash256 (SIGOPS t' sp idx m) _ sec sg Hh Hne);
    [reflexivity|].
  rewrite (checksig_of_op _ sec sg [] _ Hne (Hop t' _ m sec [] Hc Eti')).
  exact (Hprim p z der Hz Hs).
Qed.

(* P2SH-P2WPKH with a compressed key: the redeem script is OP_0 <hash160 of the compressed key>,
   pushed by the scriptSig; the witness carries the same key *)
Theorem sign_p2sh_p2wpkh_accepts t sp idx m ti s secret sec sg :
  nth_error (t_ins t) idx = Some ti -> nth_error sp idx = Some s ->
  pr_sec pr secret true = Ok sec ->
  let redeem := 0 :: 20 :: hash160 sec in
  sp_script s = mk_script (p2sh_script (hash160 redeem)) ->
  length (hash160 sec) = 20%nat -> length (hash160 redeem) = 20%nat ->
  get_sig_segwit hash256 pr t sp idx m secret (Some (mk_script [Op 0; Push (hash160 sec)])) None = Ok sg ->
  (forall p z der,
     rsnd (sig_hash_bip143 hash256 t sp idx (Some (mk_script [Op 0; Push (hash160 sec)])) None 1 m) = Ok (p, z) ->
     pr_sign pr secret (DInt z) = Ok der -> pr_ecdsa pr sec der (DInt z) = Ok true) ->
  sign_p2sh_p2wpkh hash256 sha256 hash_tapsighash hash_tapleaf xonly_ok pr C ripemd160 sha1 hash160
    t sp idx m secret true =
  Ok (tx_upd_in t idx (fun i => in_with_wit [sg; sec] (in_with_script (mk_script [Push redeem]) i)), OTrue).
Proof.
  intros Eti Es Hsec redeem Hspk Hh Hhr Hg Hprim.
  destruct (signed_p2sh_p2wpkh_checked hash256 sha256 hash_tapsighash hash_tapleaf xonly_ok pr
              t sp idx m s _ (hash160 sec) secret sg Es Hspk Hhr Hh Hg)
    as (p & z & der & Hz & Hs & Hsg & Hop).
  unfold sign_p2sh_p2wpkh, key_redeem_script. rewrite Hsec. cbn [bind]. unfold p2wpkh_script.
  rewrite Hg, Eti. cbn [bind finalize_p2wpkh].
  assert (Hraw : raw_serialize (mk_script [Op 0; Push (hash160 sec)]) = Ok redeem).
  { unfold raw_serialize. cbn [s_raw s_cmds mk_script ser_cmds ser_cmd].
    assert (Hz20 : zlen (hash160 sec) = 20) by (unfold zlen; rewrite Hh; reflexivity).
    rewrite Hz20. cbn [Z.ltb Z.leb Z.compare Pos.compare Pos.compare_cont orb bind app].
    now rewrite app_nil_r. }
  unfold finalize_p2wpkh. rewrite Hraw. cbn [bind].
  set (f := fun i => in_with_wit [sg; sec] (in_with_script (mk_script [Push redeem]) i)).
  change (in_with_wit [sg; sec] (in_with_script (mk_script [Push redeem]) ti)) with (f ti).
  rewrite (tx_upd_in_const t idx f ti Eti).
  set (t' := tx_upd_in t idx f).
  assert (Hc : same_core t t') by (apply same_core_upd; intros i; repeat split).
  pose proof (tx_upd_in_nth t idx f ti Eti) as Eti'. fold t' in Eti'.
  unfold tx_verify_input. rewrite Eti', Es. cbn [bind]. rewrite Hspk. unfold f.
  cbn [in_with_wit in_with_script i_script i_witness i_sequence s_cmds mk_script].
  assert (Hne : sg <> []) by (rewrite Hsg; apply app_one_not_nil).
  rewrite (p2sh_p2wpkh_complete C ripemd160 sha1 sha256 hash160 hash256 (SIGOPS t' sp idx m) _ sec sg
             Hh Hhr Hne); [reflexivity|].
  assert (Hlast : nth_last 0 (s_cmds (i_script (f ti))) = Some (Push (0 :: 20 :: hash160 sec))) by reflexivity.
  rewrite (checksig_of_op _ sec sg [] _ Hne (Hop t' _ m sec [] Hc Eti' Hlast)).
  exact (Hprim p z der Hz Hs).
Qed.

(* taproot key path, any hash type the signer accepts.  Hypothesis on the primitive: it returns
   64 bytes that the (x-only) key x of the spent output verifies (C02). *)
Theorem sign_p2tr_keypath_accepts t sp idx m ti s x secret ht aux sg :
  nth_error (t_ins t) idx = Some ti -> nth_error sp idx = Some s ->
  sp_script s = mk_script (p2tr_script x) -> length x = 32%nat -> xonly_ok x = true ->
  has_annex (i_witness ti) = false -> s_cmds (i_script ti) = [] -> standard_hash_type ht = true ->
  get_sig_taproot sha256 hash_tapsighash hash_tapleaf xonly_ok pr t sp idx m secret 0 ht aux = Ok sg ->
  (forall p msg s64,
     rsnd (sig_hash_bip341 sha256 hash_tapsighash hash_tapleaf xonly_ok t sp idx 0 ht m) = Ok (p, msg) ->
     pr_sign_schnorr pr secret (DBytes msg) aux = Ok s64 ->
     length s64 = 64%nat /\ pr_schnorr pr x s64 (DBytes msg) = Ok true) ->
  sign_p2tr_keypath hash256 sha256 hash_tapsighash hash_tapleaf xonly_ok pr C ripemd160 sha1 hash160
    t sp idx m secret ht aux =
  Ok (tx_upd_in t idx (finalize_p2tr_keypath sg), OTrue).
Proof.
  intros Eti Es Hspk Hx Hxok Hna Hss Hstd Hg Hprim.
  destruct (signed_p2tr_keypath_checked hash256 sha256 hash_tapsighash hash_tapleaf xonly_ok pr
              t sp idx m ti s x secret ht aux sg Eti Es Hspk Hx Hna Hstd Hg)
    as (p & msg & s64 & Hz & Hs & Hsg & Hop).
  destruct (Hprim p msg s64 Hz Hs) as [Hlen Hver]. destruct (Hop Hlen) as [Hty Hchk]. clear Hop.
  destruct (schnorr_split_bip341 sg s64 ht Hty) as (Hsplit & Hne & Hform).
  unfold sign_p2tr_keypath, in_range. rewrite Hg, Eti. cbn [bind].
  set (t' := tx_upd_in t idx (finalize_p2tr_keypath sg)).
  assert (Hc : same_core t t') by (apply same_core_upd; intros i; repeat split).
  pose proof (tx_upd_in_nth t idx (finalize_p2tr_keypath sg) ti Eti) as Eti'. fold t' in Eti'.
  unfold tx_verify_input. rewrite Eti', Es. cbn [bind]. rewrite Hspk.
  cbn [finalize_p2tr_keypath in_with_wit i_script i_witness i_sequence s_cmds mk_script]. rewrite Hss.
  rewrite (p2tr_keypath_complete C ripemd160 sha1 sha256 hash160 hash256 (SIGOPS t' sp idx m) _ x sg Hx Hne);
    [reflexivity|exact Hxok|exact Hform|].
  rewrite Hsplit. cbn [fst snd so_schnorr tx_sigops].
  rewrite tx_schnorr_fresh. unfold fresh_digest.
  rewrite (tx_digest_of_sig_hash _ _ _ _ _ t' sp idx ht memo_empty memo_empty _
             (sig_hash_p2tr_keypath_core hash256 sha256 hash_tapsighash hash_tapleaf xonly_ok
                t t' sp idx ti _ s x sg ht m memo_empty Hc Eti Eti' Es Hspk Hx Hna eq_refl)).
  rewrite Hz. cbn [bind so_digest]. exact Hver.
Qed.

(* ---------------- (4) what an accepted input proves ---------------- *)

(* P2PKH: a key hashing to h and a signature the ECDSA primitive accepts for the digest
   Tx.sig_hash returns (on a fresh object) for the signature's OWN hash type byte *)
Theorem verify_input_p2pkh_sound t sp idx m ti s h :
  nth_error (t_ins t) idx = Some ti -> nth_error sp idx = Some s ->
  sp_script s = mk_script (p2pkh_script h) ->
  VERIFY t sp idx m = Ok OTrue ->
  exists sec sg d, hash160 sec = h /\ FRESH t sp idx (last sg 0) = Ok d /\
                   pr_ecdsa pr sec (removelast sg) d = Ok true.
Proof.
  intros Eti Es Hspk. unfold tx_verify_input. rewrite Eti, Es, Hspk. cbn [s_cmds mk_script].
  intros [= H].
  destruct (p2pkh_sound C ripemd160 sha1 sha256 hash160 hash256 _ _ _ _ h H) as (sec & sg & Hh & Hc).
  cbn [so_checksig tx_sigops] in Hc. rewrite tx_checksig_fresh in Hc.
  destruct (FRESH t sp idx (last sg 0)) as [d|] eqn:Ed; [|discriminate].
  exists sec, sg, d. auto.
Qed.

Theorem verify_input_p2wpkh_sound t sp idx m ti s h :
  nth_error (t_ins t) idx = Some ti -> nth_error sp idx = Some s ->
  sp_script s = mk_script (p2wpkh_script h) -> length h = 20%nat ->
  VERIFY t sp idx m = Ok OTrue ->
  s_cmds (i_script ti) = [] /\
  exists sec sg d, hash160 sec = h /\ FRESH t sp idx (last sg 0) = Ok d /\
                   pr_ecdsa pr sec (removelast sg) d = Ok true.
Proof.
  intros Eti Es Hspk Hh. unfold tx_verify_input. rewrite Eti, Es, Hspk. cbn [s_cmds mk_script].
  intros [= H].
  destruct (p2wpkh_sound C ripemd160 sha1 sha256 hash160 hash256 _ _ _ _ h Hh H)
    as (Hss & _ & sec & sg & Hh' & Hc).
  split; [exact Hss|].
  cbn [so_checksig tx_sigops] in Hc. rewrite tx_checksig_fresh in Hc.
  destruct (FRESH t sp idx (last sg 0)) as [d|] eqn:Ed; [|discriminate].
  exists sec, sg, d. auto.
Qed.

(* P2TR with one witness element besides the annex (key path): the output key verifies the
   signature for the digest of the hash type the library reads from it *)
Theorem verify_input_p2tr_keypath_sound t sp idx m ti s x sg :
  nth_error (t_ins t) idx = Some ti -> nth_error sp idx = Some s ->
  sp_script s = mk_script (p2tr_script x) -> length x = 32%nat ->
  annex_stripped (i_witness ti) = [sg] ->
  VERIFY t sp idx m = Ok OTrue ->
  sg <> [] /\ xonly_ok x = true /\ schnorr_form_ok sg = true /\
  exists d, FRESH t sp idx (snd (schnorr_split sg)) = Ok d /\
            pr_schnorr pr x (fst (schnorr_split sg)) d = Ok true.
Proof.
  intros Eti Es Hspk Hx Hitems. unfold tx_verify_input. rewrite Eti, Es, Hspk. cbn [s_cmds mk_script].
  intros [= H].
  destruct (p2tr_sound C ripemd160 sha1 sha256 hash160 hash256 _ _ _ _ x Hx H) as (_ & _ & Hd).
  cbv zeta in Hd. rewrite Hitems in Hd.
  destruct Hd as [(sg' & Hsg & Hne & Hxok & Hv & Hform)|(Hlen & _)]; [|cbn in Hlen; lia].
  inversion Hsg; subst sg'. split; [exact Hne|]. split; [exact Hxok|]. split; [exact Hform|].
  cbn [so_schnorr tx_sigops] in Hv. rewrite tx_schnorr_fresh in Hv.
  destruct (FRESH t sp idx (snd (schnorr_split sg))) as [d|] eqn:Ed; [|discriminate].
  exists d. auto.
Qed.

End Through.

(* ---------------- (4') an accepted m-of-n P2WSH / P2SH multisig input ---------------- *)
From V Require Import Proofs.MultisigP.

Lemma embeds_ext (v1 v2 : bytes -> bytes -> bool) :
  (forall k s, v1 k s = v2 k s) -> forall sigs keys, embeds v1 sigs keys -> embeds v2 sigs keys.
Proof.
  intros H sigs keys E. induction E as [keys|s ss k ks Hv _ IH|ss k ks _ IH].
  - constructor.
  - apply emb_take; [now rewrite <- H|exact IH].
  - apply emb_skip. exact IH.
Qed.

Section Quorum.
Variables hash256 sha256 hash_tapsighash hash_tapleaf : bytes -> bytes.
Variable xonly_ok : bytes -> bool.
Variable pr : sigprims.
Variable C : curve.
Variables ripemd160 sha1 hash160 : bytes -> bytes.

Notation FRESH := (fresh_digest hash256 sha256 hash_tapsighash hash_tapleaf xonly_ok).
Notation VERIFY := (tx_verify_input hash256 sha256 hash_tapsighash hash_tapleaf xonly_ok pr C
                      ripemd160 sha1 hash160).

(* "key k verifies signature sg" with the digest of sg's own hash type byte *)
Definition own_digest_ver (t : tx) (sp : list spent) (idx : nat) (k sg : bytes) : bool :=
  is_ok_true (d <- FRESH t sp idx (last sg 0) ;; pr_ecdsa pr k (removelast sg) d).

(* m signatures, each verifying under a different key of the witness script, in key order, each
   against the digest of ITS hash type *)
Theorem verify_input_p2wsh_multisig_sound t sp idx m ti s x mq keys :
  nth_error (t_ins t) idx = Some ti -> nth_error sp idx = Some s ->
  sp_script s = mk_script (p2wsh_script x) -> length x = 32%nat ->
  1 <= mq <= 16 -> 1 <= zlen keys <= 16 ->
  parse_cmds (last (i_witness ti) []) = Ok (multisig_script mq keys) ->
  VERIFY t sp idx m = Ok OTrue ->
  sha256 (last (i_witness ti) []) = x /\
  exists sigs, zlen sigs = mq /\ embeds (own_digest_ver t sp idx) sigs (rev keys).
Proof.
  intros Eti Es Hspk Hx Hm Hn Hp. unfold tx_verify_input. rewrite Eti, Es, Hspk. cbn [s_cmds mk_script].
  intros [= H].
  destruct (p2wsh_multisig_sound C ripemd160 sha1 sha256 hash160 hash256
              (tx_sigops hash256 sha256 hash_tapsighash hash_tapleaf xonly_ok pr t sp idx m) _ _
              (pr_sec_ok pr)
              (fun k sg => is_ok_true (tx_checksig hash256 sha256 hash_tapsighash hash_tapleaf xonly_ok pr
                                         t sp idx m k sg))
              (fun secs sigs => eq_refl) _ x mq keys Hx Hm Hn H) as [Hsha Hq].
  split; [exact Hsha|]. destruct (Hq Hp) as (sigs & Hz & He). exists sigs. split; [exact Hz|].
  apply (embeds_ext _ _ (fun k sg => f_equal is_ok_true
           (tx_checksig_fresh hash256 sha256 hash_tapsighash hash_tapleaf xonly_ok pr t sp idx m k sg))).
  exact He.
Qed.

(* the same for an m-of-n redeem script behind P2SH (the redeem script is the one the scriptSig
   pushes last and that hashes to the output) *)
Theorem verify_input_p2sh_multisig_sound t sp idx m ti s h mq keys :
  nth_error (t_ins t) idx = Some ti -> nth_error sp idx = Some s ->
  sp_script s = mk_script (p2sh_script h) -> length h = 20%nat ->
  1 <= mq <= 16 -> 1 <= zlen keys <= 16 ->
  VERIFY t sp idx m = Ok OTrue ->
  exists b, hash160 b = h /\
    (parse_cmds b = Ok (multisig_script mq keys) ->
     exists sigs, zlen sigs = mq /\ embeds (own_digest_ver t sp idx) sigs (rev keys)).
Proof.
  intros Eti Es Hspk Hh Hm Hn. unfold tx_verify_input. rewrite Eti, Es, Hspk. cbn [s_cmds mk_script].
  intros [= H].
  destruct (p2sh_multisig_sound C ripemd160 sha1 sha256 hash160 hash256
              (tx_sigops hash256 sha256 hash_tapsighash hash_tapleaf xonly_ok pr t sp idx m) _ _
              (pr_sec_ok pr)
              (fun k sg => is_ok_true (tx_checksig hash256 sha256 hash_tapsighash hash_tapleaf xonly_ok pr
                                         t sp idx m k sg))
              (fun secs sigs => eq_refl) _ h mq keys Hh Hm Hn H) as (b & Hb & Hq).
  exists b. split; [exact Hb|]. intros Hp. destruct (Hq Hp) as (sigs & Hz & He). exists sigs.
  split; [exact Hz|].
  apply (embeds_ext _ _ (fun k sg => f_equal is_ok_true
           (tx_checksig_fresh hash256 sha256 hash_tapsighash hash_tapleaf xonly_ok pr t sp idx m k sg))).
  exact He.
Qed.

(* Tx.sign_input: which signer runs for which spent output *)
Theorem sign_input_dispatch t sp idx m ti s secret compressed redeem ht :
  nth_error (t_ins t) idx = Some ti -> nth_error sp idx = Some s ->
  let c := s_cmds (sp_script s) in
  let SI := sign_input hash256 sha256 hash_tapsighash hash_tapleaf xonly_ok pr C ripemd160 sha1 hash160
              t sp idx m secret compressed redeem ht in
  (is_p2pkh c = true ->
   SI = sign_p2pkh hash256 sha256 hash_tapsighash hash_tapleaf xonly_ok pr C ripemd160 sha1 hash160
          t sp idx m secret compressed) /\
  (is_p2wpkh c = true ->
   SI = sign_p2wpkh hash256 sha256 hash_tapsighash hash_tapleaf xonly_ok pr C ripemd160 sha1 hash160
          t sp idx m secret compressed) /\
  (is_p2sh c = true -> opt_is is_p2wpkh redeem = true ->
   SI = sign_p2sh_p2wpkh hash256 sha256 hash_tapsighash hash_tapleaf xonly_ok pr C ripemd160 sha1 hash160
          t sp idx m secret compressed) /\
  (is_p2tr c = true -> opt_is is_p2wpkh redeem = false ->
   SI = sign_p2tr_keypath hash256 sha256 hash_tapsighash hash_tapleaf xonly_ok pr C ripemd160 sha1 hash160
          t sp idx m secret ht (repeatz 0 32)) /\
  (is_p2pkh c = false -> is_p2wpkh c = false -> opt_is is_p2wpkh redeem = false -> is_p2tr c = false ->
   SI = Err).
Proof.
  intros Eti Es c SI. unfold SI, sign_input. rewrite Eti, Es. fold c.
  repeat split.
  - intros ->. reflexivity.
  - intros H. destruct (is_p2pkh c) eqn:E1; [|now rewrite H].
    exfalso. revert E1 H. unfold is_p2pkh, is_p2wpkh.
    destruct c as [|[o1|b1] [|c2 [|c3 [|c4 [|c5 [|c6 r]]]]]]; try discriminate.
    all: destruct o1 as [|q|q]; try discriminate; repeat (destruct q; try discriminate).
  - intros Hsh Hr. destruct (is_p2pkh c) eqn:E1; [exfalso|].
    + revert E1 Hsh. unfold is_p2pkh, is_p2sh.
      destruct c as [|[o1|b1] [|c2 [|c3 [|c4 [|c5 [|c6 r]]]]]]; try discriminate.
      all: destruct o1 as [|q|q]; try discriminate; repeat (destruct q; try discriminate).
    + destruct (is_p2wpkh c) eqn:E2; [exfalso|now rewrite Hr].
      revert E2 Hsh. unfold is_p2wpkh, is_p2sh.
      destruct c as [|[o1|b1] [|c2 [|c3 [|c4 r]]]]; try discriminate.
      all: destruct o1 as [|q|q]; try discriminate.
  - intros Htr Hr. destruct (is_p2pkh c) eqn:E1; [exfalso|].
    + revert E1 Htr. unfold is_p2pkh, is_p2tr.
      destruct c as [|[o1|b1] [|c2 [|c3 [|c4 [|c5 [|c6 r]]]]]]; try discriminate.
      all: destruct o1 as [|q|q]; try discriminate; repeat (destruct q; try discriminate).
    + destruct (is_p2wpkh c) eqn:E2; [exfalso|now rewrite Hr, Htr].
      revert E2 Htr. unfold is_p2wpkh, is_p2tr.
      destruct c as [|[o1|b1] [|c2 [|c3 r]]]; try discriminate.
      all: destruct o1 as [|q|q]; try discriminate; repeat (destruct q; try discriminate).
  - intros -> -> -> ->. reflexivity.
Qed.

End Quorum.
