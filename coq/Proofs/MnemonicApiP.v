(* Proofs/MnemonicApiP.v — facts about the glue of Model/MnemonicApi.v:
   UTF-8 encoding is the identity on the normalised mnemonic (so the seed model of
   Model/Pbkdf2.v, which passes the code points on as bytes, is the code's behaviour),
   WordList[int] / `in`, and what bytes_to_mnemonic does when num_bits is not 8*len(b). *)
From V Require Import Base.Prelude Base.Ints Proofs.BitsP Model.Mnemonic Model.Pbkdf2 Model.MnemonicApi
  Proofs.MnemonicP Proofs.WordlistP Generated.Wordlists.

Definition ascii (s : text) : Prop := Forall (fun c => 0 <= c < 128) s.

Lemma utf8_ascii s : ascii s -> utf8_encode s = Ok s.
Proof.
  induction 1 as [|c s Hc _ IH]; [reflexivity|].
  cbn [utf8_encode]. unfold utf8_char.
  destruct (c <? 0) eqn:E1; [lia|]. destruct (c <? 128) eqn:E2; [|lia].
  cbn [bind]. rewrite IH. reflexivity.
Qed.

(* outside ASCII the encoding is not the identity (so the hypothesis above is needed):
   the encoded string is longer *)
Lemma utf8_char_len c b : utf8_char c = Ok b ->
  (1 <= length b)%nat /\ (128 <= c -> (2 <= length b)%nat).
Proof.
  unfold utf8_char.
  destruct (c <? 0); [discriminate|].
  destruct (c <? 128) eqn:E2; [intros H; apply Ok_inj in H; subst; cbn; split; lia|].
  destruct (c <? 2048); [intros H; apply Ok_inj in H; subst; cbn; split; lia|].
  destruct (c <? 65536).
  { destruct ((55296 <=? c) && (c <=? 57343)); [discriminate|].
    intros H; apply Ok_inj in H; subst; cbn; split; lia. }
  destruct (c <? 1114112); [|discriminate].
  intros H; apply Ok_inj in H; subst; cbn; split; lia.
Qed.

Lemma utf8_encode_len s : forall t, utf8_encode s = Ok t -> (length s <= length t)%nat.
Proof.
  induction s as [|c s IH]; intros t H; cbn [utf8_encode] in H.
  - apply Ok_inj in H. subst. cbn. lia.
  - destruct (utf8_char c) as [b|] eqn:Ec; cbn [bind] in H; [|discriminate].
    destruct (utf8_encode s) as [t'|]; cbn [bind] in H; [|discriminate].
    apply Ok_inj in H. subst t. rewrite app_length. cbn [length].
    pose proof (proj1 (utf8_char_len c b Ec)). pose proof (IH t' eq_refl). lia.
Qed.

Lemma utf8_non_ascii c s : 128 <= c -> utf8_encode (c :: s) <> Ok (c :: s).
Proof.
  intros Hc H. cbn [utf8_encode] in H.
  destruct (utf8_char c) as [b|] eqn:Ec; cbn [bind] in H; [|discriminate].
  destruct (utf8_encode s) as [t'|] eqn:Es; cbn [bind] in H; [|discriminate].
  apply Ok_inj in H. apply (f_equal (@length Z)) in H. rewrite app_length in H. cbn [length] in H.
  pose proof (proj2 (utf8_char_len c b Ec) Hc). pose proof (utf8_encode_len s t' Es). lia.
Qed.

Lemma join_sp_ascii ws : Forall ascii ws -> ascii (join_sp ws).
Proof.
  induction 1 as [|w r Hw Hr IH]; [constructor|].
  destruct r as [|w2 r']; [exact Hw|].
  change (join_sp (w :: w2 :: r')) with (w ++ 32 :: join_sp (w2 :: r')).
  apply Forall_app. split; [exact Hw|]. constructor; [lia | exact IH].
Qed.

Lemma wl_word_in ws i w : wl_word ws i = Ok w -> In w ws.
Proof.
  unfold wl_word. destruct ((0 <=? i) && (i <? zlen ws)); [|discriminate].
  destruct (nth_error ws (Z.to_nat i)) as [x|] eqn:N; [|discriminate].
  intros H. apply Ok_inj in H. subst x. eapply nth_error_In; exact N.
Qed.

Lemma wl_normalize_in ws key w : wl_normalize ws key = Ok w -> In w ws.
Proof.
  unfold wl_normalize. destruct (wl_index ws (lower_ascii key)); cbn [bind]; [|discriminate].
  apply wl_word_in.
Qed.

Lemma mapM_all_in {A B} (f : A -> result B) (Q : B -> Prop) :
  (forall a b, f a = Ok b -> Q b) -> forall l r, mapM f l = Ok r -> Forall Q r.
Proof.
  intros H. induction l as [|a l IH]; intros r E; cbn [mapM] in E.
  - apply Ok_inj in E. subst. constructor.
  - destruct (f a) as [b|] eqn:Ea; cbn [bind] in E; [|discriminate].
    destruct (mapM f l) as [t|]; cbn [bind] in E; [|discriminate].
    apply Ok_inj in E. subst r. constructor; [eapply H; eauto | now apply IH].
Qed.

Lemma wl_good_ascii ws n w : wl_good ws n -> In w ws -> ascii w.
Proof.
  intros [_ G] Hin. apply In_nth_error in Hin as [i N]. now destruct (G i w N) as (_ & _ & A & _).
Qed.

Section Api.
  Variable sha256 : bytes -> bytes.
  Variable hmac_sha512 : bytes -> bytes -> bytes.

  (* on an ASCII str the KDF sees the code points as bytes *)
  Theorem kdf_str_ascii msg salt : ascii msg ->
    hmac_sha512_kdf_str hmac_sha512 msg salt = hmac_sha512_kdf hmac_sha512 msg salt.
  Proof. intros H. unfold hmac_sha512_kdf_str. now rewrite (utf8_ascii msg H). Qed.

  (* the seed with the encoding step is the seed of Model/Pbkdf2.v, for every text *)
  Theorem mnemonic_seed_utf8_eq words n m pw : wl_good words n ->
    mnemonic_seed_utf8 sha256 hmac_sha512 words m pw = mnemonic_seed sha256 hmac_sha512 words m pw.
  Proof.
    intros G. unfold mnemonic_seed_utf8, mnemonic_seed.
    destruct (mnemonic_to_bytes sha256 words m); cbn [bind]; [|reflexivity].
    destruct (mapM (wl_normalize words) (split_ws m)) as [norm|] eqn:E; cbn [bind]; [|reflexivity].
    apply kdf_str_ascii, join_sp_ascii.
    eapply mapM_all_in; [|exact E]. intros key w H. cbv beta.
    eapply wl_good_ascii; [exact G|]. eapply wl_normalize_in; exact H.
  Qed.
End Api.

(* ------------------------------------------------------------------ WordList[int], `in` *)

Theorem wl_getitem_int_spec ws i w :
  wl_getitem_int ws i = Ok w <->
  - zlen ws <= i < zlen ws /\ nth_error ws (Z.to_nat (i mod zlen ws)) = Some w.
Proof.
  unfold wl_getitem_int. cbv zeta. set (n := zlen ws).
  assert (Hn : 0 <= n) by apply zlen_nonneg.
  destruct (i <? - n) eqn:E1; cbn [orb]; [split; [discriminate | lia]|].
  destruct (n <=? i) eqn:E2; [split; [discriminate | lia]|].
  assert (Hm : i mod n = if i <? 0 then i + n else i).
  { destruct (i <? 0) eqn:E3.
    - symmetry. apply (Z.mod_unique_pos i n (-1)); lia.
    - apply Z.mod_small. lia. }
  rewrite Hm. unfold wl_word. fold n.
  replace ((0 <=? (if i <? 0 then i + n else i)) && ((if i <? 0 then i + n else i) <? n)) with true
    by (symmetry; apply andb_true_iff; split; [apply Z.leb_le | apply Z.ltb_lt]; destruct (i <? 0) eqn:E3; lia).
  destruct (nth_error ws (Z.to_nat (if i <? 0 then i + n else i))) as [x|].
  - split; [intros H; apply Ok_inj in H; subst; split; [lia | reflexivity]
           | intros [_ H]; congruence].
  - split; [discriminate | intros [_ H]; discriminate].
Qed.

Theorem wl_contains_spec ws w : wl_contains ws w = true <-> In w ws.
Proof.
  unfold wl_contains. rewrite existsb_exists. split.
  - intros (x & Hin & E). apply beq_eq in E. now subst.
  - intros H. exists w. split; [exact H | apply beq_refl].
Qed.

(* `word in BIP39` is true for the 2048 full words only: a four-letter prefix of a longer
   word is a key of the lookup dict but not a member *)
Theorem bip39_contains w :
  wl_contains bip39_words w = true <->
  exists i, 0 <= i < 2048 /\ nth_error bip39_words (Z.to_nat i) = Some w.
Proof.
  rewrite wl_contains_spec. split.
  - intros H. apply In_nth_error in H as [k N]. exists (Z.of_nat k).
    assert (k < length bip39_words)%nat by (apply nth_error_Some; congruence).
    pose proof (proj1 bip39_good) as L. unfold zlen in L. rewrite Nat2Z.id. split; [lia | exact N].
  - intros (i & _ & N). eapply nth_error_In; exact N.
Qed.

(* ------------------------------------------------------------------ num_bits <> 8 * len(b) *)

Section Mismatch.
  Variable sha256 : bytes -> bytes.
  Hypothesis sha_ok : forall x, exists h t, sha256 x = h :: t /\ 0 <= h < 256.

  Lemma NB_words nb : valid_num_bits nb = true ->
    0 <= (nb + nb / 32) / 11 /\ valid_num_words ((nb + nb / 32) / 11) = true /\
    8 * (((nb + nb / 32) / 11 * 11 - (nb + nb / 32) / 11 / 3) / 8) = nb.
  Proof.
    unfold valid_num_bits. rewrite !orb_true_iff, !Z.eqb_eq.
    intros [[[[->| ->]| ->]| ->]| ->]; repeat split; try reflexivity; apply Z.leb_le; reflexivity.
  Qed.

  (* bytes_to_mnemonic never checks len(b) against num_bits: it returns a sentence for every
     byte string, and when the lengths disagree that sentence does not decode to b *)
  Theorem bytes_to_mnemonic_unchecked_length : forall b nb, valid_num_bits nb = true ->
    exists m, bytes_to_mnemonic sha256 bip39_words b nb = Ok m /\
      (8 * zlen b <> nb -> mnemonic_to_bytes sha256 bip39_words m <> Ok b).
  Proof.
    intros b nb V. destruct (NB_words nb V) as (N0 & NV & NL).
    destruct (sha_ok b) as (h & t & Hs & Hh).
    set (idx := groups11 (Z.to_nat ((nb + nb / 32) / 11))
                  (Z.lor (Z.shiftl (from_be b) (nb / 32)) (Z.shiftr h (8 - nb / 32))) []).
    assert (R : Forall (fun i => 0 <= i < 2048) idx) by apply groups11_range.
    assert (Li : zlen idx = (nb + nb / 32) / 11).
    { unfold idx, zlen. rewrite groups11_length. lia. }
    destruct (mapM_wl_word bip39_words idx) as (l & M & F).
    { rewrite (proj1 bip39_good). exact R. }
    exists (join_sp l). split.
    - unfold bytes_to_mnemonic, bytes_to_indices. rewrite V. cbn [negb]. rewrite Hs.
      cbn [first_byte bind]. fold idx. rewrite M. reflexivity.
    - intros Hne Hd. destruct (words_at bip39_words bip39_good idx l R F) as (A & _ & Cw & _).
      apply mnemonic_accept_iff in Hd. destruct Hd as (idx' & E1 & E2).
      rewrite (split_join l Cw), A in E1. apply Ok_inj in E1. subst idx'.
      apply (indices_accept_iff sha256 idx b R) in E2. destruct E2 as (_ & Eb & _).
      apply Hne. rewrite Eb. unfold zlen at 1. rewrite to_be_length, Li.
      rewrite Z2Nat.id; [exact NL|].
      apply Z.div_pos; [|lia]. pose proof (W_facts _ NV) as (W1 & W2 & W3). lia.
  Qed.
End Mismatch.

Print Assumptions mnemonic_seed_utf8_eq.
Print Assumptions utf8_non_ascii.
Print Assumptions wl_getitem_int_spec.
Print Assumptions bip39_contains.
Print Assumptions bytes_to_mnemonic_unchecked_length.
