(* Proofs/ShamirSecrecyP.v — C15, "fewer than k shares never return a secret" in the
   information-theoretic sense, for ShareSet.split_secret (Model/Shamir.v):

   split_secret hands k-2 random byte strings, the digest share (at x = 254) and the secret
   (at x = 255) to the interpolation.  [split_with sd ds secret k n] is that deterministic
   tail of split_secret (split_secret_with).  THEOREM shamir_secrecy: whatever fewer than k
   of the n shares an observer holds, and whatever other secret' of the same length he
   considers, there are random strings sd' and a digest-share value ds' for which the split
   of secret' produces the very same shares at the observed indices.  The observed shares
   therefore exclude no candidate secret by themselves; the only thing that links k-1 shares
   to the secret is the 4-byte HMAC inside the digest share (is ds' of the form
   HMAC(r, secret')[:4] ++ r ?), which is outside of what can be proved about an unspecified
   hash function. *)
From V Require Import Base.Prelude Base.Ints Model.Mnemonic Model.Shamir
  Proofs.LagrangeDefs Proofs.LagrangeP Proofs.Gf256Sweep Proofs.Gf256P Proofs.ShamirInterpP
  Proofs.MnemonicP Proofs.ShamirP.
From V Require Export Spec.ShamirSplitS.

Local Open Scope Z_scope.

(* split_secret is split_with on the strings it draws *)
Theorem split_secret_with : forall (hmac_sha256 : bytes -> bytes -> bytes),
  (forall k m, length (hmac_sha256 k m) = 32%nat /\ bytes_ok (hmac_sha256 k m)) ->
  forall secret k n rnd shares,
  2 <= k -> bytes_ok rnd ->
  split_secret hmac_sha256 secret k n rnd = Ok shares ->
  exists random sd,
    k <= n <= 16 /\ (length secret = 16 \/ length secret = 32)%nat /\
    pt_ok (length secret) (digest hmac_sha256 random secret ++ random) /\
    sd_ok sd k (length secret) /\
    split_with sd (digest hmac_sha256 random secret ++ random) secret k n = Ok shares.
Proof.
  intros hm hmac_ok secret k n rnd shares Hk Hrnd. unfold split_secret.
  destruct (Z.ltb_spec n 1); [discriminate|]. destruct (Z.gtb_spec n 16); [discriminate|].
  destruct (Z.ltb_spec k 1); [discriminate|]. destruct (Z.gtb_spec k n); [discriminate|].
  destruct ((zlen secret =? 16) || (zlen secret =? 32)) eqn:Enb; cbn [negb]; [|discriminate].
  destruct (Z.eqb_spec k 1); [lia|].
  destruct (take_rnd (zlen secret - 4) rnd) as [[random rnd1]|] eqn:T1; cbn [bind]; [|discriminate].
  destruct (take_shares (Z.to_nat (k - 2)) 0 (zlen secret) rnd1) as [[sd rnd2]|] eqn:T2;
    cbn [bind]; [|discriminate].
  intros Hmain. exists random, sd.
  assert (Hnb : (length secret = 16 \/ length secret = 32)%nat).
  { apply orb_true_iff in Enb as [Enb|Enb]; apply Z.eqb_eq in Enb; unfold zlen in Enb; lia. }
  apply take_rnd_spec in T1 as [_ [Lr ->]]. apply bytes_ok_app in Hrnd as [Hrand Hrnd1].
  destruct (take_shares_spec _ _ _ _ _ _ T2 Hrnd1) as [Msd [Fsd _]].
  split; [lia|]. split; [exact Hnb|]. split; [|split].
  - destruct (digest_ok hm hmac_ok random secret) as [L4 B4]. split.
    + rewrite app_length, L4, Lr. unfold zlen. lia.
    + apply bytes_ok_app. now split.
  - split; [exact Msd|]. eapply Forall_impl; [|exact Fsd]. intros p [L B]. split; [|exact B].
    rewrite L. unfold zlen. lia.
  - unfold split_with. cbv zeta. exact Hmain.
Qed.

Section Secrecy.
  Variable nb : nat.

  Lemma base_of_ok sd ds secret k :
    2 <= k <= 16 -> sd_ok sd k nb -> pt_ok nb ds -> pt_ok nb secret ->
    base_ok (sd ++ [(254, ds); (255, secret)]) nb /\
    Z.of_nat (length (sd ++ [(254, ds); (255, secret)])) = k.
  Proof.
    intros Hk [Msd Fsd] [Lds Bds] [Ls Bs]. rewrite Forall_forall in Fsd.
    assert (Lsd : length sd = Z.to_nat (k - 2)).
    { rewrite <- (map_length fst), Msd. apply zrange_length. }
    split.
    - unfold base_ok. split; [|split; [|split]].
      + intros E. apply app_eq_nil in E as [_ E]. discriminate.
      + apply Forall_app. split.
        * apply Forall_forall. intros p Hp. split; [|exact (proj2 (Fsd p Hp))].
          pose proof (fst_in_range sd _ _ p Msd Hp). lia.
        * repeat constructor; cbn [fst snd]; try lia; assumption.
      + rewrite map_app, Msd. cbn [map fst]. apply NoDup_app_intro.
        * apply zrange_NoDup.
        * constructor; [intros [E|[]]; lia|]. constructor; [intros []|constructor].
        * intros x Hx. apply in_zrange' in Hx. intros [<-|[<-|[]]]; lia.
      + apply Forall_app. split.
        * apply Forall_forall. intros p Hp. exact (proj1 (Fsd p Hp)).
        * constructor; [exact Lds|]. constructor; [exact Ls | constructor].
    - rewrite app_length, Lsd. cbn [length]. lia.
  Qed.

  Lemma mapM_interp_ok base : base <> [] -> Forall (fun p => 0 <= fst p < 256) base ->
    forall idxs, Forall (fun i => 0 <= i < 256) idxs ->
    mapM (fun i => y <- interpolate i base ;; Ok (i, y)) idxs
    = Ok (map (fun i => (i, interp_core i base)) idxs).
  Proof.
    intros Hne Hb. induction 1 as [|i idxs Hi _ IH]; [reflexivity|].
    cbn [mapM map]. rewrite (interpolate_ok i base Hne Hi Hb). cbn [bind]. rewrite IH. reflexivity.
  Qed.

  (* split_with is total on well-formed arguments, and what it returns *)
  Lemma split_with_eq sd ds secret k n :
    2 <= k <= n -> n <= 16 -> sd_ok sd k nb -> pt_ok nb ds -> pt_ok nb secret ->
    split_with sd ds secret k n =
    Ok (sd ++ map (fun i => (i, interp_core i (sd ++ [(254, ds); (255, secret)])))
                  (zrange (k - 2) (Z.to_nat (n - (k - 2))))).
  Proof.
    intros Hk Hn Hsd Hds Hs.
    destruct (base_of_ok sd ds secret k ltac:(lia) Hsd Hds Hs) as [(Hne & Hok & _) _].
    unfold split_with. cbv zeta. rewrite mapM_interp_ok; [reflexivity | exact Hne | |].
    - eapply Forall_impl; [|exact Hok]. intros p Hp. exact (proj1 Hp).
    - apply Forall_forall. intros i Hi. apply in_zrange' in Hi. lia.
  Qed.

  Lemma split_with_shares sd ds secret k n :
    2 <= k <= n -> n <= 16 -> sd_ok sd k nb -> pt_ok nb ds -> pt_ok nb secret ->
    let base := sd ++ [(254, ds); (255, secret)] in
    let shares := sd ++ map (fun i => (i, interp_core i base)) (zrange (k - 2) (Z.to_nat (n - (k - 2)))) in
    map fst shares = zrange 0 (Z.to_nat n) /\ Forall (on_poly base nb) shares.
  Proof.
    intros Hk Hn Hsd Hds Hs base shares.
    destruct (base_of_ok sd ds secret k ltac:(lia) Hsd Hds Hs) as [Hbase _]. fold base in Hbase.
    destruct Hsd as [Msd Fsd]. split.
    - unfold shares. rewrite map_app, Msd, map_map. cbn [fst]. rewrite map_id.
      replace (Z.to_nat n) with (Z.to_nat (k - 2) + Z.to_nat (n - (k - 2)))%nat by lia.
      rewrite zrange_app. do 2 f_equal. lia.
    - unfold shares. apply Forall_app. split.
      + apply Forall_forall. intros p Hp. apply base_node_on_poly; [exact Hbase|].
        unfold base. apply in_or_app. now left.
      + apply Forall_forall. intros p Hp. apply in_map_iff in Hp as [i [<- Hi]].
        apply in_zrange' in Hi. apply interp_on_poly; [exact Hbase | lia |].
        unfold base. rewrite map_app, Msd. cbn [map fst]. intros Hin.
        apply in_app_or in Hin as [Hin|[E|[E|[]]]]; [apply in_zrange' in Hin|..]; lia.
  Qed.

  (* ---------------------------------------------------------------- list bookkeeping *)

  Lemma exists_fresh (l l' : list Z) : NoDup l -> (length l' < length l)%nat ->
    exists x, In x l /\ ~ In x l'.
  Proof.
    intros Hnd Hlen.
    destruct (filter (fun x => negb (existsb (Z.eqb x) l')) l) as [|x r] eqn:F.
    - exfalso. assert (I : incl l l').
      { intros x Hx. destruct (existsb (Z.eqb x) l') eqn:E.
        - apply existsb_exists in E as [y [Hy E]]. apply Z.eqb_eq in E. now subst.
        - assert (Hin : In x (filter (fun x => negb (existsb (Z.eqb x) l')) l)).
          { apply filter_In. split; [exact Hx|]. now rewrite E. }
          rewrite F in Hin. destruct Hin. }
      pose proof (NoDup_incl_length Hnd I). lia.
    - assert (Hin : In x (filter (fun x => negb (existsb (Z.eqb x) l')) l)) by (rewrite F; now left).
      apply filter_In in Hin as [Hx E]. exists x. split; [exact Hx|]. intros Hx'.
      apply negb_true_iff in E. assert (existsb (Z.eqb x) l' = true); [|congruence].
      apply existsb_exists. exists x. split; [exact Hx' | apply Z.eqb_refl].
  Qed.

  Lemma extend_sub (shares : list (Z * bytes)) : NoDup (map fst shares) ->
    forall d sub, NoDup (map fst sub) -> (forall p, In p sub -> In p shares) ->
    (length sub + d <= length shares)%nat ->
    exists sub', (forall p, In p sub -> In p sub') /\ (forall p, In p sub' -> In p shares) /\
                 NoDup (map fst sub') /\ length sub' = (length sub + d)%nat.
  Proof.
    intros Hnd. induction d as [|d IH]; intros sub Hs Hi Hl.
    - exists sub. split; [auto|]. split; [auto|]. split; [auto|]. lia.
    - destruct (exists_fresh (map fst shares) (map fst sub) Hnd) as [x [Hx Hnx]].
      { rewrite !map_length. lia. }
      apply in_map_iff in Hx as [p [<- Hp]].
      destruct (IH (p :: sub)) as (sub' & A & B & C & D).
      + cbn [map]. constructor; assumption.
      + intros q [<-|Hq]; [exact Hp | now apply Hi].
      + cbn [length]. lia.
      + exists sub'. split; [intros q Hq; apply A; now right|]. split; [exact B|].
        split; [exact C|]. rewrite D. cbn [length]. lia.
  Qed.

  Lemma find_unique (l : list (Z * bytes)) p : NoDup (map fst l) -> In p l ->
    find (fun q => fst q =? fst p) l = Some p.
  Proof.
    induction l as [|q l IH]; intros Hnd Hin; [destruct Hin|].
    cbn [map] in Hnd. inversion Hnd as [|? ? Hq Hnd']; subst. cbn [find].
    destruct Hin as [->|Hin]; [now rewrite Z.eqb_refl|].
    destruct (Z.eqb_spec (fst q) (fst p)) as [E|_]; [|now apply IH].
    exfalso. apply Hq. rewrite E. now apply in_map.
  Qed.

  (* ---------------------------------------------------------------- the theorem *)

  Theorem shamir_secrecy : forall sd ds secret k n shares sub secret',
    2 <= k <= n -> n <= 16 ->
    sd_ok sd k nb -> pt_ok nb ds -> pt_ok nb secret ->
    split_with sd ds secret k n = Ok shares ->
    NoDup (map fst sub) -> (forall p, In p sub -> In p shares) -> zlen sub < k ->
    pt_ok nb secret' ->
    exists sd' ds' shares',
      sd_ok sd' k nb /\ pt_ok nb ds' /\
      split_with sd' ds' secret' k n = Ok shares' /\
      (forall p, In p sub -> In p shares').
  Proof.
    intros sd ds secret k n shares sub0 secret' Hk Hn Hsd Hds Hs Hsplit Hnd0 Hincl0 Hlen0 Hs'.
    rewrite (split_with_eq sd ds secret k n Hk Hn Hsd Hds Hs) in Hsplit. apply Ok_inj in Hsplit.
    destruct (split_with_shares sd ds secret k n Hk Hn Hsd Hds Hs) as [Hmap Hon].
    cbv zeta in Hmap, Hon. rewrite Hsplit in Hmap, Hon.
    set (base := sd ++ [(254, ds); (255, secret)]) in *. clear Hsplit.
    assert (Lshares : length shares = Z.to_nat n).
    { rewrite <- (map_length fst), Hmap. apply zrange_length. }
    assert (NDshares : NoDup (map fst shares)) by (rewrite Hmap; apply zrange_NoDup).
    (* exactly k-1 shares *)
    destruct (extend_sub shares NDshares (Z.to_nat (k - 1) - length sub0) sub0 Hnd0 Hincl0)
      as (sub & Hext & Hincl & Hnd & Lsub).
    { unfold zlen in Hlen0. lia. }
    assert (Lsub' : Z.of_nat (length sub) = k - 1) by (unfold zlen in Hlen0; lia).
    rewrite Forall_forall in Hon.
    assert (Hidx : forall p, In p sub -> 0 <= fst p < n).
    { intros p Hp. apply Hincl in Hp. pose proof (fst_in_range shares _ _ p Hmap Hp). lia. }
    (* the polynomial through the k-1 shares and the other secret at 255 *)
    set (Q := sub ++ [(255, secret')]).
    assert (HQ : base_ok Q nb).
    { unfold base_ok, Q. split; [|split; [|split]].
      - intros E. apply app_eq_nil in E as [_ E]. discriminate.
      - apply Forall_app. split.
        + apply Forall_forall. intros p Hp. destruct (Hon p (Hincl p Hp)) as (A & _ & B & _). now split.
        + constructor; [|constructor]. split; cbn [fst snd]; [lia | exact (proj2 Hs')].
      - rewrite map_app. cbn [map fst]. apply NoDup_app_intro; [exact Hnd | |].
        + constructor; [intros [] | constructor].
        + intros x Hx [<-|[]]. apply in_map_iff in Hx as [p [E Hp]]. specialize (Hidx p Hp). lia.
      - apply Forall_app. split.
        + apply Forall_forall. intros p Hp. exact (proj1 (proj2 (Hon p (Hincl p Hp)))).
        + constructor; [exact (proj1 Hs') | constructor]. }
    assert (LQ : Z.of_nat (length Q) = k) by (unfold Q; rewrite app_length; cbn [length]; lia).
    assert (HinQ : forall p, In p sub -> In p Q) by (intros p Hp; unfold Q; apply in_or_app; now left).
    assert (HfstQ : forall x, In x (map fst Q) -> In x (map fst sub) \/ x = 255).
    { intros x Hx. unfold Q in Hx. rewrite map_app in Hx. apply in_app_or in Hx as [Hx|[<-|[]]]; auto. }
    set (val := fun i => match find (fun p => fst p =? i) sub with
                         | Some p => snd p | None => interp_core i Q end).
    assert (Hval : forall i, 0 <= i < 16 -> on_poly Q nb (i, val i)).
    { intros i Hi. unfold val. destruct (find (fun p => fst p =? i) sub) as [p|] eqn:F.
      - apply find_some in F as [Hp E]. apply Z.eqb_eq in E.
        replace (i, snd p) with p by (destruct p; cbn [fst snd] in *; now subst).
        apply base_node_on_poly; [exact HQ | now apply HinQ].
      - apply interp_on_poly; [exact HQ | lia |]. intros Hin.
        apply HfstQ in Hin as [Hin|E]; [|lia]. apply in_map_iff in Hin as [p [E Hp]].
        pose proof (find_none _ _ F p Hp) as N. cbv beta in N. rewrite E, Z.eqb_refl in N. discriminate. }
    set (ds' := interp_core 254 Q).
    assert (Hds' : on_poly Q nb (254, ds')).
    { apply interp_on_poly; [exact HQ | lia |]. intros Hin.
      apply HfstQ in Hin as [Hin|E]; [|lia]. apply in_map_iff in Hin as [p [E Hp]].
      specialize (Hidx p Hp). lia. }
    assert (Hsec' : on_poly Q nb (255, secret')).
    { apply base_node_on_poly; [exact HQ|]. unfold Q. apply in_or_app. right. now left. }
    set (sd' := map (fun i => (i, val i)) (zrange 0 (Z.to_nat (k - 2)))).
    assert (Hsd' : sd_ok sd' k nb).
    { split.
      - unfold sd'. rewrite map_map. cbn [fst]. apply map_id.
      - apply Forall_forall. intros p Hp. unfold sd' in Hp. apply in_map_iff in Hp as [i [<- Hi]].
        apply in_zrange' in Hi. destruct (Hval i ltac:(lia)) as (_ & L & B & _). now split. }
    assert (Pds' : pt_ok nb ds').
    { destruct Hds' as (_ & L & B & _). now split. }
    exists sd', ds'.
    eexists. split; [exact Hsd'|]. split; [exact Pds'|].
    split; [exact (split_with_eq sd' ds' secret' k n Hk Hn Hsd' Pds' Hs')|].
    set (base' := sd' ++ [(254, ds'); (255, secret')]).
    destruct (base_of_ok sd' ds' secret' k ltac:(lia) Hsd' Pds' Hs') as [Hbase' Lbase'].
    fold base' in Hbase', Lbase'.
    assert (Hon' : Forall (on_poly Q nb) base').
    { unfold base'. apply Forall_app. split.
      - apply Forall_forall. intros p Hp. unfold sd' in Hp. apply in_map_iff in Hp as [i [<- Hi]].
        apply in_zrange' in Hi. apply Hval. lia.
      - constructor; [exact Hds'|]. constructor; [exact Hsec' | constructor]. }
    assert (Hfst' : map fst base' = zrange 0 (Z.to_nat (k - 2)) ++ [254; 255]).
    { unfold base'. rewrite map_app. rewrite (proj1 Hsd'). reflexivity. }
    intros p Hp0. pose proof (Hext p Hp0) as Hp. pose proof (Hidx p Hp) as Hx.
    destruct p as [x b]. cbn [fst] in Hx.
    destruct (Z.lt_ge_cases x (k - 2)) as [Hlow|Hhigh].
    - apply in_or_app. left. unfold sd'.
      assert (E : val x = b).
      { unfold val. pose proof (find_unique sub (x, b) Hnd Hp) as F. cbn [fst] in F. now rewrite F. }
      rewrite <- E. apply (in_map (fun i => (i, val i))). apply in_zrange'. lia.
    - apply in_or_app. right.
      assert (E : interp_core x base' = b).
      { assert (Hnx : ~ In x (map fst base')).
        { rewrite Hfst'. intros Hin. apply in_app_or in Hin as [Hin|[E|[E|[]]]];
            [apply in_zrange' in Hin|..]; lia. }
        destruct (reinterpolate Q nb base' x HQ (proj1 Hbase') Hon' (proj1 (proj2 (proj2 Hbase')))
                    ltac:(lia) ltac:(lia) Hnx) as (_ & L & N).
        destruct (Hon (x, b) (Hincl _ Hp)) as (_ & Lb & _). cbn [snd] in Lb.
        apply nth_ext_bytes; [congruence|]. intros t Ht. rewrite L in Ht. rewrite (N t Ht).
        exact (base_value Q nb x b HQ (HinQ _ Hp) t Ht). }
      rewrite <- E. apply (in_map (fun i => (i, interp_core i base'))). apply in_zrange'. lia.
  Qed.
End Secrecy.

(* the same, stated for what split_secret itself returned *)
Theorem split_secret_secrecy : forall (hmac_sha256 : bytes -> bytes -> bytes),
  (forall k m, length (hmac_sha256 k m) = 32%nat /\ bytes_ok (hmac_sha256 k m)) ->
  forall secret k n rnd shares sub secret',
  2 <= k -> bytes_ok secret -> bytes_ok rnd ->
  split_secret hmac_sha256 secret k n rnd = Ok shares ->
  NoDup (map fst sub) -> (forall p, In p sub -> In p shares) -> zlen sub < k ->
  length secret' = length secret -> bytes_ok secret' ->
  exists sd' ds' shares',
    sd_ok sd' k (length secret) /\ pt_ok (length secret) ds' /\
    split_with sd' ds' secret' k n = Ok shares' /\
    (forall p, In p sub -> In p shares').
Proof.
  intros hm hmac_ok secret k n rnd shares sub secret' Hk Hsec Hrnd Hsplit Hnd Hincl Hlen L' B'.
  destruct (split_secret_with hm hmac_ok secret k n rnd shares Hk Hrnd Hsplit)
    as (random & sd & Hkn & _ & Hds & Hsd & Hw).
  apply (shamir_secrecy (length secret) sd (digest hm random secret ++ random) secret k n shares sub secret');
    try assumption; try lia; now split.
Qed.


Print Assumptions split_secret_with.
Print Assumptions shamir_secrecy.
Print Assumptions split_secret_secrecy.
