(* Proofs/ShamirTwoLevelP.v — C15, ShareSet.recover on two-level share sets (group shares that
   are split again among members, member_threshold > 1), the form in which other SLIP39
   implementations hand out shares and which ShareSet.recover / recover_mnemonic accept.

   THEOREM two_level_recovery: let the encrypted secret be split gt-of-gc into group shares by
   split_secret, and the group share of every group i that is presented be split mt(i)-of-mc(i)
   among members by split_secret.  Then every list of shares with pairwise distinct
   (group, member) indices that presents, for every group it touches, at least mt(i) members,
   and that touches at least gt groups, is turned by recover into the original secret
   (any order of the list, any mixture of member thresholds 1 and > 1). *)
From V Require Import Base.Prelude Base.Ints Model.Mnemonic Model.Shamir
  Proofs.MnemonicP Proofs.ShamirChecksP Proofs.FeistelP Proofs.ShamirP Proofs.ShamirPipelineP.

Local Open Scope Z_scope.

Lemma NoDup_map_filter {A B} (f : A -> B) (p : A -> bool) l :
  NoDup (map f l) -> NoDup (map f (filter p l)).
Proof.
  induction l as [|a l IH]; intros H; [constructor|].
  cbn [map] in H. inversion H as [|? ? Hn Hr]; subst. cbn [filter].
  destruct (p a); cbn [map]; [|now apply IH]. constructor; [|now apply IH].
  intros Hin. apply Hn. apply in_map_iff in Hin as [x [E Hx]]. apply filter_In in Hx as [Hx _].
  rewrite <- E. now apply in_map.
Qed.

Section TwoLevel.
  Variable hmac_sha256 : bytes -> bytes -> bytes.
  Hypothesis hmac_ok : forall k m, length (hmac_sha256 k m) = 32%nat /\ bytes_ok (hmac_sha256 k m).
  Variable kdf : bytes -> bytes -> Z -> Z -> result bytes.
  Hypothesis kdf_ok : forall p s c n r, kdf p s c n = Ok r -> zlen r = n /\ bytes_ok r.

  (* member threshold and member split of group i *)
  Variable mt : Z -> Z.
  Variable mdata : Z -> list (Z * bytes).

  (* group i's share (i, gsh) of the group-level split was split mt(i)-of-mc into mdata(i) *)
  Definition group_split (gdata : list (Z * bytes)) (i : Z) : Prop :=
    exists gsh mc rnd, In (i, gsh) gdata /\ bytes_ok rnd /\
                       split_secret hmac_sha256 gsh (mt i) mc rnd = Ok (mdata i).

  (* the share s is a member share of its group, and its group presents enough members *)
  Definition member_ok (gdata : list (Z * bytes)) (shares : list share) (s : share) : Prop :=
    group_split gdata (sh_gi s) /\ sh_mt s = mt (sh_gi s) /\
    In (sh_mi s, sh_bytes s) (mdata (sh_gi s)) /\
    mt (sh_gi s) <= zlen (filter (fun t => sh_gi t =? sh_gi s) shares).

  Section Collect.
    Variables (enc : bytes) (gt gc : Z) (rnd0 : bytes) (gdata : list (Z * bytes)) (shares : list share).
    Hypothesis Henc : bytes_ok enc.
    Hypothesis Hrnd0 : bytes_ok rnd0.
    Hypothesis Hgsplit : split_secret hmac_sha256 enc gt gc rnd0 = Ok gdata.
    Hypothesis Hmem : Forall (member_ok gdata shares) shares.
    Hypothesis Hnd : NoDup (map (fun s => (sh_gi s, sh_mi s)) shares).

    Lemma collect_two_level : forall idxs, NoDup idxs ->
      exists sd, collect_groups hmac_sha256 shares idxs = Ok sd /\
        (forall q, In q sd -> In q gdata /\ In (fst q) idxs) /\
        NoDup (map fst sd) /\
        (forall s, In s shares -> In (sh_gi s) idxs -> In (sh_gi s) (map fst sd)).
    Proof.
      destruct (split_facts hmac_sha256 hmac_ok enc gt gc rnd0 gdata Henc Hrnd0 Hgsplit)
        as (_ & _ & _ & Hgfa & _).
      rewrite Forall_forall in Hgfa, Hmem.
      induction idxs as [|i r IH]; intros Hndi.
      - exists []. cbn [collect_groups map]. split; [reflexivity|]. split; [intros q []|].
        split; [constructor|]. intros s _ [].
      - inversion Hndi as [|? ? Hni Hndr]; subst. destruct (IH Hndr) as (sd & C & A & N & I).
        cbn [collect_groups].
        destruct (filter (fun s => sh_gi s =? i) shares) as [|g0 g] eqn:F.
        + exists sd. split; [exact C|]. split; [|split; [exact N|]].
          * intros x Hx. destruct (A x Hx) as [A1 A2]. split; [exact A1 | now right].
          * intros s Hs [E|Hr]; [|now apply I]. exfalso.
            assert (Hin : In s (filter (fun s => sh_gi s =? i) shares)).
            { apply filter_In. split; [exact Hs|]. apply Z.eqb_eq. now symmetry. }
            rewrite F in Hin. destruct Hin.
        + remember (g0 :: g) as grp eqn:Egrp.
          assert (Hg0 : In g0 grp) by (rewrite Egrp; now left).
          assert (Hgrp : forall s, In s grp -> In s shares /\ sh_gi s = i).
          { intros s Hs. rewrite <- F in Hs. apply filter_In in Hs as [Hs E]. apply Z.eqb_eq in E.
            now split. }
          destruct (Hgrp g0 Hg0) as [Hg0s Eg0].
          destruct (Hmem g0 Hg0s) as ((gsh & mc & rnd & Hgin & Hrnd & Hms) & Hmt0 & Hin0 & Hcnt).
          rewrite Eg0 in Hgin, Hms, Hmt0, Hin0, Hcnt. rewrite F in Hcnt.
          destruct (Hgfa _ Hgin) as [_ Bgsh]. cbn [snd] in Bgsh.
          destruct (split_facts hmac_sha256 hmac_ok gsh (mt i) mc rnd (mdata i) Bgsh Hrnd Hms)
            as (Hmtr & _ & _ & _ & Hone).
          rewrite (all_same_const sh_mt (mt i)).
          2:{ intros s Hs. destruct (Hgrp s Hs) as [Hs' E]. destruct (Hmem s Hs') as (_ & M & _).
              now rewrite M, E. }
          cbn [negb]. rewrite Hmt0.
          assert (Fin : (forall q, In q ((i, gsh) :: sd) -> In q gdata /\ In (fst q) (i :: r)) /\
                        NoDup (map fst ((i, gsh) :: sd)) /\
                        (forall s, In s shares -> In (sh_gi s) (i :: r) ->
                                   In (sh_gi s) (map fst ((i, gsh) :: sd)))).
          { split; [|split].
            - intros x [<-|Hx]; [split; [exact Hgin | now left]|].
              destruct (A x Hx) as [A1 A2]. split; [exact A1 | now right].
            - cbn [map fst]. constructor; [|exact N]. intros Hx. apply in_map_iff in Hx as [x [Ex Hx]].
              destruct (A x Hx) as [_ A2]. rewrite Ex in A2. contradiction.
            - intros s Hs [Ei|Hr]; cbn [map fst]; [left; congruence | right; now apply I]. }
          exists ((i, gsh) :: sd). split; [|exact Fin].
          destruct (Z.eqb_spec (mt i) 1) as [E1|E1].
          * rewrite C. cbn [bind]. pose proof (Hone E1 _ Hin0) as Eb. cbn [snd] in Eb. rewrite Eb. reflexivity.
          * destruct (Z.gtb_spec (mt i) (zlen grp)) as [G|G]; [lia|].
            rewrite (threshold_recovery hmac_sha256 hmac_ok gsh (mt i) mc rnd (mdata i)).
            -- cbn [bind]. rewrite C. reflexivity.
            -- lia.
            -- exact Bgsh.
            -- exact Hrnd.
            -- exact Hms.
            -- rewrite map_map. cbn [fst].
               apply (NoDup_map_inv (pair i)). rewrite map_map.
               rewrite (map_ext_in (fun s => (i, sh_mi s)) (fun s => (sh_gi s, sh_mi s))).
               ++ rewrite <- F. now apply NoDup_map_filter.
               ++ intros s Hs. destruct (Hgrp s Hs) as [_ E]. now rewrite E.
            -- intros p Hp. apply in_map_iff in Hp as [s [<- Hs]].
               destruct (Hgrp s Hs) as [Hs' E]. destruct (Hmem s Hs') as (_ & _ & M & _).
               now rewrite E in M.
            -- unfold zlen. rewrite map_length. exact G.
    Qed.
  End Collect.

  Theorem two_level_recovery : forall secret enc id e pass gt gc rnd0 gdata shares salt bits,
    bytes_ok secret -> bytes_ok rnd0 ->
    encrypt kdf secret id e pass = Ok enc ->
    split_secret hmac_sha256 enc gt gc rnd0 = Ok gdata ->
    Forall (member_ok gdata shares) shares ->
    NoDup (map (fun s => (sh_gi s, sh_mi s)) shares) ->
    (exists gs, NoDup gs /\ (forall i, In i gs -> In i (map sh_gi shares)) /\ gt <= zlen gs) ->
    recover hmac_sha256 kdf
      {| ss_shares := shares; ss_id := id; ss_salt := salt; ss_exp := e; ss_gt := gt; ss_gc := gc;
         ss_bits := bits |} pass = Ok secret.
  Proof.
    intros secret enc id e pass gt gc rnd0 gdata shares salt bits Hsec Hrnd0 Hcr Hsplit Hmem Hnd
           (gs & Hgsnd & Hgsin & Hgt).
    assert (Henc : bytes_ok enc).
    { unfold encrypt in Hcr. exact (crypt_ok kdf kdf_ok _ _ _ _ _ _ Hsec Hcr). }
    destruct (split_facts hmac_sha256 hmac_ok enc gt gc rnd0 gdata Henc Hrnd0 Hsplit)
      as (Hkn & Hn16 & Hmap & Hfa & Hone).
    assert (Hrange : forall s, In s shares -> 0 <= sh_gi s < gc).
    { intros s Hs. rewrite Forall_forall in Hmem.
      destruct (Hmem s Hs) as ((gsh & _ & _ & Hin & _) & _).
      apply (in_map fst) in Hin. rewrite Hmap in Hin. apply in_zrange' in Hin. cbn [fst] in Hin. lia. }
    destruct (collect_two_level enc gt gc rnd0 gdata shares Henc Hrnd0 Hsplit Hmem Hnd
                (zrange 0 (Z.to_nat gc)) (zrange_NoDup _ _)) as (sd & C & A & N & I).
    assert (Hlen : (length gs <= length sd)%nat).
    { rewrite <- (map_length fst sd). apply NoDup_incl_length; [exact Hgsnd|].
      intros i Hi. apply Hgsin in Hi. apply in_map_iff in Hi as [s [<- Hs]].
      apply I; [exact Hs|]. apply in_zrange'. specialize (Hrange s Hs). lia. }
    assert (kdf_len : forall p s c n r, kdf p s c n = Ok r -> zlen r = n).
    { intros p s c n0 r H. exact (proj1 (kdf_ok _ _ _ _ _ H)). }
    set (ss := {| ss_shares := shares; ss_id := id; ss_salt := salt; ss_exp := e; ss_gt := gt;
                  ss_gc := gc; ss_bits := bits |}).
    assert (Hdec : decrypt kdf ss enc pass = Ok secret).
    { exact (proj1 (feistel_inverse kdf kdf_len secret id e pass enc ss eq_refl eq_refl Hcr)). }
    unfold recover. cbn [ss ss_shares ss_gc ss_gt].
    assert (X : existsb (fun s => gc <=? sh_gi s) shares = false).
    { destruct (existsb (fun s => gc <=? sh_gi s) shares) eqn:X; [|reflexivity].
      apply existsb_exists in X as [s [Hs L]]. apply Z.leb_le in L. specialize (Hrange s Hs). lia. }
    rewrite X, C. cbn [bind]. fold ss.
    destruct (Z.eqb_spec gt 1) as [Hk1|Hk1].
    - destruct sd as [|p sd'].
      { cbn [length] in Hlen. unfold zlen in Hgt. lia. }
      rewrite (Hone Hk1 p); [exact Hdec|]. apply (A p). now left.
    - destruct (Z.gtb_spec gt (zlen sd)) as [G|G]; [unfold zlen in *; lia|].
      rewrite (threshold_recovery hmac_sha256 hmac_ok enc gt gc rnd0 gdata sd ltac:(lia) Henc Hrnd0 Hsplit N).
      + cbn [bind]. exact Hdec.
      + intros p Hp. now apply (A p).
      + exact G.
  Qed.
End TwoLevel.

Print Assumptions two_level_recovery.
