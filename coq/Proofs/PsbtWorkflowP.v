(* Proofs/PsbtWorkflowP.v — the workflow end to end at the level of whole PSBTs:
   * every signer signs its own copy, the copies are combined in ANY order: the result is the PSBT
     that signing with all keys on one object gives;
   * PSBT.finalize succeeds exactly when every input can be finalised, clears the signing data and
     sets a final scriptSig everywhere, so the extractor's assembly exists afterwards. *)
From Coq Require Import Permutation.
From V Require Import Base.Prelude Base.Ints Model.Helper Model.Script Model.Tx Model.Psbt
  Model.PsbtSign Proofs.PsbtDictP Proofs.PsbtCombineP Proofs.PsbtFinalP Proofs.PsbtFinal2P Proofs.PsbtSignP.

Section W.
Variable sign_segwit : bytes -> tx -> Z -> option script -> option script -> result bytes.
Variable sign_legacy : bytes -> tx -> Z -> option script -> result bytes.

Theorem separate_signers_any_combination_order base keys cs l' :
  good base -> all_fresh keys base ->
  sign_each sign_segwit sign_legacy keys base = Ok cs ->
  Permutation (map fst cs) l' ->
  sign_keys sign_segwit sign_legacy keys base = Ok (fold_left comb l' base, existsb snd cs) /\
  psbt_serialize (fold_left comb l' base) = psbt_serialize (fold_left comb (map fst cs) base).
Proof.
  intros G Fr H P.
  pose proof (sign_each_family sign_segwit sign_legacy base keys cs G Fr H) as F.
  pose proof (fold_comb_perm _ _ P base F) as E.
  rewrite (sign_keys_is_fold_comb sign_segwit sign_legacy base keys G Fr), H. rewrite E. split; reflexivity.
Qed.
End W.

Ltac step H :=
  match type of H with
  | bind ?r _ = Ok _ => let a := fresh "a" in let E := fresh "E" in apply bind_ok in H as [a [E H]]
  | (if ?b then _ else _) = Ok _ => let E := fresh "B" in destruct b eqn:E
  | match ?x with _ => _ end = Ok _ => let E := fresh "M" in destruct x eqn:E
  end; try discriminate.

(* what every successful input finalisation leaves: a final scriptSig, no signing data, same UTXOs
   and unknown entries *)
Lemma in_finalize_shape st ti st' :
  in_finalize st ti = Ok st' ->
  pi_script_sig st' <> None /\ pi_sigs st' = [] /\ pi_named st' = [] /\ pi_redeem st' = None /\
  pi_wscript st' = None /\ pi_hash_type st' = None /\
  pi_prev_tx st' = pi_prev_tx st /\ pi_prev_out st' = pi_prev_out st /\ pi_extra st' = pi_extra st.
Proof.
  unfold in_finalize. intros H. repeat step H; inversion H; subst; cbn; repeat split; discriminate.
Qed.

Lemma ins_finalize_each : forall ins tis outs,
  ins_finalize ins tis = Ok outs ->
  length outs = length ins /\
  forall j st ti, nth_error ins j = Some st -> nth_error tis j = Some ti ->
    exists st', nth_error outs j = Some st' /\ in_finalize st ti = Ok st'.
Proof.
  induction ins as [|st ins IH]; intros tis outs H; cbn [ins_finalize] in H.
  - inversion H; subst. split; [reflexivity|]. intros [|j]; discriminate.
  - destruct tis as [|ti tis]; [discriminate|].
    apply bind_ok in H as [a [Ea H]]. apply bind_ok in H as [b [Eb H]]. inversion H; subst.
    destruct (IH _ _ Eb) as [L Hn]. split; [cbn; now rewrite L|].
    intros [|j] st0 ti0 Hs Ht; cbn in Hs, Ht.
    + inversion Hs; inversion Ht; subst. exists a. split; [reflexivity|exact Ea].
    + now apply Hn.
Qed.

Lemma ins_finalize_all_ss : forall ins tis outs,
  ins_finalize ins tis = Ok outs -> Forall (fun st => pi_script_sig st <> None) outs.
Proof.
  induction ins as [|st ins IH]; intros tis outs H; cbn [ins_finalize] in H.
  - inversion H; subst. constructor.
  - destruct tis as [|ti tis]; [discriminate|].
    apply bind_ok in H as [a [Ea H]]. apply bind_ok in H as [b [Eb H]]. inversion H; subst.
    constructor; [now apply in_finalize_shape in Ea|eapply IH; eauto].
Qed.

Lemma ins_finalize_total : forall ins tis,
  length ins = length tis ->
  (forall j st ti, nth_error ins j = Some st -> nth_error tis j = Some ti -> exists st', in_finalize st ti = Ok st') ->
  exists outs, ins_finalize ins tis = Ok outs.
Proof.
  induction ins as [|st ins IH]; intros [|ti tis] L H; cbn in L; try discriminate.
  - eexists; reflexivity.
  - destruct (H 0%nat st ti eq_refl eq_refl) as [st' E].
    destruct (IH tis (eq_add_S _ _ L)) as [outs Ho].
    { intros j st0 ti0 Hs Ht. apply (H (S j) st0 ti0); assumption. }
    cbn [ins_finalize]. rewrite E, Ho. eexists; reflexivity.
Qed.

(* PSBT.finalize: succeeds exactly when every input can be finalised; afterwards the extractor's
   assembly exists *)
Theorem finalize_whole (p : psbt) :
  length (p_ins p) = length (t_ins (p_tx p)) ->
  ((exists p', finalize p = Ok p') <->
   forall j st ti, nth_error (p_ins p) j = Some st -> nth_error (t_ins (p_tx p)) j = Some ti ->
                   exists st', in_finalize st ti = Ok st') /\
  forall p', finalize p = Ok p' ->
    p_tx p' = p_tx p /\ p_outs p' = p_outs p /\ p_hd p' = p_hd p /\ p_extra p' = p_extra p /\
    length (p_ins p') = length (p_ins p) /\
    (forall j st ti, nth_error (p_ins p) j = Some st -> nth_error (t_ins (p_tx p)) j = Some ti ->
       exists st', nth_error (p_ins p') j = Some st' /\ in_finalize st ti = Ok st') /\
    (forall t0, tx_clone (p_tx p) = Ok t0 -> length (t_ins t0) = length (p_ins p) ->
       exists t, assemble_tx p' = Ok t).
Proof.
  intros L. unfold finalize. split.
  - split.
    + intros [p' H]. apply bind_ok in H as [outs [Ho _]]. intros j st ti Hs Ht.
      destruct (proj2 (ins_finalize_each _ _ _ Ho) j st ti Hs Ht) as [st' [_ E]]. eauto.
    + intros H. destruct (ins_finalize_total _ _ L H) as [outs Ho]. rewrite Ho. eexists; reflexivity.
  - intros p' H. apply bind_ok in H as [outs [Ho H]]. inversion H; subst p'. cbn.
    destruct (ins_finalize_each _ _ _ Ho) as [Lo Hn].
    repeat split; try reflexivity; try assumption.
    intros t0 Hc Lt.
    set (p' := {| p_tx := p_tx p; p_ins := outs; p_outs := p_outs p; p_hd := p_hd p; p_extra := p_extra p |}).
    destruct (assemble_tx_exact p' t0 Hc) as [[_ A] _]; [cbn; congruence|].
    apply A. cbn. eapply ins_finalize_all_ss; eauto.
Qed.
