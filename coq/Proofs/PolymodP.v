(* Proofs/PolymodP.v — facts about bech32_polymod shared by C09 and C20:
   30-bit state bound, "appending the created checksum makes the polymod equal to the
   constant", alphabet bijection. *)
From V Require Import Base.Prelude Base.Ints Base.Lfsr Model.Base58 Model.Bech32 Proofs.Base58P.

Definition P30 : Z := 2 ^ 30.
Definition st_ok (c : Z) : Prop := 0 <= c < P30.
Definition sym5 (v : Z) : Prop := 0 <= v < 32.

Lemma lxor_bound n a b : 0 <= n -> 0 <= a < 2 ^ n -> 0 <= b < 2 ^ n -> 0 <= Z.lxor a b < 2 ^ n.
Proof.
  intros Hn Ha Hb.
  assert (N0 : 0 <= Z.lxor a b) by (apply Z.lxor_nonneg; split; intros; lia).
  split; [exact N0|].
  destruct (Z.eq_dec n 0) as [->|Hn0].
  { cbn in Ha, Hb. assert (a = 0) by lia. assert (b = 0) by lia. subst. cbn. lia. }
  destruct (Z.eq_dec (Z.lxor a b) 0) as [E|E]; [rewrite E; apply Z.pow_pos_nonneg; lia|].
  assert (0 < Z.lxor a b) by lia.
  apply Z.log2_lt_pow2; [lia|].
  pose proof (Z.log2_lxor a b (proj1 Ha) (proj1 Hb)) as L.
  assert (La : Z.log2 a < n).
  { destruct (Z.eq_dec a 0) as [->|]; [cbn; lia|]. apply Z.log2_lt_pow2; lia. }
  assert (Lb : Z.log2 b < n).
  { destruct (Z.eq_dec b 0) as [->|]; [cbn; lia|]. apply Z.log2_lt_pow2; lia. }
  lia.
Qed.

Lemma sel_bound gs b i : Forall st_ok gs -> st_ok (sel gs b i).
Proof.
  intros HF. revert i. induction gs as [|g r IH]; intros i; cbn [sel].
  - unfold st_ok, P30. lia.
  - inversion HF as [|? ? Hg HF']; subst. unfold st_ok, P30 in *.
    apply lxor_bound; [lia| |apply IH; exact HF'].
    destruct (Z.testbit b i); [exact Hg|lia].
Qed.

Lemma GEN_ok : Forall st_ok GEN.
Proof. unfold st_ok, P30, GEN. repeat constructor; lia. Qed.

Lemma pm_step_bound c v : st_ok c -> sym5 v -> st_ok (pm_step c v).
Proof.
  intros Hc Hv. unfold pm_step, step, st_ok, P30, sym5 in *.
  apply lxor_bound; [lia| |apply (sel_bound GEN _ 0 GEN_ok)].
  apply lxor_bound; [lia| |lia].
  rewrite Z.land_ones by lia. rewrite Z.shiftl_mul_pow2 by lia.
  pose proof (Z.mod_pos_bound c (2 ^ 25) ltac:(lia)). lia.
Qed.

Lemma run_bound vs : forall c, st_ok c -> Forall sym5 vs -> st_ok (run GEN 25 5 c vs).
Proof.
  induction vs as [|v r IH]; intros c Hc HF; [exact Hc|].
  inversion HF as [|? ? Hv HF']; subst. unfold run in *. cbn [fold_left].
  apply IH; [|exact HF']. apply pm_step_bound; assumption.
Qed.

Lemma polymod_run vs : bech32_polymod vs = run GEN 25 5 1 vs.
Proof. reflexivity. Qed.

(* a state below 2^25 has no feedback *)
Lemma pm_step_small c v : 0 <= c < 2 ^ 25 -> pm_step c v = Z.lxor (Z.shiftl c 5) v.
Proof.
  intros Hc. unfold pm_step, step.
  rewrite Z.shiftr_div_pow2, Z.div_small by lia. rewrite sel_0, Z.lxor_0_r.
  rewrite Z.land_ones, Z.mod_small by lia. reflexivity.
Qed.

Lemma split5 y : Z.lxor (Z.shiftl (Z.shiftr y 5) 5) (Z.land y 31) = y.
Proof.
  apply Z.bits_inj'. intros n Hn.
  rewrite Z.lxor_spec, Z.land_spec, Z.shiftl_spec by lia.
  change 31 with (Z.ones 5). rewrite Z.testbit_ones by lia.
  destruct (Z.ltb_spec n 5) as [L|L].
  - rewrite Z.testbit_neg_r by lia. destruct (Z.leb_spec 0 n); [|lia].
    destruct (Z.testbit y n); reflexivity.
  - rewrite Z.shiftr_spec by lia. replace (n - 5 + 5) with n by lia.
    destruct (Z.testbit y n), (0 <=? n); reflexivity.
Qed.

Lemma chk_step x k : 0 <= x < P30 -> 0 <= k ->
  pm_step (Z.shiftr x (k + 5)) (Z.land (Z.shiftr x k) 31) = Z.shiftr x k.
Proof.
  intros Hx Hk. unfold P30 in Hx. rewrite pm_step_small.
  - rewrite <- (Z.shiftr_shiftr x k 5) by lia. apply split5.
  - rewrite Z.shiftr_div_pow2 by lia. split; [apply Z.div_pos; [lia|apply Z.pow_pos_nonneg; lia]|].
    apply Z.div_lt_upper_bound; [apply Z.pow_pos_nonneg; lia|].
    rewrite Z.pow_add_r by lia.
    assert (0 < 2 ^ k) by (apply Z.pow_pos_nonneg; lia). nia.
Qed.

(* the six checksum symbols of x, run from state 0, rebuild x *)
Lemma syn_chk_syms x : 0 <= x < P30 -> syn GEN 25 5 (chk_syms x) = x.
Proof.
  intros Hx. unfold syn, run, chk_syms. cbn [map fold_left].
  change (5 * (5 - 0)) with 25. change (5 * (5 - 1)) with 20. change (5 * (5 - 2)) with 15.
  change (5 * (5 - 3)) with 10. change (5 * (5 - 4)) with 5. change (5 * (5 - 5)) with 0.
  change (step GEN 25 5) with pm_step.
  assert (E0 : Z.shiftr x 30 = 0).
  { unfold P30 in Hx. rewrite Z.shiftr_div_pow2, Z.div_small; lia. }
  assert (S25 : pm_step 0 (Z.land (Z.shiftr x 25) 31) = Z.shiftr x 25).
  { rewrite <- E0 at 1. exact (chk_step x 25 Hx ltac:(lia)). }
  assert (S20 : pm_step (Z.shiftr x 25) (Z.land (Z.shiftr x 20) 31) = Z.shiftr x 20)
    by exact (chk_step x 20 Hx ltac:(lia)).
  assert (S15 : pm_step (Z.shiftr x 20) (Z.land (Z.shiftr x 15) 31) = Z.shiftr x 15)
    by exact (chk_step x 15 Hx ltac:(lia)).
  assert (S10 : pm_step (Z.shiftr x 15) (Z.land (Z.shiftr x 10) 31) = Z.shiftr x 10)
    by exact (chk_step x 10 Hx ltac:(lia)).
  assert (S5 : pm_step (Z.shiftr x 10) (Z.land (Z.shiftr x 5) 31) = Z.shiftr x 5)
    by exact (chk_step x 5 Hx ltac:(lia)).
  assert (S0 : pm_step (Z.shiftr x 5) (Z.land (Z.shiftr x 0) 31) = Z.shiftr x 0)
    by exact (chk_step x 0 Hx ltac:(lia)).
  rewrite S25, S20, S15, S10, S5, S0. apply Z.shiftr_0_r.
Qed.

Lemma chk_syms_length x : length (chk_syms x) = 6%nat.
Proof. reflexivity. Qed.

Lemma chk_syms_ok x : Forall sym5 (chk_syms x).
Proof.
  unfold chk_syms. apply Forall_forall. intros s Hs. apply in_map_iff in Hs as [i [<- _]].
  unfold sym5. change 31 with (Z.ones 5). rewrite Z.land_ones by lia.
  pose proof (Z.mod_pos_bound (Z.shiftr x (5 * (5 - i))) (2 ^ 5) ltac:(lia)). lia.
Qed.

(* create_checksum is right: for every start value and symbol string *)
Theorem checksum_valid const c vs :
  st_ok c -> st_ok const -> Forall sym5 vs ->
  run GEN 25 5 c (vs ++ chk_syms (Z.lxor (run GEN 25 5 c (vs ++ zeros6)) const)) = const.
Proof.
  intros Hc Hk HF.
  set (P := run GEN 25 5 c (vs ++ zeros6)).
  assert (HP : st_ok P).
  { apply run_bound; [exact Hc|]. apply Forall_app. split; [exact HF|].
    unfold zeros6, sym5. repeat constructor; lia. }
  assert (Hx : st_ok (Z.lxor P const)).
  { unfold st_ok, P30 in *. apply lxor_bound; lia. }
  rewrite run_app.
  pose proof (syn_chk_syms _ Hx) as SY.
  remember (chk_syms (Z.lxor P const)) as ch eqn:Ech.
  assert (Hch : length ch = 6%nat) by (subst ch; reflexivity).
  rewrite <- (xorl_zeros_l 6 ch Hch). change (repeat 0 6) with zeros6.
  rewrite run_error by (rewrite Hch; reflexivity).
  rewrite SY, <- run_app. fold P.
  rewrite <- Z.lxor_assoc, Z.lxor_nilpotent. apply Z.lxor_0_l.
Qed.

(* ---------- alphabet ---------- *)

Definition b32c (n : Z) : Z := nth (Z.to_nat n) bech32_alphabet 0.

Lemma bech32_char_ok n : sym5 n -> bech32_char n = Ok (b32c n).
Proof.
  intros H. unfold sym5 in H. unfold bech32_char.
  destruct (0 <=? n) eqn:E1; [|lia]. destruct (n <? 32) eqn:E2; [|lia]. reflexivity.
Qed.

Lemma bech32_index_char_all :
  forallb (fun d => match bech32_index (b32c (Z.of_nat d)) with
                    | Ok i => i =? Z.of_nat d | Err => false end) (seq 0 32) = true.
Proof. vm_compute. reflexivity. Qed.

Lemma bech32_index_char n : sym5 n -> bech32_index (b32c n) = Ok n.
Proof.
  intros H. unfold sym5 in H. pose proof bech32_index_char_all as A. rewrite forallb_forall in A.
  specialize (A (Z.to_nat n)). rewrite Z2Nat.id in A by lia.
  assert (I : In (Z.to_nat n) (seq 0 32)) by (apply in_seq; lia). specialize (A I).
  destruct (bech32_index (b32c n)) as [i|]; [|discriminate]. apply Z.eqb_eq in A. now subst.
Qed.

Lemma bech32_index_sym c i : bech32_index c = Ok i -> sym5 i /\ b32c i = c.
Proof.
  intros H. unfold bech32_index in H.
  pose proof (index_of_in _ _ _ _ H) as I.
  destruct (index_of_total c bech32_alphabet 0 I) as [j [E Hj]].
  rewrite H in E. injection E as <-. change (zlen bech32_alphabet) with 32 in Hj.
  split; [unfold sym5; lia|].
  (* the character at the index found is c: check all 32 characters *)
  assert (A : forallb (fun ch => match bech32_index ch with
                                 | Ok k => b32c k =? ch | Err => false end) bech32_alphabet = true)
    by (vm_compute; reflexivity).
  rewrite forallb_forall in A. specialize (A c I). unfold bech32_index in A. rewrite H in A.
  now apply Z.eqb_eq in A.
Qed.

Lemma encode_bech32_ok syms : Forall sym5 syms -> encode_bech32 syms = Ok (map b32c syms).
Proof.
  unfold encode_bech32. induction syms as [|s r IH]; intros HF; [reflexivity|].
  inversion HF as [|? ? Hs HF']; subst. cbn [mapr map].
  rewrite (bech32_char_ok s Hs), (IH HF'). reflexivity.
Qed.

Lemma index_map_b32c syms : Forall sym5 syms -> mapr bech32_index (map b32c syms) = Ok syms.
Proof.
  induction syms as [|s r IH]; intros HF; [reflexivity|].
  inversion HF as [|? ? Hs HF']; subst. cbn [mapr map].
  rewrite (bech32_index_char s Hs), (IH HF'). reflexivity.
Qed.

(* mapr bech32_index succeeds exactly on alphabet strings and inverts map b32c *)
Lemma mapr_index_inv s syms : mapr bech32_index s = Ok syms ->
  Forall sym5 syms /\ s = map b32c syms.
Proof.
  revert syms; induction s as [|c r IH]; intros syms H; cbn [mapr] in H.
  - injection H as <-. split; [constructor|reflexivity].
  - destruct (bech32_index c) as [i|] eqn:E; [|discriminate]. cbn [bind] in H.
    destruct (mapr bech32_index r) as [t|] eqn:E2; [|discriminate]. cbn [bind] in H.
    injection H as <-. destruct (IH t eq_refl) as [F1 F2].
    destruct (bech32_index_sym c i E) as [S1 S2].
    split; [constructor; assumption|]. cbn [map]. now rewrite S2, <- F2.
Qed.

Lemma mapr_index_bad s : (exists c, In c s /\ ~ In c bech32_alphabet) -> mapr bech32_index s = Err.
Proof.
  induction s as [|x r IH]; intros [c [Hin Hbad]]; [destruct Hin|].
  cbn [mapr]. destruct (bech32_index x) as [i|] eqn:E; [|reflexivity]. cbn [bind].
  destruct Hin as [<-|Hin].
  - exfalso. apply Hbad. eapply index_of_in. exact E.
  - rewrite IH by (exists c; auto). reflexivity.
Qed.
