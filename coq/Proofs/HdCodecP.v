(* Proofs/HdCodecP.v — the 78-byte extended-key codec (both directions, all SLIP-132 version
   prefixes) and xpub blinding. *)
From V Require Import Base.Prelude Base.Ints Model.Pecc Model.Hd Generated.HdVersions
  Proofs.GroupHyp Proofs.HdP Proofs.HdPathP.
From V Require Spec.Bip32.

(* ---------------------------------------------------------------- small facts *)
Lemma Ok_inj {A} (a b : A) : Ok a = Ok b -> a = b.
Proof. congruence. Qed.

Lemma read_all n (a : bytes) : length a = n -> read n a = (a, []).
Proof. intros H. rewrite <- (app_nil_r a) at 1. now apply read_app. Qed.

Lemma int_to_be_inv v len b : int_to_be v len = Ok b -> 0 <= v < pow256 len /\ b = to_be len v.
Proof.
  unfold int_to_be, to_be.
  destruct (0 <=? v) eqn:E1; destruct (v <? pow256 len) eqn:E2; cbn; intros H; inversion H.
  split; [lia | reflexivity].
Qed.

Lemma int_to_be_ok v len : 0 <= v < pow256 len -> int_to_be v len = Ok (to_be len v).
Proof.
  intros H. unfold int_to_be, to_be.
  destruct (0 <=? v) eqn:E1; destruct (v <? pow256 len) eqn:E2; cbn; try reflexivity; lia.
Qed.

Lemma int_to_byte_inv v b : int_to_byte v = Ok b -> 0 <= v <= 255 /\ b = [v].
Proof.
  unfold int_to_byte. destruct (255 <? v) eqn:E1; destruct (v <? 0) eqn:E2; cbn; intros H; inversion H.
  split; [lia | reflexivity].
Qed.

Lemma int_to_byte_ok v : 0 <= v <= 255 -> int_to_byte v = Ok [v].
Proof.
  intros H. unfold int_to_byte. destruct (255 <? v) eqn:E1; destruct (v <? 0) eqn:E2; cbn; try reflexivity; lia.
Qed.

Lemma sec_len (P : Pecc.point) s : sec P true = Ok s -> length s = 33%nat.
Proof.
  destruct P as [[x y]|]; [|discriminate]. unfold sec. intros H. injection H as <-.
  cbn [length]. now rewrite to_be_length.
Qed.

Lemma split_at {A} n (l : list A) :
  (n <= length l)%nat -> exists a b, l = a ++ b /\ length a = n /\ length b = (length l - n)%nat.
Proof.
  intros H. exists (firstn n l), (skipn n l). rewrite firstn_skipn, firstn_length, skipn_length.
  repeat split; lia.
Qed.

(* ---------------------------------------------------------------- version tables *)
Definition known_xpub (v : bytes) : bool :=
  mem_bytes v all_testnet_xpubs || mem_bytes v all_mainnet_xpubs.
Definition known_xprv (v : bytes) : bool :=
  mem_bytes v all_testnet_xprvs || mem_bytes v all_mainnet_xprvs.
Definition net_of_xpub (v : bytes) : Z := if mem_bytes v all_testnet_xpubs then 1 else 0.
Definition net_of_xprv (v : bytes) : Z := if mem_bytes v all_testnet_xprvs then 1 else 0.

Definition subset_b (a b : list bytes) : bool := forallb (fun v => mem_bytes v b) a.
Definition same_set_b (a b : list bytes) : bool := subset_b a b && subset_b b a.

(* the tables extracted from hd.py are exactly the SLIP-0132 registry (as sets) *)
Lemma versions_are_slip132 :
  same_set_b all_mainnet_xpubs (map fst Bip32.slip132_mainnet) = true /\
  same_set_b all_mainnet_xprvs (map snd Bip32.slip132_mainnet) = true /\
  same_set_b all_testnet_xpubs (map fst Bip32.slip132_testnet) = true /\
  same_set_b all_testnet_xprvs (map snd Bip32.slip132_testnet) = true.
Proof. vm_compute. repeat split. Qed.

Definition all_versions : list bytes :=
  all_mainnet_xpubs ++ all_testnet_xpubs ++ all_mainnet_xprvs ++ all_testnet_xprvs.

Fixpoint nodup_b (l : list bytes) : bool :=
  match l with [] => true | a :: r => negb (mem_bytes a r) && nodup_b r end.

(* 20 distinct prefixes of 4 bytes; public and private, mainnet and testnet sets are disjoint
   (nodup of the concatenation), and the default tables use known prefixes of the right net *)
Lemma versions_shape :
  length all_versions = 20%nat /\ nodup_b all_versions = true /\
  forallb (fun v => (length v =? 4)%nat && bytes_okb v) all_versions = true /\
  forallb known_xprv tbl_xprv = true /\ forallb known_xpub tbl_xpub = true /\
  map net_of_xprv tbl_xprv = [0; 1; 1; 1] /\ map net_of_xpub tbl_xpub = [0; 1; 1; 1].
Proof. vm_compute. repeat split. Qed.

Lemma known_xpub_len v : known_xpub v = true -> length v = 4%nat.
Proof.
  unfold known_xpub, mem_bytes. intros H. apply orb_true_iff in H.
  assert (HA : forallb (fun v => (length v =? 4)%nat) (all_testnet_xpubs ++ all_mainnet_xpubs) = true)
    by (vm_compute; reflexivity).
  rewrite forallb_forall in HA.
  assert (Hin : In v (all_testnet_xpubs ++ all_mainnet_xpubs)).
  { apply in_or_app. destruct H as [H|H]; apply existsb_exists in H as (w & Hw & E);
      apply beq_eq in E; subst; auto. }
  apply HA in Hin. now apply Nat.eqb_eq.
Qed.

Lemma known_xprv_len v : known_xprv v = true -> length v = 4%nat.
Proof.
  unfold known_xprv, mem_bytes. intros H. apply orb_true_iff in H.
  assert (HA : forallb (fun v => (length v =? 4)%nat) (all_testnet_xprvs ++ all_mainnet_xprvs) = true)
    by (vm_compute; reflexivity).
  rewrite forallb_forall in HA.
  assert (Hin : In v (all_testnet_xprvs ++ all_mainnet_xprvs)).
  { apply in_or_app. destruct H as [H|H]; apply existsb_exists in H as (w & Hw & E);
      apply beq_eq in E; subst; auto. }
  apply HA in Hin. now apply Nat.eqb_eq.
Qed.

(* sec (parse b) = b for 33-byte strings: only needs an odd field prime *)
Lemma sec_parse_gen C b P :
  cp C mod 2 = 1 ->
  length b = 33%nat -> bytes_ok b -> parse_point C b = Ok P -> sec P true = Ok b.
Proof.
  intros Hodd Hl Hb. unfold parse_point. rewrite Hl. cbn [Nat.eqb orb].
  destruct b as [|pre rest]; [discriminate|].
  assert (Lr : length rest = 32%nat) by (cbn in Hl; lia).
  inversion Hb as [|? ? Hpre Hrest]; subst.
  unfold parse_sec. rewrite Hl. cbn [Nat.eqb andb negb orb]. rewrite andb_false_r.
  destruct ((pre =? 2) || (pre =? 3)) eqn:Epre; cbn [negb orb]; [|discriminate].
  cbv zeta.
  destruct (felem_ok C (from_be rest)); cbn [negb]; [|discriminate].
  destruct (fsqrt C _) as [beta|]; cbn [bind]; [|discriminate].
  destruct (negb _ || negb _); [discriminate|].
  unfold mk_point. destruct (on_curve C _ _); [|discriminate].
  intros H. injection H as <-. unfold sec. f_equal.
  assert (Hto : to_be 32 (from_be rest) = rest) by (rewrite <- Lr; apply to_be_from_be, Hrest).
  rewrite Hto. f_equal.
  assert (Hsub : forall v, v mod 2 = 1 -> (cp C - v) mod 2 = 0).
  { intros v Hv. rewrite Zminus_mod, Hodd, Hv. reflexivity. }
  assert (Hsub0 : forall v, v mod 2 = 0 -> (cp C - v) mod 2 = 1).
  { intros v Hv. rewrite Zminus_mod, Hodd, Hv. reflexivity. }
  assert (Hb2 : beta mod 2 = 0 \/ beta mod 2 = 1) by (pose proof (Z.mod_pos_bound beta 2); lia).
  apply orb_true_iff in Epre.
  destruct (pre =? 2) eqn:E2.
  - apply Z.eqb_eq in E2. subst pre.
    destruct Hb2 as [Hb2|Hb2]; rewrite Hb2; cbn [Z.eqb].
    + rewrite Hb2. reflexivity.
    + rewrite (Hsub _ Hb2). reflexivity.
  - destruct Epre as [?|E3]; [discriminate|]. apply Z.eqb_eq in E3. subst pre.
    destruct Hb2 as [Hb2|Hb2]; rewrite Hb2; cbn [Z.eqb].
    + rewrite (Hsub0 _ Hb2). reflexivity.
    + rewrite Hb2. reflexivity.
Qed.

Section Codec.
Variable C : curve.
Variable hmac512 : bytes -> bytes -> bytes.
Variable hash160 : bytes -> bytes.
Let n := cn C.

(* ---------------------------------------------------------------- parsing a concatenation *)
Lemma raw_parse_pub_cat ver d pfp cnb cc pb net :
  length ver = 4%nat -> length pfp = 4%nat -> length cnb = 4%nat -> length cc = 32%nat ->
  length pb = 33%nat ->
  raw_parse_pub C (ver ++ [d] ++ pfp ++ cnb ++ cc ++ pb) net =
  (net' <- (if mem_bytes ver all_testnet_xpubs then Ok (match net with Some x => x | None => 1 end)
            else if mem_bytes ver all_mainnet_xpubs then Ok 0 else Err) ;;
   P <- parse_point C pb ;; mk_pub P cc d pfp (from_be cnb) net' (Some ver)).
Proof.
  intros H1 H2 H3 H4 H5. unfold raw_parse_pub.
  rewrite (read_app 4 ver _ H1). cbv beta iota.
  destruct (if mem_bytes ver all_testnet_xpubs then _ else _) as [net'|]; cbn [bind]; [|reflexivity].
  rewrite (read_app 1 [d] _ eq_refl). cbv beta iota. cbn [byte_to_int bind].
  rewrite (read_app 4 pfp _ H2). cbv beta iota.
  rewrite (read_app 4 cnb _ H3). cbv beta iota.
  rewrite (read_app 32 cc _ H4). cbv beta iota.
  rewrite (read_all 33 pb H5). cbv beta iota. reflexivity.
Qed.

Lemma raw_parse_priv_cat ver d pfp cnb cc z kb net :
  length ver = 4%nat -> length pfp = 4%nat -> length cnb = 4%nat -> length cc = 32%nat ->
  length kb = 32%nat ->
  raw_parse_priv C (ver ++ [d] ++ pfp ++ cnb ++ cc ++ [z] ++ kb) net =
  (net' <- (if mem_bytes ver all_testnet_xprvs then Ok (match net with Some x => x | None => 1 end)
            else if mem_bytes ver all_mainnet_xprvs then Ok 0 else Err) ;;
   if negb (z =? 0) then Err
   else mk_priv C (from_be kb) cc d pfp (from_be cnb) net' (Some ver) None).
Proof.
  intros H1 H2 H3 H4 H5. unfold raw_parse_priv.
  rewrite (read_app 4 ver _ H1). cbv beta iota.
  destruct (if mem_bytes ver all_testnet_xprvs then _ else _) as [net'|]; cbn [bind]; [|reflexivity].
  rewrite (read_app 1 [d] _ eq_refl). cbv beta iota. cbn [byte_to_int bind].
  rewrite (read_app 4 pfp _ H2). cbv beta iota.
  rewrite (read_app 4 cnb _ H3). cbv beta iota.
  rewrite (read_app 32 cc _ H4). cbv beta iota.
  rewrite (read_app 1 [z] _ eq_refl). cbv beta iota. cbn [byte_to_int bind].
  destruct (negb (z =? 0)); [reflexivity|].
  rewrite (read_all 32 kb H5). cbv beta iota. reflexivity.
Qed.

(* ---------------------------------------------------------------- serialisation, inverted *)
Lemma ser_pub_inv k ver raw :
  ser_pub k ver = Ok raw ->
  exists s, sec (pk k) true = Ok s /\ 0 <= pk_depth k <= 255 /\ 0 <= pk_num k < 4294967296 /\
            raw = ver ++ [pk_depth k] ++ pk_pfp k ++ to_be 4 (pk_num k) ++ pk_cc k ++ s.
Proof.
  unfold ser_pub. intros H.
  apply bind_ok in H as (d & Hd & H). apply bind_ok in H as (c & Hc & H). apply bind_ok in H as (s & Hs & H).
  apply int_to_byte_inv in Hd as [Hd ->]. apply int_to_be_inv in Hc as [Hc ->]. rewrite pow256_4 in Hc.
  inversion H; subst. exists s. repeat split; auto; lia.
Qed.

Lemma ser_priv_inv k ver raw :
  ser_priv k ver = Ok raw ->
  0 <= sk_depth k <= 255 /\ 0 <= sk_num k < 4294967296 /\ 0 <= sk k < pow256 33 /\
  raw = ver ++ [sk_depth k] ++ sk_pfp k ++ to_be 4 (sk_num k) ++ sk_cc k ++ to_be 33 (sk k).
Proof.
  unfold ser_priv. intros H.
  apply bind_ok in H as (d & Hd & H). apply bind_ok in H as (c & Hc & H). apply bind_ok in H as (s & Hs & H).
  apply int_to_byte_inv in Hd as [Hd ->]. apply int_to_be_inv in Hc as [Hc ->]. rewrite pow256_4 in Hc.
  apply int_to_be_inv in Hs as [Hs ->].
  inversion H; subst. repeat split; auto; lia.
Qed.

(* ---------------------------------------------------------------- (5) xpub: serialise, then parse *)
Hypothesis sec_roundtrip :
  forall P s, valid C P -> sec P true = Ok s -> parse_point C s = Ok P.

Definition codec_ok_pub (k : hdpub) (ver : bytes) : Prop :=
  known_xpub ver = true /\ length (pk_pfp k) = 4%nat /\ length (pk_cc k) = 32%nat /\ valid C (pk k).

Lemma xpub_roundtrip k ver raw :
  codec_ok_pub k ver -> ser_pub k ver = Ok raw ->
  length raw = 78%nat /\
  parse_pub C raw =
    Ok {| pk := pk k; pk_cc := pk_cc k; pk_depth := pk_depth k; pk_pfp := pk_pfp k;
          pk_num := pk_num k; pk_net := net_of_xpub ver; pk_ver := ver |}.
Proof.
  intros (Hk & Hp & Hc & Hv) Hs.
  pose proof (known_xpub_len ver Hk) as Hvl.
  apply ser_pub_inv in Hs as (s & Hsec & Hd & Hn & ->).
  pose proof (sec_len _ _ Hsec) as Hsl.
  assert (Hlen : length (ver ++ [pk_depth k] ++ pk_pfp k ++ to_be 4 (pk_num k) ++ pk_cc k ++ s) = 78%nat).
  { rewrite !app_length, to_be_length, Hvl, Hp, Hc, Hsl. reflexivity. }
  split; [exact Hlen|].
  unfold parse_pub. rewrite Hlen. cbn [Nat.eqb negb].
  rewrite raw_parse_pub_cat; auto using to_be_length.
  unfold known_xpub in Hk. unfold net_of_xpub.
  rewrite (sec_roundtrip _ _ Hv Hsec).
  rewrite from_be_to_be by (rewrite pow256_4; lia).
  destruct (mem_bytes ver all_testnet_xpubs); cbn [bind]; [reflexivity|].
  cbn [orb] in Hk. rewrite Hk. reflexivity.
Qed.

Lemma ser_pub_ok k ver :
  0 <= pk_depth k <= 255 -> 0 <= pk_num k < 4294967296 -> pk k <> None ->
  exists raw, ser_pub k ver = Ok raw.
Proof.
  intros Hd Hn Hp. unfold ser_pub. rewrite int_to_byte_ok by lia. cbn [bind].
  rewrite int_to_be_ok by (rewrite pow256_4; lia). cbn [bind].
  destruct (sec_some _ Hp) as [s ->]. cbn [bind]. eauto.
Qed.

(* ---------------------------------------------------------------- (5) xprv: serialise, then parse *)
Hypothesis n_256 : n < pow256 32.
Hypothesis n_pos : 2 < n.

Definition codec_ok_priv (k : hdpriv) (ver : bytes) : Prop :=
  known_xprv ver = true /\ length (sk_pfp k) = 4%nat /\ length (sk_cc k) = 32%nat /\
  pubkey C (sk k) = Ok (sk_pt k).

Lemma pubkey_range s P : pubkey C s = Ok P -> 1 <= s <= n - 1.
Proof.
  unfold pubkey. cbv zeta. fold n.
  destruct (n - 1 <? s) eqn:E1; destruct (s <? 1) eqn:E2; cbn [orb]; try discriminate. lia.
Qed.

Lemma default_xpub_known nn : nn = 0 \/ nn = 1 -> exists v, tbl_get tbl_xpub nn = Ok v /\ known_xpub v = true.
Proof. intros [-> | ->]; vm_compute; eauto. Qed.

Lemma xprv_roundtrip k ver raw :
  codec_ok_priv k ver -> ser_priv k ver = Ok raw ->
  length raw = 78%nat /\
  exists pv, tbl_get tbl_xpub (net_of_xprv ver) = Ok pv /\
  parse_priv C raw =
    Ok {| sk := sk k; sk_pt := sk_pt k; sk_cc := sk_cc k; sk_depth := sk_depth k; sk_pfp := sk_pfp k;
          sk_num := sk_num k; sk_net := net_of_xprv ver; sk_ver := ver; sk_pubver := pv |}.
Proof.
  intros (Hk & Hp & Hc & Hpk) Hs.
  pose proof (known_xprv_len ver Hk) as Hvl.
  pose proof (pubkey_range _ _ Hpk) as Hr.
  apply ser_priv_inv in Hs as (Hd & Hn & _ & ->).
  assert (H33 : to_be 33 (sk k) = [0] ++ to_be 32 (sk k)).
  { pose proof (int_to_be_33 (sk k) ltac:(lia)) as H. rewrite int_to_be_ok in H.
    - inversion H. reflexivity.
    - rewrite pow256_S. lia. }
  rewrite H33.
  assert (Hlen : length (ver ++ [sk_depth k] ++ sk_pfp k ++ to_be 4 (sk_num k) ++ sk_cc k ++ [0] ++
                         to_be 32 (sk k)) = 78%nat).
  { rewrite !app_length, !to_be_length, Hvl, Hp, Hc. reflexivity. }
  split; [exact Hlen|].
  assert (Hnet : net_of_xprv ver = 0 \/ net_of_xprv ver = 1)
    by (unfold net_of_xprv; destruct (mem_bytes ver all_testnet_xprvs); auto).
  destruct (default_xpub_known _ Hnet) as (pv & Hpv & _). exists pv. split; [exact Hpv|].
  unfold parse_priv. rewrite Hlen. cbn [Nat.eqb negb].
  rewrite raw_parse_priv_cat; auto using to_be_length.
  change (negb (0 =? 0)) with false. cbv iota.
  rewrite !from_be_to_be by (try rewrite pow256_4; lia).
  unfold known_xprv in Hk. unfold net_of_xprv in *.
  destruct (mem_bytes ver all_testnet_xprvs); cbn [bind].
  - unfold mk_priv. rewrite Hpk, Hpv. reflexivity.
  - cbn [orb] in Hk. rewrite Hk. cbn [bind]. unfold mk_priv. rewrite Hpk, Hpv. reflexivity.
Qed.

(* ---------------------------------------------------------------- byte-level converse *)
Lemma split78 (raw : bytes) :
  length raw = 78%nat ->
  exists ver d pfp cnb cc key,
    raw = ver ++ [d] ++ pfp ++ cnb ++ cc ++ key /\
    length ver = 4%nat /\ length pfp = 4%nat /\ length cnb = 4%nat /\ length cc = 32%nat /\
    length key = 33%nat.
Proof.
  intros H.
  destruct (split_at 4 raw ltac:(lia)) as (ver & r1 & -> & Lv & L1). rewrite H in L1.
  destruct (split_at 1 r1 ltac:(lia)) as (dl & r2 & -> & Ld & L2). rewrite L1 in L2.
  destruct (split_at 4 r2 ltac:(lia)) as (pfp & r3 & -> & Lp & L3). rewrite L2 in L3.
  destruct (split_at 4 r3 ltac:(lia)) as (cnb & r4 & -> & Lc & L4). rewrite L3 in L4.
  destruct (split_at 32 r4 ltac:(lia)) as (cc & key & -> & Lcc & L5). rewrite L4 in L5.
  destruct dl as [|d [|? ?]]; try discriminate.
  exists ver, d, pfp, cnb, cc, key. repeat split; auto.
Qed.

Lemma xprv_parse_serialize raw k :
  bytes_ok raw -> parse_priv C raw = Ok k -> xprv_raw k None = Ok raw.
Proof.
  intros Hb Hp. unfold parse_priv in Hp.
  destruct (length raw =? 78)%nat eqn:E; cbn [negb] in Hp; [|discriminate]. apply Nat.eqb_eq in E.
  destruct (split78 raw E) as (ver & d & pfp & cnb & cc & key & -> & Lv & Lp & Lc & Lcc & Lk).
  destruct key as [|z kb]; [discriminate|]. assert (Lkb : length kb = 32%nat) by (cbn in Lk; lia).
  change (z :: kb) with ([z] ++ kb) in *.
  rewrite raw_parse_priv_cat in Hp by assumption.
  apply bind_ok in Hp as (net' & _ & Hp).
  destruct (z =? 0) eqn:Ez; cbn [negb] in Hp; [|discriminate]. apply Z.eqb_eq in Ez. subst z.
  unfold mk_priv in Hp. apply bind_ok in Hp as (P & HP & Hp). cbn [bind] in Hp.
  apply bind_ok in Hp as (pv & _ & Hp). inversion Hp; subst k. clear Hp.
  unfold xprv_raw, ser_priv. cbn [sk sk_cc sk_depth sk_pfp sk_num sk_ver].
  repeat rewrite bytes_ok_app in Hb. destruct Hb as (_ & Hbd & _ & Hbc & _ & _ & Hbk).
  inversion Hbd as [|? ? Hd0 _]; subst. unfold byte_ok in Hd0.
  rewrite int_to_byte_ok by lia. cbn [bind].
  assert (Hcn : 0 <= from_be cnb < pow256 4).
  { unfold from_be. rewrite <- Lc, <- rev_length. apply from_le_bound, bytes_ok_rev, Hbc. }
  rewrite int_to_be_ok by exact Hcn. cbn [bind].
  assert (Hkn : 0 <= from_be kb < pow256 32).
  { unfold from_be. rewrite <- Lkb, <- rev_length. apply from_le_bound, bytes_ok_rev, Hbk. }
  rewrite (int_to_be_33 _ Hkn). cbn [bind].
  rewrite <- Lc at 1. rewrite (to_be_from_be cnb Hbc).
  rewrite <- Lkb at 1. rewrite (to_be_from_be kb Hbk). reflexivity.
Qed.

Hypothesis p_odd : cp C mod 2 = 1.

Lemma xpub_parse_serialize raw k :
  bytes_ok raw -> parse_pub C raw = Ok k -> xpub_raw k None = Ok raw.
Proof.
  intros Hb Hp. unfold parse_pub in Hp.
  destruct (length raw =? 78)%nat eqn:E; cbn [negb] in Hp; [|discriminate]. apply Nat.eqb_eq in E.
  destruct (split78 raw E) as (ver & d & pfp & cnb & cc & key & -> & Lv & Lp & Lc & Lcc & Lk).
  rewrite raw_parse_pub_cat in Hp by assumption.
  apply bind_ok in Hp as (net' & _ & Hp). apply bind_ok in Hp as (P & HP & Hp).
  unfold mk_pub in Hp. cbn [bind] in Hp. inversion Hp; subst k. clear Hp.
  unfold xpub_raw, ser_pub. cbn [pk pk_cc pk_depth pk_pfp pk_num pk_ver].
  repeat rewrite bytes_ok_app in Hb. destruct Hb as (_ & Hbd & _ & Hbc & _ & Hbk).
  inversion Hbd as [|? ? Hd0 _]; subst. unfold byte_ok in Hd0.
  rewrite int_to_byte_ok by lia. cbn [bind].
  assert (Hcn : 0 <= from_be cnb < pow256 4).
  { unfold from_be. rewrite <- Lc, <- rev_length. apply from_le_bound, bytes_ok_rev, Hbc. }
  rewrite int_to_be_ok by exact Hcn. cbn [bind].
  rewrite (sec_parse_gen C key P p_odd Lk Hbk HP). cbn [bind].
  rewrite <- Lc at 1. rewrite (to_be_from_be cnb Hbc). reflexivity.
Qed.

(* ---------------------------------------------------------------- network does not matter *)
Definition with_net (k : hdpub) (nn : Z) : hdpub :=
  {| pk := pk k; pk_cc := pk_cc k; pk_depth := pk_depth k; pk_pfp := pk_pfp k; pk_num := pk_num k;
     pk_net := nn; pk_ver := pk_ver k |}.

Lemma child_pub_with_net k nn i :
  child_pub C hmac512 hash160 (with_net k nn) i =
  (q <- child_pub C hmac512 hash160 k i ;; Ok (with_net q nn)).
Proof.
  unfold child_pub. cbn [with_net pk pk_cc pk_depth pk_pfp pk_num pk_net pk_ver].
  destruct (hardened <=? i); [reflexivity|]. destruct (i <? 0); [reflexivity|].
  destruct (sec (pk k) true); cbn [bind]; [|reflexivity].
  destruct (int_to_be i 4); cbn [bind]; [|reflexivity].
  destruct (padd_int C (pk k) _); cbn [bind]; [|reflexivity].
  destruct (fingerprint_pt hash160 (pk k)); reflexivity.
Qed.

Lemma derive_pub_with_net l : forall k nn,
  derive_pub C hmac512 hash160 (with_net k nn) l =
  (q <- derive_pub C hmac512 hash160 k l ;; Ok (with_net q nn)).
Proof.
  induction l as [|i r IH]; intros k nn; [reflexivity|].
  cbn [derive_pub]. rewrite child_pub_with_net.
  destruct (child_pub C hmac512 hash160 k i) as [q|]; cbn [bind]; [apply IH | reflexivity].
Qed.

Lemma xpub_raw_with_net k nn v : xpub_raw (with_net k nn) v = xpub_raw k v.
Proof. reflexivity. Qed.

(* ---------------------------------------------------------------- (6) blinding *)
Hypothesis SL : scalar_laws C.

Lemma derive_pub_inf q r c :
  pk q = None -> derive_pub C hmac512 hash160 q r = Ok c -> pk c = None.
Proof.
  intros Hq. destruct r as [|i r]; cbn [derive_pub].
  - intros [= <-]. exact Hq.
  - intros H. apply bind_ok in H as (q1 & H1 & _). unfold child_pub in H1. rewrite Hq in H1.
    destruct (hardened <=? i); [discriminate|]. destruct (i <? 0); discriminate.
Qed.

(* if the public derivation from pub(k) reaches a finite point, the private derivation from k
   succeeds and lands on the same key *)
Lemma derive_commute_rev l : forall k c,
  wf_priv C k -> derive_pub C hmac512 hash160 (pub_of k) l = Ok c -> pk c <> None ->
  exists k', derive_priv C hmac512 hash160 k l = Ok k' /\ pub_of k' = c /\ wf_priv C k'.
Proof.
  induction l as [|i r IH]; intros k c Hwf H Hc.
  - cbn in H. inversion H; subst. exists k. repeat split; auto.
  - cbn [derive_pub] in H. apply bind_ok in H as (q & Hq & Hr).
    assert (Hi : 0 <= i < hardened).
    { destruct (Z_lt_dec i 0); [rewrite ckd_pub_refuses_hardened in Hq by lia; discriminate|].
      destruct (Z_le_dec hardened i); [rewrite ckd_pub_refuses_hardened in Hq by lia; discriminate|]. lia. }
    destruct (ckd_pub_priv_commute C hmac512 hash160 SL k i Hwf Hi) as [Hnz Hz].
    destruct (Z.eq_dec ((IL_normal hmac512 (sk_cc k) (sk_pt k) i + sk k) mod cn C) 0) as [E|E].
    + destruct (Hz E) as (_ & q' & Hq' & Hinf). rewrite Hq in Hq'. inversion Hq'; subst q'.
      exfalso. apply Hc. eapply derive_pub_inf; eauto.
    + destruct (Hnz E) as (k1 & Hc1 & Hwf1 & _ & Hp1). rewrite Hq in Hp1. inversion Hp1; subst q.
      destruct (IH k1 c Hwf1 Hr Hc) as (k' & Hd & He & Hw).
      exists k'. cbn [derive_priv]. rewrite Hc1. cbn [bind]. auto.
Qed.

(* ---------------------------------------------------------------- derived keys are serialisable *)
Section Invariants.
Hypothesis hmac_len : forall key msg, length (hmac512 key msg) = 64%nat.
Hypothesis h160_len : forall b, length (hash160 b) = 20%nat.

Lemma child_pub_fields k i k' :
  child_pub C hmac512 hash160 k i = Ok k' ->
  length (pk_cc k') = 32%nat /\ length (pk_pfp k') = 4%nat /\ pk_ver k' = pk_ver k /\
  pk_depth k' = pk_depth k + 1 /\ pk_num k' = i /\ 0 <= i < hardened /\
  (valid C (pk k) -> valid C (pk k')).
Proof.
  unfold child_pub. destruct (hardened <=? i) eqn:E1; [discriminate|]. destruct (i <? 0) eqn:E2; [discriminate|].
  intros H. apply bind_ok in H as (s & Hs & H). apply bind_ok in H as (b & Hb & H). cbv zeta in H.
  apply bind_ok in H as (P & HP & H). apply bind_ok in H as (fp & Hfp & H). apply Ok_inj in H; subst k'.
  cbn [pk pk_cc pk_pfp pk_ver pk_depth pk_num].
  unfold fingerprint_pt in Hfp. rewrite Hs in Hfp. cbn [bind] in Hfp. apply Ok_inj in Hfp; subst fp.
  rewrite skipn_length, firstn_length, hmac_len, h160_len.
  repeat split; try reflexivity; try lia.
  intros Hv. unfold padd_int in HP.
  destruct (sl_mul_ok C SL (from_be (firstn 32 (hmac512 (pk_cc k) (s ++ b)))) (G C) (sl_G_valid C SL)) as [Hm Hmv].
  rewrite Hm in HP. cbn [bind] in HP.
  destruct (sl_add_ok C SL _ _ Hv Hmv) as [Ha Hav]. rewrite Ha in HP. apply Ok_inj in HP; subst P. exact Hav.
Qed.

Lemma child_priv_fields k i k' :
  child_priv C hmac512 hash160 k i = Ok k' ->
  length (sk_cc k') = 32%nat /\ length (sk_pfp k') = 4%nat /\ sk_ver k' = sk_ver k /\
  sk_pubver k' = sk_pubver k /\ sk_depth k' = sk_depth k + 1 /\ sk_num k' = i /\
  0 <= i < 4294967296 /\ pubkey C (sk k') = Ok (sk_pt k').
Proof.
  intros H.
  assert (Hi : 0 <= i < 4294967296).
  { destruct (Z_lt_dec i 0); [rewrite ckd_priv_refuses_out_of_range in H by lia; discriminate|].
    destruct (Z_le_dec 4294967296 i); [rewrite ckd_priv_refuses_out_of_range in H by lia; discriminate|]. lia. }
  pose proof (child_priv_wf C hmac512 hash160 k i k' H) as Hw.
  unfold child_priv in H. destruct (i <? 0); [discriminate|].
  apply bind_ok in H as (data & _ & H). cbv zeta in H.
  apply bind_ok in H as (P & HP & H). apply bind_ok in H as (fp & Hfp & H). apply Ok_inj in H; subst k'.
  cbn [sk sk_pt sk_cc sk_pfp sk_ver sk_pubver sk_depth sk_num] in *.
  unfold fingerprint_pt in Hfp. apply bind_ok in Hfp as (s & _ & Hfp). apply Ok_inj in Hfp; subst fp.
  rewrite skipn_length, firstn_length, hmac_len, h160_len.
  repeat split; try reflexivity; try lia. exact Hw.
Qed.

Lemma from_seed_fields seed net k :
  from_seed C hmac512 seed net None None = Ok k ->
  length (sk_cc k) = 32%nat /\ length (sk_pfp k) = 4%nat /\ sk_depth k = 0 /\ sk_num k = 0 /\
  known_xprv (sk_ver k) = true /\ known_xpub (sk_pubver k) = true /\
  pubkey C (sk k) = Ok (sk_pt k).
Proof.
  unfold from_seed, mk_priv. intros H.
  apply bind_ok in H as (P & HP & H). apply bind_ok in H as (v & Hv & H). apply bind_ok in H as (pv & Hpv & H).
  apply Ok_inj in H; subst k. cbn [sk sk_pt sk_cc sk_pfp sk_ver sk_pubver sk_depth sk_num].
  rewrite skipn_length, hmac_len.
  assert (Hnet : net = 0 \/ net = 1 \/ net = 2 \/ net = 3).
  { unfold tbl_get in Hv. destruct (net <? 0) eqn:A; destruct (4 <=? net) eqn:B; cbn [orb] in Hv; try discriminate. lia. }
  repeat split; try reflexivity; try exact HP.
  - destruct Hnet as [-> | [-> | [-> | ->]]]; vm_compute in Hv; inversion Hv; reflexivity.
  - destruct Hnet as [-> | [-> | [-> | ->]]]; vm_compute in Hpv; inversion Hpv; reflexivity.
Qed.
End Invariants.

Lemma combine_valid a b z :
  combine_paths a b = Ok z -> is_valid_path a = true /\ is_valid_path b = true.
Proof.
  unfold combine_paths. destruct (is_valid_path a); cbn [negb]; [|discriminate].
  destruct (is_valid_path b); cbn [negb]; [auto | discriminate].
Qed.

Theorem blind_xpub_correct root sp secret ks raw x full :
  wf_priv C root ->
  traverse_priv C hmac512 hash160 root sp = Ok ks ->          (* the key the xpub belongs to *)
  codec_ok_pub (pub_of ks) (sk_pubver ks) ->
  xpub_raw (pub_of ks) None = Ok raw ->                         (* the starting xpub *)
  tidy sp = true -> tidy secret = true ->
  blind_xpub C hmac512 hash160 raw sp secret = Ok (x, full) ->
  combine_paths sp secret = Ok full /\
  exists kf, traverse_priv C hmac512 hash160 root full = Ok kf /\ xpub_raw (pub_of kf) None = Ok x.
Proof.
  intros Hwf Hsp Hok Hraw Tsp Tsec Hb.
  unfold blind_xpub in Hb. apply bind_ok in Hb as (k0 & Hk0 & Hb).
  destruct (negb (pk_depth k0 =? count_c 47 sp)); [discriminate|].
  apply bind_ok in Hb as (c & Hc & Hb). apply bind_ok in Hb as (x' & Hx & Hb).
  apply bind_ok in Hb as (full' & Hfull & Hb). inversion Hb; subst x' full'. clear Hb.
  split; [exact Hfull|].
  (* the parsed key is the starting key, up to the network field *)
  unfold xpub_raw in Hraw. cbn [pub_of pk_ver] in Hraw.
  destruct (xpub_roundtrip _ _ _ Hok Hraw) as (_ & Hparse).
  rewrite Hparse in Hk0.
  assert (Ek0 : k0 = with_net (pub_of ks) (net_of_xpub (sk_pubver ks)))
    by (injection Hk0 as <-; reflexivity).
  clear Hk0. subst k0.
  (* the public walk *)
  rewrite traverse_pub_eq in Hc. apply bind_ok in Hc as (l & Hl & Hd).
  rewrite derive_pub_with_net in Hd. apply bind_ok in Hd as (c' & Hd & Hc'). inversion Hc'; subst c. clear Hc'.
  rewrite xpub_raw_with_net in Hx.
  assert (Hfin : pk c' <> None).
  { intros E. unfold xpub_raw, ser_pub in Hx. rewrite E in Hx.
    destruct (int_to_byte (pk_depth c')); cbn [bind] in Hx; [|discriminate].
    destruct (int_to_be (pk_num c') 4); cbn [bind] in Hx; discriminate. }
  (* the private walk from the root *)
  rewrite traverse_priv_eq in Hsp. apply bind_ok in Hsp as (lsp & Hlsp & Hdsp).
  pose proof (derive_priv_wf C hmac512 hash160 lsp root ks Hwf Hdsp) as Hwfs.
  destruct (derive_commute_rev l ks c' Hwfs Hd Hfin) as (kf & Hkf & Epub & _).
  exists kf. split; [|rewrite Epub; exact Hx].
  destruct (combine_valid _ _ _ Hfull) as [Va Vb].
  destruct (parse_combine comp_index_priv sp secret Va Vb Tsp Tsec) as (z & Hz & Hidx).
  rewrite Hfull in Hz. inversion Hz; subst z. clear Hz.
  pose proof (path_indexes_pub_priv _ _ Hl) as Hl'. rewrite path_indexes_priv_gen in Hl', Hlsp.
  rewrite traverse_priv_eq, path_indexes_priv_gen, Hidx, Hlsp. cbn [bind]. rewrite Hl'. cbn [bind].
  rewrite derive_priv_app, Hdsp. cbn [bind]. exact Hkf.
Qed.

End Codec.
