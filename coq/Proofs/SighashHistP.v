(* Proofs/SighashHistP.v — C05: the memo fields of a Tx object never influence what a digest
   query returns, hence every query of a history returns what a fresh object with the current
   fields returns. *)
From V Require Import Base.Prelude Base.Ints Model.Helper Model.Script Model.Tx Model.Sighash
  Proofs.SighashP.

Ltac nomemo m1 m2 e :=
  lazymatch e with
  | context [m1] => fail
  | context [m2] => fail
  | _ => idtac
  end.
Ltac notctor e :=
  lazymatch e with
  | Ok _ => fail
  | Err => fail
  | Some _ => fail
  | None => fail
  | (_, _) => fail
  | true => fail
  | false => fail
  | _ => idtac
  end.

Ltac indep_step m1 m2 :=
  match goal with
  | |- context [if ?b then _ else _] => nomemo m1 m2 b; notctor b; destruct b eqn:?
  | |- context [bind ?e _] => nomemo m1 m2 e; notctor e; destruct e as [?|] eqn:?
  | |- context [match ?o with Some _ => _ | None => _ end] =>
      nomemo m1 m2 o; notctor o; destruct o eqn:?
  | |- context [let '(_, _) := ?p in _] => nomemo m1 m2 p; notctor p; destruct p
  end.

Ltac indep m1 m2 :=
  repeat (cbn [bind rd rsnd m_hash_prevouts m_hash_sequence m_hash_outputs m_sha_prevouts m_sha_amounts
               m_sha_script_pubkeys m_sha_sequences m_sha_outputs negb andb orb];
          try reflexivity; indep_step m1 m2);
  cbn [bind rd rsnd m_hash_prevouts m_hash_sequence m_hash_outputs m_sha_prevouts m_sha_amounts
       m_sha_script_pubkeys m_sha_sequences m_sha_outputs negb andb orb];
  try reflexivity.

Section S.
Variable hash256 sha256 hash_tapsighash hash_tapleaf : bytes -> bytes.
Variable xonly_ok : bytes -> bool.

Lemma bip143_memo_indep t sp idx redeem wscript ht m1 m2 :
  rsnd (bip143_preimage hash256 t sp idx redeem wscript ht m1) =
  rsnd (bip143_preimage hash256 t sp idx redeem wscript ht m2).
Proof.
  unfold bip143_preimage, hash_sequence, hash_prevouts, hash_outputs, rsnd.
  indep m1 m2.
Qed.

Lemma bip341_memo_indep t sp idx ext ht m1 m2 :
  rsnd (bip341_preimage sha256 hash_tapleaf xonly_ok t sp idx ext ht m1) =
  rsnd (bip341_preimage sha256 hash_tapleaf xonly_ok t sp idx ext ht m2).
Proof.
  unfold bip341_preimage, sha_sequences, sha_script_pubkeys, sha_amounts, sha_prevouts, sha_outputs, rsnd.
  indep m1 m2.
Qed.

Lemma rsnd_map {A B} (r1 r2 : result (memo * A)) (g : A -> B) :
  rsnd r1 = rsnd r2 ->
  rsnd ('(m', s) <- r1 ;; Ok (m', g s)) = rsnd ('(m', s) <- r2 ;; Ok (m', g s)).
Proof.
  unfold rsnd. destruct r1 as [[? ?]|], r2 as [[? ?]|]; cbn; intros H; inversion H; reflexivity.
Qed.

Lemma sig_hash_bip143_indep t sp idx redeem wscript ht m1 m2 :
  rsnd (sig_hash_bip143 hash256 t sp idx redeem wscript ht m1) =
  rsnd (sig_hash_bip143 hash256 t sp idx redeem wscript ht m2).
Proof.
  unfold sig_hash_bip143.
  apply (rsnd_map _ _ (fun s => (s, from_be (hash256 s)))), bip143_memo_indep.
Qed.

Lemma sig_hash_bip341_indep t sp idx ext ht m1 m2 :
  rsnd (sig_hash_bip341 sha256 hash_tapsighash hash_tapleaf xonly_ok t sp idx ext ht m1) =
  rsnd (sig_hash_bip341 sha256 hash_tapsighash hash_tapleaf xonly_ok t sp idx ext ht m2).
Proof.
  unfold sig_hash_bip341.
  apply (rsnd_map _ _ (fun s => (s, hash_tapsighash s))), bip341_memo_indep.
Qed.

Lemma rsnd_map2 {A B} (r1 r2 : result (memo * A)) (g : A -> B) :
  rsnd r1 = rsnd r2 ->
  rsnd ('(m', x) <- r1 ;; Ok (m', g x)) = rsnd ('(m', x) <- r2 ;; Ok (m', g x)).
Proof. apply rsnd_map. Qed.

Lemma sig_hash_indep t sp idx ht m1 m2 :
  rsnd (sig_hash hash256 sha256 hash_tapsighash hash_tapleaf xonly_ok t sp idx ht m1) =
  rsnd (sig_hash hash256 sha256 hash_tapsighash hash_tapleaf xonly_ok t sp idx ht m2).
Proof.
  unfold sig_hash.
  destruct (nth_error (t_ins t) idx) as [ti|]; [|reflexivity].
  destruct (nth_error sp idx) as [s|]; [|reflexivity].
  destruct (sig_hash_plan ti (sp_script s)) as [[redeem|redeem wscript|ext]|]; cbn [bind];
    [| | |reflexivity].
  - destruct (sig_hash_legacy hash256 t sp idx redeem ht) as [[p d]|]; reflexivity.
  - pose proof (sig_hash_bip143_indep t sp idx redeem wscript ht m1 m2) as H.
    unfold rsnd in *.
    destruct (sig_hash_bip143 hash256 t sp idx redeem wscript ht m1) as [[? [? ?]]|],
             (sig_hash_bip143 hash256 t sp idx redeem wscript ht m2) as [[? [? ?]]|];
      cbn in *; inversion H; reflexivity.
  - pose proof (sig_hash_bip341_indep t sp idx ext ht m1 m2) as H.
    unfold rsnd in *.
    destruct (sig_hash_bip341 sha256 hash_tapsighash hash_tapleaf xonly_ok t sp idx ext ht m1) as [[? [? ?]]|],
             (sig_hash_bip341 sha256 hash_tapsighash hash_tapleaf xonly_ok t sp idx ext ht m2) as [[? [? ?]]|];
      cbn in *; inversion H; reflexivity.
Qed.

Notation RQ := (run_query hash256 sha256 hash_tapsighash hash_tapleaf xonly_ok).
Notation STEP := (step hash256 sha256 hash_tapsighash hash_tapleaf xonly_ok).
Notation RUN := (run hash256 sha256 hash_tapsighash hash_tapleaf xonly_ok).

(* what a query returns never depends on the memo fields *)
Lemma run_query_indep a t sp idx ht m1 m2 :
  snd (RQ a t sp idx ht m1) = snd (RQ a t sp idx ht m2).
Proof.
  unfold run_query. destruct a as [redeem|redeem wscript|ext|].
  - destruct (sig_hash_legacy hash256 t sp idx redeem ht) as [[p d]|]; reflexivity.
  - pose proof (sig_hash_bip143_indep t sp idx redeem wscript ht m1 m2) as H.
    unfold rsnd in *.
    destruct (sig_hash_bip143 hash256 t sp idx redeem wscript ht m1) as [[? [? ?]]|],
             (sig_hash_bip143 hash256 t sp idx redeem wscript ht m2) as [[? [? ?]]|];
      cbn in *; inversion H; reflexivity.
  - pose proof (sig_hash_bip341_indep t sp idx ext ht m1 m2) as H.
    unfold rsnd in *.
    destruct (sig_hash_bip341 sha256 hash_tapsighash hash_tapleaf xonly_ok t sp idx ext ht m1) as [[? [? ?]]|],
             (sig_hash_bip341 sha256 hash_tapsighash hash_tapleaf xonly_ok t sp idx ext ht m2) as [[? [? ?]]|];
      cbn in *; inversion H; reflexivity.
  - pose proof (sig_hash_indep t sp idx ht m1 m2) as H. unfold rsnd in *.
    destruct (sig_hash hash256 sha256 hash_tapsighash hash_tapleaf xonly_ok t sp idx ht m1) as [[? ?]|],
             (sig_hash hash256 sha256 hash_tapsighash hash_tapleaf xonly_ok t sp idx ht m2) as [[? ?]|];
      cbn in *; inversion H; reflexivity.
Qed.

(* the same query on a FRESH object (all memo fields None) with the given fields *)
Definition query_fresh (a : alg) (t : tx) (sp : list spent) (idx : nat) (ht : Z) : result sh_out :=
  snd (RQ a t sp idx ht memo_empty).

(* the outputs of a history, computed on fresh objects *)
Fixpoint fresh_outputs (t : tx) (sp : list spent) (ops : list op) : list (result sh_out) :=
  match ops with
  | [] => []
  | Query a idx ht :: r => query_fresh a t sp idx ht :: fresh_outputs t sp r
  | e :: r => let '(t', sp') := apply_edit e t sp in fresh_outputs t' sp' r
  end.

Lemma run_eq_fresh ops : forall st,
  snd (RUN st ops) = fresh_outputs (ob_tx st) (ob_spent st) ops.
Proof.
  induction ops as [|o r IH]; intros st; [reflexivity|].
  cbn [run]. destruct o as [a idx ht|k x|k i s|k sq|lt|k w].
  - cbn [step].
    destruct (RQ a (ob_tx st) (ob_spent st) idx ht (ob_memo st)) as [m' res] eqn:E.
    specialize (IH {| ob_tx := ob_tx st; ob_spent := ob_spent st; ob_memo := m' |}).
    destruct (RUN {| ob_tx := ob_tx st; ob_spent := ob_spent st; ob_memo := m' |} r) as [st2 outs].
    cbn [snd fresh_outputs] in *. rewrite IH. f_equal.
    unfold query_fresh. rewrite <- (run_query_indep a _ _ idx ht (ob_memo st) memo_empty).
    now rewrite E.
  - cbn [step apply_edit fresh_outputs].
    match goal with |- context [RUN ?s r] => specialize (IH s); destruct (RUN s r) end. exact IH.
  - cbn [step apply_edit fresh_outputs].
    match goal with |- context [RUN ?s r] => specialize (IH s); destruct (RUN s r) end. exact IH.
  - cbn [step apply_edit fresh_outputs].
    match goal with |- context [RUN ?s r] => specialize (IH s); destruct (RUN s r) end. exact IH.
  - cbn [step apply_edit fresh_outputs].
    match goal with |- context [RUN ?s r] => specialize (IH s); destruct (RUN s r) end. exact IH.
  - cbn [step apply_edit fresh_outputs].
    match goal with |- context [RUN ?s r] => specialize (IH s); destruct (RUN s r) end. exact IH.
Qed.

(* fold_left form: after ANY history, a query returns what a fresh object with the current
   fields returns *)
Definition state_after (st : txobj) (ops : list op) : txobj :=
  fold_left (fun s o => fst (STEP s o)) ops st.

Lemma query_after_history st ops a idx ht :
  snd (STEP (state_after st ops) (Query a idx ht)) =
  Some (query_fresh a (ob_tx (state_after st ops)) (ob_spent (state_after st ops)) idx ht).
Proof.
  cbn [step]. set (s := state_after st ops).
  destruct (RQ a (ob_tx s) (ob_spent s) idx ht (ob_memo s)) as [m' res] eqn:E. cbn [snd].
  f_equal. unfold query_fresh.
  rewrite <- (run_query_indep a _ _ idx ht (ob_memo s) memo_empty). now rewrite E.
Qed.

(* queries never change the fields: the fields after a history are the edits applied in order *)
Definition fields_after (t : tx) (sp : list spent) (ops : list op) : tx * list spent :=
  fold_left (fun p o => apply_edit o (fst p) (snd p)) ops (t, sp).

Lemma state_after_fields ops : forall st,
  (ob_tx (state_after st ops), ob_spent (state_after st ops)) =
  fields_after (ob_tx st) (ob_spent st) ops.
Proof.
  unfold state_after, fields_after.
  induction ops as [|o r IH]; intros st; [reflexivity|].
  cbn [fold_left]. rewrite IH. f_equal.
  destruct o as [a idx ht|k x|k i s|k sq|lt|k w]; cbn [step apply_edit fst snd]; try reflexivity.
  destruct (RQ a (ob_tx st) (ob_spent st) idx ht (ob_memo st)). reflexivity.
Qed.
End S.
