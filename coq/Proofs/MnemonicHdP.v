(* Proofs/MnemonicHdP.v — HDPrivateKey.from_mnemonic / generate as a user calls them
   (Model/MnemonicHd.v): entropy -> BIP-0039 sentence (any accepted spelling) -> PBKDF2
   (RFC 8018) -> BIP-0032 master key generation (Spec/Bip32.v) -> xprv string.
   The curve is any curve with the scalar laws (toy curve instance in Props/C14.v). *)
From V Require Import Base.Prelude Base.Ints Model.Pecc Model.Base58 Model.Hd Model.HdStr Model.MnemonicHd
  Spec.Bip32 Spec.Bip39S Spec.Pbkdf2S Proofs.GroupHyp Proofs.HdP Proofs.HdPathP
  Generated.Wordlists Generated.HdVersions.
From V Require Model.Mnemonic Model.Pbkdf2 Proofs.MnemonicP Proofs.WordlistP Proofs.C14Glue Proofs.C14Deep.

Lemma tbl_get_default net : 0 <= net < 4 ->
  exists v pv, tbl_get tbl_xprv net = Ok v /\ tbl_get tbl_xpub net = Ok pv.
Proof.
  intros H. assert (E : net = 0 \/ net = 1 \/ net = 2 \/ net = 3) by lia.
  destruct E as [->|[->|[->| ->]]]; eexists; eexists; split; reflexivity.
Qed.

(* the seed -> (key, chain code) step of Model/Pbkdf2.v (the C14 model, order of secp256k1 written
   out) is BIP-0032 master key generation on secp256k1 — no curve arithmetic involved *)
Theorem from_seed_eq_bip32_master (hmac512 : bytes -> bytes -> bytes) :
  (forall k m, bytes_ok (hmac512 k m)) ->
  forall seed,
  Pbkdf2.from_seed hmac512 seed =
  match Bip32.master secp256k1 hmac512 seed with Some (k, c) => Ok (k, c) | None => Err end.
Proof.
  intros Hb seed. unfold Pbkdf2.from_seed, master, parse256. cbv zeta.
  change Bip32.bitcoin_seed with Pbkdf2.s_bitcoin_seed.
  set (I := hmac512 Pbkdf2.s_bitcoin_seed seed).
  assert (H0 : 0 <= from_be (firstn 32 I)).
  { unfold from_be. apply from_le_bound. apply bytes_ok_rev, bytes_ok_firstn, Hb. }
  change (cn secp256k1) with Pbkdf2.secp256k1_N.
  set (k := from_be (firstn 32 I)) in *. set (N := Pbkdf2.secp256k1_N).
  destruct (Z.gtb_spec k (N - 1)) as [A|A]; destruct (Z.ltb_spec k 1) as [B|B];
    destruct (Z.eqb_spec k 0) as [E|E]; destruct (Z.leb_spec N k) as [F|F]; cbn [orb]; try reflexivity; lia.
Qed.

Section P.
  Variable C : curve.
  Hypothesis SL : scalar_laws C.
  Hypothesis n_small : cn C < pow256 32.
  Variable sha256 : bytes -> bytes.
  Variable hmac512 : bytes -> bytes -> bytes.
  Variable hash160 : bytes -> bytes.
  Variable hash256 : bytes -> bytes.

  (* a general path is a traversal from the root that path "m" returns *)
  Theorem hd_from_mnemonic_path words m pw path net ver pv :
    hd_from_mnemonic C sha256 hmac512 hash160 words m pw path net ver pv =
    (root <- hd_from_mnemonic C sha256 hmac512 hash160 words m pw [109] net ver pv ;;
     traverse_priv C hmac512 hash160 root path).
  Proof.
    unfold hd_from_mnemonic.
    destruct (Pbkdf2.mnemonic_seed sha256 hmac512 words m pw) as [seed|]; cbn [bind]; [|reflexivity].
    destruct (Hd.from_seed C hmac512 seed net ver pv) as [root|]; cbn [bind]; [|reflexivity].
    unfold traverse_priv at 2. rewrite path_components_root. reflexivity.
  Qed.

  (* an invalid mnemonic never yields a key, whatever path / network / versions *)
  Theorem hd_from_mnemonic_requires_valid words m pw path net ver pv :
    Mnemonic.mnemonic_to_bytes sha256 words m = Err ->
    hd_from_mnemonic C sha256 hmac512 hash160 words m pw path net ver pv = Err.
  Proof.
    intros H. unfold hd_from_mnemonic, Pbkdf2.mnemonic_seed. now rewrite H.
  Qed.

  Hypothesis sha_ok : forall x, exists h t, sha256 x = h :: t /\ 0 <= h < 256.
  Hypothesis hmac_len : forall k m, zlen (hmac512 k m) = 64.
  Hypothesis hmac_bytes : forall k m, bytes_ok (hmac512 k m).

  (* end to end for the default path: the returned key is the BIP-0032 master key of the
     RFC 8018 seed of the BIP-0039 sentence of e, and xprv() is the Base58Check string of the
     BIP-0032 serialisation of that key (depth 0, zero fingerprint, child number 0) *)
  Theorem hd_from_mnemonic_master : forall e m pw net, MnemonicP.ent_ok e ->
    Forall2 C14Glue.designates (Mnemonic.split_ws m) (bip39_indices sha256 e) ->
    0 <= net < 4 ->
    exists seed v pv,
      pbkdf2 hmac512 64 (bip39_sentence sha256 bip39_words e) (Pbkdf2.s_mnemonic ++ pw) 2048 64 = Ok seed /\
      tbl_get tbl_xprv net = Ok v /\ tbl_get tbl_xpub net = Ok pv /\
      match Bip32.master C hmac512 seed with
      | Some (kM, cM) =>
          exists k,
            hd_from_mnemonic C sha256 hmac512 hash160 bip39_words m pw [109] net None None = Ok k /\
            sk k = kM /\ sk_cc k = cM /\ sk_depth k = 0 /\ sk_num k = 0 /\ sk_pfp k = [0; 0; 0; 0] /\
            sk_net k = net /\ sk_ver k = v /\ sk_pubver k = pv /\ pubkey C kM = Ok (sk_pt k) /\
            xprv_str hash256 k None =
              encode_base58_checksum hash256
                (v ++ [0] ++ [0; 0; 0; 0] ++ [0; 0; 0; 0] ++ cM ++ 0 :: to_be 32 kM)
      | None =>
          hd_from_mnemonic C sha256 hmac512 hash160 bip39_words m pw [109] net None None = Err
      end.
  Proof.
    intros e m pw net He D Hnet.
    destruct (SeedP.kdf_total hmac512 hmac_len (bip39_sentence sha256 bip39_words e)
                (Pbkdf2.s_mnemonic ++ pw)) as (seed & K & _).
    rewrite (SeedP.kdf_eq_rfc8018 hmac512 hmac_len) in K.
    destruct (tbl_get_default net Hnet) as (v & pv & Hv & Hp).
    exists seed, v, pv. split; [exact K|]. split; [exact Hv|]. split; [exact Hp|].
    unfold hd_from_mnemonic.
    rewrite (C14Deep.mnemonic_seed_from_entropy sha256 hmac512 sha_ok hmac_len e m pw He D), K.
    cbn [bind]. unfold master, Hd.from_seed, mk_priv. cbv zeta.
    change Bip32.bitcoin_seed with Hd.bitcoin_seed.
    set (I := hmac512 Hd.bitcoin_seed seed). unfold parse256.
    assert (Hb : 0 <= from_be (firstn 32 I)).
    { unfold from_be. apply from_le_bound. apply bytes_ok_rev, bytes_ok_firstn, hmac_bytes. }
    destruct ((from_be (firstn 32 I) =? 0) || (cn C <=? from_be (firstn 32 I))) eqn:E.
    - rewrite (pubkey_out_of_range C); [reflexivity|].
      apply orb_true_iff in E as [E|E]; [apply Z.eqb_eq in E | apply Z.leb_le in E]; lia.
    - apply orb_false_iff in E as [E1 E2]. apply Z.eqb_neq in E1. apply Z.leb_gt in E2.
      destruct (pubkey_in_range C SL (from_be (firstn 32 I)) ltac:(lia)) as (Hpk & _ & _).
      rewrite Hpk, Hv, Hp. cbn [bind].
      unfold traverse_priv. rewrite path_components_root. cbn [bind trav_priv_loop].
      eexists. split; [reflexivity|].
      cbn [sk sk_pt sk_cc sk_depth sk_num sk_pfp sk_net sk_ver sk_pubver].
      do 9 (split; [reflexivity|]).
      unfold xprv_str, xprv_raw, ser_priv.
      cbn [sk sk_pt sk_cc sk_depth sk_num sk_pfp sk_net sk_ver sk_pubver].
      rewrite int_to_be_33 by lia.
      change (int_to_byte 0) with (Ok [0]). change (int_to_be 0 4) with (Ok [0; 0; 0; 0]).
      cbn [bind]. reflexivity.
  Qed.

  (* generate(): the self-check of secure_mnemonic never fails; the key is from_mnemonic of
     the sentence of randbits(256) ^ (masked extra_entropy ^ clock) *)
  Theorem hd_generate_ok : forall pw extra rnd t net ver pv,
    0 <= extra -> 0 <= rnd < 2 ^ 256 -> 0 <= t < 2 ^ 256 ->
    let e := to_be 32 (Z.lxor rnd (Z.lxor (if Mnemonic.len_bin extra >? 256 + 2
                                           then Z.land extra (Z.shiftl 1 256 - 1) else extra) t)) in
    exists m,
      Mnemonic.secure_mnemonic sha256 bip39_words 256 extra rnd t = Ok m /\
      MnemonicP.ent_ok e /\
      Forall2 C14Glue.designates (Mnemonic.split_ws m) (bip39_indices sha256 e) /\
      hd_generate C sha256 hmac512 hash160 bip39_words pw extra rnd t net ver pv =
        (k <- hd_from_mnemonic C sha256 hmac512 hash160 bip39_words m pw [109] net ver pv ;; Ok (m, k)).
  Proof.
    intros pw extra rnd t net ver pv He Hr Ht e.
    destruct (WordlistP.bip39_secure_mnemonic_ok sha256 sha_ok 256 extra rnd t eq_refl He Hr Ht)
      as (m & S & Dm).
    change (Z.to_nat (256 / 8)) with 32%nat in Dm. fold e in Dm.
    apply (C14Deep.bip39_accept_spec sha256 sha_ok) in Dm as (Ee & D).
    exists m. split; [exact S|]. split; [exact Ee|]. split; [exact D|].
    unfold hd_generate. rewrite S. reflexivity.
  Qed.
End P.

Print Assumptions from_seed_eq_bip32_master.
Print Assumptions hd_from_mnemonic_path.
Print Assumptions hd_from_mnemonic_requires_valid.
Print Assumptions hd_from_mnemonic_master.
Print Assumptions hd_generate_ok.
