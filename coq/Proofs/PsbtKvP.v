(* Proofs/PsbtKvP.v — the generic key-value map layer: round trip and duplicate rejection. *)
From V Require Import Base.Prelude Base.Ints Model.Helper Model.Psbt Proofs.HelperP Proofs.PsbtDictP.

Definition small (b : bytes) : Prop := zlen b < 9223372036854775808.

Lemma read_varstr_zero rest : read_varstr (0 :: rest) = Ok ([], rest).
Proof.
  unfold read_varstr, read_varint. cbn [Z.eqb bind]. cbn.
  unfold readz. cbn. destruct rest; reflexivity.
Qed.

Lemma encode_varstr_nonempty b e : encode_varstr b = Ok e -> (1 <= length e)%nat.
Proof.
  unfold encode_varstr. destruct (encode_varint (zlen b)) as [l|] eqn:E; cbn; [|discriminate].
  intros [= <-]. apply varint_width in E. rewrite app_length.
  destruct E as [[_ H]|[[_ H]|[[_ H]|[_ H]]]]; lia.
Qed.

(* one entry: serialize_key_value and how the two read_varstr calls consume it *)
Lemma kv_split k v e rest :
  small k -> small v -> kv k v = Ok e ->
  exists ev, read_varstr (e ++ rest) = Ok (k, ev ++ rest) /\ read_varstr (ev ++ rest) = Ok (v, rest)
             /\ (1 <= length e)%nat.
Proof.
  intros Hk Hv H. unfold kv in H.
  destruct (varstr_roundtrip v rest Hv) as [ev [Ev Rv]].
  destruct (varstr_roundtrip k (ev ++ rest) Hk) as [ek [Ek Rk]].
  rewrite Ek, Ev in H. cbn in H. inversion H; subst e. exists ev.
  rewrite <- app_assoc. repeat split; try assumption.
  rewrite app_length. apply encode_varstr_nonempty in Ek. lia.
Qed.

Lemma kv_exists k v : small k -> small v -> exists e, kv k v = Ok e.
Proof.
  intros Hk Hv. unfold kv.
  destruct (varstr_roundtrip k [] Hk) as [ek [Ek _]].
  destruct (varstr_roundtrip v [] Hv) as [ev [Ev _]].
  rewrite Ek, Ev. cbn. eauto.
Qed.

Definition entry_ok (e : bytes * bytes) : Prop := fst e <> [] /\ small (fst e) /\ small (snd e).

Definition entries (m : dict bytes) : result bytes :=
  concat_res (map (fun e => kv (fst e) (snd e)) m).

Lemma entries_exists m : Forall entry_ok m -> exists b, entries m = Ok b.
Proof.
  intros H. induction H as [|[k v] r [_ [Hk Hv]] Hr [b IH]]; unfold entries in *; cbn; [eauto|].
  destruct (kv_exists k v Hk Hv) as [e He]. rewrite He, IH. cbn. eauto.
Qed.

(* the loop over a sorted entry list whose keys are not yet in the accumulator *)
Lemma kv_loop_entries m :
  dsorted m -> Forall entry_ok m ->
  forall b acc fuel tail,
    entries m = Ok b ->
    (forall k, In k (dkeys m) -> dget acc k = None) ->
    kv_loop (length m + fuel) (b ++ tail) acc = kv_loop fuel tail (dins acc m) /\ (length m <= length b)%nat.
Proof.
  intros Hs. induction Hs as [|k v r Hall Hs IH]; intros Hok b acc fuel tail Hb Hfresh.
  - unfold entries in Hb. cbn in Hb. inversion Hb; subst. cbn. split; [reflexivity|lia].
  - inversion Hok as [|? ? [Hne [Hk Hv]] Hok']; subst. cbn in Hne, Hk, Hv.
    unfold entries in Hb. cbn [map concat_res fst snd] in Hb.
    destruct (kv k v) as [e|] eqn:Ee; cbn in Hb; [|discriminate].
    destruct (concat_res (map (fun e0 => kv (fst e0) (snd e0)) r)) as [b'|] eqn:Eb; cbn in Hb; [|discriminate].
    inversion Hb; subst b.
    destruct (kv_split k v e (b' ++ tail) Hk Hv Ee) as [ev [R1 [R2 Hlen]]].
    assert (Hstep : kv_loop (length ((k, v) :: r) + fuel) ((e ++ b') ++ tail) acc
                    = kv_loop (length r + fuel) (b' ++ tail) (dset k v acc)).
    { cbn [length plus kv_loop]. rewrite <- app_assoc, R1. cbn [bind].
      destruct k as [|k0 k']; [now elim Hne|].
      rewrite (Hfresh (k0 :: k')) by (cbn; now left). cbn [truthy_bytes].
      rewrite R2. reflexivity. }
    rewrite Hstep.
    destruct (IH Hok' b' (dset k v acc) fuel tail Eb) as [IH1 IH2].
    + intros k1 Hin. rewrite dget_dset_other.
      * apply Hfresh. cbn. now right.
      * intros ->. unfold dkeys in Hin. apply in_map_iff in Hin as [[k2 v2] [E2 Hin]]. cbn in E2. subst k2.
        rewrite Forall_forall in Hall. specialize (Hall _ Hin). cbn in Hall. rewrite bcmp_refl in Hall. discriminate.
    + split; [exact IH1|]. cbn [length]. rewrite app_length. lia.
Qed.

Lemma kv_loop_fuel_end fuel tail acc : kv_loop (S fuel) (0 :: tail) acc = Ok (acc, tail).
Proof. cbn [kv_loop]. rewrite read_varstr_zero. reflexivity. Qed.

Lemma entries_length m b :
  dsorted m -> Forall entry_ok m -> entries m = Ok b -> (length m <= length b)%nat.
Proof.
  intros Hs Hok Hb.
  now destruct (kv_loop_entries m Hs Hok b [] O [] Hb (fun _ _ => eq_refl)) as [_ L].
Qed.

(* (1) every sorted map with non-empty keys round-trips, for any trailing bytes *)
Lemma kv_map_roundtrip m :
  dsorted m -> Forall entry_ok m ->
  exists b, kv_serialize m = Ok b /\ forall rest, kv_parse (b ++ rest) = Ok (m, rest).
Proof.
  intros Hs Hok. destruct (entries_exists m Hok) as [b Hb].
  pose proof (entries_length m b Hs Hok Hb) as L.
  exists (b ++ [0]). split.
  - unfold kv_serialize. unfold entries in Hb. rewrite Hb. reflexivity.
  - intros rest. unfold kv_parse. rewrite <- app_assoc.
    replace (S (length (b ++ [0] ++ rest))) with (length m + S (length b - length m + length rest + 1))%nat
      by (rewrite !app_length; cbn; lia).
    destruct (kv_loop_entries m Hs Hok b [] (S (length b - length m + length rest + 1)) ([0] ++ rest) Hb
                (fun _ _ => eq_refl)) as [H1 _].
    rewrite H1. cbn [app]. rewrite kv_loop_fuel_end. now rewrite dins_nil_sorted.
Qed.

(* a key that is already present with a non-empty value is rejected *)
Lemma kv_duplicate_rejected m k v v' :
  dsorted m -> Forall entry_ok m -> dget m k = Some v -> v <> [] -> small k -> small v' ->
  forall b e, entries m = Ok b -> kv k v' = Ok e ->
  forall tail, kv_parse (b ++ e ++ tail) = Err.
Proof.
  intros Hs Hok Hget Hv Hk Hv' b e Hb He tail. unfold kv_parse.
  pose proof (entries_length m b Hs Hok Hb) as L.
  destruct (kv_split k v' e tail Hk Hv' He) as [ev [R1 [_ Hlen]]].
  replace (S (length (b ++ e ++ tail))) with (length m + S (length b - length m + length e + length tail))%nat
    by (rewrite !app_length; lia).
  destruct (kv_loop_entries m Hs Hok b [] (S (length b - length m + length e + length tail)) (e ++ tail) Hb
              (fun _ _ => eq_refl)) as [H1 _].
  rewrite H1.
  cbn [kv_loop]. rewrite R1. cbn [bind].
  assert (Hk0 : k <> []).
  { intros ->. rewrite Forall_forall in Hok. clear - Hget Hok.
    induction m as [|[k1 v1] r IH]; cbn [dget] in Hget; [discriminate|].
    destruct (bcmp [] k1) eqn:E.
    - apply bcmp_eq in E. subst. destruct (Hok ([], v1)) as [H _]; [now left|]. now elim H.
    - apply IH; [|exact Hget]. intros x Hx. apply Hok. now right.
    - apply IH; [|exact Hget]. intros x Hx. apply Hok. now right. }
  destruct k as [|k0 k']; [now elim Hk0|].
  rewrite dins_nil_sorted by exact Hs. rewrite Hget.
  destruct v; [now elim Hv|]. reflexivity.
Qed.
