(* Proofs/C03P.v — the group identities of property C03 stated on the model functions themselves
   (rmul = S256Point.__rmul__, padd = Point.__add__: results are [Ok _], never an exception),
   derived from [group_laws C] through Proofs/ScalarOfGroup.v. *)
From Coq Require Import Znumtheory.
From V Require Import Base.Prelude Base.Ints Model.Pecc Proofs.GroupHyp Proofs.ScalarOfGroup.

Section Ids.
Variable C : curve.
Hypothesis GL : group_laws C.
Let n := cn C.
Let p := cp C.

Lemma rmul_ok k P : valid C P -> rmul C k P = Ok (mulT C k P) /\ valid C (mulT C k P).
Proof. intros HP. exact (sl_mul_ok C (scalar_of_group C GL) k P HP). Qed.

(* (a+b)P = aP + bP, all four operations succeed, the result is a curve point *)
Theorem scalar_mul_add a b P : valid C P ->
  exists A B S, rmul C a P = Ok A /\ rmul C b P = Ok B /\ padd C A B = Ok S /\
                rmul C (a + b) P = Ok S /\ valid C S.
Proof.
  intros HP. destruct (rmul_ok a P HP) as [Ea Va]. destruct (rmul_ok b P HP) as [Eb Vb].
  destruct (rmul_ok (a + b) P HP) as [Es Vs].
  exists (mulT C a P), (mulT C b P), (mulT C (a + b) P). repeat split; try assumption.
  rewrite (mulT_add C GL a b P HP). exact (padd_ok C GL _ _ Va Vb).
Qed.

(* a(bP) = (ab)P *)
Theorem scalar_mul_mul a b P : valid C P ->
  exists B R, rmul C b P = Ok B /\ rmul C a B = Ok R /\ rmul C (a * b) P = Ok R /\ valid C R.
Proof.
  intros HP. destruct (rmul_ok b P HP) as [Eb Vb]. destruct (rmul_ok a _ Vb) as [Ea Va].
  destruct (rmul_ok (a * b) P HP) as [Es Vs].
  exists (mulT C b P), (mulT C a (mulT C b P)). repeat split; try assumption.
  now rewrite (mulT_mul C GL a b P HP).
Qed.

(* nP = infinity, and scalars only matter mod n: negative ones and ones >= 2^256 included *)
Theorem scalar_order k j P : valid C P ->
  rmul C n P = Ok None /\ rmul C (k + j * n) P = rmul C k P /\ rmul C k P = rmul C (k mod n) P.
Proof.
  intros HP. pose proof (n_pos C GL) as Hn. fold n in Hn. unfold rmul. fold n.
  rewrite Z.mod_same by lia. rewrite Z.mod_add by lia. rewrite Z.mod_mod by lia.
  repeat split; reflexivity.
Qed.

(* P + (-P) = infinity, -P = (x, p - y) = (-1) * P = (n-1) * P *)
Theorem add_opposite x y : valid C (Some (x, y)) ->
  padd C (Some (x, y)) (Some (x, (- y) mod p)) = Ok None /\
  valid C (Some (x, (- y) mod p)) /\
  rmul C (-1) (Some (x, y)) = Ok (Some (x, (- y) mod p)) /\
  rmul C (n - 1) (Some (x, y)) = Ok (Some (x, (- y) mod p)).
Proof.
  intros HP. pose proof (neg_valid C GL _ HP) as HN. pose proof (add_neg C GL _ HP) as E.
  change (negT C (Some (x, y))) with (Some (x, (- y) mod p)) in *.
  pose proof (padd_ok C GL _ _ HP HN) as E2. rewrite E in E2.
  destruct (rmul_ok (-1) _ HP) as [E3 _]. rewrite (mulT_neg1 C GL _ HP) in E3.
  change (negT C (Some (x, y))) with (Some (x, (- y) mod p)) in E3.
  destruct (scalar_order (-1) 1 _ HP) as (_ & E4 & _).
  replace (-1 + 1 * n) with (n - 1) in E4 by lia.
  split; [exact E2|]. split; [exact HN|]. split; [exact E3|]. exact (eq_trans E4 E3).
Qed.

(* P + P = 2P *)
Theorem double_is_add_self P : valid C P ->
  exists D, padd C P P = Ok D /\ rmul C 2 P = Ok D /\ valid C D.
Proof.
  intros HP. destruct (rmul_ok 2 P HP) as [E2 V2]. pose proof (mulT_add C GL 1 1 P HP) as E.
  change (1 + 1) with 2 in E. pose proof (sl_mul_1 C (scalar_of_group C GL) P HP) as E1.
  rewrite E1 in E. exists (mulT C 2 P). repeat split; try assumption.
  rewrite E. exact (padd_ok C GL _ _ HP HP).
Qed.

(* P + t (S256Point.__add__ with an int): P + tG *)
Theorem padd_int_ok P t : valid C P ->
  exists R, padd_int C P t = Ok R /\ R = addT C P (mulT C t (G C)) /\ valid C R.
Proof.
  intros HP. destruct (rmul_ok t (G C) (gl_G_valid C GL)) as [E V].
  exists (addT C P (mulT C t (G C))). unfold padd_int. rewrite E. cbn [bind].
  split; [exact (padd_ok C GL _ _ HP V)|]. split; [reflexivity|]. exact (add_valid C GL _ _ HP V).
Qed.

End Ids.
