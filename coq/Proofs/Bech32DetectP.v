(* Proofs/Bech32DetectP.v — a segwit address with one or two substituted data-part
   characters is rejected by decode_bech32.  Symbolic part: XOR-linearity (Base/Lfsr.v);
   finite part: Proofs/Bech32Sweep.v (all error positions < 90). *)
From V Require Import Base.Prelude Base.Ints Base.Lfsr Model.Base58 Model.Bech32
  Proofs.Base58P Proofs.PolymodP Proofs.Bech32Sweep.

(* number of positions at which two texts differ *)
Fixpoint hamming (a b : list Z) : nat :=
  match a, b with
  | x :: a', y :: b' => ((if Z.eqb x y then 0 else 1) + hamming a' b')%nat
  | _, _ => 0%nat
  end.

(* the part of decode_bech32 after the human-readable part has been split off *)
Definition decode_body (hrp raw_data : list Z) : result (Z * Z * bytes) :=
  network <- net_for_prefix hrp ;;
  data <- mapr bech32_index raw_data ;;
  match data with
  | [] => Err
  | version :: _ =>
      let ok := if version =? 0 then bech32_verify_checksum hrp data
                else bech32m_verify_checksum hrp data in
      if negb ok then Err
      else
        let number := number_of (firstn (length data - 7)%nat (skipn 1 data)) in
        let num_bytes := (zlen data - 7) * 5 / 8 in
        let bits_to_ignore := (zlen data - 7) * 5 mod 8 in
        if (4 <? bits_to_ignore) || negb (Z.land number (Z.shiftl 1 bits_to_ignore - 1) =? 0)
        then Err
        else
        let number := Z.shiftr number bits_to_ignore in
        if num_bytes <? 0 then Err
        else
          h <- int_to_be number (Z.to_nat num_bytes) ;;
          if (num_bytes <? 2) || (40 <? num_bytes) then Err
          else Ok (network, version, h)
  end.

Definition known_hrp (hrp : list Z) : Prop := hrp = hrp_bc \/ hrp = hrp_tb \/ hrp = hrp_bcrt.

Lemma prefix_known net hrp : prefix_of net = Ok hrp -> known_hrp hrp.
Proof.
  unfold prefix_of, known_hrp. destruct (net =? 0); [intros [= <-]; auto|].
  destruct ((net =? 1) || (net =? 2)); [intros [= <-]; auto|].
  destruct (net =? 3); [intros [= <-]; auto|discriminate].
Qed.

(* how decode_bech32 splits a string hrp ++ "1" ++ d *)
Lemma decode_split hrp d : known_hrp hrp ->
  decode_bech32 (hrp ++ [49] ++ d) =
    if beq hrp hrp_bcrt then decode_body hrp d
    else if existsb (Z.eqb 49) d then Err else decode_body hrp d.
Proof.
  intros [-> | [-> | ->]]; unfold decode_bech32, decode_body; cbn [app hrp_bc hrp_tb hrp_bcrt].
  - change (starts_with hrp_bcrt1 (98 :: 99 :: 49 :: d)) with false. cbn iota.
    unfold split_one. cbn [split_at]. change (98 =? 49) with false. change (99 =? 49) with false.
    change (49 =? 49) with true. cbn iota.
    change (beq [98; 99] [98; 99; 114; 116]) with false. cbn iota.
    destruct (existsb (Z.eqb 49) d); reflexivity.
  - change (starts_with hrp_bcrt1 (116 :: 98 :: 49 :: d)) with false. cbn iota.
    unfold split_one. cbn [split_at]. change (116 =? 49) with false. change (98 =? 49) with false.
    change (49 =? 49) with true. cbn iota.
    change (beq [116; 98] [98; 99; 114; 116]) with false. cbn iota.
    destruct (existsb (Z.eqb 49) d); reflexivity.
  - change (starts_with hrp_bcrt1 (98 :: 99 :: 114 :: 116 :: 49 :: d)) with true. cbn iota.
    reflexivity.
Qed.

Lemma one_not_bech32 : ~ In 49 bech32_alphabet.
Proof. vm_compute. intuition discriminate. Qed.

Lemma existsb_in c d : existsb (Z.eqb c) d = true -> In c d.
Proof.
  intros H. apply existsb_exists in H as [x [Hx E]]. apply Z.eqb_eq in E. now subst.
Qed.

(* a character outside the alphabet anywhere in the data part: rejected *)
Lemma decode_bad_char hrp d : known_hrp hrp ->
  (exists c, In c d /\ ~ In c bech32_alphabet) -> decode_bech32 (hrp ++ [49] ++ d) = Err.
Proof.
  intros HK HB. rewrite (decode_split hrp d HK).
  assert (E : decode_body hrp d = Err).
  { unfold decode_body. destruct (net_for_prefix hrp); [|reflexivity]. cbn [bind].
    now rewrite (mapr_index_bad d HB). }
  rewrite E. destruct (beq hrp hrp_bcrt); [reflexivity|]. now destruct (existsb _ d).
Qed.

Lemma b32c_inj x y : sym5 x -> sym5 y -> b32c x = b32c y -> x = y.
Proof.
  intros Hx Hy E. pose proof (bech32_index_char x Hx) as A. rewrite E in A.
  rewrite (bech32_index_char y Hy) in A. congruence.
Qed.

Lemma hamming_weight a b : Forall sym5 a -> Forall sym5 b -> length a = length b ->
  hamming (map b32c a) (map b32c b) = weight (xorl a b).
Proof.
  revert b; induction a as [|x a IH]; intros [|y b] Ha Hb HL; cbn in HL; try discriminate;
    [reflexivity|].
  inversion Ha as [|? ? Hx Ha']; inversion Hb as [|? ? Hy Hb']; subst.
  cbn [map hamming xorl]. rewrite (IH b Ha' Hb' ltac:(congruence)).
  destruct (Z.eq_dec x y) as [->|NE].
  - rewrite Z.eqb_refl, Z.lxor_nilpotent, weight_cons_0. reflexivity.
  - destruct (b32c x =? b32c y) eqn:E.
    + apply Z.eqb_eq in E. exfalso. apply NE. apply b32c_inj; assumption.
    + rewrite weight_cons_nz; [reflexivity|]. intros E0. apply Z.lxor_eq in E0. contradiction.
Qed.

Lemma xorl_sym_ok a b : Forall sym5 a -> Forall sym5 b -> Forall (sym_ok 5) (xorl a b).
Proof.
  revert b; induction a as [|x a IH]; intros [|y b] Ha Hb; cbn [xorl]; try constructor.
  - inversion Ha; inversion Hb; subst. unfold sym_ok, sym5 in *.
    apply (lxor_bound 5); lia.
  - inversion Ha; inversion Hb; subst. apply IH; assumption.
Qed.

Definition const_of (version : Z) : Z := if version =? 0 then 1 else BECH32M_CONSTANT.

Lemma verify_const version hrp data :
  (if version =? 0 then bech32_verify_checksum hrp data else bech32m_verify_checksum hrp data)
  = (bech32_polymod (hrp_expand hrp ++ data) =? const_of version).
Proof. unfold const_of. destruct (version =? 0); reflexivity. Qed.

Lemma const_diff v v' :
  Z.lxor (const_of v) (const_of v') = 0 \/ Z.lxor (const_of v) (const_of v') = CONFUSION.
Proof. unfold const_of. destruct (v =? 0), (v' =? 0); vm_compute; auto. Qed.

(* Main theorem.  [data] is the symbol string of a valid address (version symbol first,
   checksum last); [d'] is a text of the same length that differs from the address's data
   part in one or two positions; the human-readable part and the separator are unchanged.
   The explicit bound 90 is the window covered by the kernel sweep. *)
Theorem bech32_detects_two hrp data d' :
  known_hrp hrp ->
  Forall sym5 data ->
  (length data <= 90)%nat ->
  bech32_polymod (hrp_expand hrp ++ data) = const_of (hd 0 data) ->
  length d' = length data ->
  (1 <= hamming (map b32c data) d' <= 2)%nat ->
  decode_bech32 (hrp ++ [49] ++ d') = Err.
Proof.
  intros HK HD HL HV HLen HH.
  destruct (mapr bech32_index d') as [data'|] eqn:EM.
  2:{ (* some character is not in the alphabet *)
      rewrite (decode_split hrp d' HK).
      assert (E : decode_body hrp d' = Err).
      { unfold decode_body. destruct (net_for_prefix hrp); [|reflexivity]. cbn [bind].
        now rewrite EM. }
      rewrite E. destruct (beq hrp hrp_bcrt); [reflexivity|]. now destruct (existsb _ d'). }
  destruct (mapr_index_inv d' data' EM) as [HD' ->].
  rewrite map_length in HLen.
  rewrite (decode_split hrp _ HK).
  assert (E : decode_body hrp (map b32c data') = Err).
  { unfold decode_body. destruct (net_for_prefix hrp); [|reflexivity]. cbn [bind].
    rewrite EM. cbn [bind]. destruct data' as [|v' r']; [reflexivity|].
    rewrite verify_const.
    set (es := xorl data (v' :: r')).
    assert (Hes : length data = length es) by (unfold es; rewrite xorl_length; congruence).
    assert (EX : v' :: r' = xorl data es) by (unfold es; now rewrite xorl_self_inv).
    rewrite EX at 1. rewrite polymod_run, run_app, run_error by exact Hes.
    rewrite <- run_app, <- polymod_run, HV.
    rewrite hamming_weight in HH by (auto; congruence). fold es in HH.
    assert (HF : Forall (sym_ok 5) es) by (apply xorl_sym_ok; assumption).
    destruct (sweep_detects GEN 25 5 90 CONFUSION bech32_sweep_90 es ltac:(lia) HF HH) as [N0 NK].
    destruct (Z.lxor (const_of (hd 0 data)) (syn GEN 25 5 es) =? const_of v') eqn:EQ; [|reflexivity].
    exfalso. apply Z.eqb_eq in EQ.
    assert (S : syn GEN 25 5 es = Z.lxor (const_of (hd 0 data)) (const_of v')).
    { rewrite <- EQ, <- Z.lxor_assoc, Z.lxor_nilpotent. now rewrite Z.lxor_0_l. }
    destruct (const_diff (hd 0 data) v') as [D|D]; rewrite D in S; contradiction. }
  rewrite E. destruct (beq hrp hrp_bcrt); [reflexivity|]. now destruct (existsb _ _).
Qed.
