(* Proofs/Base64P.v — base64: decode (encode b) = b for every byte string; the encoder's output is
   canonical text (alphabet and '=' only, length a multiple of four); the decoder's leniency. *)
From V Require Import Base.Prelude Base.Ints Model.Helper Model.Base64.

Lemma sextets_ok :
  forallb (fun i => match b64_val (b64_char i) with Some j => (j =? i) | None => false end
                    && negb (b64_char i =? 61) && (b64_char i <? 128))
          (map Z.of_nat (seq 0 64)) = true.
Proof. vm_compute. reflexivity. Qed.

Lemma sextet i : 0 <= i < 64 ->
  b64_val (b64_char i) = Some i /\ (b64_char i =? 61) = false /\ b64_char i < 128.
Proof.
  intros H. pose proof sextets_ok as F. rewrite forallb_forall in F.
  assert (Hin : In i (map Z.of_nat (seq 0 64))).
  { apply in_map_iff. exists (Z.to_nat i). split; [lia|]. apply in_seq. lia. }
  specialize (F i Hin). apply andb_true_iff in F as [F F3]. apply andb_true_iff in F as [F1 F2].
  destruct (b64_val (b64_char i)) as [j|]; [|discriminate]. apply Z.eqb_eq in F1. subst j.
  split; [reflexivity|]. split; [now apply negb_true_iff in F2|now apply Z.ltb_lt].
Qed.

(* one step of the decoder on a data character *)
Lemma loop_data i r qp left pads acc : 0 <= i < 64 ->
  b64_loop (b64_char i :: r) qp left pads acc =
    if qp =? 0 then b64_loop r 1 i 0 acc
    else if qp =? 1 then b64_loop r 2 (i mod 16) 0 ((left * 4 + i / 16) :: acc)
    else if qp =? 2 then b64_loop r 3 (i mod 4) 0 ((left * 16 + i / 4) :: acc)
    else b64_loop r 0 0 0 ((left * 64 + i) :: acc).
Proof.
  intros H. destruct (sextet i H) as (H1 & H2 & _). cbn [b64_loop]. now rewrite H2, H1.
Qed.

Ltac dm := Z.div_mod_to_equations; lia.

Lemma quad x y z r acc :
  0 <= x < 256 -> 0 <= y < 256 -> 0 <= z < 256 ->
  b64_loop (b64_char (x / 4) :: b64_char ((x mod 4) * 16 + y / 16)
              :: b64_char ((y mod 16) * 4 + z / 64) :: b64_char (z mod 64) :: r) 0 0 0 acc
  = b64_loop r 0 0 0 (z :: y :: x :: acc).
Proof.
  intros Hx Hy Hz.
  rewrite loop_data; [|dm]. cbn [Z.eqb Pos.eqb].
  rewrite loop_data; [|dm]. cbn [Z.eqb Pos.eqb].
  rewrite loop_data; [|dm]. cbn [Z.eqb Pos.eqb].
  rewrite loop_data; [|dm]. cbn [Z.eqb Pos.eqb].
  repeat f_equal; dm.
Qed.

Lemma loop_pad2 left acc : b64_loop [61; 61] 2 left 0 acc = Ok (rev acc).
Proof. reflexivity. Qed.
Lemma loop_pad1 left acc : b64_loop [61] 3 left 0 acc = Ok (rev acc).
Proof. reflexivity. Qed.

Lemma b64_roundtrip_gen : forall n b acc, (length b <= n)%nat -> (forall w, In w b -> 0 <= w < 256) ->
  b64_loop (b64_encode b) 0 0 0 acc = Ok (rev acc ++ b).
Proof.
  induction n as [|n IH]; intros b acc L Hb.
  - destruct b; [|cbn in L; lia]. cbn. now rewrite app_nil_r.
  - destruct b as [|x [|y [|z r]]].
    + cbn. now rewrite app_nil_r.
    + assert (Hx : 0 <= x < 256) by (apply Hb; now left).
      cbn [b64_encode]. rewrite loop_data; [|dm]. cbn [Z.eqb Pos.eqb]. rewrite loop_data; [|dm]. cbn [Z.eqb Pos.eqb].
      rewrite loop_pad2. cbn [rev]. rewrite <- ?app_assoc. cbn [app]. repeat f_equal; dm.
    + assert (Hx : 0 <= x < 256) by (apply Hb; now left).
      assert (Hy : 0 <= y < 256) by (apply Hb; right; now left).
      cbn [b64_encode]. rewrite loop_data; [|dm]. cbn [Z.eqb Pos.eqb]. rewrite loop_data; [|dm]. cbn [Z.eqb Pos.eqb].
      rewrite loop_data; [|dm]. cbn [Z.eqb Pos.eqb]. rewrite loop_pad1. cbn [rev]. rewrite <- ?app_assoc. cbn [app]. repeat f_equal; dm.
    + assert (Hx : 0 <= x < 256) by (apply Hb; now left).
      assert (Hy : 0 <= y < 256) by (apply Hb; right; now left).
      assert (Hz : 0 <= z < 256) by (apply Hb; right; right; now left).
      cbn [b64_encode]. rewrite quad by assumption.
      rewrite IH.
      * cbn [rev]. rewrite <- !app_assoc. reflexivity.
      * cbn in L. lia.
      * intros w Hw. apply Hb. right; right; right. exact Hw.
Qed.

Theorem b64_roundtrip b : bytes_ok b -> b64_decode_bytes (b64_encode b) = Ok b.
Proof.
  intros H. unfold b64_decode_bytes. rewrite (b64_roundtrip_gen (length b) b []); [reflexivity|lia|].
  intros w Hw. exact (proj1 (Forall_forall _ _) H w Hw).
Qed.

(* the encoder emits ASCII only, so the str path of b64decode (helper.base64_decode is handed a str
   by PSBT.parse_base64's callers) agrees *)
Lemma b64_encode_ascii : forall n b, (length b <= n)%nat -> (forall w, In w b -> 0 <= w < 256) ->
  Forall (fun c => c < 128) (b64_encode b).
Proof.
  induction n as [|n IH]; intros b L Hb.
  - destruct b; [constructor|cbn in L; lia].
  - destruct b as [|x [|y [|z r]]]; [constructor| | |].
    + assert (Hx : 0 <= x < 256) by (apply Hb; now left). cbn [b64_encode].
      repeat constructor; try lia; apply sextet; dm.
    + assert (Hx : 0 <= x < 256) by (apply Hb; now left).
      assert (Hy : 0 <= y < 256) by (apply Hb; right; now left). cbn [b64_encode].
      repeat constructor; try lia; apply sextet; dm.
    + assert (Hx : 0 <= x < 256) by (apply Hb; now left).
      assert (Hy : 0 <= y < 256) by (apply Hb; right; now left).
      assert (Hz : 0 <= z < 256) by (apply Hb; right; right; now left). cbn [b64_encode].
      constructor; [apply sextet; dm|]. constructor; [apply sextet; dm|].
      constructor; [apply sextet; dm|]. constructor; [apply sextet; dm|].
      apply IH; [cbn in L; lia|]. intros w Hw. apply Hb. right; right; right. exact Hw.
Qed.

Theorem b64_roundtrip_str b : bytes_ok b -> b64_decode_str (b64_encode b) = Ok b.
Proof.
  intros H. unfold b64_decode_str.
  replace (existsb (fun c => 128 <=? c) (b64_encode b)) with false; [now apply b64_roundtrip|].
  symmetry. apply not_true_is_false. intros E. apply existsb_exists in E as [c [Hc E]].
  pose proof (b64_encode_ascii (length b) b (Nat.le_refl _) (proj1 (Forall_forall _ _) H)) as F. rewrite Forall_forall in F.
  specialize (F c Hc). apply Z.leb_le in E. lia.
Qed.

Lemma b64_encode_length : forall n b, (length b <= n)%nat ->
  length (b64_encode b) = (4 * ((length b + 2) / 3))%nat.
Proof.
  induction n as [|n IH]; intros b L.
  - destruct b; [reflexivity|cbn in L; lia].
  - destruct b as [|x [|y [|z r]]]; try reflexivity.
    cbn [b64_encode length]. rewrite IH by (cbn in L; lia).
    replace (S (S (S (length r))) + 2)%nat with (length r + 2 + 1 * 3)%nat by lia.
    rewrite Nat.div_add by lia. lia.
Qed.

(* the decoder is lenient: text that no encoder produces is accepted, and different texts decode to
   the same bytes (junk outside the alphabet is skipped, everything after a complete padding is
   ignored, surplus '=' is ignored) *)
Theorem b64_decode_not_injective_refuted :
  b64_decode_bytes [81; 81; 61; 61] = Ok [65] /\                         (* "QQ==" *)
  b64_decode_bytes [81; 81; 61; 61; 81; 85; 74; 68] = Ok [65] /\         (* "QQ==QUJD" *)
  b64_decode_bytes [81; 33; 81; 10; 61; 32; 61] = Ok [65] /\             (* "Q!Q\n= =" *)
  b64_decode_bytes [61; 81; 82; 61; 61; 61] = Ok [65] /\                 (* "=QR===": non-zero trailing bits *)
  b64_decode_bytes [81; 81; 61] = Err /\ b64_decode_bytes [81] = Err.   (* incomplete padding is refused *)
Proof. repeat split; vm_compute; reflexivity. Qed.
