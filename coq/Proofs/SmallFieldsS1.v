(* exhaustive field-law sweep (elements, pairs, triples of F_p) for the primes 3 <= p < 68 *)
From V Require Import Base.Prelude Model.Pecc Proofs.CurveSweep Proofs.SmallFields.
Lemma field_range_3_68 : chk_field_range 3 65 = true.
Proof. vm_cast_no_check (eq_refl true). Qed.
