(* Proofs/SighashToyP.v — C05 non-vacuity: the signature sites of Model/SighashSig.v run inside Coq
   on the toy curve of Proofs/ToyCurve.v (y^2 = x^3 + 7 over F_43, group order 31), with toy
   "hashes" (truncations) and a constant "HMAC" (RFC 6979 then yields the nonce 2): signing and
   verifying one P2WPKH input, and a 2-of-2 P2WSH multisig whose two signatures carry DIFFERENT
   hash types. *)
From V Require Import Base.Prelude Base.Ints Model.Helper Model.Script Model.Op Model.Interp
  Model.Pecc Model.Taproot Model.Verify Model.Tx Model.Sighash Model.SighashSig
  Proofs.ToyCurve Proofs.SighashP Proofs.SighashCorP Proofs.SighashSigP.

Definition toy_hm (k m : bytes) : bytes := repeatz 0 31 ++ [2].
Definition toy_h160 (b : bytes) : bytes := firstn 20 (b ++ repeatz 0 20).
Definition toy_h256 (b : bytes) : bytes := firstn 32 (rev b ++ repeatz 0 32).
Definition toy_prims : sigprims := pecc_prims toy toy_hm idh 10.
Definition toy_sec (d : Z) : bytes := match pr_sec toy_prims d true with Ok s => s | Err => [] end.

(* ---- one P2WPKH input, key 5 ---- *)
Definition toy_spent : list spent :=
  [ {| sp_value := 100000; sp_script := mk_script (p2wpkh_script (toy_h160 (toy_sec 5))) |};
    {| sp_value := 200000; sp_script := mk_script (p2tr_script ex_x32) |} ].
Definition toy_tx : tx :=
  {| t_version := 2; t_ins := [in_with_wit [] ex_in0; ex_in1]; t_outs := [ex_out 5000];
     t_locktime := 0; t_segwit := true |}.
Definition toy_sig : bytes := [48; 6; 2; 1; 7; 2; 1; 8; 1].      (* DER(r = 7, s = 8) || SIGHASH_ALL *)

Lemma toy_sign_p2wpkh :
  pr_sec toy_prims 5 true = Ok (toy_sec 5) /\ length (toy_h160 (toy_sec 5)) = 20%nat /\
  get_sig_segwit toy_h256 toy_prims toy_tx toy_spent 0 memo_empty 5 None None = Ok toy_sig /\
  (forall p z der,
     rsnd (sig_hash_bip143 toy_h256 toy_tx toy_spent 0 None None 1 memo_empty) = Ok (p, z) ->
     pr_sign toy_prims 5 (DInt z) = Ok der -> pr_ecdsa toy_prims (toy_sec 5) der (DInt z) = Ok true) /\
  sign_p2wpkh toy_h256 idh idh idh (fun _ => true) toy_prims toy idh idh toy_h160
    toy_tx toy_spent 0 memo_empty 5 true =
  Ok (tx_upd_in toy_tx 0 (fun i => in_with_wit [toy_sig; toy_sec 5] (in_with_script empty_script i)), OTrue).
Proof.
  split; [vm_compute; reflexivity|]. split; [vm_compute; reflexivity|].
  split; [vm_compute; reflexivity|]. split.
  - intros p z der H. vm_compute in H. inversion H; subst p z. clear H.
    intros H. vm_compute in H. inversion H; subst der. vm_compute. reflexivity.
  - vm_compute. reflexivity.
Qed.

(* ---- 2-of-2 multisig in a P2WSH witness script, keys 5 and 3 ---- *)
Definition toy_ws_cmds : list cmd := [Op 82; Push (toy_sec 5); Push (toy_sec 3); Op 82; Op 174].
Definition toy_ws : bytes := match ser_cmds toy_ws_cmds with Ok b => b | Err => [] end.
Definition toy_spent2 : list spent :=
  [ {| sp_value := 100000; sp_script := mk_script (p2wsh_script (repeatz 4 32)) |};
    {| sp_value := 200000; sp_script := mk_script (p2tr_script ex_x32) |} ].
Definition toy_tx2 : tx :=
  {| t_version := 2; t_ins := [in_with_wit [[]; [1]; [1]; toy_ws] ex_in0; ex_in1];
     t_outs := [ex_out 5000; ex_out 7]; t_locktime := 0; t_segwit := true |}.
Definition toy_so : sigops :=
  tx_sigops toy_h256 idh idh idh (fun _ => true) toy_prims toy_tx2 toy_spent2 0 memo_empty.
(* a signature by key d over the digest of hash type ht_digest, labelled ht_label *)
Definition toy_sgn (d ht_digest ht_label : Z) : bytes :=
  match tx_digest toy_h256 idh idh idh (fun _ => true) toy_tx2 toy_spent2 0 memo_empty ht_digest with
  | Ok z => match pr_sign toy_prims d z with Ok der => der ++ [ht_label] | Err => [] end
  | Err => []
  end.
(* top first: n, keys in pop order, m, signatures in pop order, the extra element *)
Definition toy_stack (s1 s2 : bytes) : stack := [[2]; toy_sec 3; toy_sec 5; [2]; s2; s1; []].

Lemma toy_multisig_mixed_hash_types :
  (* ALL and NONE|ANYONECANPAY in one input: accepted *)
  op_checkmultisig toy_so (toy_stack (toy_sgn 5 1 1) (toy_sgn 3 130 130)) = Ok [[1]] /\
  (* SINGLE and NONE: accepted *)
  op_checkmultisig toy_so (toy_stack (toy_sgn 5 3 3) (toy_sgn 3 2 2)) = Ok [[1]] /\
  (* the same signatures with their hash type bytes exchanged, or one relabelled: rejected *)
  op_checkmultisig toy_so (toy_stack (toy_sgn 5 1 130) (toy_sgn 3 130 1)) = Err /\
  op_checkmultisig toy_so (toy_stack (toy_sgn 5 1 1) (toy_sgn 3 130 1)) = Err /\
  (* the four digests involved are pairwise different *)
  NoDup (map (fun ht => tx_digest toy_h256 idh idh idh (fun _ => true) toy_tx2 toy_spent2 0 memo_empty ht)
             [1; 2; 3; 130]).
Proof.
  split; [vm_compute; reflexivity|]. split; [vm_compute; reflexivity|].
  split; [vm_compute; reflexivity|]. split; [vm_compute; reflexivity|].
  vm_compute. repeat constructor; cbn; intuition discriminate.
Qed.
