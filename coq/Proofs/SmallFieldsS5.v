(* exhaustive field-law sweep (elements, pairs, triples of F_p) for the primes 98 <= p < 102 *)
From V Require Import Base.Prelude Model.Pecc Proofs.CurveSweep Proofs.SmallFields.
Lemma field_range_98_102 : chk_field_range 98 4 = true.
Proof. vm_cast_no_check (eq_refl true). Qed.
