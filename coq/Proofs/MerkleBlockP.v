(* Proofs/MerkleBlockP.v — MerkleBlock.is_valid level statements: flag-bit packing,
   completeness, soundness with authenticated total, and the free-total forgery. *)
From V Require Import Base.Prelude Base.Ints Model.Merkle Model.MerkleBlock Spec.Bip37
  Proofs.MerkleP Proofs.Bip37P.

(* ------------------------------------------------------------------ *)
(* BitsToBytes (spec) read back by bytes_to_bit_field (model) *)

Lemma bits_byte_scale : forall c w, bits_byte c (2 * w) = 2 * bits_byte c w.
Proof.
  induction c as [|b c IH]; intros w; cbn [bits_byte]; [lia|].
  rewrite IH. destruct b; lia.
Qed.

Lemma byte_bits_zero k : byte_bits k 0 = repeat 0 k.
Proof.
  induction k as [|k IH]; [reflexivity|]. cbn [byte_bits repeat].
  change (Z.land 0 1) with 0. change (Z.shiftr 0 1) with 0. now rewrite IH.
Qed.

Lemma land1_shiftr1 b x : (b = 0 \/ b = 1) -> Z.land (b + 2 * x) 1 = b /\ Z.shiftr (b + 2 * x) 1 = x.
Proof.
  intros Hb. split.
  - change (Z.land (b + 2 * x) 1) with (Z.land (b + 2 * x) (Z.ones 1)). rewrite Z.land_ones by lia.
    change (2 ^ 1) with 2. replace (b + 2 * x) with (b + x * 2) by lia. rewrite Z.mod_add by lia.
    apply Z.mod_small. lia.
  - rewrite Z.shiftr_div_pow2 by lia. change (2 ^ 1) with 2.
    replace (b + 2 * x) with (b + x * 2) by lia. rewrite Z.div_add by lia.
    rewrite Z.div_small by lia. lia.
Qed.

Lemma byte_bits_pack : forall k c, (length c <= k)%nat ->
  byte_bits k (bits_byte c 1) = map b2z c ++ repeat 0 (k - length c).
Proof.
  induction k as [|k IH]; intros c H.
  - destruct c; [reflexivity | cbn in H; lia].
  - destruct c as [|b c].
    + cbn [bits_byte map app length]. rewrite Nat.sub_0_r. apply byte_bits_zero.
    + cbn [bits_byte byte_bits]. rewrite (bits_byte_scale c 1).
      destruct (land1_shiftr1 (if b then 1 else 0) (bits_byte c 1)) as [E1 E2]; [destruct b; auto|].
      rewrite E1, E2, IH by (cbn in H; lia). cbn [map length Nat.sub app]. destruct b; reflexivity.
Qed.

Lemma bit_field_of_bits_to_bytes : forall fuel bits, (length bits <= fuel)%nat ->
  exists k, bytes_to_bit_field (bits_to_bytes fuel bits) = map b2z bits ++ repeat 0 k.
Proof.
  induction fuel as [|fuel IH]; intros bits H.
  - destruct bits; [|cbn in H; lia]. exists 0%nat. reflexivity.
  - destruct bits as [|b0 bits0] eqn:EB.
    + exists 0%nat. reflexivity.
    + rewrite <- EB in *. assert (bits <> []) as Hne by (rewrite EB; discriminate).
      assert (bits_to_bytes (S fuel) bits =
              bits_byte (firstn 8 bits) 1 :: bits_to_bytes fuel (skipn 8 bits)) as ->.
      { rewrite EB. reflexivity. }
      unfold bytes_to_bit_field. cbn [flat_map]. fold (bytes_to_bit_field (bits_to_bytes fuel (skipn 8 bits))).
      rewrite byte_bits_pack by (rewrite firstn_length; lia).
      destruct (Nat.le_gt_cases 8 (length bits)) as [L|L].
      * destruct (IH (skipn 8 bits)) as [k Hk]; [rewrite skipn_length; lia|].
        exists k. rewrite Hk, firstn_length, Nat.min_l by lia. cbn [Nat.sub repeat app].
        rewrite app_nil_r, app_assoc, <- map_app, firstn_skipn. reflexivity.
      * rewrite skipn_all2 by lia. rewrite firstn_all2 by lia.
        exists (8 - length bits)%nat.
        assert (bits_to_bytes fuel [] = []) as -> by (destruct fuel; reflexivity).
        cbn [bytes_to_bit_field flat_map]. now rewrite app_nil_r.
Qed.

Lemma forallb_zero_repeat k : forallb (fun b => b =? 0) (repeat 0 k) = true.
Proof. induction k; [reflexivity|]. cbn. exact IHk. Qed.

Lemma sel_map {A B} (f : A -> B) l m : sel (map f l) m = map f (sel l m).
Proof.
  unfold sel. revert m; induction l as [|x l IH]; intros [|y m]; try reflexivity.
  cbn [map combine filter snd]. destruct y; cbn [map fst]; now rewrite IH.
Qed.

Lemma map_rev_rev (l : list bytes) : map (@rev Z) (map (@rev Z) l) = l.
Proof. rewrite map_map. rewrite <- (map_id l) at 2. apply map_ext. intros a. apply rev_involutive. Qed.

Lemma rev_inj (a b : bytes) : rev a = rev b -> a = b.
Proof. intros H. rewrite <- (rev_involutive a), <- (rev_involutive b). now rewrite H. Qed.

Section MBP.
Variable hash256 : bytes -> bytes.

(* ------------------------------------------------------------------ *)
(* (2) completeness: an honestly built proof validates and yields the matched ids in order *)
Lemma all32_map_rev (hs : list bytes) : all32 (map (@rev Z) hs) = all32 hs.
Proof.
  unfold all32. induction hs as [|x r IH]; [reflexivity|]. cbn [map forallb]. now rewrite rev_length, IH.
Qed.

(* since 5e35f6e populate_tree rejects hashes that are not 32 bytes long, so completeness is
   stated for what Bitcoin has: a 32-byte hash function and 32-byte transaction ids *)
Lemma proof_complete :
  (forall x, length (hash256 x) = 32%nat) ->
  forall (ids : list bytes) (matches : list bool),
  ids <> [] -> Forall (fun t => length t = 32%nat) ids -> length matches = length ids ->
  let txids := map (@rev Z) ids in
  let '(total, hashes, flags) := bip37_proof hash256 txids matches in
  total = zlen ids /\
  mb_is_valid_rec hash256 (rev (consensus_root hash256 txids)) total (map (@rev Z) hashes) flags
  = Ok (true, sel ids matches).
Proof.
  intros HL ids matches Hne Hids Hlen txids. unfold bip37_proof.
  destruct (build hash256 txids matches) as [bits hashes] eqn:EB.
  split; [unfold zlen, txids; now rewrite map_length|].
  unfold mb_is_valid_rec, mb_is_valid_with. rewrite map_rev_rev.
  destruct (bit_field_of_bits_to_bytes (length bits) bits (le_n _)) as [k Hk]. rewrite Hk.
  assert (length txids = length ids) as HLn by (unfold txids; apply map_length).
  assert (1 <= length txids)%nat as Hn.
  { rewrite HLn. destruct ids; [congruence | cbn; lia]. }
  assert (Forall (fun t => length t = 32%nat) txids) as HT.
  { unfold txids. rewrite Forall_forall in *. intros t Ht. apply in_map_iff in Ht as [u [<- Hu]].
    rewrite rev_length. auto. }
  destruct (build_props hash256 txids HL HT matches Hn) as [H32 _].
  apply all32_Forall in H32.
  pose proof (build_complete hash256 txids matches ltac:(lia) Hn H32 (repeat 0 k) (forallb_zero_repeat k)) as HB.
  rewrite EB in HB. cbn [fst snd] in HB. unfold zlen. rewrite HB. cbn [bind].
  rewrite beq_refl. unfold txids. now rewrite sel_map, map_rev_rev.
Qed.

(* ------------------------------------------------------------------ *)
(* (3) soundness with known total *)
Lemma proof_sound_known_total :
  (forall x, length (hash256 x) = 32%nat) ->
  forall (ids : list bytes) hdr_root hashes flags proved,
  ids <> [] -> Forall (fun t => length t = 32%nat) ids ->
  Forall (fun t => length t = 32%nat) hashes ->
  validate_merkle_root hash256 hdr_root ids = Ok true ->
  mb_is_valid_rec hash256 hdr_root (zlen ids) hashes flags = Ok (true, proved) ->
  (forall m, In m proved -> In m ids) \/
  (exists x y : bytes, x <> y /\ hash256 x = hash256 y).
Proof.
  intros HL ids hdr_root hashes flags proved Hne Hids Hhs HV HP.
  rewrite validate_merkle_root_eq in HV by exact Hne. injection HV as HV. apply beq_eq in HV.
  unfold mb_is_valid_rec, mb_is_valid_with in HP.
  destruct (populate_tree_rec hash256 (zlen ids) (bytes_to_bit_field flags) (map (@rev Z) hashes))
    as [[root pr]|] eqn:EP; [|discriminate].
  cbn [bind] in HP. injection HP as HB <-. apply beq_eq in HB.
  set (txids := map (@rev Z) ids).
  assert (zlen ids = Z.of_nat (length txids)) as EZ by (unfold zlen, txids; now rewrite map_length).
  rewrite EZ in EP.
  assert (root = consensus_root hash256 txids) as ER.
  { apply rev_inj. rewrite HB, <- HV. reflexivity. }
  assert (Forall (fun t => length t = 32%nat) txids) as HT.
  { unfold txids. rewrite Forall_forall in *. intros t Ht. apply in_map_iff in Ht as [u [<- Hu]].
    rewrite rev_length. auto. }
  assert (Forall (fun t => length t = 32%nat) (map (@rev Z) hashes)) as HH.
  { rewrite Forall_forall in *. intros t Ht. apply in_map_iff in Ht as [u [<- Hu]].
    rewrite rev_length. auto. }
  assert (1 <= length txids)%nat as Hn.
  { unfold txids. rewrite map_length. destruct ids; [congruence | cbn; lia]. }
  destruct (populate_sound hash256 txids HL HT _ _ _ _ Hn HH EP ER) as [S|C]; [left | right; exact C].
  intros m Hm. specialize (S m Hm). unfold txids in S. now rewrite map_rev_rev in S.
Qed.

(* ------------------------------------------------------------------ *)
(* (4) with the attacker-chosen total an interior node is accepted as a transaction id.
   Block with two transactions a, b (display order); the message announces total = 1 and
   presents the root itself as the only "transaction".  Holds for the cursor machine and
   for the recursive traversal, for every hash function. *)
Lemma forged_total_2_as_1 : (forall x, length (hash256 x) = 32%nat) -> forall a b : bytes,
  let ids := [a; b] in
  let node := hash256 (rev a ++ rev b) in          (* the root: an interior node *)
  validate_merkle_root hash256 (rev node) ids = Ok true /\
  mb_is_valid hash256 (rev node) 1 [rev node] [1] = Ok (true, [rev node]) /\
  mb_is_valid_rec hash256 (rev node) 1 [rev node] [1] = Ok (true, [rev node]).
Proof.
  intros HL a b ids node.
  assert (all32 [node] = true) as A by (unfold all32, node; cbn [forallb]; now rewrite HL).
  repeat split.
  - rewrite validate_merkle_root_eq by discriminate.
    assert (consensus_root hash256 (map (@rev Z) ids) = node) as -> by reflexivity.
    now rewrite beq_refl.
  - unfold mb_is_valid, mb_is_valid_with.
    assert (populate_tree hash256 1 (bytes_to_bit_field [1]) (map (@rev Z) [rev node]) =
            Ok (node, [rev node])) as ->.
    { cbn [map]. rewrite rev_involutive. unfold populate_tree. rewrite A. reflexivity. }
    cbn [bind]. now rewrite beq_refl.
  - unfold mb_is_valid_rec, mb_is_valid_with.
    assert (populate_tree_rec hash256 1 (bytes_to_bit_field [1]) (map (@rev Z) [rev node]) =
            Ok (node, [rev node])) as ->.
    { cbn [map]. rewrite rev_involutive. unfold populate_tree_rec. rewrite A. reflexivity. }
    cbn [bind]. now rewrite beq_refl.
Qed.

(* four transactions presented as total = 2: the two level-1 nodes are "proved" *)
Lemma forged_total_4_as_2 : (forall x, length (hash256 x) = 32%nat) -> forall a b c d : bytes,
  let ids := [a; b; c; d] in
  let n1 := hash256 (rev a ++ rev b) in
  let n2 := hash256 (rev c ++ rev d) in
  let root := hash256 (n1 ++ n2) in
  validate_merkle_root hash256 (rev root) ids = Ok true /\
  mb_is_valid hash256 (rev root) 2 [rev n1; rev n2] [7] = Ok (true, [rev n1; rev n2]) /\
  mb_is_valid_rec hash256 (rev root) 2 [rev n1; rev n2] [7] = Ok (true, [rev n1; rev n2]).
Proof.
  intros HL a b c d ids n1 n2 root.
  assert (all32 [n1; n2] = true) as A by (unfold all32, n1, n2; cbn [forallb]; now rewrite !HL).
  repeat split.
  - rewrite validate_merkle_root_eq by discriminate.
    assert (consensus_root hash256 (map (@rev Z) ids) = root) as -> by reflexivity.
    now rewrite beq_refl.
  - unfold mb_is_valid, mb_is_valid_with.
    assert (populate_tree hash256 2 (bytes_to_bit_field [7]) (map (@rev Z) [rev n1; rev n2]) =
            Ok (root, [rev n1; rev n2])) as ->.
    { cbn [map]. rewrite !rev_involutive. unfold populate_tree. rewrite A. reflexivity. }
    cbn [bind]. now rewrite beq_refl.
  - unfold mb_is_valid_rec, mb_is_valid_with.
    assert (populate_tree_rec hash256 2 (bytes_to_bit_field [7]) (map (@rev Z) [rev n1; rev n2]) =
            Ok (root, [rev n1; rev n2])) as ->.
    { cbn [map]. rewrite !rev_involutive. unfold populate_tree_rec. rewrite A. reflexivity. }
    cbn [bind]. now rewrite beq_refl.
Qed.

(* hashes of a length other than 32 (only possible for a MerkleBlock object that was not
   produced by MerkleBlock.parse) are rejected since 5e35f6e: is_valid raises; conversely a
   proof that is_valid returns a value for has only 32-byte hashes *)
Lemma is_valid_rejects_bad_length : forall hdr_root total hashes flags,
  ~ Forall (fun t => length t = 32%nat) hashes ->
  mb_is_valid hash256 hdr_root total hashes flags = Err /\
  mb_is_valid_rec hash256 hdr_root total hashes flags = Err.
Proof.
  intros hdr_root total hashes flags HN.
  assert (all32 (map (@rev Z) hashes) = false) as A.
  { rewrite all32_map_rev. destruct (all32 hashes) eqn:E; [|reflexivity].
    exfalso. apply HN. now apply all32_Forall. }
  unfold mb_is_valid, mb_is_valid_rec, mb_is_valid_with, populate_tree, populate_tree_rec.
  rewrite A. cbn [negb]. split.
  - destruct (mt_init total); reflexivity.
  - destruct (total <? 1); reflexivity.
Qed.

Lemma is_valid_ok_32 : forall hdr_root total hashes flags r,
  mb_is_valid hash256 hdr_root total hashes flags = Ok r ->
  Forall (fun t => length t = 32%nat) hashes.
Proof.
  intros hdr_root total hashes flags r H.
  destruct (all32 hashes) eqn:E; [now apply all32_Forall|]. exfalso.
  assert (~ Forall (fun t => length t = 32%nat) hashes) as HN.
  { intros F. apply all32_Forall in F. congruence. }
  destruct (is_valid_rejects_bad_length hdr_root total hashes flags HN) as [E1 _]. congruence.
Qed.

Lemma is_valid_rec_ok_32 : forall hdr_root total hashes flags r,
  mb_is_valid_rec hash256 hdr_root total hashes flags = Ok r ->
  Forall (fun t => length t = 32%nat) hashes.
Proof.
  intros hdr_root total hashes flags r H.
  destruct (all32 hashes) eqn:E; [now apply all32_Forall|]. exfalso.
  assert (~ Forall (fun t => length t = 32%nat) hashes) as HN.
  { intros F. apply all32_Forall in F. congruence. }
  destruct (is_valid_rejects_bad_length hdr_root total hashes flags HN) as [_ E2]. congruence.
Qed.

(* (3) without the premise on the proof's hashes *)
Lemma proof_sound_known_total_nolen :
  (forall x, length (hash256 x) = 32%nat) ->
  forall (ids : list bytes) hdr_root hashes flags proved,
  ids <> [] -> Forall (fun t => length t = 32%nat) ids ->
  validate_merkle_root hash256 hdr_root ids = Ok true ->
  mb_is_valid_rec hash256 hdr_root (zlen ids) hashes flags = Ok (true, proved) ->
  (forall m, In m proved -> In m ids) \/
  (exists x y : bytes, x <> y /\ hash256 x = hash256 y).
Proof.
  intros HL ids hdr_root hashes flags proved Hne Hids HV HP.
  exact (proof_sound_known_total HL ids hdr_root hashes flags proved Hne Hids
           (is_valid_rec_ok_32 _ _ _ _ _ HP) HV HP).
Qed.

(* the former witness of K-C17-hashlen: a 33- and a 31-byte hash for a 2-transaction block *)
Lemma split_hash_length_rejected : forall (la lb' : bytes) (x : Z),
  length (la ++ [x]) <> 32%nat ->
  let root := hash256 (la ++ x :: lb') in
  mb_is_valid hash256 (rev root) 2 [rev (la ++ [x]); rev lb'] [7] = Err /\
  mb_is_valid_rec hash256 (rev root) 2 [rev (la ++ [x]); rev lb'] [7] = Err.
Proof.
  intros la lb' x HN root. apply is_valid_rejects_bad_length.
  intros F. inversion F as [|? ? H1 _]; subst. rewrite rev_length in H1. contradiction.
Qed.
End MBP.
