(* Proofs/TxP.v — witness / txin / txout / tx round trips, txid facts (C04). *)
From V Require Import Base.Prelude Base.Ints Model.Helper Model.Script Model.Tx
  Proofs.HelperP Proofs.ScriptP.

Ltac split_andb :=
  repeat match goal with
         | H : _ && _ = true |- _ => apply andb_true_iff in H; destruct H
         end.

(* ================= small facts ================= *)
Lemma u32b_range n : u32b n = true -> 0 <= n < pow256 4.
Proof. unfold u32b. rewrite pow256_4. lia. Qed.
Lemma u64b_range n : u64b n = true -> 0 <= n < pow256 8.
Proof. unfold u64b. rewrite pow256_8. lia. Qed.

Lemma varint_nonempty i b : encode_varint i = Ok b -> (1 <= length b)%nat.
Proof.
  intros H. destruct (varint_width _ _ H) as [[_ E]|[[_ E]|[[_ E]|[_ E]]]]; rewrite E; lia.
Qed.

Lemma ser_cmd_size c a : ser_cmd c = Ok a -> zlen a <= cmd_size c.
Proof.
  destruct c as [o|d]; cbn [ser_cmd cmd_size].
  - destruct ((o <? 0) || (255 <? o)); [discriminate|]. intros [= <-]. rewrite zlen_cons, zlen_nil. lia.
  - destruct (zlen d <=? 75); [intros [= <-]; rewrite zlen_cons; lia|].
    destruct (zlen d <? 256); [intros [= <-]; rewrite !zlen_cons; lia|].
    destruct (zlen d <=? 520); [|discriminate]. intros H.
    assert (a = 77 :: to_le 2 (zlen d) ++ d) as -> by congruence.
    rewrite zlen_cons, zlen_app, zlen_to_le. lia.
Qed.

Lemma ser_cmds_size cs : forall b, ser_cmds cs = Ok b -> zlen b <= cmds_size cs.
Proof.
  induction cs as [|c r IH]; cbn [ser_cmds cmds_size]; intros b H.
  - inversion H. rewrite zlen_nil. lia.
  - apply bind_ok in H as [a [Ha H]]. apply bind_ok in H as [b' [Hb H]]. inversion H; subst b.
    rewrite zlen_app. pose proof (ser_cmd_size _ _ Ha). pose proof (IH _ Hb). lia.
Qed.

Lemma script_wf_inv s :
  script_wfb s = true ->
  s = mk_script (s_cmds s) /\ cmds_wfb (s_cmds s) = true /\ cmds_size (s_cmds s) < 9223372036854775808.
Proof.
  unfold script_wfb. destruct s as [cs [raw|]]; cbn [s_raw s_cmds]; [discriminate|].
  intros H. split_andb. split; [reflexivity|]. split; [assumption|lia].
Qed.

(* a well-formed script through the length-prefixed codec *)
Lemma script_wf_roundtrip s :
  script_wfb s = true ->
  exists e, serialize_script s = Ok e /\ (1 <= length e)%nat /\
    forall rest, parse_script (e ++ rest) = Ok (canon_script s, rest).
Proof.
  intros W. destruct (script_wf_inv s W) as [Es [Wc Wl]].
  destruct (script_roundtrip _ Wc) as [b [Hb _]].
  pose proof (ser_cmds_size _ _ Hb) as Hs.
  destruct (script_stream_roundtrip _ Wc b Hb) as [e [He [Le Hp]]]; [lia|].
  exists e. rewrite Es. split; [exact He|]. split; [exact Le|]. exact Hp.
Qed.

Lemma canon_script_strict s :
  script_wfb s = true -> cmds_strictb (s_cmds s) = true -> canon_script s = s.
Proof.
  intros W S. destruct (script_wf_inv s W) as [Es _]. unfold canon_script.
  rewrite canon_cmds_strict by exact S. now symmetry.
Qed.

(* ================= witness ================= *)
Lemma witness_loop_eq fuel n s acc :
  witness_loop fuel n s acc =
  if n <=? 0 then Ok (rev acc, s)
  else match fuel with
       | O => Err
       | S f => '(it, r) <- read_varstr s ;; witness_loop f (n - 1) r (it :: acc)
       end.
Proof. destruct fuel; reflexivity. Qed.

Lemma witness_items_roundtrip items :
  forallb (fun it => len63b it) items = true ->
  exists b, witness_items items = Ok b /\ (length items <= length b)%nat /\
    forall fuel rest acc, (length items <= fuel)%nat ->
      witness_loop fuel (zlen items) (b ++ rest) acc = Ok (rev acc ++ items, rest).
Proof.
  induction items as [|it r IH]; intros W.
  - exists []. split; [reflexivity|]. split; [cbn; lia|]. intros fuel rest acc _.
    rewrite witness_loop_eq. cbn. now rewrite app_nil_r.
  - cbn [forallb] in W. split_andb.
    destruct IH as [b [Hb [Lb Hloop]]]; [assumption|].
    unfold len63b in *.
    destruct (varstr_roundtrip it [] ) as [e [He _]]; [lia|].
    exists (e ++ b). split; [cbn [witness_items]; rewrite He, Hb; reflexivity|].
    assert (1 <= length e)%nat as Le.
    { unfold encode_varstr in He. apply bind_ok in He as [l [Hl He]]. inversion He.
      rewrite app_length. pose proof (varint_nonempty _ _ Hl). lia. }
    split; [rewrite app_length; cbn [length]; lia|].
    intros fuel rest acc Hf. cbn [length] in Hf. destruct fuel as [|f]; [lia|].
    rewrite witness_loop_eq. rewrite zlen_cons.
    replace (1 + zlen r <=? 0) with false by (pose proof (zlen_nonneg r); lia).
    rewrite <- app_assoc.
    destruct (varstr_roundtrip it (b ++ rest)) as [e' [He' Hr]]; [lia|].
    rewrite He in He'. inversion He'; subst e'. rewrite Hr. cbn [bind].
    replace (1 + zlen r - 1) with (zlen r) by lia. rewrite Hloop by lia.
    cbn [rev]. now rewrite <- app_assoc.
Qed.

Lemma witness_roundtrip items :
  lenb items = true -> forallb (fun it => len63b it) items = true ->
  exists b, witness_serialize items = Ok b /\ (1 <= length b)%nat /\
    forall rest, witness_parse (b ++ rest) = Ok (items, rest).
Proof.
  intros L W. destruct (witness_items_roundtrip items W) as [wb [Hwb [Lwb Hloop]]].
  unfold lenb in L.
  destruct (varint_roundtrip (zlen items) []) as [n [Hn _]]; [pose proof (zlen_nonneg items); lia|].
  exists (n ++ wb). unfold witness_serialize. rewrite Hn, Hwb. split; [reflexivity|].
  pose proof (varint_nonempty _ _ Hn) as Ln. split; [rewrite app_length; lia|].
  intros rest. unfold witness_parse. rewrite <- app_assoc.
  destruct (varint_roundtrip (zlen items) (wb ++ rest)) as [n' [Hn' Hr]];
    [pose proof (zlen_nonneg items); lia|].
  rewrite Hn in Hn'. inversion Hn'; subst n'. rewrite Hr. cbn [bind].
  rewrite Hloop by (rewrite app_length; lia). reflexivity.
Qed.

(* ================= txin ================= *)
Lemma txin_roundtrip i :
  txin_wfb i = true ->
  exists b, txin_serialize i = Ok b /\ (1 <= length b)%nat /\
    forall rest, txin_parse (b ++ rest) = Ok (strip_in (canon_in i), rest).
Proof.
  unfold txin_wfb. intros W. split_andb.
  match goal with H : (_ =? 32)%nat = true |- _ => apply Nat.eqb_eq in H; rename H into Lpt end.
  match goal with H : u32b (i_prev_index i) = true |- _ => apply u32b_range in H; rename H into Rpi end.
  match goal with H : u32b (i_sequence i) = true |- _ => apply u32b_range in H; rename H into Rsq end.
  match goal with H : script_wfb _ = true |- _ =>
    destruct (script_wf_roundtrip _ H) as [sc [Hsc [Lsc Hpsc]]] end.
  unfold txin_serialize. rewrite (int_to_le_ok _ _ Rpi), Hsc, (int_to_le_ok _ _ Rsq). cbn [bind].
  eexists. split; [reflexivity|]. split; [rewrite !app_length; lia|].
  intros rest. unfold txin_parse. rewrite <- !app_assoc.
  rewrite (read_app 32 (rev (i_prev_tx i))) by (now rewrite rev_length).
  rewrite (read_app 4 (to_le 4 (i_prev_index i))) by apply to_le_length.
  rewrite Hpsc. cbn [bind].
  rewrite (read_app 4 (to_le 4 (i_sequence i))) by apply to_le_length.
  rewrite rev_involutive, !from_le_to_le by assumption. reflexivity.
Qed.

(* ================= txout ================= *)
Lemma parse_script_pubkey_exact s cs rest :
  parse_script s = Ok (mk_script cs, rest) -> parse_script_pubkey s = Ok (mk_script cs, rest).
Proof.
  intros H. unfold parse_script_pubkey. rewrite H. cbn [bind mk_script s_cmds].
  destruct (is_p2pkh cs || is_p2sh cs || is_p2wpkh cs || is_p2wsh cs || is_p2tr cs); reflexivity.
Qed.

Lemma txout_roundtrip o :
  txout_wfb o = true ->
  exists b, txout_serialize o = Ok b /\ (1 <= length b)%nat /\
    forall rest, txout_parse (b ++ rest) = Ok (canon_out o, rest).
Proof.
  unfold txout_wfb. intros W. split_andb.
  match goal with H : u64b _ = true |- _ => apply u64b_range in H; rename H into Ram end.
  match goal with H : script_wfb _ = true |- _ =>
    destruct (script_wf_roundtrip _ H) as [sc [Hsc [Lsc Hpsc]]] end.
  unfold txout_serialize. rewrite (int_to_le_ok _ _ Ram), Hsc. cbn [bind].
  eexists. split; [reflexivity|]. split; [rewrite !app_length; lia|].
  intros rest. unfold txout_parse. rewrite <- !app_assoc.
  rewrite (read_app 8 (to_le 8 (o_amount o))) by apply to_le_length.
  rewrite (parse_script_pubkey_exact _ _ _ (Hpsc rest)). cbn [bind].
  rewrite from_le_to_le by assumption. reflexivity.
Qed.

(* ================= lists of inputs / outputs / witnesses ================= *)
Lemma ins_loop_eq fuel n s acc :
  ins_loop fuel n s acc =
  if n <=? 0 then Ok (rev acc, s)
  else match fuel with
       | O => Err
       | S f => '(i, r) <- txin_parse s ;; ins_loop f (n - 1) r (i :: acc)
       end.
Proof. destruct fuel; reflexivity. Qed.

Lemma outs_loop_eq fuel n s acc :
  outs_loop fuel n s acc =
  if n <=? 0 then Ok (rev acc, s)
  else match fuel with
       | O => Err
       | S f => '(o, r) <- txout_parse s ;; outs_loop f (n - 1) r (o :: acc)
       end.
Proof. destruct fuel; reflexivity. Qed.

Lemma ins_roundtrip l :
  forallb txin_wfb l = true ->
  exists b, ser_ins l = Ok b /\ (length l <= length b)%nat /\
    forall fuel rest acc, (length l <= fuel)%nat ->
      ins_loop fuel (zlen l) (b ++ rest) acc =
      Ok (rev acc ++ map (fun i => strip_in (canon_in i)) l, rest).
Proof.
  induction l as [|i r IH]; intros W.
  - exists []. split; [reflexivity|]. split; [cbn; lia|]. intros fuel rest acc _.
    rewrite ins_loop_eq. cbn. now rewrite app_nil_r.
  - cbn [forallb] in W. split_andb.
    destruct IH as [b [Hb [Lb Hloop]]]; [assumption|].
    match goal with H : txin_wfb i = true |- _ =>
      destruct (txin_roundtrip i H) as [e [He [Le Hp]]] end.
    exists (e ++ b). split; [cbn [ser_ins]; rewrite He, Hb; reflexivity|].
    split; [rewrite app_length; cbn [length]; lia|].
    intros fuel rest acc Hf. cbn [length] in Hf. destruct fuel as [|f]; [lia|].
    rewrite ins_loop_eq, zlen_cons.
    replace (1 + zlen r <=? 0) with false by (pose proof (zlen_nonneg r); lia).
    rewrite <- app_assoc, Hp. cbn [bind].
    replace (1 + zlen r - 1) with (zlen r) by lia. rewrite Hloop by lia.
    cbn [rev map]. now rewrite <- app_assoc.
Qed.

Lemma outs_roundtrip l :
  forallb txout_wfb l = true ->
  exists b, ser_outs l = Ok b /\ (length l <= length b)%nat /\
    forall fuel rest acc, (length l <= fuel)%nat ->
      outs_loop fuel (zlen l) (b ++ rest) acc = Ok (rev acc ++ map canon_out l, rest).
Proof.
  induction l as [|o r IH]; intros W.
  - exists []. split; [reflexivity|]. split; [cbn; lia|]. intros fuel rest acc _.
    rewrite outs_loop_eq. cbn. now rewrite app_nil_r.
  - cbn [forallb] in W. split_andb.
    destruct IH as [b [Hb [Lb Hloop]]]; [assumption|].
    match goal with H : txout_wfb o = true |- _ =>
      destruct (txout_roundtrip o H) as [e [He [Le Hp]]] end.
    exists (e ++ b). split; [cbn [ser_outs]; rewrite He, Hb; reflexivity|].
    split; [rewrite app_length; cbn [length]; lia|].
    intros fuel rest acc Hf. cbn [length] in Hf. destruct fuel as [|f]; [lia|].
    rewrite outs_loop_eq, zlen_cons.
    replace (1 + zlen r <=? 0) with false by (pose proof (zlen_nonneg r); lia).
    rewrite <- app_assoc, Hp. cbn [bind].
    replace (1 + zlen r - 1) with (zlen r) by lia. rewrite Hloop by lia.
    cbn [rev map]. now rewrite <- app_assoc.
Qed.

Lemma wits_roundtrip l :
  forallb txin_wfb l = true ->
  exists b, ser_wits l = Ok b /\
    forall rest acc,
      wits_loop (map (fun i => strip_in (canon_in i)) l) (b ++ rest) acc =
      Ok (rev acc ++ map canon_in l, rest).
Proof.
  induction l as [|i r IH]; intros W.
  - exists []. split; [reflexivity|]. intros rest acc. cbn. now rewrite app_nil_r.
  - cbn [forallb] in W. split_andb.
    destruct IH as [b [Hb Hloop]]; [assumption|].
    match goal with H : txin_wfb i = true |- _ => unfold txin_wfb in H end. split_andb.
    destruct (witness_roundtrip (i_witness i)) as [e [He [_ Hp]]]; [assumption|assumption|].
    exists (e ++ b). split; [cbn [ser_wits]; rewrite He, Hb; reflexivity|].
    intros rest acc. cbn [map wits_loop]. rewrite <- app_assoc, Hp. cbn [bind].
    rewrite Hloop. cbn [rev]. rewrite <- app_assoc. reflexivity.
Qed.

(* ================= transactions ================= *)
Lemma nth_error_after {A} (a : list A) x r n : length a = n -> nth_error (a ++ x :: r) n = Some x.
Proof. intros <-. rewrite nth_error_app2 by lia. now rewrite Nat.sub_diag. Qed.

(* first byte of a compact-size integer is 0 only for the integer 0 *)
Lemma varint_head i b : encode_varint i = Ok b -> exists x r, b = x :: r /\ (x = 0 -> i = 0).
Proof.
  unfold encode_varint.
  destruct (i <? 0) eqn:E0; [discriminate|].
  destruct (i <? 253); [intros [= <-]; exists i, []; auto|].
  destruct (i <? 65536); [intros [= <-]; eexists _, _; split; [reflexivity|lia]|].
  destruct (i <? 4294967296); [intros [= <-]; eexists _, _; split; [reflexivity|lia]|].
  destruct (i <? 18446744073709551616); [|discriminate].
  intros [= <-]; eexists _, _; split; [reflexivity|lia].
Qed.

(* the non-witness parser on the non-witness serialisation: holds for every input count *)
Lemma legacy_roundtrip t :
  tx_wfb t = true ->
  exists b, serialize_legacy t = Ok b /\
    forall rest, parse_legacy (b ++ rest) = Ok (strip_tx (canon_tx t), rest).
Proof.
  unfold tx_wfb. intros W. split_andb.
  match goal with H : u32b (t_version t) = true |- _ => apply u32b_range in H; rename H into Rv end.
  match goal with H : u32b (t_locktime t) = true |- _ => apply u32b_range in H; rename H into Rl end.
  match goal with H : forallb txin_wfb _ = true |- _ =>
    destruct (ins_roundtrip _ H) as [bi [Hbi [Lbi Hpi]]] end.
  match goal with H : forallb txout_wfb _ = true |- _ =>
    destruct (outs_roundtrip _ H) as [bo [Hbo [Lbo Hpo]]] end.
  unfold lenb in *.
  destruct (varint_roundtrip (zlen (t_ins t)) []) as [ni [Hni _]];
    [pose proof (zlen_nonneg (t_ins t)); lia|].
  destruct (varint_roundtrip (zlen (t_outs t)) []) as [no [Hno _]];
    [pose proof (zlen_nonneg (t_outs t)); lia|].
  unfold serialize_legacy.
  rewrite (int_to_le_ok _ _ Rv), Hni, Hbi, Hno, Hbo, (int_to_le_ok _ _ Rl). cbn [bind].
  eexists. split; [reflexivity|]. intros rest. unfold parse_legacy. rewrite <- !app_assoc.
  rewrite (read_app 4 (to_le 4 (t_version t))) by apply to_le_length.
  destruct (varint_roundtrip (zlen (t_ins t)) (bi ++ no ++ bo ++ to_le 4 (t_locktime t) ++ rest))
    as [ni' [Hni' Hr]]; [pose proof (zlen_nonneg (t_ins t)); lia|].
  rewrite Hni in Hni'. inversion Hni'; subst ni'. rewrite Hr. cbn [bind].
  rewrite Hpi by (rewrite app_length; lia). cbn [bind rev app].
  destruct (varint_roundtrip (zlen (t_outs t)) (bo ++ to_le 4 (t_locktime t) ++ rest))
    as [no' [Hno' Hr']]; [pose proof (zlen_nonneg (t_outs t)); lia|].
  rewrite Hno in Hno'. inversion Hno'; subst no'. rewrite Hr'. cbn [bind].
  rewrite Hpo by (rewrite app_length; lia). cbn [bind rev app].
  rewrite (read_app 4 (to_le 4 (t_locktime t))) by apply to_le_length.
  rewrite !from_le_to_le by assumption.
  unfold strip_tx, canon_tx. cbn [t_version t_ins t_outs t_locktime t_segwit].
  rewrite map_map. reflexivity.
Qed.

Lemma map_strip_nowit l :
  forallb no_witness l = true -> map (fun i => strip_in (canon_in i)) l = map canon_in l.
Proof.
  induction l as [|i r IH]; cbn [forallb map]; [reflexivity|]. intros H. split_andb.
  rewrite IH by assumption. f_equal.
  unfold no_witness in *. unfold strip_in, canon_in. cbn. destruct (i_witness i); [reflexivity|discriminate].
Qed.

Lemma tx_roundtrip t :
  tx_wfb t = true -> t_segwit t = true \/ t_ins t <> [] ->
  exists b, tx_serialize t = Ok b /\ forall rest, tx_parse (b ++ rest) = Ok (canon_tx t, rest).
Proof.
  intros W Hz. unfold tx_serialize. destruct (t_segwit t) eqn:Esw.
  - (* segwit *)
    clear Hz. unfold tx_wfb in W. split_andb.
    match goal with H : u32b (t_version t) = true |- _ => apply u32b_range in H; rename H into Rv end.
    match goal with H : u32b (t_locktime t) = true |- _ => apply u32b_range in H; rename H into Rl end.
    match goal with H : forallb txin_wfb _ = true |- _ =>
      destruct (ins_roundtrip _ H) as [bi [Hbi [Lbi Hpi]]];
      destruct (wits_roundtrip _ H) as [bw [Hbw Hpw]] end.
    match goal with H : forallb txout_wfb _ = true |- _ =>
      destruct (outs_roundtrip _ H) as [bo [Hbo [Lbo Hpo]]] end.
    unfold lenb in *.
    destruct (varint_roundtrip (zlen (t_ins t)) []) as [ni [Hni _]];
      [pose proof (zlen_nonneg (t_ins t)); lia|].
    destruct (varint_roundtrip (zlen (t_outs t)) []) as [no [Hno _]];
      [pose proof (zlen_nonneg (t_outs t)); lia|].
    unfold serialize_segwit.
    rewrite (int_to_le_ok _ _ Rv), Hni, Hbi, Hno, Hbo, Hbw, (int_to_le_ok _ _ Rl). cbn [bind].
    eexists. split; [reflexivity|]. intros rest. unfold tx_parse.
    rewrite <- !app_assoc. cbn [app].
    rewrite (nth_error_after (to_le 4 (t_version t))) by apply to_le_length.
    unfold parse_segwit.
    rewrite (read_app 4 (to_le 4 (t_version t))) by apply to_le_length.
    change (0 :: 1 :: ?x) with ([0; 1] ++ x).
    rewrite (read_app 2 [0; 1]) by reflexivity. cbn [beq Z.eqb andb negb].
    destruct (varint_roundtrip (zlen (t_ins t))
                (bi ++ no ++ bo ++ bw ++ to_le 4 (t_locktime t) ++ rest))
      as [ni' [Hni' Hr]]; [pose proof (zlen_nonneg (t_ins t)); lia|].
    rewrite Hni in Hni'. inversion Hni'; subst ni'. rewrite Hr. cbn [bind].
    rewrite Hpi by (rewrite app_length; lia). cbn [bind rev app].
    destruct (varint_roundtrip (zlen (t_outs t)) (bo ++ bw ++ to_le 4 (t_locktime t) ++ rest))
      as [no' [Hno' Hr']]; [pose proof (zlen_nonneg (t_outs t)); lia|].
    rewrite Hno in Hno'. inversion Hno'; subst no'. rewrite Hr'. cbn [bind].
    rewrite Hpo by (rewrite app_length; lia). cbn [bind rev app].
    rewrite Hpw. cbn [bind rev app].
    rewrite (read_app 4 (to_le 4 (t_locktime t))) by apply to_le_length.
    rewrite !from_le_to_le by assumption.
    unfold canon_tx. rewrite Esw. reflexivity.
  - (* legacy with at least one input *)
    destruct Hz as [Hz|Hz]; [discriminate|].
    destruct (legacy_roundtrip t W) as [b [Hb Hp]]. exists b. split; [exact Hb|].
    intros rest. unfold tx_parse.
    (* byte 5 is the first byte of the input count, which is not 0 *)
    assert (exists x, nth_error (b ++ rest) 4 = Some x /\ x <> 0) as [x [Hx Hx0]].
    { unfold serialize_legacy in Hb.
      apply bind_ok in Hb as [v [Hv Hb]]. apply bind_ok in Hb as [ni [Hni Hb]].
      apply bind_ok in Hb as [bi [_ Hb]]. apply bind_ok in Hb as [no [_ Hb]].
      apply bind_ok in Hb as [bo [_ Hb]]. apply bind_ok in Hb as [lt [_ Hb]]. inversion Hb; subst b.
      apply int_to_le_inv in Hv as [_ ->].
      destruct (varint_head _ _ Hni) as [x [r [-> Hx0]]]. exists x.
      rewrite <- !app_assoc. cbn [app].
      split; [apply nth_error_after, to_le_length|].
      intros E. specialize (Hx0 E). destruct (t_ins t); [congruence|].
      rewrite zlen_cons in Hx0. pose proof (zlen_nonneg l). lia. }
    rewrite Hx. rewrite Hp.
    unfold tx_wfb in W. split_andb. rewrite Esw in *. cbn [orb] in *.
    assert (strip_tx (canon_tx t) = canon_tx t) as ->.
    { unfold strip_tx, canon_tx. cbn [t_version t_ins t_outs t_locktime t_segwit]. rewrite Esw.
      f_equal. rewrite map_map. now apply map_strip_nowit. }
    destruct x as [|p|p]; [congruence|reflexivity|reflexivity].
Qed.

Lemma canon_tx_strict t : tx_strictb t = true -> canon_tx t = t.
Proof.
  unfold tx_strictb. intros H. split_andb.
  match goal with H : tx_wfb t = true |- _ => unfold tx_wfb in H end. split_andb.
  destruct t as [v ins outs lt sw]. unfold canon_tx. cbn [t_version t_ins t_outs t_locktime t_segwit] in *.
  f_equal.
  - match goal with H : forallb txin_wfb ins = true |- _ => rename H into Wi end.
    match goal with H : forallb (fun i => cmds_strictb _) ins = true |- _ => rename H into Si end.
    clear - Wi Si. induction ins as [|i r IH]; cbn [map forallb] in *; [reflexivity|]. split_andb.
    rewrite IH by assumption. f_equal. unfold txin_wfb in *. split_andb.
    destruct i as [pt pi sc sq w]. unfold canon_in. cbn [i_prev_tx i_prev_index i_script i_sequence i_witness] in *.
    now rewrite canon_script_strict.
  - match goal with H : forallb txout_wfb outs = true |- _ => rename H into Wo end.
    match goal with H : forallb (fun o => cmds_strictb _) outs = true |- _ => rename H into So end.
    clear - Wo So. induction outs as [|o r IH]; cbn [map forallb] in *; [reflexivity|]. split_andb.
    rewrite IH by assumption. f_equal. unfold txout_wfb in *. split_andb.
    destruct o as [am sc]. unfold canon_out. cbn [o_amount o_script] in *.
    now rewrite canon_script_strict.
Qed.

Lemma tx_roundtrip_strict t :
  tx_strictb t = true -> t_segwit t = true \/ t_ins t <> [] ->
  exists b, tx_serialize t = Ok b /\ forall rest, tx_parse (b ++ rest) = Ok (t, rest).
Proof.
  intros S Hz. assert (tx_wfb t = true) as W by (unfold tx_strictb in S; split_andb; assumption).
  destruct (tx_roundtrip t W Hz) as [b [Hb Hp]]. exists b. split; [exact Hb|].
  intros rest. rewrite Hp. now rewrite canon_tx_strict.
Qed.
