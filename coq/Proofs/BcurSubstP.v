(* Proofs/BcurSubstP.v — corrupted characters in BCUR part STRINGS.
   A part string "ur:bytes/<x>of<y>/<checksum>/<payload>" in which one character (anywhere: prefix,
   x-of-y header, a '/', checksum, payload) has been replaced by any other character is either
   refused by _parse_bcur_helper, or still yields a form-4 header whose checksum field differs
   from the original in at most that character — and then the bc32 check on the checksum text
   forces it to be the original.  With the exact-or-collision theorem this gives: BCURMulti.parse
   of an encoded message whose FIRST string carries at most one substituted character, followed
   by arbitrary strings, returns the original payload, raises, or exhibits a SHA-256 collision. *)
From V Require Import Base.Prelude Base.Ints Base.Lfsr Model.Helper Model.Base58 Model.Bech32
  Model.Bcur Model.BcurStr Proofs.Base58P Proofs.PolymodP Proofs.Bech32DetectP
  Proofs.ConvertbitsP Proofs.BcurP Proofs.Bc32P Proofs.Bc32SubP Proofs.BcurStrP.

(* ---------- hamming ---------- *)

Lemma hamming_refl a : hamming a a = 0%nat.
Proof. induction a as [|x r IH]; [reflexivity|]. cbn [hamming]. now rewrite Z.eqb_refl, IH. Qed.

Lemma hamming_app_inv a : forall b t, length t = length (a ++ b) ->
  exists a' b', t = a' ++ b' /\ length a' = length a /\ length b' = length b /\
                hamming (a ++ b) t = (hamming a a' + hamming b b')%nat.
Proof.
  induction a as [|x r IH]; intros b t HL.
  - exists [], t. cbn [app length hamming] in *. repeat split; auto.
  - destruct t as [|y t']; [cbn in HL; discriminate|]. cbn [app length] in HL.
    destruct (IH b t' ltac:(lia)) as [a' [b' [E [L1 [L2 H]]]]]. exists (y :: a'), b'. subst t'.
    cbn [app length hamming]. rewrite H. repeat split; auto; lia.
Qed.

Lemma lower_idem s : lower (lower s) = lower s.
Proof.
  unfold lower. rewrite map_map. apply map_ext. intros c. unfold lower_c.
  destruct ((65 <=? c) && (c <=? 90)) eqn:E; [|now rewrite E].
  apply andb_true_iff in E as [A B].
  destruct (65 <=? c + 32) eqn:A'; destruct (c + 32 <=? 90) eqn:B'; cbn [andb]; try reflexivity; exfalso; lia.
Qed.

(* ---------- pieces ---------- *)

Lemma split_on_len sep s : (1 <= length (split_on sep s))%nat.
Proof. pose proof (split_on_nonempty sep s). destruct (split_on sep s); [congruence|cbn; lia]. Qed.

Lemma fos_long segs : (5 <= length segs)%nat -> fields_of_segs segs = Err.
Proof.
  destruct segs as [|a [|b [|c [|d [|e r]]]]]; cbn [length]; intros H; try lia. reflexivity.
Qed.

(* both inner '/' intact: whatever the other characters are, an accepted string has form 4 and
   its checksum field is the text between them *)
Lemma segs_intact X' C' L'' p :
  str_core (ur_prefix ++ X' ++ 47 :: C' ++ 47 :: L'') = Ok p -> p_form p = 4 /\ p_chk p = C'.
Proof.
  rewrite str_core_shape, !split_on_app. intros H.
  pose proof (split_on_len 47 X'). pose proof (split_on_len 47 C'). pose proof (split_on_len 47 L'').
  destruct (Nat.eq_dec (length (split_on 47 X')) 1) as [EX|NX];
    [|rewrite fos_long in H; [discriminate|cbn [length]; rewrite !app_length; lia]].
  destruct (Nat.eq_dec (length (split_on 47 C')) 1) as [EC|NC];
    [|rewrite fos_long in H; [discriminate|cbn [length]; rewrite !app_length; lia]].
  destruct (Nat.eq_dec (length (split_on 47 L'')) 1) as [EL|NL];
    [|rewrite fos_long in H; [discriminate|cbn [length]; rewrite !app_length; lia]].
  rewrite (proj1 (split_on_single 47 X' EX)), (proj1 (split_on_single 47 C' EC)),
    (proj1 (split_on_single 47 L'' EL)) in H.
  cbn [app fields_of_segs] in H. destruct (parse_xofy X') as [[x y]|]; [|discriminate].
  cbn [bind] in H. injection H as <-. split; reflexivity.
Qed.

Lemma only_bech32_o s : In 111 s -> only_bech32 s = false.
Proof.
  intros H. unfold only_bech32.
  destruct (forallb (fun c => existsb (Z.eqb c) bech32_alphabet) (lower s)) eqn:E; [|reflexivity].
  rewrite forallb_forall in E.
  specialize (E 111 ltac:(change 111 with (lower_c 111); apply in_map; exact H)).
  vm_compute in E. discriminate.
Qed.

(* a 3-segment string whose middle segment contains the letter 'o' is refused *)
Lemma parse_part_o p : p_form p = 3 -> In 111 (p_chk p) -> parse_part p = Err.
Proof.
  intros F HI. unfold parse_part. rewrite F.
  change (3 =? 2) with false. change (3 =? 3) with true. cbn iota. cbn [bind].
  assert (HI' : In 111 (lower (p_chk p))) by (change 111 with (lower_c 111); apply in_map; exact HI).
  destruct (lower (p_chk p)) as [|c0 cr] eqn:EL; [destruct HI'|].
  destruct (negb (length (c0 :: cr) =? 58)%nat); [reflexivity|].
  rewrite (only_bech32_o _ HI'). reflexivity.
Qed.

(* the first inner '/' replaced *)
Lemma seg_a_bad X C L a p :
  Forall (fun c => c <> 47) X -> Forall (fun c => c <> 47) C -> Forall (fun c => c <> 47) L ->
  a <> 47 -> In 111 X ->
  str_core (ur_prefix ++ X ++ a :: C ++ 47 :: L) = Ok p -> parse_part p = Err.
Proof.
  intros HX HC HL Ha HO.
  replace (X ++ a :: C ++ 47 :: L) with ((X ++ a :: C) ++ 47 :: L) by (now rewrite <- app_assoc).
  rewrite str_core_shape, split_on_app.
  rewrite (split_on_nosep 47 (X ++ a :: C)) by (apply Forall_app; split; [exact HX|constructor; assumption]).
  rewrite (split_on_nosep 47 L HL). cbn [app fields_of_segs]. intros [= <-].
  apply parse_part_o; [reflexivity|]. cbn [p_chk]. apply in_or_app. now left.
Qed.

(* the second inner '/' replaced *)
Lemma seg_b_bad X C L b p :
  Forall (fun c => c <> 47) X -> Forall (fun c => c <> 47) C -> Forall (fun c => c <> 47) L ->
  b <> 47 -> In 111 X ->
  str_core (ur_prefix ++ X ++ 47 :: C ++ b :: L) = Ok p -> parse_part p = Err.
Proof.
  intros HX HC HL Hb HO.
  rewrite str_core_shape, split_on_app, (split_on_nosep 47 X HX).
  rewrite (split_on_nosep 47 (C ++ b :: L)) by (apply Forall_app; split; [exact HC|constructor; assumption]).
  cbn [app fields_of_segs]. intros [= <-].
  apply parse_part_o; [reflexivity|exact HO].
Qed.

Lemma starts_with_len p : forall q s, length q = length p -> starts_with p (q ++ s) = true -> q = p.
Proof.
  induction p as [|x r IH]; intros [|y q] s HL H; cbn in HL; try discriminate; [reflexivity|].
  cbn [app starts_with] in H. apply andb_true_iff in H as [A B]. apply Z.eqb_eq in A. subst y.
  f_equal. apply (IH q s); [lia|exact B].
Qed.

Definition up8 : list Z := [114;58;98;121;116;101;115;47].

(* a character of "ur:bytes/" replaced *)
Lemma prefix_bad P' rest : length P' = 9%nat -> hamming ur_prefix P' = 1%nat ->
  rest <> [] -> is_ws (hd 0 (rev rest)) = false -> str_core (strip (P' ++ rest)) = Err.
Proof.
  intros HL HH HR HW. destruct P' as [|a0 P8]; [discriminate|].
  change ur_prefix with (117 :: up8) in HH. cbn [hamming] in HH.
  assert (LR : is_ws (hd 0 (rev ((a0 :: P8) ++ rest))) = false) by (now rewrite hd_rev_app).
  destruct (is_ws a0) eqn:W.
  - destruct (117 =? a0) eqn:E; [apply Z.eqb_eq in E; subst a0; discriminate W|].
    assert (P8 = up8) as -> by (symmetry; apply hamming_0_eq; [cbn in HL |- *; lia|lia]).
    assert (E1 : strip ((a0 :: up8) ++ rest) = up8 ++ rest).
    { unfold strip.
      assert (lstrip ((a0 :: up8) ++ rest) = up8 ++ rest) as ->.
      { cbn [app lstrip]. rewrite W. apply lstrip_hd. reflexivity. }
      apply rstrip_nows. now rewrite hd_rev_app. }
    rewrite E1. reflexivity.
  - rewrite strip_ends; [|exact W|exact LR]. unfold str_core.
    destruct (starts_with ur_prefix ((a0 :: P8) ++ rest)) eqn:S; [|reflexivity].
    apply starts_with_len in S; [|exact HL]. exfalso.
    unfold ur_prefix in S. injection S as -> ->. vm_compute in HH. discriminate.
Qed.

(* ---------- one substituted character anywhere in a form-4 part string ---------- *)

Section Header.
Variables X C L : list Z.
Hypothesis HX : Forall (fun c => c <> 47) X.
Hypothesis HXo : In 111 X.
Hypothesis HC : plain C.
Hypothesis HL : plain L.
Hypothesis HLn : L <> [].

Let s1 : list Z := ur_prefix ++ X ++ [47] ++ C ++ [47] ++ L.

Lemma last_L z : is_ws (hd 0 (rev (z ++ L))) = false.
Proof.
  rewrite hd_rev_app by exact HLn. apply (Forall_hd0 nows); [reflexivity|]. apply Forall_rev.
  eapply Forall_impl; [|exact HL]. intros c [_ [A _]]. exact A.
Qed.

Lemma header_subst t p r :
  length t = length s1 -> (hamming s1 t <= 1)%nat ->
  str_core (strip t) = Ok p -> parse_part p = Ok r ->
  p_form p = 4 /\ length (p_chk p) = length C /\ (hamming C (p_chk p) <= 1)%nat.
Proof.
  intros HLen HH HS HP. unfold s1 in *.
  destruct (hamming_app_inv ur_prefix _ t HLen) as [P' [t1 [-> [LP [L1 H1]]]]].
  destruct (hamming_app_inv X _ t1 L1) as [X' [t2 [-> [LX [L2 H2]]]]].
  destruct (hamming_app_inv [47] _ t2 L2) as [A' [t3 [-> [LA [L3 H3]]]]].
  destruct (hamming_app_inv C _ t3 L3) as [C' [t4 [-> [LC [L4 H4]]]]].
  destruct (hamming_app_inv [47] _ t4 L4) as [B' [L' [-> [LB [L5 H5]]]]].
  destruct A' as [|a [|? ?]]; try discriminate LA. destruct B' as [|b [|? ?]]; try discriminate LB.
  rewrite H1, H2, H3, H4, H5 in HH. cbn [hamming] in HH.
  pose proof (plain_noslash _ HC) as NC. pose proof (plain_noslash _ HL) as NL.
  destruct (Nat.eq_dec (hamming ur_prefix P') 0) as [EP|NP].
  2:{ (* the prefix is damaged *)
      exfalso.
      assert (X' = X) as -> by (symmetry; apply hamming_0_eq; [lia|lia]).
      assert (C' = C) as -> by (symmetry; apply hamming_0_eq; [lia|lia]).
      assert (L' = L) as -> by (symmetry; apply hamming_0_eq; [lia|lia]).
      rewrite prefix_bad in HS; [discriminate|exact LP|lia| |].
      - intros E. apply app_eq_nil in E as [_ E]. discriminate.
      - replace (X ++ [a] ++ C ++ [b] ++ L) with ((X ++ [a] ++ C ++ [b]) ++ L)
          by (now rewrite <- !app_assoc).
        apply last_L. }
  assert (P' = ur_prefix) as -> by (symmetry; apply hamming_0_eq; [lia|exact EP]).
  destruct (47 =? a) eqn:EA.
  - apply Z.eqb_eq in EA. subst a. destruct (47 =? b) eqn:EB.
    + (* both '/' intact: the checksum field is C' *)
      apply Z.eqb_eq in EB. subst b.
      replace (ur_prefix ++ X' ++ [47] ++ C' ++ [47] ++ L')
        with ((ur_prefix ++ X' ++ [47] ++ C' ++ [47]) ++ L') in HS by (now rewrite <- !app_assoc).
      rewrite strip_app in HS.
      * replace ((ur_prefix ++ X' ++ [47] ++ C' ++ [47]) ++ rstrip L')
          with (ur_prefix ++ X' ++ 47 :: C' ++ 47 :: rstrip L') in HS by (now rewrite <- !app_assoc).
        destruct (segs_intact _ _ _ _ HS) as [F4 ->]. split; [exact F4|]. split; [exact LC|lia].
      * discriminate.
      * reflexivity.
      * replace (ur_prefix ++ X' ++ [47] ++ C' ++ [47])
          with ((ur_prefix ++ X' ++ [47] ++ C') ++ [47]) by (now rewrite <- !app_assoc).
        rewrite hd_rev_app by discriminate. reflexivity.
    + (* the second '/' replaced *)
      exfalso.
      assert (X' = X) as -> by (symmetry; apply hamming_0_eq; [lia|lia]).
      assert (C' = C) as -> by (symmetry; apply hamming_0_eq; [lia|lia]).
      assert (L' = L) as -> by (symmetry; apply hamming_0_eq; [lia|lia]).
      rewrite strip_ends in HS.
      * change (ur_prefix ++ X ++ [47] ++ C ++ [b] ++ L) with (ur_prefix ++ X ++ 47 :: C ++ b :: L) in HS.
        rewrite (seg_b_bad X C L b p HX NC NL ltac:(lia) HXo HS) in HP. discriminate.
      * reflexivity.
      * replace (ur_prefix ++ X ++ [47] ++ C ++ [b] ++ L)
          with ((ur_prefix ++ X ++ [47] ++ C ++ [b]) ++ L) by (now rewrite <- !app_assoc).
        apply last_L.
  - (* the first '/' replaced *)
    exfalso.
    assert (X' = X) as -> by (symmetry; apply hamming_0_eq; [lia|lia]).
    assert (C' = C) as -> by (symmetry; apply hamming_0_eq; [lia|lia]).
    assert (L' = L) as -> by (symmetry; apply hamming_0_eq; [lia|lia]).
    assert (b = 47) as -> by (destruct (47 =? b) eqn:EB; [lia|lia]).
    rewrite strip_ends in HS.
    + change (ur_prefix ++ X ++ [a] ++ C ++ [47] ++ L) with (ur_prefix ++ X ++ a :: C ++ 47 :: L) in HS.
      rewrite (seg_a_bad X C L a p HX NC NL ltac:(lia) HXo HS) in HP. discriminate.
    + reflexivity.
    + replace (ur_prefix ++ X ++ [a] ++ C ++ [47] ++ L)
        with ((ur_prefix ++ X ++ [a] ++ C ++ [47]) ++ L) by (now rewrite <- !app_assoc).
      apply last_L.
Qed.

End Header.

(* ---------- BCURMulti.parse on corrupted strings ---------- *)

Lemma parse_part_chk34 p payload c x y :
  parse_part p = Ok (payload, c, x, y) -> (p_form p = 3 \/ p_form p = 4) ->
  c = Some (lower (p_chk p)).
Proof.
  intros EP HF. revert EP. unfold parse_part.
  assert (p_form p =? 2 = false) as -> by (destruct HF; lia).
  destruct (p_form p =? 3).
  - cbn [bind]. destruct (lower (p_chk p)) as [|c0 cr].
    + destruct (negb _); [discriminate|]. now intros [= _ <- _ _].
    + destruct (negb _); [discriminate|]. destruct (negb _); [discriminate|]. cbn [bind].
      destruct (negb _); [discriminate|]. now intros [= _ <- _ _].
  - destruct (p_form p =? 4); [|discriminate]. destruct (p_y p <? p_x p); [discriminate|].
    cbn [bind]. destruct (lower (p_chk p)) as [|c0 cr].
    + destruct (negb _); [discriminate|]. now intros [= _ <- _ _].
    + destruct (negb _); [discriminate|]. destruct (negb _); [discriminate|]. cbn [bind].
      destruct (negb _); [discriminate|]. now intros [= _ <- _ _].
Qed.

Section WithHash.
Variable sha256 : bytes -> bytes.
Hypothesis sha_ok : forall x, bytes_ok (sha256 x).
Hypothesis sha_len : forall x, length (sha256 x) = 32%nat.

Lemma multi_parse_first p ps d' :
  multi_parse sha256 (p :: ps) = Ok d' -> exists r, parse_part p = Ok r.
Proof.
  unfold multi_parse. cbn [mp_loop]. destruct (parse_part p) as [r|]; [eauto|discriminate].
Qed.

(* an accepted list: the checksum text of its first (form 3/4) part passes bc32decode *)
Lemma multi_parse_chk_decodes p ps d' :
  multi_parse sha256 (p :: ps) = Ok d' -> (p_form p = 3 \/ p_form p = 4) ->
  exists h, bc32decode (lower (p_chk p)) = Ok (Some h).
Proof.
  intros HP HF. revert HP. unfold multi_parse. cbn [mp_loop].
  destruct (parse_part p) as [[[[payload c] x] y]|] eqn:EP; [|discriminate]. cbn [bind].
  rewrite (parse_part_chk34 p payload c x y EP HF).
  destruct (negb (0 + 1 =? x)); [discriminate|]. change (0 =? 0) with true. cbn iota.
  destruct (mp_loop ps (0 + 1) _ y _) as [[g out]|] eqn:E; [|discriminate]. cbn [bind].
  destruct (mp_loop_numbered ps (0 + 1) _ _ _ _ _ ltac:(lia) E) as [_ [H _]].
  destruct (H ltac:(lia)) as [-> _].
  destruct (bcur_decode sha256 (concat out) (Some (lower (p_chk p)))) as [[dd|]|] eqn:ED; try discriminate.
  intros _. revert ED. unfold bcur_decode.
  destruct (bc32decode (concat out)) as [[cb|]|]; try discriminate. cbn [bind].
  destruct (bc32decode (lower (p_chk p))) as [[h|]|]; try discriminate. eauto.
Qed.

(* The first string of an encoded message with at most one character replaced (anywhere in it),
   followed by ANY strings: BCURMulti.parse raises, returns the original payload, or a SHA-256
   collision is exhibited. *)
Theorem multi_str_first_subst d m s1 rest s1' rest' d' :
  bytes_ok d -> zlen d < 4294967296 -> 1 <= m ->
  multi_encode_str sha256 d m true = Ok (s1 :: rest) ->
  length s1' = length s1 -> (hamming s1 s1' <= 1)%nat ->
  multi_parse_str sha256 (s1' :: rest') = Ok d' ->
  d' = d \/ exists cbor cbor', cbor_encode d = Ok cbor /\ cbor' <> cbor /\
                               sha256 cbor' = sha256 cbor.
Proof.
  intros HB HLd Hm HE HLen HH HP.
  destruct (multi_encode_shape sha256 sha_ok sha_len d m HB HLd Hm)
    as [enc [chk [cs [n [EE [ME [CC [GF [NE [ZL [Hn [Gc Lc]]]]]]]]]]]].
  revert HE. unfold multi_encode_str. rewrite ME. cbn [bind].
  destruct cs as [|c1 cs']; [discriminate|]. cbn [number_parts map]. intros [= E1 _].
  rewrite fmt4_eq in E1.
  pose proof (Forall_inv GF) as G1. pose proof (Forall_inv NE) as N1. cbv beta in N1.
  rewrite multi_parse_str_refines in HP. cbn [mapr] in HP.
  destruct (str_fields s1') as [p'|] eqn:SF; [|discriminate]. cbn [bind] in HP.
  destruct (mapr str_fields rest') as [ps''|]; [|discriminate]. cbn [bind] in HP.
  destruct (multi_parse_first p' ps'' d' HP) as [r PP].
  pose proof (gchar_plain _ Gc) as Pc. pose proof (gchar_plain _ G1) as P1.
  pose proof (xofy_chars 1 n) as XC.
  assert (LS : lower s1 = s1).
  { rewrite <- E1. apply lower_fix. apply Forall_app. split.
    - eapply Forall_impl; [|exact ur_prefix_okc]. intros c [_ B]. exact B.
    - apply Forall_app. split; [eapply Forall_impl; [|exact XC]; intros c [_ [_ B]]; exact B|].
      constructor; [reflexivity|]. apply Forall_app. split.
      + eapply Forall_impl; [|exact Pc]. intros c [_ [_ B]]. exact B.
      + constructor; [reflexivity|]. eapply Forall_impl; [|exact P1]. intros c [_ [_ B]]. exact B. }
  assert (HD : p_form p' = 4 /\ length (p_chk p') = length chk /\ (hamming chk (p_chk p') <= 1)%nat).
  { apply (header_subst (xofy_str 1 n) chk c1) with (t := lower s1') (r := r).
    - eapply Forall_impl; [|exact XC]. intros c [A _]. exact A.
    - unfold xofy_str. apply in_or_app. right. left. reflexivity.
    - exact Pc.
    - exact P1.
    - exact N1.
    - change (ur_prefix ++ xofy_str 1 n ++ [47] ++ chk ++ [47] ++ c1)
        with (ur_prefix ++ xofy_str 1 n ++ 47 :: chk ++ 47 :: c1).
      rewrite E1. unfold lower. rewrite map_length. exact HLen.
    - change (ur_prefix ++ xofy_str 1 n ++ [47] ++ chk ++ [47] ++ c1)
        with (ur_prefix ++ xofy_str 1 n ++ 47 :: chk ++ 47 :: c1).
      rewrite E1. pose proof (hamming_lower s1 s1' ltac:(lia) LS). lia.
    - exact SF.
    - exact PP. }
  destruct HD as [F4 [LC' HC']].
  destruct (multi_parse_chk_decodes p' ps'' d' HP (or_intror F4)) as [h DH].
  assert (EQ : lower (p_chk p') = chk).
  { pose proof (gchar_lower _ Gc) as LCk.
    assert (LL : length chk = length (lower (p_chk p'))) by (unfold lower; rewrite map_length; lia).
    pose proof (hamming_lower chk (p_chk p') ltac:(lia) LCk) as HLE.
    destruct (Nat.eq_dec (hamming chk (lower (p_chk p'))) 0) as [H0|H0].
    - symmetry. exact (hamming_0_eq _ _ LL H0).
    - destruct (bcur_encode_inv sha256 d enc chk EE) as [cbor [_ [_ EH]]].
      destruct (bc32_detects_single_text (sha256 cbor) chk (lower (p_chk p')) h
                  (sha_ok cbor) EH ltac:(lia) ltac:(lia) DH) as [A _].
      rewrite lower_idem in A. exact A. }
  exact (reassembly_exact_or_collision_full sha256 sha_ok p' ps'' d enc chk d' EE (or_intror F4) EQ HP).
Qed.

(* one character replaced in any ONE string of an encoded message (all others intact) *)
Theorem multi_str_detects_single d m ss pre s s' post d' :
  bytes_ok d -> zlen d < 4294967296 -> 1 <= m ->
  multi_encode_str sha256 d m true = Ok ss -> ss = pre ++ s :: post ->
  length s' = length s -> hamming s s' = 1%nat ->
  multi_parse_str sha256 (pre ++ s' :: post) = Ok d' ->
  d' = d \/ exists cbor cbor', cbor_encode d = Ok cbor /\ cbor' <> cbor /\
                               sha256 cbor' = sha256 cbor.
Proof.
  intros HB HLd Hm HE -> HLen HH HP. destruct pre as [|s1 pre'].
  - exact (multi_str_first_subst d m s post s' post d' HB HLd Hm HE HLen ltac:(cbn [app] in *; lia) HP).
  - refine (multi_str_first_subst d m s1 (pre' ++ s :: post) s1 (pre' ++ s' :: post) d'
              HB HLd Hm HE eq_refl _ HP).
    rewrite hamming_refl. lia.
Qed.

End WithHash.

(* ---------- any selection of the encoded strings ---------- *)

Lemma number_parts_in cs : forall cnt y chk p, In p (number_parts cs cnt y chk) ->
  p_form p = 4 /\ cnt + 1 <= p_x p <= cnt + zlen cs.
Proof.
  induction cs as [|c r IH]; intros cnt y chk p HI; [destruct HI|].
  cbn [number_parts] in HI. rewrite zlen_cons'. assert (0 <= zlen r) by (unfold zlen; lia).
  destruct HI as [<-|HI]; [cbn [p_form p_x]; split; [reflexivity|lia]|].
  destruct (IH _ _ _ _ HI) as [A B]. split; [exact A|lia].
Qed.

Lemma numbered_lb ps : forall k, numbered ps k -> Forall (fun p => k + 1 <= part_x p) ps.
Proof.
  induction ps as [|p r IH]; intros k H; [constructor|]. destruct H as [H1 H2].
  constructor; [lia|]. eapply Forall_impl; [|exact (IH _ H2)]. intros q Hq. cbv beta in Hq. lia.
Qed.

(* a numbered list drawn from the encoder's parts is an initial segment of them *)
Lemma selection_prefix cs : forall cnt y chk ps',
  Forall (fun p => In p (number_parts cs cnt y chk)) ps' -> numbered ps' cnt ->
  ps' = firstn (length ps') (number_parts cs cnt y chk).
Proof.
  induction cs as [|c r IH]; intros cnt y chk ps' HF HN.
  - destruct ps' as [|p t]; [reflexivity|]. inversion HF as [|? ? HI _]. destruct HI.
  - destruct ps' as [|p t]; [reflexivity|]. cbn [number_parts length firstn].
    inversion HF as [|? ? HI HT]; subst. destruct HN as [N1 N2].
    cbn [number_parts] in HI, HT.
    assert (EP : p = {| p_form := 4; p_x := cnt + 1; p_y := y; p_chk := chk; p_payload := c |}).
    { destruct HI as [<-|HI]; [reflexivity|]. exfalso.
      destruct (number_parts_in _ _ _ _ _ HI) as [F B]. unfold part_x in N1. rewrite F in N1.
      change (4 =? 4) with true in N1. cbn iota in N1. lia. }
    f_equal; [exact EP|]. apply IH; [|exact N2].
    pose proof (numbered_lb t (cnt + 1) N2) as LB.
    rewrite Forall_forall in *. intros q Hq. specialize (HT q Hq). specialize (LB q Hq).
    destruct HT as [<-|HT]; [|exact HT]. exfalso. unfold part_x in LB. cbn [p_form p_x] in LB.
    change (4 =? 4) with true in LB. cbn iota in LB. lia.
Qed.

Lemma mapr_forall2 {A B} (f : A -> result B) l : forall l', mapr f l = Ok l' ->
  Forall2 (fun a b => f a = Ok b) l l'.
Proof.
  induction l as [|a r IH]; intros l' H; cbn [mapr] in H.
  - injection H as <-. constructor.
  - destruct (f a) as [b|] eqn:E; [|discriminate]. cbn [bind] in H.
    destruct (mapr f r) as [t|]; [|discriminate]. cbn [bind] in H. injection H as <-.
    constructor; [exact E|]. now apply IH.
Qed.

Section WithHashSel.
Variable sha256 : bytes -> bytes.
Hypothesis sha_ok : forall x, bytes_ok (sha256 x).
Hypothesis sha_len : forall x, length (sha256 x) = 32%nat.

Lemma multi_parse_str_nil : multi_parse_str sha256 [] = Err.
Proof. vm_compute. reflexivity. Qed.

(* ANY list of strings taken from the strings of an encoded message (any order, repetitions,
   omissions, any number): if BCURMulti.parse accepts it, it is an initial segment of the
   encoder's list — so permuted, duplicated or internally incomplete selections raise — and the
   result is the original payload unless a SHA-256 collision is exhibited. *)
Theorem multi_str_selection d m ss ss' d' :
  bytes_ok d -> zlen d < 4294967296 -> 1 <= m ->
  multi_encode_str sha256 d m true = Ok ss ->
  Forall (fun s => In s ss) ss' ->
  multi_parse_str sha256 ss' = Ok d' ->
  ss' = firstn (length ss') ss /\
  (d' = d \/ exists cbor cbor', cbor_encode d = Ok cbor /\ cbor' <> cbor /\
                                sha256 cbor' = sha256 cbor).
Proof.
  intros HB HLd Hm HE HF HP.
  destruct (multi_encode_shape sha256 sha_ok sha_len d m HB HLd Hm)
    as [enc [chk [cs [n [EE [ME [CC [GF [NE [ZL [Hn [Gc Lc]]]]]]]]]]]].
  pose proof HE as HE'. revert HE'. unfold multi_encode_str. rewrite ME. cbn [bind]. intros [= <-].
  set (NP := number_parts cs 0 n chk) in *.
  assert (WF : Forall wf_part NP).
  { apply number_parts_wf; try lia; [exact (gchar_plain _ Gc)|].
    eapply Forall_impl; [|exact GF]. exact gchar_plain. }
  assert (PRE : ss' = firstn (length ss') (map fmt_part NP)).
  { pose proof HP as HP'. rewrite multi_parse_str_refines in HP'.
    destruct (mapr str_fields ss') as [ps'|] eqn:EM; [|discriminate]. cbn [bind] in HP'.
    pose proof (mapr_forall2 _ _ _ EM) as F2.
    assert (HIn : Forall (fun p => In p NP) ps' /\ ss' = map fmt_part ps').
    { clear HP HP' EM. revert HF. induction F2 as [|s p ts tp Hsp F2 IH]; intros HF; [split; [constructor|reflexivity]|].
      inversion HF as [|? ? HI HT]; subst. destruct (IH HT) as [I1 I2].
      apply in_map_iff in HI as [q [<- Hq]].
      rewrite Forall_forall in WF. rewrite (str_fields_fmt q (WF q Hq)) in Hsp. injection Hsp as <-.
      split; [constructor; assumption|]. cbn [map]. now rewrite <- I2. }
    destruct HIn as [I1 I2].
    pose proof (multi_parse_ordered sha256 ps' d' HP') as NUM.
    pose proof (selection_prefix cs 0 n chk ps' I1 NUM) as SP. fold NP in SP.
    rewrite I2 at 1. rewrite SP at 1. rewrite firstn_map. f_equal.
    rewrite I2. now rewrite map_length. }
  split; [exact PRE|].
  destruct ss' as [|s1' t']; [rewrite multi_parse_str_nil in HP; discriminate|].
  destruct (map fmt_part NP) as [|s1 rest] eqn:EN; [cbn in PRE; discriminate|].
  cbn [length firstn] in PRE. injection PRE as E1 _. subst s1'.
  exact (multi_str_first_subst sha256 sha_ok sha_len d m s1 rest s1 t' d' HB HLd Hm HE eq_refl
           ltac:(rewrite hamming_refl; lia) HP).
Qed.

End WithHashSel.

(* ---------- exact or collision on strings; animate=False ---------- *)

Section WithHashMisc.
Variable sha256 : bytes -> bytes.
Hypothesis sha_ok : forall x, bytes_ok (sha256 x).

(* Whatever the strings are: if BCURMulti.parse accepts them and the header of the first one
   carries (up to case) the checksum text of [d], the result is [d] or a collision is exhibited *)
Theorem str_reassembly_exact_or_collision s ss p d enc enc_hash d' :
  bcur_encode sha256 d = Ok (enc, enc_hash) ->
  str_fields s = Ok p -> (p_form p = 3 \/ p_form p = 4) -> lower (p_chk p) = enc_hash ->
  multi_parse_str sha256 (s :: ss) = Ok d' ->
  d' = d \/ exists cbor cbor', cbor_encode d = Ok cbor /\ cbor' <> cbor /\
                               sha256 cbor' = sha256 cbor.
Proof.
  intros EE SF HF HC HP. rewrite multi_parse_str_refines in HP. cbn [mapr] in HP.
  rewrite SF in HP. cbn [bind] in HP. destruct (mapr str_fields ss) as [ps|]; [|discriminate].
  cbn [bind] in HP.
  exact (reassembly_exact_or_collision_full sha256 sha_ok p ps d enc enc_hash d' EE HF HC HP).
Qed.

Hypothesis sha_len : forall x, length (sha256 x) = 32%nat.

(* BCURMulti(b).encode(animate=False): one "1of1" string whatever max_size_per_chunk is
   (0 and negative values included), and it parses back to b *)
Theorem multi_str_roundtrip_noanimate d m : bytes_ok d -> zlen d < 4294967296 ->
  exists s, multi_encode_str sha256 d m false = Ok [s] /\ multi_parse_str sha256 [s] = Ok d.
Proof.
  intros HB HL.
  destruct (bcur_encode_facts sha256 sha_ok sha_len d HB HL)
    as [enc [chk [cbor [EE [EC [DC [D1 [D2 [G1 [G2 [L2 L1]]]]]]]]]]].
  unfold multi_encode_str, multi_encode.
  rewrite (bcur_init_ok sha256 d enc chk None None EE) by auto. cbn [bind].
  change (1 =? 0) with false. change (1 <? 0) with false. cbn iota.
  assert (cdiv (zlen enc) 1 = zlen enc) as -> by (unfold cdiv; rewrite Z.div_1_r; lia).
  change (Z.to_nat 1) with 1%nat. cbn [chunks number_parts map].
  rewrite firstn_all2 by (unfold zlen; lia).
  eexists. split; [reflexivity|].
  rewrite multi_parse_str_refines. cbn [mapr]. rewrite str_fields_fmt.
  2:{ unfold wf_part. cbn [p_form p_x p_y p_chk p_payload].
      split; [exact (gchar_plain _ G2)|]. split; [exact (gchar_plain _ G1)|].
      right. right. split; [reflexivity|]. split; lia. }
  cbn [bind]. unfold multi_parse. cbn [mp_loop].
  rewrite (parse_part_4 (0 + 1) 1 chk enc ltac:(lia) G2 L2 G1). cbn [bind].
  change (0 + 1 =? 0 + 1) with true. change (0 =? 0) with true. cbn [negb].
  cbn [bind]. unfold rev'. cbn [rev_append concat]. rewrite app_nil_r.
  rewrite (bcur_decode_ok sha256 d enc chk cbor (Some chk) DC D1 D2) by auto. cbn [bind].
  rewrite (bcur_init_ok sha256 d enc chk None (Some chk) EE) by auto. reflexivity.
Qed.

End WithHashMisc.

(* a function satisfying the two hypotheses on sha256 used above (for the non-vacuity examples) *)
Lemma toy_hash_hyps :
  (forall x : bytes, bytes_ok (repeatz (zlen x mod 256) 32)) /\
  (forall x : bytes, length (repeatz (zlen x mod 256) 32) = 32%nat).
Proof.
  split; intros x; [|apply repeatz_length].
  apply bytes_ok_repeatz. unfold byte_ok. apply Z.mod_pos_bound. lia.
Qed.

(* ---------- strings of two different messages mixed ---------- *)

Section WithHashMix.
Variable sha256 : bytes -> bytes.
Hypothesis sha_ok : forall x, bytes_ok (sha256 x).
Hypothesis sha_len : forall x, length (sha256 x) = 32%nat.

(* every string BCURMulti.encode produces parses to a form-4 header carrying the checksum text *)
Lemma encoded_string_fields d m ss s enc chk :
  bytes_ok d -> zlen d < 4294967296 -> 1 <= m ->
  multi_encode_str sha256 d m true = Ok ss -> bcur_encode sha256 d = Ok (enc, chk) -> In s ss ->
  exists p, str_fields s = Ok p /\ p_form p = 4 /\ lower (p_chk p) = chk.
Proof.
  intros HB HLd Hm HE EE0 HI.
  destruct (multi_encode_shape sha256 sha_ok sha_len d m HB HLd Hm)
    as [enc' [chk' [cs [n [EE [ME [CC [GF [NE [ZL [Hn [Gc Lc]]]]]]]]]]]].
  rewrite EE0 in EE. injection EE as <- <-.
  revert HE. unfold multi_encode_str. rewrite ME. cbn [bind]. intros [= <-].
  apply in_map_iff in HI as [p [<- Hp]].
  assert (WF : Forall wf_part (number_parts cs 0 n chk)).
  { apply number_parts_wf; try lia; [exact (gchar_plain _ Gc)|].
    eapply Forall_impl; [|exact GF]. exact gchar_plain. }
  rewrite Forall_forall in WF. exists p. split; [exact (str_fields_fmt p (WF p Hp))|].
  destruct (number_parts_spec cs 0 n chk) as [_ [_ N3]]. rewrite Forall_forall in N3.
  destruct (N3 p Hp) as [F4 [_ ->]]. split; [exact F4|exact (gchar_lower _ Gc)].
Qed.

(* ANY list of strings taken from the strings of TWO encoded messages (any chunk sizes, any
   order): if accepted, the result is the payload of the message the FIRST string belongs to,
   or a SHA-256 collision is exhibited — never a third value *)
Theorem multi_str_mixed d1 d2 m1 m2 ss1 ss2 ss' d' :
  bytes_ok d1 -> zlen d1 < 4294967296 -> 1 <= m1 ->
  bytes_ok d2 -> zlen d2 < 4294967296 -> 1 <= m2 ->
  multi_encode_str sha256 d1 m1 true = Ok ss1 ->
  multi_encode_str sha256 d2 m2 true = Ok ss2 ->
  Forall (fun s => In s ss1 \/ In s ss2) ss' ->
  multi_parse_str sha256 ss' = Ok d' ->
  d' = d1 \/ d' = d2 \/
  exists d cbor cbor', (d = d1 \/ d = d2) /\ cbor_encode d = Ok cbor /\ cbor' <> cbor /\
                       sha256 cbor' = sha256 cbor.
Proof.
  intros HB1 HL1 Hm1 HB2 HL2 Hm2 HE1 HE2 HF HP.
  destruct ss' as [|s t]; [rewrite multi_parse_str_nil in HP; discriminate|].
  inversion HF as [|? ? HI _]; subst.
  destruct (bcur_encode_facts sha256 sha_ok sha_len d1 HB1 HL1) as [e1 [c1 [_ [EE1 _]]]].
  destruct (bcur_encode_facts sha256 sha_ok sha_len d2 HB2 HL2) as [e2 [c2 [_ [EE2 _]]]].
  destruct HI as [HI|HI].
  - destruct (encoded_string_fields d1 m1 ss1 s e1 c1 HB1 HL1 Hm1 HE1 EE1 HI) as [p [SF [F4 HC]]].
    destruct (str_reassembly_exact_or_collision sha256 sha_ok s t p d1 e1 c1 d' EE1 SF (or_intror F4) HC HP)
      as [->|[cb [cb' [A [B C]]]]]; [now left|].
    right. right. exists d1, cb, cb'. auto.
  - destruct (encoded_string_fields d2 m2 ss2 s e2 c2 HB2 HL2 Hm2 HE2 EE2 HI) as [p [SF [F4 HC]]].
    destruct (str_reassembly_exact_or_collision sha256 sha_ok s t p d2 e2 c2 d' EE2 SF (or_intror F4) HC HP)
      as [->|[cb [cb' [A [B C]]]]]; [right; now left|].
    right. right. exists d2, cb, cb'. auto.
Qed.

End WithHashMix.
