(* Proofs/C04DeepP.v — compositions stated about the outermost functions (C04): canonical bytes in
   the middle of a stream, parse_hex and the fetcher's text layer for API-built transactions whose
   data are byte strings, the fetch history over networks from an empty cache. *)
From Coq Require Import String.
From V Require Import Base.Prelude Base.Ints Base.Disp Model.Helper Model.Script Model.Tx Model.Fetcher
  Model.FetcherNet Model.TxStream Spec.ScriptCanon Spec.TxSmall
  Proofs.HelperP Proofs.ScriptP Proofs.TxP Proofs.TxidP Proofs.TxStreamP Proofs.ScriptCanonP
  Proofs.TxCanonP Proofs.TxBytesOkP Proofs.FetcherNetP Proofs.TxObsP.
Open Scope Z_scope.
Open Scope list_scope.

(* a canonically encoded transaction anywhere in a stream, followed by anything *)
Lemma canonical_tx_mid_stream b :
  canon_tx_bytes b ->
  exists t, tx_strictb t = true /\ tx_serialize t = Ok b /\
    forall pre rest, tx_parse_st (st_at pre (b ++ rest)) = Ok (t, st_at (pre ++ b) rest).
Proof.
  intros C. destruct (canon_tx_bytes_roundtrip b C) as [t [S [E P]]]. exists t.
  split; [exact S|]. split; [exact E|]. intros pre rest. rewrite tx_parse_st_run. apply st_run_mid, P.
Qed.

(* the canonical encodings are exactly the serialisations of strict transactions within MAX_SIZE *)
Lemma serialised_is_canonical b :
  (exists t, tx_strictb t = true /\ tx_smallb t = true /\ (t_segwit t = true \/ t_ins t <> []) /\
             tx_serialize t = Ok b) -> canon_tx_bytes b.
Proof.
  intros [t [S [Sm [Z E]]]]. apply (tx_serialize_canon_bytes t b); try assumption.
  unfold tx_strictb in S. split_andb. assumption.
Qed.

Lemma push_forms_parse d :
  (1 <= zlen d <= 75 -> parse_raw (zlen d :: d) = Ok (mk_script [Push d])) /\
  (zlen d < 256 -> parse_raw (76 :: zlen d :: d) = Ok (mk_script [Push d])) /\
  (zlen d < 65536 -> parse_raw (77 :: to_le 2 (zlen d) ++ d) = Ok (mk_script [Push d])) /\
  (zlen d < 4294967296 -> parse_raw (78 :: to_le 4 (zlen d) ++ d) = Ok (mk_script [Push d])).
Proof.
  split; [apply parse_direct_push|]. split; [apply parse_pushdata1|].
  split; [apply parse_pushdata2|apply parse_pushdata4].
Qed.

(* Tx.parse_hex(tx.serialize().hex()) for an API-built transaction *)
Lemma parse_hex_api t b :
  tx_wfb t = true -> tx_bytesb t = true -> t_segwit t = true \/ t_ins t <> [] ->
  tx_serialize t = Ok b -> tx_parse_hex (hexlify b) = Ok (canon_tx t).
Proof.
  intros W B Z E. apply tx_parse_hex_wf; try assumption. exact (tx_serialize_bytes t b W B E).
Qed.

(* the fetcher accepts the honest answer of a server, as text *)
Lemma fetch_text_honest (hash256 : bytes -> bytes) t b h ws1 ws2 :
  tx_wfb t = true -> tx_bytesb t = true -> t_segwit t = true \/ t_ins t <> [] ->
  tx_serialize t = Ok b -> tx_hash hash256 t = Ok h ->
  Forall ascii_space ws1 -> Forall ascii_space ws2 ->
  fetch_text hash256 (ws1 ++ hexlify b ++ ws2) (hexlify h) = Ok (canon_tx t).
Proof.
  intros W B Z E Hh F1 F2. apply fetch_text_complete; try assumption.
  exact (tx_serialize_bytes t b W B E).
Qed.

(* ... and so does a whole fetch on a served network with an empty cache, which requests exactly
   <base>/tx/<id>/hex and returns the transaction labelled with the network *)
Lemma fetch_net_honest (hash256 : bytes -> bytes) t b h ws1 ws2 net base fresh :
  tx_wfb t = true -> tx_bytesb t = true -> t_segwit t = true \/ t_ins t <> [] ->
  tx_serialize t = Ok b -> tx_hash hash256 t = Ok h ->
  Forall ascii_space ws1 -> Forall ascii_space ws2 -> get_url net = Ok base ->
  fetch_net_step hash256 [] fresh (ws1 ++ hexlify b ++ ws2) (hexlify h) net =
  ([(hexlify h, (canon_tx t, net))], Ok (canon_tx t, net), Some (fetch_url base (hexlify h))).
Proof.
  intros W B Z E Hh F1 F2 U.
  rewrite (fetch_net_miss hash256 [] fresh _ _ net base U) by (right; reflexivity).
  now rewrite (fetch_text_honest hash256 t b h ws1 ws2 W B Z E Hh F1 F2).
Qed.

Lemma fetch_net_history (hash256 : bytes -> bytes) ops :
  Forall2 (fun op o => forall t n, fst o = Ok (t, n) ->
             tx_id hash256 t = Ok (snd (fst op)) /\ n = snd op)
          ops (fetch_net_run hash256 [] ops).
Proof. apply fetch_net_run_sound, ncache_ok_nil. Qed.

(* ================= Script.parse argument check, constructor defaults ================= *)
Lemma script_parse_args_spec :
  (forall s, script_parse_args (Some s) None = '(sc, rest) <- parse_script s ;; Ok (sc, Some rest)) /\
  (forall r, script_parse_args None (Some r) = sc <- parse_raw r ;; Ok (sc, None)) /\
  (forall s, script_parse_args (Some s) (Some []) = Ok (mk_script [], Some s)) /\
  (forall s x r, script_parse_args (Some s) (Some (x :: r)) = Err) /\
  script_parse_args None None = Err.
Proof. repeat split. Qed.

(* TxIn(prev_tx, prev_index): 41 bytes — reversed hash, index, empty script, ffffffff *)
Lemma txin_default_layout pt pi :
  length pt = 32%nat -> u32b pi = true ->
  txin_wfb (txin_default pt pi) = true /\
  cmds_strictb (s_cmds (i_script (txin_default pt pi))) = true /\
  txin_serialize (txin_default pt pi) = Ok (rev pt ++ to_le 4 pi ++ [0] ++ [255; 255; 255; 255]).
Proof.
  intros L U. split; [|split; [reflexivity|]].
  - unfold txin_wfb, txin_default. cbn [i_prev_tx i_prev_index i_script i_sequence i_witness].
    rewrite L, U. reflexivity.
  - unfold txin_serialize, txin_default. cbn [i_prev_tx i_prev_index i_script i_sequence].
    rewrite (int_to_le_ok pi 4) by (apply u32b_range; exact U). reflexivity.
Qed.

(* ================= the textual id binds the non-witness bytes ================= *)
Lemma hexlify_inj a b : bytes_ok a -> bytes_ok b -> hexlify a = hexlify b -> a = b.
Proof.
  intros A B E. pose proof (fromhex_hexlify a A) as Ha. pose proof (fromhex_hexlify b B) as Hb.
  rewrite E in Ha. congruence.
Qed.

Section TextId.
Variable hash256 : bytes -> bytes.
Hypothesis hash_bytes : forall x, bytes_ok (hash256 x).

(* two transactions with the same textual id have the same witness-stripped serialisation, or
   exhibit a hash256 collision *)
Lemma tx_id_binding t1 t2 s :
  tx_id hash256 t1 = Ok s -> tx_id hash256 t2 = Ok s ->
  (exists b, serialize_legacy t1 = Ok b /\ serialize_legacy t2 = Ok b) \/
  exists x y, x <> y /\ hash256 x = hash256 y.
Proof.
  unfold tx_id, tx_hash. intros H1 H2.
  apply bind_ok in H1 as [h1 [H1 E1]]. apply bind_ok in H1 as [b1 [S1 H1]].
  apply bind_ok in H2 as [h2 [H2 E2]]. apply bind_ok in H2 as [b2 [S2 H2]].
  inversion H1; subst h1. inversion H2; subst h2. inversion E1 as [X1]. inversion E2 as [X2].
  rewrite <- X2 in X1. apply hexlify_inj in X1; try (apply bytes_ok_rev, hash_bytes).
  apply rev_inj in X1.
  destruct (list_eq_dec Z.eq_dec b1 b2) as [->|N]; [left; exists b2; split; assumption|].
  right. exists b1, b2. split; assumption.
Qed.

(* whatever two servers (or one server at two times) answered: two accepted answers for one id
   carry the same non-witness bytes, or a collision is exhibited *)
Lemma fetch_unique resp1 resp2 id t1 t2 :
  fetch_text hash256 resp1 id = Ok t1 -> fetch_text hash256 resp2 id = Ok t2 ->
  (exists b, serialize_legacy t1 = Ok b /\ serialize_legacy t2 = Ok b) \/
  exists x y, x <> y /\ hash256 x = hash256 y.
Proof.
  intros F1 F2. apply fetch_text_sound in F1, F2. exact (tx_id_binding t1 t2 id F1 F2).
Qed.

(* for well-formed objects: the same non-witness data up to the empty-push normalisation *)
Lemma tx_id_binding_wf t1 t2 s :
  tx_wfb t1 = true -> tx_wfb t2 = true ->
  tx_id hash256 t1 = Ok s -> tx_id hash256 t2 = Ok s ->
  nonwitness_eq (canon_tx t1) (canon_tx t2) \/ exists x y, x <> y /\ hash256 x = hash256 y.
Proof.
  intros W1 W2 H1 H2. destruct (tx_id_binding t1 t2 s H1 H2) as [[b [E1 E2]]|C]; [left|right; exact C].
  exact (serialize_legacy_inj_canon t1 t2 b W1 W2 E1 E2).
Qed.
End TextId.

(* ================= the previous output an input reads its value / scriptPubKey from ============ *)
Section Prevout.
Variable hash256 : bytes -> bytes.
Hypothesis hash_bytes : forall x, bytes_ok (hash256 x).

(* TxIn.value() / TxIn.script_pubkey() on a fresh input, starting from an empty cache, whatever the
   server answers: the amount and script come from output #prev_index of a transaction whose HASH
   is the input's prev_tx *)
Lemma txin_prevout_hash i net resp c' o u :
  bytes_ok (i_prev_tx i) -> txin_prevout hash256 [] i net resp = (c', Ok o, u) ->
  exists t, tx_hash hash256 t = Ok (i_prev_tx i) /\ py_index (t_outs t) (i_prev_index i) = Ok o.
Proof.
  intros B H. destruct (txin_prevout_sound hash256 [] i net resp c' o u (ncache_ok_nil hash256) H)
    as [t [Hid [Hix _]]].
  exists t. split; [|exact Hix]. unfold tx_id in Hid. apply bind_ok in Hid as [h [Hh E]].
  inversion E as [X]. rewrite Hh. f_equal. apply hexlify_inj; [|exact B|exact X].
  unfold tx_hash in Hh. apply bind_ok in Hh as [b [_ Hh]]. inversion Hh. apply bytes_ok_rev, hash_bytes.
Qed.
End Prevout.
