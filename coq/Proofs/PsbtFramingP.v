(* Proofs/PsbtFramingP.v — the outer framing of the byte format: the magic and the separator are
   checked exactly; compact-size length prefixes are NOT required to be minimal (different byte
   strings load as the same PSBT; the serialiser always writes the minimal form). *)
From V Require Import Base.Prelude Base.Ints Model.Helper Model.Script Model.Tx Model.Psbt
  Proofs.HelperP Proofs.PsbtDictP Proofs.PsbtFinalP.

Lemma firstn_skipn_eq {A} n (l a b : list A) : firstn n l = a -> skipn n l = b -> l = a ++ b.
Proof. intros <- <-. symmetry. apply firstn_skipn. Qed.

(* PSBT.parse accepts only streams that start with "psbt" 0xff *)
Theorem psbt_parse_magic hash160 sha256 hash256 sec_ok sig_parse_ok ecdsa_verify sighash_legacy
        sighash_segwit verify_input descends s p n :
  psbt_parse hash160 sha256 hash256 sec_ok sig_parse_ok ecdsa_verify sighash_legacy sighash_segwit
             verify_input descends s = Ok (p, n) ->
  exists rest, s = magic ++ rest.
Proof.
  unfold psbt_parse, read. intros H.
  apply bind_ok in H as [u0 [H0 H]]. apply bind_ok in H as [u1 [H1 _]].
  apply check_ok' in H0. apply check_ok' in H1. apply beq_eq in H0. apply beq_eq in H1.
  exists (skipn 5 s). 
  assert (E : firstn 5 s = magic).
  { rewrite <- (firstn_skipn 4 (firstn 5 s)). rewrite H0, H1. reflexivity. }
  rewrite <- E. symmetry. apply firstn_skipn.
Qed.

(* and the serialiser writes them *)
Theorem psbt_serialize_magic p b : psbt_serialize p = Ok b -> exists rest, b = magic ++ rest.
Proof.
  unfold psbt_serialize. intros H. apply bind_ok in H as [g [_ H]]. apply bind_ok in H as [i [_ H]].
  apply bind_ok in H as [o [_ H]]. inversion H; subst. exists (g ++ i ++ o). reflexivity.
Qed.

(* compact sizes need not be minimal: 0xfd 0x01 0x00 is read as 1 *)
Theorem kv_parse_nonminimal_length_refuted :
  kv_parse [1; 7; 1; 9; 0] = Ok ([([7], [9])], []) /\
  kv_parse [253; 1; 0; 7; 254; 1; 0; 0; 0; 9; 0] = Ok ([([7], [9])], []) /\
  kv_serialize [([7], [9])] = Ok [1; 7; 1; 9; 0].
Proof. repeat split; vm_compute; reflexivity. Qed.
