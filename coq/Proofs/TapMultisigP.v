(* Proofs/TapMultisigP.v — the k-of-n tapscript  <x1> CHECKSIG <x2> CHECKSIGADD … <xn> CHECKSIGADD OP_k OP_EQUAL
   (MultiSigTapScript) accepts exactly when precisely k of the n (key, signature) pairs verify (C06). *)
From V Require Import Base.Prelude Base.Ints Model.Helper Model.Script Model.Op Model.Interp
  Model.Pecc Model.Taproot Model.Verify Proofs.OpP Proofs.VerifyP.

Definition tap_multisig_script (k : Z) (keys : list bytes) : list cmd :=
  match keys with
  | [] => []
  | x1 :: xs => Push x1 :: Op 172 :: flat_map (fun x => [Push x; Op 186]) xs ++ [Op (80 + k); Op 135]
  end.

Section Tap.
Variable C : curve.
Variables ripemd160 sha1 sha256 hash160 hash256 : bytes -> bytes.
Variable so : sigops.
Variable c : txctx.
Variable witness : list bytes.

Notation vloop := (vloop C ripemd160 sha1 sha256 hash160 hash256 so c witness).
Notation table := (table ripemd160 sha1 sha256 hash160 hash256 so).

(* what one (key, signature) pair contributes: Err = the op code raises *)
Definition pair_ok (x sg : bytes) : result bool :=
  if negb (so_xonly_ok so x) then Err
  else match sg with
       | [] => Ok false
       | _ => if negb (schnorr_form_ok sg) then Err          (* BIP341 signature form *)
              else so_schnorr so x (fst (schnorr_split sg)) (snd (schnorr_split sg))
       end.

Fixpoint count_ok (keys sigs : list bytes) : result Z :=
  match keys, sigs with
  | [], [] => Ok 0
  | x :: ks, sg :: ss =>
      b <- pair_ok x sg ;; n <- count_ok ks ss ;; Ok ((if b then 1 else 0) + n)
  | _, _ => Err
  end.

Lemma checksigadd_step x en sg r :
  op_checksigadd_schnorr so (x :: en :: sg :: r) =
  b <- pair_ok x sg ;; Ok (encode_num (if b then decode_num en + 1 else decode_num en) :: r).
Proof.
  unfold op_checksigadd_schnorr, pair_ok.
  destruct (so_xonly_ok so x); cbn [negb bind]; [|reflexivity].
  destruct sg as [|g0 g]; cbn [bind]; [reflexivity|].
  destruct (negb (schnorr_form_ok (g0 :: g))); [reflexivity|].
  destruct (schnorr_split (g0 :: g)) as [sg' ht]. cbn [fst snd].
  destruct (so_schnorr so x sg' ht) as [[|]|]; reflexivity.
Qed.

Lemma checksig_step x sg r :
  op_checksig_schnorr so (x :: sg :: r) =
  b <- pair_ok x sg ;; Ok (encode_num (if b then 1 else 0) :: r).
Proof.
  unfold op_checksig_schnorr, pair_ok.
  destruct (so_xonly_ok so x); cbn [negb bind]; [|reflexivity].
  destruct sg as [|g0 g]; cbn [bind]; [reflexivity|].
  destruct (negb (schnorr_form_ok (g0 :: g))); [reflexivity|].
  destruct (schnorr_split (g0 :: g)) as [sg' ht]. cbn [fst snd].
  destruct (so_schnorr so x sg' ht) as [[|]|]; reflexivity.
Qed.

(* the CHECKSIGADD chain adds the number of verifying pairs to the counter *)
Lemma chain_sound xs : forall fuel tail sigs acc r a,
  length sigs = length xs ->
  vloop fuel (flat_map (fun x => [Push x; Op 186]) xs ++ tail) (encode_num acc :: sigs ++ r) a (fl_off true) = OTrue ->
  exists n fuel', count_ok xs sigs = Ok n /\
    vloop fuel' tail (encode_num (acc + n) :: r) a (fl_off true) = OTrue.
Proof.
  induction xs as [|x xs IH]; intros fuel tail sigs acc r a Hl H.
  - destruct sigs; [|discriminate Hl]. exists 0, fuel. split; [reflexivity|].
    cbn [flat_map app] in H. now rewrite Z.add_0_r.
  - destruct sigs as [|sg sigs]; [discriminate Hl|]. cbn [length] in Hl. injection Hl as Hl.
    cbn [flat_map app] in H.
    destruct fuel as [|fuel]; [discriminate H|].
    cbn [Verify.vloop] in H. rewrite after_push_off in H.
    destruct fuel as [|fuel]; [discriminate H|].
    cbn [Verify.vloop f_tap fl_off] in H. unfold exec_op in H.
    change (table true 186) with (Some (FTx (fun _ => op_checksigadd_schnorr so))) in H. cbv iota beta in H.
    cbn [app] in H. rewrite checksigadd_step in H. rewrite decode_encode in H.
    destruct (pair_ok x sg) as [b|] eqn:Eb; cbn [bind] in H; [|discriminate H].
    destruct (IH fuel tail sigs (if b then acc + 1 else acc) r a Hl H) as (n & f' & Hc & Hv).
    exists ((if b then 1 else 0) + n), f'. split.
    + cbn [count_ok]. rewrite Eb, Hc. reflexivity.
    + destruct b; [replace (acc + (1 + n)) with (acc + 1 + n) by lia|]; exact Hv.
Qed.

Lemma encode_num_inj a b : encode_num a = encode_num b -> a = b.
Proof. intros H. rewrite <- (decode_encode a), <- (decode_encode b). now rewrite H. Qed.

(* n >= 2 keys: accepted only if every pair could be evaluated and exactly k of them verify *)
Theorem tap_multisig_sound k x1 xs fuel sigs r a :
  1 <= k <= 16 -> length sigs = S (length xs) ->
  vloop fuel (tap_multisig_script k (x1 :: xs)) (sigs ++ r) a (fl_off true) = OTrue ->
  count_ok (x1 :: xs) sigs = Ok k.
Proof.
  intros Hk Hl H. unfold tap_multisig_script in H.
  destruct sigs as [|sg sigs]; [discriminate Hl|]. cbn [length] in Hl. injection Hl as Hl.
  destruct fuel as [|fuel]; [discriminate H|].
  cbn [Verify.vloop app] in H. rewrite after_push_off in H.
  destruct fuel as [|fuel]; [discriminate H|].
  cbn [Verify.vloop f_tap fl_off] in H. unfold exec_op in H.
  change (table true 172) with (Some (FTx (fun _ => op_checksig_schnorr so))) in H. cbv iota beta in H.
  rewrite checksig_step in H.
  destruct (pair_ok x1 sg) as [b|] eqn:Eb; cbn [bind] in H; [|discriminate H].
  destruct (chain_sound xs fuel _ sigs (if b then 1 else 0) r a Hl H) as (n & f' & Hc & Hv).
  cbn [count_ok]. rewrite Eb, Hc. cbn [bind]. f_equal.
  (* OP_k OP_EQUAL *)
  destruct f' as [|f']; [discriminate Hv|].
  cbn [Verify.vloop f_tap fl_off] in Hv. unfold exec_op in Hv.
  assert (table true (80 + k) = Some (FStack (op_push_num k))) as Ht.
  { assert (In k [1;2;3;4;5;6;7;8;9;10;11;12;13;14;15;16]) as Hin by (cbn; lia).
    cbn [In] in Hin. repeat (destruct Hin as [<-|Hin]; [reflexivity|]). contradiction. }
  rewrite Ht in Hv. cbn [op_push_num bind] in Hv.
  destruct f' as [|f']; [discriminate Hv|].
  cbn [Verify.vloop f_tap fl_off] in Hv. unfold exec_op in Hv.
  change (table true 135) with (Some (FStack op_equal)) in Hv. cbv iota beta in Hv.
  cbn [op_equal bind] in Hv.
  destruct (beq (encode_num k) (encode_num ((if b then 1 else 0) + n))) eqn:E.
  - apply beq_eq in E. apply encode_num_inj in E. destruct b; lia.
  - destruct f'; cbn [Verify.vloop final_test] in Hv; rewrite enc_bool_truth in Hv; discriminate Hv.
Qed.

End Tap.
