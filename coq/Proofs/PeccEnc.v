(* Proofs/PeccEnc.v — SEC / x-only encodings of the curve model: round trips for every valid
   finite point (both compressions), x-only gives the even-y lift, and everything the parsers
   accept is a valid point with the encoded coordinates / parity.
   Hypotheses: [scalar_laws C] (only: p, n prime and odd, no y = 0, the two points above one x),
   a = 0, p = 3 mod 4 (square root by the (p+1)/4 power), p < 2^256 (32-byte coordinates). *)
From Coq Require Import Znumtheory.
From V Require Import Base.Prelude Base.Ints Base.Fermat Model.Pecc Proofs.GroupHyp
  Proofs.CurveSweep Proofs.SmallFields.

Ltac Zify.zify_post_hook ::= Z.to_euclidean_division_equations.

Lemma Ok_inj {A} (a b : A) : Ok a = Ok b -> a = b.
Proof. now intros [= ->]. Qed.

Section Enc.
Variable C : curve.
Hypothesis SL : scalar_laws C.
Let p := cp C.
Hypothesis Ha : ca C = 0.
Hypothesis Hp4 : p mod 4 = 3.
Hypothesis Hp256 : p < pow256 32.

Lemma p_prime : prime p. Proof. exact (sl_p_prime C SL). Qed.
Lemma p_gt2 : 2 < p. Proof. exact (sl_p_odd C SL). Qed.

Definition alpha (x : Z) : Z := fadd C (fpow C x 3) (cb C).

Lemma valid_inv x y : valid C (Some (x, y)) ->
  0 <= x < p /\ 0 <= y < p /\ (y * y) mod p = alpha x.
Proof.
  intros (Hx & Hy & Hc). apply felem_ok_range in Hx, Hy. fold p in Hx, Hy.
  repeat split; try lia.
  unfold on_curve in Hc. apply Z.eqb_eq in Hc. rewrite fpow_2 in Hc. unfold fmul in Hc at 1.
  fold p in Hc. rewrite Hc. unfold alpha. rewrite Ha. unfold fmul, fadd. fold p.
  rewrite Z.mul_0_l, Z.mod_0_l by (pose proof p_gt2; lia). rewrite Z.add_0_r.
  unfold fpow. cbn [Z.leb Z.compare]. rewrite (Z.mod_small (modpow x 3 (cp C)) p).
  - reflexivity.
  - apply modpow_range; pose proof p_gt2; fold p; lia.
Qed.

Lemma valid_intro x y : 0 <= x < p -> 0 <= y < p -> (y * y) mod p = alpha x -> valid C (Some (x, y)).
Proof.
  intros Hx Hy E. cbn. rewrite !(proj2 (felem_ok_range C _)) by (fold p; lia).
  repeat split. unfold on_curve. apply Z.eqb_eq. rewrite fpow_2. unfold fmul at 1. fold p. rewrite E.
  unfold alpha. rewrite Ha. unfold fmul, fadd. fold p.
  rewrite Z.mul_0_l, Z.mod_0_l by (pose proof p_gt2; lia). rewrite Z.add_0_r.
  unfold fpow. cbn [Z.leb Z.compare]. rewrite (Z.mod_small (modpow x 3 (cp C)) p).
  - reflexivity.
  - apply modpow_range; pose proof p_gt2; fold p; lia.
Qed.

(* S256Field.sqrt succeeds on the right-hand side of every curve point and yields a curve point *)
Lemma fsqrt_ok x y : valid C (Some (x, y)) ->
  exists beta, fsqrt C (alpha x) = Ok beta /\ 0 < beta < p /\ (beta = y \/ beta = p - y).
Proof.
  intros Hv. destruct (valid_inv x y Hv) as (Hx & Hy & E).
  pose proof p_gt2 as Hp2. pose proof p_prime as Hpp.
  assert (He : 0 <= (p + 1) / 4) by (apply Z.div_pos; lia).
  set (s := modpow (alpha x) ((p + 1) / 4) p).
  assert (Hs : (s * s) mod p = alpha x).
  { unfold s. rewrite <- E. apply sqrt_p34; assumption. }
  assert (Hr : 0 <= s < p) by (apply modpow_range; lia).
  assert (Hf : fsqrt C (alpha x) = Ok s).
  { unfold fsqrt. fold p. unfold fpow. fold p.
    destruct (0 <=? (p + 1) / 4) eqn:E0; [|apply Z.leb_gt in E0; lia].
    fold s. unfold fmul. fold p. rewrite Hs. now rewrite Z.eqb_refl. }
  assert (Hvs : valid C (Some (x, s))) by (apply valid_intro; assumption).
  assert (Hy0 : y <> 0) by exact (sl_no_y0 C SL x y Hv).
  assert (Hs0 : s <> 0) by exact (sl_no_y0 C SL x s Hvs).
  exists s. split; [exact Hf|]. split; [lia|].
  destruct (sl_same_x C SL x y s Hv Hvs) as [-> | ->]; [now left|right].
  fold p. symmetry. apply Z.mod_unique with (q := -1); lia.
Qed.

Lemma p_odd : p mod 2 = 1.
Proof. lia. Qed.

Lemma xb_facts x : 0 <= x < p -> length (to_be 32 x) = 32%nat /\ from_be (to_be 32 x) = x.
Proof. intros Hx. split; [apply to_be_length|apply from_be_to_be; lia]. Qed.

(* ---------- compressed SEC ---------- *)
Lemma parse_sec_compressed x y : valid C (Some (x, y)) ->
  parse_sec C ((if y mod 2 =? 1 then 3 else 2) :: to_be 32 x) = Ok (Some (x, y)).
Proof.
  intros Hv. destruct (valid_inv x y Hv) as (Hx & Hy & E).
  destruct (fsqrt_ok x y Hv) as (beta & Hs & Hb & Hcase).
  destruct (xb_facts x Hx) as [Hlen Hfrom].
  pose proof p_odd as Hodd.
  assert (Hy0 : y <> 0) by exact (sl_no_y0 C SL x y Hv).
  assert (Hon : on_curve C x y = true) by (destruct Hv as (_ & _ & H); exact H).
  unfold parse_sec. remember (to_be 32 x) as xb eqn:Exb.
  cbn [length]. rewrite Hlen. change (33 =? 65)%nat with false. change (33 =? 33)%nat with true.
  rewrite andb_false_r. cbn [negb].
  assert (Hpre : ((if y mod 2 =? 1 then 3 else 2) =? 2) || ((if y mod 2 =? 1 then 3 else 2) =? 3) = true)
    by (destruct (y mod 2 =? 1); reflexivity).
  rewrite Hpre. cbn [negb orb]. rewrite Hfrom.
  rewrite (proj2 (felem_ok_range C x)) by (fold p; lia). cbn [negb].
  fold p. fold (alpha x). rewrite Hs. cbn [bind].
  assert (F1 : forall z, 0 < z < p -> felem_ok C z = true) by (intros z Hz; apply felem_ok_range; fold p; lia).
  destruct (y mod 2 =? 1) eqn:Ey; [apply Z.eqb_eq in Ey|apply Z.eqb_neq in Ey];
  destruct (beta mod 2 =? 0) eqn:Eb; [apply Z.eqb_eq in Eb|apply Z.eqb_neq in Eb| apply Z.eqb_eq in Eb|apply Z.eqb_neq in Eb];
  rewrite !F1 by lia; cbn [negb orb]; unfold mk_point.
  - change (3 =? 2) with false. cbv iota. replace (p - beta) with y by lia. now rewrite Hon.
  - change (3 =? 2) with false. cbv iota. replace beta with y by lia. now rewrite Hon.
  - change (2 =? 2) with true. cbv iota. replace beta with y by lia. now rewrite Hon.
  - change (2 =? 2) with true. cbv iota. replace (p - beta) with y by lia. now rewrite Hon.
Qed.

(* ---------- uncompressed SEC ---------- *)
Lemma parse_sec_uncompressed x y : valid C (Some (x, y)) ->
  parse_sec C (4 :: to_be 32 x ++ to_be 32 y) = Ok (Some (x, y)).
Proof.
  intros Hv. destruct (valid_inv x y Hv) as (Hx & Hy & E).
  destruct (xb_facts x Hx) as [Hlx Hfx]. destruct (xb_facts y Hy) as [Hly Hfy].
  assert (Hon : on_curve C x y = true) by (destruct Hv as (_ & _ & H); exact H).
  unfold parse_sec. remember (to_be 32 x) as xb. remember (to_be 32 y) as yb.
  cbn [length]. rewrite app_length, Hlx, Hly. change (S (32 + 32) =? 65)%nat with true.
  change (4 =? 4) with true. cbn [andb].
  rewrite firstn_app, Hlx. change (32 - 32)%nat with 0%nat. rewrite firstn_O, app_nil_r.
  rewrite <- Hlx at 1. rewrite firstn_all.
  rewrite skipn_app, Hlx. change (32 - 32)%nat with 0%nat. rewrite skipn_O.
  rewrite <- Hlx at 1. rewrite skipn_all. cbn [app].
  rewrite Hfx, Hfy. unfold mk_point_int, mk_point.
  rewrite !(proj2 (felem_ok_range C _)) by (fold p; lia). cbn [andb]. now rewrite Hon.
Qed.

(* parse_sec (sec P c) = P for every valid finite point, both compressions *)
Theorem parse_sec_sec x y c s : valid C (Some (x, y)) ->
  sec (Some (x, y)) c = Ok s -> parse_sec C s = Ok (Some (x, y)).
Proof.
  intros Hv Hs. unfold sec in Hs. destruct c; apply Ok_inj in Hs; subst s.
  - now apply parse_sec_compressed.
  - now apply parse_sec_uncompressed.
Qed.

Theorem parse_point_sec x y c s : valid C (Some (x, y)) ->
  sec (Some (x, y)) c = Ok s -> parse_point C s = Ok (Some (x, y)).
Proof.
  intros Hv Hs. pose proof (parse_sec_sec x y c s Hv Hs) as H.
  assert (Hl : length s = 33%nat \/ length s = 65%nat).
  { unfold sec in Hs. destruct c; apply Ok_inj in Hs; subst s.
    - left. remember (to_be 32 x) as xb eqn:E1. cbn [length]. now rewrite E1, to_be_length.
    - right. remember (to_be 32 x) as xb eqn:E1. remember (to_be 32 y) as yb eqn:E2.
      cbn [length]. now rewrite app_length, E1, E2, !to_be_length. }
  unfold parse_point. destruct Hl as [Hl|Hl]; rewrite Hl.
  - change (33 =? 32)%nat with false. change (33 =? 33)%nat with true. cbn [orb]. exact H.
  - change (65 =? 32)%nat with false. change (65 =? 33)%nat with false.
    change (65 =? 65)%nat with true. cbn [orb]. exact H.
Qed.

(* ---------- x-only ---------- *)
Definition even_lift (y : Z) : Z := if y mod 2 =? 0 then y else p - y.

Theorem parse_xonly_xonly x y : valid C (Some (x, y)) -> x <> 0 ->
  parse_xonly C (xonly (Some (x, y))) = Ok (Some (x, even_lift y)).
Proof.
  intros Hv Hx0. destruct (valid_inv x y Hv) as (Hx & Hy & E).
  destruct (fsqrt_ok x y Hv) as (beta & Hs & Hb & Hcase).
  destruct (xb_facts x Hx) as [Hlen Hfrom].
  pose proof p_odd as Hodd.
  assert (Hy0 : y <> 0) by exact (sl_no_y0 C SL x y Hv).
  assert (Hon : on_curve C x y = true) by (destruct Hv as (_ & _ & H); exact H).
  assert (Hvn : valid C (negT C (Some (x, y)))) by exact (sl_neg_valid C SL _ Hv).
  assert (Hon' : on_curve C x (p - y) = true).
  { cbn in Hvn. fold p in Hvn. replace ((- y) mod p) with (p - y) in Hvn
      by (apply Z.mod_unique with (q := -1); lia). tauto. }
  unfold parse_xonly, xonly. rewrite Hfrom.
  apply Z.eqb_neq in Hx0. rewrite Hx0.
  rewrite (proj2 (felem_ok_range C x)) by (fold p; lia). cbn [negb].
  fold p. fold (alpha x). rewrite Hs. cbn [bind].
  assert (F1 : forall z, 0 < z < p -> felem_ok C z = true) by (intros z Hz; apply felem_ok_range; fold p; lia).
  unfold even_lift, mk_point.
  destruct (beta mod 2 =? 1) eqn:Eb; [apply Z.eqb_eq in Eb|apply Z.eqb_neq in Eb];
  destruct (y mod 2 =? 0) eqn:Ey; [apply Z.eqb_eq in Ey|apply Z.eqb_neq in Ey|apply Z.eqb_eq in Ey|apply Z.eqb_neq in Ey].
  - rewrite F1 by lia. replace (p - beta) with y by lia. now rewrite Hon.
  - rewrite F1 by lia. replace beta with y by lia. now rewrite Hon'.
  - replace beta with y by lia. now rewrite Hon.
  - replace beta with (p - y) by lia. now rewrite Hon'.
Qed.

(* ---------- soundness of the parsers: whatever is accepted is a valid point ---------- *)
Lemma mk_point_valid x y P : felem_ok C x = true -> felem_ok C y = true ->
  mk_point C x y = Ok P -> P = Some (x, y) /\ valid C P.
Proof.
  intros Hx Hy. unfold mk_point. destruct (on_curve C x y) eqn:E; [|discriminate].
  intros [= <-]. split; [reflexivity|]. cbn. auto.
Qed.

Theorem parse_sec_sound b P : parse_sec C b = Ok P ->
  valid C P /\ exists x y, P = Some (x, y) /\
    ((length b = 65%nat /\ b = 4 :: firstn 64 (skipn 1 b) /\
      x = from_be (firstn 32 (skipn 1 b)) /\ y = from_be (skipn 33 b)) \/
     (length b = 33%nat /\ exists pre, (pre = 2 \/ pre = 3) /\ b = pre :: skipn 1 b /\
      x = from_be (skipn 1 b) /\ y mod 2 = pre - 2)).
Proof.
  destruct b as [|pre rest]; [discriminate|]. unfold parse_sec.
  destruct ((pre =? 4) && (length (pre :: rest) =? 65)%nat) eqn:E1.
  - apply andb_true_iff in E1 as [E1 E2]. apply Z.eqb_eq in E1. apply Nat.eqb_eq in E2. subst pre.
    unfold mk_point_int.
    destruct (felem_ok C (from_be (firstn 32 rest)) && felem_ok C (from_be (skipn 32 rest))) eqn:E3;
      [|discriminate].
    apply andb_true_iff in E3 as [E3 E4]. intros H.
    destruct (mk_point_valid _ _ _ E3 E4 H) as [-> Hv]. split; [exact Hv|].
    eexists _, _. split; [reflexivity|]. left. cbn [skipn]. repeat split; try assumption.
    cbn [length] in E2. rewrite firstn_all2 by lia. reflexivity.
  - destruct (negb ((pre =? 2) || (pre =? 3)) || negb (length (pre :: rest) =? 33)%nat) eqn:E2;
      [discriminate|].
    apply orb_false_iff in E2 as [E2 E3]. apply negb_false_iff in E2, E3. apply Nat.eqb_eq in E3.
    destruct (negb (felem_ok C (from_be rest))) eqn:E4; [discriminate|]. apply negb_false_iff in E4.
    fold p. destruct (fsqrt C _) as [beta|] eqn:Es; [|discriminate]. cbn [bind].
    set (eb := if beta mod 2 =? 0 then beta else p - beta).
    set (ob := if beta mod 2 =? 0 then p - beta else beta).
    destruct (negb (felem_ok C eb) || negb (felem_ok C ob)) eqn:E5; [discriminate|].
    apply orb_false_iff in E5 as [E5 E6]. apply negb_false_iff in E5, E6.
    pose proof p_odd as Hodd.
    pose proof (proj1 (felem_ok_range C _) E5) as R5. pose proof (proj1 (felem_ok_range C _) E6) as R6.
    fold p in R5, R6.
    intros H. apply orb_true_iff in E2.
    destruct (pre =? 2) eqn:P2.
    + apply Z.eqb_eq in P2. destruct (mk_point_valid _ _ _ E4 E5 H) as [-> Hv]. split; [exact Hv|].
      eexists _, _. split; [reflexivity|]. right. split; [exact E3|]. exists pre. cbn [skipn].
      repeat split; auto. subst pre eb. destruct (beta mod 2 =? 0) eqn:Eb;
        [apply Z.eqb_eq in Eb|apply Z.eqb_neq in Eb]; lia.
    + destruct E2 as [E2|E2]; [discriminate|]. apply Z.eqb_eq in E2.
      destruct (mk_point_valid _ _ _ E4 E6 H) as [-> Hv]. split; [exact Hv|].
      eexists _, _. split; [reflexivity|]. right. split; [exact E3|]. exists pre. cbn [skipn].
      repeat split; auto. subst pre ob. destruct (beta mod 2 =? 0) eqn:Eb;
        [apply Z.eqb_eq in Eb|apply Z.eqb_neq in Eb]; lia.
Qed.

Theorem parse_xonly_sound b P : parse_xonly C b = Ok P ->
  valid C P /\ (P = None /\ from_be b = 0 \/ exists y, P = Some (from_be b, y) /\ y mod 2 = 0).
Proof.
  unfold parse_xonly. destruct (from_be b =? 0) eqn:E0.
  - intros [= <-]. split; [exact I|]. left. apply Z.eqb_eq in E0. auto.
  - destruct (negb (felem_ok C (from_be b))) eqn:E1; [discriminate|]. apply negb_false_iff in E1.
    fold p. destruct (fsqrt C _) as [beta|] eqn:Es; [|discriminate]. cbn [bind].
    pose proof p_odd as Hodd.
    destruct (beta mod 2 =? 1) eqn:Eb; [apply Z.eqb_eq in Eb|apply Z.eqb_neq in Eb].
    + destruct (felem_ok C (p - beta)) eqn:E2; [|discriminate]. intros H.
      destruct (mk_point_valid _ _ _ E1 E2 H) as [-> Hv]. split; [exact Hv|]. right.
      eexists. split; [reflexivity|]. lia.
    + intros H. unfold fsqrt in Es. fold p in Es.
      destruct (fmul C _ _ =? _) eqn:E3; [|discriminate]. injection Es as Es.
      assert (Hr : felem_ok C beta = true).
      { apply felem_ok_range. rewrite <- Es. unfold fpow. fold p. pose proof p_gt2.
        destruct (0 <=? (p + 1) / 4) eqn:E4.
        - apply modpow_range; [apply Z.leb_le in E4|]; fold p; lia.
        - apply modpow_range; [apply Z.mod_pos_bound|]; fold p; lia. }
      destruct (mk_point_valid _ _ _ E1 Hr H) as [-> Hv]. split; [exact Hv|]. right.
      eexists. split; [reflexivity|]. lia.
Qed.

Theorem parse_point_rejects_length b : length b <> 32%nat -> length b <> 33%nat -> length b <> 65%nat ->
  parse_point C b = Err.
Proof.
  intros H1 H2 H3. unfold parse_point. apply Nat.eqb_neq in H1, H2, H3. now rewrite H1, H2, H3.
Qed.

Theorem parse_sec_rejects_prefix pre rest :
  ~ (pre = 4 /\ length rest = 64%nat) -> ~ ((pre = 2 \/ pre = 3) /\ length rest = 32%nat) ->
  parse_sec C (pre :: rest) = Err.
Proof.
  intros H1 H2. unfold parse_sec. cbn [length].
  destruct ((pre =? 4) && (S (length rest) =? 65)%nat) eqn:E1.
  - apply andb_true_iff in E1 as [E1 E2]. apply Z.eqb_eq in E1. apply Nat.eqb_eq in E2.
    exfalso. apply H1. split; [assumption|lia].
  - destruct (negb ((pre =? 2) || (pre =? 3)) || negb (S (length rest) =? 33)%nat) eqn:E2; [reflexivity|].
    apply orb_false_iff in E2 as [E2 E3]. apply negb_false_iff in E2, E3. apply Nat.eqb_eq in E3.
    apply orb_true_iff in E2. exfalso. apply H2. split; [|lia].
    destruct E2 as [E2|E2]; apply Z.eqb_eq in E2; auto.
Qed.

End Enc.
