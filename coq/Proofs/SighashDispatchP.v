(* Proofs/SighashDispatchP.v — C05: Tx.sig_hash picks, for every standard kind of spent output,
   the algorithm the standards prescribe (BIP16/141/143/341), and the script-path data it hands to
   the BIP341 builder are those of the BIP341 witness rules. *)
From V Require Import Base.Prelude Base.Ints Model.Helper Model.Script Model.Tx Model.Sighash
  Model.SighashAbs Spec.TxData Proofs.HelperP Proofs.SighashP Proofs.SighashTaprootP.
From V Require Spec.Bip143 Spec.Bip341.

Lemma len_eqb {A} (l : list A) n : length l = n -> (length l =? n)%nat = true.
Proof. intros ->. apply Nat.eqb_refl. Qed.
Lemma len_neqb {A} (l : list A) n k : length l = n -> n <> k -> (length l =? k)%nat = false.
Proof. intros -> H. now apply Nat.eqb_neq. Qed.

(* P2PKH: the original algorithm, no redeem script (the script code is the scriptPubKey) *)
Lemma plan_p2pkh ti h :
  sig_hash_plan ti (mk_script (p2pkh_script h)) = Ok (PLegacy None).
Proof. reflexivity. Qed.

(* bare scripts (here: pay-to-pubkey): the original algorithm *)
Lemma plan_p2pk ti pk : sig_hash_plan ti (mk_script [Push pk; Op 172]) = Ok (PLegacy None).
Proof. reflexivity. Qed.

(* P2WPKH: BIP143 *)
Lemma plan_p2wpkh ti h :
  length h = 20%nat -> sig_hash_plan ti (mk_script (p2wpkh_script h)) = Ok (PBip143 None None).
Proof.
  intros Hh. unfold sig_hash_plan, p2wpkh_script. cbn [s_cmds mk_script is_p2sh is_p2wsh is_p2wpkh
    is_p2tr opt_is bind].
  rewrite (len_eqb _ _ Hh), (len_neqb h 20 32 Hh) by lia. reflexivity.
Qed.

(* P2WSH: BIP143 with the last witness item as witness script *)
Lemma plan_p2wsh ti h raw w :
  length h = 32%nat -> nth_last 0 (i_witness ti) = Some raw -> script_convert raw = Ok w ->
  sig_hash_plan ti (mk_script (p2wsh_script h)) = Ok (PBip143 None (Some w)).
Proof.
  intros Hh Hraw Hw. unfold sig_hash_plan, p2wsh_script. cbn [s_cmds mk_script is_p2sh is_p2wsh
    is_p2wpkh is_p2tr opt_is bind].
  rewrite (len_eqb _ _ Hh). cbn [orb bind]. rewrite Hraw, Hw. cbn [bind].
  rewrite (len_neqb h 32 20 Hh) by lia. reflexivity.
Qed.

Lemma is_p2wpkh_not_p2wsh c : is_p2wpkh c = true -> is_p2wsh c = false.
Proof.
  unfold is_p2wpkh, is_p2wsh.
  destruct c as [|c1 [|c2 [|c3 r]]]; try discriminate;
    destruct c1 as [o|b]; try discriminate; destruct o; try discriminate;
    destruct c2 as [o2|h]; try discriminate.
  intros H. apply Nat.eqb_eq in H. rewrite H. reflexivity.
Qed.

(* P2SH: by the redeem script, which is the last push of the scriptSig *)
Lemma plan_p2sh_p2wpkh ti h raw r :
  length h = 20%nat -> nth_last 0 (s_cmds (i_script ti)) = Some (Push raw) ->
  script_convert raw = Ok r -> is_p2wpkh (s_cmds r) = true ->
  sig_hash_plan ti (mk_script (p2sh_script h)) = Ok (PBip143 (Some r) None).
Proof.
  intros Hh Hraw Hr Hk. unfold sig_hash_plan, p2sh_script. cbn [s_cmds mk_script is_p2sh is_p2wsh
    is_p2wpkh is_p2tr].
  rewrite (len_eqb _ _ Hh), Hraw, Hr. cbn [bind opt_is orb].
  rewrite (is_p2wpkh_not_p2wsh _ Hk), Hk. reflexivity.
Qed.

Lemma plan_p2sh_p2wsh ti h raw r wraw w :
  length h = 20%nat -> nth_last 0 (s_cmds (i_script ti)) = Some (Push raw) ->
  script_convert raw = Ok r -> is_p2wsh (s_cmds r) = true ->
  nth_last 0 (i_witness ti) = Some wraw -> script_convert wraw = Ok w ->
  sig_hash_plan ti (mk_script (p2sh_script h)) = Ok (PBip143 (Some r) (Some w)).
Proof.
  intros Hh Hraw Hr Hk Hwraw Hw. unfold sig_hash_plan, p2sh_script. cbn [s_cmds mk_script is_p2sh
    is_p2wsh is_p2wpkh is_p2tr].
  rewrite (len_eqb _ _ Hh), Hraw, Hr. cbn [bind opt_is orb]. rewrite Hk, Hwraw, Hw. cbn [bind].
  now rewrite orb_true_r.
Qed.

Lemma plan_p2sh_legacy ti h raw r :
  length h = 20%nat -> nth_last 0 (s_cmds (i_script ti)) = Some (Push raw) ->
  script_convert raw = Ok r -> is_p2wpkh (s_cmds r) = false -> is_p2wsh (s_cmds r) = false ->
  sig_hash_plan ti (mk_script (p2sh_script h)) = Ok (PLegacy (Some r)).
Proof.
  intros Hh Hraw Hr Hk1 Hk2. unfold sig_hash_plan, p2sh_script. cbn [s_cmds mk_script is_p2sh
    is_p2wsh is_p2wpkh is_p2tr].
  rewrite (len_eqb _ _ Hh), Hraw, Hr. cbn [bind opt_is orb]. rewrite Hk1, Hk2. reflexivity.
Qed.

(* P2TR: BIP341; script path iff at least two elements are left once the annex is removed *)
Lemma split_annex_length w :
  zlen (snd (Bip341.split_annex w)) = zlen w - (if has_annex w then 1 else 0).
Proof.
  rewrite <- (rev_involutive w). generalize (rev w). intros l.
  unfold Bip341.split_annex, has_annex, nth_last, zlen. rewrite !rev_involutive, !rev_length.
  destruct l as [|x [|y r]]; cbn [snd length Nat.leb andb].
  - cbn. lia.
  - destruct x; cbn; lia.
  - destruct x as [|b a]; cbn [snd nth_error]; [rewrite rev_length; cbn [length]; lia|].
    destruct (b =? 80); cbn [snd]; rewrite !rev_length; cbn [length]; lia.
Qed.

Lemma plan_p2tr ti x :
  length x = 32%nat ->
  sig_hash_plan ti (mk_script (p2tr_script x)) =
  Ok (PBip341 (if 2 <=? zlen (snd (Bip341.split_annex (i_witness ti))) then 1 else 0)).
Proof.
  intros Hx. unfold sig_hash_plan, p2tr_script. cbn [s_cmds mk_script is_p2sh is_p2wsh
    is_p2wpkh is_p2tr opt_is bind orb].
  rewrite (len_eqb _ _ Hx). rewrite split_annex_length.
  destruct (1 <? zlen (i_witness ti) - (if has_annex (i_witness ti) then 1 else 0)) eqn:E1;
  destruct (2 <=? zlen (i_witness ti) - (if has_annex (i_witness ti) then 1 else 0)) eqn:E2;
    try reflexivity; lia.
Qed.

(* the script code BIP143 prescribes for P2WPKH: 76 a9 14 <h> 88 ac *)
Lemma p2wpkh_script_code_model h :
  length h = 20%nat ->
  bip143_script_code None None (Some (mk_script (p2wpkh_script h))) = Ok (mk_script (p2pkh_script h)) /\
  abs_script (mk_script (p2pkh_script h)) = Ok (Bip143.p2wpkh_script_code h).
Proof.
  intros Hh. split; [reflexivity|].
  unfold abs_script, raw_serialize, mk_script, p2pkh_script. cbn [s_raw s_cmds ser_cmds ser_cmd].
  assert (Hz : zlen h = 20) by (unfold zlen; rewrite Hh; reflexivity).
  rewrite Hz. cbn [Z.ltb Z.leb Z.compare Pos.compare Pos.compare_cont orb bind app].
  unfold Bip143.p2wpkh_script_code.
  replace (zlen (118 :: 169 :: 20 :: h ++ [136; 172])) with 25.
  2:{ unfold zlen. cbn [length]. rewrite app_length, Hh. reflexivity. }
  reflexivity.
Qed.

(* ---- the script-path data handed to the BIP341 builder ---- *)

Lemma stack_positions w c s rest :
  rev (snd (Bip341.split_annex w)) = c :: s :: rest ->
  nth_last (if has_annex w then 1 else 0) w = Some c /\
  nth_last (S (if has_annex w then 1 else 0)) w = Some s.
Proof.
  rewrite <- (rev_involutive w). generalize (rev w). intros l.
  unfold Bip341.split_annex, has_annex, nth_last. rewrite !rev_involutive, rev_length.
  destruct l as [|x [|y r]].
  - cbn. discriminate.
  - destruct x; cbn; discriminate.
  - destruct x as [|b a].
    + cbn [snd]. rewrite rev_involutive. intros H. inversion H; subst. cbn. auto.
    + destruct (b =? 80) eqn:Eb; cbn [snd]; rewrite rev_involutive; intros H; inversion H; subst.
      * cbn [length Nat.leb nth_error andb]. rewrite Eb. cbn. auto.
      * cbn [length Nat.leb nth_error andb]. rewrite Eb. cbn. auto.
Qed.

Lemma land254_byte b : 0 <= b < 256 -> int_to_byte (Z.land b 254) = Ok [Z.land b 254].
Proof.
  intros Hb. unfold int_to_byte.
  assert (0 <= Z.land b 254) by (apply Z.land_nonneg; lia).
  assert (Z.land b 254 < 256).
  { destruct (Z.eq_dec (Z.land b 254) 0) as [->|Hn]; [lia|].
    apply (Z.log2_lt_pow2 _ 8); [lia|].
    pose proof (Z.log2_land b 254 ltac:(lia) ltac:(lia)) as Hl.
    change (Z.log2 254) with 7 in Hl. lia. }
  destruct (Z.land b 254 <? 0) eqn:E1; [lia|]. destruct (255 <? Z.land b 254) eqn:E2; [lia|].
  reflexivity.
Qed.

Lemma control_block_version_spec xonly_ok c :
  Bip341.control_block_ok xonly_ok c = true -> bytes_ok c ->
  control_block_version xonly_ok c = Ok (Z.land (nth 0 c 0) 254) /\ 0 <= nth 0 c 0 < 256.
Proof.
  unfold Bip341.control_block_ok, control_block_version. intros H Hb.
  apply andb_true_iff in H as [H Hx]. apply andb_true_iff in H as [H Hm].
  apply andb_true_iff in H as [H1 H2].
  apply Z.leb_le in H1, H2. apply Z.eqb_eq in Hm.
  assert (Hmod : zlen c mod 32 = 1).
  { replace (zlen c) with ((zlen c - 33) + 33) by lia.
    rewrite Z.add_mod, Hm by lia. reflexivity. }
  rewrite Hmod. cbn [Z.eqb Pos.eqb negb].
  destruct (zlen c <? 33) eqn:E1; [lia|]. destruct (33 + 128 * 32 <? zlen c) eqn:E2; [lia|].
  cbn [orb]. destruct c as [|b0 r]; [unfold zlen in H1; cbn in H1; lia|].
  cbn [skipn] in Hx. rewrite Hx. cbn [nth]. inversion Hb; subst. auto.
Qed.

(* if the witness stack, after removing the annex, is a valid BIP341 script-path stack whose script
   is canonically encoded (parsing and re-serialising gives it back), the library hashes the
   tap leaf  version || compact_size(script) || script  of BIP341 *)
Lemma tap_leaf_spec xonly_ok w v s c ts :
  Bip341.script_path xonly_ok (snd (Bip341.split_annex w)) = Some (v, s, c) -> bytes_ok c ->
  script_convert s = Ok ts -> abs_script ts = Ok s ->
  tap_leaf_preimage xonly_ok w = Ok ([v] ++ ser_script s).
Proof.
  unfold Bip341.script_path. intros H Hb Hts Habs.
  destruct (rev (snd (Bip341.split_annex w))) as [|c' [|s' rest]] eqn:E; try discriminate.
  destruct (Bip341.control_block_ok xonly_ok c') eqn:Eok; [|discriminate].
  inversion H; subst v s c. clear H.
  destruct (stack_positions w c' s' rest E) as [P1 P2].
  destruct (control_block_version_spec xonly_ok c' Eok Hb) as [Hv Hr].
  unfold tap_leaf_preimage. rewrite P1, P2. cbn [bind]. rewrite Hv, Hts. cbn [bind].
  rewrite (land254_byte _ Hr), (abs_script_ser _ _ Habs). reflexivity.
Qed.

(* … and then leaf_rel of the BIP341 theorem holds with the leaf of the specification *)
Lemma leaf_rel_script_path xonly_ok w v s c ts :
  Bip341.script_path xonly_ok (snd (Bip341.split_annex w)) = Some (v, s, c) -> bytes_ok c ->
  script_convert s = Ok ts -> abs_script ts = Ok s ->
  leaf_rel xonly_ok 1 w (Some (v, s)).
Proof.
  intros H Hb Hts Habs. right. split; [reflexivity|]. exists v, s. split; [reflexivity|].
  exact (tap_leaf_spec xonly_ok w v s c ts H Hb Hts Habs).
Qed.
