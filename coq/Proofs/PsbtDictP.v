(* Proofs/PsbtDictP.v — the sorted-dictionary layer of Model/Psbt.v: ordering of byte strings,
   lookup/insert laws, extensionality of sorted dictionaries, union algebra. *)
From Coq Require Import Permutation.
From V Require Import Base.Prelude Base.Ints Model.Psbt.

(* ---- bcmp is a strict total order ---- *)
Lemma bcmp_refl a : bcmp a a = Eq.
Proof. induction a as [|x a IH]; cbn; [reflexivity|]. now rewrite Z.compare_refl. Qed.

Lemma bcmp_eq a b : bcmp a b = Eq -> a = b.
Proof.
  revert b; induction a as [|x a IH]; intros [|y b]; cbn; try discriminate; [reflexivity|].
  destruct (x ?= y) eqn:E; try discriminate. intros H. apply Z.compare_eq in E. subst.
  f_equal. now apply IH.
Qed.

Lemma bcmp_eq_iff a b : bcmp a b = Eq <-> a = b.
Proof. split; [apply bcmp_eq | intros ->; apply bcmp_refl]. Qed.

Lemma bcmp_antisym a b : bcmp b a = CompOpp (bcmp a b).
Proof.
  revert b; induction a as [|x a IH]; intros [|y b]; cbn; try reflexivity.
  rewrite (Z.compare_antisym x y). destruct (x ?= y); cbn; [apply IH| reflexivity | reflexivity].
Qed.

Lemma bcmp_lt_gt a b : bcmp a b = Lt <-> bcmp b a = Gt.
Proof. rewrite (bcmp_antisym a b). destruct (bcmp a b); cbn; split; congruence. Qed.

Lemma bcmp_lt_trans a b c : bcmp a b = Lt -> bcmp b c = Lt -> bcmp a c = Lt.
Proof.
  revert b c; induction a as [|x a IH]; intros [|y b] [|z c]; cbn; try discriminate; try reflexivity.
  destruct (x ?= y) eqn:E1; try discriminate.
  - apply Z.compare_eq in E1. subst y. destruct (x ?= z) eqn:E2; try discriminate; [|reflexivity].
    intros H1 H2. eapply IH; eauto.
  - intros _. destruct (y ?= z) eqn:E2; try discriminate.
    + apply Z.compare_eq in E2. subst z. now rewrite E1.
    + intros _. assert (x ?= z = Lt) as -> by (rewrite Z.compare_lt_iff in *; lia). reflexivity.
Qed.

Lemma bcmp_beq a b : beq a b = match bcmp a b with Eq => true | _ => false end.
Proof.
  destruct (bcmp a b) eqn:E.
  - apply bcmp_eq in E. subst. apply beq_refl.
  - apply beq_neq. intros ->. rewrite bcmp_refl in E. discriminate.
  - apply beq_neq. intros ->. rewrite bcmp_refl in E. discriminate.
Qed.

Section DictFacts.
Context {V : Type}.
Implicit Types (m : dict V) (k : bytes) (v : V).

Inductive dsorted : dict V -> Prop :=
| ds_nil : dsorted []
| ds_cons k v r : Forall (fun e => bcmp k (fst e) = Lt) r -> dsorted r -> dsorted ((k, v) :: r).

Lemma dget_dset k v m k' :
  dget (dset k v m) k' = match bcmp k' k with Eq => Some v | _ => dget m k' end.
Proof.
  induction m as [|[k0 v0] r IH]; cbn.
  - destruct (bcmp k' k); reflexivity.
  - destruct (bcmp k k0) eqn:E; cbn.
    + apply bcmp_eq in E. subst k0. destruct (bcmp k' k); reflexivity.
    + destruct (bcmp k' k); reflexivity.
    + rewrite IH. destruct (bcmp k' k0) eqn:E2; [|reflexivity|reflexivity].
      apply bcmp_eq in E2. subst k'. apply bcmp_lt_gt in E. now rewrite E.
Qed.

Lemma dget_dset_same k v m : dget (dset k v m) k = Some v.
Proof. now rewrite dget_dset, bcmp_refl. Qed.

Lemma dget_dset_other k v m k' : k' <> k -> dget (dset k v m) k' = dget m k'.
Proof.
  intros H. rewrite dget_dset. destruct (bcmp k' k) eqn:E; [|reflexivity|reflexivity].
  apply bcmp_eq in E. contradiction.
Qed.

Lemma Forall_lt_dset k0 k v (r : dict V) :
  bcmp k0 k = Lt -> Forall (fun e => bcmp k0 (fst e) = Lt) r ->
  Forall (fun e => bcmp k0 (fst e) = Lt) (dset k v r).
Proof.
  intros Hk H. induction r as [|[k1 v1] r IH]; cbn.
  - constructor; [exact Hk|constructor].
  - inversion H as [|? ? H1 H2]; subst. destruct (bcmp k k1) eqn:E.
    + constructor; [exact Hk|exact H2].
    + constructor; [exact Hk|]. constructor; assumption.
    + constructor; [exact H1|]. now apply IH.
Qed.

Lemma dset_sorted k v m : dsorted m -> dsorted (dset k v m).
Proof.
  intros H. induction H as [|k0 v0 r Hall Hs IH]; cbn.
  - constructor; constructor.
  - destruct (bcmp k k0) eqn:E.
    + apply bcmp_eq in E. subst k0. constructor; assumption.
    + constructor; [|constructor; assumption].
      constructor; [exact E|].
      eapply Forall_impl; [|exact Hall]. intros e He. cbn in He. eapply bcmp_lt_trans; eauto.
    + constructor; [|exact IH]. apply Forall_lt_dset; [|exact Hall]. now apply bcmp_lt_gt.
Qed.

Lemma dget_none_lt k (r : dict V) : Forall (fun e => bcmp k (fst e) = Lt) r -> dget r k = None.
Proof.
  induction r as [|[k1 v1] r IH]; intros H; cbn; [reflexivity|].
  inversion H as [|? ? H1 H2]; subst. cbn in H1. rewrite H1. now apply IH.
Qed.

(* two sorted dictionaries with the same lookups are the same list *)
Lemma dsorted_ext m1 m2 :
  dsorted m1 -> dsorted m2 -> (forall k, dget m1 k = dget m2 k) -> m1 = m2.
Proof.
  intros H1. revert m2. induction H1 as [|k1 v1 r1 Hall1 Hs1 IH]; intros m2 H2 Hext.
  - destruct H2 as [|k2 v2 r2 _ _]; [reflexivity|].
    specialize (Hext k2). cbn in Hext. rewrite bcmp_refl in Hext. discriminate.
  - destruct H2 as [|k2 v2 r2 Hall2 Hs2].
    + specialize (Hext k1). cbn in Hext. rewrite bcmp_refl in Hext. discriminate.
    + destruct (bcmp k1 k2) eqn:E.
      * apply bcmp_eq in E. subst k2.
        pose proof (Hext k1) as Hk. cbn in Hk. rewrite bcmp_refl in Hk. inversion Hk; subst v2.
        f_equal. apply IH; [exact Hs2|]. intros k.
        destruct (bcmp k k1) eqn:Ek.
        -- apply bcmp_eq in Ek. subst k. now rewrite !dget_none_lt.
        -- specialize (Hext k). cbn in Hext. now rewrite Ek in Hext.
        -- specialize (Hext k). cbn in Hext. now rewrite Ek in Hext.
      * exfalso. specialize (Hext k1). cbn in Hext. rewrite bcmp_refl, E in Hext.
        rewrite dget_none_lt in Hext; [discriminate|].
        eapply Forall_impl; [|exact Hall2]. intros e He. cbn in He. eapply bcmp_lt_trans; eauto.
      * exfalso. apply bcmp_lt_gt in E. specialize (Hext k2). cbn in Hext.
        rewrite bcmp_refl, E in Hext.
        rewrite dget_none_lt in Hext; [discriminate|].
        eapply Forall_impl; [|exact Hall1]. intros e He. cbn in He. eapply bcmp_lt_trans; eauto.
Qed.

(* ---- fold of dset over an entry list ---- *)
Definition dins (acc : dict V) (l : dict V) : dict V :=
  fold_left (fun a kv => dset (fst kv) (snd kv) a) l acc.

Lemma dins_sorted acc l : dsorted acc -> dsorted (dins acc l).
Proof.
  revert acc; induction l as [|[k v] l IH]; intros acc H; cbn; [exact H|].
  apply IH. now apply dset_sorted.
Qed.

(* lookup in a sorted entry list inserted over acc *)
Lemma dget_dins acc l k :
  dsorted l -> dget (dins acc l) k = match dget l k with Some v => Some v | None => dget acc k end.
Proof.
  intros Hl. revert acc. induction Hl as [|k0 v0 r Hall Hs IH]; intros acc; cbn; [reflexivity|].
  unfold dins in IH. rewrite IH. destruct (bcmp k k0) eqn:E.
  - apply bcmp_eq in E. subst k0. rewrite dget_none_lt by exact Hall. apply dget_dset_same.
  - destruct (dget r k); [reflexivity|]. apply dget_dset_other. intros ->. rewrite bcmp_refl in E. discriminate.
  - destruct (dget r k); [reflexivity|]. apply dget_dset_other. intros ->. rewrite bcmp_refl in E. discriminate.
Qed.

Lemma dins_nil_sorted l : dsorted l -> dins [] l = l.
Proof.
  intros H. apply dsorted_ext; [apply dins_sorted; constructor | exact H |].
  intros k. rewrite dget_dins by exact H. destruct (dget l k); reflexivity.
Qed.

(* ---- union ---- *)
Lemma dunion_dins (lo hi : dict V) : dunion lo hi = dins lo hi.
Proof. reflexivity. Qed.

Lemma dunion_sorted lo hi : dsorted lo -> dsorted (dunion lo hi).
Proof. apply dins_sorted. Qed.

Lemma dget_dunion lo hi k :
  dsorted hi -> dget (dunion lo hi) k = match dget hi k with Some v => Some v | None => dget lo k end.
Proof. apply dget_dins. Qed.

Definition agree (a b : dict V) : Prop :=
  forall k va vb, dget a k = Some va -> dget b k = Some vb -> va = vb.

Lemma agree_refl a : agree a a.
Proof. intros k va vb H1 H2. congruence. Qed.
Lemma agree_sym a b : agree a b -> agree b a.
Proof. intros H k va vb H1 H2. symmetry. eapply H; eauto. Qed.

Lemma dunion_comm a b : dsorted a -> dsorted b -> agree a b -> dunion a b = dunion b a.
Proof.
  intros Ha Hb Hab. apply dsorted_ext; try (apply dunion_sorted; assumption).
  intros k. rewrite !dget_dunion by assumption.
  destruct (dget a k) eqn:E1; destruct (dget b k) eqn:E2; try reflexivity.
  f_equal. symmetry. eapply Hab; eauto.
Qed.

Lemma dunion_assoc a b c :
  dsorted a -> dsorted b -> dsorted c -> dunion (dunion a b) c = dunion a (dunion b c).
Proof.
  intros Ha Hb Hc. apply dsorted_ext; try (repeat apply dunion_sorted; assumption).
  intros k. rewrite !dget_dunion by (try assumption; apply dunion_sorted; assumption).
  destruct (dget c k); reflexivity.
Qed.

Lemma dunion_idem a : dsorted a -> dunion a a = a.
Proof.
  intros Ha. apply dsorted_ext; [apply dunion_sorted; exact Ha | exact Ha |].
  intros k. rewrite dget_dunion by exact Ha. destruct (dget a k); reflexivity.
Qed.

Lemma agree_dunion_l a b c : dsorted b -> agree a c -> agree b c -> agree (dunion a b) c.
Proof.
  intros Hb Hac Hbc k va vb H1 H2. rewrite dget_dunion in H1 by exact Hb.
  destruct (dget b k) eqn:E.
  - inversion H1; subst. eapply Hbc; eauto.
  - eapply Hac; eauto.
Qed.

End DictFacts.
