(* Proofs/ShamirInterpP.v — structure of ShareSet.interpolate (Model/Shamir.v interp_core):
   byte position t of the result is the XOR, over the shares, of the share byte at t
   multiplied (through the log/exp tables) by a coefficient that does not depend on t. *)
From V Require Import Base.Prelude Base.Ints Model.Mnemonic Model.Shamir.

Lemma zip_with_length {A B C} (f : A -> B -> C) a b :
  length (zip_with f a b) = Nat.min (length a) (length b).
Proof. revert b; induction a as [|x a IH]; intros [|y b]; cbn; try reflexivity. now rewrite IH. Qed.

Lemma zip_with_nth (f : Z -> Z -> Z) a b t :
  (t < length a)%nat -> (t < length b)%nat ->
  nth t (zip_with f a b) 0 = f (nth t a 0) (nth t b 0).
Proof.
  revert b t. induction a as [|x a IH]; intros b t Ha Hb.
  - cbn in Ha. lia.
  - destruct b as [|y b]; [cbn in Hb; lia|]. destruct t as [|t]; [reflexivity|].
    cbn [zip_with nth]. cbn [length] in Ha, Hb. apply IH; lia.
Qed.

Lemma repeatz_nth x n t : (t < n)%nat -> nth t (repeatz x n) 0 = x.
Proof.
  revert t. induction n as [|n IH]; intros t H; [lia|].
  destruct t as [|t]; [reflexivity|]. cbn [repeatz nth]. apply IH. lia.
Qed.

Section Fold.
  Variable C : Z -> Z.          (* coefficient (as a logarithm) of the share with x = sx *)

  Definition step (res : bytes) (p : Z * bytes) : bytes :=
    zip_with (interp_term (C (fst p))) (snd p) res.

  Lemma fold_step_length L l : forall res,
    length res = L -> Forall (fun p => length (snd p) = L) l ->
    length (fold_left step l res) = L.
  Proof.
    induction l as [|p l IH]; intros res Hr Hl; cbn [fold_left]; [exact Hr|].
    inversion Hl as [|? ? Hp Hl']; subst. apply IH; [|exact Hl'].
    unfold step. rewrite zip_with_length. lia.
  Qed.

  Lemma fold_step_nth L t l : forall res,
    (t < L)%nat -> length res = L -> Forall (fun p => length (snd p) = L) l ->
    nth t (fold_left step l res) 0 =
    fold_left (fun acc p => interp_term (C (fst p)) (nth t (snd p) 0) acc) l (nth t res 0).
  Proof.
    induction l as [|p l IH]; intros res Ht Hr Hl; cbn [fold_left]; [reflexivity|].
    inversion Hl as [|? ? Hp Hl']; subst.
    rewrite IH; [|exact Ht| |exact Hl'].
    - f_equal. unfold step. apply zip_with_nth; lia.
    - unfold step. rewrite zip_with_length. lia.
  Qed.
End Fold.

Lemma interp_core_length x sd L :
  sd <> [] -> Forall (fun p => length (snd p) = L) sd -> length (interp_core x sd) = L.
Proof.
  intros Hne Hl. unfold interp_core.
  apply (fold_step_length (interp_log x sd) L sd); [|exact Hl].
  destruct sd as [|p r]; [congruence|]. inversion Hl; subst. apply repeatz_length.
Qed.

Lemma interp_core_nth x sd L t :
  sd <> [] -> Forall (fun p => length (snd p) = L) sd -> (t < L)%nat ->
  nth t (interp_core x sd) 0 =
  fold_left (fun acc p => interp_term (interp_log x sd (fst p)) (nth t (snd p) 0) acc) sd 0.
Proof.
  intros Hne Hl Ht. unfold interp_core.
  rewrite (fold_step_nth (interp_log x sd) L t sd); [|exact Ht| |exact Hl].
  - f_equal. destruct sd as [|p r]; [congruence|]. inversion Hl; subst.
    apply repeatz_nth. exact Ht.
  - destruct sd as [|p r]; [congruence|]. inversion Hl; subst. apply repeatz_length.
Qed.

(* two byte strings of the same length with the same bytes are equal *)
Lemma nth_ext_bytes (a b : bytes) :
  length a = length b -> (forall t, (t < length a)%nat -> nth t a 0 = nth t b 0) -> a = b.
Proof.
  revert b. induction a as [|x a IH]; intros b Hl H; destruct b as [|y b]; cbn [length] in *; try lia.
  - reflexivity.
  - f_equal; [exact (H O ltac:(lia))|]. apply IH; [lia|]. intros t Ht. exact (H (S t) ltac:(lia)).
Qed.
