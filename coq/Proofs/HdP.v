(* Proofs/HdP.v — BIP32 derivation: public/private commutation, refusal of hardened public
   derivation, composition along index lists, agreement with Spec/Bip32.v.
   The group facts are the explicit hypothesis [scalar_laws C] (Proofs/GroupHyp.v);
   HMAC-SHA512 and HASH160 are arbitrary functions. *)
From Coq Require Import Znumtheory.
From V Require Import Base.Prelude Base.Ints Model.Pecc Model.Hd Proofs.GroupHyp Spec.Bip32.

Lemma bind_ok {A B} (r : result A) (f : A -> result B) b :
  bind r f = Ok b -> exists a, r = Ok a /\ f a = Ok b.
Proof. destruct r as [a|]; cbn; [eauto | discriminate]. Qed.

Lemma bind_err_r {A B} (r : result A) : bind r (fun _ => @Err B) = Err.
Proof. now destruct r. Qed.

Lemma sec_some (P : Pecc.point) : P <> None -> exists s, sec P true = Ok s.
Proof. destruct P as [[x y]|]; [intros _; cbn; eauto | congruence]. Qed.

Lemma int_to_be_4 i : 0 <= i < 4294967296 -> int_to_be i 4 = Ok (to_be 4 i).
Proof.
  intros H. unfold int_to_be, to_be. rewrite pow256_4.
  destruct (0 <=? i) eqn:E1; [|lia]. destruct (i <? 4294967296) eqn:E2; [|lia]. reflexivity.
Qed.

Lemma serP_sec P s : sec P true = Ok s -> serP P = s.
Proof.
  destruct P as [[x y]|]; cbn; [|discriminate]. intros [= <-]. unfold ser256. f_equal.
  rewrite <- Z.negb_odd, Zodd_mod.
  assert (H : y mod 2 = 0 \/ y mod 2 = 1) by (pose proof (Z.mod_pos_bound y 2); lia).
  destruct H as [-> | ->]; reflexivity.
Qed.

Lemma to_le_S_small len v : 0 <= v < pow256 len -> to_le (S len) v = to_le len v ++ [0].
Proof.
  revert v. induction len as [|l IH]; intros v Hv.
  - unfold pow256 in Hv. cbn in Hv. assert (v = 0) by lia. subst. reflexivity.
  - rewrite pow256_S in Hv. change (to_le (S (S l)) v) with ((v mod 256) :: to_le (S l) (v / 256)).
    rewrite IH.
    + reflexivity.
    + split; [apply Z.div_pos; lia | apply Z.div_lt_upper_bound; lia].
Qed.

Lemma int_to_be_33 s : 0 <= s < pow256 32 -> int_to_be s 33 = Ok (0 :: to_be 32 s).
Proof.
  intros H. unfold int_to_be.
  assert (H33 : pow256 33 = 256 * pow256 32) by apply pow256_S.
  destruct (0 <=? s) eqn:E1; [|lia]. destruct (s <? pow256 33) eqn:E2; [|lia]. cbn [andb].
  f_equal. unfold to_be. change 33%nat with (S 32).
  rewrite (to_le_S_small 32 s H), rev_app_distr. reflexivity.
Qed.

Section Derive.
Variable C : curve.
Variable hmac512 : bytes -> bytes -> bytes.
Variable hash160 : bytes -> bytes.
Hypothesis SL : scalar_laws C.
Let n := cn C.

Notation mul := (mulT C).
Notation add := (addT C).
Notation Gc := (G C).

(* a private key object as the constructor leaves it: PrivateKey(secret) succeeded *)
Definition wf_priv (k : hdpriv) : Prop := pubkey C (sk k) = Ok (sk_pt k).

Lemma n_gt2 : 2 < n. Proof. exact (sl_n_odd C SL). Qed.

Lemma pubkey_in_range s :
  1 <= s <= n - 1 ->
  pubkey C s = Ok (mul s Gc) /\ valid C (mul s Gc) /\ mul s Gc <> None.
Proof.
  intros Hs. unfold pubkey. cbv zeta. fold n.
  destruct (n - 1 <? s) eqn:E1; [lia|]. destruct (s <? 1) eqn:E2; [lia|]. cbn [orb].
  destruct (sl_mul_ok C SL s Gc (sl_G_valid C SL)) as [H1 H2].
  repeat split; auto.
  intros H0. apply (sl_G_order C SL) in H0. fold n in H0. rewrite Z.mod_small in H0 by lia. lia.
Qed.

Lemma pubkey_out_of_range s : ~ (1 <= s <= n - 1) -> pubkey C s = Err.
Proof.
  intros Hs. unfold pubkey. cbv zeta. fold n.
  destruct (n - 1 <? s) eqn:E1; [reflexivity|]. destruct (s <? 1) eqn:E2; [reflexivity|]. lia.
Qed.

Lemma wf_priv_inv k :
  wf_priv k -> 1 <= sk k <= n - 1 /\ sk_pt k = mul (sk k) Gc /\ valid C (sk_pt k) /\ sk_pt k <> None.
Proof.
  unfold wf_priv. intros H.
  assert (Hr : 1 <= sk k <= n - 1).
  { destruct (Z_le_dec 1 (sk k)) as [a|a]; destruct (Z_le_dec (sk k) (n - 1)) as [b|b]; try lia;
      rewrite pubkey_out_of_range in H by lia; discriminate. }
  destruct (pubkey_in_range _ Hr) as (H1 & H2 & H3). rewrite H1 in H. injection H as E.
  rewrite <- E. auto.
Qed.



(* ---------------------------------------------------------------- (1) commutation *)

(* the left half of the HMAC output that both derivations of a normal child compute *)
Definition IL_normal (cc : bytes) (P : Pecc.point) (i : Z) : Z :=
  match sec P true with
  | Ok s => from_be (firstn 32 (hmac512 cc (s ++ to_be 4 i)))
  | Err => 0
  end.

Lemma ckd_pub_priv_commute k i :
  wf_priv k -> 0 <= i < hardened ->
  let il := IL_normal (sk_cc k) (sk_pt k) i in
  ((il + sk k) mod n <> 0 ->
     exists k', child_priv C hmac512 hash160 k i = Ok k' /\ wf_priv k' /\
                sk k' = (il + sk k) mod n /\
                child_pub C hmac512 hash160 (pub_of k) i = Ok (pub_of k')) /\
  ((il + sk k) mod n = 0 ->
     child_priv C hmac512 hash160 k i = Err /\
     exists q, child_pub C hmac512 hash160 (pub_of k) i = Ok q /\ pk q = None).
Proof.
  intros Hwf Hi il.
  destruct (wf_priv_inv k Hwf) as (Hr & HP & HPv & HPn).
  destruct (sec_some _ HPn) as [s Hs].
  assert (Hil : il = from_be (firstn 32 (hmac512 (sk_cc k) (s ++ to_be 4 i)))).
  { unfold il, IL_normal. now rewrite Hs. }
  unfold hardened in Hi.
  assert (Hbe : int_to_be i 4 = Ok (to_be 4 i)) by (apply int_to_be_4; lia).
  pose proof n_gt2 as Hn.
  (* the public side *)
  assert (Hpub : padd_int C (sk_pt k) il = Ok (add (sk_pt k) (mul il Gc)) /\
                 add (sk_pt k) (mul il Gc) = mul ((il + sk k) mod n) Gc).
  { unfold padd_int.
    destruct (sl_mul_ok C SL il Gc (sl_G_valid C SL)) as [Hm Hmv]. rewrite Hm. cbn [bind].
    destruct (sl_add_ok C SL _ _ HPv Hmv) as [Ha _]. split; [exact Ha|].
    fold n. rewrite (sl_mul_mod C SL), (sl_mul_add C SL) by exact (sl_G_valid C SL).
    rewrite HP. apply (sl_add_comm C SL).
    - rewrite <- HP; exact HPv.
    - exact Hmv. }
  destruct Hpub as [Hpadd Hpt].
  assert (Hcp : forall P', P' = add (sk_pt k) (mul il Gc) ->
            child_pub C hmac512 hash160 (pub_of k) i =
            Ok {| pk := P'; pk_cc := skipn 32 (hmac512 (sk_cc k) (s ++ to_be 4 i));
                  pk_depth := sk_depth k + 1; pk_pfp := firstn 4 (hash160 s); pk_num := i;
                  pk_net := sk_net k; pk_ver := sk_pubver k |}).
  { intros P' ->. unfold child_pub, hardened. cbn [pub_of pk pk_cc pk_depth pk_net pk_ver].
    destruct (2147483648 <=? i) eqn:E1; [lia|]. destruct (i <? 0) eqn:E2; [lia|].
    rewrite Hs. cbn [bind]. rewrite Hbe. cbn [bind]. rewrite <- Hil, Hpadd. cbn [bind].
    unfold fingerprint_pt. rewrite Hs. cbn [bind]. reflexivity. }
  assert (Hcs : child_priv C hmac512 hash160 k i =
            (P <- pubkey C ((il + sk k) mod n) ;;
             Ok {| sk := (il + sk k) mod n; sk_pt := P;
                   sk_cc := skipn 32 (hmac512 (sk_cc k) (s ++ to_be 4 i));
                   sk_depth := sk_depth k + 1; sk_pfp := firstn 4 (hash160 s); sk_num := i;
                   sk_net := sk_net k; sk_ver := sk_ver k; sk_pubver := sk_pubver k |})).
  { unfold child_priv, hardened. destruct (i <? 0) eqn:E2; [lia|].
    destruct (2147483648 <=? i) eqn:E1; [lia|].
    rewrite Hs. cbn [bind]. rewrite Hbe. cbn [bind]. fold n. rewrite <- Hil.
    destruct (pubkey C ((il + sk k) mod n)) as [P|]; cbn [bind]; [|reflexivity].
    unfold fingerprint_pt. rewrite Hs. cbn [bind]. reflexivity. }
  split.
  - intros Hnz.
    assert (Hrange : 1 <= (il + sk k) mod n <= n - 1).
    { pose proof (Z.mod_pos_bound (il + sk k) n ltac:(lia)). lia. }
    destruct (pubkey_in_range _ Hrange) as (Hpk & _ & _).
    rewrite Hpk in Hcs. cbn [bind] in Hcs.
    eexists. split; [exact Hcs|]. split; [exact Hpk|]. split; [reflexivity|].
    rewrite (Hcp _ (eq_sym Hpt)). reflexivity.
  - intros Hz. split.
    + rewrite Hcs, Hz. rewrite pubkey_out_of_range by lia. reflexivity.
    + eexists. split; [apply Hcp; reflexivity|]. cbn [pk].
      rewrite Hpt, Hz. apply (sl_mul_0 C SL). exact (sl_G_valid C SL).
Qed.

(* ---------------------------------------------------------------- (2) refusal *)
Lemma ckd_pub_refuses_hardened (k : hdpub) i :
  hardened <= i \/ i < 0 -> child_pub C hmac512 hash160 k i = Err.
Proof.
  intros H. unfold child_pub. destruct (hardened <=? i) eqn:E1; [reflexivity|].
  destruct (i <? 0) eqn:E2; [reflexivity|]. lia.
Qed.

Lemma ckd_priv_refuses_out_of_range (k : hdpriv) i :
  i < 0 \/ 4294967296 <= i -> child_priv C hmac512 hash160 k i = Err.
Proof.
  intros H. unfold child_priv. destruct (i <? 0) eqn:E1; [reflexivity|].
  unfold hardened. destruct (2147483648 <=? i) eqn:E2; [|lia].
  destruct (int_to_be (sk k) 33); cbn [bind]; [|reflexivity].
  unfold int_to_be at 1. rewrite pow256_4.
  destruct (0 <=? i) eqn:E3; [|lia]. destruct (i <? 4294967296) eqn:E4; [lia|]. reflexivity.
Qed.

Lemma derive_pub_indexes k idxs k' :
  derive_pub C hmac512 hash160 k idxs = Ok k' -> Forall (fun i => 0 <= i < hardened) idxs.
Proof.
  revert k. induction idxs as [|i r IH]; intros k H; [constructor|].
  cbn [derive_pub] in H. apply bind_ok in H as (k1 & H1 & H2).
  constructor; [|eapply IH; eauto].
  destruct (Z_lt_dec i 0); [rewrite ckd_pub_refuses_hardened in H1 by lia; discriminate|].
  destruct (Z_le_dec hardened i); [rewrite ckd_pub_refuses_hardened in H1 by lia; discriminate|]. lia.
Qed.

(* a path with a hardened step anywhere is refused by the public traverse *)
Lemma derive_pub_refuses_hardened k idxs :
  Exists (fun i => hardened <= i \/ i < 0) idxs -> derive_pub C hmac512 hash160 k idxs = Err.
Proof.
  intros H. destruct (derive_pub C hmac512 hash160 k idxs) as [k'|] eqn:E; [|reflexivity].
  apply derive_pub_indexes in E. apply Exists_exists in H as (i & Hi & Hb).
  rewrite Forall_forall in E. specialize (E i Hi). lia.
Qed.

(* ---------------------------------------------------------------- (3) composition, index level *)
Lemma derive_priv_app k p q :
  derive_priv C hmac512 hash160 k (p ++ q) =
  (k' <- derive_priv C hmac512 hash160 k p ;; derive_priv C hmac512 hash160 k' q).
Proof.
  revert k. induction p as [|i r IH]; intros k; [reflexivity|].
  cbn [app derive_priv]. destruct (child_priv C hmac512 hash160 k i); cbn [bind]; auto.
Qed.

Lemma derive_pub_app k p q :
  derive_pub C hmac512 hash160 k (p ++ q) =
  (k' <- derive_pub C hmac512 hash160 k p ;; derive_pub C hmac512 hash160 k' q).
Proof.
  revert k. induction p as [|i r IH]; intros k; [reflexivity|].
  cbn [app derive_pub]. destruct (child_pub C hmac512 hash160 k i); cbn [bind]; auto.
Qed.

(* the traverse loops (parsing and deriving interleaved, as in the code) equal
   "parse everything, then derive" *)
Lemma trav_priv_loop_eq k cs :
  trav_priv_loop C hmac512 hash160 k cs =
  (idxs <- mapM comp_index_priv cs ;; derive_priv C hmac512 hash160 k idxs).
Proof.
  revert k. induction cs as [|c r IH]; intros k; [reflexivity|].
  cbn [trav_priv_loop mapM]. destruct (comp_index_priv c) as [i|]; cbn [bind]; [|reflexivity].
  destruct (mapM comp_index_priv r) as [t|] eqn:E; cbn [bind derive_priv].
  - destruct (child_priv C hmac512 hash160 k i) as [k1|]; cbn [bind]; [|reflexivity].
    rewrite IH. reflexivity.
  - destruct (child_priv C hmac512 hash160 k i) as [k1|]; cbn [bind]; [|reflexivity].
    rewrite IH. reflexivity.
Qed.

Lemma trav_pub_loop_eq k cs :
  trav_pub_loop C hmac512 hash160 k cs =
  (idxs <- mapM comp_index_pub cs ;; derive_pub C hmac512 hash160 k idxs).
Proof.
  revert k. induction cs as [|c r IH]; intros k; [reflexivity|].
  cbn [trav_pub_loop mapM]. destruct (comp_index_pub c) as [i|]; cbn [bind]; [|reflexivity].
  destruct (mapM comp_index_pub r) as [t|] eqn:E; cbn [bind derive_pub].
  - destruct (child_pub C hmac512 hash160 k i) as [k1|]; cbn [bind]; [|reflexivity].
    rewrite IH. reflexivity.
  - destruct (child_pub C hmac512 hash160 k i) as [k1|]; cbn [bind]; [|reflexivity].
    rewrite IH. reflexivity.
Qed.

Lemma traverse_priv_eq k path :
  traverse_priv C hmac512 hash160 k path =
  (idxs <- path_indexes_priv path ;; derive_priv C hmac512 hash160 k idxs).
Proof.
  unfold traverse_priv, path_indexes_priv.
  destruct (path_components path) as [cs|]; cbn [bind]; [apply trav_priv_loop_eq | reflexivity].
Qed.

Lemma traverse_pub_eq k path :
  traverse_pub C hmac512 hash160 k path =
  (idxs <- path_indexes_pub path ;; derive_pub C hmac512 hash160 k idxs).
Proof.
  unfold traverse_pub, path_indexes_pub.
  destruct (path_components path) as [cs|]; cbn [bind]; [apply trav_pub_loop_eq | reflexivity].
Qed.

(* commutation along a whole unhardened path *)
Lemma derive_commute idxs : forall k k',
  wf_priv k ->
  derive_priv C hmac512 hash160 k idxs = Ok k' ->
  Forall (fun i => 0 <= i < hardened) idxs ->
  wf_priv k' /\ derive_pub C hmac512 hash160 (pub_of k) idxs = Ok (pub_of k').
Proof.
  induction idxs as [|i r IH]; intros k k' Hwf H Hall.
  - cbn in H. inversion H; subst. split; [assumption | reflexivity].
  - cbn [derive_priv] in H. apply bind_ok in H as (k1 & H1 & H2).
    inversion Hall as [|? ? Hi Hr]; subst.
    destruct (ckd_pub_priv_commute k i Hwf Hi) as [Hnz Hz].
    destruct (Z.eq_dec ((IL_normal (sk_cc k) (sk_pt k) i + sk k) mod n) 0) as [E|E].
    + destruct (Hz E) as [He _]. rewrite He in H1. discriminate.
    + destruct (Hnz E) as (k1' & Hc & Hwf1 & _ & Hp). rewrite Hc in H1. inversion H1; subst k1'.
      destruct (IH k1 k' Hwf1 H2 Hr) as [Hwf' Hd]. split; [assumption|].
      cbn [derive_pub]. rewrite Hp. cbn [bind]. exact Hd.
Qed.

(* hardened steps keep the key well-formed too *)
Lemma child_priv_wf k i k' :
  child_priv C hmac512 hash160 k i = Ok k' -> wf_priv k'.
Proof.
  unfold child_priv. destruct (i <? 0); [discriminate|].
  intros H. apply bind_ok in H as (data & _ & H). cbv zeta in H.
  apply bind_ok in H as (P & HP & H). apply bind_ok in H as (fp & _ & H).
  inversion H; subst k'. unfold wf_priv. cbn [sk sk_pt]. exact HP.
Qed.

Lemma derive_priv_wf idxs : forall k k',
  wf_priv k -> derive_priv C hmac512 hash160 k idxs = Ok k' -> wf_priv k'.
Proof.
  induction idxs as [|i r IH]; intros k k' Hwf H.
  - cbn in H. now inversion H; subst.
  - cbn [derive_priv] in H. apply bind_ok in H as (k1 & H1 & H2).
    eapply IH; [eapply child_priv_wf; eauto | eauto].
Qed.

(* ---------------------------------------------------------------- (4) agreement with BIP32 *)



Hypothesis n_256 : n < pow256 32.

Lemma ckd_priv_eq_bip32 k i :
  wf_priv k -> 0 <= i < 4294967296 ->
  match CKDpriv C hmac512 (sk k, sk_cc k) i with
  | Some (ki, ci) =>
      exists k', child_priv C hmac512 hash160 k i = Ok k' /\ sk k' = ki /\ sk_cc k' = ci /\
                 sk_depth k' = sk_depth k + 1 /\ sk_num k' = i /\
                 sk_pfp k' = fingerprint hash160 (point C (sk k))
  | None => True   (* IL >= n or ki = 0: "invalid" in the standard; see ckd_priv_bip32_invalid *)
  end.
Proof.
  intros Hwf Hi.
  destruct (wf_priv_inv k Hwf) as (Hr & HP & HPv & HPn).
  destruct (sec_some _ HPn) as [s Hs].
  unfold CKDpriv. cbv zeta. fold n.
  change (2 ^ 31) with hardened.
  assert (Hpt : point C (sk k) = sk_pt k) by (rewrite HP; reflexivity).
  assert (Hbe : int_to_be i 4 = Ok (to_be 4 i)) by (apply int_to_be_4; lia).
  assert (H33 : int_to_be (sk k) 33 = Ok (0 :: to_be 32 (sk k))) by (apply int_to_be_33; lia).
  set (I := if hardened <=? i
            then hmac512 (sk_cc k) ([0] ++ ser256 (sk k) ++ ser32 i)
            else hmac512 (sk_cc k) (serP (point C (sk k)) ++ ser32 i)).
  destruct ((n <=? parse256 (firstn 32 I)) || ((parse256 (firstn 32 I) + sk k) mod n =? 0)) eqn:Einv;
    [exact Logic.I|].
  apply orb_false_iff in Einv as [E1 E2]. apply Z.eqb_neq in E2.
  assert (Hrange : 1 <= (parse256 (firstn 32 I) + sk k) mod n <= n - 1).
  { pose proof n_gt2. pose proof (Z.mod_pos_bound (parse256 (firstn 32 I) + sk k) n ltac:(lia)). lia. }
  destruct (pubkey_in_range _ Hrange) as (Hpk & _ & _).
  assert (Hdata : (if hardened <=? i
                   then a <- int_to_be (sk k) 33 ;; b <- int_to_be i 4 ;; Ok (a ++ b)
                   else s0 <- sec (sk_pt k) true ;; b <- int_to_be i 4 ;; Ok (s0 ++ b)) =
                  Ok (if hardened <=? i then [0] ++ ser256 (sk k) ++ ser32 i
                      else serP (point C (sk k)) ++ ser32 i)).
  { destruct (hardened <=? i).
    - rewrite H33, Hbe. reflexivity.
    - rewrite Hs, Hbe. cbn [bind]. rewrite Hpt, (serP_sec _ _ Hs). reflexivity. }
  eexists. split.
  - unfold child_priv. destruct (i <? 0) eqn:E0; [lia|]. rewrite Hdata. cbn [bind].
    fold n.
    replace (hmac512 (sk_cc k) (if hardened <=? i then [0] ++ ser256 (sk k) ++ ser32 i
                                else serP (point C (sk k)) ++ ser32 i)) with I
      by (unfold I; destruct (hardened <=? i); reflexivity).
    unfold parse256 in Hpk. rewrite Hpk. cbn [bind].
    unfold fingerprint_pt. rewrite Hs. cbn [bind]. reflexivity.
  - cbn [sk sk_cc sk_depth sk_num sk_pfp]. repeat split.
    unfold fingerprint, identifier. rewrite Hpt, (serP_sec _ _ Hs). reflexivity.
Qed.

(* what the code does in the event the standard calls invalid *)
Lemma ckd_priv_bip32_invalid k i :
  wf_priv k -> 0 <= i < 4294967296 ->
  CKDpriv C hmac512 (sk k, sk_cc k) i = None ->
  (* either the reduced key is 0 and the code raises, or IL >= n and the code returns the
     reduced key instead of skipping the index *)
  child_priv C hmac512 hash160 k i = Err \/
  exists k', child_priv C hmac512 hash160 k i = Ok k' /\ wf_priv k'.
Proof.
  intros _ _ _. destruct (child_priv C hmac512 hash160 k i) as [k'|] eqn:E; [right | now left].
  exists k'. split; [reflexivity|]. eapply child_priv_wf; eauto.
Qed.

Lemma ckd_pub_eq_bip32 (k : hdpub) i :
  valid C (pk k) -> pk k <> None -> 0 <= i ->
  match CKDpub C hmac512 (pk k, pk_cc k) i with
  | Some (Ki, ci) =>
      exists k', child_pub C hmac512 hash160 k i = Ok k' /\ pk k' = Ki /\ pk_cc k' = ci /\
                 pk_depth k' = pk_depth k + 1 /\ pk_num k' = i /\
                 pk_pfp k' = fingerprint hash160 (pk k)
  | None => True
  end.
Proof.
  intros HPv HPn Hi0.
  destruct (sec_some _ HPn) as [s Hs].
  unfold CKDpub. change (2 ^ 31) with hardened.
  destruct (hardened <=? i) eqn:Eh; [exact I|]. cbv zeta. fold n.
  rewrite (serP_sec _ _ Hs).
  set (I := hmac512 (pk_cc k) (s ++ ser32 i)).
  destruct (n <=? parse256 (firstn 32 I)) eqn:E1; [exact Logic.I|].
  destruct (pt_add C (point C (parse256 (firstn 32 I))) (pk k)) as [Ki|] eqn:EK; [|exact Logic.I].
  assert (Hbe : int_to_be i 4 = Ok (to_be 4 i)) by (apply int_to_be_4; unfold hardened in Eh; lia).
  destruct (sl_mul_ok C SL (parse256 (firstn 32 I)) Gc (sl_G_valid C SL)) as [Hm Hmv].
  destruct (sl_add_ok C SL _ _ HPv Hmv) as [Ha _].
  eexists. split.
  - unfold child_pub. rewrite Eh. destruct (i <? 0) eqn:E0; [lia|].
    rewrite Hs. cbn [bind]. rewrite Hbe. cbn [bind]. unfold padd_int.
    fold (ser32 i). fold I. unfold parse256 in Hm. rewrite Hm. cbn [bind].
    unfold parse256 in Ha. rewrite Ha. cbn [bind].
    unfold fingerprint_pt. rewrite Hs. cbn [bind]. reflexivity.
  - cbn [pk pk_cc pk_depth pk_num pk_pfp]. repeat split.
    + rewrite <- EK. unfold parse256.
      change (pt_add C) with (addT C). change (point C ?x) with (mulT C x Gc).
      apply (sl_add_comm C SL); assumption.
    + unfold fingerprint, identifier. rewrite (serP_sec _ _ Hs). reflexivity.
Qed.

Hypothesis hmac_bytes : forall key msg, bytes_ok (hmac512 key msg).

Lemma from_seed_eq_bip32 seed net ver pv :
  match master C hmac512 seed with
  | Some (kM, cM) =>
      forall v p,
        (match ver with Some x => Ok x | None => tbl_get Generated.HdVersions.tbl_xprv net end) = Ok v ->
        (match pv with Some x => Ok x | None => tbl_get Generated.HdVersions.tbl_xpub net end) = Ok p ->
        exists k, from_seed C hmac512 seed net ver pv = Ok k /\ wf_priv k /\ sk k = kM /\ sk_cc k = cM /\
                  sk_depth k = 0 /\ sk_num k = 0 /\ sk_pfp k = [0;0;0;0] /\ sk_ver k = v /\ sk_pubver k = p
  | None => from_seed C hmac512 seed net ver pv = Err
  end.
Proof.
  unfold master, from_seed, mk_priv. cbv zeta. fold n.
  change Bip32.bitcoin_seed with Hd.bitcoin_seed.
  set (I := hmac512 Hd.bitcoin_seed seed). unfold parse256.
  assert (Hb : 0 <= from_be (firstn 32 I)).
  { unfold from_be. apply from_le_bound. apply bytes_ok_rev, bytes_ok_firstn, hmac_bytes. }
  destruct ((from_be (firstn 32 I) =? 0) || (n <=? from_be (firstn 32 I))) eqn:E.
  - rewrite pubkey_out_of_range; [reflexivity|].
    apply orb_true_iff in E as [E|E]; [apply Z.eqb_eq in E | apply Z.leb_le in E]; lia.
  - apply orb_false_iff in E as [E1 E2]. apply Z.eqb_neq in E1. apply Z.leb_gt in E2.
    intros v p Hv Hp.
    destruct (pubkey_in_range (from_be (firstn 32 I)) ltac:(lia)) as (Hpk & _ & _).
    rewrite Hpk, Hv, Hp. cbn [bind].
    eexists. split; [reflexivity|]. unfold wf_priv. cbn [sk sk_pt sk_cc sk_depth sk_num sk_pfp sk_ver sk_pubver].
    repeat split. exact Hpk.
Qed.

End Derive.
