(* Proofs/C15Glue.v — text-level share codec round trip over the shipped SLIP39 list and
   rejection of corrupted share mnemonics (combines ShareCodecP, Rs1024Sweep, WordlistP). *)
From V Require Import Base.Prelude Base.Ints Model.Mnemonic Model.Shamir Generated.Wordlists
  Proofs.MnemonicP Proofs.WordlistP Proofs.Rs1024P Proofs.Rs1024Sweep Proofs.ShareCodecP Proofs.ShamirChecksP.

Lemma verify_of_parse idx s : share_of_indices idx = Ok s -> rs1024_verify_checksum s_shamir idx = true.
Proof.
  unfold share_of_indices. destruct (rs1024_verify_checksum s_shamir idx); [reflexivity|].
  cbn [negb]. discriminate.
Qed.

Lemma parse_of_bad_checksum idx : rs1024_verify_checksum s_shamir idx = false -> share_of_indices idx = Err.
Proof. intros H. unfold share_of_indices. now rewrite H. Qed.

(* any 1..3 substituted words in a 20- or 33-word share are rejected by Share.parse *)
Theorem corrupted_share_rejected s m' :
  share_wf s -> length m' = length (share_indices s) ->
  Forall (fun v => 0 <= v < 1024) m' ->
  (1 <= hamming (share_indices s) m' <= 3)%nat ->
  share_of_indices m' = Err.
Proof.
  intros Hwf Hlen Hr Hh. destruct (share_indices_roundtrip s Hwf) as (Hp & Hl & Hrange).
  apply parse_of_bad_checksum.
  apply (rs1024_detects_three s_shamir (share_indices s) m'); try assumption.
  - rewrite Hl. destruct (sh_bits s =? 128); [now left | now right].
  - exact (verify_of_parse _ _ Hp).
Qed.

(* words of a good list: looking up the word at position i gives i *)
Lemma words_roundtrip ws n idx :
  wl_good ws n -> Forall (fun i => 0 <= i < n) idx ->
  exists l, mapM (wl_word ws) idx = Ok l /\ split_ws (join_sp l) = l /\
            mapM (wl_index ws) l = Ok idx.
Proof.
  intros Hg Hr. pose proof Hg as [Hlen Hw].
  destruct (mapM_wl_word ws idx) as [l [E F]]; [now rewrite Hlen|].
  exists l. split; [exact E|]. split.
  - apply split_join. clear E. induction F as [|i w idx l Hi _ IH]; constructor.
    + destruct (Hw _ _ Hi) as (A & B & _). now split.
    + inversion Hr; subst. now apply IH.
  - apply mapM_Forall2. clear E. induction F as [|i w idx l Hi _ IH]; constructor.
    + destruct (Hw _ _ Hi) as (_ & _ & _ & D & _). rewrite D. f_equal.
      inversion Hr; subst. lia.
    + inversion Hr; subst. now apply IH.
Qed.

Theorem share_text_roundtrip s : share_wf s ->
  exists m, share_mnemonic slip39_words s = Ok m /\ share_parse slip39_words m = Ok s.
Proof.
  intros Hwf. destruct (share_indices_roundtrip s Hwf) as (Hp & _ & Hr).
  destruct (words_roundtrip slip39_words 1024 (share_indices s) slip39_good Hr) as [l [E1 [E2 E3]]].
  exists (join_sp l). unfold share_mnemonic, share_parse. rewrite E1. cbn [bind].
  split; [reflexivity|]. rewrite E2, E3. cbn [bind]. exact Hp.
Qed.

(* fewer share mnemonics than their group threshold (> 1) never yield a mnemonic, whatever
   the shares are (of one split or not) *)
Theorem recover_mnemonic_below_threshold sha256 hmac_sha256 kdf bip39 slip39 ms pass shares s :
  mapM (share_parse slip39) ms = Ok shares -> In s shares ->
  1 < sh_gt s -> zlen shares < sh_gt s ->
  recover_mnemonic sha256 hmac_sha256 kdf bip39 slip39 ms pass = Err.
Proof.
  intros Hp Hin Hk Hl. unfold recover_mnemonic. rewrite Hp. cbn [bind].
  destruct (shareset_init shares) as [ss|] eqn:E; cbn [bind]; [|reflexivity].
  destruct (ShamirChecksP.shareset_init_sound shares ss E) as (Hs & _ & Hall & _).
  destruct (Hall s Hin) as (_ & _ & Hgt & _).
  rewrite (ShamirChecksP.below_threshold_refused hmac_sha256 kdf ss pass); [reflexivity | lia |].
  rewrite Hs. lia.
Qed.
