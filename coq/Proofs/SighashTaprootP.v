(* Proofs/SighashTaprootP.v — C05: Tx.sig_hash_bip341 builds the BIP341 message (with the BIP342
   extension on the script path); Witness.has_annex is the annex rule of BIP341. *)
From V Require Import Base.Prelude Base.Ints Model.Helper Model.Script Model.Tx Model.Sighash
  Model.SighashAbs Spec.TxData Proofs.HelperP Proofs.SighashP.
From V Require Spec.Bip341.

(* ---- annex ---- *)
Definition annex_of (w : list bytes) : option bytes := fst (Bip341.split_annex w).

Lemma annex_spec w :
  match annex_of w with
  | Some a => has_annex w = true /\ nth_last 0 w = Some a
  | None => has_annex w = false
  end.
Proof.
  unfold annex_of, Bip341.split_annex, has_annex, nth_last.
  rewrite <- (rev_length w).
  destruct (rev w) as [|x [|y r]]; cbn.
  - reflexivity.
  - destruct x; reflexivity.
  - destruct x as [|b a]; cbn; [reflexivity|].
    destruct (b =? 80); cbn; auto.
Qed.

Lemma has_annex_iff w : has_annex w = true <-> exists a, annex_of w = Some a.
Proof.
  pose proof (annex_spec w) as H. destruct (annex_of w) as [a|].
  - split; eauto. tauto.
  - rewrite H. split; [discriminate|]. intros [a Ha]. discriminate.
Qed.

Lemma hd_rev {A} (l : list A) : nth_error (rev l) 0 = nth_error l (length l - 1).
Proof.
  induction l as [|x r IH]; [reflexivity|].
  destruct r as [|y r']; [reflexivity|].
  change (rev (x :: y :: r')) with (rev (y :: r') ++ [x]).
  rewrite nth_error_app1 by (rewrite rev_length; cbn; lia).
  rewrite IH. cbn [length]. replace (S (S (length r')) - 1)%nat with (S (S (length r') - 1)) by lia.
  reflexivity.
Qed.

(* BIP341 wording: at least two elements and the first byte of the last one is 0x50 *)
Lemma has_annex_bip341 w :
  has_annex w = true <->
  (2 <= length w)%nat /\ exists a, nth_error w (length w - 1) = Some (80 :: a).
Proof.
  unfold has_annex, nth_last. rewrite andb_true_iff, Nat.leb_le.
  split; intros [H1 H2]; split; auto.
  - destruct (nth_error (rev w) 0) as [[|b a]|] eqn:E; try discriminate.
    apply Z.eqb_eq in H2. subst b. exists a.
    rewrite hd_rev in E. exact E.
  - destruct H2 as [a Ha]. rewrite hd_rev, Ha. reflexivity.
Qed.

(* ---- the four midstates over the inputs ---- *)
Lemma skipn_S_tl {A} (l : list A) i x r : skipn i l = x :: r -> skipn (S i) l = r.
Proof.
  revert i; induction l as [|y l IH]; intros i H.
  - destruct i; discriminate.
  - destruct i; cbn in *; [now inversion H | now apply IH].
Qed.
Lemma skipn_hd_nth {A} (l : list A) i x r : skipn i l = x :: r -> nth_error l i = Some x.
Proof.
  revert i; induction l as [|y l IH]; intros i H.
  - destruct i; discriminate.
  - destruct i; cbn in *; [now inversion H | now apply IH].
Qed.

Lemma sha_parts_abs l : forall cl i sp csp,
  abs_list abs_in l = Ok cl -> abs_list abs_spent (skipn i sp) = Ok csp -> length csp = length l ->
  sha_parts l i sp =
  Ok (flat_map (fun x => ser_outpoint (ci_prevout x)) cl,
      flat_map (fun c => le64 (cn_value c)) csp,
      flat_map (fun c => ser_script (cn_script c)) csp,
      flat_map (fun x => le32 (ci_sequence x)) cl).
Proof.
  induction l as [|ti r IH]; intros cl i sp csp Hcl Hsp Hlen.
  - cbn in Hcl. inversion Hcl. destruct csp; [reflexivity|discriminate].
  - apply abs_list_cons in Hcl as [y [ys [Hy [Hys ->]]]].
    apply abs_in_inv in Hy as [Hpi [Hsq [s0 [Hs0 ->]]]].
    destruct (skipn i sp) as [|s rest] eqn:Esk.
    { cbn in Hsp. inversion Hsp; subst csp. discriminate. }
    apply abs_list_cons in Hsp as [c [cs [Hc [Hcs ->]]]].
    apply abs_spent_inv in Hc as [Hval [Hscr Hv]].
    cbn [sha_parts]. rewrite (skipn_hd_nth _ _ _ _ Esk). cbn [bind].
    rewrite (le32_ok _ Hpi), (le64_ok _ Hval), (abs_script_ser _ _ Hscr), (le32_ok _ Hsq).
    cbn [bind].
    rewrite (IH ys (S i) sp cs Hys).
    2:{ now rewrite (skipn_S_tl _ _ _ _ Esk). }
    2:{ cbn in Hlen. lia. }
    cbn [bind flat_map ci_prevout ci_sequence]. unfold ser_outpoint. cbn [op_hash op_n].
    rewrite Hv. now rewrite <- ?app_assoc.
Qed.

Section S.
Variable sha256 : bytes -> bytes.
Variable hash_tapleaf : bytes -> bytes.
Variable xonly_ok : bytes -> bool.

Lemma ins_block_run t ct sp coins m :
  abs_list abs_in (t_ins t) = Ok (ct_vin ct) -> abs_list abs_spent sp = Ok coins ->
  length sp = length (t_ins t) ->
  exists m',
    ('(ma, a) <- sha_prevouts sha256 t sp m ;;
     '(mb, b) <- sha_amounts sha256 t sp ma ;;
     '(mc, c) <- sha_script_pubkeys sha256 t sp mb ;;
     '(md, d) <- sha_sequences sha256 t sp mc ;;
     Ok (md, a ++ b ++ c ++ d)) =
    Ok (m', Bip341.sha_prevouts sha256 ct ++ Bip341.sha_amounts sha256 coins ++
            Bip341.sha_scriptpubkeys sha256 coins ++ Bip341.sha_sequences sha256 ct).
Proof.
  intros Hin Hsp Hlen.
  assert (Hparts := sha_parts_abs (t_ins t) (ct_vin ct) 0 sp coins Hin Hsp).
  rewrite (abs_list_length _ _ _ Hsp) in Hparts. specialize (Hparts Hlen).
  unfold sha_prevouts, sha_amounts, sha_script_pubkeys, sha_sequences, sha_prevouts.
  rewrite Hparts. cbn. eauto.
Qed.

Lemma sha_outputs_run t ct m :
  abs_list abs_out (t_outs t) = Ok (ct_vout ct) ->
  exists m', sha_outputs sha256 t m = Ok (m', Bip341.sha_outputs sha256 ct).
Proof.
  intros H. unfold sha_outputs. rewrite (ser_outs_abs _ _ H). cbn. eauto.
Qed.

(* how the model's ext_flag / tap leaf relate to the leaf of the specification *)
Definition leaf_rel (ext : Z) (w : list bytes) (leaf : option (Z * bytes)) : Prop :=
  (ext = 0 /\ leaf = None) \/
  (ext = 1 /\ exists v s, leaf = Some (v, s) /\
                tap_leaf_preimage xonly_ok w = Ok ([v] ++ ser_script s)).

Lemma le32_max : le32 4294967295 = [255; 255; 255; 255]. Proof. reflexivity. Qed.

Lemma encode_varstr_cs a :
  in_u64 (zlen a) = true -> encode_varstr a = Ok (compact_size (zlen a) ++ a).
Proof. intros H. unfold encode_varstr. now rewrite (encode_varint_cs _ H). Qed.

Ltac zeval :=
  repeat match goal with
  | |- context [int_to_byte (?e * 2 + ?b)] =>
      let r := eval vm_compute in (int_to_byte (e * 2 + b)) in
      change (int_to_byte (e * 2 + b)) with r
  | |- context [[?e * 2 + ?b]] =>
      let r := eval vm_compute in (e * 2 + b) in change (e * 2 + b) with r
  | |- context [0 =? 1] => change (0 =? 1) with false
  | |- context [1 =? 1] => change (1 =? 1) with true
  end.

(* C05 (BIP341/342): the message handed to hash_TapSighash.  The input index is a uint32 and the
   annex has a CompactSize length (both hold for anything that fits in a block). *)
Lemma bip341_eq_spec t ct sp coins idx ti ext leaf ht m :
  standard_hash_type ht = true -> abs_tx t = Ok ct -> abs_list abs_spent sp = Ok coins ->
  length sp = length (t_ins t) -> nth_error (t_ins t) idx = Some ti ->
  in_u32 (Z.of_nat idx) = true ->
  (forall a, annex_of (i_witness ti) = Some a -> in_u64 (zlen a) = true) ->
  leaf_rel ext (i_witness ti) leaf ->
  rsnd (bip341_preimage sha256 hash_tapleaf xonly_ok t sp idx ext ht m) =
  opt_res (Bip341.message sha256 hash_tapleaf ht ct coins idx (annex_of (i_witness ti)) leaf).
Proof.
  intros Hht Ht Hsp Hlen Eti Hidx32 Hannex Hleaf.
  apply abs_tx_inv in Ht as [Hv [Hlt [Hni [Hno [Hin [Hout [Ev El]]]]]]].
  destruct (abs_list_nth _ _ _ _ _ Hin Eti) as [ci [Eci Hci]].
  apply abs_in_inv in Hci as [Hpi [Hsq [ss [Hss ->]]]].
  assert (Hidx : (idx < length sp)%nat).
  { rewrite Hlen. apply nth_error_Some. congruence. }
  destruct (nth_error sp idx) as [s|] eqn:Es; [|apply nth_error_None in Es; lia].
  destruct (abs_list_nth _ _ _ _ _ Hsp Es) as [coin [Ecoin Hcoin]].
  apply abs_spent_inv in Hcoin as [Hval [Hscr Hcv]].
  assert (Lc : length coins = length (ct_vin ct)).
  { rewrite (abs_list_length _ _ _ Hsp), (abs_list_length _ _ _ Hin). exact Hlen. }
  unfold bip341_preimage. rewrite Eti.
  rewrite (std_byte _ Hht), (le32_ok _ Hv), (le32_ok _ Hlt). cbn [bind].
  (* the specification side, down to the message *)
  assert (Hmsg : forall e,
    Bip341.sig_msg sha256 ht e ct coins idx (annex_of (i_witness ti)) =
    (let tx_data :=
       le32 (ct_version ct) ++ le32 (ct_locktime ct) ++
       (if negb (ht_acp ht)
        then Bip341.sha_prevouts sha256 ct ++ Bip341.sha_amounts sha256 coins ++
             Bip341.sha_scriptpubkeys sha256 coins ++ Bip341.sha_sequences sha256 ct
        else []) ++
       (if negb (ht_base ht =? 2) && negb (ht_base ht =? 3) then Bip341.sha_outputs sha256 ct else []) in
     let input_data :=
       [e * 2 + match annex_of (i_witness ti) with Some _ => 1 | None => 0 end] ++
       (if ht_acp ht
        then (rev (i_prev_tx ti) ++ le32 (i_prev_index ti)) ++ le64 (cn_value coin) ++
             ser_script (cn_script coin) ++ le32 (i_sequence ti)
        else le32 (Z.of_nat idx)) ++
       match annex_of (i_witness ti) with
       | Some a => sha256 (compact_size (zlen a) ++ a) | None => [] end in
     if ht_base ht =? 3 then
       match nth_error (ct_vout ct) idx with
       | Some o => Some ([ht] ++ tx_data ++ input_data ++ sha256 (ser_txout o))
       | None => None
       end
     else Some ([ht] ++ tx_data ++ input_data))).
  { intros e. unfold Bip341.sig_msg.
    change (Bip341.valid_hash_type ht) with (standard_hash_type ht). rewrite Hht. cbn [negb].
    rewrite Lc, Nat.eqb_refl. cbn [negb]. rewrite Eci, Ecoin.
    rewrite (std_acp341 _ Hht). reflexivity. }
  assert (Hsingle :
    (if ht_base ht =? 3 then
       match nth_error (t_outs t) idx with
       | Some o => so <- txout_serialize o ;; Ok (sha256 so)
       | None => Err
       end
     else Ok []) =
    (if ht_base ht =? 3 then
       match nth_error (ct_vout ct) idx with
       | Some o => Ok (sha256 (ser_txout o))
       | None => Err
       end
     else Ok [])).
  { destruct (ht_base ht =? 3); [|reflexivity].
    destruct (nth_error (t_outs t) idx) as [o|] eqn:Eo.
    - destruct (abs_list_nth _ _ _ _ _ Hout Eo) as [co [Eco Hco]]. rewrite Eco.
      now rewrite (abs_out_ser _ _ Hco).
    - now rewrite (abs_list_nth_none _ _ _ _ Hout Eo). }
  rewrite Hsingle. clear Hsingle.
  rewrite Es. cbn [bind].
  rewrite (le32_ok _ Hpi), (le64_ok _ Hval), (abs_script_ser _ _ Hscr), (le32_ok _ Hsq),
    (le32_ok _ Hidx32).
  cbn [bind].
  destruct (ins_block_run t ct sp coins m Hin Hsp Hlen) as [mI HI].
  pose proof (annex_spec (i_witness ti)) as Hax.
  unfold Bip341.message, ht_none_or_single.
  destruct Hleaf as [[-> ->] | [-> [v [sc [-> Htl]]]]]; rewrite Hmsg; clear Hmsg; cbv zeta;
  (destruct (annex_of (i_witness ti)) as [a|] eqn:Ea;
   [ destruct Hax as [Hax1 Hax2]; rewrite Hax1, Hax2, (encode_varstr_cs a (Hannex a eq_refl))
   | rewrite Hax ]);
  zeval; cbn [bind]; rewrite ?Htl; cbn [bind];
  (destruct (ht_acp ht) eqn:Eacp; cbn [negb bind]; [| rewrite HI; cbn [bind]]);
  (destruct (ht_base ht =? 2) eqn:E2; destruct (ht_base ht =? 3) eqn:E3; cbn [negb orb andb bind];
   try (apply Z.eqb_eq in E2; apply Z.eqb_eq in E3; congruence));
  try (match goal with
       | |- context [sha_outputs sha256 t ?mm] =>
           let mO := fresh "mO" in let HO := fresh "HO" in
           destruct (sha_outputs_run t ct mm Hout) as [mO HO]; rewrite HO; cbn [bind]
       end);
  try (destruct (nth_error (ct_vout ct) idx) as [o|]; cbn [bind]);
  unfold rsnd, opt_res, Bip341.ext342, Bip341.tapleaf_hash, ser_script; cbn [bind option_map];
  rewrite ?le32_max, ?Ev, ?El, ?Hcv; cbn [app];
  repeat (progress (rewrite <- ?app_assoc; cbn [app])); rewrite ?app_nil_r; reflexivity.
Qed.
End S.
