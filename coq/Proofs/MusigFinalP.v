(* Proofs/MusigFinalP.v — Tx.initialize_p2tr_multisig / Tx.finalize_p2tr_multisig: the witness that is
   assembled (one slot per key of the leaf, in KEY order, whatever the order of the signatures; b"" for a
   key nobody signed for), and its composition with the tapscript interpreter of C06: the k-of-n leaf
   accepts the assembled witness iff exactly k keys of the leaf were signed for. *)
From Coq Require Import Permutation.
From V Require Import Base.Prelude Base.Ints Model.Helper Model.Script Model.Op Model.Interp
  Model.Pecc Model.Taproot Model.Verify Model.Musig Proofs.OpP Proofs.VerifyP Proofs.TapMultisigP
  Proofs.VerifyTapP Proofs.MusigP Proofs.MusigTreeP.

(* the leaf script of a MultiSigTapScript with >= 2 keys, threshold 1..16 and no timelock is the
   CHECKSIG / CHECKSIGADD chain over the sorted x-only keys *)
Lemma multisig_cmds_tap_script C keys k cs :
  (2 <= length keys)%nat -> 1 <= k <= 16 ->
  multisig_cmds C NoLock keys k = Ok cs ->
  cs = tap_multisig_script k (sort_bytes (map xonly keys)).
Proof.
  intros H2 Hk. unfold multisig_cmds. cbn [lock_cmds bind].
  destruct (mapM _ _); [|discriminate]. cbn [bind].
  destruct (sort_bytes (map xonly keys)) as [|x0 rest]; [discriminate|].
  assert (E : (1 <? length keys)%nat = true) by (apply Nat.ltb_lt; lia). rewrite E.
  unfold number_to_op_code.
  destruct (k <? -1) eqn:E1; [lia|]. destruct (16 <? k) eqn:E2; [lia|]. cbn [orb].
  destruct (k =? 0) eqn:E3; [lia|]. cbn [bind app]. intros [= <-].
  unfold tap_multisig_script. rewrite (Z.add_comm 80 k). reflexivity.
Qed.

Lemma last_app_ne {A} (l1 l2 : list A) d : l2 <> [] -> last (l1 ++ l2) d = last l2 d.
Proof.
  intros Hne. induction l1 as [|x l1 IH]; [reflexivity|]. cbn [app].
  destruct (l1 ++ l2) eqn:E; [apply app_eq_nil in E as [_ E]; congruence|].
  cbn [last]. exact IH.
Qed.

Lemma Forall2_imp {A B} (R R' : A -> B -> Prop) l l' :
  (forall a b, R a b -> R' a b) -> Forall2 R l l' -> Forall2 R' l l'.
Proof. intros H. induction 1; constructor; auto. Qed.

Lemma filter_len_le {A} (f : A -> bool) l : (length (filter f l) <= length l)%nat.
Proof. induction l as [|x l IH]; cbn [filter length]; [lia|]. destruct (f x); cbn [length]; lia. Qed.

Section Final.
Variable C : curve.
Variable sha256 : bytes -> bytes.
Variable sighash : Z -> result bytes.

Notation fin_check := (fin_check C sha256 sighash).
Notation fin_find := (fin_find C sha256 sighash).
Notation fin_loop := (fin_loop C sha256 sighash).
Notation finalize := (finalize_p2tr_multisig C sha256 sighash).

(* ---------------- the inner loop: first verifying signature, else b"" ---------------- *)
Lemma fin_find_spec P sigs s : fin_find P sigs = Ok s ->
  (s = [] /\ forall sg, In sg sigs -> sg <> [] -> fin_check P sg = Ok false) \/
  (s <> [] /\ fin_check P s = Ok true /\
   exists pre post, sigs = pre ++ s :: post /\
     forall sg, In sg pre -> sg <> [] -> fin_check P sg = Ok false).
Proof.
  induction sigs as [|sg r IH]; cbn [Musig.fin_find]; intros H.
  - injection H as <-. left. split; [reflexivity|]. intros sg [].
  - destruct sg as [|g0 g].
    + destruct (IH H) as [[-> Hall] | (Hne & Hok & pre & post & -> & Hpre)].
      * left. split; [reflexivity|]. intros sg [<-|Hin] Hn; [congruence | now apply Hall].
      * right. split; [exact Hne|]. split; [exact Hok|]. exists ([] :: pre), post. split; [reflexivity|].
        intros sg [<-|Hin] Hn; [congruence | now apply Hpre].
    + destruct (fin_check P (g0 :: g)) as [[|]|] eqn:E; cbn [bind] in H; [| |discriminate].
      * injection H as <-. right. split; [discriminate|]. split; [exact E|].
        exists [], r. split; [reflexivity|]. intros sg [].
      * destruct (IH H) as [[-> Hall] | (Hne & Hok & pre & post & -> & Hpre)].
        -- left. split; [reflexivity|]. intros sg [<-|Hin] Hn; [exact E | now apply Hall].
        -- right. split; [exact Hne|]. split; [exact Hok|]. exists ((g0 :: g) :: pre), post.
           split; [reflexivity|]. intros sg [<-|Hin] Hn; [exact E | now apply Hpre].
Qed.

Definition no_raise (P : point) (sigs : list bytes) : Prop :=
  forall sg, In sg sigs -> sg <> [] -> fin_check P sg <> Err.

Lemma fin_find_total P sigs : no_raise P sigs -> exists s, fin_find P sigs = Ok s.
Proof.
  induction sigs as [|sg r IH]; intros Hn; cbn [Musig.fin_find]; [eauto|].
  assert (Hr : no_raise P r) by (intros x Hx; apply Hn; now right).
  destruct sg as [|g0 g]; [now apply IH|].
  destruct (fin_check P (g0 :: g)) as [[|]|] eqn:E; cbn [bind]; [eauto | now apply IH|].
  exfalso. apply (Hn (g0 :: g)); [now left | discriminate | exact E].
Qed.

Definition signed (P : point) (sigs : list bytes) : Prop :=
  exists sg, In sg sigs /\ sg <> [] /\ fin_check P sg = Ok true.

(* the slot of a key is non-empty exactly when one of the signatures verifies for it *)
Lemma fin_find_signed P sigs s : fin_find P sigs = Ok s -> (s <> [] <-> signed P sigs).
Proof.
  intros H. destruct (fin_find_spec P sigs s H) as [[-> Hall] | (Hne & Hok & pre & post & -> & _)].
  - split; [congruence|]. intros (sg & Hin & Hn & Hv). rewrite (Hall sg Hin Hn) in Hv. discriminate.
  - split; [|auto]. intros _. exists s. split; [apply in_or_app; right; now left | auto].
Qed.

(* ---------------- the outer loop ---------------- *)
Lemma fin_loop_spec pts sigs : forall items items',
  fin_loop pts sigs items = (items', true) ->
  exists slots, items' = rev slots ++ items /\ Forall2 (fun P s => fin_find P sigs = Ok s) pts slots.
Proof.
  induction pts as [|P r IH]; intros items items' H; cbn [Musig.fin_loop] in H.
  - injection H as <-. exists []. split; [reflexivity | constructor].
  - destruct (fin_find P sigs) as [s|] eqn:E; [|discriminate].
    destruct (IH _ _ H) as (slots & -> & HF). exists (s :: slots). split.
    + cbn [rev]. now rewrite <- app_assoc.
    + constructor; assumption.
Qed.

(* an exception leaves the slots inserted so far in the witness *)
Lemma fin_loop_raise pts sigs : forall items items',
  fin_loop pts sigs items = (items', false) ->
  exists done P rest slots, pts = done ++ P :: rest /\ items' = rev slots ++ items /\
    Forall2 (fun P s => fin_find P sigs = Ok s) done slots /\ fin_find P sigs = Err.
Proof.
  induction pts as [|P r IH]; intros items items' H; cbn [Musig.fin_loop] in H; [discriminate|].
  destruct (fin_find P sigs) as [s|] eqn:E.
  - destruct (IH _ _ H) as (done & P' & rest & slots & -> & -> & HF & He).
    exists (P :: done), P', rest, (s :: slots). split; [reflexivity|]. split.
    + cbn [rev]. now rewrite <- app_assoc.
    + split; [constructor; assumption | exact He].
  - injection H as <-. exists [], P, r, []. repeat split; [constructor | exact E].
Qed.

Lemma fin_loop_total pts sigs : (forall P, In P pts -> no_raise P sigs) ->
  forall items, exists items', fin_loop pts sigs items = (items', true).
Proof.
  induction pts as [|P r IH]; intros Hn items; cbn [Musig.fin_loop]; [eauto|].
  destruct (fin_find_total P sigs (Hn P (or_introl eq_refl))) as [s ->].
  apply IH. intros Q HQ. apply Hn. now right.
Qed.

(* ---------------- the order of the signatures does not matter ---------------- *)
Definition at_most_one (P : point) (sigs : list bytes) : Prop :=
  forall s1 s2, In s1 sigs -> In s2 sigs -> s1 <> [] -> s2 <> [] ->
    fin_check P s1 = Ok true -> fin_check P s2 = Ok true -> s1 = s2.

Lemma fin_find_perm P sigs sigs' :
  no_raise P sigs -> at_most_one P sigs -> Permutation sigs sigs' ->
  fin_find P sigs = fin_find P sigs'.
Proof.
  intros Hn H1 Hp.
  assert (Hn' : no_raise P sigs').
  { intros sg Hin. apply Hn. exact (Permutation_in _ (Permutation_sym Hp) Hin). }
  destruct (fin_find_total P sigs Hn) as [s Hs]. destruct (fin_find_total P sigs' Hn') as [s' Hs'].
  rewrite Hs, Hs'. f_equal.
  destruct (fin_find_spec P sigs s Hs) as [[-> Hall] | (Hne & Hok & pre & post & E & _)];
  destruct (fin_find_spec P sigs' s' Hs') as [[-> Hall'] | (Hne' & Hok' & pre' & post' & E' & _)].
  - reflexivity.
  - exfalso. assert (Hin : In s' sigs).
    { apply (Permutation_in _ (Permutation_sym Hp)). rewrite E'. apply in_or_app. right. now left. }
    rewrite (Hall s' Hin Hne') in Hok'. discriminate.
  - exfalso. assert (Hin : In s sigs').
    { apply (Permutation_in _ Hp). rewrite E. apply in_or_app. right. now left. }
    rewrite (Hall' s Hin Hne) in Hok. discriminate.
  - apply H1; auto.
    + rewrite E. apply in_or_app. right. now left.
    + apply (Permutation_in _ (Permutation_sym Hp)). rewrite E'. apply in_or_app. right. now left.
Qed.

Lemma fin_loop_perm pts sigs sigs' :
  (forall P, In P pts -> no_raise P sigs) -> (forall P, In P pts -> at_most_one P sigs) ->
  Permutation sigs sigs' -> forall items, fin_loop pts sigs items = fin_loop pts sigs' items.
Proof.
  intros Hn H1 Hp. induction pts as [|P r IH]; intros items; cbn [Musig.fin_loop]; [reflexivity|].
  rewrite <- (fin_find_perm P sigs sigs' (Hn P (or_introl eq_refl)) (H1 P (or_introl eq_refl)) Hp).
  destruct (fin_find P sigs); [|reflexivity].
  apply IH; intros Q HQ; [apply Hn | apply H1]; now right.
Qed.

Theorem finalize_sig_order st sigs sigs' pts :
  ti_points st = Some pts ->
  (forall P, In P pts -> no_raise P sigs) -> (forall P, In P pts -> at_most_one P sigs) ->
  Permutation sigs sigs' -> finalize st sigs = finalize st sigs'.
Proof.
  intros Hp Hn H1 Hperm. unfold finalize_p2tr_multisig. rewrite Hp.
  destruct (length (ti_items st) <? 2)%nat; [reflexivity|].
  f_equal. now apply fin_loop_perm.
Qed.

(* ---------------- initialize, then finalize ---------------- *)
Theorem init_fresh cb sc pts raw cbs tp :
  raw_serialize sc = Ok raw -> cb_serialize cb = Ok cbs ->
  init_p2tr_multisig {| ti_items := []; ti_points := tp |} cb sc (Some pts)
  = Ok ({| ti_items := [raw; cbs]; ti_points := Some pts |}, false).
Proof. intros H1 H2. unfold init_p2tr_multisig. cbn [ti_items]. rewrite H1, H2. reflexivity. Qed.

(* a tap script of another type: RuntimeError, but the witness has already been replaced *)
Theorem init_wrong_type cb sc raw cbs tp :
  raw_serialize sc = Ok raw -> cb_serialize cb = Ok cbs ->
  init_p2tr_multisig {| ti_items := []; ti_points := tp |} cb sc None
  = Ok ({| ti_items := [raw; cbs]; ti_points := tp |}, true).
Proof. intros H1 H2. unfold init_p2tr_multisig. cbn [ti_items]. rewrite H1, H2. reflexivity. Qed.

(* a witness that is not empty: the call does nothing (tap_script is not recorded) *)
Theorem init_nonempty st cb sc mp : ti_items st <> [] -> init_p2tr_multisig st cb sc mp = Ok (st, false).
Proof. unfold init_p2tr_multisig. destruct (ti_items st); [congruence | reflexivity]. Qed.

Theorem finalize_uninitialised st sigs :
  (length (ti_items st) < 2)%nat \/ ti_points st = None -> finalize st sigs = Err.
Proof.
  unfold finalize_p2tr_multisig. intros [H|H].
  - apply Nat.ltb_lt in H. now rewrite H.
  - rewrite H. now destruct (_ <? _)%nat.
Qed.

Theorem finalize_initialised raw cbs pts sigs :
  finalize {| ti_items := [raw; cbs]; ti_points := Some pts |} sigs = Ok (fin_loop pts sigs [raw; cbs]).
Proof. reflexivity. Qed.

(* the assembled witness: one slot per key of the leaf in KEY order (the slot of the last key first), in front
   of what the witness held; a slot is b"" when no signature verifies for the key, else the first one that does *)
Theorem finalize_shape st sigs pts items' :
  ti_points st = Some pts -> finalize st sigs = Ok (items', true) ->
  (2 <= length (ti_items st))%nat /\
  exists slots, items' = rev slots ++ ti_items st /\
    Forall2 (fun P s =>
       (s = [] /\ forall sg, In sg sigs -> sg <> [] -> fin_check P sg = Ok false) \/
       (s <> [] /\ In s sigs /\ fin_check P s = Ok true)) pts slots.
Proof.
  intros Hp. unfold finalize_p2tr_multisig. rewrite Hp.
  destruct (length (ti_items st) <? 2)%nat eqn:El; [discriminate|]. apply Nat.ltb_ge in El.
  intros [= H]. split; [exact El|].
  destruct (fin_loop_spec pts sigs _ _ H) as (slots & -> & HF). exists slots. split; [reflexivity|].
  eapply Forall2_imp; [|exact HF]. intros P s Hs. cbv beta in Hs.
  destruct (fin_find_spec P sigs s Hs) as [[-> Hall] | (Hne & Hok & pre & post & -> & _)]; [now left|].
  right. split; [exact Hne|]. split; [apply in_or_app; right; now left | exact Hok].
Qed.

Theorem finalize_raise_shape st sigs pts items' :
  ti_points st = Some pts -> finalize st sigs = Ok (items', false) ->
  exists done P rest slots, pts = done ++ P :: rest /\ items' = rev slots ++ ti_items st /\
    length slots = length done /\ fin_find P sigs = Err /\
    exists sg, In sg sigs /\ sg <> [] /\ fin_check P sg = Err.
Proof.
  intros Hp. unfold finalize_p2tr_multisig. rewrite Hp.
  destruct (length (ti_items st) <? 2)%nat; [discriminate|]. intros [= H].
  destruct (fin_loop_raise pts sigs _ _ H) as (done & P & rest & slots & -> & -> & HF & He).
  exists done, P, rest, slots. split; [reflexivity|]. split; [reflexivity|].
  split; [symmetry; exact (Forall2_len _ _ _ HF)|]. split; [exact He|].
  clear - He. induction sigs as [|sg r IH]; cbn [Musig.fin_find] in He; [discriminate|].
  destruct sg as [|g0 g].
  - destruct (IH He) as (x & Hx & Hn & Hc). exists x. split; [now right | auto].
  - destruct (fin_check P (g0 :: g)) as [[|]|] eqn:E; cbn [bind] in He; [discriminate| |].
    + destruct (IH He) as (x & Hx & Hn & Hc). exists x. split; [now right | auto].
    + exists (g0 :: g). split; [now left|]. split; [discriminate | exact E].
Qed.

(* ---------------- composition with the tapscript interpreter (C06) ---------------- *)
(* the signature operations of the interpreter for THIS transaction: what op_checksig_schnorr /
   op_checksigadd_schnorr call (S256Point.parse_xonly, SchnorrSignature.parse, Tx.sig_hash, verify_schnorr) *)
Definition tap_sigops_ok (so : sigops) : Prop :=
  (forall x, so_xonly_ok so x = match parse_xonly C x with Ok _ => true | Err => false end) /\
  (forall x sg ht, so_schnorr so x sg ht =
     (P <- parse_xonly C x ;; '(r, s) <- schnorr_parse C sg ;; m <- sighash ht ;;
      schnorr_verify C sha256 P m r s)).

Definition the_tap_sigops : sigops :=
  {| so_checksig := fun _ _ => Err; so_multisig := fun _ _ => Err;
     so_xonly_ok := fun x => match parse_xonly C x with Ok _ => true | Err => false end;
     so_schnorr := fun x sg ht =>
       (P <- parse_xonly C x ;; '(r, s) <- schnorr_parse C sg ;; m <- sighash ht ;;
        schnorr_verify C sha256 P m r s) |}.
Lemma the_tap_sigops_ok : tap_sigops_ok the_tap_sigops.
Proof. split; reflexivity. Qed.

Variable so : sigops.
Hypothesis SO : tap_sigops_ok so.

(* Tx.finalize_p2tr_multisig takes the last byte of ANY 65-byte signature as its hash type; the
   interpreter (since fix 746b81a, BIP341's signature validation rule) only accepts the defined
   ones 01 02 03 81 82 83.  Hypothesis on the signatures handed to finalize: *)
Definition sigs_defined_ht (sigs : list bytes) : Prop :=
  Forall (fun sg => length sg = 65%nat -> schnorr_ht_defined (last sg 0) = true) sigs.

(* a slot chosen by finalize is a slot the interpreter accepts: empty, or a verifying signature *)
Lemma slot_ok x P sigs s :
  sigs_defined_ht sigs ->
  parse_xonly C x = Ok P -> fin_find P sigs = Ok s -> sig_slot_ok so x s.
Proof.
  intros Hform Hx Hs. destruct SO as [SO1 SO2]. split; [rewrite SO1, Hx; reflexivity|].
  destruct (fin_find_spec P sigs s Hs) as [[-> _] | (Hne & Hok & pre & post & E & _)]; [now left|]. right.
  assert (Hin : In s sigs) by (rewrite E; apply in_or_app; right; now left).
  pose proof (proj1 (Forall_forall _ _) Hform s Hin) as Hd.
  unfold Musig.fin_check in Hok. unfold schnorr_form_ok, schnorr_split.
  destruct (length s =? 64)%nat eqn:E64.
  - split; [reflexivity|]. rewrite SO2, Hx. cbn [bind].
    apply Nat.eqb_eq in E64. assert (E65 : (length s =? 65)%nat = false) by (apply Nat.eqb_neq; lia).
    rewrite E65. cbn [fst snd]. exact Hok.
  - destruct (length s =? 65)%nat eqn:E65; [|discriminate].
    split; [rewrite (Hd (proj1 (Nat.eqb_eq _ _) E65)); reflexivity|].
    rewrite SO2, Hx. cbn [bind fst snd]. exact Hok.
Qed.

Lemma slots_ok : forall xs pts sigs slots,
  sigs_defined_ht sigs ->
  mapM (parse_xonly C) xs = Ok pts ->
  Forall2 (fun P s => fin_find P sigs = Ok s) pts slots ->
  Forall2 (sig_slot_ok so) xs slots.
Proof.
  induction xs as [|x xs IH]; intros pts sigs slots Hform Hm HF; cbn [mapM] in Hm.
  - injection Hm as <-. inversion HF. constructor.
  - destruct (parse_xonly C x) as [P|] eqn:Ex; [|discriminate]. cbn [bind] in Hm.
    destruct (mapM (parse_xonly C) xs) as [ps|] eqn:Em; [|discriminate]. cbn [bind] in Hm.
    injection Hm as <-. inversion HF as [|? s ? slots' Hs HF']; subst.
    constructor; [exact (slot_ok x P sigs s Hform Ex Hs) | exact (IH ps sigs slots' Hform eq_refl HF')].
Qed.

(* number of keys somebody signed for *)
Definition signed_b (sigs : list bytes) (P : point) : bool :=
  match fin_find P sigs with Ok (_ :: _) => true | _ => false end.

Lemma signed_b_iff P sigs : no_raise P sigs -> (signed_b sigs P = true <-> signed P sigs).
Proof.
  intros Hn. unfold signed_b. destruct (fin_find_total P sigs Hn) as [s Hs]. rewrite Hs.
  rewrite <- (fin_find_signed P sigs s Hs). destruct s; split; congruence.
Qed.

Lemma nonempty_count pts sigs slots :
  Forall2 (fun P s => fin_find P sigs = Ok s) pts slots ->
  zlen (filter nonempty_item slots) = zlen (filter (signed_b sigs) pts).
Proof.
  induction 1 as [|P s pts slots Hs _ IH]; [reflexivity|].
  cbn [filter]. unfold signed_b at 1. rewrite Hs.
  destruct s as [|s0 s]; cbn [nonempty_item]; [exact IH|]. unfold zlen in *. cbn [length]. lia.
Qed.

Section Interp.
Variables ripemd160 sha1 hash160 hash256 : bytes -> bytes.
Variable c : txctx.
Variable w : list bytes.
Notation vloop := (vloop C ripemd160 sha1 sha256 hash160 hash256 so c w).

(* finalize after initialize on a k-of-n MultiSigTapScript leaf (n >= 2, no timelock):
   the witness is  <slot of the last key> .. <slot of the first key> <script> <control block>  and the leaf
   script, run on the stack the interpreter builds from it, accepts iff exactly k keys were signed for *)
Theorem finalize_spend_iff keys k cs pts raw cbs sigs items' r a :
  (2 <= length keys)%nat -> 1 <= k <= 16 ->
  multisig_cmds C NoLock keys k = Ok cs ->
  multisig_points C keys = Ok pts ->
  finalize {| ti_items := [raw; cbs]; ti_points := Some pts |} sigs = Ok (items', true) ->
  sigs_defined_ht sigs ->
  exists slots,
    items' = rev slots ++ [raw; cbs] /\ length slots = length keys /\
    rev (firstn (length items' - 2) items') = slots /\
    Forall2 (fun P s => fin_find P sigs = Ok s) pts slots /\
    Forall2 (sig_slot_ok so) (sort_bytes (map xonly keys)) slots /\
    ((exists fuel, vloop fuel cs (slots ++ r) a (fl_off true) = OTrue)
     <-> zlen (filter (signed_b sigs) pts) = k).
Proof.
  intros H2 Hk Hcs Hpts Hfin Hform.
  rewrite (multisig_cmds_tap_script C keys k cs H2 Hk Hcs).
  unfold multisig_points in Hpts. destruct keys as [|k0 keys']; [cbn in H2; lia|].
  set (keys := k0 :: keys') in *. set (xs := sort_bytes (map xonly keys)) in *.
  rewrite finalize_initialised in Hfin. injection Hfin as Hfin.
  destruct (fin_loop_spec pts sigs _ _ Hfin) as (slots & -> & HF).
  pose proof (slots_ok xs pts sigs slots Hform Hpts HF) as Hslots.
  assert (Hlx : length xs = length keys).
  { unfold xs. rewrite (Permutation_length (sort_perm _)). apply map_length. }
  assert (Hls : length slots = length keys) by (rewrite <- Hlx; symmetry; exact (Forall2_len _ _ _ Hslots)).
  exists slots. split; [reflexivity|]. split; [exact Hls|]. split.
  { rewrite app_length, rev_length. cbn [length].
    replace (length slots + 2 - 2)%nat with (length (rev slots)) by (rewrite rev_length; lia).
    rewrite firstn_app, Nat.sub_diag, firstn_O, app_nil_r, firstn_all. apply rev_involutive. }
  split; [exact HF|]. split; [exact Hslots|].
  destruct xs as [|x1 xs'] eqn:Exs; [cbn in Hlx; unfold keys in Hlx; cbn in Hlx; lia|].
  assert (Hl : length slots = S (length xs')) by (rewrite Hls, <- Hlx; reflexivity).
  rewrite (tap_multisig_iff C ripemd160 sha1 sha256 hash160 hash256 so c w k x1 xs' slots r a Hk Hl).
  rewrite (count_ok_canonical so _ _ Hslots), (nonempty_count pts sigs slots HF).
  split; [intros [= E]; exact E | intros ->; reflexivity].
Qed.

(* the same at the level of Tx.verify_input (what finalize_p2tr_multisig returns), given the two facts that
   belong to C12 / C04: the control block commits the leaf to the output key, and the serialized leaf script
   parses back to its commands *)
Theorem finalize_verify_input keys k cs pts raw cbs sigs items' x ts :
  (2 <= length keys)%nat -> 1 <= k <= 16 ->
  multisig_cmds C NoLock keys k = Ok cs ->
  multisig_points C keys = Ok pts ->
  finalize {| ti_items := [raw; cbs]; ti_points := Some pts |} sigs = Ok (items', true) ->
  sigs_defined_ht sigs ->
  length x = 32%nat -> hd 0 cbs <> 80 ->
  script_path_commit_check C sha256 x items' = Ok true ->
  witness_tap_script items' = Ok ts -> s_cmds ts = cs ->
  zlen (filter (signed_b sigs) pts) = k ->
  verify_input C ripemd160 sha1 sha256 hash160 hash256 so c items' [] (p2tr_script x) = OTrue.
Proof.
  intros H2 Hk Hcs Hpts Hfin Hform Hx Hcb Hcommit Hts Hsc Hcount.
  destruct (finalize_spend_iff keys k cs pts raw cbs sigs items' [] [] H2 Hk Hcs Hpts Hfin Hform)
    as (slots & Hit & Hls & Hrev & HF & Hslots & _).
  pose proof (multisig_cmds_tap_script C keys k cs H2 Hk Hcs) as Ecs.
  assert (Hlx : length (sort_bytes (map xonly keys)) = length keys).
  { rewrite (Permutation_length (sort_perm _)). apply map_length. }
  destruct (sort_bytes (map xonly keys)) as [|x1 xs'] eqn:Exs; [cbn in Hlx; lia|].
  assert (Hna : has_annex items' = false).
  { unfold has_annex. rewrite Hit. unfold last_item. rewrite last_app_ne by discriminate.
    cbn [last]. destruct cbs as [|b0 cb']; [apply andb_false_r|].
    cbn [hd] in Hcb. apply Z.eqb_neq in Hcb. rewrite Hcb. apply andb_false_r. }
  assert (Hst : annex_stripped items' = items') by (unfold annex_stripped; now rewrite Hna).
  assert (Hlen : length items' = (S (length xs') + 2)%nat).
  { rewrite Hit, app_length, rev_length, Hls, <- Hlx. reflexivity. }
  apply (p2tr_tap_multisig_complete C ripemd160 sha1 sha256 hash160 hash256 so c items' x k x1 xs' ts Hx Hk).
  - rewrite Hst. exact Hlen.
  - exact Hcommit.
  - rewrite Hst. exact Hts.
  - rewrite Hsc. exact Ecs.
  - rewrite Hst. replace (S (length xs')) with (length items' - 2)%nat by lia. rewrite Hrev.
    rewrite (count_ok_canonical so _ _ Hslots), (nonempty_count pts sigs slots HF), Hcount. reflexivity.
Qed.

(* the leaf of a k-subset in multi_leaf_tree is k-of-k: it accepts iff EVERY key of the subset was signed for *)
Theorem finalize_k_of_k_iff keys k cs pts raw cbs sigs items' r a :
  (2 <= length keys)%nat -> zlen keys = k -> k <= 16 ->
  multisig_cmds C NoLock keys k = Ok cs ->
  multisig_points C keys = Ok pts ->
  (forall P, In P pts -> no_raise P sigs) ->
  finalize {| ti_items := [raw; cbs]; ti_points := Some pts |} sigs = Ok (items', true) ->
  sigs_defined_ht sigs ->
  ((exists fuel, vloop fuel cs (rev (firstn (length items' - 2) items') ++ r) a (fl_off true) = OTrue)
   <-> forall P, In P pts -> signed P sigs).
Proof.
  intros H2 Hzk Hk16 Hcs Hpts Hnr Hfin Hform.
  assert (Hk : 1 <= k <= 16) by (unfold zlen in Hzk; lia).
  destruct (finalize_spend_iff keys k cs pts raw cbs sigs items' r a H2 Hk Hcs Hpts Hfin Hform)
    as (slots & _ & Hls & -> & HF & _ & Hiff).
  rewrite Hiff.
  assert (Hlp : length pts = length keys) by (rewrite <- Hls; exact (Forall2_len _ _ _ HF)).
  assert (Hzp : zlen pts = k) by (unfold zlen in *; lia).
  rewrite <- Hzp. clear - Hnr. unfold zlen. split.
  - intros Hlen P HP. apply signed_b_iff; [now apply Hnr|].
    assert (E : filter (signed_b sigs) pts = pts).
    { clear HP Hnr. induction pts as [|Q t IH]; [reflexivity|]. cbn [filter] in *.
      pose proof (filter_len_le (signed_b sigs) t) as Hle.
      destruct (signed_b sigs Q); cbn [length] in Hlen; [f_equal; apply IH; lia | lia]. }
    rewrite <- E in HP. apply filter_In in HP. tauto.
  - intros Hall. f_equal. f_equal.
    induction pts as [|Q t IH]; [reflexivity|]. cbn [filter].
    assert (HQ : signed_b sigs Q = true).
    { apply signed_b_iff; [apply Hnr; now left | apply Hall; now left]. }
    rewrite HQ. f_equal. apply IH; intros P HP; [apply Hnr | apply Hall]; now right.
Qed.

End Interp.
End Final.
