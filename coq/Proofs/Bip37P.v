(* Proofs/Bip37P.v — the recursive BIP37 validator (Model/MerkleBlock.v traverse) against
   the BIP37 builder (Spec/Bip37.v): completeness, soundness with authenticated total,
   and the bridge  consensus Merkle root = CalcHash(height, 0). *)
From V Require Import Base.Prelude Base.Ints Model.Merkle Model.MerkleBlock Spec.Bip37
  Proofs.MerkleP.

(* ------------------------------------------------------------------ *)
(* arithmetic of tree widths *)

Lemma pow2_pos h : (0 < 2 ^ h)%nat.
Proof. apply Nat.neq_0_lt_0, Nat.pow_nonzero. lia. Qed.

Lemma width_lt n h pos : (pos < width n h)%nat <-> (pos * 2 ^ h < n)%nat.
Proof.
  unfold width. pose proof (pow2_pos h) as Hp. set (p := (2 ^ h)%nat) in *.
  split; intros H.
  - assert (S pos <= (n + p - 1) / p)%nat as H1 by lia.
    pose proof (Nat.mul_div_le (n + p - 1) p ltac:(lia)) as H2.
    assert (p * S pos <= p * ((n + p - 1) / p))%nat as H3 by (apply Nat.mul_le_mono_l; exact H1).
    nia.
  - apply Nat.lt_le_trans with (m := S pos); [lia|].
    apply Nat.div_le_lower_bound; [lia|]. nia.
Qed.

Lemma width_ltb n h pos : (pos <? width n h)%nat = (pos * 2 ^ h <? n)%nat.
Proof. apply Bool.eq_true_iff_eq. rewrite !Nat.ltb_lt. apply width_lt. Qed.

Lemma pow2_S h : (2 ^ S h = 2 * 2 ^ h)%nat.
Proof. reflexivity. Qed.

(* ------------------------------------------------------------------ *)
(* list helpers *)

Lemma firstn_add {A} a b (l : list A) : firstn (a + b) l = firstn a l ++ firstn b (skipn a l).
Proof.
  revert l; induction a as [|a IH]; intros l; [reflexivity|].
  destruct l as [|x l]; cbn [Nat.add firstn skipn app].
  - now rewrite firstn_nil.
  - now rewrite IH.
Qed.

Lemma skipn_add {A} a b (l : list A) : skipn b (skipn a l) = skipn (a + b) l.
Proof.
  revert l; induction a as [|a IH]; intros l; [reflexivity|].
  destruct l as [|x l]; cbn [Nat.add skipn].
  - now rewrite skipn_nil.
  - apply IH.
Qed.

Lemma app_inj_len {A} (a b c d : list A) :
  a ++ b = c ++ d -> length a = length c -> a = c /\ b = d.
Proof.
  revert c; induction a as [|x a IH]; intros [|y c] E L; cbn in *; try discriminate.
  - auto.
  - injection E as -> E. destruct (IH c E ltac:(lia)) as [-> ->]. auto.
Qed.

Definition slice {A} (h pos : nat) (l : list A) : list A := firstn (2 ^ h) (skipn (pos * 2 ^ h) l).

Lemma slice_S {A} h pos (l : list A) :
  slice (S h) pos l = slice h (2 * pos) l ++ slice h (2 * pos + 1) l.
Proof.
  unfold slice. rewrite pow2_S.
  replace (2 * 2 ^ h)%nat with (2 ^ h + 2 ^ h)%nat by lia.
  rewrite firstn_add, skipn_add. f_equal; f_equal; f_equal; lia.
Qed.

Lemma slice_0 {A} pos (l : list A) d : (pos < length l)%nat -> slice 0 pos l = [nth pos l d].
Proof.
  intros H. unfold slice. cbn [Nat.pow]. rewrite Nat.mul_1_r.
  revert pos H; induction l as [|x l IH]; intros pos H; [cbn in H; lia|].
  destruct pos as [|pos]; cbn [skipn nth].
  - reflexivity.
  - apply IH. cbn in H. lia.
Qed.

Lemma slice_beyond {A} h pos (l : list A) : (length l <= pos * 2 ^ h)%nat -> slice h pos l = [].
Proof. intros H. unfold slice. rewrite skipn_all2 by exact H. apply firstn_nil. Qed.

Lemma slice_all {A} h (l : list A) : (length l <= 2 ^ h)%nat -> slice h 0 l = l.
Proof. intros H. unfold slice. cbn [Nat.mul skipn]. now apply firstn_all2. Qed.

Lemma slice_length {A B} h pos (l : list A) (m : list B) :
  length l = length m -> length (slice h pos l) = length (slice h pos m).
Proof. intros H. unfold slice. now rewrite !firstn_length, !skipn_length, H. Qed.

(* selected elements *)
Definition sel {A} (l : list A) (m : list bool) : list A := map fst (filter snd (combine l m)).

Lemma sel_app {A} (a b : list A) c d :
  length a = length c -> sel (a ++ b) (c ++ d) = sel a c ++ sel b d.
Proof.
  unfold sel. revert c; induction a as [|x a IH]; intros [|y c] L; cbn in L; try discriminate.
  - reflexivity.
  - cbn [app combine filter snd]. destruct y; cbn [map fst app]; rewrite IH by lia; reflexivity.
Qed.

Lemma sel_none {A} (l : list A) m : existsb (fun b => b) m = false -> sel l m = [].
Proof.
  unfold sel. revert m; induction l as [|x l IH]; intros [|y m] H; try reflexivity.
  cbn in H. apply orb_false_iff in H as [-> H]. cbn. now apply IH.
Qed.

(* the length check of populate_tree *)
Lemma all32_Forall (hs : list bytes) : all32 hs = true <-> Forall (fun t => length t = 32%nat) hs.
Proof.
  unfold all32. rewrite forallb_forall, Forall_forall.
  split; intros H x Hx; specialize (H x Hx); [now apply Nat.eqb_eq in H | now apply Nat.eqb_eq].
Qed.

(* ------------------------------------------------------------------ *)
Section Bip37P.
Variable hash256 : bytes -> bytes.
Variable txids : list bytes.
Let n : nat := length txids.

Notation core_level := (core_level hash256).
Notation calc_hash := (calc_hash hash256 txids).

Definition level (h : nat) : list bytes := Nat.iter h core_level txids.

Lemma level_S h : level (S h) = core_level (level h).
Proof. reflexivity. Qed.

Lemma div2_S_lt_iff pos m : (pos < Nat.div2 (S m))%nat <-> (2 * pos < m)%nat.
Proof.
  rewrite Nat.div2_div. split; intros H.
  - pose proof (Nat.mul_div_le (S m) 2 ltac:(lia)) as H1. nia.
  - unfold lt. apply Nat.div_le_lower_bound; lia.
Qed.

Lemma level_len_lt h : forall pos, (pos < length (level h))%nat <-> (pos * 2 ^ h < n)%nat.
Proof.
  induction h as [|h IH]; intros pos.
  - unfold level, n. simpl. lia.
  - rewrite level_S, (core_level_length hash256), div2_S_lt_iff, IH, pow2_S. lia.
Qed.

Lemma nth_core_level : forall l pos d,
  (pos < length (core_level l))%nat ->
  nth pos (core_level l) d =
  hash256 (nth (2 * pos) l d ++
           (if (2 * pos + 1 <? length l)%nat then nth (2 * pos + 1) l d else nth (2 * pos) l d)).
Proof.
  induction l as [| a | a b r IH] using list_ind2; intros pos d H.
  - cbn in H. lia.
  - cbn in H. assert (pos = 0%nat) as -> by lia. reflexivity.
  - destruct pos as [|pos].
    + reflexivity.
    + cbn [Bip37.core_level length] in H.
      replace (2 * S pos)%nat with (S (S (2 * pos))) by lia.
      replace (S (S (2 * pos)) + 1)%nat with (S (S (2 * pos + 1))) by lia.
      cbn [Bip37.core_level nth length].
      rewrite IH by lia.
      replace (S (S (2 * pos + 1)) <? S (S (length r)))%nat with (2 * pos + 1 <? length r)%nat; [reflexivity|].
      destruct (Nat.ltb_spec (2 * pos + 1) (length r)); destruct (Nat.ltb_spec (S (S (2 * pos + 1))) (S (S (length r))));
        try reflexivity; lia.
Qed.

Lemma calc_tree_width_eq h : calc_tree_width txids h = width n h.
Proof. reflexivity. Qed.

Lemma calc_hash_level : forall h pos, (pos * 2 ^ h < n)%nat -> calc_hash h pos = nth pos (level h) [].
Proof.
  induction h as [|h IH]; intros pos H.
  - reflexivity.
  - cbn [Bip37.calc_hash].
    assert (pos < length (core_level (level h)))%nat as HL by (rewrite <- level_S; apply level_len_lt; exact H).
    rewrite level_S, nth_core_level by exact HL.
    rewrite pow2_S in H.
    replace (pos * 2)%nat with (2 * pos)%nat by lia.
    rewrite IH by lia. rewrite calc_tree_width_eq, width_ltb.
    assert ((2 * pos + 1 <? length (level h)) = ((2 * pos + 1) * 2 ^ h <? n))%nat as ->.
    { apply Bool.eq_true_iff_eq. rewrite !Nat.ltb_lt. apply level_len_lt. }
    destruct (Nat.ltb_spec ((2 * pos + 1) * 2 ^ h) n) as [K|K]; [|reflexivity].
    now rewrite IH.
Qed.

(* the Core height loop and the Core root loop walk the same levels *)
Lemma root_loop_level : forall fuel j,
  core_root_loop hash256 fuel (level j) = level (calc_height txids fuel j).
Proof.
  induction fuel as [|fuel IH]; intros j; [reflexivity|].
  cbn [core_root_loop calc_height]. rewrite calc_tree_width_eq.
  assert ((1 <? length (level j)) = (1 <? width n j))%nat as ->.
  { apply Bool.eq_true_iff_eq. rewrite !Nat.ltb_lt, level_len_lt, width_lt. reflexivity. }
  destruct (1 <? width n j)%nat; [|reflexivity].
  rewrite <- level_S. apply IH.
Qed.

Lemma consensus_root_calc_hash :
  (1 <= n)%nat -> consensus_root hash256 txids = calc_hash (tree_height txids) 0.
Proof.
  intros Hn. unfold consensus_root, tree_height. fold n.
  change (core_root_loop hash256 n txids) with (core_root_loop hash256 n (level 0)).
  rewrite root_loop_level.
  rewrite calc_hash_level by lia.
  assert (0 < length (level (calc_height txids n 0)))%nat as HL by (apply level_len_lt; lia).
  destruct (level (calc_height txids n 0)); [cbn in HL; lia | reflexivity].
Qed.

(* characterisation of heights *)
Definition is_height (h : nat) : Prop := (n <= 2 ^ h)%nat /\ forall i, (i < h)%nat -> (2 ^ i < n)%nat.

Lemma is_height_unique h h' : is_height h -> is_height h' -> h = h'.
Proof.
  intros [A1 A2] [B1 B2].
  destruct (Nat.lt_trichotomy h h') as [L|[E|L]]; [|exact E|].
  - specialize (B2 h L). lia.
  - specialize (A2 h' L). lia.
Qed.

Lemma calc_height_spec : forall fuel j,
  (forall i, (i < j)%nat -> (2 ^ i < n)%nat) -> (n <= 2 ^ (j + fuel))%nat ->
  is_height (calc_height txids fuel j).
Proof.
  induction fuel as [|fuel IH]; intros j Hlt Hle.
  - cbn [calc_height]. rewrite Nat.add_0_r in Hle. split; assumption.
  - cbn [calc_height]. rewrite calc_tree_width_eq.
    destruct (Nat.ltb_spec 1 (width n j)) as [G|G].
    + apply IH.
      * intros i Hi. destruct (Nat.eq_dec i j) as [->|]; [|apply Hlt; lia].
        apply width_lt in G. lia.
      * replace (S j + fuel)%nat with (j + S fuel)%nat by lia. exact Hle.
    + split; [|exact Hlt].
      destruct (Nat.le_gt_cases n (2 ^ j)) as [K|K]; [exact K|].
      assert (1 < width n j)%nat by (apply width_lt; lia). lia.
Qed.

Lemma tree_height_is_height : is_height (tree_height txids).
Proof.
  unfold tree_height. fold n. apply calc_height_spec.
  - intros i Hi. lia.
  - cbn [Nat.add]. apply Nat.lt_le_incl, Nat.pow_gt_lin_r. lia.
Qed.

Lemma max_depth_is_height : (1 <= n)%nat -> is_height (max_depth (Z.of_nat n)).
Proof.
  intros Hn. unfold max_depth, bit_length.
  destruct (Z.leb_spec (Z.of_nat n - 1) 0) as [H|H].
  - assert (n = 1%nat) as -> by lia. split; [cbn; lia | intros i Hi; cbn in Hi; lia].
  - pose proof (Z.log2_spec (Z.of_nat n - 1) H) as [L1 L2].
    pose proof (Z.log2_nonneg (Z.of_nat n - 1)) as L0.
    set (k := Z.log2 (Z.of_nat n - 1)) in *.
    replace (Z.to_nat (k + 1)) with (S (Z.to_nat k)) by lia.
    assert (Z.of_nat (2 ^ Z.to_nat k) = 2 ^ k) as P1.
    { rewrite Nat2Z.inj_pow, Z2Nat.id by lia. reflexivity. }
    split.
    + rewrite pow2_S. apply Nat2Z.inj_le. rewrite Nat2Z.inj_mul, P1.
      rewrite Z.pow_succ_r in L2 by lia. change (Z.of_nat 2) with 2. lia.
    + intros i Hi. apply Nat2Z.inj_lt. rewrite Nat2Z.inj_pow.
      assert (2 ^ Z.of_nat i <= 2 ^ k) by (apply Z.pow_le_mono_r; lia).
      change (Z.of_nat 2) with 2. lia.
Qed.

Lemma tree_height_max_depth : (1 <= n)%nat -> tree_height txids = max_depth (Z.of_nat n).
Proof.
  intros Hn. apply is_height_unique; [apply tree_height_is_height | now apply max_depth_is_height].
Qed.

(* ------------------------------------------------------------------ *)
(* completeness *)
Section Complete.
Variable vmatch : list bool.
Hypothesis vmatch_len : length vmatch = n.

Definition b2z (b : bool) : Z := if b then 1 else 0.

Notation parent_of_match := (parent_of_match txids vmatch).
Notation tb := (traverse_and_build hash256 txids vmatch).

Lemma existsb_seq_slice : forall k a,
  existsb (fun p => (p <? n)%nat && nth p vmatch false) (seq a k) =
  existsb (fun b => b) (firstn k (skipn a vmatch)).
Proof.
  induction k as [|k IH]; intros a; [reflexivity|].
  cbn [seq existsb]. rewrite IH.
  destruct (Nat.ltb_spec a n) as [H|H].
  - rewrite <- vmatch_len in H.
    assert (skipn a vmatch = nth a vmatch false :: skipn (S a) vmatch) as ->.
    { clear -H. revert a H; induction vmatch as [|x l IHl]; intros a H; [cbn in H; lia|].
      destruct a as [|a]; [reflexivity|]. cbn [skipn nth]. rewrite IHl by (cbn in H; lia). reflexivity. }
    reflexivity.
  - rewrite <- vmatch_len in H. rewrite !skipn_all2 by lia. rewrite !firstn_nil. reflexivity.
Qed.

Lemma parent_of_match_slice h pos :
  parent_of_match h pos = existsb (fun b => b) (slice h pos vmatch).
Proof. unfold Bip37.parent_of_match, slice. fold n. apply existsb_seq_slice. Qed.

Definition node_matches (h pos : nat) : list bytes :=
  map (@rev Z) (sel (slice h pos txids) (slice h pos vmatch)).

Lemma traverse_complete : forall h pos br hr,
  (pos * 2 ^ h < n)%nat ->
  traverse hash256 n h pos (map b2z (fst (tb h pos)) ++ br) (snd (tb h pos) ++ hr) =
  Ok (calc_hash h pos, node_matches h pos, br, hr).
Proof.
  induction h as [|h IH]; intros pos br hr Hpos.
  - cbn [Bip37.traverse_and_build fst snd map app traverse].
    rewrite parent_of_match_slice. unfold node_matches.
    cbn [Nat.pow] in Hpos. rewrite Nat.mul_1_r in Hpos.
    rewrite (slice_0 pos txids []) by (fold n; lia).
    rewrite (slice_0 pos vmatch false) by lia.
    cbn [existsb Bip37.calc_hash]. rewrite orb_false_r.
    destruct (nth pos vmatch false); reflexivity.
  - rewrite pow2_S in Hpos.
    cbn [Bip37.traverse_and_build].
    destruct (parent_of_match (S h) pos) eqn:Epm; cbn [negb].
    + (* descend *)
      replace (pos * 2)%nat with (2 * pos)%nat by lia.
      rewrite calc_tree_width_eq.
      pose proof (IH (2 * pos)%nat) as IHl.
      destruct (tb h (2 * pos)%nat) as [b1 h1] eqn:E1. cbn [fst snd] in IHl.
      destruct (Nat.ltb_spec (2 * pos + 1) (width n h)) as [Hr|Hr].
      * pose proof (IH (2 * pos + 1)%nat) as IHr.
        destruct (tb h (2 * pos + 1)%nat) as [b2 h2] eqn:E2. cbn [fst snd] in IHr.
        cbn [fst snd map b2z app traverse]. change (1 =? 0) with false. cbv iota.
        rewrite map_app, <- !app_assoc.
        rewrite IHl by lia. cbn [bind].
        destruct (Nat.ltb_spec (2 * pos + 1) (width n h)) as [_|]; [|lia].
        apply width_lt in Hr.
        rewrite IHr by lia. cbn [bind].
        f_equal. f_equal. f_equal. f_equal.
        -- cbn [Bip37.calc_hash]. rewrite calc_tree_width_eq.
           replace (pos * 2)%nat with (2 * pos)%nat by lia.
           destruct (Nat.ltb_spec (2 * pos + 1) (width n h)) as [_|G]; [reflexivity|].
           apply width_lt in Hr. lia.
        -- unfold node_matches. rewrite <- map_app. f_equal.
           rewrite !slice_S. symmetry. apply sel_app. apply slice_length. now rewrite vmatch_len.
      * cbn [fst snd map b2z app traverse]. change (1 =? 0) with false. cbv iota.
        idtac.
        rewrite IHl by lia. cbn [bind].
        destruct (Nat.ltb_spec (2 * pos + 1) (width n h)) as [G|_]; [lia|].
        f_equal. f_equal. f_equal. f_equal.
        -- cbn [Bip37.calc_hash]. rewrite calc_tree_width_eq.
           replace (pos * 2)%nat with (2 * pos)%nat by lia.
           destruct (Nat.ltb_spec (2 * pos + 1) (width n h)) as [G|_]; [lia|reflexivity].
        -- unfold node_matches. f_equal. rewrite !slice_S.
           assert (~ (2 * pos + 1 < width n h)%nat) as Hr' by lia. rewrite width_lt in Hr'.
           rewrite (slice_beyond h (2 * pos + 1) txids) by (fold n; lia).
           rewrite (slice_beyond h (2 * pos + 1) vmatch) by lia.
           now rewrite !app_nil_r.
    + (* not a parent of a match: one 0 bit, one hash *)
      cbn [fst snd map b2z app traverse]. change (0 =? 0) with true. cbv iota.
      f_equal. f_equal. f_equal. unfold node_matches.
      rewrite parent_of_match_slice in Epm. now rewrite sel_none.
Qed.

Lemma build_complete :
  (1 <= n)%nat ->
  all32 (snd (build hash256 txids vmatch)) = true ->
  forall pad, forallb (fun b => b =? 0) pad = true ->
  populate_tree_rec hash256 (Z.of_nat n)
    (map b2z (fst (build hash256 txids vmatch)) ++ pad) (snd (build hash256 txids vmatch)) =
  Ok (consensus_root hash256 txids, map (@rev Z) (sel txids vmatch)).
Proof.
  intros Hn H32 pad Hpad. unfold populate_tree_rec. rewrite H32. cbn [negb]. unfold build.
  destruct (Z.ltb_spec (Z.of_nat n) 1) as [H|_]; [lia|].
  rewrite Nat2Z.id, <- tree_height_max_depth by exact Hn.
  pose proof (traverse_complete (tree_height txids) 0 pad [] ltac:(lia)) as HT.
  rewrite app_nil_r in HT. rewrite HT. cbn [bind leftover_ok]. rewrite Hpad.
  rewrite consensus_root_calc_hash by exact Hn.
  unfold node_matches. destruct tree_height_is_height as [Hh _].
  rewrite !slice_all by (try rewrite vmatch_len; exact Hh). reflexivity.
Qed.
End Complete.

(* ------------------------------------------------------------------ *)
(* soundness when the total is the block's transaction count *)
Section Sound.
Hypothesis hash_len : forall x, length (hash256 x) = 32%nat.
Hypothesis txid_len : Forall (fun t => length t = 32%nat) txids.

Definition collision : Prop := exists x y : bytes, x <> y /\ hash256 x = hash256 y.

Lemma calc_hash_len : forall h pos, (pos * 2 ^ h < n)%nat -> length (calc_hash h pos) = 32%nat.
Proof.
  intros [|h] pos H.
  - cbn [Bip37.calc_hash]. rewrite Forall_forall in txid_len. apply txid_len, nth_In.
    cbn [Nat.pow] in H. fold n. lia.
  - cbn [Bip37.calc_hash]. apply hash_len.
Qed.

Lemma traverse_sound : forall h pos bits hs v ms bits' hs',
  (pos * 2 ^ h < n)%nat ->
  Forall (fun t => length t = 32%nat) hs ->
  traverse hash256 n h pos bits hs = Ok (v, ms, bits', hs') ->
  (length v = 32%nat /\ Forall (fun t => length t = 32%nat) hs') /\
  (v = calc_hash h pos -> (forall m, In m ms -> In m (map (@rev Z) txids)) \/ collision).
Proof.
  induction h as [|h IH]; intros pos bits hs v ms bits' hs' Hpos Hhs HT.
  - cbn [traverse] in HT. destruct bits as [|b bits]; [discriminate|].
    destruct hs as [|x hs]; [discriminate|]. injection HT as <- <- <- <-.
    inversion Hhs as [|? ? Hx Hr]; subst. split; [split; assumption|].
    intros E. left. intros m Hm. destruct (b =? 1); [|contradiction].
    destruct Hm as [<-|[]]. apply in_map. rewrite E. cbn [Bip37.calc_hash]. apply nth_In.
    cbn [Nat.pow] in Hpos. fold n. lia.
  - rewrite pow2_S in Hpos. cbn [traverse] in HT.
    destruct bits as [|b bits]; [discriminate|].
    destruct (b =? 0).
    { destruct hs as [|x hs]; [discriminate|]. injection HT as <- <- <- <-.
      inversion Hhs as [|? ? Hx Hr]; subst. split; [split; assumption|].
      intros _. left. intros m []. }
    destruct (traverse hash256 n h (2 * pos) bits hs) as [[[[l m1] bits1] hs1]|] eqn:EL; [|discriminate].
    cbn [bind] in HT.
    assert (2 * pos * 2 ^ h < n)%nat as Hl by lia.
    destruct (IH _ _ _ _ _ _ _ Hl Hhs EL) as [[Ll Lhs1] SL].
    assert (length (calc_hash h (2 * pos)) = 32%nat) as LL by (apply calc_hash_len; lia).
    destruct (Nat.ltb_spec (2 * pos + 1) (width n h)) as [Hr|Hr].
    + destruct (traverse hash256 n h (2 * pos + 1) bits1 hs1) as [[[[r m2] bits2] hs2]|] eqn:ER; [|discriminate].
      cbn [bind] in HT. injection HT as <- <- <- <-.
      pose proof Hr as Hr'. apply width_lt in Hr'.
      destruct (IH _ _ _ _ _ _ _ Hr' Lhs1 ER) as [[Lr Lhs2] SR].
      split; [split; [apply hash_len | exact Lhs2]|].
      intros E. cbn [Bip37.calc_hash] in E. rewrite calc_tree_width_eq in E.
      replace (pos * 2)%nat with (2 * pos)%nat in E by lia.
      destruct (Nat.ltb_spec (2 * pos + 1) (width n h)) as [_|]; [|lia].
      unfold merkle_parent in E.
      destruct (list_eq_dec Z.eq_dec (l ++ r) (calc_hash h (2 * pos) ++ calc_hash h (2 * pos + 1))) as [EQ|NE].
      * apply app_inj_len in EQ as [El Er]; [|lia].
        destruct (SL El) as [SL'|C]; [|right; exact C].
        destruct (SR Er) as [SR'|C]; [|right; exact C].
        left. intros m Hm. apply in_app_or in Hm as [Hm|Hm]; auto.
      * right. eexists; eexists; split; [exact NE | exact E].
    + injection HT as <- <- <- <-.
      split; [split; [apply hash_len | exact Lhs1]|].
      intros E. cbn [Bip37.calc_hash] in E. rewrite calc_tree_width_eq in E.
      replace (pos * 2)%nat with (2 * pos)%nat in E by lia.
      destruct (Nat.ltb_spec (2 * pos + 1) (width n h)) as [|_]; [lia|].
      unfold merkle_parent in E.
      destruct (list_eq_dec Z.eq_dec (l ++ l) (calc_hash h (2 * pos) ++ calc_hash h (2 * pos))) as [EQ|NE].
      * apply app_inj_len in EQ as [El _]; [|lia].
        destruct (SL El) as [SL'|C]; [left; exact SL' | right; exact C].
      * right. eexists; eexists; split; [exact NE | exact E].
Qed.

Lemma populate_sound bits hs root proved :
  (1 <= n)%nat ->
  Forall (fun t => length t = 32%nat) hs ->
  populate_tree_rec hash256 (Z.of_nat n) bits hs = Ok (root, proved) ->
  root = consensus_root hash256 txids ->
  (forall m, In m proved -> In m (map (@rev Z) txids)) \/ collision.
Proof.
  intros Hn Hhs HP Hroot. unfold populate_tree_rec in HP.
  destruct (Z.ltb_spec (Z.of_nat n) 1) as [H|_]; [lia|].
  destruct (all32 hs); [|discriminate]. cbn [negb] in HP.
  rewrite Nat2Z.id, <- tree_height_max_depth in HP by exact Hn.
  destruct (traverse hash256 n (tree_height txids) 0 bits hs) as [[[[v ms] b'] h']|] eqn:ET; [|discriminate].
  cbn [bind] in HP. destruct (leftover_ok b' h'); [|discriminate]. injection HP as <- <-.
  assert (0 * 2 ^ tree_height txids < n)%nat as H0 by lia.
  destruct (traverse_sound _ _ _ _ _ _ _ _ H0 Hhs ET) as [_ S].
  apply S. rewrite Hroot. now apply consensus_root_calc_hash.
Qed.

(* size and shape of what the Core builder emits: 32-byte hashes, at most 4n bits and hashes *)
Section BuildShape.
Variable vmatch : list bool.
Notation tb := (traverse_and_build hash256 txids vmatch).

Lemma tb_props : forall h pos, (pos * 2 ^ h < n)%nat ->
  Forall (fun t => length t = 32%nat) (snd (tb h pos)) /\
  (length (fst (tb h pos)) <= 2 ^ S h - 1)%nat /\ (length (snd (tb h pos)) <= 2 ^ h)%nat.
Proof.
  induction h as [|h IH]; intros pos Hpos.
  - cbn [traverse_and_build fst snd length Nat.pow]. repeat split; try lia.
    constructor; [|constructor]. apply calc_hash_len. exact Hpos.
  - cbn [traverse_and_build]. cbv zeta.
    destruct (negb (Bip37.parent_of_match txids vmatch (S h) pos)).
    { cbn [fst snd length]. pose proof (pow2_pos (S h)). pose proof (pow2_pos (S (S h))).
      rewrite (pow2_S (S h)). repeat split; try lia.
      constructor; [|constructor]. apply calc_hash_len. exact Hpos. }
    rewrite pow2_S in Hpos.
    assert (pos * 2 * 2 ^ h < n)%nat as Hl by lia.
    destruct (IH _ Hl) as [A1 [B1 C1]].
    destruct (tb h (pos * 2)%nat) as [b1 h1]. cbn [fst snd] in A1, B1, C1.
    rewrite calc_tree_width_eq.
    rewrite (pow2_S (S h)), (pow2_S h). rewrite (pow2_S h) in B1. pose proof (pow2_pos h).
    destruct (Nat.ltb_spec (pos * 2 + 1) (width n h)) as [Hr|Hr].
    + apply width_lt in Hr. destruct (IH _ Hr) as [A2 [B2 C2]].
      destruct (tb h (pos * 2 + 1)%nat) as [b2 h2]. cbn [fst snd] in A2, B2, C2 |- *.
      rewrite (pow2_S h) in B2.
      cbn [length]. rewrite !app_length. repeat split; try lia. now apply Forall_app.
    + cbn [fst snd length]. repeat split; try lia. exact A1.
Qed.

Lemma height_bound h : (1 <= n)%nat -> is_height h -> (2 ^ S h <= 4 * n)%nat.
Proof.
  intros Hn [_ H2]. destruct h as [|k]; [cbn; lia|].
  specialize (H2 k (Nat.lt_succ_diag_r k)). rewrite !pow2_S. lia.
Qed.

Lemma build_props : (1 <= n)%nat ->
  Forall (fun t => length t = 32%nat) (snd (build hash256 txids vmatch)) /\
  (length (fst (build hash256 txids vmatch)) <= 4 * n)%nat /\
  (length (snd (build hash256 txids vmatch)) <= 4 * n)%nat.
Proof.
  intros Hn. unfold build.
  assert (0 * 2 ^ tree_height txids < n)%nat as H0 by lia.
  destruct (tb_props _ _ H0) as [A [B C]].
  pose proof (height_bound _ Hn tree_height_is_height) as HB.
  rewrite pow2_S in HB. rewrite pow2_S in B. repeat split; [exact A | lia | lia].
Qed.
End BuildShape.
End Sound.
End Bip37P.
