(* Proofs/Bc32SubP.v — text level: a bc32 string with one substituted character is never
   decoded to anything but the original payload (and only when the substitution is a mere
   change of case); any length. *)
From V Require Import Base.Prelude Base.Ints Base.Lfsr Model.Helper Model.Base58 Model.Bech32
  Proofs.Base58P Proofs.PolymodP Proofs.Bech32Sweep Proofs.Bech32DetectP Proofs.ConvertbitsP
  Proofs.BcurP Proofs.Bc32P.

Lemma hamming_lower s : forall s', length s = length s' -> lower s = s ->
  (hamming s (lower s') <= hamming s s')%nat.
Proof.
  induction s as [|x r IH]; intros [|y r'] HL HS; cbn in HL; try discriminate; [cbn; lia|].
  unfold lower in *. cbn [map] in *. injection HS as Hx Hr.
  cbn [hamming]. specialize (IH r' ltac:(lia) Hr).
  destruct (x =? y) eqn:E.
  - apply Z.eqb_eq in E. subst y. rewrite Hx, Z.eqb_refl. lia.
  - destruct (x =? lower_c y); lia.
Qed.

Lemma hamming_0_eq a : forall b, length a = length b -> hamming a b = 0%nat -> a = b.
Proof.
  induction a as [|x r IH]; intros [|y r'] HL H; cbn in HL; try discriminate; [reflexivity|].
  cbn [hamming] in H. destruct (x =? y) eqn:E; [|lia]. apply Z.eqb_eq in E. subst.
  f_equal. apply IH; lia.
Qed.

(* the part of bc32decode after the case test, on the lower-cased text *)
Definition bc32_tail (s : list Z) : result (option bytes) :=
  if negb (forallb (fun c => existsb (Z.eqb c) bech32_alphabet) s) then Ok None
  else
    res <- mapr bech32_index s ;;
    if negb (bech32_polymod (0 :: res) =? BC32_CONSTANT) then Ok None
    else
      o <- convertbits (drop_last6 res) 5 8 false ;;
      match o with
      | None => Err
      | Some b => Ok (Some b)
      end.

Lemma bc32decode_tail s :
  bc32decode s = if negb (beq (lower s) s) && negb (beq (upper s) s) then Ok None
                 else bc32_tail (lower s).
Proof. reflexivity. Qed.

Theorem bc32_detects_single_text d s s' x :
  bytes_ok d -> bc32encode d = Ok s ->
  length s' = length s -> hamming s s' = 1%nat ->
  bc32decode s' = Ok (Some x) -> lower s' = s /\ x = d.
Proof.
  intros HB EE HL HH HD.
  destruct (bc32encode_shape d HB) as [dd [chk [E [FA [LC [_ [CV [PV _]]]]]]]].
  rewrite EE in E. injection E as ->.
  set (res := dd ++ chk) in *.
  pose proof (gchar_map _ FA) as G. pose proof (gchar_lower _ G) as LS.
  assert (DS : bc32_tail (map b32c res) = Ok (Some d)).
  { pose proof (bc32decode_shape dd chk d FA LC PV CV) as D0. fold res in D0.
    rewrite bc32decode_tail, LS, beq_refl in D0. exact D0. }
  rewrite bc32decode_tail in HD.
  destruct (negb (beq (lower s') s') && negb (beq (upper s') s')); [discriminate|].
  assert (HLl : length (map b32c res) = length (lower s')) by (unfold lower; rewrite (map_length lower_c); lia).
  pose proof (hamming_lower (map b32c res) s' ltac:(lia) LS) as HLE.
  destruct (Nat.eq_dec (hamming (map b32c res) (lower s')) 0) as [H0|H0].
  - (* only the case of a letter changed *)
    pose proof (hamming_0_eq _ _ HLl H0) as EQ. split; [now symmetry|].
    rewrite <- EQ, DS in HD. now injection HD as <-.
  - (* a different symbol: the checksum test fails *)
    exfalso. unfold bc32_tail in HD.
    destruct (negb (forallb _ (lower s'))); [discriminate|].
    destruct (mapr bech32_index (lower s')) as [res'|] eqn:EM; [|discriminate]. cbn [bind] in HD.
    destruct (mapr_index_inv _ _ EM) as [FR' ER']. rewrite ER' in *.
    assert (LR : length res = length res') by (rewrite !map_length in HLl; exact HLl).
    rewrite (hamming_weight res res' FA FR' LR) in *.
    assert (HW : weight (xorl res res') = 1%nat) by lia.
    assert (FE : Forall sym5 (xorl res res')).
    { pose proof (xorl_sym_ok res res' FA FR') as F. apply Forall_forall. intros e He.
      rewrite Forall_forall in F. specialize (F e He). unfold sym_ok in F. unfold sym5. lia. }
    pose proof (bc32_detects_single_symbols res (xorl res res')
                  ltac:(rewrite xorl_length; auto) FE HW PV) as NE.
    rewrite (xorl_self_inv res res' LR) in NE.
    destruct (bech32_polymod (0 :: res') =? BC32_CONSTANT) eqn:EQ; [|discriminate].
    apply Z.eqb_eq in EQ. contradiction.
Qed.
