(* Proofs/PsbtDescribeP.v — lemmas about Model/PsbtDescribe.v (C11). *)
From V Require Import Base.Prelude Base.Ints Model.Helper Model.Script Model.PsbtDescribe.
From Coq Require Import Permutation.

Lemma check_ok b : check b = Ok tt -> b = true.
Proof. destruct b; [reflexivity|discriminate]. Qed.

Lemma bind_ok {A B} (r : result A) (f : A -> result B) b :
  bind r f = Ok b -> exists a, r = Ok a /\ f a = Ok b.
Proof. destruct r as [a|]; cbn; [eauto|discriminate]. Qed.

Lemma bind_unit_ok {B} (r : result unit) (f : unit -> result B) b :
  bind r f = Ok b -> r = Ok tt /\ f tt = Ok b.
Proof. destruct r as [[]|]; cbn; [auto|discriminate]. Qed.

(* split a hypothesis [x <- e ;; f = Ok b] *)
Ltac bsplit H :=
  lazymatch type of H with
  | bind (check ?b) _ = Ok _ =>
      let H1 := fresh "Hc" in
      apply bind_unit_ok in H; destruct H as [H1 H]; apply check_ok in H1
  | bind ?r _ = Ok _ =>
      let a := fresh "a" in let H1 := fresh "Hb" in
      apply bind_ok in H; destruct H as [a [H1 H]]
  end.

Lemma cmd_eqb_eq a b : cmd_eqb a b = true <-> a = b.
Proof.
  destruct a as [x|x], b as [y|y]; cbn; split; intros H; try discriminate; try congruence.
  - apply Z.eqb_eq in H. congruence.
  - injection H as ->. apply Z.eqb_refl.
  - apply beq_eq in H. congruence.
  - injection H as ->. apply beq_refl.
Qed.

Lemma cmd_eqb_refl a : cmd_eqb a a = true.
Proof. now apply cmd_eqb_eq. Qed.

Lemma cmds_eqb_eq a b : cmds_eqb a b = true <-> a = b.
Proof.
  revert b; induction a as [|x a IH]; intros [|y b]; cbn; split; intros H; try discriminate;
    try reflexivity.
  - apply andb_true_iff in H as [H1 H2]. apply cmd_eqb_eq in H1. apply IH in H2. congruence.
  - injection H as -> ->. rewrite cmd_eqb_refl. now apply IH.
Qed.

Lemma has_key_in cs k : has_key cs k = true <-> In (Push k) cs.
Proof.
  unfold has_key. rewrite existsb_exists. split.
  - intros [c [Hin He]]. apply cmd_eqb_eq in He. now subst.
  - intros H. exists (Push k). split; [assumption|apply cmd_eqb_refl].
Qed.

(* ---------------------------------------------------------------- script patterns *)
Ltac zlit a H :=
  destruct a as [|a|a]; try (cbn in H; discriminate H);
  repeat (destruct a as [a|a|]; try (cbn in H; discriminate H)); try reflexivity.

Lemma is_p2sh_inv cs :
  is_p2sh cs = true -> exists h, cs = p2sh_script h /\ length h = 20%nat.
Proof.
  intros H.
  destruct cs as [|[a|?] cs]; [discriminate H| |discriminate H].
  assert (Ha : a = 169). { zlit a H. } subst a.
  destruct cs as [|[?|h] cs]; try discriminate H.
  destruct cs as [|[b|?] cs]; try discriminate H.
  assert (Hb : b = 135). { zlit b H. } subst b.
  destruct cs; [|discriminate H].
  exists h. split; [reflexivity|]. cbn in H. now apply Nat.eqb_eq.
Qed.

Lemma is_p2wsh_inv cs :
  is_p2wsh cs = true -> exists h, cs = p2wsh_script h /\ length h = 32%nat.
Proof.
  intros H.
  destruct cs as [|[a|?] cs]; [discriminate H| |discriminate H].
  assert (Ha : a = 0). { zlit a H. } subst a.
  destruct cs as [|[?|h] cs]; try discriminate H.
  destruct cs; [|discriminate H].
  exists h. split; [reflexivity|]. cbn in H. now apply Nat.eqb_eq.
Qed.

Lemma nth_cmd_ok cs i c : nth_cmd cs i = Ok c -> nth_error cs i = Some c.
Proof. unfold nth_cmd. destruct (nth_error cs i); congruence. Qed.

(* ---------------------------------------------------------------- the multisig shape *)
Definition std_multisig (m n : Z) (cs : list cmd) : Prop :=
  exists keys, cs = Op (80 + m) :: map Push keys ++ [Op (80 + n); Op 174] /\
               zlen keys = n /\ Forall (fun k => zlen k = 33 \/ zlen k = 65) keys /\
               1 <= m <= n /\ n <= 16.

Lemma all_key_push l :
  forallb is_key_push l = true ->
  exists keys, l = map Push keys /\ Forall (fun k => zlen k = 33 \/ zlen k = 65) keys.
Proof.
  induction l as [|c l IH]; cbn; intros H.
  - exists []. split; [reflexivity|constructor].
  - apply andb_true_iff in H as [H1 H2]. destruct (IH H2) as [ks [-> Hf]].
    destruct c as [o|b]; [discriminate|]. exists (b :: ks). split; [reflexivity|].
    constructor; [|assumption]. cbn in H1. apply orb_true_iff in H1 as [E|E]; apply Z.eqb_eq in E; auto.
Qed.

Lemma removelast_app1 {A} (l : list A) a : removelast (l ++ [a]) = l.
Proof. apply removelast_last. Qed.

(* a list with known head, last and last-but-one and at least three elements *)
Lemma ends_decompose cs c0 c2 l :
  head_cmd cs = Ok c0 -> last2_cmd cs = Ok c2 -> last_cmd cs = Ok l -> (3 <= length cs)%nat ->
  cs = c0 :: middle cs ++ [c2; l].
Proof.
  unfold head_cmd, last2_cmd, last_cmd, middle. intros H0 H2 Hl Hlen.
  destruct (rev cs) as [|x [|y r]] eqn:E; try discriminate.
  injection H2 as ->. injection Hl as ->.
  assert (Ecs : cs = rev r ++ [c2; l]).
  { rewrite <- (rev_involutive cs), E. cbn. now rewrite <- app_assoc. }
  rewrite Ecs in *. clear E Ecs.
  replace (rev r ++ [c2; l]) with ((rev r ++ [c2]) ++ [l]) by now rewrite <- app_assoc.
  rewrite removelast_app1, removelast_app1.
  remember (rev r) as q eqn:Er. clear Er. destruct q as [|z t].
  - cbn in Hlen. lia.
  - cbn in H0. injection H0 as ->. cbn. now rewrite <- app_assoc.
Qed.

Lemma zlen_app {A} (a b : list A) : zlen (a ++ b) = zlen a + zlen b.
Proof. unfold zlen. rewrite app_length. lia. Qed.
Lemma zlen_cons {A} (a : A) l : zlen (a :: l) = 1 + zlen l.
Proof. unfold zlen. cbn [length]. lia. Qed.
Lemma zlen_map {A B} (f : A -> B) l : zlen (map f l) = zlen l.
Proof. unfold zlen. now rewrite map_length. Qed.
Lemma zlen_nonneg {A} (l : list A) : 0 <= zlen l.
Proof. unfold zlen. lia. Qed.

Lemma number_to_op_code_ok n on : 1 <= n -> number_to_op_code n = Ok on -> on = 80 + n /\ n <= 16.
Proof.
  unfold number_to_op_code. intros Hn.
  destruct (n <? -1) eqn:E1; cbn [orb]; [discriminate|].
  destruct (16 <? n) eqn:E2; [discriminate|].
  apply Z.ltb_ge in E2.
  destruct (n =? 0) eqn:E3; [apply Z.eqb_eq in E3; lia|]. intros [= <-]. lia.
Qed.

Lemma op_code_to_number_pos c m : 1 <= m -> op_code_to_number c = Ok m -> c = Op (80 + m).
Proof.
  destruct c as [o|b]; [|discriminate]. unfold op_code_to_number. intros Hm.
  destruct (o =? 0) eqn:E0; [intros [= <-]; lia|].
  destruct ((79 <=? o) && (o <=? 96)); [|discriminate]. intros [= <-]. f_equal. lia.
Qed.

Lemma op_name_number_pos o m : 1 <= m -> op_name_number o = Ok m -> o = 80 + m /\ m <= 16.
Proof.
  unfold op_name_number. intros Hm.
  destruct (o =? 0) eqn:E0; [intros [= <-]; lia|].
  destruct ((81 <=? o) && (o <=? 96)) eqn:E; [|discriminate]. intros [= <-].
  apply andb_true_iff in E as [E1 E2]. apply Z.leb_le in E1, E2. lia.
Qed.

Lemma redeem_quorum_std cs m n : redeem_quorum cs = Ok (m, n) -> std_multisig m n cs.
Proof.
  unfold redeem_quorum. intros H.
  bsplit H. bsplit H. bsplit H. bsplit H. bsplit H. bsplit H. bsplit H. bsplit H. bsplit H.
  injection H as <- <-.
  apply cmd_eqb_eq in Hc. subst a.
  apply andb_true_iff in Hc0 as [Hm1 Hm2]. apply Z.leb_le in Hm1, Hm2.
  assert (Hn : 1 <= zlen cs - 3) by lia.
  destruct (number_to_op_code_ok _ _ Hn Hb3) as [-> Hn16].
  apply cmd_eqb_eq in Hc1. subst a2.
  apply (op_code_to_number_pos _ _ Hm1) in Hb1. subst a0.
  assert (Hlen : (3 <= length cs)%nat) by (unfold zlen in Hn; lia).
  pose proof (ends_decompose cs _ _ _ Hb0 Hb2 Hb Hlen) as Ecs.
  destruct (all_key_push _ Hc2) as [keys [Ek Hf]].
  rewrite Ek in Ecs.
  assert (Hz : zlen cs = 1 + (zlen keys + 2)).
  { rewrite Ecs at 1. rewrite zlen_cons, zlen_app, zlen_map. reflexivity. }
  exists keys. repeat split; try assumption; try lia.
Qed.

Lemma witness_quorum_std cs m n : witness_quorum cs = Ok (m, n) -> std_multisig m n cs.
Proof.
  unfold witness_quorum. intros H.
  bsplit H. bsplit H. bsplit H. bsplit H.
  destruct a0 as [x|?]; [|discriminate]. destruct a1 as [y|?]; [|discriminate].
  bsplit H. bsplit H. bsplit H. bsplit H. bsplit H. injection H as <- <-.
  apply cmd_eqb_eq in Hc. subst a.
  apply andb_true_iff in Hc0 as [Hm1 Hm2]. apply Z.leb_le in Hm1, Hm2.
  apply Z.eqb_eq in Hc1.
  destruct (op_name_number_pos _ _ Hm1 Hb2) as [-> Hm16].
  assert (Hn1 : 1 <= a1) by lia.
  destruct (op_name_number_pos _ _ Hn1 Hb3) as [-> Hn16].
  assert (Hlen : (3 <= length cs)%nat).
  { unfold middle in Hc1.
    destruct cs as [|c1 [|c2 [|c3 r]]]; cbn in Hc1; unfold zlen in Hc1; cbn in Hc1; try lia.
    cbn. lia. }
  pose proof (ends_decompose cs _ _ _ Hb0 Hb1 Hb Hlen) as Ecs.
  destruct (all_key_push _ Hc2) as [keys [Ek Hf]].
  exists keys. rewrite Ek in Ecs, Hc1. rewrite zlen_map in Hc1. repeat split; try assumption; lia.
Qed.

Lemma sumz_app a b : sumz (a ++ b) = sumz a + sumz b.
Proof. unfold sumz. induction a as [|x a IH]; cbn [app fold_right]; [lia|]. rewrite IH. lia. Qed.

Section DescribeP.
  Variable hash160 sha256 : bytes -> bytes.
  Variable xpub : Type.
  Variable derive : xpub -> list Z -> option bytes.

  Notation validate_in := (validate_in hash160 sha256).
  Notation validate_out := (validate_out hash160 sha256).
  Notation check_pub := (check_pub xpub derive).
  Notation check_out_pubs := (check_out_pubs xpub derive).
  Notation change_checks := (change_checks xpub derive).
  Notation input_checks := (input_checks hash160 sha256 xpub derive).
  Notation describe_inputs := (describe_inputs hash160 sha256 xpub derive).
  Notation describe_outputs := (describe_outputs hash160 sha256 xpub derive).
  Notation describe := (describe hash160 sha256 xpub derive).
  Notation hdmap := (hdmap xpub).

  Definition is_change (o : pout) : bool := negb (is_nil (o_pubs o)).
  Definition chg (a : out_acc) : Z := match b_change a with Some (c, _) => c | None => 0 end.

  (* what the loop over the outputs establishes for every output it lets through *)
  Definition out_ok (hm : hdmap) (qm qn : Z) (o : pout) : Prop :=
    validate_out o = Ok tt /\ addressable (o_spk o) = true /\
    (is_change o = true -> change_checks hm qm qn o = Ok tt).

  Lemma describe_outputs_inv hm qm qn : forall outs acc acc',
    describe_outputs hm qm qn acc outs = Ok acc' ->
    Forall (out_ok hm qm qn) outs /\
    b_total acc' = b_total acc + sumz (map o_amount outs) /\
    b_descs acc' = b_descs acc ++ map (fun o => (o_amount o, is_change o)) outs /\
    b_spend acc' = b_spend acc + sumz (map o_amount (filter (fun o => negb (is_change o)) outs)) /\
    chg acc' = chg acc + sumz (map o_amount (filter is_change outs)) /\
    (length (filter is_change outs) <= (if b_change acc then 0 else 1))%nat /\
    b_spends acc' = b_spends acc + zlen (filter (fun o => negb (is_change o)) outs).
  Proof.
    induction outs as [|o r IH]; intros acc acc' H.
    - cbn in H. injection H as <-. cbn. rewrite app_nil_r.
      repeat split; try lia; try constructor; try (destruct (b_change acc); cbn; lia).
    - cbn [describe_outputs PsbtDescribe.describe_outputs] in H.
      bsplit H. destruct a. bsplit H.
      assert (Eic : is_change o = negb (is_nil (o_pubs o))) by reflexivity.
      cbn [filter map]. rewrite !Eic.
      destruct (is_nil (o_pubs o)) eqn:En; cbn [negb].
      + apply IH in H. cbn [b_total b_spend b_spends b_descs b_change] in H.
        destruct H as (HF & Ht & Hd & Hs & Hc' & Hl & Hn).
        repeat split.
        * constructor; [|assumption]. repeat split; try assumption.
          unfold is_change. rewrite En. discriminate.
        * rewrite Ht. cbn [map sumz fold_right]. unfold sumz. lia.
        * rewrite Hd. rewrite <- app_assoc. reflexivity.
        * rewrite Hs. cbn [map sumz fold_right]. unfold sumz. lia.
        * rewrite Hc'. unfold chg. cbn [b_change]. reflexivity.
        * exact Hl.
        * rewrite Hn. rewrite zlen_cons. lia.
      + bsplit H. destruct a.
        destruct (b_change acc) as [x|] eqn:Ec; [discriminate|].
        apply IH in H. cbn [b_total b_spend b_spends b_descs b_change] in H.
        destruct H as (HF & Ht & Hd & Hs & Hc' & Hl & Hn).
        assert (Hnil : filter is_change r = []).
        { destruct (filter is_change r); [reflexivity|cbn in Hl; lia]. }
        repeat split.
        * constructor; [|assumption]. repeat split; try assumption. intros _. assumption.
        * rewrite Ht. cbn [map sumz fold_right]. unfold sumz. lia.
        * rewrite Hd. rewrite <- app_assoc. reflexivity.
        * rewrite Hs. reflexivity.
        * rewrite Hc'. unfold chg at 1 2. cbn [b_change]. rewrite Ec, Hnil. cbn. lia.
        * rewrite Hnil. cbn. lia.
        * rewrite Hn. reflexivity.
  Qed.

  Lemma filter_split_sum (f : pout -> bool) l :
    sumz (map o_amount l) =
    sumz (map o_amount (filter (fun o => negb (f o)) l)) + sumz (map o_amount (filter f l)).
  Proof.
    induction l as [|o l IH]; [reflexivity|]. cbn [filter map].
    destruct (f o); cbn [negb map sumz fold_right] in *; unfold sumz in *; lia.
  Qed.

  (* ------------------------------------------------------------ inputs *)
  Definition in_ok (hm : hdmap) (M N : Z) (i : pin) : Prop :=
    validate_in i = Ok tt /\
    (i_witness i = None \/ i_redeem i = None) /\
    (exists s, pick_script (i_witness i) (i_redeem i) = Ok s /\ quorum_of s = Ok (M, N) /\
               exists ser, ser_cmds (snd s) = Ok ser) /\
    zlen hm = zlen (i_pubs i) /\
    forall_res (check_pub hm) (i_pubs i) = Ok tt /\
    (exists v, i_value i = Some v) /\
    is_some (i_prev_tx i) || is_some (i_prev_out i) = true.

  Lemma input_checks_ok hm qm qn i m n v :
    input_checks hm qm qn i = Ok (m, n, v) ->
    in_ok hm m n i /\ i_value i = Some v /\
    match qm with Some m0 => m0 = m | None => True end /\
    match qn with Some n0 => n0 = n | None => n = zlen hm end.
  Proof.
    unfold input_checks, PsbtDescribe.input_checks. intros H.
    bsplit H. destruct a. bsplit H. bsplit H. bsplit H. bsplit H. bsplit H. destruct a1 as [m' n'].
    bsplit H. bsplit H. bsplit H. bsplit H. bsplit H.
    injection H as <- <- <-.
    destruct (i_value i) as [v'|] eqn:Ev; [|discriminate]. injection Hb7 as <-.
    apply Z.eqb_eq in Hc0.
    repeat split.
    - assumption.
    - destruct (i_witness i), (i_redeem i); try discriminate; auto.
    - exists a0. repeat split; try assumption. exists a3. assumption.
    - assumption.
    - destruct a4. assumption.
    - exists v'. exact Ev.
    - exact Hc.
    - destruct a1. destruct qm as [m0|]; [|exact I]. apply check_ok in Hb3. now apply Z.eqb_eq in Hb3.
    - destruct a2. destruct qn as [n0|]; apply check_ok in Hb4; now apply Z.eqb_eq in Hb4.
  Qed.

  Lemma describe_inputs_some hm : forall ins acc acc' M N,
    a_m acc = Some M -> a_n acc = Some N ->
    describe_inputs hm acc ins = Ok acc' ->
    a_m acc' = Some M /\ a_n acc' = Some N /\ Forall (in_ok hm M N) ins /\
    exists vs, input_values ins = Ok vs /\ a_total acc' = a_total acc + sumz vs /\
               a_descs acc' = a_descs acc ++ map (fun v => (M, N, v)) vs.
  Proof.
    induction ins as [|i r IH]; intros acc acc' M N HM HN H.
    - cbn in H. injection H as <-. repeat split; try assumption; [constructor|].
      exists []. cbn. rewrite app_nil_r. repeat split; lia.
    - cbn [describe_inputs PsbtDescribe.describe_inputs] in H.
      bsplit H. destruct a as [[m n] v].
      apply input_checks_ok in Hb. destruct Hb as (Hok & Hv & Hqm & Hqn).
      rewrite HM in Hqm. rewrite HN in Hqn. subst m n.
      eapply IH in H; [|cbn [a_m]; rewrite HM; reflexivity|cbn [a_n]; rewrite HN; reflexivity].
      cbn [a_total a_descs] in H.
      destruct H as (H1 & H2 & HF & vs & Hvs & Ht & Hd).
      repeat split; try assumption; [constructor; assumption|].
      exists (v :: vs). cbn [input_values]. rewrite Hv, Hvs. cbn [bind].
      repeat split.
      + rewrite Ht. cbn [sumz fold_right]. unfold sumz. lia.
      + rewrite Hd. rewrite <- app_assoc. reflexivity.
  Qed.

  Lemma describe_inputs_first hm ins acc' :
    describe_inputs hm (acc0) ins = Ok acc' -> a_signing acc' = true ->
    exists M N, a_m acc' = Some M /\ a_n acc' = Some N /\ N = zlen hm /\ ins <> [] /\
                Forall (in_ok hm M N) ins /\
                exists vs, input_values ins = Ok vs /\ a_total acc' = sumz vs /\
                           a_descs acc' = map (fun v => (M, N, v)) vs.
  Proof.
    destruct ins as [|i r]; intros H Hs.
    - cbn in H. injection H as <-. discriminate Hs.
    - cbn [describe_inputs PsbtDescribe.describe_inputs] in H.
      bsplit H. destruct a as [[m n] v].
      apply input_checks_ok in Hb. destruct Hb as (Hok & Hv & _ & Hqn).
      cbn [acc0 a_n] in Hqn.
      eapply describe_inputs_some in H; [|reflexivity|reflexivity].
      cbn [a_total a_descs acc0] in H.
      destruct H as (H1 & H2 & HF & vs & Hvs & Ht & Hd).
      exists m, n. repeat split; try assumption; [discriminate|constructor; assumption|].
      exists (v :: vs). cbn [input_values]. rewrite Hv, Hvs. cbn [bind].
      repeat split.
      + rewrite Ht. cbn [sumz fold_right]. unfold sumz. lia.
      + rewrite Hd. reflexivity.
  Qed.

  (* ------------------------------------------------------------ the summary, inverted *)
  Lemma describe_inv hm0 p s : describe hm0 p = Ok s ->
    exists hm vs,
      (hm = hm0 \/ (hm0 = [] /\ hm = map_of_hd_pubs xpub (p_hd_pubs p))) /\
      input_values (p_ins p) = Ok vs /\
      s_fee s = sumz vs - sumz (map o_amount (p_outs p)) /\
      s_total_in s = sumz vs /\ s_total_in s <> 0 /\
      s_total_out s = sumz (map o_amount (p_outs p)) /\
      s_outs s = map (fun o => (o_amount o, is_change o)) (p_outs p) /\
      s_ins s = map (fun v => (s_m s, s_n s, v)) vs /\
      s_spend s = sumz (map o_amount (filter (fun o => negb (is_change o)) (p_outs p))) /\
      s_change s = sumz (map o_amount (filter is_change (p_outs p))) /\
      (length (filter is_change (p_outs p)) <= 1)%nat /\
      s_batch s = (1 <? zlen (filter (fun o => negb (is_change o)) (p_outs p))) /\
      s_n s = zlen hm /\ p_ins p <> [] /\
      Forall (in_ok hm (s_m s) (s_n s)) (p_ins p) /\
      Forall (out_ok hm (s_m s) (s_n s)) (p_outs p).
  Proof.
    unfold describe, PsbtDescribe.describe. intros H.
    bsplit H. bsplit H. bsplit H. bsplit H. bsplit H.
    apply describe_inputs_first in Hb2; [|assumption].
    destruct Hb2 as (M & N & HM & HN & HNlen & Hne & HFi & vs & Hvs & Htot & Hdescs).
    rewrite HM, HN in H.
    bsplit H. bsplit H. injection H as <-. cbn.
    apply describe_outputs_inv in Hb2. cbn [out0 b_total b_descs b_spend b_spends b_change] in Hb2.
    destruct Hb2 as (HFo & Ht & Hd & Hsp & Hch & Hl & Hn).
    unfold tx_fee, PsbtDescribe.tx_fee in Hb0. rewrite Hvs in Hb0. cbn [bind] in Hb0. injection Hb0 as <-.
    exists a1, vs. repeat split; try assumption; try lia.
    destruct hm0 as [|e hm0]; [|left; now injection Hb1].
    right. split; [reflexivity|]. destruct (p_hd_pubs p); [discriminate|now injection Hb1].
  Qed.

  (* ------------------------------------------------------------ what "labelled change" means *)
  (* the scriptPubKey commits by hash to the attached script: P2SH, P2WSH or P2SH-P2WSH *)
  Definition commits (o : pout) (sc : list cmd) : Prop :=
    exists ser, ser_cmds sc = Ok ser /\
    ((o_witness o = None /\ o_redeem o = Some sc /\ o_spk o = p2sh_script (hash160 ser)) \/
     (o_witness o = Some sc /\ o_redeem o = None /\ o_spk o = p2wsh_script (sha256 ser)) \/
     (o_witness o = Some sc /\
      exists rser, o_redeem o = Some (p2wsh_script (sha256 ser)) /\
                   ser_cmds (p2wsh_script (sha256 ser)) = Ok rser /\
                   o_spk o = p2sh_script (hash160 rser))).

  Lemma script_h160_ok cs h : script_h160 hash160 cs = Ok h -> exists ser, ser_cmds cs = Ok ser /\ h = hash160 ser.
  Proof. unfold script_h160. intros H. bsplit H. injection H as <-. eauto. Qed.
  Lemma script_s256_ok cs h : script_s256 sha256 cs = Ok h -> exists ser, ser_cmds cs = Ok ser /\ h = sha256 ser.
  Proof. unfold script_s256. intros H. bsplit H. injection H as <-. eauto. Qed.

  Lemma keys_in_ok cs pubs :
    keys_in cs pubs = Ok tt -> forall np, In np pubs -> In (Push (np_key np)) cs.
  Proof.
    unfold keys_in. intros H np Hin. apply check_ok in H.
    rewrite forallb_forall in H. apply has_key_in. now apply H.
  Qed.

  Lemma is_p2wpkh_head cs : is_p2wpkh cs = true -> exists r, cs = Op 0 :: r.
  Proof.
    intros H. destruct cs as [|[a|?] cs]; [discriminate H| |discriminate H].
    assert (Ha : a = 0). { zlit a H. } subst a. eauto.
  Qed.

  Lemma validate_out_commit o s :
    validate_out o = Ok tt -> pick_script (o_witness o) (o_redeem o) = Ok s ->
    is_p2wpkh (snd s) = false ->
    commits o (snd s) /\ forall np, In np (o_pubs o) -> In (Push (np_key np)) (snd s).
  Proof.
    unfold validate_out, PsbtDescribe.validate_out, commits. intros H Hp Hw.
    destruct (is_p2pkh (o_spk o)).
    { destruct (o_redeem o), (o_witness o); try discriminate. }
    destruct (is_p2wpkh (o_spk o)).
    { destruct (o_redeem o), (o_witness o); try discriminate. }
    destruct (o_witness o) as [ws|] eqn:Ew.
    - cbn in Hp. injection Hp as <-. cbn [snd] in *.
      bsplit H. bsplit H. bsplit H. apply cmd_eqb_eq in Hc.
      apply script_s256_ok in Hb0. destruct Hb0 as (ser & Hser & ->). subst a.
      split; [|now apply keys_in_ok].
      exists ser. split; [assumption|].
      destruct (o_redeem o) as [rs|] eqn:Er.
      + right. right. split; [reflexivity|].
        bsplit Hb. apply andb_true_iff in Hc as [Hc1 Hc2].
        apply is_p2sh_inv in Hc1. destruct Hc1 as (x & Hx & _).
        apply is_p2wsh_inv in Hc2. destruct Hc2 as (y & Hy & _).
        bsplit Hb. bsplit Hb. bsplit Hb. apply cmd_eqb_eq in Hc.
        apply script_h160_ok in Hb1. destruct Hb1 as (rser & Hrser & ->).
        rewrite Hx in Hb0. cbn in Hb0. injection Hb0 as <-. injection Hc as <-.
        rewrite Hy in Hb. cbn in Hb. injection Hb as [= ->].
        subst rs. exists rser. repeat split; assumption.
      + right. left. repeat split.
        bsplit Hb. apply is_p2wsh_inv in Hc. destruct Hc as (y & Hy & _).
        rewrite Hy in Hb. cbn in Hb. injection Hb as [= ->]. assumption.
    - destruct (o_redeem o) as [rs|] eqn:Er; [|discriminate].
      cbn in Hp. injection Hp as <-. cbn [snd] in *.
      bsplit H. bsplit H. bsplit H. bsplit H. apply cmd_eqb_eq in Hc0. rewrite Hw in H.
      apply is_p2sh_inv in Hc. destruct Hc as (x & Hx & _).
      apply script_h160_ok in Hb. destruct Hb as (ser & Hser & ->).
      rewrite Hx in Hb0. cbn in Hb0. injection Hb0 as <-. injection Hc0 as <-.
      split; [|now apply keys_in_ok].
      exists ser. split; [assumption|]. left. repeat split. assumption.
  Qed.

  Lemma lookup_xfp_in (hm : hdmap) x v : lookup_xfp xpub hm x = Some v -> In (x, v) hm.
  Proof.
    unfold lookup_xfp. destruct (find _ hm) as [e|] eqn:E; [|discriminate].
    intros [= <-]. apply find_some in E. destruct E as [Hin He]. apply beq_eq in He.
    destruct e as [k w]. cbn in *. now subst.
  Qed.

  (* a named key checked against the xpub map *)
  Definition derives_from (hm : hdmap) (np : named_pub) : Prop :=
    exists xp depth t,
      lookup_xfp xpub hm (np_xfp np) = Some (xp, depth) /\ In (np_xfp np, (xp, depth)) hm /\
      ltrim (np_path np) depth = Ok t /\ t <> [] /\ derive xp t = Some (np_sec np).

  Lemma check_pub_ok hm np : check_pub hm np = Ok tt -> derives_from hm np.
  Proof.
    unfold check_pub, PsbtDescribe.check_pub, derives_from. intros H.
    destruct (lookup_xfp xpub hm (np_xfp np)) as [[xp depth]|] eqn:El; [|discriminate].
    bsplit H. exists xp, depth, a.
    destruct (derive_t xpub derive xp a) as [s|] eqn:Ed; [|discriminate].
    apply check_ok in H. apply beq_eq in H. subst s.
    repeat split; try assumption.
    - now apply lookup_xfp_in.
    - intros ->. discriminate Ed.
    - destruct a; [discriminate Ed|exact Ed].
  Qed.

  Lemma forall_res_ok {A} (f : A -> result unit) l :
    forall_res f l = Ok tt -> forall a, In a l -> f a = Ok tt.
  Proof.
    induction l as [|x l IH]; cbn; intros H a Hin; [contradiction|].
    bsplit H. destruct a0. destruct Hin as [<-|Hin]; auto.
  Qed.

  Lemma existsb_beq_in x l : existsb (beq x) l = true <-> In x l.
  Proof.
    rewrite existsb_exists. split.
    - intros [y [Hin He]]. apply beq_eq in He. now subst.
    - intros H. exists x. split; [assumption|apply beq_refl].
  Qed.

  Lemma check_out_pubs_ok hm : forall pubs seen,
    check_out_pubs hm seen pubs = Ok tt ->
    NoDup (map np_xfp pubs) /\ (forall np, In np pubs -> ~ In (np_xfp np) seen) /\
    forall np, In np pubs -> derives_from hm np.
  Proof.
    induction pubs as [|np r IH]; intros seen H.
    - repeat split; [constructor|contradiction|contradiction].
    - cbn [check_out_pubs PsbtDescribe.check_out_pubs] in H.
      bsplit H. bsplit H. destruct a.
      apply negb_true_iff in Hc.
      assert (Hns : ~ In (np_xfp np) seen).
      { intros Hin. apply existsb_beq_in in Hin. congruence. }
      apply IH in H. destruct H as (Hnd & Hseen & Hder).
      repeat split.
      + cbn. constructor; [|assumption]. intros Hin. apply in_map_iff in Hin.
        destruct Hin as (q & Hq & Hin). apply (Hseen q Hin). left. now rewrite Hq.
      + intros q [<-|Hin]; [assumption|]. intros Hs. apply (Hseen q Hin). now right.
      + intros q [<-|Hin]; [now apply check_pub_ok|now apply Hder].
  Qed.

  Lemma std_not_witness_program m n cs :
    std_multisig m n cs -> is_p2wpkh cs = false /\ is_p2wsh cs = false.
  Proof.
    intros (keys & -> & _ & _ & Hm & _). split.
    - destruct (is_p2wpkh _) eqn:E; [|reflexivity]. apply is_p2wpkh_head in E.
      destruct E as [r E]. assert (E0 : 80 + m = 0) by congruence. exfalso. lia.
    - destruct (is_p2wsh _) eqn:E; [|reflexivity]. apply is_p2wsh_inv in E.
      destruct E as (h & E & _). assert (E0 : 80 + m = 0) by (unfold p2wsh_script in E; congruence). exfalso. lia.
  Qed.

  Lemma quorum_of_std s0 m n : quorum_of s0 = Ok (m, n) -> std_multisig m n (snd s0).
  Proof.
    unfold quorum_of. destruct (fst s0); [apply witness_quorum_std|apply redeem_quorum_std].
  Qed.

  (* the spent scriptPubKey commits by hash to the script the summary evaluates *)
  Definition in_commits (i : pin) (spk sc : list cmd) : Prop :=
    exists ser, ser_cmds sc = Ok ser /\
    ((i_witness i = None /\ i_redeem i = Some sc /\ i_prev_out i = None /\
      spk = p2sh_script (hash160 ser)) \/
     (i_witness i = Some sc /\ i_redeem i = None /\ spk = p2wsh_script (sha256 ser))).

  Lemma validate_in_facts i :
    validate_in i = Ok tt ->
    (forall pt, i_prev_tx i = Some pt ->
       i_txid i = pt_hash pt /\
       exists u, nthz (pt_outs pt) (i_index i) = Some u /\
                 forall po, i_prev_out i = Some po -> u_amount po = u_amount u /\ u_spk po = u_spk u).
  Proof.
    unfold validate_in, PsbtDescribe.validate_in. intros H pt Hpt.
    bsplit H. bsplit H. clear H. rewrite Hpt in Hb0.
    bsplit Hb0. bsplit Hb0. apply beq_eq in Hc. split; [assumption|].
    unfold in_spk in Hb. rewrite Hpt in Hb.
    destruct (nthz (pt_outs pt) (i_index i)) as [u|] eqn:En; [|discriminate].
    exists u. split; [reflexivity|]. intros po Hpo. rewrite Hpo in Hb0.
    destruct a0. apply check_ok in Hb0. apply andb_true_iff in Hb0 as [H1 H2].
    apply Z.eqb_eq in H1. apply cmds_eqb_eq in H2. auto.
  Qed.

  Lemma validate_in_commit i s0 m n spk :
    validate_in i = Ok tt ->
    (i_witness i = None \/ i_redeem i = None) ->
    pick_script (i_witness i) (i_redeem i) = Ok s0 -> std_multisig m n (snd s0) ->
    in_spk i = Ok (Some spk) ->
    in_commits i spk (snd s0) /\ forall np, In np (i_pubs i) -> In (Push (np_key np)) (snd s0).
  Proof.
    unfold validate_in, PsbtDescribe.validate_in, in_commits. intros H Hex Hp Hstd Hspk.
    destruct (std_not_witness_program _ _ _ Hstd) as [Hnw1 Hnw2].
    rewrite Hspk in H. cbn [bind] in H. bsplit H. clear Hb.
    destruct (i_witness i) as [ws|] eqn:Ew.
    - destruct Hex as [Hex|Hex]; [discriminate|]. rewrite Hex in *.
      cbn in Hp. injection Hp as <-. cbn [snd] in *.
      cbn [is_some opt_is andb orb] in H. rewrite orb_true_r in H.
      bsplit H. bsplit H. clear Hb. bsplit H. rewrite orb_false_r in Hc0.
      bsplit H. bsplit H. bsplit H. apply cmd_eqb_eq in Hc1.
      apply is_p2wsh_inv in Hc0. destruct Hc0 as (y & -> & _).
      cbn in Hb. injection Hb as <-.
      apply script_s256_ok in Hb0. destruct Hb0 as (ser & Hser & ->). injection Hc1 as <-.
      split; [|now apply keys_in_ok].
      exists ser. split; [assumption|]. right. repeat split.
    - destruct (i_redeem i) as [rs|] eqn:Er; [|discriminate].
      cbn in Hp. injection Hp as <-. cbn [snd] in *.
      cbn [is_some opt_is andb orb] in H. rewrite Hnw1, Hnw2 in H. cbn [orb andb] in H.
      rewrite orb_false_r in H.
      destruct (i_prev_out i) as [po|] eqn:Epo; cbn [is_some] in H.
      + bsplit H. bsplit H. bsplit Hb. bsplit Hb. discriminate.
      + bsplit H. bsplit H. bsplit H. bsplit H. bsplit H. apply cmd_eqb_eq in Hc1.
        apply is_p2sh_inv in Hc. destruct Hc as (x & -> & _).
        cbn in Hb. injection Hb as <-.
        apply script_h160_ok in Hb0. destruct Hb0 as (ser & Hser & ->). injection Hc1 as <-.
        split; [|now apply keys_in_ok].
        exists ser. split; [assumption|]. left. repeat split.
  Qed.

  Lemma in_spk_none i : in_spk i = Ok None -> i_prev_tx i = None /\ i_prev_out i = None.
  Proof.
    unfold in_spk. destruct (i_prev_tx i) as [pt|].
    - destruct (nthz _ _); discriminate.
    - destruct (i_prev_out i); [discriminate|auto].
  Qed.

  Lemma input_values_map ins vs : input_values ins = Ok vs -> map i_value ins = map Some vs.
  Proof.
    revert vs; induction ins as [|i r IH]; cbn; intros vs H; [now injection H as <-|].
    destruct (i_value i) as [v|]; [|discriminate]. bsplit H. injection H as <-. cbn.
    f_equal. now apply IH.
  Qed.

  (* ------------------------------------------------------------ (1) arithmetic *)
  Lemma summary_arithmetic hm0 p s : describe hm0 p = Ok s ->
    exists vs, map i_value (p_ins p) = map Some vs /\
      s_total_in s = sumz vs /\
      s_total_out s = sumz (map o_amount (p_outs p)) /\
      s_fee s = s_total_in s - s_total_out s /\
      s_spend s + s_change s + s_fee s = s_total_in s /\
      s_outs s = map (fun o => (o_amount o, is_change o)) (p_outs p) /\
      s_spend s = sumz (map o_amount (filter (fun o => negb (is_change o)) (p_outs p))) /\
      s_change s = sumz (map o_amount (filter is_change (p_outs p))) /\
      (length (filter is_change (p_outs p)) <= 1)%nat.
  Proof.
    intros H. apply describe_inv in H.
    destruct H as (hm & vs & _ & Hvs & Hfee & Hin & _ & Hout & Houts & _ & Hsp & Hch & Hl & _).
    exists vs. pose proof (filter_split_sum is_change (p_outs p)) as Hsplit.
    repeat split; try assumption; try lia. now apply input_values_map.
  Qed.

  (* ------------------------------------------------------------ (2) change label *)
  Definition effective_map (hm0 : hdmap) (p : psbt xpub) (hm : hdmap) : Prop :=
    hm = hm0 \/ (hm0 = [] /\ hm = map_of_hd_pubs xpub (p_hd_pubs p)).

  Lemma change_label_sound hm0 p s o :
    describe hm0 p = Ok s -> In o (p_outs p) -> is_change o = true ->
    exists hm sc keys,
      effective_map hm0 p hm /\
      (* (a) the scriptPubKey commits by hash to the attached script *)
      commits o sc /\
      (* (b) which is exactly OP_m <n keys> OP_n OP_CHECKMULTISIG with the inputs' m and n *)
      sc = Op (80 + s_m s) :: map Push keys ++ [Op (80 + s_n s); Op 174] /\
      zlen keys = s_n s /\ Forall (fun k => zlen k = 33 \/ zlen k = 65) keys /\
      1 <= s_m s <= s_n s /\ s_n s <= 16 /\ s_n s = zlen hm /\
      (forall i, In i (p_ins p) -> exists isc,
          (i_witness i = Some isc \/ i_redeem i = Some isc) /\ std_multisig (s_m s) (s_n s) isc) /\
      (* (c) n named keys, n distinct fingerprints of the map, each key derived from its xpub at
         the trimmed path and present in the script *)
      zlen (o_pubs o) = s_n s /\ NoDup (map np_xfp (o_pubs o)) /\
      (forall np, In np (o_pubs o) -> In (np_key np) keys /\ derives_from hm np) /\
      (* with the dict invariants of named_pubs the script's key list IS the named keys *)
      (NoDup (map np_key (o_pubs o)) -> (forall np, In np (o_pubs o) -> np_key np = np_sec np) ->
       Permutation (map np_sec (o_pubs o)) keys).
  Proof.
    intros H Hin Hchg. apply describe_inv in H.
    destruct H as (hm & vs & Heff & _ & _ & _ & _ & _ & _ & _ & _ & _ & _ & _ & Hn & _ & HFi & HFo).
    rewrite Forall_forall in HFo. destruct (HFo o Hin) as (Hval & _ & Hcc). specialize (Hcc Hchg).
    unfold change_checks, PsbtDescribe.change_checks in Hcc.
    bsplit Hcc. bsplit Hcc. destruct a0 as [m n]. bsplit Hcc. bsplit Hcc. bsplit Hcc.
    apply Z.eqb_eq in Hc, Hc0, Hc1. subst m n.
    pose proof (quorum_of_std _ _ _ Hb0) as Hstd.
    destruct (std_not_witness_program _ _ _ Hstd) as [Hnw _].
    destruct (validate_out_commit _ _ Hval Hb Hnw) as [Hcom Hkeys].
    apply check_out_pubs_ok in Hcc. destruct Hcc as (Hnd & _ & Hder).
    destruct Hstd as (keys & Esc & Hlen & HFk & Hm & Hn16).
    assert (Hk : forall np, In np (o_pubs o) -> In (np_key np) keys).
    { intros np Hnp. specialize (Hkeys np Hnp). rewrite Esc in Hkeys.
      destruct Hkeys as [Hk|Hk]; [discriminate|].
      apply in_app_or in Hk. destruct Hk as [Hk|Hk].
      - apply in_map_iff in Hk. destruct Hk as (k & [= ->] & Hk). exact Hk.
      - destruct Hk as [Hk|[Hk|[]]]; discriminate. }
    exists hm, (snd a), keys. repeat split; try assumption; try lia.
    - intros i Hi. rewrite Forall_forall in HFi. destruct (HFi i Hi) as (_ & _ & (s0 & Hp & Hq & _) & _).
      exists (snd s0). split; [|now apply quorum_of_std].
      unfold pick_script in Hp. destruct (i_witness i) as [w|]; [injection Hp as <-; now left|].
      destruct (i_redeem i) as [r|]; [injection Hp as <-; now right|discriminate].
    - now apply Hk.
    - now apply Hder.
    - intros Hndk Hks.
      assert (Emap : map np_sec (o_pubs o) = map np_key (o_pubs o)).
      { apply map_ext_in. intros np Hnp. symmetry. now apply Hks. }
      rewrite Emap. apply NoDup_Permutation_bis; [assumption| |].
      + rewrite map_length. unfold zlen in *. lia.
      + intros k Hkin. apply in_map_iff in Hkin. destruct Hkin as (np & <- & Hnp). now apply Hk.
  Qed.

  (* ------------------------------------------------------------ (3) what acceptance implies for inputs *)
  Lemma accepted_input_sound hm0 p s i :
    describe hm0 p = Ok s -> In i (p_ins p) ->
    exists hm sc,
      effective_map hm0 p hm /\
      (i_witness i = None \/ i_redeem i = None) /\
      (i_witness i = Some sc \/ (i_witness i = None /\ i_redeem i = Some sc)) /\
      std_multisig (s_m s) (s_n s) sc /\ s_n s = zlen hm /\
      (* the attached previous transaction is the one the outpoint names; both UTXO kinds agree *)
      (forall pt, i_prev_tx i = Some pt ->
         i_txid i = pt_hash pt /\
         exists u, nthz (pt_outs pt) (i_index i) = Some u /\
                   forall po, i_prev_out i = Some po -> u_amount po = u_amount u /\ u_spk po = u_spk u) /\
      (* the spent scriptPubKey commits to the script, which contains every named key *)
      (forall spk, in_spk i = Ok (Some spk) ->
         in_commits i spk sc /\ forall np, In np (i_pubs i) -> In (Push (np_key np)) sc) /\
      (* one named key per xpub of the map, each derived from it *)
      zlen (i_pubs i) = zlen hm /\ (forall np, In np (i_pubs i) -> derives_from hm np) /\
      exists v, i_value i = Some v.
  Proof.
    intros H Hin. apply describe_inv in H.
    destruct H as (hm & vs & Heff & _ & _ & _ & _ & _ & _ & _ & _ & _ & _ & _ & Hn & _ & HFi & _).
    rewrite Forall_forall in HFi.
    destruct (HFi i Hin) as (Hval & Hex & (s0 & Hp & Hq & _) & Hlen & Hpubs & Hv & Hrec).
    pose proof (quorum_of_std _ _ _ Hq) as Hstd.
    exists hm, (snd s0). repeat split; try assumption; try lia.
    - unfold pick_script in Hp. destruct (i_witness i) as [w|]; [injection Hp as <-; now left|].
      destruct (i_redeem i) as [r|]; [injection Hp as <-; right; auto|discriminate].
    - now apply (validate_in_facts i Hval pt).
    - now apply (validate_in_facts i Hval pt).
    - destruct (validate_in_commit i s0 _ _ spk Hval Hex Hp Hstd H) as [Hc _]. exact Hc.
    - destruct (validate_in_commit i s0 _ _ spk Hval Hex Hp Hstd H) as [_ Hk]. exact Hk.
    - intros np Hnp. apply check_pub_ok. now apply (forall_res_ok _ _ Hpubs).
  Qed.

  (* (fix 786fa3c) every input of a summarised PSBT carries a UTXO record, so the commitment of the spent
     scriptPubKey to the evaluated script holds for EVERY input *)
  Lemma accepted_input_has_record hm0 p s i :
    describe hm0 p = Ok s -> In i (p_ins p) ->
    exists spk, in_spk i = Ok (Some spk) /\
      exists sc, (i_witness i = Some sc \/ (i_witness i = None /\ i_redeem i = Some sc)) /\
                 std_multisig (s_m s) (s_n s) sc /\ in_commits i spk sc /\
                 forall np, In np (i_pubs i) -> In (Push (np_key np)) sc.
  Proof.
    intros H Hin. pose proof H as Hd. apply describe_inv in H.
    destruct H as (hm & vs & _ & _ & _ & _ & _ & _ & _ & _ & _ & _ & _ & _ & _ & _ & HFi & _).
    rewrite Forall_forall in HFi.
    destruct (HFi i Hin) as (Hval & _ & _ & _ & _ & _ & Hrec).
    assert (Hspk : exists spk, in_spk i = Ok (Some spk)).
    { unfold validate_in, PsbtDescribe.validate_in in Hval. bsplit Hval. clear Hval.
      destruct a as [spk|]; [eauto|]. apply in_spk_none in Hb. destruct Hb as [E1 E2].
      rewrite E1, E2 in Hrec. discriminate. }
    destruct Hspk as [spk Hspk]. exists spk. split; [assumption|].
    destruct (accepted_input_sound hm0 p s i Hd Hin) as (hm' & sc & _ & _ & Hs & Hstd & _ & _ & Hcom & _).
    exists sc. destruct (Hcom spk Hspk) as [Hc Hk]. auto.
  Qed.

  (* ------------------------------------------------------------ (3) the tamper catalogue *)
  (* witness_script or redeem_script: the script the summary evaluates *)
  Definition in_script (i : pin) : option (list cmd) :=
    match i_witness i with Some w => Some w | None => i_redeem i end.
  Definition out_script (o : pout) : option (list cmd) :=
    match o_witness o with Some w => Some w | None => o_redeem o end.

  Lemma std_multisig_unique m n m' n' cs : std_multisig m n cs -> std_multisig m' n' cs -> m = m' /\ n = n'.
  Proof.
    intros (k & E & Hl & _) (k' & E' & Hl' & _).
    assert (Hz : zlen cs = 1 + (zlen k + 2)).
    { rewrite E. rewrite zlen_cons, zlen_app, zlen_map. reflexivity. }
    assert (Hz' : zlen cs = 1 + (zlen k' + 2)).
    { rewrite E'. rewrite zlen_cons, zlen_app, zlen_map. reflexivity. }
    rewrite E in E'. assert (80 + m = 80 + m') by congruence. lia.
  Qed.

  Inductive tampered (hm : hdmap) (p : psbt xpub) : Prop :=
  (* altered previous transaction / UTXO *)
  | T_prev_hash i pt : In i (p_ins p) -> i_prev_tx i = Some pt -> i_txid i <> pt_hash pt -> tampered hm p
  | T_prev_index i pt : In i (p_ins p) -> i_prev_tx i = Some pt ->
      nthz (pt_outs pt) (i_index i) = None -> tampered hm p
  | T_both_utxo i pt u po : In i (p_ins p) -> i_prev_tx i = Some pt ->
      nthz (pt_outs pt) (i_index i) = Some u -> i_prev_out i = Some po ->
      (u_amount po <> u_amount u \/ u_spk po <> u_spk u) -> tampered hm p
  (* redeem / witness script that the spent output does not commit to *)
  | T_in_script_hash i spk sc : In i (p_ins p) -> in_spk i = Ok (Some spk) -> in_script i = Some sc ->
      ~ in_commits i spk sc -> tampered hm p
  | T_in_both_scripts i w r : In i (p_ins p) -> i_witness i = Some w -> i_redeem i = Some r -> tampered hm p
  | T_in_key_not_in_script i spk sc np : In i (p_ins p) -> in_spk i = Ok (Some spk) ->
      in_script i = Some sc -> In np (i_pubs i) -> ~ In (Push (np_key np)) sc -> tampered hm p
  (* foreign fingerprint, foreign xpub, wrong path *)
  | T_in_underivable i np : In i (p_ins p) -> In np (i_pubs i) -> ~ derives_from hm np -> tampered hm p
  | T_in_key_count i : In i (p_ins p) -> zlen (i_pubs i) <> zlen hm -> tampered hm p
  | T_out_underivable o np : In o (p_outs p) -> In np (o_pubs o) -> ~ derives_from hm np -> tampered hm p
  (* changed quorum between inputs, or on a change output *)
  | T_in_quorum i j sci scj m n : In i (p_ins p) -> In j (p_ins p) ->
      in_script i = Some sci -> in_script j = Some scj ->
      std_multisig m n sci -> ~ std_multisig m n scj -> tampered hm p
  | T_out_quorum i o sci sco m n : In i (p_ins p) -> In o (p_outs p) -> is_change o = true ->
      in_script i = Some sci -> out_script o = Some sco ->
      std_multisig m n sci -> ~ std_multisig m n sco -> tampered hm p
  (* swapped scriptPubKey keeping the change metadata / foreign script on the change output *)
  | T_out_commit o sc : In o (p_outs p) -> is_change o = true -> out_script o = Some sc ->
      ~ commits o sc -> tampered hm p
  | T_out_no_script o : In o (p_outs p) -> is_change o = true -> out_script o = None -> tampered hm p
  | T_out_key_not_in_script o sc np : In o (p_outs p) -> out_script o = Some sc ->
      In np (o_pubs o) -> ~ In (Push (np_key np)) sc -> tampered hm p
  | T_out_key_count o : In o (p_outs p) -> is_change o = true -> zlen (o_pubs o) <> zlen hm -> tampered hm p
  (* all change keys from one cosigner (a fingerprint used twice) *)
  | T_one_cosigner o : In o (p_outs p) -> ~ NoDup (map np_xfp (o_pubs o)) -> tampered hm p
  (* second change output *)
  | T_second_change : (2 <= length (filter is_change (p_outs p)))%nat -> tampered hm p
  (* an input that carries neither UTXO record (fix 786fa3c) *)
  | T_in_no_utxo i : In i (p_ins p) -> i_prev_tx i = None -> i_prev_out i = None -> tampered hm p.

  Lemma effective_nonempty hm0 p hm : hm0 <> [] -> effective_map hm0 p hm -> hm = hm0.
  Proof. intros Hne [H|[H _]]; [assumption|contradiction]. Qed.

  Lemma in_script_of i sc :
    (i_witness i = Some sc \/ (i_witness i = None /\ i_redeem i = Some sc)) -> in_script i = Some sc.
  Proof. unfold in_script. intros [->|[-> ->]]; reflexivity. Qed.

  Lemma out_script_of o sc : commits o sc -> out_script o = Some sc.
  Proof.
    unfold out_script. intros (ser & _ & [(-> & -> & _)|[(-> & _)|(-> & _)]]); reflexivity.
  Qed.

  Lemma tamper_rejected hm p : hm <> [] -> tampered hm p -> describe hm p = Err.
  Proof.
    intros Hne Ht. destruct (describe hm p) as [s|] eqn:Hd; [exfalso|reflexivity].
    assert (HI : forall i, In i (p_ins p) -> _) by (intros i Hi; exact (accepted_input_sound hm p s i Hd Hi)).
    assert (HO : forall o, In o (p_outs p) -> is_change o = true -> _)
      by (intros o Ho Hc; exact (change_label_sound hm p s o Hd Ho Hc)).
    destruct Ht as [i pt Hi Hpt Hneq|i pt Hi Hpt Hnth|i pt u po Hi Hpt Hnth Hpo Hdiff
                   |i spk sc Hi Hspk Hsc Hnc|i w r Hi Hw Hr|i spk sc np Hi Hspk Hsc Hnp Hnk
                   |i np Hi Hnp Hnd|i Hi Hcnt|o np Ho Hnp Hnd
                   |i j sci scj m n Hi Hj Hsi Hsj Hstd Hnstd|i o sci sco m n Hi Ho Hc Hsi Hso Hstd Hnstd
                   |o sc Ho Hc Hso Hncom|o Ho Hc Hso|o sc np Ho Hso Hnp Hnk|o Ho Hc Hcnt|o Ho Hnd|H2
                   |i Hi Hnt Hno].
    - destruct (HI i Hi) as (hm' & sc & _ & _ & _ & _ & _ & Hprev & _). now destruct (Hprev pt Hpt).
    - destruct (HI i Hi) as (hm' & sc & _ & _ & _ & _ & _ & Hprev & _).
      destruct (Hprev pt Hpt) as (_ & u & Hu & _). congruence.
    - destruct (HI i Hi) as (hm' & sc & _ & _ & _ & _ & _ & Hprev & _).
      destruct (Hprev pt Hpt) as (_ & u' & Hu & Hboth). rewrite Hnth in Hu. injection Hu as <-.
      destruct (Hboth po Hpo). destruct Hdiff; contradiction.
    - destruct (HI i Hi) as (hm' & sc' & _ & _ & Hs & _ & _ & _ & Hcom & _).
      apply in_script_of in Hs. rewrite Hsc in Hs. injection Hs as <-.
      now destruct (Hcom spk Hspk).
    - destruct (HI i Hi) as (hm' & sc & _ & [Hx|Hx] & _); congruence.
    - destruct (HI i Hi) as (hm' & sc' & _ & _ & Hs & _ & _ & _ & Hcom & _).
      apply in_script_of in Hs. rewrite Hsc in Hs. injection Hs as <-.
      destruct (Hcom spk Hspk) as [_ Hk]. now apply Hnk, Hk.
    - destruct (HI i Hi) as (hm' & sc & Heff & _ & _ & _ & _ & _ & _ & _ & Hder & _).
      apply (effective_nonempty _ _ _ Hne) in Heff. subst hm'. now apply Hnd, Hder.
    - destruct (HI i Hi) as (hm' & sc & Heff & _ & _ & _ & _ & _ & _ & Hl & _).
      apply (effective_nonempty _ _ _ Hne) in Heff. subst hm'. contradiction.
    - assert (Hc : is_change o = true).
      { unfold is_change. destruct (o_pubs o); [contradiction|reflexivity]. }
      destruct (HO o Ho Hc) as (hm' & sc & keys & Heff & _ & _ & _ & _ & _ & _ & _ & _ & _ & _ & Hder & _).
      apply (effective_nonempty _ _ _ Hne) in Heff. subst hm'. now apply Hnd, Hder.
    - destruct (HI i Hi) as (hm' & sc & _ & _ & Hs & Hstd' & _).
      apply in_script_of in Hs. rewrite Hsi in Hs. injection Hs as <-.
      destruct (std_multisig_unique _ _ _ _ _ Hstd Hstd') as [-> ->].
      destruct (HI j Hj) as (hm'' & sc' & _ & _ & Hs' & Hstd'' & _).
      apply in_script_of in Hs'. rewrite Hsj in Hs'. injection Hs' as <-. contradiction.
    - destruct (HI i Hi) as (hm' & sc & _ & _ & Hs & Hstd' & _).
      apply in_script_of in Hs. rewrite Hsi in Hs. injection Hs as <-.
      destruct (std_multisig_unique _ _ _ _ _ Hstd Hstd') as [-> ->].
      destruct (HO o Ho Hc) as (hm'' & sc' & keys & _ & Hcom & Esc & Hlen & HFk & Hm & Hn16 & _).
      apply out_script_of in Hcom. rewrite Hso in Hcom. injection Hcom as <-.
      apply Hnstd. exists keys. repeat split; try assumption; try lia.
    - destruct (HO o Ho Hc) as (hm' & sc' & keys & _ & Hcom & _).
      pose proof (out_script_of _ _ Hcom) as Hs. rewrite Hso in Hs. injection Hs as <-. contradiction.
    - destruct (HO o Ho Hc) as (hm' & sc' & keys & _ & Hcom & _).
      pose proof (out_script_of _ _ Hcom) as Hs. congruence.
    - assert (Hc : is_change o = true).
      { unfold is_change. destruct (o_pubs o); [contradiction|reflexivity]. }
      destruct (HO o Ho Hc) as (hm' & sc' & keys & _ & Hcom & Esc & _ & _ & _ & _ & _ & _ & _ & _ & Hk & _).
      pose proof (out_script_of _ _ Hcom) as Hs. rewrite Hso in Hs. injection Hs as <-.
      apply Hnk. rewrite Esc. right. apply in_or_app. left. apply in_map. now apply Hk.
    - destruct (HO o Ho Hc) as (hm' & sc' & keys & Heff & _ & _ & _ & _ & _ & _ & Hn & _ & Hl & _).
      apply (effective_nonempty _ _ _ Hne) in Heff. subst hm'. lia.
    - destruct (o_pubs o) as [|np r] eqn:Ep; [apply Hnd; constructor|].
      assert (Hc : is_change o = true) by (unfold is_change; now rewrite Ep).
      destruct (HO o Ho Hc) as (hm' & sc' & keys & _ & _ & _ & _ & _ & _ & _ & _ & _ & _ & Hndx & _).
      rewrite Ep in Hndx. contradiction.
    - apply summary_arithmetic in Hd. destruct Hd as (vs & _ & _ & _ & _ & _ & _ & _ & _ & Hl). lia.
    - destruct (accepted_input_has_record hm p s i Hd Hi) as (spk & Hspk & _).
      unfold in_spk in Hspk. rewrite Hnt, Hno in Hspk. discriminate.
  Qed.

  (* an input with neither UTXO record makes describe refuse, whatever the map and the rest of the PSBT *)
  Lemma no_utxo_record_rejected hm0 p i :
    In i (p_ins p) -> i_prev_tx i = None -> i_prev_out i = None -> describe hm0 p = Err.
  Proof.
    intros Hi Hnt Hno. destruct (describe hm0 p) as [s|] eqn:Hd; [exfalso|reflexivity].
    destruct (accepted_input_has_record hm0 p s i Hd Hi) as (spk & Hspk & _).
    unfold in_spk in Hspk. rewrite Hnt, Hno in Hspk. discriminate.
  Qed.
End DescribeP.

(* ---------------------------------------------------------------- the BIP174 limitation *)
Section Refute.
  Variable hash160 sha256 : bytes -> bytes.
  Variable xpub : Type.
  Variable derive : xpub -> list Z -> option bytes.
  Hypothesis sha256_len : forall b, length (sha256 b) = 32%nat.

  (* a 1-of-1 P2WSH wallet spend whose only input carries a witness UTXO (and nothing else) *)
  Definition ws1 (k : bytes) : list cmd := [Op 81; Push k; Op 81; Op 174].
  Definition ser1 (k : bytes) : bytes := [81] ++ (33 :: k) ++ [81; 174].
  Definition np1 (k x : bytes) (t : list Z) : named_pub :=
    {| np_key := k; np_sec := k; np_xfp := x; np_path := t |}.
  Definition in1 (k x : bytes) (t : list Z) (a : Z) : pin :=
    {| i_txid := []; i_index := 0; i_prev_tx := None;
       i_prev_out := Some {| u_amount := a; u_spk := p2wsh_script (sha256 (ser1 k)) |};
       i_redeem := None; i_witness := Some (ws1 k); i_pubs := [np1 k x t]; i_value := Some a |}.
  Definition out1 : pout :=
    {| o_amount := 1000; o_spk := p2wsh_script (repeatz 7 32); o_redeem := None; o_witness := None;
       o_pubs := [] |}.
  Definition psbt1 (k x : bytes) (t : list Z) (a : Z) : psbt xpub :=
    {| p_ins := [in1 k x t a]; p_outs := [out1]; p_hd_pubs := [] |}.

  Lemma describe_psbt1 xp k x z t a :
    derive xp (z :: t) = Some k -> zlen k = 33 -> zlen (z :: t) < 256 -> a <> 0 ->
    exists s, describe hash160 sha256 xpub derive [(x, (xp, 0))] (psbt1 k x (z :: t) a) = Ok s /\
              s_fee s = a - 1000.
  Proof.
    intros Hd Hk Ht Ha.
    assert (Hser : ser_cmds (ws1 k) = Ok (ser1 k)).
    { unfold ws1, ser1. cbn [ser_cmds ser_cmd]. rewrite Hk. reflexivity. }
    assert (Hspk : is_p2wsh (p2wsh_script (sha256 (ser1 k))) = true).
    { cbn. rewrite sha256_len. reflexivity. }
    assert (Hvi : validate_in hash160 sha256 (in1 k x (z :: t) a) = Ok tt).
    { unfold validate_in, in1. cbn [in_spk i_prev_tx i_prev_out u_spk bind i_witness i_redeem i_pubs is_some orb andb opt_is].
      rewrite Hspk. rewrite orb_true_r. cbn [orb check bind].
      unfold script_s256. rewrite Hser. cbn [bind nth_cmd nth_error p2wsh_script cmd_eqb].
      rewrite beq_refl. cbn [check bind]. unfold keys_in. cbn [forallb np1 np_key has_key ws1 existsb cmd_eqb].
      rewrite beq_refl. reflexivity. }
    assert (Hwq : witness_quorum (ws1 k) = Ok (1, 1)).
    { unfold witness_quorum, ws1. cbn [last_cmd rev app cmd_eqb head_cmd last2_cmd bind].
      cbn [Z.eqb Pos.eqb check bind op_name_number]. cbn [middle removelast skipn].
      unfold op_name_number. cbn [Z.eqb Z.leb Z.compare Pos.compare Pos.compare_cont andb Z.sub Z.add Z.opp Z.pos_sub Pos.pred_double Z.succ_double Z.pred_double Z.double bind].
      cbn [check bind forallb is_key_push]. rewrite Hk. reflexivity. }
    assert (Hcp : check_pub xpub derive [(x, (xp, 0))] (np1 k x (z :: t)) = Ok tt).
    { unfold check_pub, lookup_xfp, np1. cbn [find fst snd np_xfp np_path np_sec]. rewrite beq_refl. cbn [snd].
      unfold ltrim. destruct (256 <=? zlen (z :: t)) eqn:E1; [apply Z.leb_le in E1; lia|].
      destruct (zlen (z :: t) <? 0) eqn:E2; [apply Z.ltb_lt in E2; unfold zlen in E2; lia|].
      change (Z.to_nat 0) with 0%nat. cbn [skipn bind]. unfold derive_t. rewrite Hd. rewrite beq_refl. reflexivity. }
    assert (Hvo : validate_out hash160 sha256 out1 = Ok tt) by reflexivity.
    assert (Hvp : validate_psbt hash160 sha256 xpub derive (psbt1 k x (z :: t) a) = Ok tt).
    { unfold validate_psbt, psbt1. cbn [p_ins p_outs p_hd_pubs forall_res]. rewrite Hvi, Hvo.
      reflexivity. }
    assert (Hfee : tx_fee xpub (psbt1 k x (z :: t) a) = Ok (a + 0 - (1000 + 0))) by reflexivity.
    assert (Hic : input_checks hash160 sha256 xpub derive [(x, (xp, 0))] None None (in1 k x (z :: t) a)
                  = Ok (1, 1, a)).
    { unfold input_checks. rewrite Hvi. cbn [bind i_witness i_redeem in1 pick_script i_pubs i_prev_tx i_prev_out is_some orb check].
      change (zlen [(x, (xp, 0))]) with 1. change (zlen [np1 k x (z :: t)]) with 1.
      cbn [Z.eqb Pos.eqb check bind]. unfold quorum_of. cbn [fst snd]. rewrite Hwq.
      cbn [bind Z.eqb Pos.eqb check]. rewrite Hser. cbn [bind forall_res]. rewrite Hcp. reflexivity. }
    assert (Hdo : describe_outputs hash160 sha256 xpub derive [(x, (xp, 0))] 1 1 out0 [out1] =
                  Ok {| b_total := 0 + 1000; b_spend := 0 + 1000; b_spends := 0 + 1;
                        b_spend_addr := Some (o_spk out1); b_change := None;
                        b_descs := [(1000, false)] |}) by reflexivity.
    exists {| s_fee := a + 0 - (1000 + 0); s_total_in := 0 + a; s_total_out := 0 + 1000;
              s_spend := 0 + 1000; s_change := 0; s_spend_addr := Some (o_spk out1);
              s_change_addr := None; s_batch := false; s_m := 1; s_n := 1;
              s_ins := [(1, 1, a)]; s_outs := [(1000, false)] |}.
    split; [|cbn [s_fee]; lia].
    unfold describe. rewrite Hvp, Hfee. cbn [bind].
    unfold psbt1 at 1. cbn [p_ins describe_inputs].
    change (a_m acc0) with (@None Z). change (a_n acc0) with (@None Z). rewrite Hic.
    cbn [bind a_m a_n a_total a_descs a_signing acc0 i_pubs in1 orb negb app check].
    unfold psbt1. cbn [p_outs]. rewrite Hdo. cbn [bind b_total b_spend b_spends b_spend_addr b_change b_descs].
    destruct (0 + a =? 0) eqn:E; [apply Z.eqb_eq in E; lia|]. reflexivity.
  Qed.

  (* (4) BIP174: nothing commits to the amount of a witness-UTXO-only input *)
  Lemma witness_utxo_amount_unchecked_refuted xp k x z t :
    derive xp (z :: t) = Some k -> zlen k = 33 -> zlen (z :: t) < 256 ->
    exists hm s s',
      describe hash160 sha256 xpub derive hm (psbt1 k x (z :: t) 5000) = Ok s /\
      describe hash160 sha256 xpub derive hm (psbt1 k x (z :: t) 9000) = Ok s' /\
      s_fee s = 4000 /\ s_fee s' = 8000.
  Proof.
    intros Hd Hk Ht.
    destruct (describe_psbt1 xp k x z t 5000 Hd Hk Ht) as (s & Hs & Hf); [lia|].
    destruct (describe_psbt1 xp k x z t 9000 Hd Hk Ht) as (s' & Hs' & Hf'); [lia|].
    exists [(x, (xp, 0))], s, s'. repeat split; try assumption; lia.
  Qed.
End Refute.
