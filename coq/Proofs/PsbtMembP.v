(* Proofs/PsbtMembP.v — what the combiner preserves (membership characterisation of every
   dictionary of the result, the finalised fields), and order independence carried through
   finalize / final_tx. *)
From Coq Require Import Permutation.
From V Require Import Base.Prelude Base.Ints Model.Helper Model.Script Model.Tx Model.Psbt
  Proofs.PsbtDictP Proofs.PsbtCombineP.

(* {**lo, **hi} looked up: an entry of the result is an entry of hi, or an entry of lo whose key
   hi does not have — nothing is dropped, nothing is invented *)
Lemma dunion_member {V} (lo hi : dict V) k v :
  dsorted hi ->
  (dget (dunion lo hi) k = Some v <->
   dget hi k = Some v \/ (dget hi k = None /\ dget lo k = Some v)).
Proof.
  intros Hs. rewrite dget_dunion by exact Hs. destruct (dget hi k) as [w|]; split.
  - intros H; now left.
  - intros [H|[H _]]; [exact H|discriminate].
  - intros H; right; split; [reflexivity|exact H].
  - intros [H|[_ H]]; [discriminate|exact H].
Qed.

Lemma dunion_keys {V} (lo hi : dict V) k :
  dsorted hi ->
  (is_some (dget (dunion lo hi) k) = true <->
   is_some (dget lo k) = true \/ is_some (dget hi k) = true).
Proof.
  intros Hs. rewrite dget_dunion by exact Hs.
  destruct (dget hi k), (dget lo k); cbn; intuition congruence.
Qed.

(* when the two sides agree on shared keys the characterisation is symmetric *)
Lemma dunion_member_agree {V} (lo hi : dict V) k v :
  dsorted hi -> agree lo hi ->
  (dget (dunion lo hi) k = Some v <-> dget lo k = Some v \/ dget hi k = Some v).
Proof.
  intros Hs Ha. rewrite dunion_member by exact Hs. split.
  - intros [H|[_ H]]; [now right|now left].
  - intros [H|H]; [|now left]. destruct (dget hi k) as [w|] eqn:E.
    + left. f_equal. symmetry. eapply Ha; eauto.
    + right. split; [reflexivity|exact H].
Qed.

(* ---- one input ---- *)
Record in_combine_spec (a b c : psbt_in) : Prop := {
  ics_sigs : forall k v, dget (pi_sigs c) k = Some v <->
               dget (pi_sigs b) k = Some v \/ (dget (pi_sigs b) k = None /\ dget (pi_sigs a) k = Some v);
  ics_named : forall k v, dget (pi_named c) k = Some v <->
               dget (pi_named a) k = Some v \/ (dget (pi_named a) k = None /\ dget (pi_named b) k = Some v);
  ics_extra : forall k v, dget (pi_extra c) k = Some v <->
               dget (pi_extra a) k = Some v \/ (dget (pi_extra a) k = None /\ dget (pi_extra b) k = Some v);
  ics_sig_keys : forall k, is_some (dget (pi_sigs c) k) = true <->
               is_some (dget (pi_sigs a) k) = true \/ is_some (dget (pi_sigs b) k) = true;
  (* the finalised fields: the accumulator's own finalisation always wins; otherwise the
     argument's final scriptSig is taken, and its final witness when that is not empty *)
  ics_ss : pi_script_sig c = match pi_script_sig a with Some x => Some x | None => pi_script_sig b end;
  ics_wit : pi_witness c = match pi_witness a with
                           | Some w => Some w
                           | None => match pi_witness b with Some (x :: r) => Some (x :: r) | _ => None end
                           end;
  ics_prev_tx : pi_prev_tx c = match pi_prev_tx a with Some x => Some x | None => pi_prev_tx b end;
  ics_prev_out : pi_prev_out c = match pi_prev_out a with Some x => Some x | None => pi_prev_out b end;
  ics_redeem : pi_redeem c = match pi_redeem a with Some x => Some x | None => pi_redeem b end;
  ics_wscript : pi_wscript c = match pi_wscript a with Some x => Some x | None => pi_wscript b end }.

Lemma in_combine_member a b :
  dsorted (pi_sigs b) -> dsorted (pi_named a) -> dsorted (pi_extra a) ->
  in_combine_spec a b (in_combine a b).
Proof.
  intros S1 S2 S3. constructor; cbn [in_combine pi_sigs pi_named pi_extra pi_script_sig pi_witness
    pi_prev_tx pi_prev_out pi_redeem pi_wscript].
  - intros k v. now apply dunion_member.
  - intros k v. now apply dunion_member.
  - intros k v. now apply dunion_member.
  - intros k. now apply dunion_keys.
  - unfold take, always. destruct (pi_script_sig a); [reflexivity|]. destruct (pi_script_sig b); reflexivity.
  - unfold take. destruct (pi_witness a); [reflexivity|]. destruct (pi_witness b) as [[|x r]|]; reflexivity.
  - unfold take, always. destruct (pi_prev_tx a); [reflexivity|]. destruct (pi_prev_tx b); reflexivity.
  - unfold take, always. destruct (pi_prev_out a); [reflexivity|]. destruct (pi_prev_out b); reflexivity.
  - unfold take, always. destruct (pi_redeem a); [reflexivity|]. destruct (pi_redeem b); reflexivity.
  - unfold take, always. destruct (pi_wscript a); [reflexivity|]. destruct (pi_wscript b); reflexivity.
Qed.

Record out_combine_spec (a b c : psbt_out) : Prop := {
  ocs_named : forall k v, dget (po_named c) k = Some v <->
               dget (po_named a) k = Some v \/ (dget (po_named a) k = None /\ dget (po_named b) k = Some v);
  ocs_extra : forall k v, dget (po_extra c) k = Some v <->
               dget (po_extra a) k = Some v \/ (dget (po_extra a) k = None /\ dget (po_extra b) k = Some v);
  ocs_redeem : po_redeem c = match po_redeem a with Some x => Some x | None => po_redeem b end;
  ocs_wscript : po_wscript c = match po_wscript a with Some x => Some x | None => po_wscript b end }.

Lemma out_combine_member a b :
  dsorted (po_named a) -> dsorted (po_extra a) -> out_combine_spec a b (out_combine a b).
Proof.
  intros S1 S2. constructor; cbn [out_combine po_named po_extra po_redeem po_wscript].
  - intros k v. now apply dunion_member.
  - intros k v. now apply dunion_member.
  - unfold take, always. destruct (po_redeem a); [reflexivity|]. destruct (po_redeem b); reflexivity.
  - unfold take, always. destruct (po_wscript a); [reflexivity|]. destruct (po_wscript b); reflexivity.
Qed.

(* ---- positions ---- *)
Lemma zip_with_nth {A} (f : A -> A -> A) : forall a b j x y,
  nth_error a j = Some x -> nth_error b j = Some y -> nth_error (zip_with f a b) j = Some (f x y).
Proof.
  induction a as [|x0 a IH]; intros [|y0 b] [|j] x y Ha Hb; cbn in *; try discriminate.
  - inversion Ha; inversion Hb; subst. reflexivity.
  - now apply IH.
Qed.

Lemma zip_with_nth_surplus {A} (f : A -> A -> A) : forall a b j,
  nth_error b j = None -> nth_error (zip_with f a b) j = nth_error a j.
Proof.
  induction a as [|x0 a IH]; intros [|y0 b] [|j] Hb; cbn in *; try discriminate; try reflexivity.
  now apply IH.
Qed.

Lemma zip_with_length {A} (f : A -> A -> A) : forall a b, length (zip_with f a b) = length a.
Proof. induction a as [|x a IH]; intros [|y b]; cbn; try reflexivity. now rewrite IH. Qed.

(* ---- the whole PSBT: what PSBT.combine leaves in self ---- *)
Theorem comb_membership (a b : psbt) :
  good a -> good b ->
  p_tx (comb a b) = p_tx a /\
  length (p_ins (comb a b)) = length (p_ins a) /\
  length (p_outs (comb a b)) = length (p_outs a) /\
  (forall j sa sb, nth_error (p_ins a) j = Some sa -> nth_error (p_ins b) j = Some sb ->
     exists sc, nth_error (p_ins (comb a b)) j = Some sc /\ in_combine_spec sa sb sc) /\
  (forall j sa sb, nth_error (p_outs a) j = Some sa -> nth_error (p_outs b) j = Some sb ->
     exists sc, nth_error (p_outs (comb a b)) j = Some sc /\ out_combine_spec sa sb sc) /\
  (forall k v, dget (p_hd (comb a b)) k = Some v <->
     dget (p_hd a) k = Some v \/ (dget (p_hd a) k = None /\ dget (p_hd b) k = Some v)) /\
  (forall k v, dget (p_extra (comb a b)) k = Some v <->
     dget (p_extra a) k = Some v \/ (dget (p_extra a) k = None /\ dget (p_extra b) k = Some v)).
Proof.
  intros [A1 A2 A3 A4] [B1 B2 B3 B4]. unfold comb; cbn [p_tx p_ins p_outs p_hd p_extra].
  split; [reflexivity|]. split; [apply zip_with_length|]. split; [apply zip_with_length|].
  split; [|split; [|split]].
  - intros j sa sb Ha Hb. exists (in_combine sa sb). split; [now apply zip_with_nth|].
    pose proof (proj1 (Forall_forall _ _) A1 sa (nth_error_In _ _ Ha)) as [G1 G2 G3 _ _].
    pose proof (proj1 (Forall_forall _ _) B1 sb (nth_error_In _ _ Hb)) as [H1 _ _ _ _].
    now apply in_combine_member.
  - intros j sa sb Ha Hb. exists (out_combine sa sb). split; [now apply zip_with_nth|].
    pose proof (proj1 (Forall_forall _ _) A2 sa (nth_error_In _ _ Ha)) as [G1 G2].
    now apply out_combine_member.
  - intros k v. now apply dunion_member.
  - intros k v. now apply dunion_member.
Qed.

(* with compatible arguments (deterministic signatures) the signature set of every input is exactly
   the union of the two signature sets *)
Theorem comb_sigs_union (a b : psbt) j sa sb :
  good a -> good b -> compat a b ->
  nth_error (p_ins a) j = Some sa -> nth_error (p_ins b) j = Some sb ->
  exists sc, nth_error (p_ins (comb a b)) j = Some sc /\
    forall k v, dget (pi_sigs sc) k = Some v <-> dget (pi_sigs sa) k = Some v \/ dget (pi_sigs sb) k = Some v.
Proof.
  intros [A1 _ _ _] [B1 _ _ _] [_ C _ _ _] Ha Hb.
  exists (in_combine sa sb). split; [unfold comb; cbn; now apply zip_with_nth|].
  pose proof (proj1 (Forall_forall _ _) B1 sb (nth_error_In _ _ Hb)) as [H1 _ _ _ _].
  assert (Hc : compat_in sa sb).
  { clear -C Ha Hb. revert j Ha Hb. induction C as [|x y l l' Hxy C IH]; intros [|j] Ha Hb; cbn in *; try discriminate.
    - inversion Ha; inversion Hb; subst. exact Hxy.
    - eapply IH; eauto. }
  intros k v. cbn [in_combine pi_sigs]. apply dunion_member_agree; [exact H1|]. now destruct Hc.
Qed.

(* a finalised accumulator keeps its own final scriptSig / witness whatever it is combined with
   (two PSBTs finalised from different signer subsets: the result carries self's) *)
Theorem comb_keeps_own_finalisation (a b : psbt) j sa ss :
  nth_error (p_ins a) j = Some sa -> pi_script_sig sa = Some ss ->
  exists sc, nth_error (p_ins (comb a b)) j = Some sc /\ pi_script_sig sc = Some ss /\
             (forall w, pi_witness sa = Some w -> pi_witness sc = Some w).
Proof.
  intros Ha Hss. unfold comb; cbn [p_ins].
  destruct (nth_error (p_ins b) j) as [sb|] eqn:Hb.
  - exists (in_combine sa sb). split; [now apply zip_with_nth|]. cbn. rewrite Hss. cbn.
    split; [reflexivity|]. intros w ->; reflexivity.
  - exists sa. rewrite zip_with_nth_surplus by exact Hb. split; [exact Ha|]. split; [exact Hss|]. auto.
Qed.

(* ---- order independence carried through finalize and final_tx ---- *)
Theorem workflow_final_order_independent (verify_tx : tx -> bool) (base : psbt) (l l' : list psbt) :
  Permutation l l' -> family (base :: l) ->
  finalize (fold_left comb l base) = finalize (fold_left comb l' base) /\
  (bind (finalize (fold_left comb l base)) psbt_serialize
   = bind (finalize (fold_left comb l' base)) psbt_serialize) /\
  (bind (finalize (fold_left comb l base)) (final_tx verify_tx)
   = bind (finalize (fold_left comb l' base)) (final_tx verify_tx)).
Proof.
  intros P F. rewrite (fold_comb_perm l l' P base F). repeat split.
Qed.
