(* Proofs/DescChecksumP.v — the descriptor checksum of Model/Descriptor.v
   (calc_poly_mod / calc_core_checksum):
     * calc_poly_mod is the generic LFSR step of Base/Lfsr.v (k = 35, w = 5) and
       equals Core's PolyMod on 40-bit states;
     * desc_checksum = Spec.CoreDescChecksum.core_descriptor_checksum on every text;
   The error-detection theorem is in Proofs/DescDetectP.v. *)
From Coq Require Import String.
From V Require Import Base.Prelude Base.Disp Base.Lfsr Generated.DescConsts Model.Descriptor
  Spec.CoreDescChecksum.
Open Scope Z_scope.

(* ------------------------------------------------------------------ bit facts *)

Lemma lxor_bound n a b : 0 <= n -> 0 <= a < 2 ^ n -> 0 <= b < 2 ^ n -> 0 <= Z.lxor a b < 2 ^ n.
Proof.
  intros Hn Ha Hb. split; [apply Z.lxor_nonneg; lia|].
  destruct (Z.eq_dec (Z.lxor a b) 0) as [E|E]; [rewrite E; lia|].
  assert (P : 0 < Z.lxor a b) by (pose proof (proj2 (Z.lxor_nonneg a b)); lia).
  apply Z.log2_lt_pow2; [exact P|].
  pose proof (Z.log2_lxor a b (proj1 Ha) (proj1 Hb)) as L.
  assert (La : a = 0 \/ Z.log2 a < n).
  { destruct (Z.eq_dec a 0); [now left|right]. apply Z.log2_lt_pow2; lia. }
  assert (Lb : b = 0 \/ Z.log2 b < n).
  { destruct (Z.eq_dec b 0); [now left|right]. apply Z.log2_lt_pow2; lia. }
  destruct La as [->|La], Lb as [->|Lb].
  - now rewrite Z.lxor_0_l in E.
  - rewrite Z.lxor_0_l. lia.
  - rewrite Z.lxor_0_r. lia.
  - lia.
Qed.

Lemma land_pow2 a i : 0 <= i -> Z.land a (2 ^ i) = if Z.testbit a i then 2 ^ i else 0.
Proof.
  intros Hi. apply Z.bits_inj'. intros j Hj. rewrite Z.land_spec, Z.pow2_bits_eqb by lia.
  destruct (Z.eqb_spec i j) as [->|N].
  - destruct (Z.testbit a j); cbn; [now rewrite Z.pow2_bits_true by lia|now rewrite Z.bits_0].
  - rewrite andb_false_r. destruct (Z.testbit a i); [|now rewrite Z.bits_0].
    rewrite Z.pow2_bits_false; [reflexivity|lia].
Qed.

Lemma land_pow2_eqb a i : 0 <= i -> (Z.land a (2 ^ i) =? 0) = negb (Z.testbit a i).
Proof.
  intros Hi. rewrite land_pow2 by exact Hi. destruct (Z.testbit a i); cbn; [|reflexivity].
  apply Z.eqb_neq. pose proof (Z.pow_pos_nonneg 2 i). lia.
Qed.

(* ------------------------------------------------------------------ calc_poly_mod *)

Definition gens : list Z := map snd desc_gen.
Notation lstep := (Lfsr.step gens 35 5).
Notation lrun := (Lfsr.run gens 35 5).

Lemma poly_mod_step c v : poly_mod c v = lstep c v.
Proof.
  unfold poly_mod, Lfsr.step, gens.
  change desc_top_shift with 35. change desc_shl with 5. change desc_low_mask with (Z.ones 35).
  set (c0 := Z.shiftr c 35). set (c1 := Z.lxor (Z.shiftl (Z.land c (Z.ones 35)) 5) v).
  change desc_gen with [(2 ^ 0, 1056006543753); (2 ^ 1, 730107360018); (2 ^ 2, 118834127661);
                        (2 ^ 3, 236335490938); (2 ^ 4, 430795026429)].
  cbn [fold_left map fst snd sel].
  rewrite !land_pow2_eqb by lia.
  change (0 + 1 + 1 + 1 + 1) with 4. change (0 + 1 + 1 + 1) with 3. change (0 + 1 + 1) with 2.
  change (0 + 1) with 1.
  destruct (Z.testbit c0 0), (Z.testbit c0 1), (Z.testbit c0 2), (Z.testbit c0 3), (Z.testbit c0 4);
    cbn [negb]; rewrite ?Z.lxor_0_r, ?Z.lxor_0_l, ?Z.lxor_assoc; reflexivity.
Qed.

Definition st_ok (c : Z) : Prop := 0 <= c < 2 ^ 40.
Definition sym5 (v : Z) : Prop := 0 <= v < 32.

Lemma sel_bound gs b i : Forall st_ok gs -> st_ok (Lfsr.sel gs b i).
Proof.
  intros HF. revert i. induction HF as [|g r Hg HF IH]; intros i; cbn [sel].
  - unfold st_ok; lia.
  - apply lxor_bound; [lia| |apply IH]. destruct (Z.testbit b i); [exact Hg|unfold st_ok; lia].
Qed.

Lemma gens_ok : Forall st_ok gens.
Proof. unfold gens, st_ok. cbn. repeat constructor; lia. Qed.

Lemma step_bound c v : 0 <= c -> sym5 v -> st_ok (lstep c v).
Proof.
  intros Hc Hv. unfold Lfsr.step. apply lxor_bound; [lia| |apply sel_bound, gens_ok].
  apply lxor_bound; [lia| |unfold sym5 in Hv; lia].
  rewrite Z.land_ones, Z.shiftl_mul_pow2 by lia.
  pose proof (Z.mod_pos_bound c (2 ^ 35) eq_refl). change (2 ^ 40) with (2 ^ 35 * 2 ^ 5). nia.
Qed.

Lemma poly_mod_bound c v : st_ok c -> sym5 v -> st_ok (poly_mod c v).
Proof. intros Hc Hv. rewrite poly_mod_step. apply step_bound; [unfold st_ok in Hc; lia|exact Hv]. Qed.

(* Core's PolyMod on a 40-bit state *)
Lemma PolyMod_poly_mod c v : st_ok c -> PolyMod c v = poly_mod c v.
Proof.
  intros Hc. unfold st_ok in Hc. unfold PolyMod, poly_mod, u8, u64, bit_set.
  change desc_top_shift with 35. change desc_shl with 5. change desc_low_mask with 34359738367.
  assert (E1 : Z.shiftr c 35 mod 256 = Z.shiftr c 35).
  { apply Z.mod_small. rewrite Z.shiftr_div_pow2 by lia. split; [apply Z.div_pos; lia|].
    apply Z.div_lt_upper_bound; lia. }
  assert (E2 : Z.shiftl (Z.land c 34359738367) 5 mod 18446744073709551616 = Z.shiftl (Z.land c 34359738367) 5).
  { apply Z.mod_small. change 34359738367 with (Z.ones 35).
    rewrite Z.land_ones, Z.shiftl_mul_pow2 by lia.
    pose proof (Z.mod_pos_bound c (2 ^ 35) eq_refl). lia. }
  rewrite E1, E2.
  change desc_gen with [(1, 1056006543753); (2, 730107360018); (4, 118834127661);
                        (8, 236335490938); (16, 430795026429)].
  cbn [fold_left fst snd].
  destruct (Z.land (Z.shiftr c 35) 1 =? 0), (Z.land (Z.shiftr c 35) 2 =? 0),
    (Z.land (Z.shiftr c 35) 4 =? 0), (Z.land (Z.shiftr c 35) 8 =? 0), (Z.land (Z.shiftr c 35) 16 =? 0);
    reflexivity.
Qed.

(* ------------------------------------------------------------------ character lookup *)

Lemma find_from_range l ch i :
  find_from i l ch = -1 \/ i <= find_from i l ch < i + zlen l.
Proof.
  revert i; induction l as [|x l IH]; intros i; cbn [find_from]; [now left|].
  unfold zlen in *. cbn [length]. destruct (x =? ch); [right; lia|].
  destruct (IH (i + 1)) as [E|E]; [now left|right; lia].
Qed.

Lemma find_index_of l ch i : 0 <= i ->
  index_of i l ch = if find_from i l ch =? -1 then None else Some (find_from i l ch).
Proof.
  revert i; induction l as [|x l IH]; intros i Hi; cbn [find_from index_of]; [reflexivity|].
  destruct (x =? ch).
  - destruct (Z.eqb_spec i (-1)); [lia|reflexivity].
  - apply IH. lia.
Qed.

Lemma charsets_equal :
  core_input_charset = desc_input_charset /\ core_checksum_charset = desc_checksum_charset.
Proof. split; reflexivity. Qed.

Definition in_core_charset (ch : Z) : bool := existsb (Z.eqb ch) core_input_charset.

Lemma index_of_in l ch i : (exists p, index_of i l ch = Some p) <-> existsb (Z.eqb ch) l = true.
Proof.
  revert i; induction l as [|x l IH]; intros i; cbn [index_of existsb].
  - split; [intros [p H]; discriminate|discriminate].
  - rewrite (Z.eqb_sym ch x). destruct (x =? ch); cbn [orb].
    + split; [reflexivity|]. intros _. now exists i.
    + apply IH.
Qed.

Lemma pos_range ch p : index_of 0 core_input_charset ch = Some p -> 0 <= p < 95.
Proof.
  rewrite find_index_of by lia. pose proof (find_from_range core_input_charset ch 0) as R.
  assert (L : zlen core_input_charset = 95) by reflexivity. rewrite L in R. clear L.
  set (f := find_from 0 core_input_charset ch) in *. clearbody f.
  destruct (Z.eqb_spec f (-1)) as [->|N]; [discriminate|].
  intros H. assert (E : f = p) by congruence. lia.
Qed.

(* ------------------------------------------------------------------ the loop *)

Definition inv (st : Z * Z * Z) : Prop :=
  let '(c, cls, cnt) := st in
  st_ok c /\ ((cnt = 0 /\ cls = 0) \/ (cnt = 1 /\ 0 <= cls < 3) \/ (cnt = 2 /\ 0 <= cls < 9)).

Lemma pos_parts p : 0 <= p < 95 -> sym5 (Z.land p 31) /\ 0 <= Z.shiftr p 5 < 3.
Proof.
  intros H. change 31 with (Z.ones 5). rewrite Z.land_ones, Z.shiftr_div_pow2 by lia.
  unfold sym5. split; [apply Z.mod_pos_bound; lia|].
  split; [apply Z.div_pos; lia|apply Z.div_lt_upper_bound; lia].
Qed.

Lemma feed_inv st p : inv st -> 0 <= p < 95 -> inv (feed st p).
Proof.
  destruct st as [[c cls] cnt]. intros [Hc Hs] Hp. destruct (pos_parts p Hp) as [P1 P2].
  unfold feed. pose proof (poly_mod_bound c _ Hc P1) as B1.
  destruct Hs as [[-> ->]|[[-> Hs]|[-> Hs]]]; cbn [Z.add Z.eqb Pos.eqb Z.mul].
  - split; [exact B1|]. right; left. split; [reflexivity|lia].
  - split; [exact B1|]. right; right. split; [reflexivity|lia].
  - split; [|now left]. apply poly_mod_bound; [exact B1|]. unfold sym5. lia.
Qed.

Lemma loop_eq t : forall c cls cnt, inv (c, cls, cnt) ->
  match core_loop t c cls cnt with
  | Some st' => cc_loop (c, cls, cnt) t = Ok st' /\ inv st' /\ forallb in_core_charset t = true
  | None => cc_loop (c, cls, cnt) t = Err /\ forallb in_core_charset t = false
  end.
Proof.
  induction t as [|ch t IH]; intros c cls cnt Hinv; cbn [core_loop cc_loop forallb].
  - split; [reflexivity|split; [exact Hinv|reflexivity]].
  - unfold str_find. rewrite <- (proj1 charsets_equal).
    pose proof (find_index_of core_input_charset ch 0 (Z.le_refl 0)) as FI.
    set (f := find_from 0 core_input_charset ch) in *.
    set (io := index_of 0 core_input_charset ch) in *.
    destruct io as [p|] eqn:EI; subst io.
    + assert (IN : in_core_charset ch = true).
      { unfold in_core_charset. apply (index_of_in core_input_charset ch 0). now exists p. }
      pose proof (pos_range ch p EI) as Hp.
      clearbody f. destruct (f =? -1) eqn:EF; [discriminate|].
      assert (FI' : p = f) by congruence. rewrite <- FI', IN. cbn [andb].
      pose proof (feed_inv _ p Hinv Hp) as FI2. destruct Hinv as [Hc _].
      destruct (pos_parts p Hp) as [P1 _].
      pose proof (poly_mod_bound c _ Hc P1) as B1.
      rewrite (PolyMod_poly_mod c _ Hc). rewrite (PolyMod_poly_mod _ (cls * 3 + Z.shiftr p 5) B1).
      unfold feed in *. destruct (cnt + 1 =? 3); apply IH; exact FI2.
    + clearbody f. destruct (f =? -1) eqn:EF; [|discriminate].
      assert (IN : in_core_charset ch = false).
      { unfold in_core_charset. destruct (existsb (Z.eqb ch) core_input_charset) eqn:EX; [|reflexivity].
        apply (index_of_in core_input_charset ch 0) in EX. destruct EX as [p EX]. congruence. }
      rewrite IN. split; reflexivity.
Qed.

Lemma iter8 f (c : Z) : Nat.iter 8 f c = f (f (f (f (f (f (f (f c))))))).
Proof. reflexivity. Qed.

Lemma checksum_chars_core c :
  checksum_chars c =
  map (fun j => nth (Z.to_nat (Z.land (Z.shiftr c (5 * (7 - j))) 31)) core_checksum_charset 32)
      [0; 1; 2; 3; 4; 5; 6; 7].
Proof.
  unfold checksum_chars. apply map_ext. intros j.
  rewrite (proj2 charsets_equal). apply nth_indep.
  change (length desc_checksum_charset) with 32%nat.
  assert (0 <= Z.land (Z.shiftr c (5 * (7 - j))) 31 < 32).
  { change 31 with (Z.ones 5). rewrite Z.land_ones by lia. apply Z.mod_pos_bound. lia. }
  lia.
Qed.

(* model = Core, for every text *)
Theorem desc_checksum_eq_core_full t :
  desc_checksum t = (if forallb in_core_charset t then Ok (core_descriptor_checksum t) else Err) /\
  (forallb in_core_charset t = false -> core_descriptor_checksum t = []).
Proof.
  assert (I0 : inv (1, 0, 0)) by (split; [unfold st_ok; lia|now left]).
  pose proof (loop_eq t 1 0 0 I0) as L.
  unfold desc_checksum, checksum_value, core_descriptor_checksum.
  destruct (core_loop t 1 0 0) as [[[c cls] cnt]|].
  - destruct L as [-> [[Hc Hs] ->]]. cbn [bind]. split; [|discriminate].
    f_equal. rewrite checksum_chars_core. rewrite iter8.
    assert (Hc' : st_ok (if cnt >? 0 then poly_mod c cls else c)).
    { destruct (cnt >? 0); [|exact Hc]. apply poly_mod_bound; [exact Hc|]. unfold sym5.
      destruct Hs as [[_ ->]|[[_ Hs]|[_ Hs]]]; lia. }
    assert (E : (if cnt >? 0 then PolyMod c cls else c) = (if cnt >? 0 then poly_mod c cls else c)).
    { destruct (cnt >? 0); [apply PolyMod_poly_mod; exact Hc|reflexivity]. }
    rewrite E. set (c1 := if cnt >? 0 then poly_mod c cls else c) in *.
    assert (Z0 : sym5 0) by (unfold sym5; lia).
    rewrite (PolyMod_poly_mod c1 0 Hc').
    repeat match goal with
    | |- context [PolyMod (poly_mod ?a ?b) 0] =>
        rewrite (PolyMod_poly_mod (poly_mod a b) 0) by (repeat apply poly_mod_bound; assumption)
    end.
    reflexivity.
  - destruct L as [-> ->]. split; [reflexivity|reflexivity].
Qed.

(* ------------------------------------------------------------------ value form used by the detection proof *)

Lemma cc_loop_ok_inv t st st' : inv st -> cc_loop st t = Ok st' -> inv st'.
Proof.
  revert st; induction t as [|ch t IH]; intros st Hi; cbn [cc_loop].
  - intros [= <-]. exact Hi.
  - destruct (str_find desc_input_charset ch =? -1) eqn:E; [discriminate|].
    apply IH. apply feed_inv; [exact Hi|].
    unfold str_find in *. pose proof (find_from_range desc_input_charset ch 0) as F.
    assert (L : zlen desc_input_charset = 95) by reflexivity. rewrite L in F. clear L.
    set (f := find_from 0 desc_input_charset ch) in *. clearbody f.
    apply Z.eqb_neq in E. lia.
Qed.

Lemma Ok_inj {A} (a b : A) : Ok a = Ok b -> a = b.
Proof. intros H. now injection H. Qed.

Lemma checksum_value_ok t c : checksum_value t = Ok c -> st_ok c.
Proof.
  unfold checksum_value.
  destruct (cc_loop (1, 0, 0) t) as [[[c0 cls] cnt]|] eqn:E; [|discriminate].
  cbn [bind]. intros H. apply Ok_inj in H. subst c.
  assert (I0 : inv (1, 0, 0)) by (split; [unfold st_ok; lia|now left]).
  destruct (cc_loop_ok_inv _ _ _ I0 E) as [Hc Hs].
  assert (Z0 : sym5 0) by (unfold sym5; lia).
  assert (Hc' : st_ok (if cnt >? 0 then poly_mod c0 cls else c0)).
  { destruct (cnt >? 0); [|exact Hc]. apply poly_mod_bound; [exact Hc|]. unfold sym5.
    destruct Hs as [[_ ->]|[[_ Hs]|[_ Hs]]]; lia. }
  rewrite iter8. apply lxor_bound; [lia| |lia].
  repeat apply poly_mod_bound; assumption.
Qed.
