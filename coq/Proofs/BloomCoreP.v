(* Proofs/BloomCoreP.v — the bloom filter of bloomfilter.py (a list of size*8 bits, packed by
   bit_field_to_bytes) against the byte-vector filter of Spec/BloomCore.v (Bitcoin Core's
   CBloomFilter): filter_bytes() after any sequence of add() = vData after the same insert()s,
   byte for byte; the peer that decodes the filterload payload and evaluates contains() finds
   every added element. *)
From V Require Import Base.Prelude Base.Ints Model.Helper Model.Murmur Model.Bloom
  Proofs.HelperP Proofs.GcsP Proofs.MurmurP Proofs.BloomP.
From V Require Spec.Murmur.
From V Require Import Spec.BloomCore.

(* ---------------- bytes are determined by their 8 low bits ---------------- *)
Lemma byte_testbit_high b n : byte_ok b -> 8 <= n -> Z.testbit b n = false.
Proof.
  intros H Hn. unfold byte_ok in H. rewrite <- (Z.mod_small b (2 ^ 8)) by (change (2 ^ 8) with 256; lia).
  apply Z.mod_pow2_bits_high. lia.
Qed.

Lemma byte_ext a b : byte_ok a -> byte_ok b ->
  (forall j, 0 <= j < 8 -> Z.testbit a j = Z.testbit b j) -> a = b.
Proof.
  intros Ha Hb H. apply Z.bits_inj'. intros n Hn. destruct (Z_lt_dec n 8) as [L|L]; [apply H; lia|].
  rewrite !byte_testbit_high by (assumption || lia). reflexivity.
Qed.

Lemma bytes_ext a : forall b, length a = length b -> bytes_ok a -> bytes_ok b ->
  (forall j, (j < 8 * length a)%nat ->
     Z.testbit (nth (j / 8) a 0) (Z.of_nat (j mod 8)) = Z.testbit (nth (j / 8) b 0) (Z.of_nat (j mod 8))) ->
  a = b.
Proof.
  induction a as [|x a IH]; intros [|y b] L Ha Hb H; try discriminate; [reflexivity|].
  inversion Ha as [|? ? Hx Ha']; subst. inversion Hb as [|? ? Hy Hb']; subst. f_equal.
  - apply byte_ext; try assumption. intros j Hj.
    specialize (H (Z.to_nat j) ltac:(cbn [length]; lia)).
    rewrite Nat.div_small, Nat.mod_small in H by lia. cbn [nth] in H. now rewrite Z2Nat.id in H by lia.
  - apply IH; try assumption; [cbn in L; lia|]. intros j Hj.
    specialize (H (j + 1 * 8)%nat ltac:(cbn [length]; lia)).
    rewrite Nat.div_add, Nat.mod_add in H by lia. rewrite Nat.add_1_r in H. exact H.
Qed.

Lemma lor_byte_ok a m : byte_ok a -> byte_ok m -> byte_ok (Z.lor a m).
Proof.
  intros Ha Hm.
  assert (E : Z.lor a m = Z.lor a m mod 2 ^ 8).
  { apply Z.bits_inj'. intros n Hn. destruct (Z_lt_dec n 8) as [L|L].
    - now rewrite Z.mod_pow2_bits_low by lia.
    - rewrite Z.mod_pow2_bits_high by lia. rewrite Z.lor_spec, !byte_testbit_high by (assumption || lia). reflexivity. }
  unfold byte_ok. rewrite E. apply Z.mod_pos_bound. reflexivity.
Qed.

Lemma pow2_byte_ok e : 0 <= e < 8 -> byte_ok (2 ^ e).
Proof.
  intros H. unfold byte_ok. split; [apply Z.pow_nonneg; lia|].
  change 256 with (2 ^ 8). apply Z.pow_lt_mono_r; lia.
Qed.

(* ---------------- or_byte / core_set ---------------- *)
Lemma or_byte_length v : forall i m, length (or_byte v i m) = length v.
Proof. induction v as [|b r IH]; intros [|i] m; cbn; auto. Qed.

Lemma or_byte_ok v : forall i m, bytes_ok v -> byte_ok m -> bytes_ok (or_byte v i m).
Proof.
  induction v as [|b r IH]; intros [|i] m Hv Hm; cbn [or_byte]; try assumption;
    inversion Hv as [|? ? Hb Hr]; subst; constructor; try assumption.
  - now apply lor_byte_ok.
  - now apply IH.
Qed.

Lemma or_byte_nth v : forall i m j, (i < length v)%nat ->
  nth j (or_byte v i m) 0 = if Nat.eqb j i then Z.lor (nth i v 0) m else nth j v 0.
Proof.
  induction v as [|b r IH]; intros i m j Hi; [cbn in Hi; lia|].
  destruct i as [|i]; destruct j as [|j]; cbn [or_byte nth Nat.eqb]; try reflexivity.
  apply IH. cbn in Hi. lia.
Qed.

Lemma core_set_spec v idx : bytes_ok v -> 0 <= idx < 8 * zlen v ->
  length (core_set v idx) = length v /\ bytes_ok (core_set v idx) /\
  forall j, (j < 8 * length v)%nat ->
    Z.testbit (nth (j / 8) (core_set v idx) 0) (Z.of_nat (j mod 8)) =
    (Z.of_nat j =? idx) || Z.testbit (nth (j / 8) v 0) (Z.of_nat (j mod 8)).
Proof.
  intros Hv Hi. unfold core_set, zlen in *.
  pose proof (Z.div_mod idx 8 ltac:(lia)) as Dm. pose proof (Z.mod_pos_bound idx 8 ltac:(lia)) as Mb.
  assert (Hq : (Z.to_nat (idx / 8) < length v)%nat).
  { assert (0 <= idx / 8) by (apply Z.div_pos; lia). assert (idx / 8 < Z.of_nat (length v)) by (apply Z.div_lt_upper_bound; lia). lia. }
  split; [apply or_byte_length|]. split; [apply or_byte_ok; [assumption|apply pow2_byte_ok; lia]|].
  intros j Hj. rewrite or_byte_nth by assumption.
  pose proof (Nat.div_mod j 8 ltac:(lia)) as Dj. pose proof (Nat.mod_upper_bound j 8 ltac:(lia)) as Mj.
  destruct (Nat.eqb (j / 8) (Z.to_nat (idx / 8))) eqn:E.
  - apply Nat.eqb_eq in E. rewrite <- E. rewrite Z.lor_spec, Z.pow2_bits_eqb by lia.
    rewrite orb_comm. f_equal.
    destruct (Z.of_nat j =? idx) eqn:A; destruct (idx mod 8 =? Z.of_nat (j mod 8)) eqn:B; try reflexivity;
      try apply Z.eqb_eq in A; try apply Z.eqb_eq in B; try apply Z.eqb_neq in A; try apply Z.eqb_neq in B; exfalso; lia.
  - apply Nat.eqb_neq in E. destruct (Z.of_nat j =? idx) eqn:A; [|reflexivity].
    apply Z.eqb_eq in A. exfalso. apply E. subst idx. change 8 with (Z.of_nat 8). rewrite <- Nat2Z.inj_div. lia.
Qed.

(* ---------------- one bit set: bit list and byte vector ---------------- *)
Lemma set_nth_nth n : forall l j, (n < length l)%nat ->
  nth j (set_nth n l) 0 = if Nat.eqb j n then 1 else nth j l 0.
Proof.
  induction n as [|n IH]; intros [|x r] j H; cbn in H; try lia.
  - destruct j; reflexivity.
  - destruct j as [|j]; cbn [set_nth nth Nat.eqb]; [reflexivity|]. apply IH. lia.
Qed.

Lemma bit_field_bytes_set k bits idx :
  length bits = (8 * k)%nat -> bits01 bits -> (idx < 8 * k)%nat ->
  bit_field_bytes k (set_nth idx bits) = core_set (bit_field_bytes k bits) (Z.of_nat idx).
Proof.
  intros L H Hi.
  assert (Lv : length (bit_field_bytes k bits) = k) by apply bit_field_bytes_length.
  destruct (core_set_spec (bit_field_bytes k bits) (Z.of_nat idx) (bit_field_bytes_ok k bits)) as [CL [CO CB]];
    [unfold zlen; rewrite Lv; lia|].
  apply bytes_ext.
  - now rewrite CL, Lv, bit_field_bytes_length.
  - apply bit_field_bytes_ok.
  - exact CO.
  - rewrite bit_field_bytes_length. intros j Hj.
    rewrite bit_field_bytes_bit by (try apply set_nth_01; try rewrite set_nth_length; assumption).
    rewrite CB by (rewrite Lv; exact Hj). rewrite bit_field_bytes_bit by assumption.
    rewrite set_nth_nth by lia.
    destruct (Nat.eqb j idx) eqn:E.
    + apply Nat.eqb_eq in E. subst j. rewrite (Z.eqb_refl (Z.of_nat idx)). reflexivity.
    + apply Nat.eqb_neq in E. destruct (Z.of_nat j =? Z.of_nat idx) eqn:A; [apply Z.eqb_eq in A; lia|reflexivity].
Qed.

Lemma bloom_index_core size tweak item i : bytes_ok item ->
  bloom_index size tweak item i = core_hash size tweak i item.
Proof. intros H. rewrite bloom_index_spec by assumption. reflexivity. Qed.

(* the add loop on the bit field = the insert loop on the byte vector *)
Lemma add_loop_core n : forall i tweak item bits bits' k,
  (0 < k)%nat -> length bits = (8 * k)%nat -> bits01 bits -> bytes_ok item ->
  bloom_add_loop n i (Z.of_nat k) tweak item bits = Ok bits' ->
  bit_field_bytes k bits' = core_insert_loop n i tweak item (bit_field_bytes k bits) /\
  length bits' = (8 * k)%nat /\ bits01 bits'.
Proof.
  induction n as [|n IH]; intros i tweak item bits bits' k Hk L H Hit E.
  - cbn in E. injection E as <-. cbn [core_insert_loop]. repeat split; assumption.
  - cbn [bloom_add_loop] in E.
    pose proof (bloom_index_range (Z.of_nat k) tweak item i ltac:(lia)) as Hr.
    rewrite (bloom_set_ok (Z.of_nat k) bits _ ltac:(lia) ltac:(unfold zlen; lia) Hr) in E. cbn [bind] in E.
    set (idx := Z.to_nat (bloom_index (Z.of_nat k) tweak item i)) in *.
    destruct (IH (i + 1) tweak item (set_nth idx bits) bits' k Hk) as [E1 [E2 E3]];
      [now rewrite set_nth_length | now apply set_nth_01 | assumption | exact E |].
    split; [|split; assumption].
    rewrite E1. cbn [core_insert_loop]. f_equal.
    rewrite bit_field_bytes_set by (try assumption; subst idx; lia).
    unfold zlen. rewrite bit_field_bytes_length. subst idx. rewrite Z2Nat.id by lia.
    now rewrite bloom_index_core.
Qed.

Lemma bit_field_to_bytes_wf b : bloom_wf b ->
  exists k, (0 < k)%nat /\ bf_size b = Z.of_nat k /\ length (bf_bits b) = (8 * k)%nat /\
            bit_field_to_bytes (bf_bits b) = Ok (bit_field_bytes k (bf_bits b)).
Proof.
  intros [Hs [Hl Hb]]. exists (Z.to_nat (bf_size b)). unfold zlen in Hl.
  assert (L : length (bf_bits b) = (8 * Z.to_nat (bf_size b))%nat) by lia.
  repeat split; try lia. unfold bit_field_to_bytes. rewrite L.
  rewrite (Nat.mul_comm 8), Nat.mod_mul by lia. cbn [Nat.eqb]. now rewrite Nat.div_mul by lia.
Qed.

Lemma bloom_add_core b item b' : bloom_wf b -> bytes_ok item -> bloom_add b item = Ok b' ->
  forall fb, bit_field_to_bytes (bf_bits b) = Ok fb ->
  bit_field_to_bytes (bf_bits b') = Ok (core_insert (bf_fc b) (bf_tweak b) fb item).
Proof.
  intros Hw Hit Ea fb Efb.
  destruct (bit_field_to_bytes_wf b Hw) as [k [Hk [Es [L Eb]]]]. rewrite Eb in Efb. injection Efb as <-.
  destruct Hw as [_ [_ H01]].
  unfold bloom_add in Ea. rewrite Es in Ea.
  destruct (bloom_add_loop _ 0 (Z.of_nat k) (bf_tweak b) item (bf_bits b)) as [bits'|] eqn:El; [|discriminate].
  cbn [bind] in Ea. injection Ea as <-. cbn [bf_bits].
  destruct (add_loop_core _ _ _ _ _ _ k Hk L H01 Hit El) as [E1 [E2 E3]].
  unfold bit_field_to_bytes. rewrite E2.
  rewrite (Nat.mul_comm 8), Nat.mod_mul by lia. cbn [Nat.eqb]. rewrite Nat.div_mul by lia.
  rewrite E1. f_equal. unfold core_insert.
  destruct (bit_field_bytes k (bf_bits b)) as [|x v] eqn:Ev; [|reflexivity].
  apply (f_equal (@length Z)) in Ev. rewrite bit_field_bytes_length in Ev. cbn in Ev. lia.
Qed.

(* filter_bytes() after any sequence of add() = Core's vData after the same insert()s *)
Theorem bloom_filter_bytes_core items : forall b b' fb,
  bloom_wf b -> Forall bytes_ok items -> bloom_add_list b items = Ok b' ->
  bit_field_to_bytes (bf_bits b) = Ok fb ->
  bit_field_to_bytes (bf_bits b') = Ok (fold_left (core_insert (bf_fc b) (bf_tweak b)) items fb).
Proof.
  induction items as [|it r IH]; intros b b' fb Hw Hi Ea Efb.
  - cbn in Ea. injection Ea as <-. exact Efb.
  - inversion Hi as [|? ? Hit Hr]; subst. cbn [bloom_add_list] in Ea.
    destruct (bloom_add_props b it Hw) as [b1 [E1 [W1 [S1 [F1 [T1 _]]]]]].
    rewrite E1 in Ea. cbn [bind] in Ea.
    pose proof (bloom_add_core b it b1 Hw Hit E1 fb Efb) as Eb1.
    cbn [fold_left]. pose proof (IH b1 b' _ W1 Hr Ea Eb1) as R. rewrite F1, T1 in R. exact R.
Qed.

Lemma repeatz_add x a b : repeatz x (a + b) = repeatz x a ++ repeatz x b.
Proof. induction a as [|a IH]; cbn; [reflexivity|]. now rewrite IH. Qed.

Lemma bit_field_bytes_zeros k : bit_field_bytes k (repeatz 0 (8 * k)) = repeatz 0 k.
Proof.
  induction k as [|k IH]; [reflexivity|].
  replace (8 * S k)%nat with (8 + 8 * k)%nat by lia. rewrite repeatz_add. cbn [bit_field_bytes].
  rewrite firstn_app_exact, skipn_app_exact by reflexivity. rewrite IH. reflexivity.
Qed.

Lemma bloom_new_bytes size fc tweak : 0 < size ->
  bit_field_to_bytes (bf_bits (bloom_new size fc tweak)) = Ok (repeatz 0 (Z.to_nat size)).
Proof.
  intros H. unfold bloom_new. cbn [bf_bits]. unfold bit_field_to_bytes. rewrite repeatz_length.
  replace (Z.to_nat (size * 8)) with (Z.to_nat size * 8)%nat by lia.
  rewrite Nat.mod_mul by lia. cbn [Nat.eqb]. rewrite Nat.div_mul by lia.
  rewrite (Nat.mul_comm _ 8). now rewrite bit_field_bytes_zeros.
Qed.

(* ---------------- contains on the wire bytes ---------------- *)
Lemma land_pow2_eqb a e : 0 <= e -> (Z.land a (2 ^ e) =? 0) = negb (Z.testbit a e).
Proof.
  intros He. destruct (Z.testbit a e) eqn:T; cbn [negb].
  - apply Z.eqb_neq. intros Z0. apply (f_equal (fun z => Z.testbit z e)) in Z0.
    rewrite Z.land_spec, Z.pow2_bits_eqb, Z.eqb_refl, T, Z.bits_0 in Z0 by lia. discriminate.
  - apply Z.eqb_eq. apply Z.bits_inj'. intros n Hn. rewrite Z.land_spec, Z.pow2_bits_eqb, Z.bits_0 by lia.
    destruct (e =? n) eqn:E; [apply Z.eqb_eq in E; subst n; now rewrite T|apply andb_false_r].
Qed.

Lemma core_test_testbit v idx : core_test v idx = Z.testbit (nth (Z.to_nat (idx / 8)) v 0) (idx mod 8).
Proof.
  unfold core_test. rewrite land_pow2_eqb by (apply Z.mod_pos_bound; lia). apply negb_involutive.
Qed.

Lemma contains_loop_all_set n : forall i size tweak item bits fb,
  0 < size -> zlen fb = size -> bytes_ok item ->
  (forall j, (j < length bits)%nat ->
     Z.testbit (nth (Nat.div j 8) fb 0) (Z.of_nat (Nat.modulo j 8)) = (nth j bits 0 =? 1)) ->
  zlen bits = size * 8 ->
  core_contains_loop n i tweak item fb = bloom_all_set n i size tweak item bits.
Proof.
  induction n as [|n IH]; intros i size tweak item bits fb Hs Lf Hit Hb Lb; [reflexivity|].
  cbn [core_contains_loop bloom_all_set]. rewrite (IH (i + 1) size tweak item bits fb) by assumption.
  f_equal. rewrite Lf, <- bloom_index_core by assumption.
  pose proof (bloom_index_range size tweak item i Hs) as Hr.
  set (idx := bloom_index size tweak item i) in *.
  rewrite core_test_testbit. rewrite <- (Hb (Z.to_nat idx)) by (unfold zlen in Lb; lia).
  rewrite Z2Nat.inj_div by lia. f_equal.
  rewrite Nat2Z.inj_mod, Z2Nat.id by lia. reflexivity.
Qed.

(* Core's contains() on the bytes of filter_bytes() = all function_count bits set in the bit field *)
Theorem core_contains_matches b fb item :
  bloom_wf b -> bit_field_to_bytes (bf_bits b) = Ok fb -> bytes_ok item ->
  core_contains (bf_fc b) (bf_tweak b) fb item = bloom_matches b item.
Proof.
  intros Hw Efb Hit. destruct (filter_bytes_layout b Hw) as [fb' [E [Lf [_ Hb]]]].
  rewrite Efb in E. injection E as <-. destruct Hw as [Hs [Lb _]].
  unfold core_contains, bloom_matches.
  destruct fb as [|x v] eqn:Ev; [unfold zlen in Lf; cbn in Lf; lia|]. rewrite <- Ev in *.
  now apply contains_loop_all_set.
Qed.

(* ---------------- the filterload payload ---------------- *)
Lemma read_compact_size_ok n rest : 0 <= n < 18446744073709551616 ->
  read_compact_size ((if n <? 253 then [n] else if n <=? 65535 then 253 :: to_le 2 n
                      else if n <=? 4294967295 then 254 :: to_le 4 n else 255 :: to_le 8 n) ++ rest)
  = Some (n, rest).
Proof.
  intros H. destruct (n <? 253) eqn:E1.
  - cbn [app read_compact_size]. now rewrite E1.
  - apply Z.ltb_ge in E1. destruct (n <=? 65535) eqn:E2; [|destruct (n <=? 4294967295) eqn:E3].
    + apply Z.leb_le in E2. cbn [app read_compact_size]. cbn [Z.ltb Z.compare Pos.compare Pos.compare_cont Z.eqb Pos.eqb].
      rewrite app_length, to_le_length. destruct (Nat.ltb (2 + length rest) 2) eqn:L; [apply Nat.ltb_lt in L; lia|].
      rewrite firstn_app_exact, skipn_app_exact by apply to_le_length.
      rewrite from_le_to_le; [reflexivity|rewrite pow256_2; lia].
    + apply Z.leb_gt in E2. apply Z.leb_le in E3. cbn [app read_compact_size]. cbn [Z.ltb Z.compare Pos.compare Pos.compare_cont Z.eqb Pos.eqb].
      rewrite app_length, to_le_length. destruct (Nat.ltb (4 + length rest) 4) eqn:L; [apply Nat.ltb_lt in L; lia|].
      rewrite firstn_app_exact, skipn_app_exact by apply to_le_length.
      rewrite from_le_to_le; [reflexivity|rewrite pow256_4; lia].
    + apply Z.leb_gt in E2, E3. cbn [app read_compact_size]. cbn [Z.ltb Z.compare Pos.compare Pos.compare_cont Z.eqb Pos.eqb].
      rewrite app_length, to_le_length. destruct (Nat.ltb (8 + length rest) 8) eqn:L; [apply Nat.ltb_lt in L; lia|].
      rewrite firstn_app_exact, skipn_app_exact by apply to_le_length.
      rewrite from_le_to_le; [reflexivity|rewrite pow256_8; lia].
Qed.

Lemma filterload_decode_bytes v fc tweak flag :
  zlen v < 18446744073709551616 -> 0 <= fc < 4294967296 -> 0 <= tweak < 4294967296 ->
  filterload_decode (filterload_bytes v fc tweak flag) = Some (v, fc, tweak, flag).
Proof.
  intros Hv Hf Ht. unfold filterload_decode, filterload_bytes. cbv zeta.
  rewrite read_compact_size_ok by (pose proof (zlen_nonneg v); lia).
  assert (Lr : zlen (v ++ to_le 4 fc ++ to_le 4 tweak ++ [flag]) = zlen v + 9).
  { unfold zlen. rewrite !app_length, !to_le_length. cbn [length]. lia. }
  rewrite Lr, Z.eqb_refl. unfold zlen. rewrite Nat2Z.id.
  rewrite firstn_app_exact, skipn_app_exact by reflexivity.
  rewrite firstn_app_exact by apply to_le_length.
  replace (v ++ to_le 4 fc ++ to_le 4 tweak ++ [flag]) with ((v ++ to_le 4 fc) ++ to_le 4 tweak ++ [flag])
    by now rewrite <- app_assoc.
  rewrite skipn_app_exact by (rewrite app_length, to_le_length; lia).
  rewrite firstn_app_exact by apply to_le_length.
  rewrite !from_le_to_le by (rewrite pow256_4; assumption).
  replace ((v ++ to_le 4 fc) ++ to_le 4 tweak ++ [flag]) with ((v ++ to_le 4 fc ++ to_le 4 tweak) ++ [flag])
    by now rewrite <- !app_assoc.
  rewrite app_nth2 by (rewrite !app_length, !to_le_length; lia).
  rewrite !app_length, !to_le_length. replace (length v + 8 - (length v + (4 + 4)))%nat with 0%nat by lia.
  reflexivity.
Qed.

Lemma filterload_is_bytes b flag fb :
  bloom_wf b -> bf_size b < 18446744073709551616 -> 0 <= bf_fc b < 4294967296 ->
  0 <= bf_tweak b < 4294967296 -> 0 <= flag < 256 ->
  bit_field_to_bytes (bf_bits b) = Ok fb ->
  filterload b flag = Ok (filterload_bytes fb (bf_fc b) (bf_tweak b) flag).
Proof.
  intros Hw Hs Hf Ht Hfl Efb.
  destruct (filterload_layout b flag Hw Hs Hf Ht Hfl) as [sz [fb' [Esz [Efb' El]]]].
  rewrite Efb in Efb'. injection Efb' as <-. rewrite El. f_equal. unfold filterload_bytes.
  destruct (filter_bytes_layout b Hw) as [fb' [E [Lf _]]]. rewrite Efb in E. injection E as <-.
  rewrite Lf. destruct Hw as [Hp _]. f_equal.
  unfold encode_varint in Esz.
  destruct (bf_size b <? 0) eqn:E0; [apply Z.ltb_lt in E0; lia|].
  destruct (bf_size b <? 253) eqn:E1; [now injection Esz as <-|].
  destruct (bf_size b <? 65536) eqn:E2.
  { destruct (bf_size b <=? 65535) eqn:E2'; [now injection Esz as <-|apply Z.ltb_lt in E2; apply Z.leb_gt in E2'; lia]. }
  destruct (bf_size b <=? 65535) eqn:E2'; [apply Z.ltb_ge in E2; apply Z.leb_le in E2'; lia|].
  destruct (bf_size b <? 4294967296) eqn:E3.
  { destruct (bf_size b <=? 4294967295) eqn:E3'; [now injection Esz as <-|apply Z.ltb_lt in E3; apply Z.leb_gt in E3'; lia]. }
  destruct (bf_size b <=? 4294967295) eqn:E3'; [apply Z.ltb_ge in E3; apply Z.leb_le in E3'; lia|].
  destruct (bf_size b <? 18446744073709551616) eqn:E4; [now injection Esz as <-|discriminate].
Qed.

(* what the remote peer sees: it decodes the filterload payload of BloomFilter(size, fc, tweak) after
   add(items) into exactly Core's vData / nHashFuncs / nTweak / nFlags, and contains() holds for every item *)
Theorem bloom_wire_no_false_negative size fc tweak items flag :
  0 < size < 18446744073709551616 -> 0 <= fc < 4294967296 -> 0 <= tweak < 4294967296 -> 0 <= flag < 256 ->
  Forall bytes_ok items ->
  exists b payload v,
    bloom_add_list (bloom_new size fc tweak) items = Ok b /\
    filterload b flag = Ok payload /\
    v = fold_left (core_insert fc tweak) items (repeatz 0 (Z.to_nat size)) /\
    payload = filterload_bytes v fc tweak flag /\
    filterload_decode payload = Some (v, fc, tweak, flag) /\
    zlen v = size /\
    forall it, In it items -> core_contains fc tweak v it = true.
Proof.
  intros Hs Hf Ht Hfl Hi.
  destruct (bloom_new_wf size fc tweak ltac:(lia)) as [L B].
  assert (W0 : bloom_wf (bloom_new size fc tweak)) by (split; [cbn; lia|split; assumption]).
  destruct (bloom_add_list_props items _ W0) as [b [Ea [W [S [F [T [_ A]]]]]]].
  cbn [bloom_new bf_size bf_fc bf_tweak] in S, F, T.
  pose proof (bloom_filter_bytes_core items _ b _ W0 Hi Ea (bloom_new_bytes size fc tweak ltac:(lia))) as Eb.
  cbn [bloom_new bf_fc bf_tweak] in Eb.
  set (v := fold_left (core_insert fc tweak) items (repeatz 0 (Z.to_nat size))) in *.
  pose proof (filterload_is_bytes b flag v W ltac:(lia) ltac:(lia) ltac:(lia) Hfl Eb) as El.
  rewrite F, T in El.
  destruct (filter_bytes_layout b W) as [fb' [E [Lf _]]]. rewrite Eb in E. injection E as <-.
  exists b, (filterload_bytes v fc tweak flag), v.
  split; [exact Ea|]. split; [exact El|]. split; [reflexivity|]. split; [reflexivity|].
  split; [apply filterload_decode_bytes; lia|]. split; [lia|].
  intros it Hin. rewrite Forall_forall in Hi.
  rewrite <- F, <- T. rewrite (core_contains_matches b v it W Eb (Hi it Hin)). now apply A.
Qed.

(* the size / function-count limits a BIP37 peer enforces, on the payload the library sends *)
Theorem filterload_acceptable_bytes v fc tweak flag :
  zlen v < 18446744073709551616 -> 0 <= fc < 4294967296 -> 0 <= tweak < 4294967296 ->
  filterload_acceptable (filterload_bytes v fc tweak flag) =
  (zlen v <=? MAX_BLOOM_FILTER_SIZE) && (fc <=? MAX_HASH_FUNCS).
Proof.
  intros Hv Hf Ht. unfold filterload_acceptable. now rewrite filterload_decode_bytes.
Qed.
