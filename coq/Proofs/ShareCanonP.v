(* Proofs/ShareCanonP.v — C15, the converse share codec round trip: an index list of 20 or
   33 words that Share.parse accepts is exactly the list Share.mnemonic produces for the
   parsed share (so parsing is injective on the two standard lengths), the RS1024 checksum
   words are determined by the data words, and the text-level corollary over the shipped
   list.  At 21 words the converse fails: a concrete 21-word list parses to the same share
   as a 20-word list (share_parse_noncanonical_21). *)
From V Require Import Base.Prelude Base.Ints Model.Mnemonic Model.Shamir Generated.Wordlists
  Proofs.BitsP Proofs.MnemonicP Proofs.WordlistP Proofs.Rs1024P Proofs.ShareCodecP Proofs.C15Glue
  Proofs.C14Glue.

Local Open Scope Z_scope.

(* ---------------------------------------------------------------- checksum words are unique *)

Lemma run0_three c0 c1 c2 : 0 <= c0 < 1024 -> 0 <= c1 < 1024 -> 0 <= c2 < 1024 ->
  rs_run 0 [c0; c1; c2] = (c0 * 1024 + c1) * 1024 + c2.
Proof.
  intros H0 H1 H2. rewrite !rs_run_cons. unfold rs_run. cbn [fold_left].
  change 1024 with (2 ^ 10) in H0, H1, H2.
  rewrite (rs_step_small 0 c0) by lia.
  rewrite (rs_step_small _ c1) by (change (2 ^ 20) with 1048576; change (2 ^ 10) with 1024 in *; lia).
  rewrite (rs_step_small _ c2) by (change (2 ^ 20) with 1048576; change (2 ^ 10) with 1024 in *; lia).
  lia.
Qed.

Theorem rs1024_checksum_unique : forall cs data c0 c1 c2,
  Forall (fun v => 0 <= v < 1024) (cs ++ data) ->
  0 <= c0 < 1024 -> 0 <= c1 < 1024 -> 0 <= c2 < 1024 ->
  rs1024_verify_checksum cs (data ++ [c0; c1; c2]) = true ->
  rs1024_create_checksum cs data = [c0; c1; c2].
Proof.
  intros cs data c0 c1 c2 H H0 H1 H2 V. unfold rs1024_verify_checksum in V. apply Z.eqb_eq in V.
  rewrite rs1024_polymod_run, app_assoc, rs_run_app in V.
  unfold rs1024_create_checksum. rewrite rs1024_polymod_run, rs_run_app.
  set (s := rs_run 1 (cs ++ data)) in *.
  assert (Hs : 0 <= s < 2 ^ 30) by (apply rs_run_bound; [exact H | lia]).
  set (P := rs_run s [0; 0; 0]).
  rewrite rs_run_split in V. cbn [length repeat] in V. fold P in V.
  rewrite (run0_three c0 c1 c2 H0 H1 H2) in V.
  set (q := (c0 * 1024 + c1) * 1024 + c2) in *.
  assert (E : Z.lxor P 1 = q).
  { rewrite <- V. rewrite <- Z.lxor_assoc, Z.lxor_nilpotent. apply Z.lxor_0_l. }
  rewrite E. change 1023 with (2 ^ 10 - 1). rewrite !land_mask by lia. rewrite !shr_div by lia.
  change (2 ^ 20) with (1024 * 1024). change (2 ^ 10) with 1024. change (2 ^ 0) with 1.
  unfold q. f_equal; [|f_equal; [|f_equal]]; Z.div_mod_to_equations; lia.
Qed.

(* ---------------------------------------------------------------- base-1024 digits, inverse *)

Fixpoint dval (l : list Z) : Z :=
  match l with [] => 0 | x :: r => x * 1024 ^ Z.of_nat (length r) + dval r end.

Lemma fold_dval l : Forall (fun i => 0 <= i < 1024) l -> forall acc,
  fold_left (fun v i => Z.lor (Z.shiftl v 10) i) l acc = acc * 1024 ^ Z.of_nat (length l) + dval l.
Proof.
  induction 1 as [|x l Hx Hl IH]; intros acc.
  - cbn [fold_left length dval]. change (1024 ^ Z.of_nat 0) with 1. lia.
  - cbn [fold_left dval]. rewrite lor_shiftl_add by (lia || (change (2 ^ 10) with 1024; lia)).
    rewrite IH. cbn [length]. rewrite Nat2Z.inj_succ, Z.pow_succ_r by lia.
    change (2 ^ 10) with 1024. ring.
Qed.

Lemma dval_bound l : Forall (fun i => 0 <= i < 1024) l -> 0 <= dval l < 1024 ^ Z.of_nat (length l).
Proof.
  induction 1 as [|x l Hx Hl IH]; cbn [dval length].
  - change (1024 ^ Z.of_nat 0) with 1. lia.
  - rewrite Nat2Z.inj_succ, Z.pow_succ_r by lia. pose proof (pow1024_pos (length l)). nia.
Qed.

Lemma digs_shift n : forall a b, digs n (b * 1024 ^ Z.of_nat n + a) = digs n a.
Proof.
  induction n as [|n IH]; intros a b; [reflexivity|].
  cbn [digs]. pose proof (pow1024_pos n) as P.
  rewrite Nat2Z.inj_succ, Z.pow_succ_r by lia.
  replace (b * (1024 * 1024 ^ Z.of_nat n) + a) with (b * 1024 * 1024 ^ Z.of_nat n + a) by ring.
  f_equal; [|apply IH].
  rewrite Z.div_add_l by lia. rewrite Z.add_comm. apply Z_mod_plus_full.
Qed.

Lemma digs_dval l : Forall (fun i => 0 <= i < 1024) l -> digs (length l) (dval l) = l.
Proof.
  induction 1 as [|x l Hx Hl IH]; [reflexivity|].
  cbn [length digs dval]. pose proof (pow1024_pos (length l)) as P.
  pose proof (dval_bound l Hl) as B. f_equal.
  - rewrite Z.div_add_l by lia. rewrite (Z.div_small (dval l)) by exact B.
    rewrite Z.add_0_r. apply Z.mod_small. exact Hx.
  - rewrite digs_shift. exact IH.
Qed.

(* ---------------------------------------------------------------- the header words *)

Lemma header_of_words i0 i1 i2 i3 :
  0 <= i0 < 1024 -> 0 <= i1 < 1024 -> 0 <= i2 < 1024 -> 0 <= i3 < 1024 ->
  header (Z.lor (Z.shiftl i0 5) (Z.shiftr i1 5)) (Z.land i1 31) (Z.shiftr i2 6)
         (Z.land (Z.shiftr i2 2) 15 + 1) (Z.lor (Z.shiftl (Z.land i2 3) 2) (Z.shiftr i3 8) + 1)
         (Z.land (Z.shiftr i3 4) 15) (Z.land i3 15 + 1)
  = ((i0 * 1024 + i1) * 1024 + i2) * 1024 + i3.
Proof.
  intros H0 H1 H2 H3.
  change 31 with (2 ^ 5 - 1). change 15 with (2 ^ 4 - 1). change 3 with (2 ^ 2 - 1).
  rewrite !land_mask by lia. rewrite !shr_div by lia.
  rewrite (lor_shiftl_add i0) by (lia || (change (2 ^ 5) with 32; Z.div_mod_to_equations; lia)).
  rewrite (lor_shiftl_add (i2 mod 2 ^ 2)) by (lia || (change (2 ^ 2) with 4; change (2 ^ 8) with 256; Z.div_mod_to_equations; lia)).
  unfold header.
  change (2 ^ 5) with 32. change (2 ^ 4) with 16. change (2 ^ 2) with 4. change (2 ^ 6) with 64.
  change (2 ^ 8) with 256.
  Z.div_mod_to_equations. lia.
Qed.

Lemma fields_ranges i0 i1 :
  0 <= i0 < 1024 -> 0 <= i1 < 1024 ->
  0 <= Z.lor (Z.shiftl i0 5) (Z.shiftr i1 5) < 32768 /\ 0 <= Z.land i1 31 < 32.
Proof.
  intros H0 H1. change 31 with (2 ^ 5 - 1). rewrite land_mask by lia. rewrite shr_div by lia.
  rewrite lor_shiftl_add by (lia || (change (2 ^ 5) with 32; Z.div_mod_to_equations; lia)).
  change (2 ^ 5) with 32. split; Z.div_mod_to_equations; lia.
Qed.

(* ---------------------------------------------------------------- the converse round trip *)

Lemma mk_share_fields bits id e gi gt gc mi mt value s :
  mk_share bits id e gi gt gc mi mt value = Ok s ->
  sh_bits s = bits /\ sh_id s = id /\ sh_exp s = e /\ sh_gi s = gi /\ sh_gt s = gt /\
  sh_gc s = gc /\ sh_mi s = mi /\ sh_mt s = mt /\ sh_value s = value.
Proof.
  unfold mk_share.
  destruct ((gi <? 0) || (gi >? 15)); [discriminate|].
  destruct ((gt <? 1) || (gt >? gc)); [discriminate|].
  destruct ((gc <? 1) || (gc >? 16)); [discriminate|].
  destruct ((mi <? 0) || (mi >? 15)); [discriminate|].
  destruct ((mt <? 1) || (mt >? 16)); [discriminate|].
  destruct (bits / 8 <? 0); [discriminate|].
  destruct (int_to_be value (Z.to_nat (bits / 8))) as [b|]; cbn [bind]; [|discriminate].
  intros H. apply Ok_inj in H. subst s. cbn. repeat split.
Qed.

(* ---- arithmetic of lengths and padding ---- *)
Lemma pad_arith w bits : 0 <= w -> bits = w * 10 / 16 * 16 -> w * 10 - bits <= 8 ->
  (- bits) mod 10 + bits = 10 * w.
Proof.
  intros Hw Hb P8.
  pose proof (Z.div_mod (w * 10) 16 ltac:(lia)) as D.
  pose proof (Z.mod_pos_bound (w * 10) 16 ltac:(lia)) as R.
  set (q := w * 10 / 16) in *. set (r := (w * 10) mod 16) in *.
  assert (M : (- bits) mod 10 = r).
  { replace (- bits) with (r + (- w) * 10) by lia. rewrite Z_mod_plus_full. apply Z.mod_small. lia. }
  lia.
Qed.

(* a multiple of 16 needs 0, 2, 4, 6 or 8 padding bits to reach a multiple of 10 *)
Lemma pad_le8 bits : bits mod 16 = 0 -> 0 <= (- bits) mod 10 <= 8.
Proof.
  intros H16. pose proof (Z.div_mod bits 16 ltac:(lia)) as D16. rewrite H16 in D16.
  pose proof (Z.div_mod (- bits) 10 ltac:(lia)) as D10.
  pose proof (Z.mod_pos_bound (- bits) 10 ltac:(lia)) as R.
  set (j := bits / 16) in *. set (q := - bits / 10) in *. set (r := (- bits) mod 10) in *. lia.
Qed.

Lemma bits_of_words bits w : bits mod 16 = 0 -> (- bits) mod 10 + bits = 10 * w ->
  w * 10 / 16 * 16 = bits /\ w * 10 - bits <= 8.
Proof.
  intros H16 Hw. pose proof (pad_le8 bits H16) as P.
  pose proof (Z.div_mod bits 16 ltac:(lia)) as D16. rewrite H16 in D16.
  set (r := (- bits) mod 10) in *. set (j := bits / 16) in *.
  split; [|lia].
  replace (w * 10) with (r + j * 16) by lia. rewrite Z.div_add by lia. rewrite Z.div_small by lia. lia.
Qed.

Lemma words_of_bits bits : 0 <= bits ->
  (- bits) mod 10 + bits = 10 * Z.of_nat (Z.to_nat (((- bits) mod 10 + bits) / 10)).
Proof.
  intros Hb. pose proof (Z.div_mod (- bits) 10 ltac:(lia)) as D10.
  pose proof (Z.mod_pos_bound (- bits) 10 ltac:(lia)) as R.
  set (q := - bits / 10) in *. set (r := (- bits) mod 10) in *.
  replace (r + bits) with ((- q) * 10) by lia. rewrite Z.div_mul by lia. lia.
Qed.

Lemma len_arith L : 128 <= (L - 7) * 10 / 16 * 16 -> 20 <= L.
Proof. intros H. pose proof (Z.div_mod ((L-7)*10) 16 ltac:(lia)). pose proof (Z.mod_pos_bound ((L-7)*10) 16 ltac:(lia)). lia. Qed.
Lemma pad_mod w bits : 0 <= w -> bits = w * 10 / 16 * 16 -> w * 10 - bits = (w * 10) mod 16.
Proof. intros Hw ->. pose proof (Z.div_mod (w * 10) 16 ltac:(lia)). lia. Qed.

(* what an accepted list of 4 + nv + 3 words looks like: the base-1024 digits of
   header * 1024^nv + value followed by their checksum, and the ranges the checks enforce *)
Lemma parse_digits idx s nv :
  length idx = (4 + nv + 3)%nat -> Forall (fun i => 0 <= i < 1024) idx ->
  share_of_indices idx = Ok s ->
  let a := header (sh_id s) (sh_exp s) (sh_gi s) (sh_gt s) (sh_gc s) (sh_mi s) (sh_mt s)
           * 1024 ^ Z.of_nat nv + sh_value s in
  idx = digs (4 + nv) a ++ rs1024_create_checksum s_shamir (digs (4 + nv) a) /\
  sh_bits s = Z.of_nat nv * 10 / 16 * 16 /\ 128 <= sh_bits s /\
  Z.of_nat nv * 10 - sh_bits s <= 8 /\ 0 <= sh_value s < 2 ^ sh_bits s /\
  0 <= sh_id s < 32768 /\ 0 <= sh_exp s < 32 /\ 0 <= sh_gi s <= 15 /\ 1 <= sh_gt s <= sh_gc s /\
  sh_gc s <= 16 /\ 0 <= sh_mi s <= 15 /\ 1 <= sh_mt s <= 16.
Proof.
  intros Hlen Hr Hp.
  pose proof (verify_of_parse idx s Hp) as Hver.
  destruct idx as [|i0 [|i1 [|i2 [|i3 rest]]]]; cbn [length] in Hlen; try lia.
  assert (Lrest : length rest = (nv + 3)%nat) by lia.
  destruct (skipn nv rest) as [|c0 [|c1 [|c2 [|c3 more]]]] eqn:Sk;
    try (pose proof (skipn_length nv rest) as SL; rewrite Sk in SL; cbn [length] in SL; lia).
  set (body := firstn nv rest).
  assert (Lbody : length body = nv) by (unfold body; rewrite firstn_length; lia).
  assert (Erest : rest = body ++ [c0; c1; c2]).
  { unfold body. rewrite <- Sk. symmetry. apply firstn_skipn. }
  apply Forall_cons_iff in Hr as [R0 Hr]. apply Forall_cons_iff in Hr as [R1 Hr].
  apply Forall_cons_iff in Hr as [R2 Hr]. apply Forall_cons_iff in Hr as [R3 Hr4].
  assert (Rbody : Forall (fun i => 0 <= i < 1024) body).
  { rewrite Erest in Hr4. apply Forall_app in Hr4. exact (proj1 Hr4). }
  assert (Rc : 0 <= c0 < 1024 /\ 0 <= c1 < 1024 /\ 0 <= c2 < 1024).
  { rewrite Erest in Hr4. apply Forall_app in Hr4. destruct Hr4 as [_ Hc].
    apply Forall_cons_iff in Hc as [C0 Hc]. apply Forall_cons_iff in Hc as [C1 Hc].
    apply Forall_cons_iff in Hc as [C2 _]. auto. }
  destruct Rc as (C0 & C1 & C2).
  unfold share_of_indices in Hp. rewrite Hver in Hp. cbn [negb] in Hp.
  unfold nth_idx in Hp. cbn [nth_error bind skipn] in Hp.
  assert (L7 : (length (i0 :: i1 :: i2 :: i3 :: rest) - 7)%nat = nv) by (cbn [length]; lia).
  rewrite L7 in Hp. fold body in Hp.
  assert (ZL : zlen (i0 :: i1 :: i2 :: i3 :: rest) - 7 = Z.of_nat nv).
  { unfold zlen. cbn [length]. lia. }
  rewrite ZL in Hp.
  set (bits := Z.of_nat nv * 10 / 16 * 16) in *.
  destruct (Z.ltb_spec bits 0) as [Bneg|Bneg]; [discriminate|].
  rewrite (fold_dval body Rbody 0) in Hp. rewrite Z.mul_0_l, Z.add_0_l in Hp.
  destruct (Z.eqb_spec (Z.shiftr (dval body) bits) 0) as [Epad|Epad]; cbn [negb] in Hp; [|discriminate].
  destruct (Z.gtb_spec (Z.of_nat nv * 10 - bits) 8) as [Gp|Gp]; [discriminate|].
  destruct (Z.ltb_spec bits 128) as [B128|B128]; [discriminate|].
  destruct (fields_ranges i0 i1 R0 R1) as [Rid Re].
  destruct (mk_share_fields _ _ _ _ _ _ _ _ _ s Hp) as (F0 & F1 & F2 & F3 & F4 & F5 & F6 & F7 & F8).
  pose proof (dval_bound body Rbody) as Bv. rewrite Lbody in Bv.
  pose proof (pow1024_pos nv) as Ppos.
  assert (Vb : 0 <= dval body < 2 ^ bits).
  { split; [lia|]. rewrite shr_div in Epad by lia.
    pose proof (pow2_pos bits Bneg) as P2.
    apply Z.div_small_iff in Epad; [|lia]. destruct Epad as [E|E]; lia. }
  (* the ranges enforced by Share.__init__ *)
  assert (Rg : 0 <= sh_gi s <= 15 /\ 1 <= sh_gt s <= sh_gc s /\ sh_gc s <= 16 /\
               0 <= sh_mi s <= 15 /\ 1 <= sh_mt s <= 16).
  { rewrite F3, F4, F5, F6, F7. unfold mk_share in Hp.
    destruct ((_ <? 0) || (_ >? 15)) eqn:E1 in Hp; [discriminate|].
    destruct ((_ <? 1) || (_ >? _)) eqn:E2 in Hp; [discriminate|].
    destruct ((_ <? 1) || (_ >? 16)) eqn:E3 in Hp; [discriminate|].
    destruct ((_ <? 0) || (_ >? 15)) eqn:E4 in Hp; [discriminate|].
    destruct ((_ <? 1) || (_ >? 16)) eqn:E5 in Hp; [discriminate|].
    apply orb_false_iff in E1, E2, E3, E4, E5. lia. }
  rewrite F0, F1, F2, F3, F4, F5, F6, F7, F8 in *. cbv zeta.
  split; [|repeat split; try lia; try (apply Rid); try (apply Re); apply Rg].
  rewrite (header_of_words i0 i1 i2 i3 R0 R1 R2 R3).
  set (h := ((i0 * 1024 + i1) * 1024 + i2) * 1024 + i3).
  assert (D : digs (4 + nv) (h * 1024 ^ Z.of_nat nv + dval body) = i0 :: i1 :: i2 :: i3 :: body).
  { rewrite (digs_app 4 nv). rewrite Z.div_add_l by lia. rewrite (Z.div_small (dval body)) by exact Bv.
    rewrite Z.add_0_r. rewrite digs_shift. rewrite <- Lbody at 1. rewrite (digs_dval body Rbody).
    rewrite digs_4. unfold h. cbn [app].
    change (1024 ^ 3) with (1024 * 1024 * 1024). change (1024 ^ 2) with (1024 * 1024).
    change (1024 ^ 1) with 1024. change (1024 ^ 0) with 1.
    f_equal; [|f_equal; [|f_equal; [|f_equal]]]; Z.div_mod_to_equations; lia. }
  rewrite D. rewrite Erest.
  change (i0 :: i1 :: i2 :: i3 :: body ++ [c0; c1; c2]) with ((i0 :: i1 :: i2 :: i3 :: body) ++ [c0; c1; c2]).
  f_equal. symmetry. apply rs1024_checksum_unique; try assumption.
  - apply Forall_app. split; [apply s_shamir_bound|]. repeat (constructor; [assumption|]). exact Rbody.
  - rewrite Erest in Hver. exact Hver.
Qed.

Lemma accepted_length idx s : share_of_indices idx = Ok s -> (20 <= length idx)%nat.
Proof.
  intros Hp. pose proof (verify_of_parse idx s Hp) as Hver.
  unfold share_of_indices in Hp. rewrite Hver in Hp. cbn [negb] in Hp.
  destruct (nth_idx idx 0); cbn [bind] in Hp; [|discriminate].
  destruct (nth_idx idx 1); cbn [bind] in Hp; [|discriminate].
  destruct (nth_idx idx 2); cbn [bind] in Hp; [|discriminate].
  destruct (nth_idx idx 3); cbn [bind] in Hp; [|discriminate].
  cbv zeta in Hp.
  destruct (_ <? 0) in Hp; [discriminate|]. destruct (negb _) in Hp; [discriminate|].
  destruct (_ >? 8) in Hp; [discriminate|].
  destruct (Z.ltb_spec ((zlen idx - 7) * 10 / 16 * 16) 128) as [B|B]; [discriminate|].
  apply len_arith in B. unfold zlen in B. lia.
Qed.

(* Share.mnemonic as digits, for every share whose padding 10 - bits mod 10 fills nv words *)
Lemma share_indices_digs_gen s nv :
  0 <= sh_id s < 32768 -> 0 <= sh_exp s < 32 -> 0 <= sh_gi s <= 15 -> 1 <= sh_gt s <= sh_gc s ->
  sh_gc s <= 16 -> 0 <= sh_mi s <= 15 -> 1 <= sh_mt s <= 16 ->
  0 <= sh_bits s -> 0 <= sh_value s < 2 ^ sh_bits s ->
  (- sh_bits s) mod 10 + sh_bits s = 10 * Z.of_nat nv ->
  let a := header (sh_id s) (sh_exp s) (sh_gi s) (sh_gt s) (sh_gc s) (sh_mi s) (sh_mt s)
           * 1024 ^ Z.of_nat nv + sh_value s in
  share_indices s = digs (4 + nv) a ++ rs1024_create_checksum s_shamir (digs (4 + nv) a).
Proof.
  destruct s as [bits id e gi gt gc mi mt value b]. cbn [sh_bits sh_id sh_exp
    sh_gi sh_gt sh_gc sh_mi sh_mt sh_value sh_bytes].
  intros Hid He Hgi Hgt Hgc Hmi Hmt Hb0 Hv Hpb. cbv zeta.
  unfold share_indices. cbv zeta. cbn [sh_bits sh_id sh_exp
    sh_gi sh_gt sh_gc sh_mi sh_mt sh_value sh_bytes].
  rewrite Hpb. rewrite (Z.mul_comm 10 (Z.of_nat nv)), Z.div_mul by lia.
  rewrite words_digs by lia.
  replace (Z.to_nat (4 + Z.of_nat nv)) with (4 + nv)%nat by lia.
  rewrite header_lor by assumption.
  assert (Hv' : 0 <= value < 2 ^ (Z.of_nat nv * 10)).
  { split; [lia|]. apply Z.lt_le_trans with (2 ^ bits); [lia|].
    apply Z.pow_le_mono_r; [lia|]. pose proof (Z.mod_pos_bound (- bits) 10 ltac:(lia)). lia. }
  rewrite lor_shiftl_add by (lia || exact Hv').
  rewrite (Z.mul_comm (Z.of_nat nv) 10), Z.pow_mul_r by lia. change (2 ^ 10) with 1024.
  reflexivity.
Qed.

(* THE CONVERSE ROUND TRIP FOR EVERY ACCEPTED LENGTH: the accepted list is the encoding of the
   parsed share (accepted lengths: share_parse_lengths) *)
Theorem share_parse_canonical_all : forall idx s,
  Forall (fun i => 0 <= i < 1024) idx -> share_of_indices idx = Ok s -> share_indices s = idx.
Proof.
  intros idx s Hr Hp.
  pose proof (accepted_length idx s Hp) as L7.
  set (nv := (length idx - 7)%nat).
  assert (Hlen : length idx = (4 + nv + 3)%nat) by (unfold nv; lia).
  destruct (parse_digits idx s nv Hlen Hr Hp)
    as (E & Hb & B128 & P8 & Hv & Hid & He & Hgi & Hgt & Hgc & Hmi & Hmt).
  cbv zeta in E.
  rewrite (share_indices_digs_gen s nv Hid He Hgi Hgt Hgc Hmi Hmt ltac:(lia) Hv).
  - cbv zeta. symmetry. exact E.
  - apply pad_arith; [lia | exact Hb | exact P8].
Qed.

(* which lengths Share.parse accepts at all: at least 20 words, and the number w of value words
   leaves at most 8 padding bits, (10 w) mod 16 <= 8 — i.e. w mod 8 is 0, 2, 4, 5 or 7:
   20, 22, 23, 25, 27, 28, 30, 31, 33, ... words *)
Theorem share_parse_lengths : forall idx s,
  Forall (fun i => 0 <= i < 1024) idx -> share_of_indices idx = Ok s ->
  20 <= zlen idx /\ ((zlen idx - 7) * 10) mod 16 <= 8 /\
  sh_bits s = (zlen idx - 7) * 10 / 16 * 16.
Proof.
  intros idx s Hr Hp.
  pose proof (accepted_length idx s Hp) as L7.
  set (nv := (length idx - 7)%nat).
  assert (Hlen : length idx = (4 + nv + 3)%nat) by (unfold nv; lia).
  destruct (parse_digits idx s nv Hlen Hr Hp) as (_ & Hb & B128 & P8 & _).
  assert (Znv : zlen idx - 7 = Z.of_nat nv) by (unfold zlen, nv; lia).
  rewrite Znv. split; [lia|]. split; [|exact Hb].
  rewrite <- (pad_mod (Z.of_nat nv) (sh_bits s) ltac:(lia) Hb). exact P8.
Qed.

(* an accepted 20- or 33-word index list is the canonical encoding of the parsed share *)
Theorem share_parse_canonical : forall idx s,
  (length idx = 20 \/ length idx = 33)%nat -> Forall (fun i => 0 <= i < 1024) idx ->
  share_of_indices idx = Ok s -> share_wf s /\ share_indices s = idx.
Proof.
  intros idx s L Hr Hp.
  split; [|exact (share_parse_canonical_all idx s Hr Hp)].
  set (nv := (length idx - 7)%nat).
  assert (Hlen : length idx = (4 + nv + 3)%nat) by (unfold nv; lia).
  destruct (parse_digits idx s nv Hlen Hr Hp)
    as (_ & Hb & _ & _ & Hv & Hid & He & Hgi & Hgt & Hgc & Hmi & Hmt).
  assert (Hbits : sh_bits s = 128 \/ sh_bits s = 256).
  { rewrite Hb. unfold nv. destruct L as [-> | ->]; [left | right]; reflexivity. }
  unfold share_wf. repeat split; try lia; try exact Hbits.
  (* sh_bytes: from mk_share *)
  pose proof (verify_of_parse idx s Hp) as Hver.
  unfold share_of_indices in Hp. rewrite Hver in Hp. cbn [negb] in Hp.
  destruct (nth_idx idx 0); cbn [bind] in Hp; [|discriminate].
  destruct (nth_idx idx 1); cbn [bind] in Hp; [|discriminate].
  destruct (nth_idx idx 2); cbn [bind] in Hp; [|discriminate].
  destruct (nth_idx idx 3); cbn [bind] in Hp; [|discriminate].
  cbv zeta in Hp.
  destruct (_ <? 0) in Hp; [discriminate|]. destruct (negb _) in Hp; [discriminate|].
  destruct (_ >? 8) in Hp; [discriminate|]. destruct (_ <? 128) in Hp; [discriminate|].
  unfold mk_share in Hp.
  repeat (destruct (_ || _) in Hp; [discriminate|]).
  destruct (_ <? 0) in Hp; [discriminate|].
  destruct (int_to_be _ _) as [b|] eqn:Eb in Hp; cbn [bind] in Hp; [|discriminate].
  apply Ok_inj in Hp. subst s. cbn [sh_bytes sh_bits sh_value] in *.
  apply int_to_be_inv in Eb as [_ ->]. reflexivity.
Qed.

(* hence two different standard-length index lists never parse to the same share *)
Theorem share_parse_injective : forall idx1 idx2 s,
  (length idx1 = 20 \/ length idx1 = 33)%nat -> (length idx2 = 20 \/ length idx2 = 33)%nat ->
  Forall (fun i => 0 <= i < 1024) idx1 -> Forall (fun i => 0 <= i < 1024) idx2 ->
  share_of_indices idx1 = Ok s -> share_of_indices idx2 = Ok s -> idx1 = idx2.
Proof.
  intros idx1 idx2 s L1 L2 R1 R2 P1 P2.
  destruct (share_parse_canonical idx1 s L1 R1 P1) as [_ <-].
  destruct (share_parse_canonical idx2 s L2 R2 P2) as [_ E]. exact E.
Qed.

(* ... and for EVERY accepted length (empty padding included): Share.parse is injective *)
Theorem share_parse_injective_all : forall idx1 idx2 s,
  Forall (fun i => 0 <= i < 1024) idx1 -> Forall (fun i => 0 <= i < 1024) idx2 ->
  share_of_indices idx1 = Ok s -> share_of_indices idx2 = Ok s -> idx1 = idx2.
Proof.
  intros idx1 idx2 s R1 R2 P1 P2.
  pose proof (accepted_length idx1 s P1) as A1. pose proof (accepted_length idx2 s P2) as A2.
  set (n1 := (length idx1 - 7)%nat). set (n2 := (length idx2 - 7)%nat).
  assert (H1 : length idx1 = (4 + n1 + 3)%nat) by (unfold n1; lia).
  assert (H2 : length idx2 = (4 + n2 + 3)%nat) by (unfold n2; lia).
  destruct (parse_digits idx1 s n1 H1 R1 P1) as (E1 & B1 & _ & Q1 & _).
  destruct (parse_digits idx2 s n2 H2 R2 P2) as (E2 & B2 & _ & Q2 & _).
  assert (N : n1 = n2).
  { pose proof (pad_mod (Z.of_nat n1) (sh_bits s) ltac:(lia) B1) as M1.
    pose proof (pad_mod (Z.of_nat n2) (sh_bits s) ltac:(lia) B2) as M2.
    pose proof (Z.mod_pos_bound (Z.of_nat n1 * 10) 16 ltac:(lia)).
    pose proof (Z.mod_pos_bound (Z.of_nat n2 * 10) 16 ltac:(lia)). lia. }
  cbv zeta in E1, E2. rewrite E1, E2, N. reflexivity.
Qed.

(* text level, shipped word list: a 20- or 33-word text accepted by Share.parse is re-encoded
   by Share.mnemonic to a text whose words denote the same list positions (the full-word,
   single-space spelling), and that text parses to the same share again *)
Theorem share_text_canonical_all : forall m s,
  share_parse slip39_words m = Ok s ->
  exists m', share_mnemonic slip39_words s = Ok m' /\
             mapM (wl_index slip39_words) (split_ws m') = mapM (wl_index slip39_words) (split_ws m) /\
             share_parse slip39_words m' = Ok s.
Proof.
  intros m s Hp. unfold share_parse in Hp.
  destruct (mapM (wl_index slip39_words) (split_ws m)) as [idx|] eqn:M; cbn [bind] in Hp; [|discriminate].
  assert (Hr : Forall (fun i => 0 <= i < 1024) idx).
  { apply mapM_inv in M. eapply Forall2_right; [|exact M]. intros w i H. cbv beta in H.
    destruct (wl_index_sound _ _ _ H) as [R _]. destruct slip39_good as [Z _]. rewrite Z in R. exact R. }
  assert (E : share_indices s = idx) by exact (share_parse_canonical_all idx s Hr Hp).
  rewrite <- E in Hr.
  destruct (words_roundtrip slip39_words 1024 (share_indices s) slip39_good Hr) as [l [E1 [E2 E3]]].
  exists (join_sp l). unfold share_mnemonic, share_parse. rewrite E1. cbn [bind].
  split; [reflexivity|]. rewrite E2, E3. cbn [bind]. split; [now rewrite E|].
  rewrite E. exact Hp.
Qed.

Theorem share_text_canonical : forall m s,
  (length (split_ws m) = 20 \/ length (split_ws m) = 33)%nat ->
  share_parse slip39_words m = Ok s ->
  exists m', share_mnemonic slip39_words s = Ok m' /\
             mapM (wl_index slip39_words) (split_ws m') = mapM (wl_index slip39_words) (split_ws m) /\
             share_parse slip39_words m' = Ok s.
Proof.
  intros m s _. apply share_text_canonical_all.
Qed.

(* ---------------------------------------------------------------- the lengths outside *)

Definition idx21 : list Z :=
  [38; 577; 0; 0; 0; 1; 141; 86; 482; 427; 823; 752; 72; 837; 414; 154; 755; 495; 350; 791; 577].
Definition idx20 : list Z :=
  [38; 577; 0; 0; 1; 141; 86; 482; 427; 823; 752; 72; 837; 414; 154; 755; 495; 645; 54; 170].

(* the 21-word list (twelve zero padding bits) that Share.parse accepted before ec24589, and
   that parsed to the share of the 20-word list, is now rejected *)
Theorem share_parse_rejects_21 :
  share_of_indices idx21 = Err /\ exists s, share_of_indices idx20 = Ok s.
Proof. split; [vm_compute; reflexivity | eexists; vm_compute; reflexivity]. Qed.

(* ---------------------------------------------------------------- every share length *)

(* a share as Share.__init__ accepts it with a SLIP39 share length: a multiple of 16 bits, at
   least 128 (share_wf is the case of 128 and 256 bits) *)
Definition share_wf_any (s : share) : Prop :=
  sh_bits s mod 16 = 0 /\ 128 <= sh_bits s /\ 0 <= sh_id s < 32768 /\ 0 <= sh_exp s < 32 /\
  0 <= sh_gi s <= 15 /\ 1 <= sh_gt s <= sh_gc s /\ sh_gc s <= 16 /\ 0 <= sh_mi s <= 15 /\
  1 <= sh_mt s <= 16 /\ 0 <= sh_value s < 2 ^ sh_bits s /\
  sh_bytes s = to_be (Z.to_nat (sh_bits s / 8)) (sh_value s).

Lemma share_wf_is_any s : share_wf s -> share_wf_any s.
Proof.
  unfold share_wf, share_wf_any. intros (Hb & H). split; [|split]; [| |exact H];
    destruct Hb as [-> | ->]; (reflexivity || lia).
Qed.

Lemma pow256_bits_any bits : bits mod 16 = 0 -> 0 <= bits -> pow256 (Z.to_nat (bits / 8)) = 2 ^ bits.
Proof.
  intros H16 Hb. rewrite pow256_pow2. f_equal.
  pose proof (Z.div_mod bits 16 ltac:(lia)) as D. rewrite H16 in D.
  replace bits with ((2 * (bits / 16)) * 8) at 1 by lia. rewrite Z.div_mul by lia.
  pose proof (Z.div_pos bits 16 Hb ltac:(lia)). lia.
Qed.

Lemma mk_share_ok_any s : share_wf_any s ->
  mk_share (sh_bits s) (sh_id s) (sh_exp s) (sh_gi s) (sh_gt s) (sh_gc s) (sh_mi s) (sh_mt s)
           (sh_value s) = Ok s.
Proof.
  destruct s as [bits id e gi gt gc mi mt value b]. unfold share_wf_any. cbn [sh_bits sh_id sh_exp
    sh_gi sh_gt sh_gc sh_mi sh_mt sh_value sh_bytes].
  intros (H16 & Hb & Hid & He & Hgi & Hgt & Hgc & Hmi & Hmt & Hv & Hbytes).
  unfold mk_share.
  replace ((gi <? 0) || (gi >? 15)) with false by (symmetry; apply orb_false_iff; lia).
  replace ((gt <? 1) || (gt >? gc)) with false by (symmetry; apply orb_false_iff; lia).
  replace ((gc <? 1) || (gc >? 16)) with false by (symmetry; apply orb_false_iff; lia).
  replace ((mi <? 0) || (mi >? 15)) with false by (symmetry; apply orb_false_iff; lia).
  replace ((mt <? 1) || (mt >? 16)) with false by (symmetry; apply orb_false_iff; lia).
  destruct (Z.ltb_spec (bits / 8) 0) as [N|N].
  { pose proof (Z.div_pos bits 8 ltac:(lia) ltac:(lia)). lia. }
  unfold int_to_be. rewrite (pow256_bits_any bits H16 ltac:(lia)).
  replace ((0 <=? value) && (value <? 2 ^ bits)) with true by (symmetry; apply andb_true_iff; lia).
  cbn [bind]. rewrite Hbytes. reflexivity.
Qed.

(* PARSE AFTER MNEMONIC FOR EVERY SHARE LENGTH: the list Share.mnemonic produces for a
   well-formed share of any length (multiple of 16 bits, >= 128) is accepted by Share.parse and
   gives the share back; it has 7 + ceil(bits / 10) words *)
Theorem share_indices_roundtrip_all : forall s, share_wf_any s ->
  share_of_indices (share_indices s) = Ok s /\
  Forall (fun i => 0 <= i < 1024) (share_indices s) /\
  zlen (share_indices s) = 7 + ((- sh_bits s) mod 10 + sh_bits s) / 10.
Proof.
  intros s Hwf. pose proof (mk_share_ok_any s Hwf) as Hmk.
  destruct Hwf as (H16 & B128 & Hid & He & Hgi & Hgt & Hgc & Hmi & Hmt & Hv & Hbytes).
  set (nv := Z.to_nat (((- sh_bits s) mod 10 + sh_bits s) / 10)).
  pose proof (words_of_bits (sh_bits s) ltac:(lia)) as Hpb. fold nv in Hpb.
  destruct (bits_of_words (sh_bits s) (Z.of_nat nv) H16 Hpb) as [Hbits P8].
  pose proof (pad_le8 (sh_bits s) H16) as Ppad.
  rewrite (share_indices_digs_gen s nv Hid He Hgi Hgt Hgc Hmi Hmt ltac:(lia) Hv Hpb). cbv zeta.
  destruct s as [bits id e gi gt gc mi mt value b].
  cbn [sh_bits sh_id sh_exp sh_gi sh_gt sh_gc sh_mi sh_mt sh_value sh_bytes] in *.
  set (a := header id e gi gt gc mi mt * 1024 ^ Z.of_nat nv + value).
  set (idx := digs (4 + nv) a ++ rs1024_create_checksum s_shamir (digs (4 + nv) a)).
  assert (Hlen : length idx = (4 + nv + 3)%nat).
  { unfold idx. rewrite app_length, digs_length, create_length. reflexivity. }
  assert (Hbound : Forall (fun i => 0 <= i < 1024) idx).
  { unfold idx. apply Forall_app. split; [apply digs_bound | apply create_words_bound]. }
  split; [|split; [exact Hbound|]].
  2:{ unfold zlen. rewrite Hlen. rewrite Hpb. rewrite (Z.mul_comm 10), Z.div_mul by lia. lia. }
  assert (Hver : rs1024_verify_checksum s_shamir idx = true).
  { unfold idx. apply rs1024_verify_create. apply Forall_app. split; [apply s_shamir_bound | apply digs_bound]. }
  pose proof (pow1024_pos nv) as Ppos.
  assert (Hv' : 0 <= value < 1024 ^ Z.of_nat nv).
  { split; [lia|]. apply Z.lt_le_trans with (2 ^ bits); [lia|].
    change 1024 with (2 ^ 10). rewrite <- Z.pow_mul_r by lia.
    apply Z.pow_le_mono_r; lia. }
  assert (Hdiv : a / 1024 ^ Z.of_nat nv = header id e gi gt gc mi mt).
  { unfold a. rewrite Z.div_add_l by lia. rewrite (Z.div_small value) by exact Hv'. lia. }
  assert (Hmod : a mod 1024 ^ Z.of_nat nv = value).
  { unfold a. rewrite Z.add_comm, Z.mod_add by lia. apply Z.mod_small. exact Hv'. }
  assert (Hidx : idx = (header id e gi gt gc mi mt / 1024 ^ 3) mod 1024 ::
                       (header id e gi gt gc mi mt / 1024 ^ 2) mod 1024 ::
                       (header id e gi gt gc mi mt / 1024 ^ 1) mod 1024 ::
                       (header id e gi gt gc mi mt / 1024 ^ 0) mod 1024 ::
                       digs nv a ++ rs1024_create_checksum s_shamir (digs (4 + nv) a)).
  { unfold idx. rewrite (digs_app 4 nv a), Hdiv, digs_4. reflexivity. }
  unfold share_of_indices. rewrite Hver. cbn [negb].
  assert (ZL : zlen idx - 7 = Z.of_nat nv) by (unfold zlen; rewrite Hlen; lia).
  rewrite ZL, Hbits.
  clearbody idx. subst idx.
  unfold nth_idx. cbn [nth_error bind skipn length].
  replace (S (S (S (S (length (digs nv a ++ rs1024_create_checksum s_shamir (digs (4 + nv) a)))))) - 7)%nat
    with nv by (rewrite app_length, digs_length, create_length; lia).
  rewrite firstn_app, digs_length, Nat.sub_diag, firstn_O, app_nil_r.
  rewrite firstn_all2 by (rewrite digs_length; lia).
  rewrite fold_digs, Hmod, Z.mul_0_l, Z.add_0_l.
  rewrite field_id, field_e, field_gi, field_gt, field_gc, field_mi, field_mt by assumption.
  destruct (Z.ltb_spec bits 0); [lia|].
  rewrite shr_div by lia. rewrite Z.div_small by lia. cbn [Z.eqb negb].
  destruct (Z.gtb_spec (Z.of_nat nv * 10 - bits) 8); [lia|].
  destruct (Z.ltb_spec bits 128); [lia|].
  exact Hmk.
Qed.

(* what Share.parse returns is such a share *)
Theorem share_parse_wf_any : forall idx s,
  Forall (fun i => 0 <= i < 1024) idx -> share_of_indices idx = Ok s -> share_wf_any s.
Proof.
  intros idx s Hr Hp.
  pose proof (accepted_length idx s Hp) as L7.
  set (nv := (length idx - 7)%nat).
  assert (Hlen : length idx = (4 + nv + 3)%nat) by (unfold nv; lia).
  destruct (parse_digits idx s nv Hlen Hr Hp)
    as (_ & Hb & B128 & _ & Hv & Hid & He & Hgi & Hgt & Hgc & Hmi & Hmt).
  unfold share_wf_any. split.
  { rewrite Hb. apply Z_mod_mult. }
  repeat split; try lia.
  pose proof (verify_of_parse idx s Hp) as Hver.
  unfold share_of_indices in Hp. rewrite Hver in Hp. cbn [negb] in Hp.
  destruct (nth_idx idx 0); cbn [bind] in Hp; [|discriminate].
  destruct (nth_idx idx 1); cbn [bind] in Hp; [|discriminate].
  destruct (nth_idx idx 2); cbn [bind] in Hp; [|discriminate].
  destruct (nth_idx idx 3); cbn [bind] in Hp; [|discriminate].
  cbv zeta in Hp.
  destruct (_ <? 0) in Hp; [discriminate|]. destruct (negb _) in Hp; [discriminate|].
  destruct (_ >? 8) in Hp; [discriminate|]. destruct (_ <? 128) in Hp; [discriminate|].
  unfold mk_share in Hp.
  repeat (destruct (_ || _) in Hp; [discriminate|]).
  destruct (_ <? 0) in Hp; [discriminate|].
  destruct (int_to_be _ _) as [b|] eqn:Eb in Hp; cbn [bind] in Hp; [|discriminate].
  apply Ok_inj in Hp. subst s. cbn [sh_bytes sh_bits sh_value] in *.
  apply int_to_be_inv in Eb as [_ ->]. reflexivity.
Qed.

(* text level, every share length: Share.parse(Share.mnemonic(s)) = s over the shipped list *)
Theorem share_text_roundtrip_all : forall s, share_wf_any s ->
  exists m, share_mnemonic slip39_words s = Ok m /\ share_parse slip39_words m = Ok s.
Proof.
  intros s Hwf. destruct (share_indices_roundtrip_all s Hwf) as (Hp & Hr & _).
  destruct (words_roundtrip slip39_words 1024 (share_indices s) slip39_good Hr) as [l [E1 [E2 E3]]].
  exists (join_sp l). unfold share_mnemonic, share_parse. rewrite E1. cbn [bind].
  split; [reflexivity|]. rewrite E2, E3. cbn [bind]. exact Hp.
Qed.

(* the 160-bit share whose 24-word encoding Share.parse rejected before ddaa02c: 23 words now *)
Definition idx23 : list Z :=
  [38; 577; 0; 0; 1023; 1023; 1023; 1023; 1023; 1023; 1023; 1023; 1023; 1023; 1023; 1023; 1023;
   1023; 1023; 1019; 879; 513; 281].

Theorem share_mnemonic_160_ok :
  exists s, share_of_indices idx23 = Ok s /\ sh_bits s = 160 /\ share_indices s = idx23.
Proof.
  destruct (share_of_indices idx23) as [s|] eqn:E; [|vm_compute in E; discriminate].
  exists s. split; [reflexivity|]. split.
  - vm_compute in E. apply Ok_inj in E. subst s. reflexivity.
  - apply share_parse_canonical_all; [unfold idx23; repeat constructor; lia | exact E].
Qed.

Print Assumptions rs1024_checksum_unique.
Print Assumptions share_parse_canonical.
Print Assumptions share_parse_canonical_all.
Print Assumptions share_parse_lengths.
Print Assumptions share_parse_injective.
Print Assumptions share_parse_injective_all.
Print Assumptions share_text_canonical.
Print Assumptions share_text_canonical_all.
Print Assumptions share_parse_rejects_21.
Print Assumptions share_mnemonic_160_ok.
Print Assumptions share_indices_roundtrip_all.
Print Assumptions share_parse_wf_any.
Print Assumptions share_text_roundtrip_all.
