(* Proofs/LimitsP.v — the consensus resource limits (Spec/ConsensusLimits.v) against the spec
   without them (Spec/Consensus.v) and against the library, which enforces none of them.

   (1) No op code of the implemented set adds more than three items to stack + alt stack.
   (2) On a script within the static bounds [within_limits] (<= 10000 bytes, pushes <= 520 bytes,
       <= 201 op codes above OP_16, <= 333 commands) none of the four tests can fire:
       [eval_script_lim] = [eval_script].  The property's "at most 40 operations" is far inside.
   (3) Beyond each bound there is a script that consensus rejects and the library accepts:
       the library does not enforce the push size, the op count, the stack size or the script
       size. *)
From V Require Import Base.Prelude Base.Ints Model.Script Model.Op Model.Interp Spec.Consensus
  Spec.ConsensusLimits Proofs.OpP Proofs.ConformP Proofs.StackOkP Proofs.InterpP Proofs.ProgramP
  Model.OpMode Proofs.OpModeP Proofs.AnyListP.

Lemma count_ops_nonneg cmds : 0 <= count_ops cmds.
Proof.
  induction cmds as [|cm r IH]; [cbn; lia|]. cbn [count_ops fold_right]. fold (count_ops r).
  destruct cm as [o|b]; cbn [counted]; [destruct (OP_16 <? o)|]; lia.
Qed.

Section Growth.
  Variables ripemd160 sha1 sha256 : bytes -> bytes.
  Variable c : ctx.
  Notation sexec := (Consensus.exec_op ripemd160 sha1 sha256 c).

  Ltac lit :=
    cbn [Z.eqb Z.leb Z.ltb Z.compare Pos.eqb Pos.compare Pos.compare_cont andb orb negb Z.sub Z.add
         Z.opp Z.pos_sub Pos.succ Pos.add Pos.pred_double Z.double Z.succ_double Z.pred_double
         Pos.sub Pos.sub_mask Pos.double_mask Pos.succ_double_mask Pos.double_pred_mask Pos.pred_N].

  Ltac grfin :=
    cbn [fst snd];
    unfold un_num, bin_num, then_verify, verify, hash_op; cbn [fst snd];
    repeat match goal with
           | |- context [match scriptnum ?m ?v with _ => _ end] => destruct (scriptnum m v)
           | |- context [if ?b then _ else _] => destruct b
           end;
    cbn [fst snd];
    repeat match goal with
           | |- context [if ?b then _ else _] => destruct b
           end;
    try discriminate;
    intros [= <- <-]; unfold zlen; cbn [length]; lia.

  Ltac pops n s :=
    lazymatch n with
    | O => grfin
    | S ?k =>
        let x := fresh "x" in let t := fresh "t" in
        destruct s as [|x t]; [grfin | pops k t]
    end.

  Definition grow_ops : list Z := plain_ops ++ [113; 177; 178].

  Lemma pick_roll_growth o s a s' a' : o = 121 \/ o = 122 ->
    sexec o (s, a) = SOk (s', a') -> zlen s' + zlen a' <= zlen s + zlen a + 3.
  Proof.
    intros Ho.
    destruct s as [|vn r]; [destruct Ho as [-> | ->]; discriminate|].
    destruct r as [|y r']; [destruct Ho as [-> | ->]; discriminate|].
    remember (y :: r') as r eqn:Er.
    assert (E : sexec o (vn :: r, a) =
      match scriptnum 4 vn with
      | None => SOOS
      | Some n =>
          if (n <? 0) || (n >=? zlen r) then SFail
          else if o =? 122
               then SOk (nth (Z.to_nat n) r [] :: firstn (Z.to_nat n) r ++ skipn (S (Z.to_nat n)) r, a)
               else SOk (nth (Z.to_nat n) r [] :: r, a)
      end) by (subst r; destruct Ho as [-> | ->]; reflexivity).
    rewrite E. clear E.
    destruct (scriptnum 4 vn) as [n|]; [|discriminate].
    destruct ((n <? 0) || (n >=? zlen r)); [discriminate|].
    assert (L : (length (firstn (Z.to_nat n) r ++ skipn (S (Z.to_nat n)) r) <= length r)%nat)
      by (rewrite app_length, firstn_length, skipn_length; lia).
    remember (firstn (Z.to_nat n) r ++ skipn (S (Z.to_nat n)) r) as fs eqn:Efs.
    destruct (o =? 122); intros [= <- <-]; unfold zlen; cbn [length]; lia.
  Qed.

  (* (1) at most three more items after any op code *)
  Lemma exec_growth o s a s' a' :
    sexec o (s, a) = SOk (s', a') -> zlen s' + zlen a' <= zlen s + zlen a + 3.
  Proof.
    destruct (Z.eq_dec o 121) as [->|N1]; [apply pick_roll_growth; auto|].
    destruct (Z.eq_dec o 122) as [->|N2]; [apply pick_roll_growth; auto|].
    destruct (existsb (Z.eqb o) grow_ops) eqn:Ex.
    - apply existsb_exists in Ex as (k & Hk & Ek). apply Z.eqb_eq in Ek. subst k.
      unfold grow_ops, plain_ops in Hk. cbn [In app] in Hk.
      repeat (destruct Hk as [<-|Hk];
              [try congruence; unfold Consensus.exec_op; lit;
               try (destruct a as [|xa a]; grfin; fail);
               pops 6%nat s |]).
      contradiction.
    - unfold grow_ops, plain_ops in Ex. cbn [existsb app] in Ex.
      repeat (apply orb_false_iff in Ex as [?E Ex]).
      unfold Consensus.exec_op.
      repeat match goal with
             | H : (o =? ?k) = false |- _ => apply Z.eqb_neq in H
             end.
      repeat match goal with
             | |- context [if ?b then _ else _] =>
                 let E := fresh "E" in destruct b eqn:E; [exfalso; lia|]
             end.
      discriminate.
  Qed.
End Growth.

Section Lim.
  Variables ripemd160 sha1 sha256 : bytes -> bytes.
  Variable c : ctx.
  Variable xw : bool.
  Notation run := (Consensus.run ripemd160 sha1 sha256 c xw).
  Notation run_lim := (ConsensusLimits.run_lim ripemd160 sha1 sha256 c xw).

  Definition ssize (st : cstate) : Z := zlen (fst st) + zlen (snd st).

  (* (2) inside the bounds the limits never fire *)
  Lemma run_lim_eq cmds : forall vf st n,
    forallb push_small cmds = true -> 0 <= n -> n + count_ops cmds <= MAX_OPS_PER_SCRIPT ->
    ssize st + 3 * zlen cmds <= MAX_STACK_SIZE ->
    run_lim cmds vf st n = run cmds vf st.
  Proof.
    induction cmds as [|cm rest IH]; intros vf st n Hp Hn Hc Hs; [reflexivity|].
    cbn [forallb] in Hp. apply andb_true_iff in Hp as [Hp1 Hp].
    cbn [count_ops fold_right] in Hc. fold (count_ops rest) in Hc.
    pose proof (count_ops_nonneg rest) as Hcr.
    assert (Hl : zlen (cm :: rest) = 1 + zlen rest) by (unfold zlen; cbn [length]; lia).
    rewrite Hl in Hs. assert (Hz : 0 <= zlen rest) by (unfold zlen; lia).
    assert (Next : forall vf' st' n', 0 <= n' -> n' + count_ops rest <= MAX_OPS_PER_SCRIPT ->
              ssize st' <= ssize st + 3 ->
              (if stack_size_ok st' then run_lim rest vf' st' n' else SFail) = run rest vf' st').
    { intros vf' st' n' H1 H2 H3.
      assert (K : stack_size_ok st' = true) by (unfold stack_size_ok, ssize in *; apply Z.leb_le; lia).
      rewrite K. apply IH; auto. lia. }
    cbn [ConsensusLimits.run_lim Consensus.run]. cbv zeta.
    destruct cm as [o|b].
    - cbn [counted] in Hc.
      set (n' := if OP_16 <? o then n + 1 else n) in *.
      assert (Hn' : 0 <= n' /\ n' + count_ops rest <= MAX_OPS_PER_SCRIPT)
        by (subst n'; destruct (OP_16 <? o); lia).
      destruct Hn' as [Hn1 Hn2].
      assert (G : (MAX_OPS_PER_SCRIPT <? n') = false) by (apply Z.ltb_ge; lia).
      rewrite G.
      destruct (negb (in_set o)); [reflexivity|].
      destruct ((o =? 99) || (o =? 100)).
      { destruct (forallb (fun b => b) vf).
        - destruct (fst st) as [|v s] eqn:Es; [reflexivity|]. apply Next; auto.
          unfold ssize in *. cbn [fst snd]. rewrite Es. unfold zlen. cbn [length]. lia.
        - apply Next; auto; lia. }
      destruct (o =? 103); [destruct vf; [reflexivity | apply Next; auto; lia]|].
      destruct (o =? 104); [destruct vf; [reflexivity | apply Next; auto; lia]|].
      destruct (forallb (fun b => b) vf); [|apply Next; auto; lia].
      destruct st as [s a].
      destruct (Consensus.exec_op ripemd160 sha1 sha256 c o (s, a)) as [[s1 a1]| |] eqn:Ex;
        [|reflexivity|reflexivity].
      apply Next; auto. apply exec_growth in Ex. unfold ssize. cbn [fst snd]. lia.
    - cbn [push_small] in Hp1. apply Z.leb_le in Hp1.
      assert (G : (MAX_SCRIPT_ELEMENT_SIZE <? zlen b) = false) by (apply Z.ltb_ge; lia).
      rewrite G. assert (G2 : (520 <? zlen b) = false) by (apply Z.ltb_ge; unfold MAX_SCRIPT_ELEMENT_SIZE in *; lia).
      rewrite G2. cbn [counted] in Hc.
      destruct (forallb (fun b => b) vf); [|apply Next; auto; lia].
      destruct (xw && witness_shape (fst (b :: fst st, snd st))); [reflexivity|].
      apply Next; auto; try lia. unfold ssize. cbn [fst snd]. unfold zlen. cbn [length]. lia.
  Qed.

  Theorem limits_unreachable cmds : within_limits cmds = true ->
    eval_script_lim ripemd160 sha1 sha256 c xw cmds = eval_script ripemd160 sha1 sha256 c xw cmds.
  Proof.
    unfold within_limits. intros H. repeat (apply andb_true_iff in H as [H ?H]).
    apply Z.leb_le in H, H1, H0.
    unfold eval_script_lim, eval_script.
    assert (G : (MAX_SCRIPT_SIZE <? script_size cmds) = false) by (apply Z.ltb_ge; lia).
    rewrite G, run_lim_eq; auto; try lia; unfold ssize; cbn; lia.
  Qed.
End Lim.

(* the property's quantifier: at most 40 commands, pushes of at most 520 bytes *)
Lemma forty_within_limits cmds :
  (length cmds <= 40)%nat -> forallb push_small cmds = true -> script_size cmds <= MAX_SCRIPT_SIZE ->
  within_limits cmds = true.
Proof.
  intros L P S. unfold within_limits. rewrite P.
  assert (C : count_ops cmds <= zlen cmds).
  { clear. induction cmds as [|cm r IH]; [cbn; lia|]. cbn [count_ops fold_right]. fold (count_ops r).
    assert (zlen (cm :: r) = 1 + zlen r) as -> by (unfold zlen; cbn [length]; lia).
    destruct cm as [o|b]; cbn [counted]; [destruct (OP_16 <? o)|]; lia. }
  assert (Z40 : zlen cmds <= 40) by (unfold zlen; lia).
  repeat (apply andb_true_iff; split); try reflexivity; apply Z.leb_le;
    unfold MAX_OPS_PER_SCRIPT, MAX_STACK_SIZE in *; lia.
Qed.

(* ------------------------------------------------------------------ (3) not enforced *)

Definition idh (x : bytes) : bytes := x.
Definition ctx0 : txctx := {| t_locktime := 0; t_sequence := 0; t_version := 2 |}.

(* a script consensus rejects on a resource limit alone and the library accepts *)
Definition limit_gap (cmds : list cmd) : Prop :=
  eval_script_lim idh idh idh (to_ctx ctx0) false cmds = Reject /\
  (10000 <? script_size cmds = false ->
   eval_script idh idh idh (to_ctx ctx0) false cmds <> Reject) /\
  evaluate (lib_table idh idh idh) ctx0 false false cmds = OTrue.

Definition w_push_size : list cmd := [Push (repeat 1 521)].
Definition w_op_count : list cmd := Op 81 :: repeat (Op 97) 202.
Definition w_stack_size : list cmd := repeat (Op 81) 1001.
Definition w_script_size : list cmd := repeat (Push (repeat 1 520)) 20.

Lemma push_size_not_enforced : limit_gap w_push_size.
Proof. unfold limit_gap. split; [vm_compute; reflexivity|]. split; [intros _; vm_compute; discriminate | vm_compute; reflexivity]. Qed.
Lemma op_count_not_enforced : limit_gap w_op_count.
Proof. unfold limit_gap. split; [vm_compute; reflexivity|]. split; [intros _; vm_compute; discriminate | vm_compute; reflexivity]. Qed.
Lemma stack_size_not_enforced : limit_gap w_stack_size.
Proof. unfold limit_gap. split; [vm_compute; reflexivity|]. split; [intros _; vm_compute; discriminate | vm_compute; reflexivity]. Qed.
Lemma script_size_not_enforced :
  script_size w_script_size = 10460 /\
  eval_script_lim idh idh idh (to_ctx ctx0) false w_script_size = Reject /\
  evaluate (lib_table idh idh idh) ctx0 false false w_script_size = OTrue.
Proof. repeat split; vm_compute; reflexivity. Qed.

(* ------------------------------------------------------------------ conformance with the limits *)

Section WithLimits.
  Variables ripemd160 sha1 sha256 : bytes -> bytes.
  Hypothesis ripemd160_ok : forall x, bytes_ok (ripemd160 x).
  Hypothesis sha1_ok : forall x, bytes_ok (sha1 x).
  Hypothesis sha256_ok : forall x, bytes_ok (sha256 x).

  (* inside the static bounds the library agrees with consensus INCLUDING its resource limits:
     every command list, flags off (no byte pattern special), with the failure mode *)
  Theorem conformance_with_limits c xw cmds :
    cmds_okb cmds = true -> within_limits cmds = true ->
    rel_m (ns 0 cmds) (m_evaluate (m_lib_table ripemd160 sha1 sha256) c false xw cmds)
          (eval_script_lim ripemd160 sha1 sha256 (to_ctx c) xw cmds).
  Proof.
    intros Hok Hl. rewrite limits_unreachable by exact Hl. now apply any_list_mode.
  Qed.
End WithLimits.
