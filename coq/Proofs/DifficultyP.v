(* Proofs/DifficultyP.v — Block.difficulty is the correctly rounded quotient lowest / target:
   [rn_div a b] = (m, e) with 2^52 <= m <= 2^53, |a/b - m 2^e| <= 2^e / 2, ties to even —
   the three properties that determine round-to-nearest-even uniquely. *)
From V Require Import Base.Prelude Base.Ints Model.Helper Model.Block Model.Pow Model.Difficulty
  Spec.CorePow Proofs.PowP.

(* m * 2^e is a nearest double to a / b (scaled by b * 2^DK to stay in Z), ties to even *)
Definition nearest_even (a b m e : Z) : Prop :=
  let s := e + DK in
  0 <= s /\ 2 ^ 52 <= m <= 2 ^ 53 /\
  2 * Z.abs (a * 2 ^ DK - m * (b * 2 ^ s)) <= b * 2 ^ s /\
  (2 * Z.abs (a * 2 ^ DK - m * (b * 2 ^ s)) = b * 2 ^ s -> Z.even m = true).

Lemma pow2_split x y : 0 <= x -> 0 <= y -> 2 ^ (x + y) = 2 ^ x * 2 ^ y.
Proof. intros. now rewrite Z.pow_add_r. Qed.

Lemma rn_div_spec a b : 0 < a -> 0 < b < 2 ^ 256 ->
  let '(m, e) := rn_div a b in nearest_even a b m e.
Proof.
  intros Ha Hb. unfold rn_div, nearest_even. cbv zeta.
  set (N := a * 2 ^ DK).
  assert (0 < 2 ^ DK) as HK by (apply Z.pow_pos_nonneg; unfold DK; lia).
  assert (2 ^ DK <= N) as HN by (unfold N; nia).
  assert (0 < N) as HN0 by lia.
  pose proof (Z.log2_spec N HN0) as [LN1 LN2].
  pose proof (Z.log2_spec b ltac:(lia)) as [LB1 LB2].
  set (lN := Z.log2 N) in *. set (lb := Z.log2 b) in *.
  assert (DK <= lN) as HlN by (apply Z.log2_le_pow2; lia).
  assert (0 <= lb < 256) as Hlb.
  { split; [apply Z.log2_nonneg|]. apply Z.log2_lt_pow2; lia. }
  set (d := lN - lb).
  assert (145 <= d) as Hd by (unfold d, DK in *; lia).
  (* b * 2^d brackets 2^lN *)
  assert (2 ^ lN <= b * 2 ^ d) as B1.
  { replace lN with (lb + d) at 1 by (unfold d; lia). rewrite pow2_split by lia.
    assert (0 < 2 ^ d) by (apply Z.pow_pos_nonneg; lia). nia. }
  assert (b * 2 ^ d < 2 ^ Z.succ lN) as B2.
  { replace (Z.succ lN) with (Z.succ lb + d) by (unfold d; lia). rewrite pow2_split by lia.
    assert (0 < 2 ^ d) by (apply Z.pow_pos_nonneg; lia). nia. }
  set (L := if N <? b * 2 ^ d then d - 1 else d).
  assert (144 <= L /\ b * 2 ^ L <= N < b * 2 ^ (L + 1)) as [HL [HL1 HL2]].
  { unfold L. destruct (Z.ltb_spec N (b * 2 ^ d)) as [C|C].
    - split; [lia|]. replace (d - 1 + 1) with d by lia. split; [|exact C].
      assert (2 ^ d = 2 * 2 ^ (d - 1)) as E.
      { replace d with (1 + (d - 1)) at 1 by lia. rewrite pow2_split by lia. reflexivity. }
      assert (2 ^ Z.succ lN = 2 * 2 ^ lN) as E2.
      { unfold Z.succ. rewrite Z.add_comm, pow2_split by lia. reflexivity. }
      nia.
    - split; [lia|]. split; [exact C|].
      assert (2 ^ (d + 1) = 2 * 2 ^ d) as E.
      { rewrite Z.add_comm, pow2_split by lia. reflexivity. }
      assert (2 ^ Z.succ lN = 2 * 2 ^ lN) as E2.
      { unfold Z.succ. rewrite Z.add_comm, pow2_split by lia. reflexivity. }
      nia. }
  set (s := L - 52).
  assert (92 <= s) as Hs by (unfold s; lia).
  replace (s - DK + DK) with s by lia.
  set (den := b * 2 ^ s).
  assert (0 < 2 ^ s) as Hps by (apply Z.pow_pos_nonneg; lia).
  assert (0 < den) as Hden by (unfold den; nia).
  assert (2 ^ 52 * den <= N < 2 ^ 53 * den) as [Q1 Q2].
  { unfold den.
    assert (2 ^ L = 2 ^ 52 * 2 ^ s) as E1.
    { replace L with (52 + s) by (unfold s; lia). now rewrite pow2_split by lia. }
    assert (2 ^ (L + 1) = 2 ^ 53 * 2 ^ s) as E2.
    { replace (L + 1) with (53 + s) by (unfold s; lia). now rewrite pow2_split by lia. }
    rewrite E1 in HL1. rewrite E2 in HL2. split; nia. }
  pose proof (Z.div_mod N den ltac:(lia)) as DM.
  pose proof (Z.mod_pos_bound N den Hden) as MB.
  set (q := N / den) in *. set (r := N mod den) in *.
  assert (2 ^ 52 <= q < 2 ^ 53) as Hq.
  { split.
    - apply Z.div_le_lower_bound; [exact Hden|]. lia.
    - apply Z.div_lt_upper_bound; [exact Hden|]. lia. }
  split; [lia|].
  destruct ((den <? 2 * r) || ((2 * r =? den) && Z.odd q)) eqn:UP.
  - (* round up *)
    assert (den <= 2 * r) as HR.
    { apply orb_true_iff in UP as [U|U]; [apply Z.ltb_lt in U; lia|].
      apply andb_true_iff in U as [U _]. apply Z.eqb_eq in U. lia. }
    replace (N - (q + 1) * den) with (r - den) by lia.
    rewrite Z.abs_neq by lia.
    split; [lia|]. split; [lia|].
    intros E. assert (2 * r = den) as E' by lia.
    apply orb_true_iff in UP as [U|U]; [apply Z.ltb_lt in U; lia|].
    apply andb_true_iff in U as [_ U]. rewrite Z.even_add. rewrite <- Z.negb_odd, U. reflexivity.
  - (* round down *)
    apply orb_false_iff in UP as [U1 U2]. apply Z.ltb_ge in U1.
    replace (N - q * den) with r by lia. rewrite Z.abs_eq by lia.
    split; [lia|]. split; [lia|].
    intros E. assert ((2 * r =? den) = true) as E' by (apply Z.eqb_eq; lia).
    rewrite E' in U2. cbn [andb] in U2. now rewrite <- Z.negb_odd, U2.
Qed.

Lemma Ok_inj {A} (a b : A) : Ok a = Ok b -> a = b.
Proof. intros H. now inversion H. Qed.

(* whatever bits_to_target returns is a non-negative integer below 2^256 (bits of any length) *)
Lemma b2t_ok_range bits t : bits_to_target_x bits = B2T_ok t -> 0 <= t < 2 ^ 256.
Proof.
  unfold bits_to_target_x. destruct (rev bits) as [|e rc]; [discriminate|]. cbv zeta. intros H.
  match type of H with
  | context [if ?c then B2T_value_error else if 2 ^ 256 <=? ?tg then _ else _] =>
      destruct c; [discriminate|]; destruct (Z.leb_spec (2 ^ 256) tg) as [|C]; [discriminate|];
      injection H as <-; split; [|exact C]
  end.
  destruct (e <? 3).
  - apply Z.shiftr_nonneg, Z.land_nonneg. right. lia.
  - apply Z.mul_nonneg_nonneg; [apply Z.land_nonneg; right; lia | apply Z.pow_nonneg; lia].
Qed.

(* Block.difficulty on a header's four-byte bits: the nearest double to lowest / target for every
   target Core's SetCompact yields without a flag and that is not 0; ZeroDivisionError for the
   target 0; ValueError for flagged bits *)
Lemma difficulty_spec bits : bytes_ok bits -> length bits = 4%nat ->
  let '(v, neg, ovf) := set_compact (from_le bits) in
  if neg || ovf then difficulty bits = Err
  else if v =? 0 then difficulty bits = Err
  else exists m e, difficulty bits = Ok (m, e) /\ nearest_even LOWEST v m e.
Proof.
  intros Hok Hlen. unfold difficulty.
  pose proof (bits_to_target_x_core bits Hok Hlen) as X. rewrite X.
  destruct (set_compact (from_le bits)) as [[v neg] ovf] eqn:SC.
  destruct (neg || ovf) eqn:F; [reflexivity|].
  destruct (Z.eqb_spec v 0) as [->|NZ]; [reflexivity|].
  pose proof (b2t_ok_range bits v X) as Hv.
  pose proof (rn_div_spec LOWEST v ltac:(reflexivity) ltac:(lia)) as S.
  destruct (rn_div LOWEST v) as [m e]. exists m, e. split; [reflexivity | exact S].
Qed.

(* for bits of any length: whenever difficulty() returns, it is the nearest double to
   lowest / target() *)
Lemma difficulty_any bits m e : difficulty bits = Ok (m, e) ->
  exists t, bits_to_target bits = Ok (PInt t) /\ t <> 0 /\ nearest_even LOWEST t m e.
Proof.
  unfold difficulty, bits_to_target. destruct (bits_to_target_x bits) as [t| |] eqn:X; try discriminate.
  destruct (Z.eqb_spec t 0) as [|NZ]; [discriminate|]. intros H.
  assert (rn_div LOWEST t = (m, e)) as E by (exact (Ok_inj _ _ H)).
  exists t. split; [reflexivity|]. split; [exact NZ|].
  pose proof (b2t_ok_range bits t X) as Hv.
  pose proof (rn_div_spec LOWEST t ltac:(reflexivity) ltac:(lia)) as S. rewrite E in S. exact S.
Qed.

Lemma difficulty_genesis : difficulty [255; 255; 0; 29] = Ok (2 ^ 52, -52) /\ ratio_of (2 ^ 52, -52) = (1, 1).
Proof. split; vm_compute; reflexivity. Qed.
