(* Proofs/TxObsP.v — the push-length classes and every push form on the parser side, which parser
   Tx.parse picks, the txid moves with the non-witness data, and concrete witnesses showing where
   the byte-level round trip stops OUTSIDE the canonical encodings (non-minimal pushes and
   compact sizes, pushes over 520 bytes, truncated streams, the zero-input ambiguity) (C04). *)
From V Require Import Base.Prelude Base.Ints Model.Helper Model.Script Model.Tx Model.Fetcher
  Proofs.HelperP Proofs.ScriptP Proofs.TxP Proofs.TxidP.

(* ================= the three length classes of raw_serialize ================= *)
Lemma push_encoding d :
  (zlen d <= 75 -> ser_cmd (Push d) = Ok (zlen d :: d)) /\
  (76 <= zlen d <= 255 -> ser_cmd (Push d) = Ok (76 :: zlen d :: d)) /\
  (256 <= zlen d <= 520 -> ser_cmd (Push d) = Ok (77 :: zlen d mod 256 :: zlen d / 256 :: d)) /\
  (521 <= zlen d -> ser_cmd (Push d) = Err).
Proof.
  cbn [ser_cmd]. repeat split; intros H.
  - replace (zlen d <=? 75) with true by (symmetry; apply Z.leb_le; lia). reflexivity.
  - replace (zlen d <=? 75) with false by (symmetry; apply Z.leb_gt; lia).
    replace (zlen d <? 256) with true by (symmetry; apply Z.ltb_lt; lia). reflexivity.
  - replace (zlen d <=? 75) with false by (symmetry; apply Z.leb_gt; lia).
    replace (zlen d <? 256) with false by (symmetry; apply Z.ltb_ge; lia).
    replace (zlen d <=? 520) with true by (symmetry; apply Z.leb_le; lia).
    cbn [to_le app]. do 4 f_equal. apply Z.mod_small.
    split; [apply Z.div_pos; lia|apply Z.div_lt_upper_bound; lia].
  - replace (zlen d <=? 75) with false by (symmetry; apply Z.leb_gt; lia).
    replace (zlen d <? 256) with false by (symmetry; apply Z.ltb_ge; lia).
    replace (zlen d <=? 520) with false by (symmetry; apply Z.leb_gt; lia). reflexivity.
Qed.

(* ================= every push form on the parser side =================
   direct (1..75), OP_PUSHDATA1 (< 2^8), OP_PUSHDATA2 (< 2^16), OP_PUSHDATA4 (< 2^32): each
   parses, exactly, to the single command Push d — whatever the length, minimal or not *)
Lemma parse_one_push (hdr d : bytes) f :
  (forall f' count len acc, count < len ->
     parse_loop (S f') (hdr ++ d) count len acc = parse_loop f' [] (count + zlen hdr + zlen d) len (Push d :: acc)) ->
  (length (hdr ++ d) = S f) ->
  parse_raw (hdr ++ d) = Ok (mk_script [Push d]).
Proof.
  intros Step L. unfold parse_raw. rewrite L.
  assert (0 < zlen (hdr ++ d)) as P by (unfold zlen; rewrite L; lia).
  rewrite Step by exact P. rewrite parse_loop_done by (rewrite zlen_app; lia).
  cbn [bind rev app]. rewrite zlen_app. replace (0 + zlen hdr + zlen d =? zlen hdr + zlen d) with true
    by (symmetry; apply Z.eqb_eq; lia). reflexivity.
Qed.

Lemma readz_all d : readz (zlen d) d = (d, []).
Proof. rewrite <- (app_nil_r d) at 2. apply readz_app. Qed.

Lemma parse_direct_push d :
  1 <= zlen d <= 75 -> parse_raw (zlen d :: d) = Ok (mk_script [Push d]).
Proof.
  intros H. apply (parse_one_push [zlen d] d (length d)); [|reflexivity].
  intros f' count len acc Hc. cbn [app]. rewrite parse_loop_S.
  replace (len <=? count) with false by (symmetry; apply Z.leb_gt; lia).
  replace ((1 <=? zlen d) && (zlen d <=? 75)) with true by (symmetry; apply andb_true_iff; lia).
  cbv zeta. rewrite readz_all. rewrite zlen_cons, zlen_nil. f_equal; lia.
Qed.

Lemma parse_pushdata1 d :
  zlen d < 256 -> parse_raw (76 :: zlen d :: d) = Ok (mk_script [Push d]).
Proof.
  intros H. pose proof (zlen_nonneg d) as P.
  apply (parse_one_push [76; zlen d] d (S (length d))); [|reflexivity].
  intros f' count len acc Hc. cbn [app]. rewrite parse_loop_S.
  replace (len <=? count) with false by (symmetry; apply Z.leb_gt; lia).
  cbn [Z.leb Z.compare andb Z.eqb Pos.eqb Pos.compare Pos.compare_cont]. cbv zeta.
  cbn [firstn skipn from_le]. replace (zlen d + 256 * 0) with (zlen d) by lia.
  rewrite readz_all. rewrite !zlen_cons, zlen_nil. f_equal; lia.
Qed.

Lemma parse_pushdata2 d :
  zlen d < 65536 -> parse_raw (77 :: to_le 2 (zlen d) ++ d) = Ok (mk_script [Push d]).
Proof.
  intros H. pose proof (zlen_nonneg d) as P.
  apply (parse_one_push (77 :: to_le 2 (zlen d)) d (S (S (length d)))); [|reflexivity].
  intros f' count len acc Hc. cbn [app]. rewrite parse_loop_S.
  replace (len <=? count) with false by (symmetry; apply Z.leb_gt; lia).
  cbn [Z.leb Z.compare andb Z.eqb Pos.eqb Pos.compare Pos.compare_cont]. cbv zeta.
  rewrite firstn_app_exact by apply to_le_length. rewrite skipn_app_exact by apply to_le_length.
  rewrite from_le_to_le by (rewrite pow256_2; lia).
  rewrite readz_all. rewrite zlen_cons, zlen_to_le. f_equal; lia.
Qed.

Lemma parse_pushdata4 d :
  zlen d < 4294967296 -> parse_raw (78 :: to_le 4 (zlen d) ++ d) = Ok (mk_script [Push d]).
Proof.
  intros H. pose proof (zlen_nonneg d) as P.
  apply (parse_one_push (78 :: to_le 4 (zlen d)) d (S (S (S (S (length d)))))); [|reflexivity].
  intros f' count len acc Hc. cbn [app]. rewrite parse_loop_S.
  replace (len <=? count) with false by (symmetry; apply Z.leb_gt; lia).
  cbn [Z.leb Z.compare andb Z.eqb Pos.eqb Pos.compare Pos.compare_cont]. cbv zeta.
  rewrite firstn_app_exact by apply to_le_length. rewrite skipn_app_exact by apply to_le_length.
  rewrite from_le_to_le by (rewrite pow256_4; lia).
  rewrite readz_all. rewrite zlen_cons, zlen_to_le. f_equal; lia.
Qed.

(* ================= which parser Tx.parse picks ================= *)
Lemma marker_dispatch s :
  (nth_error s 4 = Some 0 -> tx_parse s = parse_segwit s) /\
  (nth_error s 4 <> Some 0 -> tx_parse s = parse_legacy s).
Proof.
  unfold tx_parse. split; intros H.
  - now rewrite H.
  - destruct (nth_error s 4) as [[|p|p]|]; try reflexivity. congruence.
Qed.

Lemma parse_legacy_flag s t r : parse_legacy s = Ok (t, r) -> t_segwit t = false.
Proof.
  unfold parse_legacy. destruct (read 4 s) as [v s1].
  intros H. apply bind_ok in H as [[ni s2] [_ H]]. cbn beta iota in H.
  apply bind_ok in H as [[ins s3] [_ H]]. cbn beta iota in H.
  apply bind_ok in H as [[no s4] [_ H]]. cbn beta iota in H.
  apply bind_ok in H as [[outs s5] [_ H]]. cbn beta iota in H.
  destruct (read 4 s5) as [lt s6]. inversion H. reflexivity.
Qed.

Lemma parse_segwit_flag s t r :
  parse_segwit s = Ok (t, r) -> t_segwit t = true /\ firstn 2 (skipn 4 s) = [0; 1].
Proof.
  unfold parse_segwit, read. destruct (beq (firstn 2 (skipn 4 s)) [0; 1]) eqn:M; cbn [negb]; [|discriminate].
  intros H. apply bind_ok in H as [[ni s2] [_ H]]. cbn beta iota in H.
  apply bind_ok in H as [[ins s3] [_ H]]. cbn beta iota in H.
  apply bind_ok in H as [[no s4] [_ H]]. cbn beta iota in H.
  apply bind_ok in H as [[outs s5] [_ H]]. cbn beta iota in H.
  apply bind_ok in H as [[ins' s6] [_ H]]. cbn beta iota in H.
  inversion H. split; [reflexivity|now apply beq_eq].
Qed.

(* the parsed transaction is flagged segwit exactly when byte 5 of the stream is 0x00, and then
   byte 6 is 0x01 *)
Lemma parsed_segwit_iff s t r :
  tx_parse s = Ok (t, r) ->
  (t_segwit t = true <-> nth_error s 4 = Some 0) /\
  (t_segwit t = true -> nth_error s 5 = Some 1).
Proof.
  intros H. destruct (marker_dispatch s) as [D1 D2].
  destruct (Z.eq_dec 0 0) as [_|]; [|congruence].
  assert (nth_error s 4 = Some 0 \/ nth_error s 4 <> Some 0) as [E|E].
  { destruct (nth_error s 4) as [x|]; [destruct (Z.eq_dec x 0) as [->|N]; [left; reflexivity|right; congruence]|right; discriminate]. }
  - rewrite (D1 E) in H. destruct (parse_segwit_flag _ _ _ H) as [F M].
    split; [split; auto|]. intros _.
    destruct s as [|a [|b [|c [|d [|e [|g s']]]]]]; cbn in M; try discriminate. inversion M. reflexivity.
  - rewrite (D2 E) in H. pose proof (parse_legacy_flag _ _ _ H) as F.
    split; [split; intros X; congruence|intros X; congruence].
Qed.

(* ================= the txid moves with the non-witness data ================= *)
Lemma txid_changes (hash256 : bytes -> bytes) t1 t2 h1 h2 :
  tx_strictb t1 = true -> tx_strictb t2 = true -> ~ nonwitness_eq t1 t2 ->
  tx_hash hash256 t1 = Ok h1 -> tx_hash hash256 t2 = Ok h2 ->
  h1 <> h2 \/ exists x y, x <> y /\ hash256 x = hash256 y.
Proof.
  intros S1 S2 N H1 H2. destruct (list_eq_dec Z.eq_dec h1 h2) as [E|E]; [|left; exact E].
  subst h2. destruct (txid_binding hash256 t1 t2 h1 S1 S2 H1 H2) as [X|X]; [contradiction|right; exact X].
Qed.

(* the hash of every strict transaction exists (nothing in a well-formed object makes id() raise) *)
Lemma tx_hash_total (hash256 : bytes -> bytes) t :
  tx_wfb t = true -> exists b, serialize_legacy t = Ok b /\ tx_hash hash256 t = Ok (rev (hash256 b)).
Proof.
  intros W. destruct (legacy_roundtrip t W) as [b [Hb _]]. exists b. split; [exact Hb|].
  unfold tx_hash. now rewrite Hb.
Qed.

(* ================= where the byte-level round trip stops ================= *)

(* a non-minimal push is parsed exactly but re-serialised minimally: other bytes *)
Lemma nonminimal_push_refuted :
  exists raw sc raw', parse_raw raw = Ok sc /\ s_raw sc = None /\
    raw_serialize sc = Ok raw' /\ raw' <> raw.
Proof. exists [76; 1; 7], (mk_script [Push [7]]), [1; 7]. repeat split; try reflexivity. discriminate. Qed.

(* a push of 521 bytes (OP_PUSHDATA2) is parsed exactly but cannot be serialised *)
Definition big_push_raw : bytes := 77 :: 9 :: 2 :: repeatz 0 521.
Lemma big_push_refuted :
  exists sc, parse_raw big_push_raw = Ok sc /\ s_raw sc = None /\ raw_serialize sc = Err.
Proof. eexists. split; [vm_compute; reflexivity|]. split; vm_compute; reflexivity. Qed.

(* ... hence a transaction with such an output (a 521-byte OP_RETURN) is parsed, but its id cannot
   be computed, for any hash function: serialize(), hash() and id() raise *)
Definition big_push_tx_bytes : bytes :=
  [1; 0; 0; 0; 1] ++ repeatz 171 32 ++ [0; 0; 0; 0; 0; 255; 255; 255; 255; 1] ++
  [0; 0; 0; 0; 0; 0; 0; 0; 253; 13; 2; 106] ++ big_push_raw ++ [0; 0; 0; 0].
Lemma big_push_tx_refuted :
  exists t, tx_parse big_push_tx_bytes = Ok (t, []) /\ tx_serialize t = Err /\
    forall hash256 : bytes -> bytes, tx_hash hash256 t = Err.
Proof.
  eexists. split; [vm_compute; reflexivity|]. split; [vm_compute; reflexivity|].
  intros h. unfold tx_hash. match goal with |- bind ?x _ = _ => assert (x = Err) as -> by (vm_compute; reflexivity) end.
  reflexivity.
Qed.

(* BytesIO short reads: a stream that ends inside the locktime field is accepted, and the parsed
   transaction serialises to MORE bytes than were read *)
Definition trunc_tx_bytes : bytes :=
  [1; 0; 0; 0; 1] ++ repeatz 171 32 ++ [0; 0; 0; 0; 0; 255; 255; 255; 255; 1] ++
  [5; 0; 0; 0; 0; 0; 0; 0; 1; 81] ++ [0; 0].
Lemma truncated_accepted_refuted :
  exists t b, tx_parse trunc_tx_bytes = Ok (t, []) /\ tx_serialize t = Ok b /\
    b = trunc_tx_bytes ++ [0; 0] /\ b <> trunc_tx_bytes.
Proof. eexists. eexists. repeat split; try (vm_compute; reflexivity). vm_compute. discriminate. Qed.

(* compact sizes: non-minimal and truncated encodings are decoded *)
Lemma varint_noncanonical_refuted :
  read_varint [253; 5; 0] = Ok (5, []) /\ read_varint [253; 5] = Ok (5, []) /\
  read_varint [254] = Ok (0, []) /\ encode_varint 5 = Ok [5].
Proof. repeat split. Qed.

(* the zero-input ambiguity can also MISPARSE silently: the legacy serialisation of a transaction
   without inputs and with one zero-amount output parses as an empty segwit transaction *)
Definition zero_in_tx2 : tx :=
  {| t_version := 1; t_ins := []; t_outs := [{| o_amount := 0; o_script := mk_script [Op 81] |}];
     t_locktime := 0; t_segwit := false |}.
Lemma legacy_zero_inputs_misparse :
  tx_strictb zero_in_tx2 = true /\
  exists b t' rest, tx_serialize zero_in_tx2 = Ok b /\ tx_parse b = Ok (t', rest) /\
    t' <> zero_in_tx2 /\ rest <> [] /\ t_outs t' = [] /\ t_segwit t' = true.
Proof.
  split; [reflexivity|]. eexists. eexists. eexists.
  split; [vm_compute; reflexivity|]. split; [vm_compute; reflexivity|].
  repeat split; try discriminate.
Qed.

(* generally: the legacy serialisation of a well-formed transaction without inputs always goes to
   the segwit parser, and is rejected unless the transaction has exactly one output *)
Lemma legacy_zero_inputs_general t b :
  tx_wfb t = true -> t_segwit t = false -> t_ins t = [] -> tx_serialize t = Ok b ->
  tx_parse b = parse_segwit b /\ (length (t_outs t) <> 1%nat -> tx_parse b = Err).
Proof.
  intros W Sw Zi H. unfold tx_serialize in H. rewrite Sw in H. unfold serialize_legacy in H. rewrite Zi in H.
  apply bind_ok in H as [v [Hv H]]. cbn [zlen length Z.of_nat encode_varint Z.ltb Z.compare bind ser_ins] in H.
  apply bind_ok in H as [no [Hno H]]. apply bind_ok in H as [bo [Hbo H]]. apply bind_ok in H as [lt [Hlt H]].
  inversion H; subst b. clear H. apply int_to_le_inv in Hv as [_ ->].
  destruct (varint_head _ _ Hno) as [x [r [-> Hx]]].
  match goal with |- tx_parse ?s = _ /\ _ => set (s0 := s) end.
  assert (nth_error s0 4 = Some 0) as N
    by (subst s0; cbn [app]; apply nth_error_after, to_le_length).
  destruct (marker_dispatch s0) as [D _].
  split; [exact (D N)|]. intros L. rewrite (D N). unfold parse_segwit. subst s0.
  rewrite (read_app 4 (to_le 4 (t_version t))) by apply to_le_length.
  cbn [app read firstn skipn].
  (* the byte after the marker position is the first byte of the output count *)
  destruct (Z.eq_dec x 1) as [->|Nx]; [|].
  - exfalso. unfold encode_varint in Hno.
    destruct (zlen (t_outs t) <? 0); [discriminate|].
    destruct (zlen (t_outs t) <? 253) eqn:E1.
    + inversion Hno. apply L. unfold zlen in *. lia.
    + destruct (zlen (t_outs t) <? 65536); [inversion Hno|].
      destruct (zlen (t_outs t) <? 4294967296); [inversion Hno|].
      destruct (zlen (t_outs t) <? 18446744073709551616); [inversion Hno|discriminate].
  - cbn [beq]. rewrite Z.eqb_refl. cbn [andb].
    replace (x =? 1) with false by (symmetry; apply Z.eqb_neq; exact Nx). reflexivity.
Qed.
