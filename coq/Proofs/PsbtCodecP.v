(* Proofs/PsbtCodecP.v — parse (serialize p) for the typed PSBT maps.
   The embedded transactions / scripts / witnesses enter through "exact codec" premises
   ([script_exact] ...), which the C04 round-trip theorems discharge for well-formed values. *)
From V Require Import Base.Prelude Base.Ints Model.Helper Model.Script Model.Tx Model.Psbt
  Proofs.HelperP Proofs.PsbtDictP Proofs.PsbtKvP Proofs.PsbtFinalP.

(* ---- exact-codec premises for embedded components ---- *)
Definition script_exact (sc : script) : Prop :=
  exists e, serialize_script sc = Ok e /\ forall rest, parse_script (e ++ rest) = Ok (sc, rest).
Definition witness_exact (w : list bytes) : Prop :=
  exists b, witness_serialize w = Ok b /\ small b /\ forall rest, witness_parse (b ++ rest) = Ok (w, rest).
Definition txout_exact (o : txout) : Prop :=
  exists b, txout_serialize o = Ok b /\ small b /\ forall rest, txout_parse (b ++ rest) = Ok (o, rest).
Definition tx_exact (t : tx) : Prop :=
  exists b, tx_serialize t = Ok b /\ small b /\ forall rest, tx_parse (b ++ rest) = Ok (t, rest).
Definition legacy_exact (t : tx) : Prop :=
  exists b, serialize_legacy t = Ok b /\ small b /\ forall rest, parse_legacy (b ++ rest) = Ok (t, rest).

(* ---- a loop "reaches" a later stream position and state, for every sufficient fuel ---- *)
Section Reach.
Context {S R : Type} (L : nat -> bytes -> S -> R).
Definition reach (s : bytes) (st : S) (s' : bytes) (st' : S) : Prop :=
  forall fuel, (length s < fuel)%nat ->
  exists fuel', (length s' < fuel')%nat /\ L fuel s st = L fuel' s' st'.
Lemma reach_refl s st : reach s st s st.
Proof. intros fuel H. exists fuel. auto. Qed.
Lemma reach_trans s1 st1 s2 st2 s3 st3 :
  reach s1 st1 s2 st2 -> reach s2 st2 s3 st3 -> reach s1 st1 s3 st3.
Proof.
  intros H1 H2 fuel Hf. destruct (H1 fuel Hf) as [f2 [Hf2 E1]]. destruct (H2 f2 Hf2) as [f3 [Hf3 E2]].
  exists f3. split; [exact Hf3|congruence].
Qed.
End Reach.

(* ---- reading keys ---- *)
Lemma read_varstr_key1 t x : read_varstr (1 :: t :: x) = Ok ([t], x).
Proof.
  unfold read_varstr, read_varint. cbn [Z.eqb bind Z.leb Z.compare Pos.compare Pos.compare_cont].
  exact (f_equal Ok (readz_app [t] x)).
Qed.

Lemma encode_varstr_key1 t : encode_varstr [t] = Ok [1; t].
Proof. reflexivity. Qed.

Lemma kv_key1 t v e : kv [t] v = Ok e -> exists ev, encode_varstr v = Ok ev /\ e = 1 :: t :: ev.
Proof.
  unfold kv. rewrite encode_varstr_key1. cbn [bind].
  destruct (encode_varstr v) as [ev|]; cbn; [|discriminate]. intros [= <-]. eauto.
Qed.

Lemma encode_varstr_split v ev :
  encode_varstr v = Ok ev -> small v ->
  exists l, ev = l ++ v /\ forall x, read_varint (l ++ x) = Ok (zlen v, x).
Proof.
  unfold encode_varstr. intros H Hs.
  destruct (varint_roundtrip (zlen v) []) as [l [El _]]; [unfold small in Hs; pose proof (zlen_nonneg v); lia|].
  rewrite El in H. cbn in H. inversion H; subst. exists l. split; [reflexivity|].
  intros x. destruct (varint_roundtrip (zlen v) x) as [l' [El' R]]; [unfold small in Hs; pose proof (zlen_nonneg v); lia|].
  rewrite El in El'. inversion El'; subst. exact R.
Qed.

Lemma serialize_script_raw sc e :
  serialize_script sc = Ok e -> exists raw, raw_serialize sc = Ok raw /\ encode_varstr raw = Ok e.
Proof.
  unfold serialize_script. destruct (raw_serialize sc) as [raw|]; cbn; [|discriminate]. eauto.
Qed.

(* ---- the output map ---- *)
Section OutMap.
Variable sec_ok : bytes -> bool.
Variable net : option Psbt.net.

Notation OL := (out_loop sec_ok).

Definition with_redeem (st : psbt_out) v :=
  {| po_redeem := v; po_wscript := po_wscript st; po_named := po_named st; po_extra := po_extra st |}.
Definition with_wscript (st : psbt_out) v :=
  {| po_redeem := po_redeem st; po_wscript := v; po_named := po_named st; po_extra := po_extra st |}.
Definition with_named (st : psbt_out) v :=
  {| po_redeem := po_redeem st; po_wscript := po_wscript st; po_named := v; po_extra := po_extra st |}.
Definition with_extra (st : psbt_out) v :=
  {| po_redeem := po_redeem st; po_wscript := po_wscript st; po_named := po_named st; po_extra := v |}.

Definition oreach := reach (fun f s st => OL f net s st).

Lemma out_step_redeem sc e rest st :
  serialize_script sc = Ok e -> (forall r, parse_script (e ++ r) = Ok (sc, r)) ->
  po_redeem st = None ->
  oreach (1 :: 0 :: e ++ rest) st rest (with_redeem st (Some sc)).
Proof.
  intros He Hp Hn fuel Hf. destruct fuel as [|f]; [cbn in Hf; lia|].
  exists f. split.
  - cbn [length] in Hf. rewrite app_length in Hf. lia.
  - cbn [out_loop]. rewrite read_varstr_key1. cbn [bind Z.eqb check]. rewrite Hn. cbn [is_some negb check bind].
    rewrite Hp. reflexivity.
Qed.

Lemma out_step_wscript sc e rest st :
  serialize_script sc = Ok e -> (forall r, parse_script (e ++ r) = Ok (sc, r)) ->
  po_wscript st = None ->
  oreach (1 :: 1 :: e ++ rest) st rest (with_wscript st (Some sc)).
Proof.
  intros He Hp Hn fuel Hf. destruct fuel as [|f]; [cbn in Hf; lia|].
  exists f. split.
  - cbn [length] in Hf. rewrite app_length in Hf. lia.
  - cbn [out_loop]. rewrite read_varstr_key1. cbn [bind Z.eqb check]. rewrite Hn. cbn [is_some negb check bind].
    rewrite Hp. reflexivity.
Qed.

Definition named_ok (e : bytes * bytes) : Prop :=
  length (fst e) = 33%nat /\ sec_ok (fst e) = true /\ small (snd e) /\
  exists n, raw_path_net (snd e) net = Ok n.

Lemma out_step_named sec path e rest st :
  named_ok (sec, path) -> kv (2 :: sec) path = Ok e ->
  oreach (e ++ rest) st rest (with_named st (dset sec path (po_named st))).
Proof.
  intros (Hl & Hs & Hp & n & Hn) He fuel Hf. cbn [fst snd] in *.
  assert (Hk : small (2 :: sec)) by (unfold small, zlen; cbn [length]; rewrite Hl; lia).
  destruct (kv_split (2 :: sec) path e rest Hk Hp He) as [ev [R1 [R2 Hlen]]].
  destruct fuel as [|f]; [lia|]. exists f. split.
  - rewrite app_length in Hf. lia.
  - cbn [out_loop]. rewrite R1. cbn [bind Z.eqb]. cbn [length]. rewrite Hl. cbn [Nat.eqb check bind].
    unfold named_parse. rewrite Hs. cbn [check bind]. rewrite R2. cbn [bind]. rewrite Hn. reflexivity.
Qed.

Definition unknown_out (k : bytes) : Prop :=
  match k with t :: _ => t <> 0 /\ t <> 1 /\ t <> 2 | [] => False end.

Lemma out_step_extra k v e rest st :
  unknown_out k -> small k -> small v -> kv k v = Ok e -> truthy_bytes (dget (po_extra st) k) = false ->
  oreach (e ++ rest) st rest (with_extra st (dset k v (po_extra st))).
Proof.
  intros Hu Hk Hv He Hd fuel Hf.
  destruct (kv_split k v e rest Hk Hv He) as [ev [R1 [R2 Hlen]]].
  destruct fuel as [|f]; [lia|]. exists f. split.
  - rewrite app_length in Hf. lia.
  - cbn [out_loop]. rewrite R1. cbn [bind]. destruct k as [|t kr]; [contradiction|].
    destruct Hu as (H0 & H1 & H2).
    destruct (t =? 0) eqn:E0; [apply Z.eqb_eq in E0; contradiction|].
    destruct (t =? 1) eqn:E1; [apply Z.eqb_eq in E1; contradiction|].
    destruct (t =? 2) eqn:E2; [apply Z.eqb_eq in E2; contradiction|].
    rewrite Hd. cbn [negb check bind]. rewrite R2. reflexivity.
Qed.

(* a sorted list of derivation records, inserted over an accumulator without those keys *)
Lemma out_named_list l : dsorted l -> Forall named_ok l ->
  forall b rest st, concat_res (map (fun e => kv (2 :: fst e) (snd e)) l) = Ok b ->
  oreach (b ++ rest) st rest (with_named st (dins (po_named st) l)).
Proof.
  intros Hs. induction Hs as [|k v r Hall Hs IH]; intros Hok b rest st Hb.
  - cbn in Hb. inversion Hb; subst. destruct st; apply reach_refl.
  - inversion Hok as [|? ? Hkv Hok']; subst.
    cbn [map concat_res fst snd] in Hb.
    destruct (kv (2 :: k) v) as [e|] eqn:Ee; cbn [bind] in Hb; [|discriminate].
    destruct (concat_res (map (fun e0 => kv (2 :: fst e0) (snd e0)) r)) as [b'|] eqn:Eb; cbn [bind] in Hb; [|discriminate].
    inversion Hb; subst b. rewrite <- app_assoc.
    eapply reach_trans; [apply (out_step_named k v e (b' ++ rest) st Hkv Ee)|].
    specialize (IH Hok' b' rest (with_named st (dset k v (po_named st))) eq_refl).
    cbn in IH. exact IH.
Qed.

Lemma out_extra_list l : dsorted l ->
  Forall (fun e => unknown_out (fst e) /\ small (fst e) /\ small (snd e)) l ->
  forall b rest st, concat_res (map (fun e => kv (fst e) (snd e)) l) = Ok b ->
  (forall k, In k (dkeys l) -> dget (po_extra st) k = None) ->
  oreach (b ++ rest) st rest (with_extra st (dins (po_extra st) l)).
Proof.
  intros Hs. induction Hs as [|k v r Hall Hs IH]; intros Hok b rest st Hb Hfresh.
  - cbn in Hb. inversion Hb; subst. destruct st; apply reach_refl.
  - inversion Hok as [|? ? (Hu & Hk & Hv) Hok']; subst. cbn [fst snd] in *.
    cbn [map concat_res fst snd] in Hb.
    destruct (kv k v) as [e|] eqn:Ee; cbn [bind] in Hb; [|discriminate].
    destruct (concat_res (map (fun e0 => kv (fst e0) (snd e0)) r)) as [b'|] eqn:Eb; cbn [bind] in Hb; [|discriminate].
    inversion Hb; subst b. rewrite <- app_assoc.
    eapply reach_trans.
    + apply (out_step_extra k v e (b' ++ rest) st Hu Hk Hv Ee).
      rewrite (Hfresh k) by (cbn; now left). reflexivity.
    + specialize (IH Hok' b' rest (with_extra st (dset k v (po_extra st))) eq_refl).
      cbn in IH. apply IH. intros k1 Hin. rewrite dget_dset_other.
      * apply Hfresh. cbn. now right.
      * intros ->. unfold dkeys in Hin. apply in_map_iff in Hin as [[k2 v2] [E2 Hin]]. cbn in E2. subst k2.
        rewrite Forall_forall in Hall. specialize (Hall _ Hin). cbn in Hall. rewrite bcmp_refl in Hall. discriminate.
Qed.

Record canon_out (st : psbt_out) : Prop := {
  cno_rs : forall sc, po_redeem st = Some sc -> script_exact sc;
  cno_ws : forall sc, po_wscript st = Some sc -> script_exact sc;
  cno_named_sorted : dsorted (po_named st);
  cno_named_ok : Forall named_ok (po_named st);
  cno_extra_sorted : dsorted (po_extra st);
  cno_extra_ok : Forall (fun e => unknown_out (fst e) /\ small (fst e) /\ small (snd e)) (po_extra st) }.

Lemma opt_script_piece (o : option script) t b :
  opt_ser o (fun sc => r <- raw_serialize sc ;; kv [t] r) = Ok b ->
  (forall sc, o = Some sc -> script_exact sc) ->
  match o with
  | None => b = []
  | Some sc => exists e, serialize_script sc = Ok e /\ (forall r, parse_script (e ++ r) = Ok (sc, r)) /\
                         b = 1 :: t :: e
  end.
Proof.
  intros Hb Hex. destruct o as [sc|]; cbn in Hb; [|now inversion Hb].
  destruct (Hex sc eq_refl) as [e [He Hp]]. exists e. repeat split; try assumption.
  apply serialize_script_raw in He as [raw [Hr Hev]]. rewrite Hr in Hb. cbn [bind] in Hb.
  apply kv_key1 in Hb as [ev [Hev' ->]]. congruence.
Qed.

(* the loop of PSBTOut.parse inverts PSBTOut.serialize on canonical records *)
Lemma out_loop_roundtrip st b :
  canon_out st -> out_serialize st = Ok b ->
  forall rest fuel, (length (b ++ rest) < fuel)%nat -> OL fuel net (b ++ rest) empty_out = Ok (st, rest).
Proof.
  intros [Crs Cws Cns Cnok Ces Ceok] Hb rest fuel Hf.
  unfold out_serialize in Hb.
  apply bind_ok in Hb as [rs [Hrs Hb]]. apply bind_ok in Hb as [ws [Hws Hb]].
  apply bind_ok in Hb as [np [Hnp Hb]]. apply bind_ok in Hb as [ex [Hex Hb]]. inversion Hb; subst b.
  pose proof (opt_script_piece _ 0 rs Hrs Crs) as Prs.
  pose proof (opt_script_piece _ 1 ws Hws Cws) as Pws.
  assert (R : oreach ((rs ++ ws ++ np ++ ex ++ [0]) ++ rest) empty_out (0 :: rest) st).
  { rewrite <- !app_assoc.
    (* redeem script *)
    eapply reach_trans with (s2 := ws ++ np ++ ex ++ [0] ++ rest) (st2 := with_redeem empty_out (po_redeem st)).
    { destruct (po_redeem st) as [sc|]; [|subst rs; apply reach_refl].
      destruct Prs as (e & He & Hp & ->). cbn [app].
      apply (out_step_redeem sc e _ empty_out He Hp eq_refl). }
    eapply reach_trans with (s2 := np ++ ex ++ [0] ++ rest)
                            (st2 := with_wscript (with_redeem empty_out (po_redeem st)) (po_wscript st)).
    { destruct (po_wscript st) as [sc|]; [|subst ws; apply reach_refl].
      destruct Pws as (e & He & Hp & ->). cbn [app].
      apply (out_step_wscript sc e _ (with_redeem empty_out (po_redeem st)) He Hp eq_refl). }
    eapply reach_trans.
    { apply (out_named_list (po_named st) Cns Cnok np _ _ Hnp). }
    eapply reach_trans.
    { apply (out_extra_list (po_extra st) Ces Ceok ex _ _ Hex). intros k _. reflexivity. }
    cbn [with_named with_extra with_wscript with_redeem po_redeem po_wscript po_named po_extra empty_out].
    rewrite !dins_nil_sorted by assumption. destruct st; apply reach_refl. }
  destruct (R fuel Hf) as [f' [Hf' E]]. rewrite E.
  destruct f' as [|f'']; [cbn in Hf'; lia|].
  cbn [out_loop]. rewrite read_varstr_zero. reflexivity.
Qed.

End OutMap.

(* ---- the input map ---- *)
Lemma dget_dins_notin {V} (l acc : dict V) k :
  ~ In k (dkeys l) -> dget (dins acc l) k = dget acc k.
Proof.
  revert acc. induction l as [|[k0 v0] r IH]; intros acc Hn; cbn; [reflexivity|].
  unfold dins in IH. rewrite IH by (intros H; apply Hn; cbn; now right).
  apply dget_dset_other. intros ->. apply Hn. cbn. now left.
Qed.

Section InMap.
Variable hash160 sha256 hash256 : bytes -> bytes.
Variable sec_ok : bytes -> bool.
Variable net : option Psbt.net.
Variable ti : txin.

Notation IL := (in_loop sec_ok).
Definition ireach := reach (fun f s st => IL f net ti s st).

Ltac fuel_step fuel Hf f :=
  destruct fuel as [|f]; [cbn in Hf; lia|]; exists f; split;
  [ cbn [length] in Hf; repeat rewrite app_length in Hf; cbn [length] in Hf; lia | ].

Lemma in_step_prev_tx pt ser e rest st :
  tx_serialize pt = Ok ser -> small ser -> (forall r, tx_parse (ser ++ r) = Ok (pt, r)) ->
  is_some (nthz (t_outs pt) (i_prev_index ti)) = true ->
  kv [0] ser = Ok e -> pi_prev_tx st = None ->
  ireach (e ++ rest) st rest (set_prev_tx st (Some pt)).
Proof.
  intros Hser Hsm Hp Hidx He Hn fuel Hf.
  apply kv_key1 in He as [ev [Hev ->]]. destruct (encode_varstr_split ser ev Hev Hsm) as [l [-> Hl]].
  fuel_step fuel Hf f.
  cbn [app in_loop]. rewrite read_varstr_key1. cbn [bind Z.eqb check]. rewrite Hn. cbn [is_some negb check bind].
  rewrite <- app_assoc, Hl. cbn [bind]. rewrite Hp. cbn [bind]. rewrite Hser. cbn [bind].
  rewrite Z.eqb_refl. cbn [check bind]. rewrite Hidx. reflexivity.
Qed.

Lemma in_step_prev_out po ser e rest st :
  txout_serialize po = Ok ser -> small ser -> (forall r, txout_parse (ser ++ r) = Ok (po, r)) ->
  kv [1] ser = Ok e -> pi_prev_out st = None ->
  ireach (e ++ rest) st rest (set_prev_out st (Some po)).
Proof.
  intros Hser Hsm Hp He Hn fuel Hf.
  apply kv_key1 in He as [ev [Hev ->]]. destruct (encode_varstr_split ser ev Hev Hsm) as [l [-> Hl]].
  fuel_step fuel Hf f.
  cbn [app in_loop]. rewrite read_varstr_key1. cbn [bind Z.eqb Pos.eqb check].
  rewrite <- app_assoc, Hl. cbn [bind check]. rewrite Hn. cbn [is_some negb check bind].
  rewrite Hp. cbn [bind]. rewrite Hser. cbn [bind]. rewrite Z.eqb_refl. reflexivity.
Qed.

Lemma in_step_sig k v e rest st :
  small (2 :: k) -> small v -> kv (2 :: k) v = Ok e -> truthy_bytes (dget (pi_sigs st) k) = false ->
  ireach (e ++ rest) st rest (set_sigs st (dset k v (pi_sigs st))).
Proof.
  intros Hk Hv He Hd fuel Hf.
  destruct (kv_split (2 :: k) v e rest Hk Hv He) as [ev [R1 [R2 Hlen]]].
  destruct fuel as [|f]; [lia|]. exists f. split; [rewrite app_length in Hf; lia|].
  cbn [in_loop]. rewrite R1. cbn [bind Z.eqb Pos.eqb]. rewrite Hd. cbn [negb check bind]. rewrite R2. reflexivity.
Qed.

Lemma in_step_hash_type h e rest st :
  0 <= h < 4294967296 -> kv [3] (to_le 4 h) = Ok e -> pi_hash_type st = None ->
  ireach (e ++ rest) st rest (set_hash_type st (Some h)).
Proof.
  intros Hh He Hn fuel Hf.
  assert (Hs : small (to_le 4 h)) by (unfold small, zlen; rewrite to_le_length; lia).
  apply kv_key1 in He as [ev [Hev ->]].
  destruct (varstr_roundtrip (to_le 4 h) rest Hs) as [ev' [Hev' R]]. rewrite Hev in Hev'. inversion Hev'; subst ev'.
  fuel_step fuel Hf f.
  cbn [app in_loop]. rewrite read_varstr_key1. cbn [bind Z.eqb Pos.eqb check]. rewrite Hn.
  cbn [truthy_int negb check bind]. rewrite R. cbn [bind]. rewrite to_le_length. cbn [Nat.eqb check bind].
  rewrite from_le_to_le by (rewrite pow256_4; lia).
  reflexivity.
Qed.

Lemma in_step_script (t : Z) (sel : psbt_in -> option script) (upd : psbt_in -> option script -> psbt_in)
      sc e rest st :
  serialize_script sc = Ok e -> (forall r, parse_script (e ++ r) = Ok (sc, r)) -> sel st = None ->
  (t = 4 /\ sel = pi_redeem /\ upd = set_redeem) \/ (t = 5 /\ sel = pi_wscript /\ upd = set_wscript)
  \/ (t = 7 /\ sel = pi_script_sig /\ upd = set_script_sig) ->
  ireach (1 :: t :: e ++ rest) st rest (upd st (Some sc)).
Proof.
  intros He Hp Hn Hc fuel Hf. fuel_step fuel Hf f.
  cbn [in_loop]. rewrite read_varstr_key1.
  destruct Hc as [(-> & -> & ->)|[(-> & -> & ->)|(-> & -> & ->)]];
    cbn [bind Z.eqb Pos.eqb check]; rewrite Hn; cbn [is_some negb check bind]; rewrite Hp; reflexivity.
Qed.

Definition named_ok_in (e : bytes * bytes) : Prop :=
  length (fst e) = 33%nat /\ sec_ok (fst e) = true /\ small (snd e) /\
  exists n, raw_path_net (snd e) net = Ok n.

Lemma in_step_named sec path e rest st :
  named_ok_in (sec, path) -> kv (6 :: sec) path = Ok e ->
  ireach (e ++ rest) st rest (set_named st (dset sec path (pi_named st))).
Proof.
  intros (Hl & Hs & Hp & n & Hn) He fuel Hf. cbn [fst snd] in *.
  assert (Hk : small (6 :: sec)) by (unfold small, zlen; cbn [length]; rewrite Hl; lia).
  destruct (kv_split (6 :: sec) path e rest Hk Hp He) as [ev [R1 [R2 Hlen]]].
  destruct fuel as [|f]; [lia|]. exists f. split; [rewrite app_length in Hf; lia|].
  cbn [in_loop]. rewrite R1. cbn [bind Z.eqb Pos.eqb]. cbn [length]. rewrite Hl. cbn [Nat.eqb check bind].
  unfold named_parse. rewrite Hs. cbn [check bind]. rewrite R2. cbn [bind]. rewrite Hn. reflexivity.
Qed.

Lemma in_step_witness w ser e rest st :
  witness_serialize w = Ok ser -> small ser -> (forall r, witness_parse (ser ++ r) = Ok (w, r)) ->
  kv [8] ser = Ok e -> truthy_wit (pi_witness st) = false ->
  ireach (e ++ rest) st rest (set_witness st (Some w)).
Proof.
  intros Hser Hsm Hp He Hn fuel Hf.
  apply kv_key1 in He as [ev [Hev ->]]. destruct (encode_varstr_split ser ev Hev Hsm) as [l [-> Hl]].
  fuel_step fuel Hf f.
  cbn [app in_loop]. rewrite read_varstr_key1. cbn [bind Z.eqb Pos.eqb check]. rewrite Hn. cbn [negb check bind].
  rewrite <- app_assoc, Hl. cbn [bind]. rewrite Hp. reflexivity.
Qed.

Definition unknown_in (k : bytes) : Prop :=
  match k with t :: _ => t < 0 \/ 8 < t | [] => False end.

Lemma in_step_extra k v e rest st :
  unknown_in k -> small k -> small v -> kv k v = Ok e -> truthy_bytes (dget (pi_extra st) k) = false ->
  ireach (e ++ rest) st rest (set_extra st (dset k v (pi_extra st))).
Proof.
  intros Hu Hk Hv He Hd fuel Hf.
  destruct (kv_split k v e rest Hk Hv He) as [ev [R1 [R2 Hlen]]].
  destruct fuel as [|f]; [lia|]. exists f. split; [rewrite app_length in Hf; lia|].
  cbn [in_loop]. rewrite R1. cbn [bind]. destruct k as [|t kr]; [contradiction|]. cbn in Hu.
  assert (E : forall c, 0 <= c <= 8 -> (t =? c) = false) by (intros c Hc; apply Z.eqb_neq; lia).
  rewrite !E by lia.
  rewrite Hd. cbn [negb check bind]. rewrite R2. reflexivity.
Qed.

(* lists *)
Lemma in_sig_list (l : dict bytes) : NoDup (dkeys l) ->
  Forall (fun e => small (2 :: fst e) /\ small (snd e)) l ->
  forall b rest st, concat_res (map (fun e => kv (2 :: fst e) (snd e)) l) = Ok b ->
  (forall k, In k (dkeys l) -> dget (pi_sigs st) k = None) ->
  ireach (b ++ rest) st rest (set_sigs st (dins (pi_sigs st) l)).
Proof.
  induction l as [|[k v] r IH]; intros Hnd Hok b rest st Hb Hfresh.
  - cbn in Hb. inversion Hb; subst. destruct st; apply reach_refl.
  - inversion Hok as [|? ? (Hk & Hv) Hok']; subst. cbn [fst snd] in *.
    cbn [dkeys map fst] in Hnd. inversion Hnd as [|? ? Hnin Hnd']; subst.
    cbn [map concat_res fst snd] in Hb.
    destruct (kv (2 :: k) v) as [e|] eqn:Ee; cbn [bind] in Hb; [|discriminate].
    destruct (concat_res (map (fun e0 => kv (2 :: fst e0) (snd e0)) r)) as [b'|] eqn:Eb; cbn [bind] in Hb; [|discriminate].
    inversion Hb; subst b. rewrite <- app_assoc.
    eapply reach_trans.
    + apply (in_step_sig k v e (b' ++ rest) st Hk Hv Ee). rewrite (Hfresh k) by (cbn; now left). reflexivity.
    + specialize (IH Hnd' Hok' b' rest (set_sigs st (dset k v (pi_sigs st))) eq_refl).
      cbn in IH. apply IH. intros k1 Hin. rewrite dget_dset_other.
      * apply Hfresh. cbn. now right.
      * intros ->. now apply Hnin.
Qed.

Lemma in_named_list l : dsorted l -> Forall named_ok_in l ->
  forall b rest st, concat_res (map (fun e => kv (6 :: fst e) (snd e)) l) = Ok b ->
  ireach (b ++ rest) st rest (set_named st (dins (pi_named st) l)).
Proof.
  intros Hs. induction Hs as [|k v r Hall Hs IH]; intros Hok b rest st Hb.
  - cbn in Hb. inversion Hb; subst. destruct st; apply reach_refl.
  - inversion Hok as [|? ? Hkv Hok']; subst.
    cbn [map concat_res fst snd] in Hb.
    destruct (kv (6 :: k) v) as [e|] eqn:Ee; cbn [bind] in Hb; [|discriminate].
    destruct (concat_res (map (fun e0 => kv (6 :: fst e0) (snd e0)) r)) as [b'|] eqn:Eb; cbn [bind] in Hb; [|discriminate].
    inversion Hb; subst b. rewrite <- app_assoc.
    eapply reach_trans; [apply (in_step_named k v e (b' ++ rest) st Hkv Ee)|].
    specialize (IH Hok' b' rest (set_named st (dset k v (pi_named st))) eq_refl).
    cbn in IH. exact IH.
Qed.

Lemma in_extra_list l : dsorted l ->
  Forall (fun e => unknown_in (fst e) /\ small (fst e) /\ small (snd e)) l ->
  forall b rest st, concat_res (map (fun e => kv (fst e) (snd e)) l) = Ok b ->
  (forall k, In k (dkeys l) -> dget (pi_extra st) k = None) ->
  ireach (b ++ rest) st rest (set_extra st (dins (pi_extra st) l)).
Proof.
  intros Hs. induction Hs as [|k v r Hall Hs IH]; intros Hok b rest st Hb Hfresh.
  - cbn in Hb. inversion Hb; subst. destruct st; apply reach_refl.
  - inversion Hok as [|? ? (Hu & Hk & Hv) Hok']; subst. cbn [fst snd] in *.
    cbn [map concat_res fst snd] in Hb.
    destruct (kv k v) as [e|] eqn:Ee; cbn [bind] in Hb; [|discriminate].
    destruct (concat_res (map (fun e0 => kv (fst e0) (snd e0)) r)) as [b'|] eqn:Eb; cbn [bind] in Hb; [|discriminate].
    inversion Hb; subst b. rewrite <- app_assoc.
    eapply reach_trans.
    + apply (in_step_extra k v e (b' ++ rest) st Hu Hk Hv Ee).
      rewrite (Hfresh k) by (cbn; now left). reflexivity.
    + specialize (IH Hok' b' rest (set_extra st (dset k v (pi_extra st))) eq_refl).
      cbn in IH. apply IH. intros k1 Hin. rewrite dget_dset_other.
      * apply Hfresh. cbn. now right.
      * intros ->. unfold dkeys in Hin. apply in_map_iff in Hin as [[k2 v2] [E2 Hin]]. cbn in E2. subst k2.
        rewrite Forall_forall in Hall. specialize (Hall _ Hin). cbn in Hall. rewrite bcmp_refl in Hall. discriminate.
Qed.

(* the partial signatures as the serialiser lists them *)
Definition sig_entries (st : psbt_in) : dict bytes :=
  map (fun k => (k, dget_or_empty (pi_sigs st) k)) (sig_keys st).

Record canon_in (st : psbt_in) : Prop := {
  cni_utxo : match pi_prev_tx st with
             | Some pt => tx_exact pt /\ is_some (nthz (t_outs pt) (i_prev_index ti)) = true /\
                          pi_prev_out st = None
             | None => forall o, pi_prev_out st = Some o -> txout_exact o
             end;
  (* every partial signature is listed exactly once by the serialiser (script order or sorted) *)
  cni_sig_nodup : NoDup (sig_keys st);
  cni_sig_all : dins [] (sig_entries st) = pi_sigs st;
  cni_sig_small : Forall (fun e => small (2 :: fst e) /\ small (snd e)) (sig_entries st);
  cni_ht : forall h, pi_hash_type st = Some h -> 0 < h < 4294967296;
  cni_rs : forall sc, pi_redeem st = Some sc -> script_exact sc;
  cni_ws : forall sc, pi_wscript st = Some sc -> script_exact sc;
  cni_named_sorted : dsorted (pi_named st);
  cni_named_ok : Forall named_ok_in (pi_named st);
  cni_ss : forall sc, pi_script_sig st = Some sc -> script_exact sc;
  cni_wit : forall w, pi_witness st = Some w -> w <> [] /\ witness_exact w;
  cni_extra_sorted : dsorted (pi_extra st);
  cni_extra_ok : Forall (fun e => unknown_in (fst e) /\ small (fst e) /\ small (snd e)) (pi_extra st) }.

Lemma sig_entries_keys st : dkeys (sig_entries st) = sig_keys st.
Proof. unfold sig_entries, dkeys. rewrite map_map. cbn. apply map_id. Qed.

Lemma in_loop_roundtrip st b :
  canon_in st -> in_serialize st = Ok b ->
  forall rest fuel, (length (b ++ rest) < fuel)%nat -> IL fuel net ti (b ++ rest) empty_in = Ok (st, rest).
Proof.
  intros [Cu Cnd Call Csm Cht Crs Cws Cns Cnok Css Cwi Ces Ceok] Hb rest fuel Hf.
  unfold in_serialize in Hb.
  apply bind_ok in Hb as [ux [Hux Hb]]. apply bind_ok in Hb as [sg [Hsg Hb]].
  apply bind_ok in Hb as [ht [Hht Hb]]. apply bind_ok in Hb as [rs [Hrs Hb]].
  apply bind_ok in Hb as [ws [Hws Hb]]. apply bind_ok in Hb as [np [Hnp Hb]].
  apply bind_ok in Hb as [ss [Hss Hb]]. apply bind_ok in Hb as [wi [Hwi Hb]].
  apply bind_ok in Hb as [ex [Hex Hb]]. inversion Hb; subst b.
  pose proof (opt_script_piece _ 4 rs Hrs Crs) as Prs.
  pose proof (opt_script_piece _ 5 ws Hws Cws) as Pws.
  pose proof (opt_script_piece _ 7 ss Hss Css) as Pss.
  set (s1 := set_prev_out (set_prev_tx empty_in (pi_prev_tx st)) (pi_prev_out st)).
  set (s2 := set_sigs s1 (pi_sigs st)).
  set (s3 := set_hash_type s2 (pi_hash_type st)).
  set (s4 := set_redeem s3 (pi_redeem st)).
  set (s5 := set_wscript s4 (pi_wscript st)).
  set (s6 := set_named s5 (pi_named st)).
  set (s7 := set_script_sig s6 (pi_script_sig st)).
  set (s8 := set_witness s7 (pi_witness st)).
  assert (R : ireach ((ux ++ sg ++ ht ++ rs ++ ws ++ np ++ ss ++ wi ++ ex ++ [0]) ++ rest) empty_in (0 :: rest) st).
  { rewrite <- !app_assoc.
    set (T9 := [0] ++ rest). set (T8 := ex ++ T9). set (T7 := wi ++ T8). set (T6 := ss ++ T7).
    set (T5 := np ++ T6). set (T4 := ws ++ T5). set (T3 := rs ++ T4). set (T2 := ht ++ T3). set (T1 := sg ++ T2).
    (* utxo *)
    eapply reach_trans with (s2 := T1) (st2 := s1).
    { subst s1. destruct (pi_prev_tx st) as [pt|].
      - destruct Cu as ((ser & Hser & Hsm & Hp) & Hidx & Hno). rewrite Hno.
        rewrite Hser in Hux. cbn [bind] in Hux.
        apply (in_step_prev_tx pt ser ux _ empty_in Hser Hsm Hp Hidx Hux eq_refl).
      - destruct (pi_prev_out st) as [po|].
        + destruct (Cu po eq_refl) as (ser & Hser & Hsm & Hp). cbn [opt_ser] in Hux.
          rewrite Hser in Hux. cbn [bind] in Hux.
          apply (in_step_prev_out po ser ux _ empty_in Hser Hsm Hp Hux eq_refl).
        + cbn in Hux. inversion Hux; subst ux. apply reach_refl. }
    (* partial signatures *)
    eapply reach_trans with (s2 := T2) (st2 := s2).
    { subst s2. rewrite <- Call.
      assert (Hsg' : concat_res (map (fun e => kv (2 :: fst e) (snd e)) (sig_entries st)) = Ok sg).
      { unfold sig_entries. rewrite map_map. exact Hsg. }
      pose proof (in_sig_list (sig_entries st)) as L. rewrite sig_entries_keys in L.
      specialize (L Cnd Csm sg T2 s1 Hsg').
      apply L. intros k _. subst s1. destruct (pi_prev_tx st); destruct (pi_prev_out st); reflexivity. }
    (* sighash type *)
    eapply reach_trans with (s2 := T3) (st2 := s3).
    { subst s3. destruct (pi_hash_type st) as [h|] eqn:Eh.
      - specialize (Cht h eq_refl). cbn [truthy_int] in Hht.
        destruct (h =? 0) eqn:E0; [apply Z.eqb_eq in E0; lia|]. cbn [negb opt_ser] in Hht.
        unfold int_to_le in Hht.
        destruct ((0 <=? h) && (h <? pow256 4)) eqn:Er; cbn [bind] in Hht; [|discriminate].
        apply (in_step_hash_type h ht _ s2); [lia|exact Hht|reflexivity].
      - cbn in Hht. inversion Hht; subst ht. apply reach_refl. }
    eapply reach_trans with (s2 := T4) (st2 := s4).
    { subst s4. destruct (pi_redeem st) as [sc|]; [|subst rs; apply reach_refl].
      destruct Prs as (e & He & Hp & ->). cbn [app].
      apply (in_step_script 4 pi_redeem set_redeem sc e _ s3 He Hp eq_refl). left. auto. }
    eapply reach_trans with (s2 := T5) (st2 := s5).
    { subst s5. destruct (pi_wscript st) as [sc|]; [|subst ws; apply reach_refl].
      destruct Pws as (e & He & Hp & ->). cbn [app].
      apply (in_step_script 5 pi_wscript set_wscript sc e _ s4 He Hp eq_refl). right; left. auto. }
    eapply reach_trans with (s2 := T6) (st2 := s6).
    { subst s6. pose proof (in_named_list (pi_named st) Cns Cnok np T6 s5 Hnp) as L.
      replace (dins (pi_named s5) (pi_named st)) with (pi_named st) in L; [exact L|].
      symmetry. apply dins_nil_sorted. exact Cns. }
    eapply reach_trans with (s2 := T7) (st2 := s7).
    { subst s7. destruct (pi_script_sig st) as [sc|]; [|subst ss; apply reach_refl].
      destruct Pss as (e & He & Hp & ->). cbn [app].
      apply (in_step_script 7 pi_script_sig set_script_sig sc e _ s6 He Hp eq_refl). right; right. auto. }
    eapply reach_trans with (s2 := T8) (st2 := s8).
    { subst s8. destruct (pi_witness st) as [w|] eqn:Ew.
      - destruct (Cwi w eq_refl) as (Hne & ser & Hser & Hsm & Hp).
        destruct w as [|w0 wr]; [now elim Hne|]. cbn [truthy_wit opt_ser] in Hwi.
        rewrite Hser in Hwi. cbn [bind] in Hwi.
        apply (in_step_witness (w0 :: wr) ser wi _ s7 Hser Hsm Hp Hwi). reflexivity.
      - cbn in Hwi. inversion Hwi; subst wi. apply reach_refl. }
    { pose proof (in_extra_list (pi_extra st) Ces Ceok ex T9 s8 Hex) as L.
      replace (set_extra s8 (dins (pi_extra s8) (pi_extra st))) with st in L.
      - apply L. intros k _. reflexivity.
      - subst s8 s7 s6 s5 s4 s3 s2 s1. cbn. rewrite dins_nil_sorted by exact Ces. destruct st; reflexivity. } }
  destruct (R fuel Hf) as [f' [Hf' E]]. rewrite E.
  destruct f' as [|f'']; [cbn in Hf'; lia|].
  cbn [in_loop]. rewrite read_varstr_zero. reflexivity.
Qed.

End InMap.

(* the signature conditions of [canon_in] hold whenever the serialiser lists the partial
   signatures in sorted order (no multisig script attached) and the dictionary is sorted *)
Lemma sig_canon_sorted st :
  sig_keys st = dkeys (pi_sigs st) -> dsorted (pi_sigs st) ->
  NoDup (sig_keys st) /\ dins [] (sig_entries st) = pi_sigs st.
Proof.
  intros Hk Hs.
  assert (E : sig_entries st = pi_sigs st).
  { unfold sig_entries. rewrite Hk. unfold dkeys. rewrite map_map.
    clear Hk. induction Hs as [|k v r Hall Hs' IH]; [reflexivity|].
    cbn [map fst]. f_equal.
    - unfold dget_or_empty. cbn. now rewrite bcmp_refl.
    - rewrite <- IH at 2. apply map_ext_in. intros [k1 v1] Hin. cbn [fst]. f_equal.
      unfold dget_or_empty. cbn [dget].
      rewrite Forall_forall in Hall. specialize (Hall _ Hin). cbn in Hall.
      apply bcmp_lt_gt in Hall. now rewrite Hall. }
  split.
  - rewrite Hk. clear Hk E. induction Hs as [|k v r Hall Hs' IH]; cbn; constructor; [|exact IH].
    intros Hin. unfold dkeys in Hin. apply in_map_iff in Hin as [[k2 v2] [E2 Hin]]. cbn in E2. subst k2.
    rewrite Forall_forall in Hall. specialize (Hall _ Hin). cbn in Hall. rewrite bcmp_refl in Hall. discriminate.
  - rewrite E. now apply dins_nil_sorted.
Qed.
