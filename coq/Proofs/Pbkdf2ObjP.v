(* Proofs/Pbkdf2ObjP.v — the vendored PBKDF2 object beyond the happy path:
   (a) read(dkLen) agrees with RFC 8018 on the WHOLE domain dkLen >= 0, any iteration count,
       including both error branches ("iterations must be at least 1", "derived key too long");
   (b) a session of read / hexread calls followed by close() and anything else: the reads are
       the consecutive pieces of the RFC key, hexread is the hex spelling of read, a closed
       object refuses every read. *)
From V Require Import Base.Prelude Base.Ints Model.Mnemonic Model.Pbkdf2 Model.Pbkdf2Obj Spec.Pbkdf2S
  Proofs.Pbkdf2P.

Section P.
  Variable prf : bytes -> bytes -> bytes.
  Variable hLen : Z.
  Hypothesis prf_len : forall k m, zlen (prf k m) = hLen.
  Hypothesis hLen_pos : 0 < hLen.

  (* the loop runs out of block numbers before it has collected n bytes *)
  Lemma read_loop_overflow P S c (Hc : 1 <= c) fuel : forall size n i acc,
    0 <= i <= 4294967295 -> size + (4294967295 - i) * hLen < n ->
    4294967295 - i < Z.of_nat fuel ->
    read_loop prf fuel P S c size n i acc = Err.
  Proof.
    induction fuel as [|fuel IH]; intros size n i acc Hi Hs Hf; [lia|].
    cbn [read_loop]. destruct (size <? n) eqn:E; [|nia].
    destruct (Z.eq_dec i 4294967295) as [->|Hne].
    - reflexivity.
    - destruct (i + 1 >? 4294967295) eqn:E1; [lia|].
      destruct (i + 1 <? 1) eqn:E2; [lia|]. cbn [orb].
      assert (Lb : zlen (pb_f prf P S c (i + 1)) = hLen).
      { rewrite (pb_f_F prf) by exact Hc. unfold zlen.
        rewrite (F_length prf hLen prf_len) by lia. lia. }
      rewrite Lb. apply IH; [lia | nia | lia].
  Qed.

  Lemma pbkdf2_read_too_long P S c dkLen : 1 <= c -> 4294967295 * hLen < dkLen ->
    pbkdf2_read prf P S c dkLen = Err /\ pbkdf2 prf hLen P S c dkLen = Err.
  Proof.
    intros Hc Hd. split.
    - unfold pbkdf2_read, pb_init. destruct (c <? 1) eqn:E; [lia|]. cbn [bind].
      unfold pb_read. cbn [p_pass p_salt p_iter p_buf p_block].
      rewrite (read_loop_overflow P S c Hc); [reflexivity | lia | |].
      + change (zlen (@nil Z)) with 0. lia.
      + nia.
    - unfold pbkdf2. destruct (c <? 1) eqn:E; [lia|].
      destruct (dkLen <? 0) eqn:E1; [nia|].
      destruct (dkLen >? 4294967295 * hLen) eqn:E2; [reflexivity | lia].
  Qed.

  (* (a) the whole domain *)
  Theorem pbkdf2_read_eq_rfc8018_total P S c dkLen : 0 <= dkLen ->
    pbkdf2_read prf P S c dkLen = pbkdf2 prf hLen P S c dkLen.
  Proof.
    intros Hd. destruct (Z.lt_ge_cases c 1) as [Hc|Hc].
    - destruct (pbkdf2_iterations_lt_1 prf hLen P S c dkLen Hc) as [-> ->]. reflexivity.
    - destruct (Z.le_gt_cases dkLen (4294967295 * hLen)) as [L|L].
      + apply (pbkdf2_read_eq_rfc8018 prf hLen prf_len hLen_pos); unfold MAXBLK; lia.
      + destruct (pbkdf2_read_too_long P S c dkLen Hc L) as [-> ->]. reflexivity.
  Qed.

  (* what the code does with a negative size (RFC: not a key length; hashlib raises):
     nothing is derived, the empty string is returned *)
  Lemma pbkdf2_read_negative P S c n : 1 <= c -> n < 0 -> pbkdf2_read prf P S c n = Ok [].
  Proof.
    intros Hc Hn. unfold pbkdf2_read, pb_init. destruct (c <? 1) eqn:E; [lia|]. cbn [bind].
    unfold pb_read. cbn [p_pass p_salt p_iter p_buf p_block]. change (zlen (@nil Z)) with 0.
    destruct (Z.to_nat n); cbn [read_loop]; destruct (0 <? n) eqn:E1; try lia; cbn [bind];
      unfold slice_to; destruct (n <? 0); destruct (Z.to_nat _); reflexivity.
  Qed.

  (* ---- sessions ---- *)

  Lemma po_run_closed ops : forall o, po_closed o = true ->
    po_run prf o ops = map closed_result ops.
  Proof.
    induction ops as [|op ops IH]; intros o Hc; [reflexivity|].
    destruct op as [n|n|]; cbn [po_run map closed_result].
    - unfold po_read. rewrite Hc. now rewrite IH.
    - unfold po_hexread, po_read. rewrite Hc. cbn [bind]. now rewrite IH.
    - now rewrite IH.
  Qed.

  Lemma po_run_reads rs : forall st outs ops',
    pb_reads prf st (map snd rs) = Ok outs ->
    po_run prf {| po_state := st; po_closed := false |} (map rd_op rs ++ PClose :: ops') =
    map (fun pb => rd_out (fst pb) (snd pb)) (combine rs outs) ++ Ok [] :: map closed_result ops'.
  Proof.
    induction rs as [|[hx n] rs IH]; intros st outs ops' R.
    - cbn [map pb_reads] in R. injection R as <-. cbn [map app combine po_run].
      now rewrite po_run_closed.
    - cbn [map snd pb_reads] in R.
      destruct (pb_read prf st n) as [[b st']|] eqn:E; cbn [bind] in R; [|discriminate].
      destruct (pb_reads prf st' (map snd rs)) as [t|] eqn:Et; cbn [bind] in R; [|discriminate].
      injection R as <-. cbn [map app combine]. unfold rd_op at 1. cbn [fst snd].
      destruct hx; cbn [po_run]; unfold po_hexread, po_read; cbn [po_closed po_state];
        rewrite E; cbn [bind]; rewrite (IH st' t ops' Et); reflexivity.
  Qed.

  (* (b) reads and hexreads, close, then anything *)
  Theorem pbkdf2_object_session P S c (rs : list (bool * Z)) ops' :
    1 <= c -> Forall (fun n => 0 <= n) (map snd rs) ->
    zsum_l (map snd rs) <= 4294967295 * hLen ->
    exists outs,
      po_session prf P S c (map rd_op rs ++ PClose :: ops') =
        Ok (map (fun pb => rd_out (fst pb) (snd pb)) (combine rs outs)
            ++ Ok [] :: map closed_result ops') /\
      Forall2 (fun (o : bytes) n => zlen o = n) outs (map snd rs) /\
      pbkdf2 prf hLen P S c (zsum_l (map snd rs)) = Ok (concat outs).
  Proof.
    intros Hc Hpos Hb.
    destruct (pbkdf2_reads_eq_rfc8018 prf hLen prf_len hLen_pos P S c (map snd rs) Hc Hpos Hb)
      as (outs & R & F2 & E).
    exists outs. split; [|split; assumption].
    unfold po_session, po_new. unfold pb_init in *. destruct (c <? 1); [discriminate|].
    cbn [bind] in *. now rewrite (po_run_reads rs _ outs ops' R).
  Qed.
End P.

Print Assumptions pbkdf2_read_eq_rfc8018_total.
Print Assumptions pbkdf2_read_negative.
Print Assumptions pbkdf2_object_session.
