(* Proofs/HelperP.v — compact-size / var-string codec lemmas. *)
From V Require Import Base.Prelude Base.Ints Model.Helper.

Lemma zlen_app {A} (a b : list A) : zlen (a ++ b) = zlen a + zlen b.
Proof. unfold zlen. rewrite app_length. lia. Qed.

Lemma zlen_nonneg {A} (a : list A) : 0 <= zlen a.
Proof. unfold zlen. lia. Qed.

Lemma readz_app a b : readz (zlen a) (a ++ b) = (a, b).
Proof.
  unfold readz. pose proof (zlen_nonneg a) as Ha.
  destruct (zlen a <? 0) eqn:E; [lia|].
  destruct (zlen (a ++ b) <=? zlen a) eqn:E2.
  - rewrite zlen_app in E2. assert (zlen b = 0) as Hb by (pose proof (zlen_nonneg b); lia).
    destruct b; [now rewrite app_nil_r | unfold zlen in Hb; cbn in Hb; lia].
  - unfold zlen. rewrite Nat2Z.id. f_equal.
    + rewrite firstn_app, Nat.sub_diag, firstn_all. cbn. apply app_nil_r.
    + rewrite skipn_app, Nat.sub_diag, skipn_all. reflexivity.
Qed.

Lemma readz_short n s : zlen s < n -> readz n s = (s, []).
Proof.
  intros H. unfold readz. pose proof (zlen_nonneg s).
  destruct (n <? 0) eqn:E; [lia|]. destruct (zlen s <=? n) eqn:E2; [reflexivity|lia].
Qed.

Lemma readz_length n s : 0 <= n -> zlen (fst (readz n s)) = Z.min n (zlen s).
Proof.
  intros Hn. unfold readz. destruct (n <? 0) eqn:E; [lia|].
  destruct (zlen s <=? n) eqn:E2; cbn [fst].
  - lia.
  - unfold zlen in *. rewrite firstn_length. lia.
Qed.

Lemma firstn_app_exact {A} (a b : list A) n : length a = n -> firstn n (a ++ b) = a.
Proof. intros <-. rewrite firstn_app, Nat.sub_diag, firstn_all. cbn. apply app_nil_r. Qed.

Lemma skipn_app_exact {A} (a b : list A) n : length a = n -> skipn n (a ++ b) = b.
Proof. intros <-. rewrite skipn_app, Nat.sub_diag, skipn_all. reflexivity. Qed.

(* every integer of the protocol range encodes, and decoding returns it and
   leaves the rest of the stream untouched *)
Lemma varint_roundtrip i rest :
  0 <= i < 18446744073709551616 ->
  exists b, encode_varint i = Ok b /\ read_varint (b ++ rest) = Ok (i, rest).
Proof.
  intros Hi. unfold encode_varint.
  destruct (i <? 0) eqn:E0; [lia|].
  destruct (i <? 253) eqn:E1.
  { exists [i]. split; [reflexivity|]. cbn.
    destruct (i =? 253) eqn:A; [lia|]. destruct (i =? 254) eqn:B; [lia|].
    destruct (i =? 255) eqn:C; [lia|]. reflexivity. }
  destruct (i <? 65536) eqn:E2.
  { eexists. split; [reflexivity|]. cbn [app read_varint]. cbn [Z.eqb Pos.eqb].
    rewrite firstn_app_exact, skipn_app_exact by apply to_le_length.
    rewrite from_le_to_le; [reflexivity|]. rewrite pow256_2. lia. }
  destruct (i <? 4294967296) eqn:E3.
  { eexists. split; [reflexivity|]. cbn [app read_varint]. cbn [Z.eqb Pos.eqb].
    rewrite firstn_app_exact, skipn_app_exact by apply to_le_length.
    rewrite from_le_to_le; [reflexivity|]. rewrite pow256_4. lia. }
  destruct (i <? 18446744073709551616) eqn:E4; [|lia].
  eexists. split; [reflexivity|]. cbn [app read_varint]. cbn [Z.eqb Pos.eqb].
  rewrite firstn_app_exact, skipn_app_exact by apply to_le_length.
  rewrite from_le_to_le; [reflexivity|]. rewrite pow256_8. lia.
Qed.

Lemma varint_rejects i : i < 0 \/ 18446744073709551616 <= i -> encode_varint i = Err.
Proof.
  intros H. unfold encode_varint.
  destruct (i <? 0) eqn:E0; [reflexivity|].
  destruct (i <? 253) eqn:E1; [lia|]. destruct (i <? 65536) eqn:E2; [lia|].
  destruct (i <? 4294967296) eqn:E3; [lia|].
  destruct (i <? 18446744073709551616) eqn:E4; [lia|reflexivity].
Qed.

(* width classes of the encoding: 1, 3, 5 or 9 bytes, minimal for the value *)
Lemma varint_width i b :
  encode_varint i = Ok b ->
  (i < 253 /\ length b = 1%nat) \/ (253 <= i < 65536 /\ length b = 3%nat) \/
  (65536 <= i < 4294967296 /\ length b = 5%nat) \/
  (4294967296 <= i /\ length b = 9%nat).
Proof.
  unfold encode_varint.
  destruct (i <? 0) eqn:E0; [discriminate|].
  destruct (i <? 253) eqn:E1; [intros H; inversion H; left; split; [lia|reflexivity]|].
  destruct (i <? 65536) eqn:E2;
    [intros H; inversion H; right; left; split; [lia| first [reflexivity | cbn [length]; now rewrite to_le_length]]|].
  destruct (i <? 4294967296) eqn:E3;
    [intros H; inversion H; right; right; left; split; [lia| first [reflexivity | cbn [length]; now rewrite to_le_length]]|].
  destruct (i <? 18446744073709551616) eqn:E4; [|discriminate].
  intros H; inversion H; right; right; right; split; [lia| first [reflexivity | cbn [length]; now rewrite to_le_length]].
Qed.

Lemma encode_varint_ok i b : encode_varint i = Ok b -> bytes_ok b.
Proof.
  unfold encode_varint.
  destruct (i <? 0) eqn:E0; [discriminate|].
  destruct (i <? 253) eqn:E1.
  { intros [= <-]. constructor; [unfold byte_ok; lia|constructor]. }
  destruct (i <? 65536) eqn:E2.
  { intros [= <-]. constructor; [unfold byte_ok; lia|exact (to_le_ok 2 i)]. }
  destruct (i <? 4294967296) eqn:E3.
  { intros [= <-]. constructor; [unfold byte_ok; lia|exact (to_le_ok 4 i)]. }
  destruct (i <? 18446744073709551616) eqn:E4; [|discriminate].
  intros [= <-]. constructor; [unfold byte_ok; lia|exact (to_le_ok 8 i)].
Qed.

(* two different integers never share an encoding, and no encoding is a proper
   prefix of another (decoding is unambiguous) *)
Lemma varint_prefix_free i j bi bj r1 r2 :
  0 <= i < 18446744073709551616 -> 0 <= j < 18446744073709551616 ->
  encode_varint i = Ok bi -> encode_varint j = Ok bj ->
  bi ++ r1 = bj ++ r2 -> i = j /\ r1 = r2.
Proof.
  intros Hi Hj Ei Ej E.
  destruct (varint_roundtrip i r1 Hi) as [b [Hb Hr]]. rewrite Ei in Hb. inversion Hb; subst b.
  destruct (varint_roundtrip j r2 Hj) as [b [Hb' Hr']]. rewrite Ej in Hb'. inversion Hb'; subst b.
  rewrite E in Hr. rewrite Hr in Hr'. inversion Hr'. auto.
Qed.

Lemma varstr_roundtrip b rest :
  zlen b < 9223372036854775808 ->
  exists e, encode_varstr b = Ok e /\ read_varstr (e ++ rest) = Ok (b, rest).
Proof.
  intros H. unfold encode_varstr, read_varstr.
  destruct (varint_roundtrip (zlen b) (b ++ rest)) as [l [Hl Hr]];
    [pose proof (zlen_nonneg b); lia|].
  rewrite Hl. cbn [bind]. eexists. split; [reflexivity|].
  rewrite <- app_assoc, Hr. cbn [bind].
  destruct (9223372036854775808 <=? zlen b) eqn:E; [lia|]. now rewrite readz_app.
Qed.
