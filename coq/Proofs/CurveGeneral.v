(* Proofs/CurveGeneral.v — closure of the model's Point.__add__ for ANY curve record over a prime
   field (a, b arbitrary): the chord / tangent result satisfies the curve equation, so the constructor
   check never fires on valid operands.  Field reasoning: Z with equality mod p is registered as a
   setoid field (Fermat inverse from Base/Fermat.v), goals are discharged by [field]. *)
From Coq Require Import ZArith Znumtheory Lia Field Setoid Morphisms.
From V Require Import Base.Prelude Base.Ints Base.Fermat Model.Pecc Proofs.GroupHyp Proofs.CurveSweep
  Proofs.SmallFields.
Open Scope Z_scope.

Section Fp.
Variable p : Z.
Hypothesis Hp : prime p.

Definition eqp (a b : Z) : Prop := a mod p = b mod p.
Lemma p_pos : 0 < p. Proof. pose proof (prime_ge_2 _ Hp). lia. Qed.

Instance eqp_equiv : Equivalence eqp.
Proof. split; unfold eqp; [intros x|intros x y H|intros x y z H1 H2]; congruence. Qed.
Instance add_m : Proper (eqp ==> eqp ==> eqp) Z.add.
Proof. intros a b H c d H2. unfold eqp in *. rewrite (Zplus_mod a), (Zplus_mod b), H, H2. reflexivity. Qed.
Instance mul_m : Proper (eqp ==> eqp ==> eqp) Z.mul.
Proof. intros a b H c d H2. unfold eqp in *. rewrite (Zmult_mod a), (Zmult_mod b), H, H2. reflexivity. Qed.
Instance sub_m : Proper (eqp ==> eqp ==> eqp) Z.sub.
Proof. intros a b H c d H2. unfold eqp in *. rewrite (Zminus_mod a), (Zminus_mod b), H, H2. reflexivity. Qed.
Instance opp_m : Proper (eqp ==> eqp) Z.opp.
Proof. intros a b H. change (- a) with (0 - a). change (- b) with (0 - b). now apply sub_m. Qed.
Definition inv (a : Z) : Z := modpow a (p - 2) p.
Definition div (a b : Z) : Z := a * inv b.
Instance inv_m : Proper (eqp ==> eqp) inv.
Proof.
  intros a b H. unfold inv, eqp in *. pose proof (prime_ge_2 _ Hp).
  rewrite <- (modpow_mod_base a), <- (modpow_mod_base b) by lia. now rewrite H.
Qed.
Instance div_m : Proper (eqp ==> eqp ==> eqp) div.
Proof. intros a b H c d H2. unfold div. now rewrite H, H2. Qed.

Lemma Fp_ring : ring_theory 0 1 Z.add Z.mul Z.sub Z.opp eqp.
Proof. constructor; intros; unfold eqp; f_equal; ring. Qed.
Lemma Fp_field : field_theory 0 1 Z.add Z.mul Z.sub Z.opp div inv eqp.
Proof.
  constructor.
  - exact Fp_ring.
  - unfold eqp. pose proof (prime_ge_2 _ Hp). rewrite Z.mod_1_l, Z.mod_0_l by lia. lia.
  - reflexivity.
  - intros a Ha. unfold eqp in *. pose proof (prime_ge_2 _ Hp).
    rewrite Z.mod_0_l in Ha by lia. rewrite (Z.mod_1_l p) by lia.
    rewrite Z.mul_comm. unfold inv. now apply fermat_inv.
Qed.
Add Field Fpf : Fp_field.

Lemma eqp_mod a : eqp (a mod p) a.
Proof. unfold eqp. apply Z.mod_mod. pose proof p_pos. lia. Qed.

Lemma chord_closed a b x1 y1 x2 y2 :
  eqp (y1*y1) (x1*x1*x1 + a*x1 + b) -> eqp (y2*y2) (x2*x2*x2 + a*x2 + b) ->
  ~ eqp (x2 - x1) 0 ->
  let s := div (y2 - y1) (x2 - x1) in
  let x3 := s*s - x1 - x2 in
  let y3 := s*(x1 - x3) - y1 in
  eqp (y3*y3) (x3*x3*x3 + a*x3 + b).
Proof.
  intros H1 H2 Hd s x3 y3.
  assert (Hb : eqp b (y1*y1 - x1*x1*x1 - a*x1)) by (rewrite H1; ring).
  assert (Hs : eqp (a * (x2 - x1)) (y2*y2 - y1*y1 - (x2*x2*x2 - x1*x1*x1))) by (rewrite H1, H2; ring).
  assert (Ha : eqp a (div (y2*y2 - y1*y1 - (x2*x2*x2 - x1*x1*x1)) (x2 - x1))).
  { rewrite <- Hs. field. exact Hd. }
  unfold y3, x3, s. rewrite Hb. rewrite Ha. field. exact Hd.
Qed.

Lemma tangent_closed a b x1 y1 : eqp (y1*y1) (x1*x1*x1 + a*x1 + b) ->
  ~ eqp ((1+1) * y1) 0 ->
  let s := div ((1+1+1) * (x1*x1) + a) ((1+1) * y1) in
  let x3 := s*s - (1+1) * x1 in
  let y3 := s*(x1 - x3) - y1 in
  eqp (y3*y3) (x3*x3*x3 + a*x3 + b).
Proof.
  intros H1 Hd s x3 y3.
  assert (Hb : eqp b (y1*y1 - x1*x1*x1 - a*x1)) by (rewrite H1; ring).
  unfold y3, x3, s. rewrite Hb. field.
  split; intros E; apply Hd.
  - rewrite E. ring.
  - transitivity (2 * y1); [reflexivity|]. rewrite E. ring.
Qed.

(* small residues *)
Lemma eqp_0_small d : - p < d < p -> eqp d 0 -> d = 0.
Proof.
  intros Hr E. unfold eqp in E. pose proof p_pos. rewrite Z.mod_0_l in E by lia.
  apply Z.mod_divide in E; [|lia]. destruct E as [q Hq].
  destruct (Z.eq_dec q 0) as [->|NE]; [lia|exfalso].
  assert (Hq2 : q <= -1 \/ 1 <= q) by lia. destruct Hq2; nia.
Qed.
End Fp.

Section Closure.
Variable C : curve.
Let p := cp C.
Hypothesis Hp : prime p.
Hypothesis Hp2 : 2 < p.

Local Notation "a == b" := (eqp p a b) (at level 70).
Local Instance eqp_equiv' : Equivalence (eqp p) := eqp_equiv p.
Local Instance add_m' : Proper (eqp p ==> eqp p ==> eqp p) Z.add := add_m p.
Local Instance mul_m' : Proper (eqp p ==> eqp p ==> eqp p) Z.mul := mul_m p.
Local Instance sub_m' : Proper (eqp p ==> eqp p ==> eqp p) Z.sub := sub_m p.
Local Instance opp_m' : Proper (eqp p ==> eqp p) Z.opp := opp_m p.
Local Instance inv_m' : Proper (eqp p ==> eqp p) (inv p) := inv_m p Hp.
Local Instance div_m' : Proper (eqp p ==> eqp p ==> eqp p) (div p) := div_m p Hp.

Lemma rhs_eqp x :
  ((x * x mod p * x) mod p + (ca C * x) mod p) mod p + cb C == x * x * x + ca C * x + cb C.
Proof. rewrite !(eqp_mod p Hp). reflexivity. Qed.

Lemma on_curve_iff x y : on_curve C x y = true <-> y * y == x * x * x + ca C * x + cb C.
Proof.
  unfold on_curve. rewrite Z.eqb_eq, fpow_2, fpow_3. unfold fmul, fadd. fold p.
  split; intros H.
  - transitivity (((x * x mod p * x) mod p + (ca C * x) mod p) mod p + cb C); [exact H|apply rhs_eqp].
  - change (y * y == ((x * x mod p * x) mod p + (ca C * x) mod p) mod p + cb C).
    transitivity (x * x * x + ca C * x + cb C); [exact H|symmetry; apply rhs_eqp].
Qed.

Lemma mod_felem a : felem_ok C (a mod p) = true.
Proof. apply felem_ok_range. fold p. apply Z.mod_pos_bound. exact (p_pos p Hp). Qed.

(* closure: for every curve over a prime field, a and b arbitrary *)
Theorem add_closed P Q : valid C P -> valid C Q -> exists R, padd C P Q = Ok R /\ valid C R.
Proof.
  destruct P as [[x1 y1]|]; [|intros _ HQ; exists Q; split; [reflexivity|exact HQ]].
  destruct Q as [[x2 y2]|]; [|intros HP _; exists (Some (x1, y1)); split; [reflexivity|exact HP]].
  intros (Hx1 & Hy1 & H1) (Hx2 & Hy2 & H2).
  apply felem_ok_range in Hx1, Hy1, Hx2, Hy2. fold p in Hx1, Hy1, Hx2, Hy2.
  apply on_curve_iff in H1, H2.
  unfold padd.
  destruct (x1 =? x2) eqn:Ex; [apply Z.eqb_eq in Ex|apply Z.eqb_neq in Ex]; cbn [andb negb].
  - destruct (y1 =? y2) eqn:Ey; [apply Z.eqb_eq in Ey|]; cbn [negb].
    2:{ exists None. split; [reflexivity|exact I]. }
    destruct (y1 =? 0) eqn:E0; [exists None; split; [reflexivity|exact I]|]. apply Z.eqb_neq in E0.
    (* tangent *)
    set (s := fdiv C (fadd C (fmul C 3 (fpow C x1 2)) (ca C)) (fmul C 2 y1)).
    set (x3 := fsub C (fpow C s 2) (fmul C 2 x1)).
    set (y3 := fsub C (fmul C s (fsub C x1 x3)) y1).
    assert (Hd : ~ (1 + 1) * y1 == 0).
    { intros E. unfold eqp in E. rewrite Z.mod_0_l in E by lia. apply Z.mod_divide in E; [|lia].
      apply prime_mult in E; [|exact Hp]. destruct E as [E|E]; apply Z.divide_pos_le in E; lia. }
    assert (Hs : s == div p ((1+1+1) * (x1*x1) + ca C) ((1+1) * y1)).
    { unfold s, fdiv, finv, fadd, fmul. rewrite fpow_2. unfold fmul. fold p.
      change (modpow ((2 * y1) mod p) (p - 2) p) with (inv p ((2 * y1) mod p)).
      rewrite !(eqp_mod p Hp). reflexivity. }
    assert (Hx3 : x3 == s * s - (1+1) * x1).
    { unfold x3, fsub, fmul. rewrite fpow_2. unfold fmul. fold p. rewrite !(eqp_mod p Hp). reflexivity. }
    assert (Hy3 : y3 == s * (x1 - x3) - y1).
    { unfold y3, fsub, fmul. fold p. rewrite !(eqp_mod p Hp). reflexivity. }
    assert (Hon : on_curve C x3 y3 = true).
    { apply on_curve_iff. rewrite Hy3, Hx3, Hs. exact (tangent_closed p Hp _ _ _ _ H1 Hd). }
    exists (Some (x3, y3)). unfold mk_point. rewrite Hon. split; [reflexivity|].
    cbn. unfold x3 at 1, y3 at 1, fsub. fold p. rewrite !mod_felem. auto.
  - (* chord *)
    set (s := fdiv C (fsub C y2 y1) (fsub C x2 x1)).
    set (x3 := fsub C (fsub C (fpow C s 2) x1) x2).
    set (y3 := fsub C (fmul C s (fsub C x1 x3)) y1).
    assert (Hd : ~ x2 - x1 == 0).
    { intros E. apply (eqp_0_small p Hp) in E; lia. }
    assert (Hs : s == div p (y2 - y1) (x2 - x1)).
    { unfold s, fdiv, finv, fsub. fold p.
      change (modpow ((x2 - x1) mod p) (p - 2) p) with (inv p ((x2 - x1) mod p)).
      rewrite !(eqp_mod p Hp). reflexivity. }
    assert (Hx3 : x3 == s * s - x1 - x2).
    { unfold x3, fsub. rewrite fpow_2. unfold fmul. fold p. rewrite !(eqp_mod p Hp). reflexivity. }
    assert (Hy3 : y3 == s * (x1 - x3) - y1).
    { unfold y3, fsub, fmul. fold p. rewrite !(eqp_mod p Hp). reflexivity. }
    assert (Hon : on_curve C x3 y3 = true).
    { apply on_curve_iff. rewrite Hy3, Hx3, Hs. exact (chord_closed p Hp _ _ _ _ _ _ H1 H2 Hd). }
    exists (Some (x3, y3)). unfold mk_point. rewrite Hon. split; [reflexivity|].
    cbn. unfold x3 at 1, y3 at 1, fsub. fold p. rewrite !mod_felem. auto.
Qed.

(* inverse: (x, -y) is on the curve and P + (-P) = infinity, for every curve over a prime field *)
Theorem neg_general x y : valid C (Some (x, y)) ->
  valid C (Some (x, (- y) mod p)) /\ padd C (Some (x, y)) (Some (x, (- y) mod p)) = Ok None.
Proof.
  intros (Hx & Hy & H1). pose proof Hy as Hy'. apply felem_ok_range in Hy'. fold p in Hy'.
  split.
  - cbn. rewrite Hx, mod_felem. repeat split. apply on_curve_iff. apply on_curve_iff in H1.
    rewrite !(eqp_mod p Hp). rewrite <- H1. replace (- y * - y) with (y * y) by ring. reflexivity.
  - unfold padd. rewrite Z.eqb_refl. cbn [andb negb].
    destruct (y =? (- y) mod p) eqn:E; [|reflexivity]. apply Z.eqb_eq in E. cbn [negb].
    destruct (Z.eq_dec y 0) as [->|NE]; [reflexivity|exfalso].
    assert (E2 : (- y) mod p = p - y) by (symmetry; apply Z.mod_unique with (q := -1); lia).
    assert (Hdiv : (2 | p)) by (exists y; lia).
    destruct (prime_divisors p Hp 2 Hdiv) as [?|[?|[?|?]]]; lia.
Qed.

End Closure.
