(* Proofs/DescriptorPathP.v — the two hypotheses the text round trip makes about
   hd.is_valid_bip32_path, PROVED for C16's transcription of it (Model/DescriptorText.v
   is_valid_path, compared with the implementation on every run):
     path_norm_ok  : a valid path stays valid when rewritten to "m" + path.strip()[1:];
     path_chars_ok : a valid path contains none of  ] , \ # *  . *)
From Coq Require Import String Permutation.
From V Require Import Base.Prelude Base.Disp Generated.DescConsts Model.Descriptor
  Model.DescriptorText Proofs.DescChecksumP Proofs.DescDetectP Proofs.DescriptorP
  Proofs.DescriptorTextP Proofs.DescriptorParseP.
Open Scope Z_scope.

(* ------------------------------------------------------------------ lower / strip commute *)

Lemma is_ws_lower c : is_ws (lower_c c) = is_ws c.
Proof.
  unfold lower_c, is_ws. destruct (Z.leb_spec 65 c), (Z.leb_spec c 90); cbn [andb]; try reflexivity.
  destruct (Z.leb_spec 9 c), (Z.leb_spec c 13), (Z.leb_spec 28 c), (Z.leb_spec c 32),
    (Z.leb_spec 9 (c + 32)), (Z.leb_spec (c + 32) 13), (Z.leb_spec 28 (c + 32)), (Z.leb_spec (c + 32) 32);
    cbn; try reflexivity; lia.
Qed.

Lemma lstrip_lower s : lstrip (lower s) = lower (lstrip s).
Proof.
  induction s as [|c s IH]; [reflexivity|]. cbn [lower map lstrip]. rewrite is_ws_lower.
  destruct (is_ws c); [exact IH|reflexivity].
Qed.

Lemma lower_rev s : lower (rev s) = rev (lower s).
Proof. unfold lower. apply map_rev. Qed.

Lemma strip_lower s : strip (lower s) = lower (strip s).
Proof. unfold strip. now rewrite lstrip_lower, <- lower_rev, lstrip_lower, <- lower_rev. Qed.

(* ------------------------------------------------------------------ path_norm_ok *)

Lemma repl_dslash_hd a l : hd 0 (repl_dslash (a :: l)) = a.
Proof.
  destruct l as [|b r]; [reflexivity|]. cbn [repl_dslash].
  destruct (Z.eqb_spec a 47) as [->|]; cbn [andb]; [|reflexivity].
  destruct (b =? 47); reflexivity.
Qed.

Lemma valid_head p : is_valid_path p = true -> hd 0 (norm_valid p) = 109.
Proof.
  unfold is_valid_path. set (q := norm_valid p).
  destruct (beq q [109]) eqn:E; [apply beq_eq in E; now rewrite E|].
  destruct (starts_with [109; 47] q) eqn:S; [|discriminate]. intros _.
  apply starts_with_spec in S. rewrite S. reflexivity.
Qed.

Theorem is_valid_path_norm_ok : path_norm_ok is_valid_path.
Proof.
  intros p H. pose proof (valid_head p H) as HD.
  assert (E : norm_valid (109 :: tl (strip p)) = norm_valid p).
  { unfold norm_valid in *. rewrite !strip_lower in *. rewrite norm_path_fix.
    destruct (strip p) as [|c t] eqn:SP; [cbn in HD; discriminate|]. cbn [tl].
    cbn [lower map repl_c] in HD |- *. rewrite repl_dslash_hd in HD.
    assert (L : lower_c c = 109).
    { destruct (Z.eqb_spec (lower_c c) 39) as [X|X]; [lia|exact HD]. }
    now rewrite L. }
  unfold is_valid_path in *. now rewrite E.
Qed.

(* ------------------------------------------------------------------ path_chars_ok *)

(* characters int() accepts *)
Definition intchar (c : Z) : Prop :=
  48 <= c <= 57 \/ c = 95 \/ c = 43 \/ c = 45 \/ 9 <= c <= 13 \/ c = 32.

Lemma dig_acc_chars l : forall a p v, dig_acc a p l = Ok v -> Forall intchar l.
Proof.
  induction l as [|c l IH]; intros a p v H; [constructor|]. cbn [dig_acc] in H.
  destruct (is_digit c) eqn:D.
  - constructor; [|exact (IH _ _ _ H)]. unfold is_digit in D. apply andb_true_iff in D as [D1 D2].
    apply Z.leb_le in D1. apply Z.leb_le in D2. left. lia.
  - destruct ((c =? 95) && p) eqn:U; [|discriminate]. apply andb_true_iff in U as [U _].
    apply Z.eqb_eq in U. constructor; [right; left; exact U|exact (IH _ _ _ H)].
Qed.

Lemma ws_int_char c : is_ws_int c = true -> intchar c.
Proof.
  unfold is_ws_int, intchar. intros H. apply orb_true_iff in H as [H|H].
  - apply andb_true_iff in H as [H1 H2]. apply Z.leb_le in H1. apply Z.leb_le in H2. lia.
  - apply Z.eqb_eq in H. lia.
Qed.

Lemma lstrip_int_chars (Q : Z -> Prop) s :
  (forall c, is_ws_int c = true -> Q c) -> Forall Q (lstrip_int s) -> Forall Q s.
Proof.
  intros HW. induction s as [|c s IH]; intros H; [constructor|]. cbn [lstrip_int] in H.
  destruct (is_ws_int c) eqn:E; [constructor; [now apply HW|now apply IH]|exact H].
Qed.

Lemma strip_int_chars s : Forall intchar (strip_int s) -> Forall intchar s.
Proof.
  unfold strip_int. intros H. apply (lstrip_int_chars intchar s ws_int_char).
  apply Forall_rev in H. rewrite rev_involutive in H.
  apply (lstrip_int_chars intchar _ ws_int_char) in H. apply Forall_rev in H.
  now rewrite rev_involutive in H.
Qed.

Lemma dig_lim_chars l v : dig_lim l = Ok v -> Forall intchar l.
Proof. unfold dig_lim. destruct (4300 <? _); [discriminate|]. apply dig_acc_chars. Qed.

Lemma py_int_chars s v : py_int s = Ok v -> Forall intchar s.
Proof.
  unfold py_int. intros H. apply strip_int_chars. destruct (strip_int s) as [|c r]; [discriminate|].
  destruct (Z.eqb_spec c 43) as [->|].
  { constructor; [unfold intchar; lia|exact (dig_lim_chars _ _ H)]. }
  destruct (Z.eqb_spec c 45) as [->|].
  { destruct (dig_lim r) as [w|] eqn:E; [|discriminate]. constructor; [unfold intchar; lia|].
    exact (dig_lim_chars _ _ E). }
  exact (dig_lim_chars _ _ H).
Qed.

(* membership through the normalisation steps *)
Lemma in_lstrip x l : In x l -> In x (lstrip l) \/ is_ws x = true.
Proof.
  induction l as [|c l IH]; [contradiction|]. intros [<-|I]; cbn [lstrip].
  - destruct (is_ws c) eqn:E; [now right|left; now left].
  - destruct (is_ws c); [now apply IH|left; now right].
Qed.

Lemma in_strip x l : In x l -> In x (strip l) \/ is_ws x = true.
Proof.
  intros I. unfold strip. destruct (in_lstrip x l I) as [I1|W]; [|now right].
  apply in_rev in I1. destruct (in_lstrip x _ I1) as [I2|W]; [|now right].
  left. now apply in_rev in I2.
Qed.

Lemma in_repl_dslash x : forall l, In x l -> In x (repl_dslash l) \/ x = 47.
Proof.
  induction l as [| a | a b r IH1 IH2] using list_ind2; intros I.
  - contradiction.
  - now left.
  - change (repl_dslash (a :: b :: r)) with
      (if (a =? 47) && (b =? 47) then 47 :: repl_dslash r else a :: repl_dslash (b :: r)).
    destruct ((a =? 47) && (b =? 47)) eqn:E.
    + apply andb_true_iff in E as [E1 E2]. apply Z.eqb_eq in E1. apply Z.eqb_eq in E2. subst.
      destruct I as [<-|[<-|I]]; [now right|now right|].
      destruct (IH1 I) as [J|J]; [left; now right|now right].
    + destruct I as [<-|I]; [left; now left|].
      destruct (IH2 I) as [J|J]; [left; now right|now right].
Qed.

Lemma in_split_on x sep : forall l, In x l -> x = sep \/ exists s, In s (split_on sep l) /\ In x s.
Proof.
  induction l as [|c l IH]; [contradiction|]. intros I. cbn [split_on].
  destruct (Z.eqb_spec c sep) as [->|N].
  - destruct I as [<-|I]; [now left|]. destruct (IH I) as [E|[s [Is Ix]]]; [now left|].
    right. exists s. split; [now right|exact Ix].
  - destruct (split_on sep l) as [|h t] eqn:E; [now apply split_on_nonempty in E|].
    destruct I as [<-|I].
    + right. exists (c :: h). split; now left.
    + destruct (IH I) as [E2|[s [Is Ix]]]; [now left|]. right. destruct Is as [<-|Is].
      * exists (c :: h). split; [now left|now right].
      * exists s. split; [now right|exact Ix].
Qed.

Lemma in_removelast x (l : list Z) : In x l -> In x (removelast l) \/ x = last l 0.
Proof.
  induction l as [|a l IH]; [contradiction|]. intros I. destruct l as [|b l].
  - destruct I as [<-|[]]. now right.
  - change (removelast (a :: b :: l)) with (a :: removelast (b :: l)).
    change (last (a :: b :: l) 0) with (last (b :: l) 0).
    destruct I as [<-|I]; [left; now left|]. destruct (IH I) as [J|J]; [left; now right|now right].
Qed.

Lemma ends_with_last c l : ends_with_c c l = true -> last l 0 = c.
Proof.
  unfold ends_with_c. destruct (rev l) as [|e t] eqn:E; [discriminate|]. intros H. apply Z.eqb_eq in H. subst e.
  apply (f_equal (@rev Z)) in E. rewrite rev_involutive in E. cbn [rev] in E. rewrite E. apply last_last.
Qed.

(* the characters of a valid component *)
Lemma valid_sub_chars s x : valid_sub s = true -> In x s -> intchar x \/ x = 104.
Proof.
  unfold valid_sub. intros H I. destruct (ends_with_c 104 s) eqn:E.
  - destruct (py_int (removelast s)) as [v|] eqn:P; [|discriminate].
    pose proof (py_int_chars _ _ P) as F. rewrite Forall_forall in F.
    destruct (in_removelast x s I) as [J|J]; [left; now apply F|right].
    now rewrite (ends_with_last _ _ E) in J.
  - destruct (py_int s) as [v|] eqn:P; [|discriminate].
    pose proof (py_int_chars _ _ P) as F. rewrite Forall_forall in F. left. now apply F.
Qed.

(* the characters of the normalised valid path *)
Lemma valid_norm_chars p x : is_valid_path p = true -> In x (norm_valid p) ->
  intchar x \/ x = 104 \/ x = 109 \/ x = 47.
Proof.
  unfold is_valid_path. set (q := norm_valid p). intros H I.
  destruct (beq q [109]) eqn:E.
  { apply beq_eq in E. rewrite E in I. destruct I as [<-|[]]. tauto. }
  destruct (starts_with [109; 47] q) eqn:S; [|discriminate]. cbn [negb] in H.
  destruct (256 <=? zlen (split_on 47 (skipn 2 q))); [discriminate|].
  apply starts_with_spec in S. cbn [length] in S. rewrite S in I.
  destruct I as [<-|[<-|I]]; [tauto|tauto|].
  destruct (in_split_on x 47 _ I) as [->|[s [Is Ix]]]; [tauto|].
  rewrite forallb_forall in H. destruct (valid_sub_chars s x (H s Is) Ix); tauto.
Qed.

Theorem is_valid_path_chars_ok : path_chars_ok is_valid_path.
Proof.
  intros p H. apply Forall_forall. intros c Hc.
  (* c survives lower / strip / replace / replace, or is white space or a slash *)
  assert (I1 : In (lower_c c) (lower p)) by (unfold lower; now apply in_map).
  destruct (in_strip _ _ I1) as [I2|W].
  - set (c2 := if lower_c c =? 39 then 104 else lower_c c).
    assert (I3 : In c2 (repl_c 39 104 (strip (lower p)))).
    { unfold repl_c. apply in_map_iff. exists (lower_c c). split; [reflexivity|exact I2]. }
    assert (LC : lower_c c = c \/ (65 <= c <= 90 /\ lower_c c = c + 32)).
    { unfold lower_c. destruct (Z.leb_spec 65 c), (Z.leb_spec c 90); cbn [andb]; auto. }
    destruct (in_repl_dslash _ _ I3) as [I4|E47].
    + destruct (valid_norm_chars p c2 H I4) as [X|X]; unfold c2 in X, I4; unfold pchar, intchar in *;
        destruct (Z.eqb_spec (lower_c c) 39); lia.
    + unfold c2 in E47. unfold pchar. destruct (Z.eqb_spec (lower_c c) 39); lia.
  - rewrite is_ws_lower in W. unfold is_ws in W. unfold pchar.
    apply orb_true_iff in W as [W|W]; apply andb_true_iff in W as [W1 W2];
      apply Z.leb_le in W1; apply Z.leb_le in W2; lia.
Qed.

(* ------------------------------------------------------------------ the round trip for the real path check *)
Theorem parse_text_roundtrip_paths hdparse child_ok json_descriptor m recs cs srt d w1 w2 :
  hd_idempotent hdparse -> hd_alnum hdparse ->
  construct is_valid_path hdparse m recs cs srt = Ok d -> m < 2 ^ 4300 ->
  Forall (fun kr => child_ok (kr_xpub kr) (kr_idx kr) = true) (d_recs d) ->
  Forall (fun c => is_ws c = true) w1 -> Forall (fun c => is_ws c = true) w2 ->
  parse_text is_valid_path hdparse child_ok json_descriptor (w1 ++ desc_repr d ++ w2) = Ok d /\
  parse_text is_valid_path hdparse child_ok json_descriptor (w1 ++ d_text d ++ w2) = Ok d.
Proof.
  intros HI HA. apply parse_text_roundtrip; auto.
  - apply is_valid_path_norm_ok.
  - apply is_valid_path_chars_ok.
Qed.
