(* Proofs/ConvertbitsP.v — convertbits: numeric specification of the regrouping loop
   (generic in frombits / tobits), and the 8 -> 5 (pad) / 5 -> 8 (no pad) round trip.

   The bit stream is handled as a number: [val (2^w) l] is the big-endian value of the
   w-bit digits l, i.e. the bit stream read as one binary number.  Invariant of the loop:
       val_tb(ret) * 2^bits + (acc mod 2^bits) = val_fb(processed input)
       tb * |ret| + bits = fb * |processed input|,   0 <= bits < tb
   (the low [bits] bits of acc are the pending bits; the mask max_acc never cuts them). *)
From V Require Import Base.Prelude Base.Ints Model.Helper Model.Base58 Model.Bech32
  Proofs.Base58P Proofs.PolymodP.

(* ---------- bit-operation lemmas ---------- *)

Lemma lor_shl_add a n v : 0 <= n -> 0 <= v < 2 ^ n -> Z.lor (Z.shiftl a n) v = a * 2 ^ n + v.
Proof.
  intros Hn Hv. rewrite Z.shiftl_mul_pow2 by lia.
  assert (L : Z.land (a * 2 ^ n) v = 0).
  { apply Z.bits_inj'. intros i Hi. rewrite Z.land_spec, Z.bits_0.
    destruct (Z.ltb_spec i n).
    - rewrite Z.mul_pow2_bits_low by lia. reflexivity.
    - rewrite <- (Z.mod_small v (2 ^ n)) by lia. rewrite Z.mod_pow2_bits_high by lia.
      apply andb_false_r. }
  rewrite <- Z.lxor_lor by exact L. symmetry. apply Z.add_nocarry_lxor. exact L.
Qed.

Lemma pow2_pos n : 0 <= n -> 0 < 2 ^ n.
Proof. intros. apply Z.pow_pos_nonneg; lia. Qed.

Lemma mod_mod_pow x b m : 0 <= b <= m -> (x mod 2 ^ m) mod 2 ^ b = x mod 2 ^ b.
Proof.
  intros H. replace m with (b + (m - b)) by lia. rewrite Z.pow_add_r by lia.
  pose proof (pow2_pos b ltac:(lia)). pose proof (pow2_pos (m - b) ltac:(lia)).
  rewrite Z.rem_mul_r by lia. rewrite (Z.mul_comm (2 ^ b)), Z.mod_add by lia.
  apply Z.mod_mod. lia.
Qed.

Lemma shift_mod acc v bits fb : 0 <= bits -> 0 <= fb -> 0 <= v < 2 ^ fb ->
  (acc * 2 ^ fb + v) mod 2 ^ (bits + fb) = (acc mod 2 ^ bits) * 2 ^ fb + v.
Proof.
  intros Hb Hf Hv. rewrite Z.pow_add_r by lia.
  pose proof (pow2_pos bits Hb) as PB. pose proof (pow2_pos fb Hf) as PF.
  set (B := 2 ^ bits) in *. set (F := 2 ^ fb) in *.
  pose proof (Z.mod_pos_bound acc B PB) as MB.
  rewrite (Z.div_mod acc B) at 1 by lia.
  replace ((B * (acc / B) + acc mod B) * F + v)
    with ((acc mod B * F + v) + (acc / B) * (B * F)) by ring.
  rewrite Z.mod_add by nia. apply Z.mod_small. nia.
Qed.

(* ---------- the loops ---------- *)

Section Conv.
Variables fb tb : Z.
Hypothesis Hfb : 1 <= fb.
Hypothesis Htb : 1 <= tb.

Definition W (ret : list Z) : Z := val (2 ^ tb) (rev ret).
Definition symt (x : Z) : Prop := 0 <= x < 2 ^ tb.

Lemma W_cons x ret : W (x :: ret) = 2 ^ tb * W ret + x.
Proof. unfold W. cbn [rev]. apply val_snoc. Qed.

Lemma cb_while_spec : forall fuel acc bits ret,
  (Z.to_nat bits <= fuel)%nat -> 0 <= bits -> Forall symt ret ->
  exists bits' ret', cb_while fuel tb acc bits ret = Ok (bits', ret') /\
    0 <= bits' < tb /\ Forall symt ret' /\
    W ret' * 2 ^ bits' + acc mod 2 ^ bits' = W ret * 2 ^ bits + acc mod 2 ^ bits /\
    tb * zlen ret' + bits' = tb * zlen ret + bits.
Proof.
  induction fuel as [|f IH]; intros acc bits ret Hf Hb HF; cbn [cb_while];
    destruct (bits <? tb) eqn:E.
  - exists bits, ret. repeat split; auto; lia.
  - lia.
  - exists bits, ret. repeat split; auto; lia.
  - remember (bits - tb) as b2 eqn:Eb2.
    pose proof (pow2_pos b2 ltac:(lia)) as P2. pose proof (pow2_pos tb ltac:(lia)) as PT.
    rewrite Z.land_ones, Z.shiftr_div_pow2 by lia.
    pose proof (Z.mod_pos_bound (acc / 2 ^ b2) (2 ^ tb) PT) as MS.
    destruct (IH acc b2 ((acc / 2 ^ b2) mod 2 ^ tb :: ret)) as [bits' [ret' [E1 [A1 [A2 [A3 A4]]]]]].
    + lia.
    + lia.
    + constructor; [exact MS|exact HF].
    + exists bits', ret'. split; [exact E1|]. split; [exact A1|]. split; [exact A2|].
      rewrite W_cons in A3. unfold zlen in *. cbn [length] in A4. split; [|lia].
      rewrite A3. replace bits with (b2 + tb) by lia. rewrite Z.pow_add_r by lia.
      rewrite (Z.rem_mul_r acc (2 ^ b2) (2 ^ tb)) by lia. ring.
Qed.

Definition symf (v : Z) : Prop := 0 <= v < 2 ^ fb.

Lemma cb_loop_spec : forall data acc bits ret,
  Forall symf data -> 0 <= bits < tb -> Forall symt ret ->
  exists acc' bits' ret', cb_loop fb tb data acc bits ret = Ok (Some (acc', bits', ret')) /\
    0 <= bits' < tb /\ Forall symt ret' /\
    W ret' * 2 ^ bits' + acc' mod 2 ^ bits' =
      horner (2 ^ fb) data (W ret * 2 ^ bits + acc mod 2 ^ bits) /\
    tb * zlen ret' + bits' = tb * zlen ret + bits + fb * zlen data.
Proof.
  induction data as [|v r IH]; intros acc bits ret HD Hb HF.
  - exists acc, bits, ret. cbn [cb_loop]. split; [reflexivity|]. split; [exact Hb|].
    split; [exact HF|]. split; [reflexivity|]. unfold zlen. cbn [length]. lia.
  - inversion HD as [|? ? Hv HD']; subst. unfold symf in Hv.
    cbn [cb_loop]. destruct (v <? 0) eqn:E1; [lia|].
    rewrite Z.shiftr_div_pow2, Z.div_small by lia. change (0 =? 0) with true. cbn [negb orb].
    cbv zeta.
    set (acc' := Z.land (Z.lor (Z.shiftl acc fb) v) (Z.ones (fb + tb - 1))).
    assert (EA : acc' mod 2 ^ (bits + fb) = (acc mod 2 ^ bits) * 2 ^ fb + v).
    { unfold acc'. rewrite Z.land_ones by lia. rewrite mod_mod_pow by lia.
      rewrite lor_shl_add by lia. apply shift_mod; lia. }
    destruct (cb_while_spec (Z.to_nat (bits + fb)) acc' (bits + fb) ret ltac:(lia) ltac:(lia) HF)
      as [b1 [r1 [E2 [A1 [A2 [A3 A4]]]]]].
    rewrite E2. cbn [bind].
    destruct (IH acc' b1 r1 HD' A1 A2) as [acc2 [b2 [r2 [E3 [B1 [B2 [B3 B4]]]]]]].
    exists acc2, b2, r2. split; [exact E3|]. split; [exact B1|]. split; [exact B2|]. split.
    + rewrite B3, A3, EA.
      change (horner (2 ^ fb) (v :: r) (W ret * 2 ^ bits + acc mod 2 ^ bits))
        with (horner (2 ^ fb) r (2 ^ fb * (W ret * 2 ^ bits + acc mod 2 ^ bits) + v)).
      f_equal. rewrite Z.pow_add_r by lia. ring.
    + rewrite B4, A4. unfold zlen. cbn [length]. lia.
Qed.

(* the final symbol of the padding branch *)
Lemma last_sym acc bits : 0 <= bits <= tb ->
  Z.land (Z.shiftl acc (tb - bits)) (Z.ones tb) = (acc mod 2 ^ bits) * 2 ^ (tb - bits).
Proof.
  intros H. rewrite Z.land_ones, Z.shiftl_mul_pow2 by lia.
  replace tb with (bits + (tb - bits)) at 2 by lia. rewrite Z.pow_add_r by lia.
  pose proof (pow2_pos bits ltac:(lia)). pose proof (pow2_pos (tb - bits) ltac:(lia)).
  rewrite Z.mul_mod_distr_r by lia. reflexivity.
Qed.

End Conv.

Lemma rev'_is_rev {A} (l : list A) : rev' l = rev l.
Proof. unfold rev'. symmetry. apply rev_alt. Qed.

(* ---------- 8 -> 5 with padding ---------- *)

Theorem convertbits_8_5 d : bytes_ok d ->
  exists syms p, convertbits d 8 5 true = Ok (Some syms) /\ Forall sym5 syms /\
    0 <= p < 5 /\ 5 * zlen syms = 8 * zlen d + p /\ val 32 syms = val 256 d * 2 ^ p.
Proof.
  intros HB. unfold convertbits.
  destruct (cb_loop_spec 8 5 ltac:(lia) ltac:(lia) d 0 0 [] HB ltac:(lia) ltac:(constructor))
    as [acc [bits [ret [E [A1 [A2 [A3 A4]]]]]]].
  rewrite E. cbn [bind].
  change (W 5 [] * 2 ^ 0 + 0 mod 2 ^ 0) with 0 in A3. change (2 ^ 8) with 256 in A3.
  fold (val 256 d) in A3. change (zlen (@nil Z)) with 0 in A4.
  pose proof (pow2_pos bits ltac:(lia)) as PB.
  pose proof (Z.mod_pos_bound acc (2 ^ bits) PB) as MB.
  destruct (bits =? 0) eqn:E0.
  - apply Z.eqb_eq in E0. subst bits. exists (rev' ret), 0. rewrite rev'_is_rev.
    split; [reflexivity|]. split; [apply Forall_rev; exact A2|]. split; [lia|].
    split; [unfold zlen in *; rewrite rev_length; lia|].
    unfold W in A3. change (2 ^ 5) with 32 in A3. change (2 ^ 0) with 1 in *.
    rewrite Z.mod_1_r in A3. lia.
  - apply Z.eqb_neq in E0. rewrite (last_sym 5 ltac:(lia) acc bits ltac:(lia)).
    set (pend := acc mod 2 ^ bits) in *.
    assert (PS : 2 ^ bits * 2 ^ (5 - bits) = 32).
    { rewrite <- Z.pow_add_r by lia. replace (bits + (5 - bits)) with 5 by lia. reflexivity. }
    pose proof (pow2_pos (5 - bits) ltac:(lia)) as PQ.
    exists (rev' (pend * 2 ^ (5 - bits) :: ret)), (5 - bits). rewrite rev'_is_rev.
    split; [reflexivity|]. split; [|split; [lia|split]].
    + apply Forall_rev. constructor; [|exact A2]. unfold symt. change (2 ^ 5) with 32.
      assert (pend * 2 ^ (5 - bits) <= (2 ^ bits - 1) * 2 ^ (5 - bits))
        by (apply Z.mul_le_mono_nonneg_r; lia).
      split; [apply Z.mul_nonneg_nonneg; lia|lia].
    + unfold zlen in *. rewrite rev_length. cbn [length]. lia.
    + change (val 32 (rev (pend * 2 ^ (5 - bits) :: ret))) with (W 5 (pend * 2 ^ (5 - bits) :: ret)).
      rewrite W_cons. change (2 ^ 5) with 32.
      rewrite <- A3, <- PS. ring.
Qed.

(* ---------- 5 -> 8 without padding ---------- *)

Lemma val256_inj a b : bytes_ok a -> bytes_ok b -> length a = length b ->
  val 256 a = val 256 b -> a = b.
Proof.
  intros Ha Hb HL HV. rewrite <- (to_be_from_be a Ha), <- (to_be_from_be b Hb).
  now rewrite !from_be_val, HV, HL.
Qed.

Theorem convertbits_5_8 syms d p :
  Forall sym5 syms -> bytes_ok d -> 0 <= p < 5 ->
  5 * zlen syms = 8 * zlen d + p -> val 32 syms = val 256 d * 2 ^ p ->
  convertbits syms 5 8 false = Ok (Some d).
Proof.
  intros HS HB Hp HL HV. unfold convertbits.
  destruct (cb_loop_spec 5 8 ltac:(lia) ltac:(lia) syms 0 0 [] HS ltac:(lia) ltac:(constructor))
    as [acc [bits [ret [E [A1 [A2 [A3 A4]]]]]]].
  rewrite E. cbn [bind].
  change (W 8 [] * 2 ^ 0 + 0 mod 2 ^ 0) with 0 in A3. change (2 ^ 5) with 32 in A3.
  fold (val 32 syms) in A3. change (zlen (@nil Z)) with 0 in A4.
  assert (bits = p /\ zlen ret = zlen d) as [-> LR] by (unfold zlen in *; lia).
  pose proof (pow2_pos p ltac:(lia)) as PB.
  pose proof (Z.mod_pos_bound acc (2 ^ p) PB) as MB.
  rewrite HV in A3.
  assert (P0 : acc mod 2 ^ p = 0).
  { assert (H : (W 8 ret * 2 ^ p + acc mod 2 ^ p) mod 2 ^ p = 0) by (rewrite A3; apply Z.mod_mul; lia).
    rewrite Z.add_comm, Z.mod_add, Z.mod_mod in H by lia. exact H. }
  assert (WV : W 8 ret = val 256 d) by nia.
  rewrite (last_sym 8 ltac:(lia) acc p ltac:(lia)), P0.
  destruct (5 <=? p) eqn:E5; [lia|]. cbn [orb Z.mul]. change (0 =? 0) with true. cbn [negb].
  rewrite rev'_is_rev. do 2 f_equal.
  apply val256_inj.
  - apply Forall_rev. exact A2.
  - exact HB.
  - rewrite rev_length. unfold zlen in LR. lia.
  - exact WV.
Qed.

(* round trip, every byte string *)
Theorem convertbits_roundtrip d : bytes_ok d ->
  exists syms, convertbits d 8 5 true = Ok (Some syms) /\ Forall sym5 syms /\
               convertbits syms 5 8 false = Ok (Some d).
Proof.
  intros HB. destruct (convertbits_8_5 d HB) as [syms [p [E [F [Hp [HL HV]]]]]].
  exists syms. split; [exact E|]. split; [exact F|].
  exact (convertbits_5_8 syms d p F HB Hp HL HV).
Qed.
