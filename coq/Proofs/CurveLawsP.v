(* Proofs/CurveLawsP.v — everything about Point.__add__ / Point.__rmul__ that follows from the
   FORMULAS ALONE, for every curve record over a prime field (a, b arbitrary; hypotheses only
   [prime p], [2 < p]): commutativity, the two points above one x, uniqueness of the inverse
   (P + Q = infinity exactly when Q = -P), the y = 0 doubling case, 2P = P + P, closure of the
   double-and-add loop; then, adding associativity as the ONLY extra premise, double-and-add =
   iterated addition, and the record [group_laws C] from the minimal list of premises
   (p, n prime; G on the curve; associativity; every point is killed by n). *)
From Coq Require Import ZArith Znumtheory Lia Field Setoid Morphisms.
From V Require Import Base.Prelude Base.Ints Base.Fermat Model.Pecc Proofs.GroupHyp Proofs.CurveSweep
  Proofs.SmallFields Proofs.CurveGeneral Proofs.ScalarOfGroup.
Open Scope Z_scope.

Section Laws.
Variable C : curve.
Let p := cp C.
Let n := cn C.
Hypothesis Hp : prime p.
Hypothesis Hp2 : 2 < p.

Local Notation "a == b" := (eqp p a b) (at level 70).
Local Instance eqp_equiv'' : Equivalence (eqp p) := eqp_equiv p.
Local Instance add_m'' : Proper (eqp p ==> eqp p ==> eqp p) Z.add := add_m p.
Local Instance mul_m'' : Proper (eqp p ==> eqp p ==> eqp p) Z.mul := mul_m p.
Local Instance sub_m'' : Proper (eqp p ==> eqp p ==> eqp p) Z.sub := sub_m p.
Local Instance opp_m'' : Proper (eqp p ==> eqp p) Z.opp := opp_m p.
Local Instance inv_m'' : Proper (eqp p ==> eqp p) (inv p) := inv_m p Hp.
Local Instance div_m'' : Proper (eqp p ==> eqp p ==> eqp p) (div p) := div_m p Hp.
Add Field Fpf2 : (Fp_field p Hp).

Lemma valid_range x y : valid C (Some (x, y)) ->
  0 <= x < p /\ 0 <= y < p /\ y * y == x * x * x + ca C * x + cb C.
Proof.
  intros (Hx & Hy & H1). apply felem_ok_range in Hx, Hy. fold p in Hx, Hy.
  apply (on_curve_iff C Hp) in H1. auto.
Qed.

Lemma valid_of_range x y : 0 <= x < p -> 0 <= y < p -> y * y == x * x * x + ca C * x + cb C ->
  valid C (Some (x, y)).
Proof.
  intros Hx Hy H1. cbn. rewrite !(proj2 (felem_ok_range C _)) by (fold p; lia).
  repeat split. now apply (on_curve_iff C Hp).
Qed.

(* the chord through P and Q is the chord through Q and P *)
Lemma chord_sym x1 y1 x2 y2 : 0 <= x1 < p -> 0 <= x2 < p -> x1 <> x2 ->
  let s := fdiv C (fsub C y2 y1) (fsub C x2 x1) in
  let x3 := fsub C (fsub C (fpow C s 2) x1) x2 in
  let y3 := fsub C (fmul C s (fsub C x1 x3)) y1 in
  let s' := fdiv C (fsub C y1 y2) (fsub C x1 x2) in
  let x3' := fsub C (fsub C (fpow C s' 2) x2) x1 in
  let y3' := fsub C (fmul C s' (fsub C x2 x3')) y2 in
  x3 = x3' /\ y3 = y3'.
Proof.
  intros Hx1 Hx2 Ex s x3 y3 s' x3' y3'.
  assert (Hd : ~ x2 - x1 == 0) by (intros E; apply (eqp_0_small p Hp) in E; lia).
  assert (Hd' : ~ x1 - x2 == 0) by (intros E; apply (eqp_0_small p Hp) in E; lia).
  assert (Hs : s == div p (y2 - y1) (x2 - x1)).
  { unfold s, fdiv, finv, fsub. fold p.
    change (modpow ((x2 - x1) mod p) (p - 2) p) with (inv p ((x2 - x1) mod p)).
    rewrite !(eqp_mod p Hp). reflexivity. }
  assert (Hs' : s' == div p (y1 - y2) (x1 - x2)).
  { unfold s', fdiv, finv, fsub. fold p.
    change (modpow ((x1 - x2) mod p) (p - 2) p) with (inv p ((x1 - x2) mod p)).
    rewrite !(eqp_mod p Hp). reflexivity. }
  assert (Ess : s == s').
  { rewrite Hs, Hs'. field. split; assumption. }
  assert (Es : s = s').
  { unfold s, s', fdiv. fold p. unfold s, s', fdiv in Ess. fold p in Ess.
    rewrite !(eqp_mod p Hp) in Ess. exact Ess. }
  assert (Ex3 : x3 = x3').
  { unfold x3, x3'. rewrite <- Es. unfold fsub. fold p.
    change (((fpow C s 2 - x1) mod p - x2) == ((fpow C s 2 - x2) mod p - x1)).
    rewrite !(eqp_mod p Hp). ring. }
  split; [exact Ex3|].
  unfold y3, y3'. rewrite <- Es, <- Ex3. unfold fsub, fmul. fold p.
  change (((s * ((x1 - x3) mod p)) mod p - y1) == ((s * ((x2 - x3) mod p)) mod p - y2)).
  rewrite !(eqp_mod p Hp).
  assert (E : s * (x1 - x2) == y1 - y2).
  { rewrite Ess, Hs'. field. exact Hd'. }
  transitivity (s * (x1 - x2) + s * (x2 - x3) - y1); [ring|]. rewrite E. ring.
Qed.

(* commutativity of Point.__add__, results and exceptions alike *)
Theorem padd_comm P Q : valid C P -> valid C Q -> padd C P Q = padd C Q P.
Proof.
  destruct P as [[x1 y1]|]; destruct Q as [[x2 y2]|]; try reflexivity.
  intros HP HQ. destruct (valid_range _ _ HP) as (Hx1 & Hy1 & _).
  destruct (valid_range _ _ HQ) as (Hx2 & Hy2 & _).
  unfold padd. rewrite (Z.eqb_sym x2 x1), (Z.eqb_sym y2 y1).
  destruct (x1 =? x2) eqn:Ex; [apply Z.eqb_eq in Ex|apply Z.eqb_neq in Ex]; cbn [andb negb].
  - destruct (y1 =? y2) eqn:Ey; [apply Z.eqb_eq in Ey|]; cbn [negb]; [|reflexivity].
    subst x2 y2. reflexivity.
  - destruct (chord_sym x1 y1 x2 y2 Hx1 Hx2 Ex) as [E1 E2]. cbv zeta in E1, E2.
    cbv zeta. rewrite E2, E1. reflexivity.
Qed.

Theorem addT_comm_general P Q : valid C P -> valid C Q -> addT C P Q = addT C Q P.
Proof. intros HP HQ. unfold addT. now rewrite padd_comm. Qed.

Theorem add_ok_general P Q : valid C P -> valid C Q ->
  padd C P Q = Ok (addT C P Q) /\ valid C (addT C P Q).
Proof.
  intros HP HQ. destruct (add_closed C Hp Hp2 P Q HP HQ) as (R & E & HR).
  unfold addT. rewrite E. auto.
Qed.

Theorem add_neg_general P : valid C P -> valid C (negT C P) /\ addT C P (negT C P) = None.
Proof.
  destruct P as [[x y]|]; [|intros _; split; [exact I|reflexivity]].
  intros HP. destruct (neg_general C Hp Hp2 x y HP) as [HV E]. fold p in HV, E.
  split; [exact HV|]. unfold addT. cbn [negT]. fold p. now rewrite E.
Qed.

(* the two points above one x coordinate: a quadratic has at most two roots in a field *)
Theorem same_x_general x y1 y2 : valid C (Some (x, y1)) -> valid C (Some (x, y2)) ->
  y2 = y1 \/ y2 = (- y1) mod p.
Proof.
  intros H1 H2. destruct (valid_range _ _ H1) as (Hx & Hy1 & E1).
  destruct (valid_range _ _ H2) as (_ & Hy2 & E2).
  assert (E : (y2 - y1) * (y2 + y1) == 0).
  { transitivity (y2 * y2 - y1 * y1); [ring|]. rewrite E1, E2. ring. }
  unfold eqp in E. rewrite Z.mod_0_l in E by lia. apply Z.mod_divide in E; [|lia].
  apply prime_mult in E; [|exact Hp]. destruct E as [E|E].
  - left. assert (y2 - y1 = 0); [|lia]. apply (eqp_0_small p Hp); [lia|].
    unfold eqp. rewrite Z.mod_0_l by lia. apply Z.mod_divide; [lia|exact E].
  - right. destruct (Z.eq_dec y1 0) as [->|NE].
    + rewrite Z.mod_0_l by lia. destruct (Z.eq_dec y2 0) as [|NE]; [assumption|exfalso].
      apply Z.divide_pos_le in E; lia.
    + apply Z.mod_unique with (q := -1); [lia|].
      destruct E as [q Hq]. assert (q = 1) by nia. lia.
Qed.

(* P + Q is the point at infinity exactly when Q = -P: inverses are unique, from the case split alone *)
Theorem padd_inf_iff P Q : valid C P -> valid C Q -> (padd C P Q = Ok None <-> Q = negT C P).
Proof.
  intros HP HQ. split.
  - destruct P as [[x1 y1]|]; destruct Q as [[x2 y2]|]; cbn [padd negT]; try congruence.
    destruct (valid_range _ _ HP) as (Hx1 & Hy1 & _).
    destruct (x1 =? x2) eqn:Ex; [apply Z.eqb_eq in Ex|]; cbn [andb negb].
    + subst x2. destruct (y1 =? y2) eqn:Ey; [apply Z.eqb_eq in Ey|apply Z.eqb_neq in Ey]; cbn [negb].
      * subst y2. destruct (y1 =? 0) eqn:E0; [apply Z.eqb_eq in E0|].
        -- intros _. subst y1. fold p. now rewrite Z.mod_0_l by lia.
        -- unfold mk_point. destruct (on_curve C _ _); discriminate.
      * intros _. fold p. destruct (same_x_general x1 y1 y2 HP HQ) as [E|E]; congruence.
    + unfold mk_point. destruct (on_curve C _ _); discriminate.
  - intros ->. pose proof (add_neg_general P HP) as [HV E].
    destruct (add_ok_general P _ HP HV) as [E2 _]. now rewrite E in E2.
Qed.

(* the y = 0 case of the doubling branch (fix 6d42726): a point with y = 0 is its own inverse,
   and these are the only finite points P with P + P = infinity *)
Theorem double_inf_iff P : valid C P ->
  (padd C P P = Ok None <-> P = None \/ exists x, P = Some (x, 0)).
Proof.
  intros HP. rewrite (padd_inf_iff P P HP HP). destruct P as [[x y]|]; cbn [negT]; fold p.
  - destruct (valid_range _ _ HP) as (_ & Hy & _). split.
    + intros [= E]. right. exists x. f_equal. f_equal.
      destruct (Z.eq_dec y 0) as [|NE]; [assumption|exfalso].
      assert (E2 : (- y) mod p = p - y) by (symmetry; apply Z.mod_unique with (q := -1); lia).
      assert (Hdiv : (2 | p)) by (exists y; lia).
      destruct (prime_divisors p Hp 2 Hdiv) as [?|[?|[?|?]]]; lia.
    + intros [?|[x' [= -> ->]]]; [discriminate|]. now rewrite Z.mod_0_l by lia.
  - split; auto.
Qed.

Lemma double_y0 x : padd C (Some (x, 0)) (Some (x, 0)) = Ok None.
Proof. unfold padd. now rewrite !Z.eqb_refl. Qed.

(* ---------------- the double-and-add loop: closure needs no group law ---------------- *)
Lemma rmul_pos_closed q : forall cur res, valid C cur -> valid C res ->
  exists R, rmul_pos C q cur res = Ok R /\ valid C R.
Proof.
  induction q as [q IH|q IH|]; intros cur res Hc Hr; cbn [rmul_pos];
    destruct (add_closed C Hp Hp2 cur cur Hc Hc) as (D & ED & HD);
    destruct (add_closed C Hp Hp2 res cur Hr Hc) as (S & ES & HS).
  - rewrite ES. cbn [bind]. rewrite ED. cbn [bind]. exact (IH D S HD HS).
  - rewrite ED. cbn [bind]. exact (IH D res HD Hr).
  - rewrite ES. cbn [bind]. rewrite ED. cbn [bind]. eauto.
Qed.

(* generic Point.__rmul__ on a curve point never raises and stays on the curve (k >= 0) *)
Theorem rmul_raw_closed k P : 0 <= k -> valid C P -> exists R, rmul_raw C k P = Ok R /\ valid C R.
Proof.
  intros Hk HP. destruct k as [|q|q]; [exists None; split; [reflexivity|exact I]| |lia].
  cbn [rmul_raw]. exact (rmul_pos_closed q P None HP I).
Qed.

(* S256Point.__rmul__: every integer coefficient *)
Theorem rmul_closed k P : 0 < n -> valid C P -> exists R, rmul C k P = Ok R /\ valid C R.
Proof.
  intros Hn HP. unfold rmul. fold n. apply rmul_raw_closed; [|assumption].
  pose proof (Z.mod_pos_bound k n Hn). lia.
Qed.

(* the negative-coefficient branch of the generic loop does not terminate in Python; the model says Err *)
Lemma rmul_raw_negative k P : k < 0 -> rmul_raw C k P = Err.
Proof. destruct k; try lia. reflexivity. Qed.

Theorem padd_int_closed P t : 0 < n -> valid C (G C) -> valid C P ->
  exists R, padd_int C P t = Ok R /\ valid C R.
Proof.
  intros Hn HG HP. destruct (rmul_closed t (G C) Hn HG) as (T & ET & HT).
  unfold padd_int. rewrite ET. cbn [bind]. exact (add_closed C Hp Hp2 P T HP HT).
Qed.

Theorem rmul_raw_0 P : rmul_raw C 0 P = Ok None.
Proof. reflexivity. Qed.

Theorem rmul_raw_1 P : valid C P -> rmul_raw C 1 P = Ok P.
Proof.
  intros HP. cbn [rmul_raw rmul_pos padd].
  destruct (add_closed C Hp Hp2 P P HP HP) as (D & ED & _). rewrite ED. reflexivity.
Qed.

(* 2 * P through the loop IS P + P (closure only) *)
Theorem rmul_raw_2 P : valid C P -> rmul_raw C 2 P = padd C P P.
Proof.
  intros HP. cbn [rmul_raw rmul_pos].
  destruct (add_closed C Hp Hp2 P P HP HP) as (D & ED & HD). rewrite ED. cbn [bind padd].
  destruct (add_closed C Hp Hp2 D D HD HD) as (D2 & ED2 & _). rewrite ED2. reflexivity.
Qed.

Theorem rmul_raw_inf k : 0 <= k -> rmul_raw C k None = Ok None.
Proof.
  intros Hk. destruct k as [|q|q]; [reflexivity| |lia]. cbn [rmul_raw]. apply rmul_pos_inf.
Qed.

(* ---------------- with associativity as the only further premise ---------------- *)
Section Assoc.
Hypothesis Hassoc : forall P Q R, valid C P -> valid C Q -> valid C R ->
  addT C (addT C P Q) R = addT C P (addT C Q R).

Local Notation "P +' Q" := (addT C P Q) (at level 50, left associativity).

Lemma add_valid' P Q : valid C P -> valid C Q -> valid C (P +' Q).
Proof. intros HP HQ. exact (proj2 (add_ok_general P Q HP HQ)). Qed.
Lemma padd_ok' P Q : valid C P -> valid C Q -> padd C P Q = Ok (P +' Q).
Proof. intros HP HQ. exact (proj1 (add_ok_general P Q HP HQ)). Qed.
Lemma add_0_r' P : P +' None = P.
Proof. destruct P as [[x y]|]; reflexivity. Qed.

Lemma smul_valid' k P : valid C P -> valid C (smul C k P).
Proof. intros HP. induction k; cbn; [exact I|]. now apply add_valid'. Qed.

Lemma smul_inf' k : smul C k None = None.
Proof. induction k; cbn; [reflexivity|]. now rewrite IHk. Qed.

Lemma smul_add' a b P : valid C P -> smul C (a + b) P = smul C a P +' smul C b P.
Proof.
  intros HP. induction a; cbn [smul Nat.add]; [reflexivity|].
  rewrite IHa. symmetry. apply Hassoc; auto using smul_valid'.
Qed.

Lemma smul_double' k P : valid C P -> smul C (2 * k) P = smul C k (P +' P).
Proof.
  intros HP. induction k; [reflexivity|].
  replace (2 * S k)%nat with (S (S (2 * k))) by lia. cbn [smul]. rewrite IHk.
  symmetry. apply Hassoc; auto using smul_valid', add_valid'.
Qed.

Lemma smul_mul' a b P : valid C P -> smul C (a * b) P = smul C a (smul C b P).
Proof.
  intros HP. induction a; cbn [smul Nat.mul]; [reflexivity|].
  rewrite smul_add' by assumption. now rewrite IHa.
Qed.

Lemma rmul_pos_spec' q : forall cur res, valid C cur -> valid C res ->
  rmul_pos C q cur res = Ok (res +' smul C (Pos.to_nat q) cur).
Proof.
  induction q as [q IH|q IH|]; intros cur res Hc Hr; cbn [rmul_pos].
  - rewrite (padd_ok' res cur) by assumption. cbn [bind].
    rewrite (padd_ok' cur cur) by assumption. cbn [bind].
    rewrite IH by auto using add_valid'.
    rewrite Pos2Nat.inj_xI. cbn [smul]. rewrite smul_double' by assumption.
    f_equal. apply Hassoc; auto using smul_valid', add_valid'.
  - rewrite (padd_ok' cur cur) by assumption. cbn [bind].
    rewrite IH by auto using add_valid'.
    rewrite Pos2Nat.inj_xO. now rewrite smul_double'.
  - rewrite (padd_ok' res cur) by assumption. cbn [bind].
    rewrite (padd_ok' cur cur) by assumption. cbn [bind].
    replace (Pos.to_nat 1) with 1%nat by reflexivity. cbn [smul]. now rewrite add_0_r'.
Qed.

(* double-and-add = k-fold sum, for every curve over a prime field whose addition is associative *)
Theorem rmul_is_iterated_add_assoc k P : 0 <= k -> valid C P ->
  rmul_raw C k P = Ok (smul C (Z.to_nat k) P).
Proof.
  intros Hk HP. destruct k as [|q|q]; [reflexivity| |lia].
  cbn [rmul_raw]. rewrite rmul_pos_spec' by (assumption || exact I). reflexivity.
Qed.

(* a point killed by the prime n and different from infinity has order exactly n *)
Theorem order_exact P : prime n -> valid C P -> P <> None -> rmul_raw C n P = Ok None ->
  forall k, 0 < k < n -> rmul_raw C k P <> Ok None.
Proof.
  intros Hn HP HN En k Hk Ek.
  pose proof (prime_ge_2 _ Hn) as Hn2.
  rewrite rmul_is_iterated_add_assoc in En, Ek by (assumption || lia).
  injection En as En. injection Ek as Ek.
  set (u := modpow k (n - 2) n).
  assert (Hu : 0 <= u < n) by (apply modpow_range; lia).
  assert (Hku : (k * u) mod n = 1) by (apply fermat_inv_range; assumption).
  assert (Hq : 0 <= k * u / n) by (apply Z.div_pos; nia).
  pose proof (Z.div_mod (k * u) n ltac:(lia)) as Hdm. rewrite Hku in Hdm.
  set (q := k * u / n) in *.
  assert (E1 : smul C (Z.to_nat (k * u)) P = None).
  { rewrite (Z.mul_comm k u), Z2Nat.inj_mul by lia. rewrite smul_mul' by assumption.
    rewrite Ek. apply smul_inf'. }
  rewrite Hdm in E1. rewrite Z2Nat.inj_add in E1 by nia.
  rewrite smul_add' in E1 by assumption.
  rewrite (Z.mul_comm n q), Z2Nat.inj_mul in E1 by lia.
  rewrite smul_mul', En, smul_inf' in E1 by assumption.
  change (Z.to_nat 1) with 1%nat in E1. cbn [smul addT padd] in E1.
  rewrite add_0_r' in E1. contradiction.
Qed.

(* [group_laws C] from the minimal premises *)
Theorem group_laws_minimal : prime n -> 2 < n -> valid C (G C) ->
  (forall P, valid C P -> rmul_raw C n P = Ok None) -> group_laws C.
Proof.
  intros Hn Hn2 HG Hord. constructor; try assumption.
  - discriminate.
  - exact add_ok_general.
  - exact addT_comm_general.
  - exact add_neg_general.
  - apply order_exact; [assumption|assumption|discriminate|]. now apply Hord.
Qed.

End Assoc.
End Laws.
