(* Proofs/BytesP.v — big-endian byte-string lemmas shared by the ECDSA and BIP340 proofs. *)
From V Require Import Base.Prelude Base.Ints.

Lemma from_le_app a b : from_le (a ++ b) = from_le a + pow256 (length a) * from_le b.
Proof.
  induction a as [|x a IH]; cbn [app from_le length].
  - change (pow256 0) with 1. lia.
  - rewrite IH, pow256_S. lia.
Qed.

Lemma from_be_cons x l : from_be (x :: l) = x * pow256 (length l) + from_be l.
Proof.
  unfold from_be. cbn [rev]. rewrite from_le_app, rev_length. cbn [from_le]. lia.
Qed.

Lemma from_be_nil : from_be [] = 0.
Proof. reflexivity. Qed.

Lemma from_be_bound l : bytes_ok l -> 0 <= from_be l < pow256 (length l).
Proof.
  intros H. unfold from_be. rewrite <- (rev_length l). apply from_le_bound. now apply bytes_ok_rev.
Qed.

Lemma from_be_zero_cons l : from_be (0 :: l) = from_be l.
Proof. rewrite from_be_cons. lia. Qed.

(* Horner evaluation = big-endian value *)
Lemma horner_from_be l acc :
  fold_left (fun a x => a * 256 + x) l acc = acc * pow256 (length l) + from_be l.
Proof.
  revert acc. induction l as [|x l IH]; intros acc; cbn [fold_left length].
  - change (pow256 0) with 1. rewrite from_be_nil. lia.
  - rewrite IH, from_be_cons, pow256_S. ring.
Qed.

Lemma horner0_from_be l : fold_left (fun a x => a * 256 + x) l 0 = from_be l.
Proof. rewrite horner_from_be. lia. Qed.

Lemma int_to_be_ok n len : 0 <= n < pow256 len -> int_to_be n len = Ok (to_be len n).
Proof.
  intros H. unfold int_to_be, to_be.
  destruct (0 <=? n) eqn:E1; destruct (n <? pow256 len) eqn:E2; cbn; try reflexivity; lia.
Qed.

Lemma int_to_be_err n len : ~ (0 <= n < pow256 len) -> int_to_be n len = Err.
Proof.
  intros H. unfold int_to_be.
  destruct (0 <=? n) eqn:E1; destruct (n <? pow256 len) eqn:E2; cbn; try reflexivity; lia.
Qed.

Lemma to_be_inj len a b :
  0 <= a < pow256 len -> 0 <= b < pow256 len -> to_be len a = to_be len b -> a = b.
Proof.
  intros Ha Hb E. rewrite <- (from_be_to_be len a Ha), <- (from_be_to_be len b Hb). now rewrite E.
Qed.

Lemma to_be_from_be_n n l : length l = n -> bytes_ok l -> to_be n (from_be l) = l.
Proof. intros <-. apply to_be_from_be. Qed.

Lemma pow256_32 : pow256 32 = 2 ^ 256.
Proof. reflexivity. Qed.

Lemma bytes_ok_cons x l : bytes_ok (x :: l) <-> byte_ok x /\ bytes_ok l.
Proof. unfold bytes_ok. split; [intros H; inversion H; auto | intros [H1 H2]; constructor; auto]. Qed.

Lemma firstn_app_exact {A} (a b : list A) : firstn (length a) (a ++ b) = a.
Proof. rewrite firstn_app, Nat.sub_diag, firstn_all. cbn. apply app_nil_r. Qed.

Lemma skipn_app_exact {A} (a b : list A) : skipn (length a) (a ++ b) = b.
Proof. rewrite skipn_app, Nat.sub_diag, skipn_all. reflexivity. Qed.

Lemma to_nat_zlen {A} (l : list A) : Z.to_nat (zlen l) = length l.
Proof. unfold zlen. apply Nat2Z.id. Qed.
