(* Proofs/Pbkdf2P.v — the vendored PBKDF2 class (buffer + block counter, Model/Pbkdf2.v)
   computes RFC 8018 PBKDF2 (Spec/Pbkdf2S.v), for every PRF with a fixed positive output
   length, every password, salt, iteration count >= 1 and every sequence of reads whose
   total stays within the RFC bound (2^32 - 1) * hLen. *)
From V Require Import Base.Prelude Base.Ints Model.Mnemonic Model.Pbkdf2 Spec.Pbkdf2S.

Lemma zlen_app {A} (a b : list A) : zlen (a ++ b) = zlen a + zlen b.
Proof. unfold zlen. rewrite app_length. lia. Qed.

Lemma zlen_nonneg {A} (a : list A) : 0 <= zlen a.
Proof. unfold zlen. lia. Qed.

Lemma binxor_xorz a b : binxor a b = xorz a b.
Proof.
  revert b; induction a as [|x a IH]; intros [|y b]; cbn; try reflexivity.
  now rewrite IH.
Qed.

Lemma xorz_length a b : length a = length b -> length (xorz a b) = length a.
Proof. intros H. unfold xorz. rewrite map_length, combine_length. lia. Qed.

Lemma to_be4_INT i : to_be 4 i = INT i.
Proof.
  unfold to_be, INT. cbn [to_le rev app].
  rewrite !Z.div_div by lia. reflexivity.
Qed.

Lemma firstn_app_ge {A} n (a b : list A) : (n <= length a)%nat -> firstn n (a ++ b) = firstn n a.
Proof.
  intros H. rewrite firstn_app. replace (n - length a)%nat with O by lia.
  cbn. apply app_nil_r.
Qed.

Section P.
  Variable prf : bytes -> bytes -> bytes.
  Variable hLen : Z.
  Hypothesis prf_len : forall k m, zlen (prf k m) = hLen.
  Hypothesis hLen_pos : 0 < hLen.

  Definition MAXBLK : Z := 4294967295.

  Lemma prf_length k m : length (prf k m) = Z.to_nat hLen.
  Proof. specialize (prf_len k m). unfold zlen in prf_len. lia. Qed.

  (* the accumulate-as-you-go loop of __f is the fold of XOR over U_2 .. U_c *)
  Lemma f_loop_fold P n : forall U res,
    f_loop prf P U res n = fold_left xorz (U_seq prf P (prf P U) n) res.
  Proof.
    induction n as [|n IH]; intros U res; cbn [f_loop U_seq fold_left]; [reflexivity|].
    rewrite IH, binxor_xorz. reflexivity.
  Qed.

  Lemma pb_f_F P S c i : 1 <= c -> pb_f prf P S c i = F prf P S (Z.to_nat c) i.
  Proof.
    intros Hc. unfold pb_f, F. rewrite to_be4_INT.
    replace (Z.to_nat c) with (Datatypes.S (Z.to_nat (c - 1))) by lia.
    cbn [U_seq]. apply f_loop_fold.
  Qed.

  Lemma fold_xorz_length l : forall u,
    length u = Z.to_nat hLen -> Forall (fun x => length x = Z.to_nat hLen) l ->
    length (fold_left xorz l u) = Z.to_nat hLen.
  Proof.
    induction l as [|x l IH]; intros u Hu Hl; cbn [fold_left]; [exact Hu|].
    inversion Hl as [|? ? Hx Hl']; subst. apply IH; [|exact Hl'].
    rewrite xorz_length; congruence.
  Qed.

  Lemma U_seq_lengths P n : forall U, length U = Z.to_nat hLen ->
    Forall (fun x => length x = Z.to_nat hLen) (U_seq prf P U n).
  Proof.
    induction n as [|n IH]; intros U HU; cbn [U_seq]; constructor; [exact HU|].
    apply IH. apply prf_length.
  Qed.

  Lemma F_length P S c i : (1 <= c)%nat -> length (F prf P S c i) = Z.to_nat hLen.
  Proof.
    intros Hc. unfold F. destruct c as [|c]; [lia|]. cbn [U_seq].
    apply fold_xorz_length; [apply prf_length|]. apply U_seq_lengths, prf_length.
  Qed.

  Lemma T_blocks_length P S c : (1 <= c)%nat -> forall m i,
    zlen (concat (T_blocks prf P S c i m)) = Z.of_nat m * hLen.
  Proof.
    intros Hc. induction m as [|m IH]; intros i; [reflexivity|].
    cbn [T_blocks concat]. rewrite zlen_app, IH. unfold zlen. rewrite F_length by exact Hc. lia.
  Qed.

  Lemma T_blocks_app P S c a : forall i b,
    T_blocks prf P S c i (a + b) = T_blocks prf P S c i a ++ T_blocks prf P S c (i + Z.of_nat a) b.
  Proof.
    induction a as [|a IH]; intros i b.
    - cbn. now rewrite Z.add_0_r.
    - cbn [plus T_blocks app]. rewrite IH.
      replace (i + 1 + Z.of_nat a) with (i + Z.of_nat (Datatypes.S a)) by lia. reflexivity.
  Qed.

  (* prefixes of the block stream do not depend on how many blocks were produced *)
  Lemma T_prefix P S c (Hc : (1 <= c)%nat) n m m' :
    Z.of_nat n <= Z.of_nat m * hLen -> Z.of_nat n <= Z.of_nat m' * hLen ->
    firstn n (concat (T_blocks prf P S c 1 m)) = firstn n (concat (T_blocks prf P S c 1 m')).
  Proof.
    assert (G : forall a d, Z.of_nat n <= Z.of_nat a * hLen ->
      firstn n (concat (T_blocks prf P S c 1 (a + d))) = firstn n (concat (T_blocks prf P S c 1 a))).
    { intros a d Ha. rewrite T_blocks_app, concat_app. apply firstn_app_ge.
      pose proof (T_blocks_length P S c Hc a 1) as L. unfold zlen in L. lia. }
    intros H1 H2. destruct (Nat.le_ge_cases m m') as [L|L].
    - replace m' with (m + (m' - m))%nat by lia. symmetry. now apply G.
    - replace m with (m' + (m - m'))%nat by lia. now apply G.
  Qed.

  (* ---- the while loop of read ---- *)
  Lemma read_loop_spec P S c (Hc : 1 <= c) fuel : forall size n i acc,
    size = zlen acc -> 0 <= i -> n - size <= Z.of_nat fuel ->
    i * hLen + (n - size) <= MAXBLK * hLen ->
    exists m : nat,
      read_loop prf fuel P S c size n i acc
        = Ok (acc ++ concat (T_blocks prf P S (Z.to_nat c) (i + 1) m), i + Z.of_nat m) /\
      n <= size + Z.of_nat m * hLen /\
      (m = O \/ size + Z.of_nat m * hLen - hLen < n).
  Proof.
    unfold MAXBLK.
    induction fuel as [|fuel IH]; intros size n i acc Hs Hi Hf Hb.
    - exists O. cbn [read_loop]. destruct (size <? n) eqn:E; [lia|].
      cbn. rewrite app_nil_r, Z.add_0_r. repeat split; [lia | now left].
    - cbn [read_loop]. destruct (size <? n) eqn:E.
      + assert (Hi1 : i + 1 <= 4294967295) by nia.
        destruct (i + 1 >? 4294967295) eqn:E1; [lia|].
        destruct (i + 1 <? 1) eqn:E2; [lia|]. cbn [orb].
        assert (Lb : zlen (pb_f prf P S c (i + 1)) = hLen).
        { rewrite pb_f_F by exact Hc. unfold zlen. rewrite F_length by lia. lia. }
        rewrite Lb.
        destruct (IH (size + hLen) n (i + 1) (acc ++ pb_f prf P S c (i + 1))) as [m [R [G1 G2]]].
        * rewrite zlen_app, Lb. lia.
        * lia.
        * lia.
        * nia.
        * exists (Datatypes.S m). rewrite R. split; [|split].
          -- cbn [T_blocks concat]. rewrite pb_f_F by exact Hc. rewrite <- app_assoc.
             replace (i + 1 + Z.of_nat m) with (i + Z.of_nat (Datatypes.S m)) by lia. reflexivity.
          -- lia.
          -- right. destruct G2 as [-> | G2]; lia.
      + exists O. cbn. rewrite app_nil_r, Z.add_0_r. repeat split; [lia | now left].
  Qed.

  (* ---- state invariant across reads ---- *)
  Definition inv (P S : bytes) (c : Z) (st : pstate) (consumed : bytes) : Prop :=
    p_pass st = P /\ p_salt st = S /\ p_iter st = c /\
    exists m : nat, p_block st = Z.of_nat m /\
      consumed ++ p_buf st = concat (T_blocks prf P S (Z.to_nat c) 1 m).

  Lemma slice_split n l : 0 <= n -> slice_to n l ++ slice_from n l = l.
  Proof.
    intros H. unfold slice_to, slice_from. destruct (n <? 0) eqn:E; [lia|]. apply firstn_skipn.
  Qed.

  Lemma slice_to_len n l : 0 <= n <= zlen l -> zlen (slice_to n l) = n.
  Proof.
    intros H. unfold slice_to. destruct (n <? 0) eqn:E; [lia|].
    unfold zlen in *. rewrite firstn_length. lia.
  Qed.

  Lemma pb_read_spec P S c (Hc : 1 <= c) st consumed n :
    inv P S c st consumed -> 0 <= n -> zlen consumed + n <= MAXBLK * hLen ->
    exists out st', pb_read prf st n = Ok (out, st') /\ zlen out = n /\
                    inv P S c st' (consumed ++ out).
  Proof.
    intros [HP [HS [HC [m [Hm Hbuf]]]]] Hn Hb.
    assert (Hc' : (1 <= Z.to_nat c)%nat) by lia.
    pose proof (T_blocks_length P S (Z.to_nat c) Hc' m 1) as L.
    rewrite <- Hbuf, zlen_app in L.
    unfold pb_read. rewrite HP, HS, HC, Hm.
    destruct (read_loop_spec P S c Hc (Z.to_nat n) (zlen (p_buf st)) n (Z.of_nat m) (p_buf st))
      as [k [R [G1 G2]]]; try lia.
    { pose proof (zlen_nonneg (p_buf st)). lia. }
    rewrite R. cbn [bind].
    set (buf := p_buf st ++ concat (T_blocks prf P S (Z.to_nat c) (Z.of_nat m + 1) k)).
    assert (Lbuf : zlen buf = zlen (p_buf st) + Z.of_nat k * hLen).
    { unfold buf. rewrite zlen_app, T_blocks_length by exact Hc'. reflexivity. }
    exists (slice_to n buf), {| p_pass := P; p_salt := S; p_iter := c;
                                p_buf := slice_from n buf; p_block := Z.of_nat m + Z.of_nat k |}.
    split; [reflexivity|]. split; [apply slice_to_len; lia|].
    unfold inv. cbn. repeat split; try reflexivity.
    exists (m + k)%nat. split; [lia|].
    rewrite <- app_assoc, slice_split by exact Hn.
    unfold buf. rewrite app_assoc, Hbuf, T_blocks_app, concat_app.
    replace (1 + Z.of_nat m) with (Z.of_nat m + 1) by lia. reflexivity.
  Qed.

  Fixpoint zsum_l (l : list Z) : Z := match l with [] => 0 | x :: r => x + zsum_l r end.

  Lemma pb_reads_spec P S c (Hc : 1 <= c) ns : forall st consumed,
    inv P S c st consumed -> Forall (fun n => 0 <= n) ns ->
    zlen consumed + zsum_l ns <= MAXBLK * hLen ->
    exists outs, pb_reads prf st ns = Ok outs /\ Forall2 (fun (o : list Z) n => zlen o = n) outs ns /\
      exists (m : nat) rest, (consumed ++ concat outs) ++ rest
                             = concat (T_blocks prf P S (Z.to_nat c) 1 m).
  Proof.
    induction ns as [|n ns IH]; intros st consumed Hinv Hpos Hb.
    - exists []. split; [reflexivity|]. split; [constructor|].
      destruct Hinv as [_ [_ [_ [m [_ Hbuf]]]]]. exists m, (p_buf st). cbn. now rewrite app_nil_r.
    - inversion Hpos as [|? ? Hn Hpos']; subst. cbn [zsum_l] in Hb.
      assert (Hrest : 0 <= zsum_l ns).
      { clear -Hpos'. induction Hpos'; cbn; lia. }
      destruct (pb_read_spec P S c Hc st consumed n Hinv Hn) as [out [st' [R [Lo Hinv']]]]; [lia|].
      destruct (IH st' (consumed ++ out) Hinv' Hpos') as [outs [Rs [F2 [m [rest E]]]]].
      { rewrite zlen_app. lia. }
      exists (out :: outs). cbn [pb_reads]. rewrite R. cbn [bind]. rewrite Rs. cbn [bind].
      split; [reflexivity|]. split; [constructor; assumption|].
      exists m, rest. cbn [concat]. rewrite <- E. now rewrite !app_assoc.
  Qed.

  Lemma concat_lengths outs ns :
    Forall2 (fun (o : list Z) n => zlen o = n) outs ns -> zlen (concat outs) = zsum_l ns.
  Proof.
    induction 1 as [|o n outs ns Ho _ IH]; [reflexivity|].
    cbn [concat zsum_l]. rewrite zlen_app. lia.
  Qed.

  (* ceil(dkLen / hLen) blocks are enough *)
  Lemma ceil_enough d : 0 <= d -> d <= ((d + hLen - 1) / hLen) * hLen.
  Proof.
    intros Hd. pose proof (Z.div_mod (d + hLen - 1) hLen ltac:(lia)) as E.
    pose proof (Z.mod_pos_bound (d + hLen - 1) hLen hLen_pos) as B. lia.
  Qed.

  (* any sequence of reads on a fresh object: the concatenated results are the RFC key of the
     total length *)
  Theorem pbkdf2_reads_eq_rfc8018 P S c ns :
    1 <= c -> Forall (fun n => 0 <= n) ns -> zsum_l ns <= MAXBLK * hLen ->
    exists outs,
      (st <- pb_init P S c ;; pb_reads prf st ns) = Ok outs /\
      Forall2 (fun (o : list Z) n => zlen o = n) outs ns /\
      pbkdf2 prf hLen P S c (zsum_l ns) = Ok (concat outs).
  Proof.
    intros Hc Hpos Hb. unfold pb_init. destruct (c <? 1) eqn:E; [lia|]. cbn [bind].
    set (st0 := {| p_pass := P; p_salt := S; p_iter := c; p_buf := []; p_block := 0 |}).
    assert (Hinv : inv P S c st0 []).
    { unfold inv, st0. cbn. repeat split; try reflexivity. exists O. split; reflexivity. }
    destruct (pb_reads_spec P S c Hc ns st0 [] Hinv Hpos) as [outs [R [F2 [m [rest Es]]]]].
    { cbn. exact Hb. }
    exists outs. split; [exact R|]. split; [exact F2|].
    assert (Hsum : 0 <= zsum_l ns). { clear -Hpos. induction Hpos; cbn; lia. }
    pose proof (concat_lengths outs ns F2) as Lc.
    unfold pbkdf2. rewrite E.
    destruct (zsum_l ns <? 0) eqn:E1; [lia|].
    unfold MAXBLK in Hb. destruct (zsum_l ns >? 4294967295 * hLen) eqn:E2; [lia|].
    f_equal. cbn [app] in Es.
    assert (Hc' : (1 <= Z.to_nat c)%nat) by lia.
    pose proof (T_blocks_length P S (Z.to_nat c) Hc' m 1) as Lm.
    rewrite <- Es, zlen_app in Lm. pose proof (zlen_nonneg rest).
    pose proof (ceil_enough (zsum_l ns) Hsum) as Ce.
    assert (Hl : 0 <= (zsum_l ns + hLen - 1) / hLen) by (apply Z.div_pos; lia).
    rewrite (T_prefix P S (Z.to_nat c) Hc' (Z.to_nat (zsum_l ns))
               (Z.to_nat ((zsum_l ns + hLen - 1) / hLen)) m) by lia.
    rewrite <- Es. rewrite firstn_app_ge by (unfold zlen in Lc; lia).
    rewrite firstn_all2 by (unfold zlen in Lc; lia). reflexivity.
  Qed.

  (* the form used by the library: one read of dkLen bytes *)
  Corollary pbkdf2_read_eq_rfc8018 P S c dkLen :
    1 <= c -> 0 <= dkLen <= MAXBLK * hLen ->
    pbkdf2_read prf P S c dkLen = pbkdf2 prf hLen P S c dkLen.
  Proof.
    intros Hc Hd.
    destruct (pbkdf2_reads_eq_rfc8018 P S c [dkLen] Hc) as [outs [R [F2 E]]].
    - constructor; [lia | constructor].
    - cbn [zsum_l]. lia.
    - cbn [zsum_l] in E. rewrite Z.add_0_r in E. rewrite E.
      unfold pbkdf2_read. unfold pb_init in *. destruct (c <? 1); [discriminate|].
      cbn [bind pb_reads] in *.
      destruct (pb_read prf _ dkLen) as [[b st']|]; cbn [bind] in *; [|discriminate].
      inversion R; subst. cbn. now rewrite app_nil_r.
  Qed.

  Lemma pbkdf2_read_total P S c n :
    1 <= c -> 0 <= n <= MAXBLK * hLen -> exists b, pbkdf2_read prf P S c n = Ok b /\ zlen b = n.
  Proof.
    intros Hc Hn.
    destruct (pbkdf2_reads_eq_rfc8018 P S c [n] Hc) as [outs [R [F2 E]]].
    - constructor; [lia | constructor].
    - cbn [zsum_l]. lia.
    - unfold pbkdf2_read. unfold pb_init in *. destruct (c <? 1); [discriminate|].
      cbn [bind pb_reads] in *.
      destruct (pb_read prf _ n) as [[b st']|]; cbn [bind] in *; [|discriminate].
      inversion R; subst. inversion F2 as [|? ? ? ? Hb _]; subst. eauto.
  Qed.

  Lemma pbkdf2_iterations_lt_1 P S c n : c < 1 ->
    pbkdf2_read prf P S c n = Err /\ pbkdf2 prf hLen P S c n = Err.
  Proof.
    intros H. unfold pbkdf2_read, pb_init, pbkdf2. destruct (c <? 1) eqn:E; [|lia]. now split.
  Qed.
End P.
