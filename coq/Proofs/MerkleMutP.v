(* Proofs/MerkleMutP.v — populate_tree's effect on the caller's lists.
   [populate_tree_mut] (cursor machine, returning the lists as they are left) equals the
   recursive [populate_tree_rec_mut] on all inputs (same simulation lemma as
   MerkleRefineGen.machine_eq_traversal); on success the hash list is EMPTY, the flag list is
   a suffix of the given one and holds only zeros, and root / proved ids are those of
   populate_tree. *)
From Coq Require Import ZArith List Bool Lia Arith.
From V Require Import Base.Prelude Base.Ints Model.Helper Model.Block Model.Merkle Model.MerkleBlock
  Model.MerkleBlockX Spec.Bip37 Proofs.MerkleP Proofs.Bip37P Proofs.MerkleBlockP Proofs.MerkleRefineGen
  Proofs.MerkleDeepP.
Import ListNotations.

Section Mut.
Variable hash256 : bytes -> bytes.

Theorem machine_mut_eq_traversal : forall total bits hs,
  populate_tree_mut hash256 total bits hs = populate_tree_rec_mut hash256 total bits hs.
Proof.
  intros total bits hs.
  unfold populate_tree_mut, populate_tree_rec_mut, mt_init, populate_fuel.
  destruct (total <? 1)%Z eqn:Et; [reflexivity|]. apply Z.ltb_ge in Et. cbn [bind].
  destruct (all32 hs); [|reflexivity]. cbn [negb].
  set (n := Z.to_nat total). set (md := max_depth total).
  assert (Hn : (1 <= n)%nat) by (unfold n; lia).
  set (init := map (fun depth => repeat None (width n (md - depth))) (seq 0 (S md))).
  assert (Hshape : shape n md init).
  { unfold shape, init. rewrite map_map. apply map_ext. intros d. apply repeat_length. }
  assert (Hnone : forall d j, node init d j = None) by (intros d j; apply node_init).
  pose proof (sim hash256 n md Hn md 0 0 init [] bits hs eq_refl Hshape (width_pos n md Hn)
                (fun d' j _ => Hnone d' j) (Hnone 0 0))%nat as H.
  unfold sim_post in H.
  destruct (traverse hash256 n md 0 bits hs) as [[[[v m] bits'] hs']|].
  - destruct H as (k & c & nodes' & Hs' & Hv & _ & Hc & Hk & Hloop).
    assert (Hfuel : (k + 1 <= 3 * (2 * n + md + 1) + 1)%nat).
    { pose proof (count_some_le nodes') as H1. rewrite Hs' in H1.
      pose proof (sum_widths n md 0) as H2. cbn [plus] in H2. rewrite H2 in H1.
      pose proof (sumw_bound n md). lia. }
    replace (3 * (2 * n + md + 1) + 1)%nat with (k + S (3 * (2 * n + md + 1) + 1 - k - 1))%nat by lia.
    rewrite Hloop. cbn [populate_loop mt_nodes]. rewrite (root_get n md Hn nodes' Hs'), Hv.
    cbn [bind]. destruct (leftover_ok bits' hs'); [|reflexivity].
    cbn [mt_nodes mt_proved]. rewrite (root_get n md Hn nodes' Hs'), Hv. cbn [bind app].
    reflexivity.
  - rewrite H. reflexivity.
Qed.

Lemma traverse_suffix n : forall h pos bits hs v ms bits' hs',
  traverse hash256 n h pos bits hs = Ok (v, ms, bits', hs') ->
  exists ub uh, bits = ub ++ bits' /\ hs = uh ++ hs'.
Proof.
  induction h as [|h IH]; intros pos bits hs v ms bits' hs' HT.
  - cbn [traverse] in HT. destruct bits as [|b bits]; [discriminate|].
    destruct hs as [|x hs]; [discriminate|]. injection HT as <- <- <- <-.
    exists [b], [x]. split; reflexivity.
  - cbn [traverse] in HT. destruct bits as [|b bits]; [discriminate|].
    destruct (b =? 0)%Z.
    { destruct hs as [|x hs]; [discriminate|]. injection HT as <- <- <- <-.
      exists [b], [x]. split; reflexivity. }
    destruct (traverse hash256 n h (2 * pos) bits hs) as [[[[l m1] bits1] hs1]|] eqn:EL; [|discriminate].
    cbn [bind] in HT. destruct (IH _ _ _ _ _ _ _ EL) as [ub1 [uh1 [-> ->]]].
    destruct (2 * pos + 1 <? width n h)%nat.
    + destruct (traverse hash256 n h (2 * pos + 1) bits1 hs1) as [[[[r m2] bits2] hs2]|] eqn:ER; [|discriminate].
      cbn [bind] in HT. injection HT as <- <- <- <-.
      destruct (IH _ _ _ _ _ _ _ ER) as [ub2 [uh2 [-> ->]]].
      exists (b :: ub1 ++ ub2), (uh1 ++ uh2). cbn [app]. now rewrite <- !app_assoc.
    + injection HT as <- <- <- <-. exists (b :: ub1), uh1. split; reflexivity.
Qed.

(* what a caller of populate_tree finds in its lists afterwards *)
Lemma populate_mut_spec total bits hs r p bits' hs' :
  populate_tree_mut hash256 total bits hs = Ok (r, p, bits', hs') ->
  populate_tree hash256 total bits hs = Ok (r, p) /\
  hs' = [] /\ Forall (fun b => b = 0%Z) bits' /\ exists used, bits = used ++ bits'.
Proof.
  rewrite machine_mut_eq_traversal, machine_eq_traversal.
  unfold populate_tree_rec_mut, populate_tree_rec. destruct (total <? 1)%Z; [discriminate|].
  destruct (all32 hs); [|discriminate]. cbn [negb].
  destruct (traverse hash256 (Z.to_nat total) (max_depth total) 0 bits hs) as [[[[v ms] b'] h']|] eqn:ET;
    [|discriminate].
  cbn [bind]. destruct (leftover_ok b' h') eqn:LO; [|discriminate].
  intros [= <- <- <- <-]. split; [reflexivity|].
  pose proof (leftover_ok_nil _ _ LO) as ->. split; [reflexivity|]. split.
  - cbn [leftover_ok] in LO. rewrite forallb_forall in LO. apply Forall_forall.
    intros b Hb. apply LO in Hb. now apply Z.eqb_eq in Hb.
  - destruct (traverse_suffix _ _ _ _ _ _ _ _ _ ET) as [ub [_ [E _]]]. exists ub. exact E.
Qed.

Lemma populate_mut_complete total bits hs r p :
  populate_tree hash256 total bits hs = Ok (r, p) ->
  exists bits', populate_tree_mut hash256 total bits hs = Ok (r, p, bits', []).
Proof.
  rewrite machine_mut_eq_traversal, machine_eq_traversal.
  unfold populate_tree_rec_mut, populate_tree_rec. destruct (total <? 1)%Z; [discriminate|].
  destruct (all32 hs); [|discriminate]. cbn [negb].
  destruct (traverse hash256 (Z.to_nat total) (max_depth total) 0 bits hs) as [[[[v ms] b'] h']|];
    [|discriminate].
  cbn [bind]. destruct (leftover_ok b' h') eqn:LO; [|discriminate].
  intros [= <- <-]. pose proof (leftover_ok_nil _ _ LO) as ->. exists b'. reflexivity.
Qed.
End Mut.
