(* Proofs/ShareCodecP.v — SLIP39 share <-> index list codec: parsing the indices produced
   for a well-formed share gives the share back. *)
From V Require Import Base.Prelude Base.Ints Model.Shamir Proofs.BitsP Proofs.Rs1024P.

Local Open Scope Z_scope.

Definition share_wf (s : share) : Prop :=
  (sh_bits s = 128 \/ sh_bits s = 256) /\ 0 <= sh_id s < 32768 /\ 0 <= sh_exp s < 32 /\
  0 <= sh_gi s <= 15 /\ 1 <= sh_gt s <= sh_gc s /\ sh_gc s <= 16 /\ 0 <= sh_mi s <= 15 /\
  1 <= sh_mt s <= 16 /\ 0 <= sh_value s < 2 ^ sh_bits s /\
  sh_bytes s = to_be (Z.to_nat (sh_bits s / 8)) (sh_value s).

(* ------------------------------------------------------------------ base-1024 digits *)

(* the n low base-1024 digits of a, most significant first *)
Fixpoint digs (n : nat) (a : Z) : list Z :=
  match n with O => [] | S k => (a / 1024 ^ Z.of_nat k) mod 1024 :: digs k a end.

Lemma digs_length n a : length (digs n a) = n.
Proof. induction n; cbn [digs length]; congruence. Qed.

Lemma digs_bound n a : Forall (fun i => 0 <= i < 1024) (digs n a).
Proof. induction n; cbn [digs]; constructor; [apply Z.mod_pos_bound; lia | assumption]. Qed.

Lemma pow1024_pos k : 0 < 1024 ^ Z.of_nat k.
Proof. apply Z.pow_pos_nonneg; lia. Qed.

Lemma words_digs_nat a n :
  map (fun i => Z.land (Z.shiftr a (10 * (Z.of_nat n - i - 1))) 1023) (map Z.of_nat (seq 0 n))
  = digs n a.
Proof.
  induction n as [|n IH]; [reflexivity|].
  cbn [seq]. rewrite <- seq_shift. cbn [map digs]. f_equal.
  - replace (Z.of_nat (S n) - Z.of_nat 0 - 1) with (Z.of_nat n) by lia.
    rewrite shr_div by lia. change 1023 with (2 ^ 10 - 1). rewrite land_mask by lia.
    rewrite Z.pow_mul_r by lia. reflexivity.
  - rewrite <- IH, !map_map. apply map_ext. intros i. do 3 f_equal. lia.
Qed.

Lemma words_digs a nw : 0 <= nw ->
  map (fun i => Z.land (Z.shiftr a (10 * (nw - i - 1))) 1023) (map Z.of_nat (seq 0 (Z.to_nat nw)))
  = digs (Z.to_nat nw) a.
Proof.
  intros H. rewrite <- (words_digs_nat a (Z.to_nat nw)). rewrite Z2Nat.id by exact H. reflexivity.
Qed.

Lemma digs_app n k a : digs (n + k) a = digs n (a / 1024 ^ Z.of_nat k) ++ digs k a.
Proof.
  induction n as [|n IH]; [reflexivity|].
  cbn [Nat.add digs app]. f_equal; [|exact IH].
  pose proof (pow1024_pos k). pose proof (pow1024_pos n).
  rewrite Z.div_div by lia. rewrite Nat2Z.inj_add, Z.pow_add_r by lia.
  rewrite (Z.mul_comm (1024 ^ Z.of_nat n)). reflexivity.
Qed.

(* folding the digits back *)
Lemma fold_digs n a : forall acc,
  fold_left (fun v i => Z.lor (Z.shiftl v 10) i) (digs n a) acc
  = acc * 1024 ^ Z.of_nat n + a mod 1024 ^ Z.of_nat n.
Proof.
  induction n as [|n IH]; intros acc.
  - cbn [digs fold_left]. change (1024 ^ Z.of_nat 0) with 1. rewrite Z.mod_1_r. lia.
  - cbn [digs fold_left].
    pose proof (pow1024_pos n) as P.
    rewrite lor_shiftl_add by (lia || (apply Z.mod_pos_bound; lia)).
    rewrite IH. rewrite Nat2Z.inj_succ, Z.pow_succ_r by lia.
    rewrite (Z.mul_comm 1024). rewrite (Z.rem_mul_r a (1024 ^ Z.of_nat n) 1024) by lia.
    change (2 ^ 10) with 1024. ring.
Qed.

Lemma digs_4 h : digs 4 h =
  [(h / 1024 ^ 3) mod 1024; (h / 1024 ^ 2) mod 1024; (h / 1024 ^ 1) mod 1024; (h / 1024 ^ 0) mod 1024].
Proof. reflexivity. Qed.

(* ------------------------------------------------------------------ header fields *)

Definition header (id e gi gt gc mi mt : Z) : Z :=
  (((((id * 32 + e) * 16 + gi) * 16 + (gt - 1)) * 16 + (gc - 1)) * 16 + mi) * 16 + (mt - 1).

Ltac dm := Z.div_mod_to_equations; lia.

Section Fields.
  Variables id e gi gt gc mi mt : Z.
  Hypothesis Hid : 0 <= id < 32768.
  Hypothesis He : 0 <= e < 32.
  Hypothesis Hgi : 0 <= gi <= 15.
  Hypothesis Hgt : 1 <= gt <= gc.
  Hypothesis Hgc : gc <= 16.
  Hypothesis Hmi : 0 <= mi <= 15.
  Hypothesis Hmt : 1 <= mt <= 16.

  Let h := header id e gi gt gc mi mt.

  Lemma header_lor :
    Z.lor (Z.shiftl (Z.lor (Z.shiftl (Z.lor (Z.shiftl (Z.lor (Z.shiftl (Z.lor (Z.shiftl
      (Z.lor (Z.shiftl id 5) e) 4) gi) 4) (gt - 1)) 4) (gc - 1)) 4) mi) 4) (mt - 1) = h.
  Proof.
    rewrite !lor_shiftl_add by lia. reflexivity.
  Qed.

  Lemma header_bound : 0 <= h < 2 ^ 40.
  Proof. unfold h, header. lia. Qed.

  Let i0 := (h / 1024 ^ 3) mod 1024.
  Let i1 := (h / 1024 ^ 2) mod 1024.
  Let i2 := (h / 1024 ^ 1) mod 1024.
  Let i3 := (h / 1024 ^ 0) mod 1024.

  Lemma hd0 : i0 = id / 32.
  Proof. unfold i0, h, header. dm. Qed.
  Lemma hd1 : i1 = (id mod 32) * 32 + e.
  Proof. unfold i1, h, header. dm. Qed.
  Lemma hd2 : i2 = gi * 64 + (gt - 1) * 4 + (gc - 1) / 4.
  Proof. unfold i2, h, header. dm. Qed.
  Lemma hd3 : i3 = ((gc - 1) mod 4) * 256 + mi * 16 + (mt - 1).
  Proof. unfold i3, h, header. dm. Qed.

  Lemma field_id : Z.lor (Z.shiftl i0 5) (Z.shiftr i1 5) = id.
  Proof.
    rewrite hd0, hd1. rewrite shr_div by lia. rewrite lor_shiftl_add by (lia || dm). dm.
  Qed.
  Lemma field_e : Z.land i1 31 = e.
  Proof. rewrite hd1. change 31 with (2 ^ 5 - 1). rewrite land_mask by lia. dm. Qed.
  Lemma field_gi : Z.shiftr i2 6 = gi.
  Proof. rewrite hd2. rewrite shr_div by lia. dm. Qed.
  Lemma field_gt : Z.land (Z.shiftr i2 2) 15 + 1 = gt.
  Proof.
    rewrite hd2. rewrite shr_div by lia. change 15 with (2 ^ 4 - 1). rewrite land_mask by lia. dm.
  Qed.
  Lemma field_gc : Z.lor (Z.shiftl (Z.land i2 3) 2) (Z.shiftr i3 8) + 1 = gc.
  Proof.
    rewrite hd2, hd3. rewrite shr_div by lia. change 3 with (2 ^ 2 - 1). rewrite land_mask by lia.
    rewrite lor_shiftl_add by (lia || dm). dm.
  Qed.
  Lemma field_mi : Z.land (Z.shiftr i3 4) 15 = mi.
  Proof.
    rewrite hd3. rewrite shr_div by lia. change 15 with (2 ^ 4 - 1). rewrite land_mask by lia. dm.
  Qed.
  Lemma field_mt : Z.land i3 15 + 1 = mt.
  Proof. rewrite hd3. change 15 with (2 ^ 4 - 1). rewrite land_mask by lia. dm. Qed.
End Fields.

(* ------------------------------------------------------------------ mk_share *)

Lemma pow256_bits bits : bits = 128 \/ bits = 256 -> pow256 (Z.to_nat (bits / 8)) = 2 ^ bits.
Proof. intros [-> | ->]; reflexivity. Qed.

Lemma mk_share_ok s : share_wf s ->
  mk_share (sh_bits s) (sh_id s) (sh_exp s) (sh_gi s) (sh_gt s) (sh_gc s) (sh_mi s) (sh_mt s)
           (sh_value s) = Ok s.
Proof.
  destruct s as [bits id e gi gt gc mi mt value b]. unfold share_wf. cbn [sh_bits sh_id sh_exp
    sh_gi sh_gt sh_gc sh_mi sh_mt sh_value sh_bytes].
  intros (Hb & Hid & He & Hgi & Hgt & Hgc & Hmi & Hmt & Hv & Hbytes).
  unfold mk_share.
  replace ((gi <? 0) || (gi >? 15)) with false by (symmetry; apply orb_false_iff; lia).
  replace ((gt <? 1) || (gt >? gc)) with false by (symmetry; apply orb_false_iff; lia).
  replace ((gc <? 1) || (gc >? 16)) with false by (symmetry; apply orb_false_iff; lia).
  replace ((mi <? 0) || (mi >? 15)) with false by (symmetry; apply orb_false_iff; lia).
  replace ((mt <? 1) || (mt >? 16)) with false by (symmetry; apply orb_false_iff; lia).
  replace (bits / 8 <? 0) with false by (destruct Hb as [-> | ->]; reflexivity).
  unfold int_to_be. rewrite (pow256_bits bits Hb).
  replace ((0 <=? value) && (value <? 2 ^ bits)) with true by (symmetry; apply andb_true_iff; lia).
  cbn [bind]. rewrite Hbytes. reflexivity.
Qed.

Theorem mk_share_wf : forall bits id e gi gt gc mi mt value s,
  mk_share bits id e gi gt gc mi mt value = Ok s -> (bits = 128 \/ bits = 256) ->
  0 <= id < 32768 -> 0 <= e < 32 -> share_wf s.
Proof.
  intros bits id e gi gt gc mi mt value s H Hb Hid He. unfold mk_share in H.
  destruct ((gi <? 0) || (gi >? 15)) eqn:E1; [discriminate|].
  destruct ((gt <? 1) || (gt >? gc)) eqn:E2; [discriminate|].
  destruct ((gc <? 1) || (gc >? 16)) eqn:E3; [discriminate|].
  destruct ((mi <? 0) || (mi >? 15)) eqn:E4; [discriminate|].
  destruct ((mt <? 1) || (mt >? 16)) eqn:E5; [discriminate|].
  destruct (bits / 8 <? 0) eqn:E6; [discriminate|].
  unfold int_to_be in H. rewrite (pow256_bits bits Hb) in H.
  destruct ((0 <=? value) && (value <? 2 ^ bits)) eqn:E7; [|discriminate].
  cbn [bind] in H. inversion H; subst s; clear H.
  apply orb_false_iff in E1, E2, E3, E4, E5. apply andb_true_iff in E7.
  unfold share_wf. cbn [sh_bits sh_id sh_exp sh_gi sh_gt sh_gc sh_mi sh_mt sh_value sh_bytes].
  repeat split; try lia; try exact Hb. 
Qed.

(* ------------------------------------------------------------------ share_indices as digits *)

Lemma s_shamir_bound : Forall (fun v => 0 <= v < 1024) s_shamir.
Proof. unfold s_shamir. repeat constructor; lia. Qed.

(* nv = number of value words (13 for 128 bits, 26 for 256 bits) *)
Lemma share_indices_digs s nv : share_wf s ->
  (- sh_bits s) mod 10 + sh_bits s = 10 * Z.of_nat nv ->
  let a := header (sh_id s) (sh_exp s) (sh_gi s) (sh_gt s) (sh_gc s) (sh_mi s) (sh_mt s)
           * 1024 ^ Z.of_nat nv + sh_value s in
  share_indices s = digs (4 + nv) a ++ rs1024_create_checksum s_shamir (digs (4 + nv) a).
Proof.
  destruct s as [bits id e gi gt gc mi mt value b]. unfold share_wf. cbn [sh_bits sh_id sh_exp
    sh_gi sh_gt sh_gc sh_mi sh_mt sh_value sh_bytes].
  intros (Hb & Hid & He & Hgi & Hgt & Hgc & Hmi & Hmt & Hv & Hbytes) Hpb. cbv zeta.
  unfold share_indices. cbv zeta. cbn [sh_bits sh_id sh_exp
    sh_gi sh_gt sh_gc sh_mi sh_mt sh_value sh_bytes].
  rewrite Hpb. rewrite (Z.mul_comm 10 (Z.of_nat nv)), Z.div_mul by lia.
  rewrite words_digs by lia.
  replace (Z.to_nat (4 + Z.of_nat nv)) with (4 + nv)%nat by lia.
  rewrite header_lor by assumption.
  assert (Hv' : 0 <= value < 2 ^ (Z.of_nat nv * 10)).
  { split; [lia|]. apply Z.lt_le_trans with (2 ^ bits); [lia|].
    apply Z.pow_le_mono_r; [lia|]. destruct Hb as [-> | ->]; dm. }
  rewrite lor_shiftl_add by (lia || exact Hv').
  rewrite (Z.mul_comm (Z.of_nat nv) 10), Z.pow_mul_r by lia. change (2 ^ 10) with 1024.
  reflexivity.
Qed.

(* ------------------------------------------------------------------ round trip *)

Lemma roundtrip_gen s nv : share_wf s ->
  (- sh_bits s) mod 10 + sh_bits s = 10 * Z.of_nat nv ->
  (Z.of_nat (4 + nv + 3) - 7) * 10 / 16 * 16 = sh_bits s ->
  share_of_indices (share_indices s) = Ok s /\
  length (share_indices s) = (4 + nv + 3)%nat /\
  Forall (fun i => 0 <= i < 1024) (share_indices s).
Proof.
  intros Hwf Hpb Hbits. rewrite (share_indices_digs s nv Hwf Hpb). cbv zeta.
  pose proof (mk_share_ok s Hwf) as Hmk.
  destruct s as [bits id e gi gt gc mi mt value b]. unfold share_wf in Hwf.
  cbn [sh_bits sh_id sh_exp sh_gi sh_gt sh_gc sh_mi sh_mt sh_value sh_bytes] in *.
  destruct Hwf as (Hb & Hid & He & Hgi & Hgt & Hgc & Hmi & Hmt & Hv & Hbytes).
  set (a := header id e gi gt gc mi mt * 1024 ^ Z.of_nat nv + value).
  set (idx := digs (4 + nv) a ++ rs1024_create_checksum s_shamir (digs (4 + nv) a)).
  assert (Hlen : length idx = (4 + nv + 3)%nat).
  { unfold idx. rewrite app_length, digs_length, create_length. reflexivity. }
  assert (Hbound : Forall (fun i => 0 <= i < 1024) idx).
  { unfold idx. apply Forall_app. split; [apply digs_bound | apply create_words_bound]. }
  split; [|split; [exact Hlen | exact Hbound]].
  assert (Hver : rs1024_verify_checksum s_shamir idx = true).
  { unfold idx. apply rs1024_verify_create. apply Forall_app. split; [apply s_shamir_bound | apply digs_bound]. }
  pose proof (pow1024_pos nv) as Ppos.
  assert (Hv' : 0 <= value < 1024 ^ Z.of_nat nv).
  { split; [lia|]. apply Z.lt_le_trans with (2 ^ bits); [lia|].
    change 1024 with (2 ^ 10). rewrite <- Z.pow_mul_r by lia.
    apply Z.pow_le_mono_r; [lia|]. destruct Hb as [-> | ->]; dm. }
  assert (Hdiv : a / 1024 ^ Z.of_nat nv = header id e gi gt gc mi mt).
  { unfold a. rewrite Z.div_add_l by lia. rewrite (Z.div_small value) by exact Hv'. lia. }
  assert (Hmod : a mod 1024 ^ Z.of_nat nv = value).
  { unfold a. rewrite Z.add_comm, Z.mod_add by lia. apply Z.mod_small. exact Hv'. }
  assert (Hidx : idx = (header id e gi gt gc mi mt / 1024 ^ 3) mod 1024 ::
                       (header id e gi gt gc mi mt / 1024 ^ 2) mod 1024 ::
                       (header id e gi gt gc mi mt / 1024 ^ 1) mod 1024 ::
                       (header id e gi gt gc mi mt / 1024 ^ 0) mod 1024 ::
                       digs nv a ++ rs1024_create_checksum s_shamir (digs (4 + nv) a)).
  { unfold idx. rewrite (digs_app 4 nv a), Hdiv, digs_4. reflexivity. }
  unfold share_of_indices. rewrite Hver. cbn [negb]. unfold zlen. rewrite Hlen, Hbits.
  clearbody idx. subst idx.
  unfold nth_idx. cbn [nth_error bind skipn].
  replace (4 + nv + 3 - 7)%nat with nv by lia.
  rewrite firstn_app, digs_length, Nat.sub_diag, firstn_O, app_nil_r.
  rewrite firstn_all2 by (rewrite digs_length; lia).
  rewrite fold_digs, Hmod, Z.mul_0_l, Z.add_0_l.
  rewrite field_id, field_e, field_gi, field_gt, field_gc, field_mi, field_mt by assumption.
  replace (bits <? 0) with false by (destruct Hb as [-> | ->]; reflexivity).
  replace (bits <? 128) with false by (destruct Hb as [-> | ->]; reflexivity).
  replace ((Z.of_nat (4 + nv + 3) - 7) * 10 - bits >? 8) with false.
  2:{ symmetry. destruct (Z.gtb_spec ((Z.of_nat (4 + nv + 3) - 7) * 10 - bits) 8) as [G|G]; [|reflexivity].
      exfalso. destruct Hb as [E | E]; rewrite E in Hpb, G; dm. }
  rewrite shr_div by lia. rewrite Z.div_small by lia. cbn [Z.eqb negb].
  exact Hmk.
Qed.

Theorem share_indices_roundtrip : forall s, share_wf s ->
  share_of_indices (share_indices s) = Ok s /\
  length (share_indices s) = (if sh_bits s =? 128 then 20%nat else 33%nat) /\
  Forall (fun i => 0 <= i < 1024) (share_indices s).
Proof.
  intros s Hwf. pose proof Hwf as (Hb & _).
  destruct Hb as [Hb | Hb]; rewrite Hb.
  - apply (roundtrip_gen s 13 Hwf); rewrite Hb; reflexivity.
  - apply (roundtrip_gen s 26 Hwf); rewrite Hb; reflexivity.
Qed.

Print Assumptions share_indices_roundtrip.
Print Assumptions mk_share_wf.
