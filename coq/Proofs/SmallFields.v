(* Proofs/SmallFields.v — the FieldElement model operations on a small prime field:
   boolean exhaustive checker + soundness, completeness of trial division, the field curve
   [fcurve p] (y^2 = x^3 + 7 over F_p), and what FieldElement.__pow__ does at exponent p-1. *)
From Coq Require Import Znumtheory.
From V Require Import Base.Prelude Base.Ints Base.Fermat Model.Pecc Proofs.GroupHyp Proofs.CurveSweep.

Definition fcurve (p : Z) : curve := {| cp := p; ca := 0; cb := 7 mod p; cn := 1; cgx := 0; cgy := 0 |}.

(* trial division is complete *)
Lemma prime_b_complete p : prime p -> prime_b p = true.
Proof.
  intros Hp. pose proof (prime_ge_2 _ Hp) as H2. unfold prime_b.
  apply andb_true_iff. split; [apply Z.ltb_lt; lia|].
  apply forallb_forall. intros d Hd. apply in_zrange_inv in Hd.
  apply negb_true_iff, Z.eqb_neq. intros E.
  apply Z.mod_divide in E; [|lia].
  destruct (prime_divisors _ Hp _ E) as [?|[?|[?|?]]]; lia.
Qed.

Definition inr (p a : Z) : bool := (0 <=? a) && (a <? p).

Definition chk_field1 (p : Z) : bool :=
  let C := fcurve p in
  forallb (fun a =>
    (fadd C a 0 =? a) && (fmul C a 1 =? a) && (fadd C a (fsub C 0 a) =? 0) &&
    inr p (finv C a) && ((a =? 0) || (fmul C a (finv C a) =? 1)) &&
    (fpow C a 2 =? fmul C a a) && (fpow C a 3 =? fmul C (fmul C a a) a))
  (zrange 0 (Z.to_nat p)).
Definition chk_field2 (p : Z) : bool :=
  let C := fcurve p in let es := zrange 0 (Z.to_nat p) in
  forallb (fun a => forallb (fun b =>
    inr p (fadd C a b) && inr p (fmul C a b) && inr p (fsub C a b) && inr p (fdiv C a b) &&
    (fadd C a b =? fadd C b a) && (fmul C a b =? fmul C b a) &&
    (fsub C a b =? fadd C a (fsub C 0 b)) && (fdiv C a b =? fmul C a (finv C b))) es) es.
Definition chk_field3 (p : Z) : bool :=
  let C := fcurve p in let es := zrange 0 (Z.to_nat p) in
  forallb (fun a => forallb (fun b => forallb (fun c =>
    (fadd C (fadd C a b) c =? fadd C a (fadd C b c)) &&
    (fmul C (fmul C a b) c =? fmul C a (fmul C b c)) &&
    (fmul C a (fadd C b c) =? fadd C (fmul C a b) (fmul C a c))) es) es) es.
Definition chk_field (p : Z) : bool := chk_field1 p && chk_field2 p && chk_field3 p.

(* F_p with the model's fadd / fsub / fmul / finv / fdiv is a field (elements 0..p-1) *)
Definition field_laws (p : Z) : Prop :=
  let C := fcurve p in
  forall a b c, 0 <= a < p -> 0 <= b < p -> 0 <= c < p ->
    (0 <= fadd C a b < p /\ 0 <= fmul C a b < p /\ 0 <= fsub C a b < p /\ 0 <= fdiv C a b < p /\
     0 <= finv C a < p) /\
    fadd C a b = fadd C b a /\ fmul C a b = fmul C b a /\
    fadd C (fadd C a b) c = fadd C a (fadd C b c) /\
    fmul C (fmul C a b) c = fmul C a (fmul C b c) /\
    fmul C a (fadd C b c) = fadd C (fmul C a b) (fmul C a c) /\
    fadd C a 0 = a /\ fmul C a 1 = a /\ fadd C a (fsub C 0 a) = 0 /\
    fsub C a b = fadd C a (fsub C 0 b) /\
    (a <> 0 -> fmul C a (finv C a) = 1) /\
    fdiv C a b = fmul C a (finv C b).

(* `**` agrees with repeated multiplication for the exponents the Point class uses *)
Definition pow_small_ok (p : Z) : Prop :=
  let C := fcurve p in
  forall a, 0 <= a < p -> fpow C a 2 = fmul C a a /\ fpow C a 3 = fmul C (fmul C a a) a.

Lemma inr_range p a : inr p a = true -> 0 <= a < p.
Proof. unfold inr. intros H. apply andb_true_iff in H as [H1 H2]. apply Z.leb_le in H1. apply Z.ltb_lt in H2. lia. Qed.

Lemma in_es p a : 0 <= a < p -> In a (zrange 0 (Z.to_nat p)).
Proof. intros H. apply in_zrange. lia. Qed.

Ltac split_andb H :=
  repeat match type of H with
  | (_ && _) = true => let H' := fresh "E" in apply andb_true_iff in H; destruct H as [H H']
  end.

Lemma chk_field_sound p : chk_field p = true -> field_laws p /\ pow_small_ok p.
Proof.
  unfold chk_field. intros H. apply andb_true_iff in H as [H H3]. apply andb_true_iff in H as [H1 H2].
  unfold chk_field1 in H1. unfold chk_field2 in H2. unfold chk_field3 in H3. cbv zeta in H1, H2, H3.
  unfold field_laws, pow_small_ok. split.
  - intros a b c Ha Hb Hc. set (C := fcurve p) in *.
    pose proof (forallb3 _ _ _ _ H3 a b c (in_es _ _ Ha) (in_es _ _ Hb) (in_es _ _ Hc)) as T3.
    pose proof (forallb2 _ _ _ H2 a b (in_es _ _ Ha) (in_es _ _ Hb)) as T2.
    rewrite forallb_forall in H1. pose proof (H1 a (in_es _ _ Ha)) as T1.
    cbv beta in T1, T2, T3.
    split_andb T3. split_andb T2. split_andb T1.
    repeat match goal with H : (_ =? _) = true |- _ => apply Z.eqb_eq in H end.
    repeat match goal with H : inr _ _ = true |- _ => apply inr_range in H end.
    repeat split; try assumption; try lia.
  - intros a Ha. set (C := fcurve p) in *. rewrite forallb_forall in H1. pose proof (H1 a (in_es _ _ Ha)) as T1.
    cbv beta in T1. split_andb T1.
    repeat match goal with H : (_ =? _) = true |- _ => apply Z.eqb_eq in H end.
    split; assumption.
Qed.

(* sweep over a range of candidate moduli: every prime among them passes *)
Definition chk_field_range (lo : Z) (cnt : nat) : bool :=
  forallb (fun p => negb (prime_b p) || chk_field p) (zrange lo cnt).

Lemma chk_field_range_sound lo cnt : chk_field_range lo cnt = true ->
  forall p, prime p -> lo <= p < lo + Z.of_nat cnt -> field_laws p /\ pow_small_ok p.
Proof.
  intros H p Hp Hr. unfold chk_field_range in H. rewrite forallb_forall in H.
  specialize (H p (in_zrange _ _ _ Hr)). rewrite (prime_b_complete _ Hp) in H. cbn in H.
  now apply chk_field_sound.
Qed.

(* FieldElement.__pow__ (after fix a0e55d9: non-negative exponents are not reduced):
   0 ** (p-1) = 0, as in the field; before the fix it was 0 ** 0 = 1 *)
Lemma fpow_zero_pm1 (C : curve) : 2 < cp C -> fpow C 0 (cp C - 1) = 0.
Proof.
  intros Hp. unfold fpow. destruct (0 <=? cp C - 1) eqn:E; [|apply Z.leb_gt in E; lia].
  rewrite modpow_spec by lia. rewrite Z.pow_0_l by lia. apply Z.mod_0_l. lia.
Qed.

Lemma fpow_nonzero_pm1 (C : curve) a : prime (cp C) -> a mod cp C <> 0 -> fpow C a (cp C - 1) = 1.
Proof.
  intros Hp Ha. pose proof (prime_ge_2 _ Hp). unfold fpow.
  destruct (0 <=? cp C - 1) eqn:E; [|apply Z.leb_gt in E; lia].
  rewrite modpow_spec by lia. now apply fermat_little.
Qed.

(* `** 2` and `** 3` are plain products *)
Lemma fpow_2 (C : curve) a : fpow C a 2 = fmul C a a.
Proof. unfold fpow, fmul. cbn [Z.leb Z.compare modpow modpow_pos]. now rewrite <- Zmult_mod. Qed.

Lemma fpow_3 (C : curve) a : fpow C a 3 = fmul C (fmul C a a) a.
Proof.
  unfold fpow, fmul. cbn [Z.leb Z.compare modpow modpow_pos].
  rewrite <- Zmult_mod. reflexivity.
Qed.
