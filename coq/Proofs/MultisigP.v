(* Proofs/MultisigP.v — the OP_CHECKMULTISIG matching loop accepts exactly when the
   signatures embed, in order, into the keys with every pair verifying (C06). *)
From V Require Import Base.Prelude Model.Verify.

Section Match.
Variable ver : bytes -> bytes -> bool.

(* an order-preserving injection of the signatures into the keys, every pair verifying *)
Inductive embeds : list bytes -> list bytes -> Prop :=
| emb_nil : forall keys, embeds [] keys
| emb_take : forall s ss k ks, ver k s = true -> embeds ss ks -> embeds (s :: ss) (k :: ks)
| emb_skip : forall ss k ks, embeds ss ks -> embeds ss (k :: ks).

Lemma embeds_app_l pre ss ks : embeds ss ks -> embeds ss (pre ++ ks).
Proof. induction pre as [|k pre IH]; intros H; cbn; [exact H|]. apply emb_skip. now apply IH. Qed.

Lemma find_key_spec s keys keys' :
  find_key ver s keys = Some keys' ->
  exists pre k, keys = pre ++ k :: keys' /\ ver k s = true /\ Forall (fun k' => ver k' s = false) pre.
Proof.
  revert keys'; induction keys as [|k r IH]; intros keys' H; cbn in H; [discriminate|].
  destruct (ver k s) eqn:E.
  - injection H as <-. exists [], k. repeat split; auto.
  - destruct (IH _ H) as (pre & k0 & -> & Hv & Hp). exists (k :: pre), k0. repeat split; auto.
Qed.

Theorem match_sigs_sound sigs keys : match_sigs ver sigs keys = true -> embeds sigs keys.
Proof.
  revert keys; induction sigs as [|s ss IH]; intros keys H; [constructor|].
  cbn in H. destruct (find_key ver s keys) as [keys'|] eqn:E; [|discriminate].
  destruct (find_key_spec _ _ _ E) as (pre & k & -> & Hv & _).
  apply embeds_app_l. apply emb_take; [exact Hv|]. now apply IH.
Qed.

(* greedy choice is safe: whatever embedding exists, the first verifying key can be used *)
Lemma greedy s ss keys :
  embeds (s :: ss) keys ->
  exists keys', find_key ver s keys = Some keys' /\ embeds ss keys'.
Proof.
  induction keys as [|k ks IH]; intros H; [inversion H|].
  cbn [find_key]. destruct (ver k s) eqn:E.
  - exists ks. split; [reflexivity|].
    inversion H as [| ? ? ? ? Hv He | ? ? ? He]; subst; [exact He|].
    destruct (IH He) as (keys' & Hf & Hs).
    destruct (find_key_spec _ _ _ Hf) as (pre & k0 & -> & _ & _).
    apply embeds_app_l. now apply emb_skip.
  - inversion H as [| ? ? ? ? Hv He | ? ? ? He]; subst; [congruence|]. now apply IH.
Qed.

Theorem match_sigs_complete sigs keys : embeds sigs keys -> match_sigs ver sigs keys = true.
Proof.
  revert keys; induction sigs as [|s ss IH]; intros keys H; [reflexivity|].
  cbn. destruct (greedy _ _ _ H) as (keys' & -> & Hs). now apply IH.
Qed.

Theorem match_sigs_iff sigs keys : match_sigs ver sigs keys = true <-> embeds sigs keys.
Proof. split; [apply match_sigs_sound | apply match_sigs_complete]. Qed.

(* what an embedding means: as many distinct key positions as signatures *)
Lemma embeds_length sigs keys : embeds sigs keys -> (length sigs <= length keys)%nat.
Proof. induction 1; cbn; lia. Qed.

(* the witnesses: strictly increasing key positions, one per signature *)
Lemma embeds_positions sigs keys :
  embeds sigs keys ->
  exists idx : list nat,
    length idx = length sigs /\
    (forall i j, (i < j < length idx)%nat -> (nth i idx 0 < nth j idx 0)%nat) /\
    (forall i, (i < length idx)%nat ->
       exists k, nth_error keys (nth i idx 0%nat) = Some k /\ ver k (nth i sigs []) = true).
Proof.
  induction 1 as [keys | s ss k ks Hv He IH | ss k ks He IH].
  - exists []. repeat split; cbn; intros; lia.
  - destruct IH as (idx & Hl & Hm & Hk).
    exists (0%nat :: map S idx). split; [cbn; now rewrite map_length, Hl|]. split.
    + intros i j [Hi Hj]. cbn [length] in Hj. rewrite map_length in Hj.
      destruct j as [|j]; [lia|]. destruct i as [|i]; cbn [nth].
      * rewrite (nth_indep _ 0%nat (S 0)) by (rewrite map_length; lia). rewrite map_nth. lia.
      * rewrite (nth_indep _ 0%nat (S 0)) by (rewrite map_length; lia).
        rewrite (nth_indep (map S idx) 0%nat (S 0)) by (rewrite map_length; lia).
        rewrite !map_nth. assert (nth i idx 0 < nth j idx 0)%nat by (apply Hm; lia). lia.
    + intros i Hi. cbn [length] in Hi. rewrite map_length in Hi. destruct i as [|i]; cbn [nth].
      * exists k. split; [reflexivity|exact Hv].
      * rewrite (nth_indep _ 0%nat (S 0)) by (rewrite map_length; lia). rewrite map_nth.
        cbn [nth_error]. apply Hk. lia.
  - destruct IH as (idx & Hl & Hm & Hk).
    exists (map S idx). split; [now rewrite map_length|]. split.
    + intros i j [Hi Hj]. rewrite map_length in Hj.
      rewrite (nth_indep _ 0%nat (S 0)) by (rewrite map_length; lia).
      rewrite (nth_indep (map S idx) 0%nat (S 0)) by (rewrite map_length; lia).
      rewrite !map_nth. assert (nth i idx 0 < nth j idx 0)%nat by (apply Hm; lia). lia.
    + intros i Hi. rewrite map_length in Hi.
      rewrite (nth_indep _ 0%nat (S 0)) by (rewrite map_length; lia). rewrite map_nth.
      cbn [nth_error]. apply Hk. lia.
Qed.

End Match.
