(* Proofs/MusigExtraP.v — consequences of Proofs/MusigAlg.v stated on what the user handles:
   whatever get_signature returns is a valid BIP340 signature for the external key (no hypothesis on how
   s_sum was obtained); the LIST of partial signatures (one left out, one replaced, reordered); the s value
   of an aggregate signature is the only one that verifies with its nonce point; the key-path external key of
   a TapRootMultiSig tree. *)
From Coq Require Import Permutation Zdiv.
From V Require Import Base.Prelude Base.Ints Model.Helper Model.Script Model.Pecc Model.Taproot
  Model.Musig Proofs.GroupHyp Proofs.CurveAlg Proofs.TaprootP Proofs.TaprootAlg Proofs.MusigP
  Proofs.MusigAlg Proofs.BytesP.

(* get_signature never returns anything but a signature that verifies for the external key *)
Theorem get_signature_sound C sha256 ms s_sum R msg root r s :
  musig_get_signature C sha256 ms s_sum R msg root = Ok (r, s) ->
  exists ext, musig_external C sha256 ms root = Ok ext /\
    schnorr_verify C sha256 ext msg r s = Ok true /\ s < cn C.
Proof.
  unfold musig_get_signature. intros H.
  destruct (musig_external C sha256 ms root) as [ext|]; [|discriminate]. cbn [bind] in H.
  destruct (musig_final_s C sha256 ms s_sum R msg root) as [f|]; [|discriminate]. cbn [bind] in H.
  destruct (int_to_be f 32) as [sb|]; [|discriminate]. cbn [bind] in H.
  destruct (schnorr_parse C (xonly R ++ sb)) as [[r' s']|] eqn:Ep; [|discriminate]. cbn [bind] in H.
  destruct (schnorr_verify C sha256 ext msg r' s') as [[|]|] eqn:Ev; try discriminate.
  cbn [bind] in H. injection H as <- <-.
  exists ext. split; [reflexivity|]. split; [exact Ev|].
  unfold schnorr_parse in Ep. destruct (parse_point C _); [|discriminate]. cbn [bind] in Ep.
  destruct (cn C <=? from_be _) eqn:E; [discriminate|]. apply Z.leb_gt in E. injection Ep as _ <-. exact E.
Qed.

Section Extra.
Variable C : curve.
Variable sha256 : bytes -> bytes.
Hypothesis SL : scalar_laws C.
Hypothesis N256 : cn C <= pow256 32.
Hypothesis P256 : cp C <= pow256 32.
Let n := cn C.

Lemma zsum_app a b : zsum (a ++ b) = zsum a + zsum b.
Proof. unfold zsum. induction a as [|x a IH]; cbn [app fold_right]; [lia | rewrite IH; lia]. Qed.

Lemma zsum_perm a b : Permutation a b -> zsum a = zsum b.
Proof. unfold zsum. induction 1; cbn [fold_right]; lia. Qed.

Lemma mod_ne_sub a b : 0 < n -> a mod n <> b mod n -> (a - b) mod n <> 0.
Proof.
  intros Hn Hne E. apply Hne.
  replace a with (b + (a - b)) by lia. rewrite Zplus_mod, E, Z.add_0_r, Z.mod_mod by lia. reflexivity.
Qed.

(* the list of partial signatures: leaving one out, replacing one, reordering *)
Theorem partial_list_tamper ms R msg root ps sig :
  valid C (ms_point ms) ->
  musig_get_signature C sha256 ms (zsum ps) R msg root = Ok sig ->
  (forall pre x post, ps = pre ++ x :: post -> x mod n <> 0 ->
     musig_get_signature C sha256 ms (zsum (pre ++ post)) R msg root = Err) /\
  (forall pre x post x', ps = pre ++ x :: post -> x' mod n <> x mod n ->
     musig_get_signature C sha256 ms (zsum (pre ++ x' :: post)) R msg root = Err) /\
  (forall ps', Permutation ps ps' ->
     musig_get_signature C sha256 ms (zsum ps') R msg root = Ok sig).
Proof.
  intros Hv H. pose proof (n_pos C SL) as Hn. fold n in Hn.
  assert (A : forall s', (zsum ps) mod n <> s' mod n ->
              musig_get_signature C sha256 ms s' R msg root = Err).
  { intros s' Hne. apply (other_sum_rejected C sha256 SL N256 P256 ms R msg root (zsum ps) s' sig Hv H).
    intros E. apply Hne. exact (cong_mod C (zsum ps) s' E). }
  split; [|split].
  - intros pre x post -> Hx. apply A. rewrite !zsum_app. cbn [zsum fold_right]. fold (zsum post).
    intros E. apply Hx.
    replace x with ((zsum pre + (x + zsum post)) - (zsum pre + zsum post)) by lia.
    rewrite Zminus_mod. fold n. rewrite E, Z.sub_diag. apply Z.mod_0_l. lia.
  - intros pre x post x' -> Hx. apply A. rewrite !zsum_app. cbn [zsum fold_right]. fold (zsum post).
    intros E. apply Hx.
    assert (E' : (x' - x) mod n = 0).
    { replace (x' - x) with ((zsum pre + (x' + zsum post)) - (zsum pre + (x + zsum post))) by lia.
      rewrite Zminus_mod. fold n. rewrite E, Z.sub_diag. apply Z.mod_0_l. lia. }
    replace x' with (x + (x' - x)) by lia. rewrite Zplus_mod, E', Z.add_0_r, Z.mod_mod by lia. reflexivity.
  - intros ps' Hp. now rewrite <- (zsum_perm _ _ Hp).
Qed.

(* with the nonce point of an aggregate signature, no other s in [0, n) verifies: an altered aggregate is
   not only refused by get_signature, it is not a valid BIP340 signature *)
Theorem aggregate_s_unique ms s_sum R msg root r s :
  valid C (ms_point ms) ->
  musig_get_signature C sha256 ms s_sum R msg root = Ok (r, s) ->
  exists ext, musig_external C sha256 ms root = Ok ext /\
    forall s', schnorr_verify C sha256 ext msg r s' = Ok true -> s' mod n = s mod n.
Proof.
  intros Hv H. destruct (get_signature_sound C sha256 ms s_sum R msg root r s H) as (ext & He & Hok & _).
  exists ext. split; [exact He|]. intros s' Hs'.
  assert (Hextv : valid C ext).
  { unfold musig_external in He. destruct root as [|r0 root].
    - destruct (ms_point ms) as [[x y]|] eqn:EQ; [|discriminate].
      rewrite (even_point_ok C SL) in He by assumption.
      assert (Hx : ext = CurveAlg.evenT C (Some (x, y))) by congruence. rewrite Hx. now apply (evenT_valid C SL).
    - eapply (tweaked_key_valid C sha256 SL); eauto. }
  apply (cong_mod C). exact (verify_unique C sha256 SL P256 ext msg r s' s Hextv Hs' Hok).
Qed.

End Extra.

(* the key-path external key of a tree: signing with merkle_root = tree.hash() targets exactly
   tree.external_pubkey(internal key) *)
Theorem musig_external_of_tree C sha256 ms t root :
  tree_hash sha256 t = Ok root -> root <> [] ->
  musig_external C sha256 ms root = tree_external_pubkey C sha256 t (ms_point ms).
Proof.
  intros Ht Hne. unfold musig_external, tree_external_pubkey. rewrite Ht. cbn [bind].
  destruct root; [congruence | reflexivity].
Qed.
