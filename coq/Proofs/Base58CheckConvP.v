(* Proofs/Base58CheckConvP.v — converse direction of the Base58Check and WIF codecs (C09):
   the strings raw_decode_base58 accepts are EXACTLY the encoder's outputs (so decoding is
   injective on accepted strings), PrivateKey.parse followed by wif() gives the same string
   for payloads of the two standard lengths, and a witness that the length condition cannot be
   dropped (parse accepts payloads of any other length as an uncompressed key). *)
From V Require Import Base.Prelude Base.Ints Model.Base58 Proofs.Base58P Proofs.Base58ConvP
  Proofs.AddressP.

Section WithHash.
Variable hash256 : bytes -> bytes.
Hypothesis hash_len : forall x, length (hash256 x) = 32%nat.
Hypothesis hash_ok : forall x, bytes_ok (hash256 x).

(* accepted <-> produced by the encoder *)
Theorem base58check_accepted_iff_encoded s b :
  raw_decode_base58 hash256 s = Ok b <->
  (bytes_ok b /\ encode_base58_checksum hash256 b = Ok s).
Proof.
  split.
  - intros H. exact (raw_decode_base58_encode hash256 s b H hash_len).
  - intros [HB E]. destruct (base58check_roundtrip hash256 hash_len hash_ok b HB) as [s' [E1 [_ E2]]].
    rewrite E in E1. injection E1 as <-. exact E2.
Qed.

(* two accepted strings with the same payload are the same string *)
Theorem raw_decode_base58_inj s1 s2 b :
  raw_decode_base58 hash256 s1 = Ok b -> raw_decode_base58 hash256 s2 = Ok b -> s1 = s2.
Proof.
  intros H1 H2.
  destruct (raw_decode_base58_encode hash256 s1 b H1 hash_len) as [_ E1].
  destruct (raw_decode_base58_encode hash256 s2 b H2 hash_len) as [_ E2].
  congruence.
Qed.

(* two payloads with the same text are the same payload *)
Theorem encode_base58_checksum_inj b1 b2 s :
  bytes_ok b1 -> bytes_ok b2 ->
  encode_base58_checksum hash256 b1 = Ok s -> encode_base58_checksum hash256 b2 = Ok s -> b1 = b2.
Proof.
  intros B1 B2 E1 E2.
  assert (D1 : raw_decode_base58 hash256 s = Ok b1) by (apply base58check_accepted_iff_encoded; auto).
  assert (D2 : raw_decode_base58 hash256 s = Ok b2) by (apply base58check_accepted_iff_encoded; auto).
  congruence.
Qed.

(* ---------- WIF ---------- *)

Lemma firstn_nth_last (l : list Z) n d : length l = S n -> l = firstn n l ++ [nth n l d].
Proof.
  revert l; induction n as [|n IH]; intros l HL.
  - destruct l as [|x [|y r]]; cbn in HL; try lia. reflexivity.
  - destruct l as [|x r]; cbn in HL; [lia|]. cbn [firstn nth app]. f_equal. apply IH. lia.
Qed.

(* PrivateKey.parse(w) = (secret, mainnet, compressed): the secret is in range, and when the
   decoded payload has one of the two standard lengths (33 uncompressed, 34 compressed),
   PrivateKey(secret, network).wif(compressed) is the string w itself *)
Theorem wif_parse_encode w secret mainnet compressed :
  wif_parse hash256 w = Ok (secret, mainnet, compressed) ->
  1 <= secret < secp_n /\
  exists raw, raw_decode_base58 hash256 w = Ok raw /\
    (compressed = true -> length raw = 34%nat) /\
    ((compressed = true \/ length raw = 33%nat) ->
     wif_encode hash256 secret mainnet compressed = Ok w).
Proof.
  unfold wif_parse. intros H.
  destruct (raw_decode_base58 hash256 w) as [raw|] eqn:ER; [|discriminate]. cbn [bind] in H.
  destruct (raw_decode_base58_encode hash256 w raw ER hash_len) as [HBraw EW].
  assert (KEY : forall raw1 p body, raw1 = p :: body -> bytes_ok raw1 ->
            (mainnet' <- (if p =? 239 then Ok false else if p =? 128 then Ok true else Err) ;;
             if privkey_ok (from_be body) then Ok (from_be body, mainnet', compressed) else Err)
            = Ok (secret, mainnet, compressed) ->
            1 <= secret < secp_n /\ secret = from_be body /\ p = (if mainnet then 128 else 239)).
  { intros raw1 p body -> HB1 HK.
    destruct (p =? 239) eqn:E239.
    - cbn [bind] in HK. destruct (privkey_ok (from_be body)) eqn:PK; [|discriminate].
      injection HK as <- <-. apply privkey_ok_iff in PK. apply Z.eqb_eq in E239. auto.
    - destruct (p =? 128) eqn:E128; [|discriminate]. cbn [bind] in HK.
      destruct (privkey_ok (from_be body)) eqn:PK; [|discriminate].
      injection HK as <- <-. apply privkey_ok_iff in PK. apply Z.eqb_eq in E128. auto. }
  assert (ENC : forall body, bytes_ok body -> length body = 32%nat ->
            1 <= from_be body < secp_n ->
            wif_encode hash256 (from_be body) mainnet compressed =
            encode_base58_checksum hash256
              ((if mainnet then 128 else 239) :: body ++ (if compressed then [1] else []))).
  { intros body HBb HLb HR. unfold wif_encode.
    assert (PK : privkey_ok (from_be body) = true) by (apply privkey_ok_iff; exact HR).
    rewrite PK. pose proof secp_n_lt.
    rewrite (int_to_be_ok2 (from_be body) 32) by lia. cbn [bind].
    rewrite <- HLb, (to_be_from_be body HBb). reflexivity. }
  destruct (length raw =? 34)%nat eqn:E34.
  - apply Nat.eqb_eq in E34.
    destruct (nth 33 raw 0 =? 1) eqn:E1; [|discriminate]. cbn [bind] in H. apply Z.eqb_eq in E1.
    pose proof (firstn_nth_last raw 33 0 E34) as SPL. rewrite E1 in SPL.
    remember (firstn 33 raw) as raw1 eqn:ER1.
    assert (L1 : length raw1 = 33%nat) by (subst raw1; rewrite firstn_length; lia).
    destruct raw1 as [|p body]; [discriminate|].
    assert (HB1 : bytes_ok (p :: body)) by (rewrite ER1; apply bytes_ok_firstn; exact HBraw).
    assert (compressed = true) as ->.
    { cbn [skipn] in H. destruct (p =? 239); [|destruct (p =? 128); [|discriminate]];
        cbn [bind] in H; destruct (privkey_ok _); try discriminate; now injection H. }
    destruct (KEY (p :: body) p body eq_refl HB1 H) as [HR [-> ->]].
    split; [exact HR|]. exists raw. split; [reflexivity|]. split; [intros _; exact E34|].
    intros _. inversion HB1 as [|? ? _ HBb]; subst.
    rewrite (ENC body HBb ltac:(cbn in L1; lia) HR).
    exact EW.
  - apply Nat.eqb_neq in E34. cbn [bind] in H.
    destruct raw as [|p body]; [discriminate|].
    assert (compressed = false) as ->.
    { cbn [skipn] in H. destruct (p =? 239); [|destruct (p =? 128); [|discriminate]];
        cbn [bind] in H; destruct (privkey_ok _); try discriminate; now injection H. }
    destruct (KEY (p :: body) p body eq_refl HBraw H) as [HR [-> ->]].
    split; [exact HR|]. eexists. split; [reflexivity|]. split; [discriminate|].
    intros [C|L33]; [discriminate|].
    inversion HBraw as [|? ? _ HBb]; subst.
    rewrite (ENC body HBb ltac:(cbn in L33; lia) HR).
    rewrite <- EW. now rewrite app_nil_r.
Qed.

(* The length condition cannot be dropped: the payloads 80 00..01 (33 bytes) and 80 01
   (2 bytes) have different WIF-shaped texts and PrivateKey.parse reads both as the
   uncompressed mainnet key 1. *)
Theorem wif_parse_short_payload_refuted :
  exists w1 w2, w1 <> w2 /\
    wif_encode hash256 1 true false = Ok w1 /\
    encode_base58_checksum hash256 [128; 1] = Ok w2 /\
    wif_parse hash256 w1 = Ok (1, true, false) /\ wif_parse hash256 w2 = Ok (1, true, false).
Proof.
  destruct (wif_roundtrip hash256 hash_len hash_ok 1 true false ltac:(unfold secp_n; lia))
    as [w1 [E1 P1]].
  assert (HB2 : bytes_ok [128; 1]) by (repeat constructor; unfold byte_ok; lia).
  destruct (base58check_roundtrip hash256 hash_len hash_ok [128; 1] HB2) as [w2 [E2 [_ D2]]].
  exists w1, w2. split; [|split; [exact E1|split; [exact E2|split; [exact P1|]]]].
  - intros ->. unfold wif_encode in E1. change (privkey_ok 1) with true in E1. cbn iota in E1.
    rewrite (int_to_be_ok2 1 32) in E1 by (unfold pow256; cbn; lia). cbn [bind] in E1.
    assert (HB1 : bytes_ok (128 :: to_be 32 1 ++ [])).
    { constructor; [unfold byte_ok; lia|]. rewrite app_nil_r. apply to_be_ok. }
    pose proof (encode_base58_checksum_inj _ _ _ HB1 HB2 E1 E2) as EQ.
    apply (f_equal (@length Z)) in EQ. cbn [length] in EQ. rewrite app_length, to_be_length in EQ.
    cbn in EQ. lia.
  - unfold wif_parse. rewrite D2. reflexivity.
Qed.

End WithHash.
