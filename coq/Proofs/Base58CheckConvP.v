(* Proofs/Base58CheckConvP.v — converse direction of the Base58Check and WIF codecs (C09):
   the strings raw_decode_base58 accepts are EXACTLY the encoder's outputs (so decoding is
   injective on accepted strings); PrivateKey.parse (after fix 6e4d66f) accepts exactly the
   texts wif() produces, and parse followed by wif() gives the same string. *)
From V Require Import Base.Prelude Base.Ints Model.Base58 Proofs.Base58P Proofs.Base58ConvP
  Proofs.AddressP.

Section WithHash.
Variable hash256 : bytes -> bytes.
Hypothesis hash_len : forall x, length (hash256 x) = 32%nat.
Hypothesis hash_ok : forall x, bytes_ok (hash256 x).

(* accepted <-> produced by the encoder *)
Theorem base58check_accepted_iff_encoded s b :
  raw_decode_base58 hash256 s = Ok b <->
  (bytes_ok b /\ encode_base58_checksum hash256 b = Ok s).
Proof.
  split.
  - intros H. exact (raw_decode_base58_encode hash256 s b H hash_len).
  - intros [HB E]. destruct (base58check_roundtrip hash256 hash_len hash_ok b HB) as [s' [E1 [_ E2]]].
    rewrite E in E1. injection E1 as <-. exact E2.
Qed.

(* two accepted strings with the same payload are the same string *)
Theorem raw_decode_base58_inj s1 s2 b :
  raw_decode_base58 hash256 s1 = Ok b -> raw_decode_base58 hash256 s2 = Ok b -> s1 = s2.
Proof.
  intros H1 H2.
  destruct (raw_decode_base58_encode hash256 s1 b H1 hash_len) as [_ E1].
  destruct (raw_decode_base58_encode hash256 s2 b H2 hash_len) as [_ E2].
  congruence.
Qed.

(* two payloads with the same text are the same payload *)
Theorem encode_base58_checksum_inj b1 b2 s :
  bytes_ok b1 -> bytes_ok b2 ->
  encode_base58_checksum hash256 b1 = Ok s -> encode_base58_checksum hash256 b2 = Ok s -> b1 = b2.
Proof.
  intros B1 B2 E1 E2.
  assert (D1 : raw_decode_base58 hash256 s = Ok b1) by (apply base58check_accepted_iff_encoded; auto).
  assert (D2 : raw_decode_base58 hash256 s = Ok b2) by (apply base58check_accepted_iff_encoded; auto).
  congruence.
Qed.

(* ---------- WIF ---------- *)

Lemma firstn_nth_last (l : list Z) n d : length l = S n -> l = firstn n l ++ [nth n l d].
Proof.
  revert l; induction n as [|n IH]; intros l HL.
  - destruct l as [|x [|y r]]; cbn in HL; try lia. reflexivity.
  - destruct l as [|x r]; cbn in HL; [lia|]. cbn [firstn nth app]. f_equal. apply IH. lia.
Qed.

(* PrivateKey.parse(w) = (secret, mainnet, compressed) (after fix 6e4d66f: payload of 33 bytes, or
   34 bytes ending in 01): the secret is in range and PrivateKey(secret, network).wif(compressed)
   is the text w itself *)
Theorem wif_parse_encode w secret mainnet compressed :
  wif_parse hash256 w = Ok (secret, mainnet, compressed) ->
  1 <= secret < secp_n /\
  wif_encode hash256 secret mainnet compressed = Ok w /\
  exists raw, raw_decode_base58 hash256 w = Ok raw /\
              length raw = (if compressed then 34 else 33)%nat.
Proof.
  unfold wif_parse. intros H.
  destruct (raw_decode_base58 hash256 w) as [raw|] eqn:ER; [|discriminate]. cbn [bind] in H.
  destruct (raw_decode_base58_encode hash256 w raw ER hash_len) as [HBraw EW].
  assert (KEY : forall raw1 p body, raw1 = p :: body -> bytes_ok raw1 ->
            (mainnet' <- (if p =? 239 then Ok false else if p =? 128 then Ok true else Err) ;;
             if privkey_ok (from_be body) then Ok (from_be body, mainnet', compressed) else Err)
            = Ok (secret, mainnet, compressed) ->
            1 <= secret < secp_n /\ secret = from_be body /\ p = (if mainnet then 128 else 239)).
  { intros raw1 p body -> HB1 HK.
    destruct (p =? 239) eqn:E239.
    - cbn [bind] in HK. destruct (privkey_ok (from_be body)) eqn:PK; [|discriminate].
      injection HK as <- <-. apply privkey_ok_iff in PK. apply Z.eqb_eq in E239. auto.
    - destruct (p =? 128) eqn:E128; [|discriminate]. cbn [bind] in HK.
      destruct (privkey_ok (from_be body)) eqn:PK; [|discriminate].
      injection HK as <- <-. apply privkey_ok_iff in PK. apply Z.eqb_eq in E128. auto. }
  assert (ENC : forall body, bytes_ok body -> length body = 32%nat ->
            1 <= from_be body < secp_n ->
            wif_encode hash256 (from_be body) mainnet compressed =
            encode_base58_checksum hash256
              ((if mainnet then 128 else 239) :: body ++ (if compressed then [1] else []))).
  { intros body HBb HLb HR. unfold wif_encode.
    assert (PK : privkey_ok (from_be body) = true) by (apply privkey_ok_iff; exact HR).
    rewrite PK. pose proof secp_n_lt.
    rewrite (int_to_be_ok2 (from_be body) 32) by lia. cbn [bind].
    rewrite <- HLb, (to_be_from_be body HBb). reflexivity. }
  destruct (length raw =? 34)%nat eqn:E34.
  - apply Nat.eqb_eq in E34.
    destruct (nth 33 raw 0 =? 1) eqn:E1; [|discriminate]. cbn [bind] in H. apply Z.eqb_eq in E1.
    pose proof (firstn_nth_last raw 33 0 E34) as SPL. rewrite E1 in SPL.
    remember (firstn 33 raw) as raw1 eqn:ER1.
    assert (L1 : length raw1 = 33%nat) by (subst raw1; rewrite firstn_length; lia).
    destruct raw1 as [|p body]; [discriminate|].
    assert (HB1 : bytes_ok (p :: body)) by (rewrite ER1; apply bytes_ok_firstn; exact HBraw).
    assert (compressed = true) as ->.
    { cbn [skipn] in H. destruct (p =? 239); [|destruct (p =? 128); [|discriminate]];
        cbn [bind] in H; destruct (privkey_ok _); try discriminate; now injection H. }
    destruct (KEY (p :: body) p body eq_refl HB1 H) as [HR [-> ->]].
    split; [exact HR|]. split; [|exists raw; split; [reflexivity|exact E34]].
    inversion HB1 as [|? ? _ HBb]; subst.
    rewrite (ENC body HBb ltac:(cbn in L1; lia) HR).
    exact EW.
  - destruct (length raw =? 33)%nat eqn:E33; [|discriminate]. apply Nat.eqb_eq in E33.
    cbn [bind] in H.
    destruct raw as [|p body]; [discriminate|].
    assert (compressed = false) as ->.
    { cbn [skipn] in H. destruct (p =? 239); [|destruct (p =? 128); [|discriminate]];
        cbn [bind] in H; destruct (privkey_ok _); try discriminate; now injection H. }
    destruct (KEY (p :: body) p body eq_refl HBraw H) as [HR [-> ->]].
    split; [exact HR|]. split; [|eexists; split; [reflexivity|exact E33]].
    inversion HBraw as [|? ? _ HBb]; subst.
    rewrite (ENC body HBb ltac:(cbn in E33; lia) HR).
    rewrite <- EW. now rewrite app_nil_r.
Qed.

(* PrivateKey.parse accepts exactly the WIF texts: parse(w) = (secret, mainnet, compressed) iff
   w is wif() of that key (which exists iff the secret is in [1, N-1]) *)
Theorem wif_parse_iff w secret mainnet compressed :
  wif_parse hash256 w = Ok (secret, mainnet, compressed) <->
  wif_encode hash256 secret mainnet compressed = Ok w.
Proof.
  split.
  - intros H. exact (proj1 (proj2 (wif_parse_encode w secret mainnet compressed H))).
  - intros E.
    assert (HR : 1 <= secret < secp_n).
    { destruct (Z_le_dec 1 secret) as [A|A]; [destruct (Z_lt_dec secret secp_n) as [B|B]; [lia|]|];
        rewrite (wif_range hash256 secret mainnet compressed) in E by lia; discriminate. }
    destruct (wif_roundtrip hash256 hash_len hash_ok secret mainnet compressed HR) as [w' [E' P]].
    rewrite E in E'. injection E' as <-. exact P.
Qed.

(* ... hence parse is injective *)
Theorem wif_parse_inj w1 w2 r :
  wif_parse hash256 w1 = Ok r -> wif_parse hash256 w2 = Ok r -> w1 = w2.
Proof.
  destruct r as [[s m] c]. intros H1 H2.
  apply wif_parse_iff in H1. apply wif_parse_iff in H2. congruence.
Qed.

(* the former counterexample (fixed by 6e4d66f): Base58Check(80 01) is no longer a key *)
Theorem wif_short_payload_rejected :
  exists w, encode_base58_checksum hash256 [128; 1] = Ok w /\ wif_parse hash256 w = Err.
Proof.
  assert (HB2 : bytes_ok [128; 1]) by (repeat constructor; unfold byte_ok; lia).
  destruct (base58check_roundtrip hash256 hash_len hash_ok [128; 1] HB2) as [w2 [E2 [_ D2]]].
  exists w2. split; [exact E2|]. unfold wif_parse. rewrite D2. reflexivity.
Qed.

End WithHash.
