(* Proofs/SmallFieldsAll.v — field laws of the FieldElement model for every prime 3 <= p <= 101 *)
From Coq Require Import Znumtheory.
From V Require Import Base.Prelude Model.Pecc Proofs.CurveSweep Proofs.SmallFields Proofs.SmallFieldsS1 Proofs.SmallFieldsS2 Proofs.SmallFieldsS3 Proofs.SmallFieldsS4 Proofs.SmallFieldsS5.

Theorem field_axioms_small_all p : prime p -> 3 <= p <= 101 -> field_laws p /\ pow_small_ok p.
Proof.
  intros Hp Hr.
  destruct (Z_lt_dec p 68); [exact (chk_field_range_sound 3 65 field_range_3_68 p Hp ltac:(lia))|].
  destruct (Z_lt_dec p 80); [exact (chk_field_range_sound 68 12 field_range_68_80 p Hp ltac:(lia))|].
  destruct (Z_lt_dec p 90); [exact (chk_field_range_sound 80 10 field_range_80_90 p Hp ltac:(lia))|].
  destruct (Z_lt_dec p 98); [exact (chk_field_range_sound 90 8 field_range_90_98 p Hp ltac:(lia))|].
  exact (chk_field_range_sound 98 4 field_range_98_102 p Hp ltac:(lia)).
Qed.
