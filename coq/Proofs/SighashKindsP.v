(* Proofs/SighashKindsP.v — C05: (a) a raw script that is the minimal-push encoding of a command
   list is "canonically encoded": RedeemScript.convert / WitnessScript.convert / Witness.tap_script
   parse it back to those commands and re-serialise it to the same bytes (this discharges, from the
   C04 script round trip, the hypothesis of C05_script_path_leaf and of the P2SH / P2WSH dispatch
   theorems); (b) Tx.sig_hash end to end for EVERY standard kind of spent output: the result is the
   digest the standards prescribe for that kind (Spec/Legacy.v, Spec/Bip143.v, Spec/Bip341.v). *)
From V Require Import Base.Prelude Base.Ints Model.Helper Model.Script Model.Tx Model.Sighash
  Model.SighashAbs Spec.TxData Spec.TxWf Proofs.HelperP Proofs.ScriptP Proofs.TxP Proofs.SighashP
  Proofs.SighashTaprootP Proofs.SighashSegwitP Proofs.SighashDispatchP Proofs.SighashCorP.
From V Require Spec.Legacy Spec.Bip143 Spec.Bip341 Spec.SighashStd.

(* ------------------------------------------------------------------ canonical encodings *)

(* [raw] is the serialisation of the command list [cs]: no empty push, pushes of at most 520
   bytes, opcodes 0 / 79..255 (a push opcode 1..78 cannot be an element of a command list that
   re-serialises to itself), total size below 2^63 *)
Definition encodes (cs : list cmd) (raw : bytes) : Prop :=
  script_strictb (mk_script cs) = true /\ ser_cmds cs = Ok raw.

Lemma script_convert_canonical cs raw :
  encodes cs raw ->
  script_convert raw = Ok (mk_script cs) /\ abs_script (mk_script cs) = Ok raw /\
  zlen raw < 9223372036854775808.
Proof.
  intros [Hs Hser]. unfold script_strictb in Hs. apply andb_true_iff in Hs as [Hwf Hstrict].
  cbn [s_cmds mk_script] in Hstrict.
  destruct (script_wf_inv _ Hwf) as [_ [_ Hsize]]. cbn [s_cmds mk_script] in Hsize.
  pose proof (ser_cmds_size _ _ Hser) as Hlen.
  destruct (script_wf_roundtrip _ Hwf) as [e [He [_ Hp]]].
  unfold serialize_script, raw_serialize in He. cbn [s_raw s_cmds mk_script] in He.
  rewrite Hser in He. cbn [bind] in He.
  split; [|split; [|lia]].
  - unfold script_convert. rewrite He. cbn [bind].
    specialize (Hp []). rewrite app_nil_r in Hp. rewrite Hp. cbn [bind].
    unfold canon_script. cbn [s_cmds mk_script]. now rewrite (canon_cmds_strict _ Hstrict).
  - unfold abs_script, raw_serialize. cbn [s_raw s_cmds mk_script]. rewrite Hser. cbn [bind].
    assert (in_u64 (zlen raw) = true) as ->; [|reflexivity].
    apply in_u64_spec. pose proof (zlen_nonneg raw). lia.
Qed.

(* the P2WPKH / P2WSH witness programs as raw redeem scripts *)
Lemma encodes_program h :
  (1 <= length h <= 75)%nat -> encodes [Op 0; Push h] (0 :: zlen h :: h).
Proof.
  intros Hh. assert (Hz : 1 <= zlen h <= 75) by (unfold zlen; lia).
  split.
  - unfold script_strictb, script_wfb, mk_script. cbn [s_raw s_cmds cmds_wfb cmds_strictb forallb
      cmd_wfb cmd_strictb op_wfb cmds_size cmd_size].
    repeat (apply andb_true_iff; split); try reflexivity; try (apply Z.leb_le; lia);
      try (apply Z.ltb_lt; lia).
  - cbn [ser_cmds ser_cmd]. destruct (zlen h <=? 75) eqn:E; [|lia].
    cbn [Z.ltb Z.compare orb bind app]. now rewrite app_nil_r.
Qed.

Lemma script_convert_program h :
  (1 <= length h <= 75)%nat ->
  script_convert (0 :: zlen h :: h) = Ok (mk_script [Op 0; Push h]).
Proof. intros Hh. exact (proj1 (script_convert_canonical _ _ (encodes_program h Hh))). Qed.

(* ------------------------------------------------------------------ Tx.sig_hash by plan *)
Section E2E.
Variable hash256 sha256 hash_tapsighash hash_tapleaf : bytes -> bytes.
Variable xonly_ok : bytes -> bool.

Notation SIG_HASH := (sig_hash hash256 sha256 hash_tapsighash hash_tapleaf xonly_ok).

Definition legacy_out (cb : bytes) (ct : ctransaction) (idx : nat) (ht : Z) : sh_out :=
  {| so_alg := 0; so_pre := Legacy.preimage cb ct idx ht;
     so_digest := DInt (from_be (Legacy.signature_hash hash256 cb ct idx ht)) |}.
Definition bip143_out (cb : bytes) (amount : Z) (ct : ctransaction) (idx : nat) (ht : Z) : result sh_out :=
  p <- opt_res (Bip143.preimage hash256 cb amount ct idx ht) ;;
  Ok {| so_alg := 143; so_pre := Some p; so_digest := DInt (from_be (hash256 p)) |}.
Definition bip341_out (ct : ctransaction) (coins : list coin) (idx : nat) (ht : Z)
  (annex : option bytes) (leaf : option (Z * bytes)) : result sh_out :=
  p <- opt_res (Bip341.message sha256 hash_tapleaf ht ct coins idx annex leaf) ;;
  Ok {| so_alg := 341; so_pre := Some p; so_digest := DBytes (hash_tapsighash p) |}.

Lemma sig_hash_by_legacy_plan t ct sp idx ti s redeem code cb ht m :
  standard_hash_type ht = true -> abs_tx t = Ok ct ->
  nth_error (t_ins t) idx = Some ti -> nth_error sp idx = Some s ->
  sig_hash_plan ti (sp_script s) = Ok (PLegacy redeem) ->
  (redeem = Some code \/ (redeem = None /\ code = sp_script s)) -> abs_script code = Ok cb ->
  rsnd (SIG_HASH t sp idx ht m) = Ok (legacy_out cb ct idx ht).
Proof.
  intros Hht Ht Eti Es Hplan Hcode Habs.
  assert (Hc : redeem = Some code \/
               (redeem = None /\ exists s0, nth_error sp idx = Some s0 /\ code = sp_script s0)).
  { destruct Hcode as [H|[H1 H2]]; [left; exact H|right; split; [exact H1|]]. exists s. auto. }
  pose proof (sig_hash_legacy_spec hash256 t ct sp idx redeem code cb ht Hht Ht Hc Habs) as H.
  unfold sig_hash. rewrite Eti, Es, Hplan. cbn [bind]. rewrite H. reflexivity.
Qed.

Lemma sig_hash_by_bip143_plan t ct sp idx ti s redeem wscript code cb ht m :
  standard_hash_type ht = true -> abs_tx t = Ok ct ->
  nth_error (t_ins t) idx = Some ti -> nth_error sp idx = Some s ->
  sig_hash_plan ti (sp_script s) = Ok (PBip143 redeem wscript) -> in_u64 (sp_value s) = true ->
  bip143_script_code redeem wscript (Some (sp_script s)) = Ok code -> abs_script code = Ok cb ->
  rsnd (SIG_HASH t sp idx ht m) = bip143_out cb (sp_value s) ct idx ht.
Proof.
  intros Hht Ht Eti Es Hplan Hval Hcode Habs.
  pose proof (bip143_eq_spec hash256 t ct sp idx redeem wscript s code cb ht m Hht Ht Es Hval
                Hcode Habs) as H.
  unfold sig_hash. rewrite Eti, Es, Hplan. cbn [bind].
  unfold sig_hash_bip143, bip143_out, rsnd in *.
  destruct (bip143_preimage hash256 t sp idx redeem wscript ht m) as [[m' p]|]; cbn [bind] in *.
  - rewrite <- H. reflexivity.
  - rewrite <- H. reflexivity.
Qed.

Lemma sig_hash_by_bip341_plan t ct sp coins idx ti s ext leaf ht m :
  standard_hash_type ht = true -> abs_tx t = Ok ct -> abs_list abs_spent sp = Ok coins ->
  length sp = length (t_ins t) ->
  nth_error (t_ins t) idx = Some ti -> nth_error sp idx = Some s ->
  sig_hash_plan ti (sp_script s) = Ok (PBip341 ext) ->
  in_u32 (Z.of_nat idx) = true ->
  (forall a, annex_of (i_witness ti) = Some a -> in_u64 (zlen a) = true) ->
  leaf_rel xonly_ok ext (i_witness ti) leaf ->
  rsnd (SIG_HASH t sp idx ht m) = bip341_out ct coins idx ht (annex_of (i_witness ti)) leaf.
Proof.
  intros Hht Ht Hsp Hlen Eti Es Hplan Hidx Hannex Hleaf.
  pose proof (bip341_eq_spec sha256 hash_tapleaf xonly_ok t ct sp coins idx ti ext leaf ht m
                Hht Ht Hsp Hlen Eti Hidx Hannex Hleaf) as H.
  unfold sig_hash. rewrite Eti, Es, Hplan. cbn [bind].
  unfold sig_hash_bip341, bip341_out, rsnd in *.
  destruct (bip341_preimage sha256 hash_tapleaf xonly_ok t sp idx ext ht m) as [[m' p]|]; cbn [bind] in *.
  - rewrite <- H. reflexivity.
  - rewrite <- H. reflexivity.
Qed.

(* ------------------------------------------------------------------ the standard kinds *)

(* P2PKH: original algorithm, script code 76 a9 14 <h> 88 ac (the scriptPubKey) *)
Lemma sig_hash_p2pkh t ct sp idx ti s h ht m :
  standard_hash_type ht = true -> abs_tx t = Ok ct ->
  nth_error (t_ins t) idx = Some ti -> nth_error sp idx = Some s ->
  sp_script s = mk_script (p2pkh_script h) -> length h = 20%nat ->
  rsnd (SIG_HASH t sp idx ht m) = Ok (legacy_out (Bip143.p2wpkh_script_code h) ct idx ht).
Proof.
  intros Hht Ht Eti Es Hspk Hh.
  apply (sig_hash_by_legacy_plan t ct sp idx ti s None (sp_script s)); try assumption.
  - rewrite Hspk. apply plan_p2pkh.
  - right. split; reflexivity.
  - rewrite Hspk. exact (proj2 (p2wpkh_script_code_model h Hh)).
Qed.

(* any other scriptPubKey that is not one of the five templates (bare multisig, pay-to-pubkey, …):
   original algorithm with the scriptPubKey itself *)
Lemma sig_hash_bare t ct sp idx ti s cb ht m :
  standard_hash_type ht = true -> abs_tx t = Ok ct ->
  nth_error (t_ins t) idx = Some ti -> nth_error sp idx = Some s ->
  is_p2sh (s_cmds (sp_script s)) = false -> is_p2wpkh (s_cmds (sp_script s)) = false ->
  is_p2wsh (s_cmds (sp_script s)) = false -> is_p2tr (s_cmds (sp_script s)) = false ->
  abs_script (sp_script s) = Ok cb ->
  rsnd (SIG_HASH t sp idx ht m) = Ok (legacy_out cb ct idx ht).
Proof.
  intros Hht Ht Eti Es H1 H2 H3 H4 Habs.
  apply (sig_hash_by_legacy_plan t ct sp idx ti s None (sp_script s)); try assumption.
  - unfold sig_hash_plan. rewrite H1, H2, H3, H4. reflexivity.
  - right. split; reflexivity.
Qed.

(* P2SH with a redeem script that is not a witness program: original algorithm, script code =
   the redeem script, byte for byte *)
Lemma sig_hash_p2sh t ct sp idx ti s h cs raw ht m :
  standard_hash_type ht = true -> abs_tx t = Ok ct ->
  nth_error (t_ins t) idx = Some ti -> nth_error sp idx = Some s ->
  sp_script s = mk_script (p2sh_script h) -> length h = 20%nat ->
  nth_last 0 (s_cmds (i_script ti)) = Some (Push raw) -> encodes cs raw ->
  is_p2wpkh cs = false -> is_p2wsh cs = false ->
  rsnd (SIG_HASH t sp idx ht m) = Ok (legacy_out raw ct idx ht).
Proof.
  intros Hht Ht Eti Es Hspk Hh Hraw Henc Hk1 Hk2.
  destruct (script_convert_canonical cs raw Henc) as [Hconv [Habs _]].
  apply (sig_hash_by_legacy_plan t ct sp idx ti s (Some (mk_script cs)) (mk_script cs)); try assumption.
  - rewrite Hspk. exact (plan_p2sh_legacy ti h raw (mk_script cs) Hh Hraw Hconv Hk1 Hk2).
  - left. reflexivity.
Qed.

(* P2SH-P2WPKH: BIP143 with script code 76 a9 14 <h20> 88 ac *)
Lemma sig_hash_p2sh_p2wpkh t ct sp idx ti s h h20 ht m :
  standard_hash_type ht = true -> abs_tx t = Ok ct ->
  nth_error (t_ins t) idx = Some ti -> nth_error sp idx = Some s ->
  sp_script s = mk_script (p2sh_script h) -> length h = 20%nat -> in_u64 (sp_value s) = true ->
  nth_last 0 (s_cmds (i_script ti)) = Some (Push (0 :: 20 :: h20)) -> length h20 = 20%nat ->
  rsnd (SIG_HASH t sp idx ht m) = bip143_out (Bip143.p2wpkh_script_code h20) (sp_value s) ct idx ht.
Proof.
  intros Hht Ht Eti Es Hspk Hh Hval Hraw Hh20.
  assert (Hz : zlen h20 = 20) by (unfold zlen; rewrite Hh20; reflexivity).
  pose proof (script_convert_program h20 ltac:(lia)) as Hconv. rewrite Hz in Hconv.
  assert (Hk : is_p2wpkh (s_cmds (mk_script [Op 0; Push h20])) = true).
  { cbn [s_cmds mk_script is_p2wpkh]. now apply len_eqb. }
  apply (sig_hash_by_bip143_plan t ct sp idx ti s (Some (mk_script [Op 0; Push h20])) None
           (mk_script (p2pkh_script h20))); try assumption.
  - rewrite Hspk. exact (plan_p2sh_p2wpkh ti h _ _ Hh Hraw Hconv Hk).
  - reflexivity.
  - exact (proj2 (p2wpkh_script_code_model h20 Hh20)).
Qed.

(* P2WSH: BIP143 with script code = the witness script (last witness item), byte for byte *)
Lemma sig_hash_p2wsh t ct sp idx ti s h cs raw ht m :
  standard_hash_type ht = true -> abs_tx t = Ok ct ->
  nth_error (t_ins t) idx = Some ti -> nth_error sp idx = Some s ->
  sp_script s = mk_script (p2wsh_script h) -> length h = 32%nat -> in_u64 (sp_value s) = true ->
  nth_last 0 (i_witness ti) = Some raw -> encodes cs raw ->
  rsnd (SIG_HASH t sp idx ht m) = bip143_out raw (sp_value s) ct idx ht.
Proof.
  intros Hht Ht Eti Es Hspk Hh Hval Hraw Henc.
  destruct (script_convert_canonical cs raw Henc) as [Hconv [Habs _]].
  apply (sig_hash_by_bip143_plan t ct sp idx ti s None (Some (mk_script cs)) (mk_script cs));
    try assumption.
  - rewrite Hspk. exact (plan_p2wsh ti h raw (mk_script cs) Hh Hraw Hconv).
  - reflexivity.
Qed.

(* P2SH-P2WSH *)
Lemma sig_hash_p2sh_p2wsh t ct sp idx ti s h h32 cs raw ht m :
  standard_hash_type ht = true -> abs_tx t = Ok ct ->
  nth_error (t_ins t) idx = Some ti -> nth_error sp idx = Some s ->
  sp_script s = mk_script (p2sh_script h) -> length h = 20%nat -> in_u64 (sp_value s) = true ->
  nth_last 0 (s_cmds (i_script ti)) = Some (Push (0 :: 32 :: h32)) -> length h32 = 32%nat ->
  nth_last 0 (i_witness ti) = Some raw -> encodes cs raw ->
  rsnd (SIG_HASH t sp idx ht m) = bip143_out raw (sp_value s) ct idx ht.
Proof.
  intros Hht Ht Eti Es Hspk Hh Hval Hred Hh32 Hraw Henc.
  assert (Hz : zlen h32 = 32) by (unfold zlen; rewrite Hh32; reflexivity).
  pose proof (script_convert_program h32 ltac:(lia)) as Hconv. rewrite Hz in Hconv.
  assert (Hk : is_p2wsh (s_cmds (mk_script [Op 0; Push h32])) = true).
  { cbn [s_cmds mk_script is_p2wsh]. now apply len_eqb. }
  destruct (script_convert_canonical cs raw Henc) as [Hconvw [Habs _]].
  apply (sig_hash_by_bip143_plan t ct sp idx ti s (Some (mk_script [Op 0; Push h32]))
           (Some (mk_script cs)) (mk_script cs)); try assumption.
  - rewrite Hspk. exact (plan_p2sh_p2wsh ti h _ _ raw (mk_script cs) Hh Hred Hconv Hk Hraw Hconvw).
  - reflexivity.
Qed.

(* P2TR script path: BIP341 with the BIP342 extension for the leaf (version, script) the witness
   stack names, the script byte for byte *)
Lemma sig_hash_p2tr_scriptpath t ct sp coins idx ti s x v scr c cs ht m :
  standard_hash_type ht = true -> abs_tx t = Ok ct -> abs_list abs_spent sp = Ok coins ->
  length sp = length (t_ins t) ->
  nth_error (t_ins t) idx = Some ti -> nth_error sp idx = Some s ->
  sp_script s = mk_script (p2tr_script x) -> length x = 32%nat ->
  in_u32 (Z.of_nat idx) = true ->
  (forall a, annex_of (i_witness ti) = Some a -> in_u64 (zlen a) = true) ->
  Bip341.script_path xonly_ok (snd (Bip341.split_annex (i_witness ti))) = Some (v, scr, c) ->
  bytes_ok c -> encodes cs scr ->
  rsnd (SIG_HASH t sp idx ht m) =
  bip341_out ct coins idx ht (annex_of (i_witness ti)) (Some (v, scr)).
Proof.
  intros Hht Ht Hsp Hlen Eti Es Hspk Hx Hidx Hannex Hpath Hb Henc.
  destruct (script_convert_canonical cs scr Henc) as [Hconv [Habs _]].
  pose proof (leaf_rel_script_path xonly_ok (i_witness ti) v scr c (mk_script cs) Hpath Hb Hconv Habs)
    as Hleaf.
  apply (sig_hash_by_bip341_plan t ct sp coins idx ti s 1 (Some (v, scr))); try assumption.
  rewrite Hspk, (plan_p2tr ti x Hx).
  assert (H2 : 2 <= zlen (snd (Bip341.split_annex (i_witness ti)))).
  { unfold Bip341.script_path in Hpath.
    rewrite <- (rev_involutive (snd (Bip341.split_annex (i_witness ti)))).
    destruct (rev (snd (Bip341.split_annex (i_witness ti)))) as [|c' [|s' rest]]; try discriminate.
    unfold zlen. rewrite rev_length. cbn [length]. lia. }
  destruct (2 <=? zlen (snd (Bip341.split_annex (i_witness ti)))) eqn:E; [reflexivity|lia].
Qed.

End E2E.
