(* Proofs/TxBytesOkP.v — the serialisers emit byte strings (every element in [0, 256)) when the
   data they are given are byte strings; used to state the text-level theorems (hex) about
   API-built transactions without a side condition on the serialisation (C04). *)
From V Require Import Base.Prelude Base.Ints Model.Helper Model.Script Model.Tx Spec.TxSmall
  Proofs.HelperP Proofs.ScriptP Proofs.TxP Proofs.TxidP.

Lemma byte_ok_cons x l : byte_ok x -> bytes_ok l -> bytes_ok (x :: l).
Proof. intros. now constructor. Qed.

Lemma int_to_le_bytes n w b : int_to_le n w = Ok b -> bytes_ok b.
Proof. intros H. apply int_to_le_inv in H as [_ ->]. apply to_le_ok. Qed.

Lemma ser_cmd_bytes c a : cmd_bytesb c = true -> ser_cmd c = Ok a -> bytes_ok a.
Proof.
  destruct c as [o|d]; cbn [cmd_bytesb ser_cmd]; intros B H.
  - destruct (o <? 0) eqn:E1; destruct (255 <? o) eqn:E2; cbn [orb] in H; try discriminate.
    inversion H. apply byte_ok_cons; [unfold byte_ok; lia|constructor].
  - apply bytes_okb_ok in B. pose proof (zlen_nonneg d) as P.
    destruct (zlen d <=? 75) eqn:E75.
    { inversion H. apply byte_ok_cons; [unfold byte_ok; lia|exact B]. }
    destruct (zlen d <? 256) eqn:E256.
    { inversion H. apply byte_ok_cons; [unfold byte_ok; lia|].
      apply byte_ok_cons; [unfold byte_ok; lia|exact B]. }
    destruct (zlen d <=? 520); [|discriminate].
    assert (a = 77 :: to_le 2 (zlen d) ++ d) as -> by congruence.
    apply byte_ok_cons; [unfold byte_ok; lia|]. apply bytes_ok_app. split; [apply to_le_ok|exact B].
Qed.

Lemma ser_cmds_bytes cs : forall b, forallb cmd_bytesb cs = true -> ser_cmds cs = Ok b -> bytes_ok b.
Proof.
  induction cs as [|c r IH]; intros b B H; cbn [ser_cmds forallb] in *.
  - inversion H. constructor.
  - apply andb_true_iff in B as [B1 B2].
    apply bind_ok in H as [a [Ha H]]. apply bind_ok in H as [b' [Hb H]]. inversion H; subst b.
    apply bytes_ok_app. split; [eapply ser_cmd_bytes; eassumption|now apply IH].
Qed.

Lemma encode_varstr_bytes d b : bytes_ok d -> encode_varstr d = Ok b -> bytes_ok b.
Proof.
  intros D H. unfold encode_varstr in H. apply bind_ok in H as [l [Hl H]]. inversion H; subst b.
  apply bytes_ok_app. split; [eapply encode_varint_ok; exact Hl|exact D].
Qed.

Lemma serialize_script_bytes s b :
  s_raw s = None -> script_bytesb s = true -> serialize_script s = Ok b -> bytes_ok b.
Proof.
  intros R B H. unfold serialize_script, raw_serialize in H. rewrite R in H.
  apply bind_ok in H as [raw [Hr H]]. eapply encode_varstr_bytes; [|exact H].
  eapply ser_cmds_bytes; eassumption.
Qed.

Lemma txin_serialize_bytes i b :
  s_raw (i_script i) = None -> txin_bytesb i = true -> txin_serialize i = Ok b -> bytes_ok b.
Proof.
  intros R B H. unfold txin_bytesb in B. split_andb. unfold txin_serialize in H.
  apply bind_ok in H as [pi [Hpi H]]. apply bind_ok in H as [sc [Hsc H]].
  apply bind_ok in H as [sq [Hsq H]]. inversion H; subst b.
  repeat (apply bytes_ok_app; split).
  - apply bytes_ok_rev. now apply bytes_okb_ok.
  - eapply int_to_le_bytes; exact Hpi.
  - eapply serialize_script_bytes; eassumption.
  - eapply int_to_le_bytes; exact Hsq.
Qed.

Lemma txout_serialize_bytes o b :
  s_raw (o_script o) = None -> script_bytesb (o_script o) = true -> txout_serialize o = Ok b -> bytes_ok b.
Proof.
  intros R B H. unfold txout_serialize in H.
  apply bind_ok in H as [am [Ham H]]. apply bind_ok in H as [sc [Hsc H]]. inversion H; subst b.
  apply bytes_ok_app. split; [eapply int_to_le_bytes; exact Ham|eapply serialize_script_bytes; eassumption].
Qed.

Lemma ser_ins_bytes l : forall b,
  forallb txin_wfb l = true -> forallb txin_bytesb l = true -> ser_ins l = Ok b -> bytes_ok b.
Proof.
  induction l as [|i r IH]; intros b W B H; cbn [ser_ins forallb] in *.
  - inversion H. constructor.
  - apply andb_true_iff in W as [W1 W2]. apply andb_true_iff in B as [B1 B2].
    apply bind_ok in H as [a [Ha H]]. apply bind_ok in H as [b' [Hb H]]. inversion H; subst b.
    apply bytes_ok_app. split; [|now apply IH].
    eapply txin_serialize_bytes; [|exact B1|exact Ha].
    unfold txin_wfb in W1. split_andb. now apply script_wf_raw.
Qed.

Lemma ser_outs_bytes l : forall b,
  forallb txout_wfb l = true -> forallb (fun o => script_bytesb (o_script o)) l = true ->
  ser_outs l = Ok b -> bytes_ok b.
Proof.
  induction l as [|o r IH]; intros b W B H; cbn [ser_outs forallb] in *.
  - inversion H. constructor.
  - apply andb_true_iff in W as [W1 W2]. apply andb_true_iff in B as [B1 B2].
    apply bind_ok in H as [a [Ha H]]. apply bind_ok in H as [b' [Hb H]]. inversion H; subst b.
    apply bytes_ok_app. split; [|now apply IH].
    eapply txout_serialize_bytes; [|exact B1|exact Ha].
    unfold txout_wfb in W1. split_andb. now apply script_wf_raw.
Qed.

Lemma witness_items_bytes items : forall b,
  forallb bytes_okb items = true -> witness_items items = Ok b -> bytes_ok b.
Proof.
  induction items as [|it r IH]; intros b B H; cbn [witness_items forallb] in *.
  - inversion H. constructor.
  - apply andb_true_iff in B as [B1 B2].
    apply bind_ok in H as [a [Ha H]]. apply bind_ok in H as [b' [Hb H]]. inversion H; subst b.
    apply bytes_ok_app. split; [|now apply IH].
    eapply encode_varstr_bytes; [|exact Ha]. now apply bytes_okb_ok.
Qed.

Lemma ser_wits_bytes l : forall b,
  forallb txin_bytesb l = true -> ser_wits l = Ok b -> bytes_ok b.
Proof.
  induction l as [|i r IH]; intros b B H; cbn [ser_wits forallb] in *.
  - inversion H. constructor.
  - apply andb_true_iff in B as [B1 B2].
    apply bind_ok in H as [a [Ha H]]. apply bind_ok in H as [b' [Hb H]]. inversion H; subst b.
    apply bytes_ok_app. split; [|now apply IH].
    unfold witness_serialize in Ha. apply bind_ok in Ha as [n [Hn Ha]]. apply bind_ok in Ha as [w [Hw Ha]].
    inversion Ha; subst a. apply bytes_ok_app. split; [eapply encode_varint_ok; exact Hn|].
    eapply witness_items_bytes; [|exact Hw]. unfold txin_bytesb in B1. split_andb. assumption.
Qed.

Lemma tx_serialize_bytes t b :
  tx_wfb t = true -> tx_bytesb t = true -> tx_serialize t = Ok b -> bytes_ok b.
Proof.
  intros W B H. unfold tx_wfb in W. unfold tx_bytesb in B. split_andb.
  unfold tx_serialize in H. destruct (t_segwit t).
  - unfold serialize_segwit in H.
    apply bind_ok in H as [v [Hv H]]. apply bind_ok in H as [ni [Hni H]].
    apply bind_ok in H as [bi [Hbi H]]. apply bind_ok in H as [no [Hno H]].
    apply bind_ok in H as [bo [Hbo H]]. apply bind_ok in H as [bw [Hbw H]].
    apply bind_ok in H as [lt [Hlt H]]. inversion H; subst b.
    apply bytes_ok_app; split; [eapply int_to_le_bytes; eassumption|]. cbn [app].
    apply byte_ok_cons; [unfold byte_ok; lia|]. apply byte_ok_cons; [unfold byte_ok; lia|].
    repeat (apply bytes_ok_app; split);
      try (eapply int_to_le_bytes; eassumption); try (eapply encode_varint_ok; eassumption).
    + eapply ser_ins_bytes; eassumption.
    + eapply ser_outs_bytes; eassumption.
    + eapply ser_wits_bytes; eassumption.
  - unfold serialize_legacy in H.
    apply bind_ok in H as [v [Hv H]]. apply bind_ok in H as [ni [Hni H]].
    apply bind_ok in H as [bi [Hbi H]]. apply bind_ok in H as [no [Hno H]].
    apply bind_ok in H as [bo [Hbo H]]. apply bind_ok in H as [lt [Hlt H]]. inversion H; subst b.
    repeat (apply bytes_ok_app; split);
      try (eapply int_to_le_bytes; eassumption); try (eapply encode_varint_ok; eassumption).
    + eapply ser_ins_bytes; eassumption.
    + eapply ser_outs_bytes; eassumption.
Qed.
