(* Proofs/PsbtRefutedP.v — the two codec clauses of C10 that are FALSE of the faithful model, with
   concrete witnesses (both replayed on /repo: findings K-C10-xpub-network-order and
   K-C10-duplicate-script-key). *)
From V Require Import Base.Prelude Base.Ints Model.Helper Model.Script Model.Tx Model.Psbt.

(* ------------------------------------------------------------------ *)
(* (a) "re-serialisation of a parsed PSBT is stable" fails for two global xpubs whose derivation
   paths name different networks: the first xpub in stream order fixes the network, every xpub is
   re-emitted with that network's version bytes, the serialiser sorts them, and the next load sees
   the other one first. *)

(* the SEC encoding of the secp256k1 generator *)
Definition g_sec : bytes :=
  [2;121;190;102;126;249;220;187;172;85;160;98;149;206;135;11;7;2;155;252;219;45;206;40;217;89;242;
   129;91;22;248;23;152].

(* psbt magic, an unsigned transaction without inputs and outputs, xpub A (path 44'/1': testnet),
   xpub B (path 44'/0': mainnet) *)
Definition xw_bytes : bytes :=
  [112;115;98;116;255;1;0;10;2;0;0;0;0;0;0;0;0;0;
   79;1;4;136;178;30;2;9;9;9;9;128;0;0;1;
   17;17;17;17;17;17;17;17;17;17;17;17;17;17;17;17;17;17;17;17;17;17;17;17;17;17;17;17;17;17;17;17]
  ++ g_sec ++ [12;170;170;170;170;44;0;0;128;1;0;0;128;
   79;1;4;136;178;30;2;1;1;1;1;128;0;0;0;
   34;34;34;34;34;34;34;34;34;34;34;34;34;34;34;34;34;34;34;34;34;34;34;34;34;34;34;34;34;34;34;34]
  ++ g_sec ++ [12;187;187;187;187;44;0;0;128;0;0;0;128;0].

Section Dummy.
(* oracles used only to COMPUTE the witnesses below; the theorem holds for all oracles *)
Let d1 (_ : bytes) : bytes := [].
Let dparse := psbt_parse d1 d1 d1 (fun _ => true) (fun _ _ => true) (fun _ _ _ => true)
                (fun _ _ _ => Err) (fun _ _ _ _ => Err) (fun _ _ _ _ => Err) (fun _ _ _ => true).
Let dpsbt : psbt :=
  {| p_tx := {| t_version := 0; t_ins := []; t_outs := []; t_locktime := 0; t_segwit := false |};
     p_ins := []; p_outs := []; p_hd := []; p_extra := [] |}.
Definition xw_p1 : psbt :=
  Eval vm_compute in match dparse xw_bytes with Ok (p, _) => p | Err => dpsbt end.
Definition xw_b1 : bytes :=
  Eval vm_compute in match psbt_serialize xw_p1 with Ok b => b | Err => [] end.
Definition xw_p2 : psbt :=
  Eval vm_compute in match dparse xw_b1 with Ok (p, _) => p | Err => dpsbt end.
Definition xw_b2 : bytes :=
  Eval vm_compute in match psbt_serialize xw_p2 with Ok b => b | Err => [] end.
End Dummy.

(* [sec_ok] ranges over EVERY point-parsing oracle that accepts the generator's encoding (as
   S256Point.parse does): such an oracle is, pointwise, [fun b => beq b g_sec || sec_ok0 b] *)
Theorem reserialize_xpub_networks_refuted :
  forall hash160 sha256 hash256 sec_ok0 sig_parse_ok ecdsa_verify sighash_legacy sighash_segwit
         verify_input descends,
  let sec_ok := fun b => beq b g_sec || sec_ok0 b in
  let parse := psbt_parse hash160 sha256 hash256 sec_ok sig_parse_ok ecdsa_verify sighash_legacy
                          sighash_segwit verify_input descends in
  parse xw_bytes = Ok (xw_p1, Some Testnet) /\ psbt_serialize xw_p1 = Ok xw_b1 /\
  parse xw_b1 = Ok (xw_p2, Some Mainnet) /\ psbt_serialize xw_p2 = Ok xw_b2 /\
  xw_b1 <> xw_b2.
Proof.
  intros h160 s256 h256 sec_ok0 spo ev shl shs vi de sec_ok parse. subst parse sec_ok.
  split; [vm_compute; reflexivity|]. split; [vm_compute; reflexivity|].
  split; [vm_compute; reflexivity|]. split; [vm_compute; reflexivity|].
  vm_compute. discriminate.
Qed.

(* ------------------------------------------------------------------ *)
(* (b) "the serialiser's output is parsed back" fails for a multisig script that names the same
   key in two slots: the partial signature is written once per slot and the parser refuses the
   second entry as a duplicate. *)
Definition dup_ws : script :=
  mk_script [Op 82; Push [2; 1]; Push [2; 1]; Op 82; Op 174].           (* 2-of-2 [K, K] *)
Definition dup_in : psbt_in :=
  {| pi_prev_tx := None;
     pi_prev_out := Some {| o_amount := 5; o_script := mk_script [Op 0; Push (repeatz 9 32)] |};
     pi_sigs := [([2; 1], [48; 1])]; pi_hash_type := None; pi_redeem := None; pi_wscript := Some dup_ws;
     pi_named := []; pi_script_sig := None; pi_witness := None; pi_extra := [] |}.
Definition dup_bytes : bytes :=
  Eval vm_compute in match in_serialize dup_in with Ok b => b | Err => [] end.

Theorem input_map_duplicate_script_key_refuted :
  in_serialize dup_in = Ok dup_bytes /\
  forall sec_ok net ti,
    in_loop sec_ok (S (length dup_bytes)) net ti dup_bytes empty_in = Err.
Proof.
  split; [vm_compute; reflexivity|].
  intros sec_ok net ti. vm_compute. reflexivity.
Qed.

(* ------------------------------------------------------------------ *)
(* (c) FIXED in /repo (afccdfa): a sighash-type entry whose value is longer than four bytes used to be
   loaded as an integer >= 2^32 that serialize() could not write (OverflowError).  The parser now
   refuses it; the positive statements are in Proofs/PsbtSighashP.v.  The former witness: *)
Definition hw_bytes : bytes :=
  [112;115;98;116;255;1;0;51;2;0;0;0;1;17;17;17;17;17;17;17;17;17;17;17;17;17;17;17;17;17;17;17;17;17;17;17;17;
   17;17;17;17;17;17;17;17;0;0;0;0;0;255;255;255;255;0;0;0;0;0;0;1;3;5;1;0;0;0;1;0].

Theorem five_byte_sighash_type_refused :
  forall hash160 sha256 hash256 sec_ok sig_parse_ok ecdsa_verify sighash_legacy sighash_segwit
         verify_input descends,
  psbt_parse hash160 sha256 hash256 sec_ok sig_parse_ok ecdsa_verify sighash_legacy
             sighash_segwit verify_input descends hw_bytes = Err.
Proof. intros. vm_compute. reflexivity. Qed.
