(* Proofs/Secp256k1P.v — facts about the secp256k1 CONSTANTS of the model that are decided by
   computation in the kernel (a handful of 256-bit modular multiplications / one modular power each):
   the generator satisfies the curve equation, p = 3 mod 4, p < 2^256, n < p, and — by the power-residue
   criterion, the only premise being [prime p] — no curve point has y = 0 (-7 is not a cube mod p) and no
   curve point has x = 0 (7 is not a square mod p).  With Proofs/CurveLawsP.v this cuts the premises of
   [group_laws secp256k1] down to: p prime, n prime, associativity of the chord-tangent law, and
   "n kills every point". *)
From Coq Require Import ZArith Znumtheory Zpow_facts Lia.
From V Require Import Base.Prelude Base.Ints Base.Fermat Model.Pecc Proofs.GroupHyp Proofs.CurveSweep
  Proofs.SmallFields Proofs.CurveGeneral Proofs.CurveLawsP.
Open Scope Z_scope.

(* ---------------- the power-residue criterion, easy direction ---------------- *)
(* if a is a k-th power mod the prime p, a <> 0, and k * e = p - 1, then a^e = 1 mod p *)
Lemma power_residue p a k e z : prime p -> 0 < k -> 0 < e -> p - 1 = k * e ->
  (z ^ k) mod p = a mod p -> a mod p <> 0 -> modpow a e p = 1.
Proof.
  intros Hp Hk He Hke Hz Ha. pose proof (prime_ge_2 _ Hp) as Hp2.
  assert (Hz0 : z mod p <> 0).
  { intros E. apply Ha. rewrite <- Hz. rewrite Zpower_mod, E by lia. rewrite Z.pow_0_l by lia.
    apply Z.mod_0_l. lia. }
  pose proof (fermat_little p z Hp Hz0) as F.
  rewrite Hke, Z.pow_mul_r in F by lia.
  rewrite Zpower_mod, Hz, <- Zpower_mod in F by lia.
  rewrite modpow_spec by lia. exact F.
Qed.

(* ---------------- constants ---------------- *)
Definition sp := cp secp256k1.
Definition sn := cn secp256k1.

Lemma secp_a0 : ca secp256k1 = 0. Proof. reflexivity. Qed.
Lemma secp_b7 : cb secp256k1 = 7. Proof. reflexivity. Qed.
Lemma secp_p_formula : sp = 2 ^ 256 - 2 ^ 32 - 977. Proof. reflexivity. Qed.
Lemma secp_p_mod4 : sp mod 4 = 3. Proof. reflexivity. Qed.
Lemma secp_p_mod3 : sp mod 3 = 1. Proof. reflexivity. Qed.
Lemma secp_p_gt2 : 2 < sp. Proof. reflexivity. Qed.
Lemma secp_p_lt256 : sp < pow256 32. Proof. reflexivity. Qed.
Lemma secp_n_gt2 : 2 < sn. Proof. reflexivity. Qed.
Lemma secp_n_lt_p : sn < sp. Proof. reflexivity. Qed.
Lemma secp_n_odd : sn mod 2 = 1. Proof. reflexivity. Qed.

Lemma secp_G_valid_b : validb secp256k1 (G secp256k1) = true.
Proof. vm_compute. reflexivity. Qed.
Theorem secp_G_valid : valid secp256k1 (G secp256k1).
Proof. apply validb_valid, secp_G_valid_b. Qed.
Lemma secp_G_not_inf : G secp256k1 <> None. Proof. discriminate. Qed.

(* -7 is not a cube, 7 is not a square: one modular power each *)
Lemma secp_cubic_nonresidue : modpow (-7) ((sp - 1) / 3) sp <> 1.
Proof. vm_compute. discriminate. Qed.
Lemma secp_quadratic_nonresidue : modpow 7 ((sp - 1) / 2) sp <> 1.
Proof. vm_compute. discriminate. Qed.

Section Secp.
Hypothesis Hp : prime sp.

Lemma secp_curve_eq x y : valid secp256k1 (Some (x, y)) ->
  0 <= x < sp /\ 0 <= y < sp /\ (y * y) mod sp = (x * x * x + 7) mod sp.
Proof.
  intros HV. destruct (valid_range secp256k1 Hp x y HV) as (Hx & Hy & E).
  split; [exact Hx|]. split; [exact Hy|]. unfold eqp in E. fold sp in E. rewrite E. f_equal.
  change (ca secp256k1) with 0. change (cb secp256k1) with 7. ring.
Qed.

(* no point of order two: y = 0 would make -7 a cube *)
Theorem secp_no_y0 x y : valid secp256k1 (Some (x, y)) -> y <> 0.
Proof.
  intros HV ->. destruct (secp_curve_eq x 0 HV) as (Hx & _ & E).
  apply secp_cubic_nonresidue.
  apply (power_residue sp (-7) 3 ((sp - 1) / 3) x Hp); try reflexivity.
  - replace (x ^ 3) with (x * x * x) by ring.
    change (0 * 0) with 0 in E. rewrite Z.mod_0_l in E by (unfold sp; cbn; lia).
    symmetry in E. apply Z.mod_divide in E; [|unfold sp; cbn; lia]. destruct E as [q Hq].
    replace (x * x * x) with (-7 + q * sp) by lia. apply Z.mod_add. unfold sp; cbn; lia.
  - vm_compute. discriminate.
Qed.

(* x = 0 is not the abscissa of a curve point: 7 is not a square *)
Theorem secp_no_x0 x y : valid secp256k1 (Some (x, y)) -> x <> 0.
Proof.
  intros HV ->. destruct (secp_curve_eq 0 y HV) as (_ & Hy & E).
  apply secp_quadratic_nonresidue.
  apply (power_residue sp 7 2 ((sp - 1) / 2) y Hp); try reflexivity.
  - replace (y ^ 2) with (y * y) by ring. exact E.
  - vm_compute. discriminate.
Qed.

(* the laws that need nothing but [prime p] on secp256k1 *)
Theorem secp_add_ok P Q : valid secp256k1 P -> valid secp256k1 Q ->
  padd secp256k1 P Q = Ok (addT secp256k1 P Q) /\ valid secp256k1 (addT secp256k1 P Q).
Proof. exact (add_ok_general secp256k1 Hp secp_p_gt2 P Q). Qed.

Theorem secp_add_comm P Q : valid secp256k1 P -> valid secp256k1 Q ->
  padd secp256k1 P Q = padd secp256k1 Q P.
Proof. exact (padd_comm secp256k1 Hp secp_p_gt2 P Q). Qed.

(* every scalar multiple of a curve point is a curve point and no exception is raised
   (k negative, k >= n, k >= 2^256 included: the coefficient is reduced first) *)
Theorem secp_rmul_closed k P : valid secp256k1 P ->
  exists R, rmul secp256k1 k P = Ok R /\ valid secp256k1 R.
Proof. apply (rmul_closed secp256k1 Hp secp_p_gt2). reflexivity. Qed.

Theorem secp_padd_int_closed P t : valid secp256k1 P ->
  exists R, padd_int secp256k1 P t = Ok R /\ valid secp256k1 R.
Proof. apply (padd_int_closed secp256k1 Hp secp_p_gt2); [reflexivity|exact secp_G_valid]. Qed.

(* what remains to be assumed for the full group structure *)
Theorem secp_group_laws_minimal :
  prime sn ->
  (forall P Q R, valid secp256k1 P -> valid secp256k1 Q -> valid secp256k1 R ->
     addT secp256k1 (addT secp256k1 P Q) R = addT secp256k1 P (addT secp256k1 Q R)) ->
  (forall P, valid secp256k1 P -> rmul_raw secp256k1 sn P = Ok None) ->
  group_laws secp256k1.
Proof.
  intros Hn Hassoc Hord.
  exact (group_laws_minimal secp256k1 Hp secp_p_gt2 Hassoc Hn secp_n_gt2 secp_G_valid Hord).
Qed.

End Secp.
