(* Proofs/PsbtParseSortedP.v — every dictionary of a PSBT returned by PSBT.parse is a strictly sorted
   association list (the representation invariant of the model's dictionaries), so the combiner
   theorems ([good]) apply to PARSED PSBTs — with the two exclusions the combiner theorems name
   (a sighash type of 0, an empty final witness). *)
From V Require Import Base.Prelude Base.Ints Model.Helper Model.Script Model.Tx Model.Psbt
  Proofs.HelperP Proofs.PsbtDictP Proofs.PsbtCombineP Proofs.PsbtFinalP.

Definition in_sorted (st : psbt_in) : Prop :=
  dsorted (pi_sigs st) /\ dsorted (pi_named st) /\ dsorted (pi_extra st).
Definition out_sorted (st : psbt_out) : Prop := dsorted (po_named st) /\ dsorted (po_extra st).
Definition g_sorted (g : gstate) : Prop := dsorted (Psbt.g_hd g) /\ dsorted (g_extra g).
Definition psbt_sorted (p : psbt) : Prop :=
  Forall in_sorted (p_ins p) /\ Forall out_sorted (p_outs p) /\ dsorted (p_hd p) /\ dsorted (p_extra p).

Ltac step H :=
  match type of H with
  | bind ?r _ = Ok _ => let a := fresh "a" in let E := fresh "E" in apply bind_ok in H as [a [E H]]
  | (if ?b then _ else _) = Ok _ => let E := fresh "B" in destruct b eqn:E
  | match ?x with _ => _ end = Ok _ => let E := fresh "M" in destruct x eqn:E
  end; try discriminate.

Ltac sorted_goal :=
  repeat match goal with H : _ /\ _ |- _ => destruct H end;
  repeat split; cbn; try assumption; try (apply dset_sorted; assumption); try constructor.

Section Sorted.
Variable hash160 sha256 hash256 : bytes -> bytes.
Variable sec_ok : bytes -> bool.

Lemma in_loop_sorted : forall fuel net ti s st st' r,
  in_loop sec_ok fuel net ti s st = Ok (st', r) -> in_sorted st -> in_sorted st'.
Proof.
  induction fuel as [|f IH]; intros net ti s st st' r H I; [discriminate|].
  cbn [in_loop] in H.
  repeat step H;
    try (inversion H; subst; exact I);
    (eapply IH; [exact H|]; unfold in_sorted in *; sorted_goal).
Qed.

Lemma out_loop_sorted : forall fuel net s st st' r,
  out_loop sec_ok fuel net s st = Ok (st', r) -> out_sorted st -> out_sorted st'.
Proof.
  induction fuel as [|f IH]; intros net s st st' r H I; [discriminate|].
  cbn [out_loop] in H.
  repeat step H;
    try (inversion H; subst; exact I);
    (eapply IH; [exact H|]; unfold out_sorted in *; sorted_goal).
Qed.

Lemma global_loop_sorted : forall fuel s st st' r,
  global_loop sec_ok fuel s st = Ok (st', r) -> g_sorted st -> g_sorted st'.
Proof.
  induction fuel as [|f IH]; intros s st st' r H I; [discriminate|].
  cbn [global_loop] in H.
  repeat step H;
    try (inversion H; subst; exact I);
    (eapply IH; [exact H|]; unfold g_sorted in *; sorted_goal).
Qed.

Lemma in_parse_sorted net ti s st r :
  in_parse hash160 sha256 hash256 sec_ok net ti s = Ok (st, r) -> in_sorted st.
Proof.
  unfold in_parse. intros H. repeat step H. inversion H; subst.
  eapply in_loop_sorted; [eassumption|]. unfold in_sorted, empty_in; cbn. repeat split; constructor.
Qed.

Lemma out_parse_sorted net to s st r :
  out_parse hash160 sha256 sec_ok net to s = Ok (st, r) -> out_sorted st.
Proof.
  unfold out_parse. intros H. repeat step H. inversion H; subst.
  eapply out_loop_sorted; [eassumption|]. unfold out_sorted, empty_out; cbn. repeat split; constructor.
Qed.

Lemma ins_parse_sorted : forall tis net s acc ins n r,
  ins_parse hash160 sha256 hash256 sec_ok net tis s acc = Ok (ins, n, r) ->
  Forall in_sorted acc -> Forall in_sorted ins.
Proof.
  induction tis as [|ti tis IH]; intros net s acc ins n r H F; cbn [ins_parse] in H.
  - inversion H; subst. now apply Forall_rev.
  - apply bind_ok in H as [[pin s1] [E H]]. apply bind_ok in H as [n1 [_ H]].
    eapply IH; [exact H|]. constructor; [eapply in_parse_sorted; eauto|exact F].
Qed.

Lemma outs_parse_sorted : forall tos net s acc outs n r,
  outs_parse hash160 sha256 sec_ok net tos s acc = Ok (outs, n, r) ->
  Forall out_sorted acc -> Forall out_sorted outs.
Proof.
  induction tos as [|to tos IH]; intros net s acc outs n r H F; cbn [outs_parse] in H.
  - inversion H; subst. now apply Forall_rev.
  - apply bind_ok in H as [[pout s1] [E H]]. apply bind_ok in H as [n1 [_ H]].
    eapply IH; [exact H|]. constructor; [eapply out_parse_sorted; eauto|exact F].
Qed.

Variable sig_parse_ok : bytes -> bytes -> bool.
Variable ecdsa_verify : bytes -> Z -> bytes -> bool.
Variable sighash_legacy : tx -> Z -> option script -> result Z.
Variable sighash_segwit : tx -> Z -> option script -> option script -> result Z.
Variable verify_input : tx -> Z -> script -> option (list bytes) -> result bool.
Variable descends : hd_pub -> bytes -> bytes -> bool.

Theorem psbt_parse_sorted s p n :
  psbt_parse hash160 sha256 hash256 sec_ok sig_parse_ok ecdsa_verify sighash_legacy sighash_segwit
             verify_input descends s = Ok (p, n) -> psbt_sorted p.
Proof.
  unfold psbt_parse. destruct (read 5 s) as [m s0]. intros H.
  apply bind_ok in H as [u0 [_ H]]. apply bind_ok in H as [u1 [_ H]].
  apply bind_ok in H as [[g s1] [Eg H]]. cbn beta iota in H.
  destruct (g_tx g) as [t|]; [|discriminate].
  apply bind_ok in H as [[[ins n1] s2] [Ei H]]. cbn beta iota in H.
  apply bind_ok in H as [[[outs n2] s3] [Eo H]]. cbn beta iota zeta in H.
  apply bind_ok in H as [u [_ H]]. inversion H; subst. clear H.
  apply global_loop_sorted in Eg; [|split; constructor]. destruct Eg as [G1 G2].
  unfold psbt_sorted; cbn. repeat split; try assumption.
  - eapply ins_parse_sorted; [exact Ei|constructor].
  - eapply outs_parse_sorted; [exact Eo|constructor].
Qed.

(* hence the hypotheses of the combiner theorems hold for what PSBT.parse returns, except for the two
   values the combiner itself treats as absent *)
Theorem psbt_parse_good s p n :
  psbt_parse hash160 sha256 hash256 sec_ok sig_parse_ok ecdsa_verify sighash_legacy sighash_segwit
             verify_input descends s = Ok (p, n) ->
  Forall (fun st => pi_hash_type st <> Some 0 /\ pi_witness st <> Some []) (p_ins p) ->
  good p.
Proof.
  intros H F. apply psbt_parse_sorted in H as (S1 & S2 & S3 & S4).
  constructor; try assumption.
  - rewrite Forall_forall in *. intros st Hst. destruct (S1 st Hst) as (A & B & C). destruct (F st Hst) as [D E].
    constructor; assumption.
  - rewrite Forall_forall in *. intros st Hst. destruct (S2 st Hst) as (A & B). constructor; assumption.
Qed.

End Sorted.
