(* Proofs/SighashLegacyP.v — C05: Tx.sig_hash_legacy builds the preimage of the original
   (Satoshi) signature hash. *)
From V Require Import Base.Prelude Base.Ints Model.Helper Model.Script Model.Tx Model.Sighash
  Model.SighashAbs Spec.TxData Proofs.HelperP Proofs.SighashP.
From V Require Spec.Legacy.

Definition fblank (cb : bytes) (n_in : nat) (ht : Z) (i : nat) (x : ctxin) : ctxin :=
  if (i =? n_in)%nat then Legacy.set_script_sig cb x
  else
    let y := Legacy.set_script_sig [] x in
    if Legacy.hash_none ht || Legacy.hash_single ht then Legacy.set_sequence 0 y else y.

Lemma blanked_inputs_eq cb vin n_in ht :
  Legacy.blanked_inputs cb vin n_in ht = mapi (fblank cb n_in ht) vin.
Proof. reflexivity. Qed.

Lemma mapi_from_length {A B} (f : nat -> A -> B) i l : length (mapi_from f i l) = length l.
Proof. revert i; induction l as [|x r IH]; intros i; cbn; [reflexivity|]. now rewrite IH. Qed.

(* the TxIn built in the loop serialises to the blanked input of the specification *)
Lemma legacy_new_in ht idx code cb i ti ci :
  in_u32 ht = true -> abs_script code = Ok cb -> abs_in ti = Ok ci ->
  txin_serialize
    {| i_prev_tx := i_prev_tx ti; i_prev_index := i_prev_index ti;
       i_script := if (i =? idx)%nat then code else empty_script;
       i_sequence := if (i =? idx)%nat then i_sequence ti
                     else if ht_none_or_single5 ht then 0 else i_sequence ti;
       i_witness := [] |} = Ok (ser_txin (fblank cb idx ht i ci)).
Proof.
  intros Hht Hcode Hci. apply abs_in_inv in Hci as [Hpi [Hsq [s [Hs ->]]]].
  unfold fblank. rewrite (base5_none_or_single ht).
  destruct (i =? idx)%nat.
  - now apply txin_serialize_mk.
  - destruct (Legacy.hash_none ht || Legacy.hash_single ht).
    + apply txin_serialize_mk; auto using abs_script_empty.
    + apply txin_serialize_mk; auto using abs_script_empty.
Qed.

(* without ANYONECANPAY: all inputs *)
Lemma legacy_ins_all ht idx code cb l cl i :
  in_u32 ht = true -> Legacy.anyone_can_pay ht = false ->
  abs_script code = Ok cb -> abs_list abs_in l = Ok cl ->
  legacy_ins ht idx code i l = Ok (flat_map ser_txin (mapi_from (fblank cb idx ht) i cl)).
Proof.
  intros Hht Hacp Hcode. revert cl i; induction l as [|ti r IH]; intros cl i H.
  - cbn in H. inversion H. reflexivity.
  - apply abs_list_cons in H as [y [ys [Hy [Hys ->]]]].
    cbn [legacy_ins mapi_from flat_map]. unfold legacy_txin. rewrite acp_eq, Hacp.
    rewrite (legacy_new_in ht idx code cb i ti y Hht Hcode Hy). cbn [bind].
    now rewrite (IH _ (S i) Hys).
Qed.

(* with ANYONECANPAY: nothing after the signed input … *)
Lemma legacy_ins_acp_past ht idx code l i :
  Legacy.anyone_can_pay ht = true -> (idx < i)%nat -> legacy_ins ht idx code i l = Ok [].
Proof.
  intros Hacp. revert i; induction l as [|ti r IH]; intros i Hi; [reflexivity|].
  cbn [legacy_ins]. unfold legacy_txin. rewrite acp_eq, Hacp.
  destruct (i =? idx)%nat eqn:E; [apply Nat.eqb_eq in E; lia|]. cbn [bind].
  rewrite IH by lia. reflexivity.
Qed.

(* … and only the signed input before *)
Lemma legacy_ins_acp ht idx code cb l cl i :
  in_u32 ht = true -> Legacy.anyone_can_pay ht = true ->
  abs_script code = Ok cb -> abs_list abs_in l = Ok cl -> (i <= idx)%nat ->
  legacy_ins ht idx code i l =
  Ok (flat_map ser_txin (firstn 1 (skipn (idx - i) (mapi_from (fblank cb idx ht) i cl)))).
Proof.
  intros Hht Hacp Hcode. revert cl i; induction l as [|ti r IH]; intros cl i H Hi.
  - cbn in H. inversion H. cbn. now rewrite skipn_nil.
  - apply abs_list_cons in H as [y [ys [Hy [Hys ->]]]].
    cbn [legacy_ins mapi_from]. unfold legacy_txin. rewrite acp_eq, Hacp.
    destruct (i =? idx)%nat eqn:E.
    + apply Nat.eqb_eq in E. subst i. rewrite Nat.sub_diag. cbn [skipn firstn flat_map].
      pose proof (legacy_new_in ht idx code cb idx ti y Hht Hcode Hy) as Hn.
      rewrite Nat.eqb_refl in Hn. rewrite Hn. cbn [bind].
      rewrite legacy_ins_acp_past by (auto; lia). cbn [bind]. reflexivity.
    + apply Nat.eqb_neq in E. cbn [bind].
      rewrite (IH _ (S i) Hys) by lia. cbn [bind app].
      replace (idx - i)%nat with (S (idx - S i)) by lia. reflexivity.
Qed.

(* outputs under SIGHASH_SINGLE *)
Lemma ser_null_txout : ser_txout Legacy.null_txout = null_txout.
Proof. reflexivity. Qed.

Lemma legacy_single_outs_spec idx l cl i :
  abs_list abs_out l = Ok cl -> (i <= idx)%nat -> (idx < i + length l)%nat ->
  legacy_single_outs idx i l =
  Ok (flat_map ser_txout (map (fun _ => Legacy.null_txout) (firstn (idx - i) cl) ++
                          firstn 1 (skipn (idx - i) cl))).
Proof.
  revert cl i; induction l as [|o r IH]; intros cl i H Hi Hlen.
  - cbn in Hlen. lia.
  - apply abs_list_cons in H as [y [ys [Hy [Hys ->]]]]. cbn [legacy_single_outs].
    destruct (i =? idx)%nat eqn:E.
    + apply Nat.eqb_eq in E. subst i. rewrite Nat.sub_diag. cbn. rewrite app_nil_r.
      now apply abs_out_ser.
    + apply Nat.eqb_neq in E. cbn [length] in Hlen.
      rewrite (IH _ (S i) Hys) by lia. cbn [bind].
      replace (idx - i)%nat with (S (idx - S i)) by lia.
      cbn [firstn map skipn app flat_map]. now rewrite ser_null_txout.
Qed.

Lemma tmp_vout_single_length vout n_in :
  (n_in < length vout)%nat ->
  length (map (fun _ : ctxout => Legacy.null_txout) (firstn n_in vout) ++ firstn 1 (skipn n_in vout))
  = S n_in.
Proof.
  intros H. rewrite app_length, map_length, !firstn_length, skipn_length. lia.
Qed.

Lemma legacy_outs_spec ht idx l cl :
  in_u32 ht = true -> in_u64 (zlen l) = true ->
  abs_list abs_out l = Ok cl ->
  (Legacy.hash_single ht = true -> (idx < length l)%nat) ->
  legacy_outs ht idx l = Ok (ser_vec ser_txout (Legacy.tmp_vout cl idx ht)).
Proof.
  intros Hht Hlen Hcl Hsingle. unfold legacy_outs, Legacy.tmp_vout, ser_vec.
  rewrite (base5_none ht), (base5_single ht).
  destruct (Legacy.hash_none ht) eqn:En.
  - reflexivity.
  - destruct (Legacy.hash_single ht) eqn:Es.
    + specialize (Hsingle eq_refl).
      assert (Hl : length cl = length l) by now apply abs_list_length in Hcl.
      rewrite encode_varint_cs.
      2:{ apply in_u64_spec. apply in_u64_spec in Hlen. unfold zlen in Hlen. lia. }
      rewrite (legacy_single_outs_spec idx l cl 0 Hcl) by lia. cbn [bind].
      rewrite Nat.sub_0_r. f_equal. f_equal. f_equal.
      unfold zlen. rewrite tmp_vout_single_length by lia. lia.
    + rewrite (encode_varint_cs _ Hlen), (ser_outs_abs _ _ Hcl). cbn [bind].
      now rewrite (zlen_length_eq cl l) by now apply abs_list_length in Hcl.
Qed.

Lemma firstn1_skipn_length {A} (l : list A) k :
  (k < length l)%nat -> length (firstn 1 (skipn k l)) = 1%nat.
Proof. intros H. rewrite firstn_length, skipn_length. lia. Qed.

(* C05 (legacy): the preimage, including the two "return 1" cases *)
Lemma legacy_eq_spec_any t ct idx code cb ht :
  in_u32 ht = true -> abs_tx t = Ok ct -> abs_script code = Ok cb ->
  legacy_preimage t idx code ht = Ok (Legacy.preimage cb ct idx ht).
Proof.
  intros Hht Ht Hcode.
  apply abs_tx_inv in Ht as [Hv [Hlt [Hni [Hno [Hin [Hout [Ev El]]]]]]].
  assert (Li : length (ct_vin ct) = length (t_ins t)) by now apply abs_list_length in Hin.
  assert (Lo : length (ct_vout ct) = length (t_outs t)) by now apply abs_list_length in Hout.
  unfold legacy_preimage, Legacy.preimage, Legacy.tx_tmp. rewrite Li, Lo, (base5_single ht).
  destruct (length (t_ins t) <=? idx)%nat eqn:E1; [reflexivity|].
  apply Nat.leb_gt in E1.
  destruct (Legacy.hash_single ht && (length (t_outs t) <=? idx)%nat) eqn:E2; [reflexivity|].
  rewrite (le32_ok _ Hv), (le32_ok _ Hlt), (le32_ok _ Hht). cbn [bind].
  rewrite (legacy_outs_spec ht idx _ _ Hht Hno Hout).
  2:{ intros Hs. rewrite Hs in E2. cbn in E2. now apply Nat.leb_gt in E2. }
  rewrite blanked_inputs_eq. unfold mapi. rewrite acp_eq.
  destruct (Legacy.anyone_can_pay ht) eqn:Eacp.
  - rewrite (legacy_ins_acp ht idx code cb _ _ 0 Hht Eacp Hcode Hin) by lia.
    rewrite Nat.sub_0_r. change (encode_varint 1) with (Ok [1] : result bytes).
    cbn [bind]. f_equal. f_equal.
    unfold ser_tx, ser_vec. cbn [ct_version ct_vin ct_vout ct_locktime].
    assert (Z1 : zlen (firstn 1 (skipn idx (mapi_from (fblank cb idx ht) 0 (ct_vin ct)))) = 1).
    { unfold zlen. rewrite firstn1_skipn_length by (rewrite mapi_from_length; lia). reflexivity. }
    rewrite Z1. change (compact_size 1) with [1].
    rewrite Ev, El. rewrite <- !app_assoc. reflexivity.
  - rewrite (legacy_ins_all ht idx code cb _ _ 0 Hht Eacp Hcode Hin).
    rewrite (encode_varint_cs _ Hni). cbn [bind]. f_equal. f_equal.
    unfold ser_tx, ser_vec. cbn [ct_version ct_vin ct_vout ct_locktime].
    rewrite (zlen_length_eq (mapi_from (fblank cb idx ht) 0 (ct_vin ct)) (t_ins t))
      by (rewrite mapi_from_length; exact Li).
    rewrite Ev, El. rewrite <- !app_assoc. reflexivity.
Qed.

(* … in particular for the seven standard hash types *)
Lemma legacy_eq_spec t ct idx code cb ht :
  standard_hash_type ht = true -> abs_tx t = Ok ct -> abs_script code = Ok cb ->
  legacy_preimage t idx code ht = Ok (Legacy.preimage cb ct idx ht).
Proof. intros Hht. exact (legacy_eq_spec_any t ct idx code cb ht (std_u32 _ Hht)). Qed.
