(* Proofs/MerkleWireP.v — the SPV theorems at the level a light client uses them:
   MerkleBlock.parse(stream) followed by is_valid() / proved_txs().

   * mb_parse only ever returns 32-byte hashes (so the 32-byte hypothesis of the soundness
     theorems is discharged for every proof that comes from the wire);
   * MerkleBlock.parse inverts the Core serialisation of a merkleblock message
     (Spec/MerkleBlockWire.v);
   * wire-level soundness (ordered) and wire-level completeness: what a full node sends for a
     block and a match vector parses, validates and yields exactly the matched ids in order. *)
From V Require Import Base.Prelude Base.Ints Model.Helper Model.Block Spec.P2P
  Proofs.HelperP Proofs.NetworkP Proofs.P2PSpecP.
From V Require Import Model.Merkle Model.MerkleBlock Spec.Bip37 Spec.MerkleBlockWire
  Proofs.MerkleP Proofs.Bip37P Proofs.MerkleBlockP Proofs.MerkleRefineGen Proofs.MerkleDeepP.

(* ------------------------------------------------------------------ *)
(* parse yields 32-byte hashes *)

Lemma read_hashes_len : forall k s acc,
  (32 * k <= length s)%nat -> Forall L32 acc ->
  Forall L32 (fst (MerkleBlock.read_hashes k s acc)).
Proof.
  induction k as [|k IH]; intros s acc Hs Hacc.
  - cbn [MerkleBlock.read_hashes fst]. now apply Forall_rev.
  - cbn [MerkleBlock.read_hashes]. unfold read. apply IH.
    + rewrite skipn_length. lia.
    + constructor; [|exact Hacc]. rewrite rev_length, firstn_length. lia.
Qed.

Lemma mb_parse_hashes_32 s hdr total hashes flags rest :
  mb_parse s = Ok (hdr, total, hashes, flags, rest) -> Forall L32 hashes.
Proof.
  unfold mb_parse. destruct (parse_header s) as [hdr0 s1]. destruct (read 4 s1) as [tb s2].
  destruct (read_varint s2) as [[num s3]|]; [|discriminate]. cbn [bind].
  destruct (Z.ltb_spec (zlen s3) (32 * num)) as [|Hlen]; [discriminate|].
  destruct (MerkleBlock.read_hashes (Z.to_nat num) s3 []) as [hs s4] eqn:ER.
  destruct (read_varint s4) as [[flen s5]|]; [|discriminate]. cbn [bind].
  destruct (9223372036854775808 <=? flen); [discriminate|].
  destruct (readz flen s5) as [fl s6]. intros [= _ _ <- _ _].
  change hs with (fst (hs, s4)). rewrite <- ER. apply read_hashes_len; [|constructor].
  unfold zlen in Hlen. lia.
Qed.

(* ------------------------------------------------------------------ *)
(* parse inverts the Core layout *)

Lemma read_varint_cs i rest :
  0 <= i < 18446744073709551616 -> read_varint (cs_bytes i ++ rest) = Ok (i, rest).
Proof.
  intros H. destruct (varint_roundtrip i rest H) as [b [E R]].
  apply encode_varint_inv in E as [_ ->]. exact R.
Qed.

Lemma concat_len32 (hs : list bytes) : Forall L32 hs -> length (concat hs) = (32 * length hs)%nat.
Proof.
  induction 1 as [|x r Hx _ IH]; [reflexivity|]. cbn [concat length]. rewrite app_length, IH, Hx. lia.
Qed.

Lemma read_hashes_concat : forall hs acc rest,
  Forall L32 hs ->
  MerkleBlock.read_hashes (length hs) (concat hs ++ rest) acc = (rev acc ++ map (@rev Z) hs, rest).
Proof.
  induction hs as [|x r IH]; intros acc rest H.
  - cbn. now rewrite app_nil_r.
  - inversion H as [|? ? Hx Hr]; subst.
    cbn [concat length MerkleBlock.read_hashes map]. rewrite <- app_assoc.
    rewrite (read_app 32 x _ Hx). rewrite IH by exact Hr.
    cbn [rev]. now rewrite <- app_assoc.
Qed.

Lemma mb_parse_wire hdr hb total hashes flags rest :
  header_wf hdr -> serialize_header hdr = Ok hb ->
  0 <= total < 4294967296 ->
  Forall L32 hashes -> zlen hashes < 18446744073709551616 ->
  zlen flags < 9223372036854775808 ->
  mb_parse (merkleblock_bytes hb total hashes flags ++ rest) =
  Ok (hdr, total, map (@rev Z) hashes, flags, rest).
Proof.
  intros Hwf Hser Htot Hhs Hnh Hfl.
  unfold merkleblock_bytes. rewrite <- !app_assoc.
  destruct (header_roundtrip hdr
              (to_le 4 total ++ cs_bytes (zlen hashes) ++ concat hashes ++ cs_bytes (zlen flags) ++ flags ++ rest)
              Hwf) as [b [Eb [_ Ep]]].
  rewrite Hser in Eb. injection Eb as <-.
  unfold mb_parse. rewrite Ep.
  rewrite (read_app 4 (to_le 4 total) _ (to_le_length 4 total)).
  rewrite from_le_to_le by (rewrite pow256_4; lia).
  rewrite read_varint_cs by (pose proof (zlen_nonneg hashes); lia). cbn [bind].
  pose proof (concat_len32 hashes Hhs) as HC.
  destruct (Z.ltb_spec (zlen (concat hashes ++ cs_bytes (zlen flags) ++ flags ++ rest)) (32 * zlen hashes)) as [Hlt|_].
  { unfold zlen in Hlt. rewrite app_length, HC in Hlt. lia. }
  unfold zlen at 1. rewrite Nat2Z.id.
  rewrite read_hashes_concat by exact Hhs. cbn [rev app].
  rewrite read_varint_cs by (pose proof (zlen_nonneg flags); lia). cbn [bind].
  destruct (Z.leb_spec 9223372036854775808 (zlen flags)) as [|_]; [lia|].
  rewrite readz_app. reflexivity.
Qed.

(* ------------------------------------------------------------------ *)
Lemma bits_to_bytes_len : forall fuel bits, (length (bits_to_bytes fuel bits) <= length bits)%nat.
Proof.
  induction fuel as [|f IH]; intros bits; [cbn; lia|].
  destruct bits as [|b r]; [cbn; lia|].
  cbn [bits_to_bytes length]. specialize (IH (skipn 8 (b :: r))).
  rewrite skipn_length in IH. cbn [length] in IH. lia.
Qed.

(* ------------------------------------------------------------------ *)
(* the compositions *)
Section Wire.
Variable hash256 : bytes -> bytes.
Hypothesis hash_len : forall x, length (hash256 x) = 32%nat.

(* soundness for a proof taken from the wire: no hypothesis on the proof's hashes *)
Lemma wire_proof_sound s hdr total hashes flags rest (ids : list bytes) proved :
  mb_parse s = Ok (hdr, total, hashes, flags, rest) ->
  ids <> [] -> Forall L32 ids -> total = zlen ids ->
  validate_merkle_root hash256 (h_root hdr) ids = Ok true ->
  mb_is_valid hash256 (h_root hdr) total hashes flags = Ok (true, proved) ->
  (exists mv, length mv = length ids /\ proved = sel ids mv) \/
  (exists x y : bytes, x <> y /\ hash256 x = hash256 y).
Proof.
  intros HP Hne Hids -> HV HI.
  apply (proof_sound_ordered_machine hash256 hash_len ids (h_root hdr) hashes flags proved Hne Hids
           (mb_parse_hashes_32 _ _ _ _ _ _ HP) HV HI).
Qed.

(* two wire proofs with the same total and flags that validate against the same header carry
   the same hashes *)
Lemma wire_proof_binding s s' hdr hdr' total hashes hashes' flags rest rest' proved proved' :
  mb_parse s = Ok (hdr, total, hashes, flags, rest) ->
  mb_parse s' = Ok (hdr', total, hashes', flags, rest') ->
  h_root hdr = h_root hdr' ->
  mb_is_valid hash256 (h_root hdr) total hashes flags = Ok (true, proved) ->
  mb_is_valid hash256 (h_root hdr') total hashes' flags = Ok (true, proved') ->
  (hashes = hashes' /\ proved = proved') \/
  (exists x y : bytes, x <> y /\ hash256 x = hash256 y).
Proof.
  intros HP HP' ER HI HI'. rewrite <- ER in HI'.
  exact (proof_hash_binding hash256 hash_len _ _ _ _ _ _ _ (mb_parse_hashes_32 _ _ _ _ _ _ HP)
           (mb_parse_hashes_32 _ _ _ _ _ _ HP') HI HI').
Qed.

(* completeness from the wire: the message a full node builds for a block (ids in display
   order, fewer than 2^32 of them) and any match vector parses back to the header, the
   authentic total and a proof that validates and yields exactly the matched ids in order *)
Lemma wire_proof_complete (ids : list bytes) (matches : list bool) hdr hb rest :
  ids <> [] -> Forall L32 ids -> zlen ids < 4294967296 ->
  length matches = length ids ->
  header_wf hdr -> serialize_header hdr = Ok hb ->
  h_root hdr = rev (consensus_root hash256 (map (@rev Z) ids)) ->
  exists hashes flags,
    mb_parse (merkleblock_of_block hash256 hb (map (@rev Z) ids) matches ++ rest)
      = Ok (hdr, zlen ids, hashes, flags, rest) /\
    mb_is_valid hash256 (h_root hdr) (zlen ids) hashes flags = Ok (true, sel ids matches).
Proof.
  intros Hne Hids Hn Hlen Hwf Hser Hroot.
  pose proof (proof_complete_machine hash256 hash_len ids matches Hne Hids Hlen) as PC. cbv zeta in PC.
  unfold merkleblock_of_block.
  destruct (bip37_proof hash256 (map (@rev Z) ids) matches) as [[total hashes] flags] eqn:EB.
  destruct PC as [-> PC].
  unfold bip37_proof in EB.
  destruct (build hash256 (map (@rev Z) ids) matches) as [bits hs] eqn:EBu.
  injection EB as _ <- <-.
  assert (1 <= length (map (@rev Z) ids))%nat as H1.
  { rewrite map_length. destruct ids; [congruence | cbn; lia]. }
  destruct (build_props hash256 (map (@rev Z) ids) hash_len (Forall_L32_map_rev _ Hids) matches H1)
    as [A [B C]].
  rewrite EBu in A, B, C. cbn [fst snd] in A, B, C. rewrite map_length in B, C.
  pose proof (bits_to_bytes_len (length bits) bits) as HF.
  exists (map (@rev Z) hs), (bits_to_bytes (length bits) bits). split.
  - apply mb_parse_wire; try assumption.
    + pose proof (zlen_nonneg ids). lia.
    + unfold zlen in *. lia.
    + unfold zlen in *. lia.
  - rewrite Hroot. exact PC.
Qed.
End Wire.
