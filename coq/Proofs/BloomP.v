(* Proofs/BloomP.v — BIP37 bloom filter: added elements have all their bits set, adding is
   monotone, bit positions are MurmurHash3 (32-bit standard) of seed i*0xFBA4C795+tweak
   modulo the filter size, filterload / filter_bytes layout. *)
From V Require Import Base.Prelude Base.Ints Model.Helper Model.Murmur Model.Bloom
  Proofs.HelperP Proofs.GcsP Proofs.MurmurP.
From V Require Spec.Murmur.

Lemma set_nth_length n : forall l, length (set_nth n l) = length l.
Proof. induction n as [|n IH]; intros [|x r]; cbn; auto. Qed.

Lemma set_nth_same n : forall l, (n < length l)%nat -> nth n (set_nth n l) 0 = 1.
Proof.
  induction n as [|n IH]; intros [|x r] H; cbn in *; try lia; auto. apply IH. lia.
Qed.

Lemma set_nth_mono n : forall l j, nth j l 0 = 1 -> nth j (set_nth n l) 0 = 1.
Proof.
  induction n as [|n IH]; intros [|x r] j H; cbn in *; auto.
  - destruct j; auto.
  - destruct j; auto.
Qed.

Lemma set_nth_01 n : forall l, bits01 l -> bits01 (set_nth n l).
Proof.
  induction n as [|n IH]; intros [|x r] H; cbn; auto.
  - inversion H; subst. constructor; [now right|assumption].
  - inversion H; subst. constructor; [assumption|now apply IH].
Qed.

Lemma bloom_set_props size bits bit bits' :
  bloom_set size bits bit = Ok bits' ->
  length bits' = length bits /\ (forall j, nth j bits 0 = 1 -> nth j bits' 0 = 1) /\
  (bits01 bits -> bits01 bits') /\
  (0 <= bit -> nth (Z.to_nat bit) bits' 0 = 1).
Proof.
  unfold bloom_set. destruct (size * 8 =? 0); [discriminate|].
  destruct ((0 <=? bit) && (bit <? zlen bits)) eqn:E1.
  - intros [= <-]. apply andb_true_iff in E1 as [A B]. apply Z.leb_le in A. apply Z.ltb_lt in B.
    repeat split; [apply set_nth_length | apply set_nth_mono | apply set_nth_01 |].
    intros _. apply set_nth_same. unfold zlen in B. lia.
  - destruct ((bit <? 0) && (- zlen bits <=? bit)) eqn:E2; [|discriminate].
    intros [= <-]. apply andb_true_iff in E2 as [A B]. apply Z.ltb_lt in A.
    repeat split; [apply set_nth_length | apply set_nth_mono | apply set_nth_01 | lia].
Qed.

Lemma bloom_index_range size tweak item i : 0 < size -> 0 <= bloom_index size tweak item i < size * 8.
Proof. intros H. unfold bloom_index. apply Z.mod_pos_bound. lia. Qed.

Lemma bloom_set_ok size bits bit :
  0 < size -> zlen bits = size * 8 -> 0 <= bit < size * 8 ->
  bloom_set size bits bit = Ok (set_nth (Z.to_nat bit) bits).
Proof.
  intros Hs Hl Hb. unfold bloom_set.
  destruct (size * 8 =? 0) eqn:E; [apply Z.eqb_eq in E; lia|].
  destruct (0 <=? bit) eqn:A; [|apply Z.leb_gt in A; lia].
  destruct (bit <? zlen bits) eqn:B; [|apply Z.ltb_ge in B; lia]. reflexivity.
Qed.

(* the loop: success on a well-formed filter, and its effect *)
Lemma bloom_add_loop_props n : forall i size tweak item bits,
  0 < size -> zlen bits = size * 8 ->
  exists bits', bloom_add_loop n i size tweak item bits = Ok bits' /\
    length bits' = length bits /\
    (forall j, nth j bits 0 = 1 -> nth j bits' 0 = 1) /\
    (bits01 bits -> bits01 bits') /\
    (forall k, i <= k < i + Z.of_nat n -> nth (Z.to_nat (bloom_index size tweak item k)) bits' 0 = 1).
Proof.
  induction n as [|n IH]; intros i size tweak item bits Hs Hl.
  - exists bits. cbn. repeat split; auto. intros k Hk. lia.
  - cbn [bloom_add_loop].
    pose proof (bloom_index_range size tweak item i Hs) as Hr.
    rewrite (bloom_set_ok size bits _ Hs Hl Hr). cbn [bind].
    pose proof (bloom_set_props size bits _ _ (bloom_set_ok size bits _ Hs Hl Hr)) as [L1 [M1 [B1 S1]]].
    destruct (IH (i + 1) size tweak item (set_nth (Z.to_nat (bloom_index size tweak item i)) bits) Hs)
      as [bits' [E [L2 [M2 [B2 S2]]]]].
    { unfold zlen in *. rewrite L1. exact Hl. }
    exists bits'. split; [exact E|]. repeat split.
    + congruence.
    + intros j Hj. apply M2, M1, Hj.
    + intros Hb. apply B2, B1, Hb.
    + intros k Hk. destruct (Z.eq_dec k i) as [->|Hne].
      * apply M2, S1. lia.
      * apply S2. lia.
Qed.

Lemma bloom_all_set_iff n : forall i size tweak item bits,
  bloom_all_set n i size tweak item bits = true <->
  (forall k, i <= k < i + Z.of_nat n -> nth (Z.to_nat (bloom_index size tweak item k)) bits 0 = 1).
Proof.
  induction n as [|n IH]; intros i size tweak item bits.
  - cbn. split; [intros _ k Hk; lia|reflexivity].
  - cbn [bloom_all_set]. rewrite andb_true_iff, IH, Z.eqb_eq. split.
    + intros [A B] k Hk. destruct (Z.eq_dec k i) as [->|Hne]; [exact A|apply B; lia].
    + intros H. split; [apply H; lia|]. intros k Hk. apply H. lia.
Qed.

Lemma repeatz_nth x n j : nth j (repeatz x n) 0 = x \/ nth j (repeatz x n) 0 = 0.
Proof. revert j; induction n as [|n IH]; intros [|j]; cbn; auto. Qed.

Lemma bloom_new_wf size fc tweak : 0 <= size ->
  zlen (bf_bits (bloom_new size fc tweak)) = size * 8 /\ bits01 (bf_bits (bloom_new size fc tweak)).
Proof.
  intros H. unfold bloom_new. cbn [bf_bits]. split.
  - unfold zlen. rewrite repeatz_length, Z2Nat.id; lia.
  - apply repeatz_01. now left.
Qed.

(* well-formed filter: positive size, size*8 bits *)
Definition bloom_wf (b : bloom) : Prop :=
  0 < bf_size b /\ zlen (bf_bits b) = bf_size b * 8 /\ bits01 (bf_bits b).

Definition bloom_matches (b : bloom) (item : bytes) : bool :=
  bloom_all_set (Z.to_nat (bf_fc b)) 0 (bf_size b) (bf_tweak b) item (bf_bits b).

Lemma bloom_add_props b item : bloom_wf b ->
  exists b', bloom_add b item = Ok b' /\ bloom_wf b' /\
    bf_size b' = bf_size b /\ bf_fc b' = bf_fc b /\ bf_tweak b' = bf_tweak b /\
    (forall j, nth j (bf_bits b) 0 = 1 -> nth j (bf_bits b') 0 = 1) /\
    bloom_matches b' item = true.
Proof.
  intros [Hs [Hl Hb]]. unfold bloom_add.
  destruct (bloom_add_loop_props (Z.to_nat (bf_fc b)) 0 (bf_size b) (bf_tweak b) item (bf_bits b) Hs Hl)
    as [bits' [E [L [M [B S]]]]].
  rewrite E. cbn [bind]. eexists. split; [reflexivity|].
  unfold bloom_wf, bloom_matches. cbn [bf_size bf_bits bf_fc bf_tweak].
  repeat split; auto.
  - unfold zlen in *. now rewrite L.
  - apply bloom_all_set_iff. exact S.
Qed.

(* monotone => a matched item stays matched by later additions *)
Lemma bloom_matches_mono b b' item :
  bf_size b' = bf_size b -> bf_fc b' = bf_fc b -> bf_tweak b' = bf_tweak b ->
  (forall j, nth j (bf_bits b) 0 = 1 -> nth j (bf_bits b') 0 = 1) ->
  bloom_matches b item = true -> bloom_matches b' item = true.
Proof.
  unfold bloom_matches. intros -> -> -> M H.
  apply bloom_all_set_iff. intros k Hk. apply M. revert k Hk. now apply bloom_all_set_iff.
Qed.

(* bit positions: MurmurHash3_x86_32 (32-bit standard), seed = (i*0xFBA4C795 + tweak) mod 2^32 *)
Lemma bloom_index_spec size tweak item i : bytes_ok item ->
  bloom_index size tweak item i = Spec.Murmur.bip37_bit size i tweak item.
Proof.
  intros H. unfold bloom_index, Spec.Murmur.bip37_bit, Spec.Murmur.bip37_seed.
  now rewrite murmur3_eq_spec.
Qed.

(* ---------------- filter_bytes / filterload layout ---------------- *)

Lemma bits_le_byte_bit t j : length t = 8%nat -> bits01 t -> (j < 8)%nat ->
  Z.testbit (bits_le_byte t 1) (Z.of_nat j) = (nth j t 0 =? 1).
Proof.
  intros L H Hj.
  do 8 (destruct t as [|? t]; [discriminate|]). destruct t; [|discriminate]. clear L.
  repeat match goal with H : bits01 (_ :: _) |- _ => inversion H; clear H; subst end.
  repeat match goal with H : Forall _ (_ :: _) |- _ => inversion H; clear H; subst end.
  do 8 (destruct j as [|j]; [repeat match goal with H : bit01 _ |- _ => destruct H; subst end; reflexivity|]).
  lia.
Qed.

Lemma bits_le_byte_range t : forall w, 0 < w ->
  0 <= bits_le_byte t w <= w * (2 ^ Z.of_nat (length t) - 1).
Proof.
  induction t as [|b r IH]; intros w Hw.
  - cbn. lia.
  - cbn [bits_le_byte length]. specialize (IH (2 * w) ltac:(lia)).
    rewrite Nat2Z.inj_succ, Z.pow_succ_r by lia.
    pose proof (Z.pow_pos_nonneg 2 (Z.of_nat (length r)) ltac:(lia) ltac:(lia)).
    destruct (b =? 0); nia.
Qed.

Lemma bit_field_bytes_bit k : forall l i, length l = (8 * k)%nat -> bits01 l -> (i < 8 * k)%nat ->
  Z.testbit (nth (Nat.div i 8) (bit_field_bytes k l) 0) (Z.of_nat (Nat.modulo i 8)) = (nth i l 0 =? 1).
Proof.
  induction k as [|k IH]; intros l i L H Hi; [lia|].
  cbn [bit_field_bytes].
  assert (L8 : length (firstn 8 l) = 8%nat) by (rewrite firstn_length; lia).
  assert (Ls : length (skipn 8 l) = (8 * k)%nat) by (rewrite skipn_length; lia).
  assert (H8 : bits01 (firstn 8 l)) by (rewrite <- (firstn_skipn 8 l) in H; now apply Forall_app in H).
  assert (Hs : bits01 (skipn 8 l)) by (rewrite <- (firstn_skipn 8 l) in H; now apply Forall_app in H).
  destruct (Nat.lt_ge_cases i 8) as [Lt|Ge].
  - rewrite Nat.div_small, Nat.mod_small by assumption. cbn [nth].
    rewrite bits_le_byte_bit by assumption.
    rewrite <- (firstn_skipn 8 l) at 2. rewrite app_nth1 by lia. reflexivity.
  - replace i with ((i - 8) + 1 * 8)%nat at 1 2 by lia.
    rewrite Nat.div_add, Nat.mod_add by lia. rewrite Nat.add_1_r. cbn [nth].
    rewrite IH by (try assumption; lia).
    rewrite <- (firstn_skipn 8 l) at 2. rewrite app_nth2 by lia. rewrite L8. reflexivity.
Qed.

Lemma bit_field_bytes_length k : forall l, length (bit_field_bytes k l) = k.
Proof. induction k as [|k IH]; intros l; cbn; auto. Qed.

Lemma bit_field_bytes_ok k : forall l, bytes_ok (bit_field_bytes k l).
Proof.
  induction k as [|k IH]; intros l; cbn [bit_field_bytes]; constructor; [|apply IH].
  pose proof (bits_le_byte_range (firstn 8 l) 1 ltac:(lia)) as Hr.
  assert (length (firstn 8 l) <= 8)%nat by (rewrite firstn_length; lia).
  assert (2 ^ Z.of_nat (length (firstn 8 l)) <= 2 ^ 8) by (apply Z.pow_le_mono_r; lia).
  unfold byte_ok. change (2 ^ 8) with 256 in *. lia.
Qed.

Lemma filter_bytes_layout b : bloom_wf b ->
  exists fb, bit_field_to_bytes (bf_bits b) = Ok fb /\ zlen fb = bf_size b /\ bytes_ok fb /\
    forall i, (i < length (bf_bits b))%nat ->
      Z.testbit (nth (Nat.div i 8) fb 0) (Z.of_nat (Nat.modulo i 8)) = (nth i (bf_bits b) 0 =? 1).
Proof.
  intros [Hs [Hl Hb]]. unfold bit_field_to_bytes.
  assert (L : length (bf_bits b) = (8 * Z.to_nat (bf_size b))%nat) by (unfold zlen in Hl; lia).
  rewrite L. rewrite (Nat.mul_comm 8), Nat.mod_mul by lia. cbn [Nat.eqb].
  rewrite Nat.div_mul by lia. eexists. split; [reflexivity|]. repeat split.
  - unfold zlen. rewrite bit_field_bytes_length. lia.
  - apply bit_field_bytes_ok.
  - intros i Hi. apply bit_field_bytes_bit; [lia | assumption | lia].
Qed.

Lemma filterload_layout b flag : bloom_wf b ->
  bf_size b < 18446744073709551616 -> 0 <= bf_fc b < 4294967296 -> 0 <= bf_tweak b < 4294967296 ->
  0 <= flag < 256 ->
  exists sz fb, encode_varint (bf_size b) = Ok sz /\ bit_field_to_bytes (bf_bits b) = Ok fb /\
    filterload b flag = Ok (sz ++ fb ++ to_le 4 (bf_fc b) ++ to_le 4 (bf_tweak b) ++ [flag]).
Proof.
  intros Hw Hs Hf Ht Hfl. destruct (filter_bytes_layout b Hw) as [fb [Efb _]].
  destruct Hw as [Hp _].
  destruct (varint_roundtrip (bf_size b) []) as [sz [Esz _]]; [lia|].
  exists sz, fb. repeat split; try assumption.
  unfold filterload. rewrite Esz, Efb. cbn [bind].
  rewrite !int_to_le_ok by (rewrite pow256_4; assumption). cbn [bind].
  unfold int_to_byte. destruct (flag >? 255) eqn:A; [apply Z.gtb_lt in A; lia|].
  destruct (flag <? 0) eqn:B; [apply Z.ltb_lt in B; lia|]. reflexivity.
Qed.

(* a sequence of add calls: every item added at some point is matched at the end *)
Fixpoint bloom_add_list (b : bloom) (items : list bytes) : result bloom :=
  match items with
  | [] => Ok b
  | it :: r => b' <- bloom_add b it ;; bloom_add_list b' r
  end.

Lemma bloom_add_list_props items : forall b, bloom_wf b ->
  exists b', bloom_add_list b items = Ok b' /\ bloom_wf b' /\
    bf_size b' = bf_size b /\ bf_fc b' = bf_fc b /\ bf_tweak b' = bf_tweak b /\
    (forall j, nth j (bf_bits b) 0 = 1 -> nth j (bf_bits b') 0 = 1) /\
    (forall it, In it items -> bloom_matches b' it = true).
Proof.
  induction items as [|it r IH]; intros b Hw.
  - exists b. cbn [bloom_add_list]. split; [reflexivity|]. split; [assumption|].
    repeat split; auto; intros it Hin; destruct Hin.
  - cbn [bloom_add_list].
    destruct (bloom_add_props b it Hw) as [b1 [E1 [W1 [S1 [F1 [T1 [M1 A1]]]]]]].
    rewrite E1. cbn [bind].
    destruct (IH b1 W1) as [b2 [E2 [W2 [S2 [F2 [T2 [M2 A2]]]]]]].
    exists b2. split; [exact E2|]. split; [exact W2|].
    split; [congruence|]. split; [congruence|]. split; [congruence|].
    split; [intros j Hj; apply M2, M1, Hj|].
    intros x Hx. destruct Hx as [<-|Hx]; [|now apply A2].
    apply (bloom_matches_mono b1 b2 it S2 F2 T2 M2 A1).
Qed.
