(* Proofs/MusigAlg.v — MuSig under [scalar_laws C]: the sum of all partial signatures verifies,
   any other sum is rejected.  The x-only lift (parse_xonly of the x coordinate of a valid
   point is its even-y representative) is the named hypothesis [xonly_lift_ok C]. *)
From Coq Require Import Permutation Zdiv Morphisms Setoid.
From V Require Import Base.Prelude Base.Ints Model.Helper Model.Script Model.Pecc Model.Taproot
  Model.Musig Proofs.GroupHyp Proofs.CurveAlg Proofs.TaprootP Proofs.TaprootAlg Proofs.MusigP.

Definition xonly_lift_ok (C : curve) : Prop :=
  forall x y, valid C (Some (x, y)) -> parse_xonly C (to_be 32 x) = Ok (evenT C (Some (x, y))).

Section MusigAlg.
Variable C : curve.
Variable sha256 : bytes -> bytes.
Hypothesis SL : scalar_laws C.
Hypothesis LIFT : xonly_lift_ok C.
Hypothesis N256 : cn C <= pow256 32.
Hypothesis P256 : cp C <= pow256 32.
Let n := cn C.
Let p := cp C.

Notation addT := (addT C).
Notation mulT := (mulT C).
Notation negT := (negT C).
Notation valid := (valid C).
Notation Gp := (G C).
Notation evenT := (evenT C).
Let Gv : valid Gp := G_valid C SL.
Let npos : 0 < n := n_pos C SL.

(* congruence mod n as an opaque relation, so that [rewrite] uses the setoid instances *)
Definition cong (a b : Z) : Prop := eqm n a b.
Notation "a == b" := (cong a b) (at level 70).

Local Instance cong_equiv : Equivalence cong := eqm_setoid n.
Local Instance add_cong : Proper (cong ==> cong ==> cong) Z.add := Zplus_eqm n.
Local Instance mul_cong : Proper (cong ==> cong ==> cong) Z.mul := Zmult_eqm n.
Local Instance sub_cong : Proper (cong ==> cong ==> cong) Z.sub := Zminus_eqm n.
Local Instance opp_cong : Proper (cong ==> cong) Z.opp := Zopp_eqm n.

Lemma mod_cong a : a mod n == a.
Proof. apply Zmod_eqm. Qed.

Lemma cong_mod_l a b : a == b -> a mod n == b.
Proof. intros H. transitivity a; [apply mod_cong | exact H]. Qed.

Lemma cong_of_eq a b : a = b -> a == b.
Proof. intros ->. reflexivity. Qed.

Lemma cong_mod a b : a == b -> a mod n = b mod n.
Proof. intros H. exact H. Qed.

Lemma mulT_eqm a b P : a == b -> mulT a P = mulT b P.
Proof. intros H. now apply (mulT_cong C SL). Qed.

Global Opaque cong.

(* ---------------- signs ---------------- *)
Lemma sgn_cases P : sgn_of P = 1 \/ sgn_of P = -1.
Proof. destruct P as [[x y]|]; cbn; [destruct (y mod 2 =? 1)|]; auto. Qed.

Lemma sgn_sq P : sgn_of P * sgn_of P = 1.
Proof. destruct (sgn_cases P) as [-> | ->]; reflexivity. Qed.

Lemma parity_sel (A B : point) a b (k : Z) :
  parity A = Ok a -> parity B = Ok b ->
  (if a =? b then k else - k) = sgn_of A * sgn_of B * k.
Proof.
  destruct A as [[xa ya]|], B as [[xb yb]|]; cbn; intros Ha Hb; try discriminate.
  inversion Ha; inversion Hb; subst.
  pose proof (Z.mod_pos_bound ya 2 ltac:(lia)). pose proof (Z.mod_pos_bound yb 2 ltac:(lia)).
  destruct (ya mod 2 =? yb mod 2) eqn:E; destruct (ya mod 2 =? 1) eqn:E1; destruct (yb mod 2 =? 1) eqn:E2; lia.
Qed.

Lemma parity_ok P : P <> None -> exists a, parity P = Ok a.
Proof. destruct P as [[x y]|]; [intros _; eexists; reflexivity | congruence]. Qed.

Lemma evenT_sgn P : valid P -> P <> None -> sgn_of (evenT P) = 1.
Proof.
  destruct P as [[x y]|]; [|congruence]. intros H _.
  destruct (evenT_parity C SL x y H) as (y' & -> & Hy). cbn. now rewrite Hy.
Qed.

Lemma evenT_not_inf P : P <> None -> valid P -> evenT P <> None.
Proof.
  destruct P as [[x y]|]; [|congruence]. intros _ H.
  destruct (evenT_parity C SL x y H) as (y' & -> & _). discriminate.
Qed.

Lemma xonly_evenT P : valid P -> xonly (evenT P) = xonly P.
Proof.
  destruct P as [[x y]|]; [|reflexivity]. intros H.
  destruct (evenT_parity C SL x y H) as (y' & -> & _). reflexivity.
Qed.

Lemma lift_ok P : valid P -> P <> None -> parse_xonly C (xonly P) = Ok (evenT P).
Proof. destruct P as [[x y]|]; [|congruence]. intros H _. now apply LIFT. Qed.

(* ---------------- group sums ---------------- *)
Definition gsum (l : list point) : point := fold_right addT None l.

Lemma gsum_cons x l : gsum (x :: l) = addT x (gsum l).
Proof. reflexivity. Qed.

Lemma gsum_valid l : Forall valid l -> valid (gsum l).
Proof.
  induction 1 as [|x l Hx _ IH]; [exact I|]. rewrite gsum_cons. now apply (add_valid C SL).
Qed.

Lemma sum_from_ok ps : forall acc, valid acc -> Forall valid ps ->
  sum_from C acc ps = Ok (addT acc (gsum ps)).
Proof.
  induction ps as [|q r IH]; intros acc Ha F; cbn [sum_from].
  - change (gsum []) with (@None (Z * Z)). now rewrite (sl_add_0_r C SL).
  - inversion F; subst. rewrite (padd_ok C SL) by assumption. cbn [bind].
    rewrite IH; [|now apply (add_valid C SL)|assumption].
    rewrite gsum_cons. f_equal. apply (sl_add_assoc C SL); auto. now apply gsum_valid.
Qed.

Lemma combine_points_ok ps : ps <> [] -> Forall valid ps -> combine_points C ps = Ok (gsum ps).
Proof.
  destruct ps as [|p0 r]; [congruence|]. intros _ F. inversion F; subst. cbn [combine_points].
  rewrite gsum_cons. now apply sum_from_ok.
Qed.

Lemma gsum_perm l l' : Permutation l l' -> Forall valid l -> gsum l = gsum l'.
Proof.
  induction 1 as [| x l l' _ IH | x y l | l l' l'' P1 IH1 P2 IH2]; intros F.
  - reflexivity.
  - inversion F; subst. rewrite !gsum_cons. now rewrite IH.
  - inversion F as [|? ? Hy F']; subst. inversion F' as [|? ? Hx F'']; subst. rewrite !gsum_cons.
    pose proof (gsum_valid l F'') as Hs.
    rewrite <- (sl_add_assoc C SL) by assumption. rewrite (sl_add_comm C SL y x) by assumption.
    now apply (sl_add_assoc C SL).
  - rewrite IH1 by assumption. apply IH2. eapply Permutation_Forall; eauto.
Qed.

Lemma gsum_mulG {A} (f : A -> Z) l : gsum (map (fun a => mulT (f a) Gp) l) = mulT (zsum (map f l)) Gp.
Proof.
  induction l as [|a l IH]; cbn [map].
  - symmetry. now apply (sl_mul_0 C SL).
  - rewrite gsum_cons, IH. apply (mulG_add C SL).
Qed.

Lemma Forall_valid_mulG {A} (f : A -> Z) l : Forall valid (map (fun a => mulT (f a) Gp) l).
Proof. apply Forall_forall. intros x Hx. apply in_map_iff in Hx as (a & <- & _). now apply (mul_valid C SL). Qed.

(* ---------------- coefficient lookup ---------------- *)
Definition look (ks : list bytes) (vs : list Z) (b : bytes) : Z :=
  match lookup_last b ks vs with Some c => c | None => 0 end.

Lemma lookup_last_In b : forall ks vs c, lookup_last b ks vs = Some c -> In b ks.
Proof.
  induction ks as [|k ks IH]; intros [|v vs] c H; cbn in H; try discriminate.
  destruct (lookup_last b ks vs) eqn:E.
  - right. eapply IH; eauto.
  - destruct (beq k b) eqn:E'; [|discriminate]. apply beq_eq in E'. now left.
Qed.

Lemma lookup_last_some b : forall ks vs, length ks = length vs -> In b ks ->
  exists c, lookup_last b ks vs = Some c.
Proof.
  induction ks as [|k ks IH]; intros [|v vs] Hl Hin; cbn in *; try discriminate; [destruct Hin|].
  destruct (lookup_last b ks vs) eqn:E; [eauto|].
  destruct Hin as [->|Hin].
  - rewrite beq_refl. eauto.
  - destruct (IH vs ltac:(lia) Hin) as [c Hc]. congruence.
Qed.

Lemma scaled_map (L : bytes -> point) : forall ks vs,
  length ks = length vs -> NoDup ks -> (forall b, In b ks -> valid (L b)) ->
  scaled C vs (map L ks) = Ok (map (fun b => mulT (look ks vs b) (L b)) ks).
Proof.
  induction ks as [|k ks IH]; intros [|v vs] Hl Hn Hv; cbn in Hl; try discriminate; [reflexivity|].
  inversion Hn as [|? ? Hk Hn']; subst.
  cbn [map scaled]. rewrite (rmul_ok C SL) by (apply Hv; now left). cbn [bind].
  rewrite (IH vs) by (auto; intros; apply Hv; now right). cbn [bind]. f_equal. f_equal.
  - unfold look. cbn. destruct (lookup_last k ks vs) eqn:E.
    + exfalso. apply Hk. eapply lookup_last_In; eauto.
    + now rewrite beq_refl.
  - apply map_ext_in. intros b Hb. unfold look. cbn.
    destruct (lookup_last_some b ks vs ltac:(lia) Hb) as [c ->]. reflexivity.
Qed.

Lemma set_second_ok l : (2 <= length l)%nat -> exists l', set_second l = Ok l' /\ length l' = length l.
Proof. destruct l as [|a [|b t]]; cbn; intros H; try lia. eexists. split; reflexivity. Qed.

(* ---------------- key aggregation ---------------- *)
Definition pub (d : Z) : point := mulT d Gp.
Definition sg (d : Z) : Z := sgn_of (pub d).
Definition in_range (d : Z) : Prop := 1 <= d <= n - 1.

Lemma pub_valid d : valid (pub d). Proof. now apply (mul_valid C SL). Qed.
Lemma pub_not_inf d : in_range d -> pub d <> None.
Proof. intros H. apply (mulG_not_inf C SL). fold n. unfold in_range in H. lia. Qed.

Lemma lift_pub d : in_range d -> parse_xonly C (xonly (pub d)) = Ok (mulT (sg d * d) Gp).
Proof.
  intros H. rewrite lift_ok; [|apply pub_valid|now apply pub_not_inf].
  f_equal. apply (evenT_mulG C SL).
Qed.

Definition Lf (b : bytes) : point := match parse_xonly C b with Ok q => q | Err => None end.

Lemma musig_init_unfold pts : pts <> [] ->
  musig_init C sha256 pts =
    (let xs := sort_bytes (map xonly pts) in
     lifted <- mapM (parse_xonly C) xs ;;
     let commitment := hash_keyagglist sha256 (concat xs) in
     let coefs0 := map (fun b => from_be (hash_keyaggcoef sha256 (commitment ++ b))) xs in
     coefs <- set_second coefs0 ;;
     sc <- scaled C coefs lifted ;;
     agg <- combine_points C sc ;;
     Ok {| ms_xonlys := xs; ms_points := lifted; ms_coefs := coefs; ms_point := agg |}).
Proof. destruct pts; [congruence | reflexivity]. Qed.

Section Participants.
Variable ds : list Z.
Hypothesis Hrange : Forall in_range ds.
Hypothesis Hlen : (2 <= length ds)%nat.
Let pts := map pub ds.
Hypothesis Hnodup : NoDup (map xonly pts).

Let xs := sort_bytes (map xonly pts).

Lemma xs_perm : Permutation xs (map xonly pts).
Proof. apply sort_perm. Qed.

Lemma xs_elem b : In b xs -> exists d, In d ds /\ b = xonly (pub d).
Proof.
  intros H. apply (Permutation_in _ xs_perm) in H. unfold pts in H. rewrite map_map in H.
  apply in_map_iff in H as (d & <- & Hd). eauto.
Qed.

Lemma ds_range d : In d ds -> in_range d.
Proof. intros H. rewrite Forall_forall in Hrange. now apply Hrange. Qed.

Theorem musig_init_ok :
  exists ms, musig_init C sha256 pts = Ok ms /\
    ms_xonlys ms = xs /\ length (ms_coefs ms) = length xs /\
    ms_point ms =
      mulT (zsum (map (fun d => look xs (ms_coefs ms) (xonly (pub d)) * (sg d * d)) ds)) Gp /\
    (forall d, In d ds ->
       coef_lookup ms (xonly (pub d)) = Ok (look xs (ms_coefs ms) (xonly (pub d)))).
Proof.
  assert (Hne : pts <> []).
  { unfold pts. destruct ds; cbn in *; [lia | discriminate]. }
  rewrite (musig_init_unfold pts Hne). cbn zeta. fold xs.
  assert (Hparse : forall b, In b xs -> parse_xonly C b = Ok (Lf b) /\ valid (Lf b)).
  { intros b Hb. destruct (xs_elem b Hb) as (d & Hd & ->). unfold Lf.
    rewrite (lift_pub d (ds_range d Hd)). split; [reflexivity | now apply (mul_valid C SL)]. }
  rewrite (mapM_ok (parse_xonly C) Lf xs) by (intros b Hb; apply Hparse, Hb). cbn [bind].
  set (coefs0 := map _ xs).
  assert (Hlx : length xs = length ds).
  { rewrite (Permutation_length xs_perm). unfold pts. now rewrite !map_length. }
  destruct (set_second_ok coefs0) as (coefs & Hss & Hlc).
  { unfold coefs0. rewrite map_length. lia. }
  rewrite Hss. cbn [bind].
  assert (Hlc' : length xs = length coefs) by (rewrite Hlc; unfold coefs0; now rewrite map_length).
  assert (Hnd : NoDup xs) by (eapply Permutation_NoDup; [apply Permutation_sym, xs_perm | exact Hnodup]).
  rewrite (scaled_map Lf xs coefs Hlc' Hnd) by (intros b Hb; apply Hparse, Hb). cbn [bind].
  set (f := fun b => mulT (look xs coefs b) (Lf b)).
  assert (Fv : Forall valid (map f xs)).
  { apply Forall_forall. intros q Hq. apply in_map_iff in Hq as (b & <- & Hb).
    apply (mul_valid C SL). apply Hparse, Hb. }
  rewrite combine_points_ok; [| |exact Fv].
  2:{ intros E. apply (f_equal (@length _)) in E. rewrite map_length in E. cbn in E. lia. }
  cbn [bind]. eexists. split; [reflexivity|]. cbn [ms_xonlys ms_coefs ms_point].
  split; [reflexivity|]. split; [now symmetry|]. split.
  - rewrite (gsum_perm _ _ (Permutation_map f xs_perm) Fv).
    unfold pts. rewrite !map_map. rewrite <- gsum_mulG. f_equal.
    apply map_ext_in. intros d Hd. unfold f, Lf. rewrite (lift_pub d (ds_range d Hd)).
    now rewrite (sl_mul_mul C SL).
  - intros d Hd. unfold coef_lookup, look. cbn [ms_xonlys ms_coefs].
    destruct (lookup_last_some (xonly (pub d)) xs coefs Hlc') as [c ->]; [|reflexivity].
    apply (Permutation_in _ (Permutation_sym xs_perm)). unfold pts. rewrite map_map.
    apply in_map_iff. eauto.
Qed.

End Participants.

(* ---------------- the external key ---------------- *)
Definition tw (Q : point) (root : bytes) : Z :=
  match root with [] => 0 | _ => from_be (tweak sha256 Q root) end.

Lemma external_form ms root q :
  ms_point ms = mulT q Gp -> ms_point ms <> None ->
  musig_external C sha256 ms root =
    Ok (mulT (sgn_of (ms_point ms) * q + tw (ms_point ms) root) Gp).
Proof.
  intros HQ Hni. set (Q := ms_point ms) in *.
  assert (Hv : valid Q) by (rewrite HQ; now apply (mul_valid C SL)).
  assert (Hev : evenT Q = mulT (sgn_of Q * q) Gp).
  { rewrite HQ at 1. rewrite (evenT_mulG C SL). now rewrite <- HQ. }
  unfold musig_external. fold Q. destruct Q as [[x y]|] eqn:EQ; [|congruence].
  destruct root as [|r0 root].
  - rewrite (even_point_ok C SL) by assumption. rewrite Hev. f_equal. cbn [tw]. f_equal. lia.
  - rewrite (proj1 (output_key_formula C sha256 SL x y (r0 :: root) Hv)). rewrite Hev.
    rewrite (mulG_add C SL). reflexivity.
Qed.

(* ---------------- final verification ---------------- *)
Lemma schnorr_parse_ok (r : point) s : valid r -> r <> None -> 0 <= s < n ->
  exists sb, int_to_be s 32 = Ok sb /\ schnorr_parse C (xonly r ++ sb) = Ok (evenT r, s).
Proof.
  intros Hv Hni Hs.
  assert (Hs' : 0 <= s < pow256 32) by (fold n in N256; lia).
  unfold int_to_be. destruct (0 <=? s) eqn:E1; [|lia]. destruct (s <? pow256 32) eqn:E2; [|lia]. cbn [andb].
  eexists. split; [reflexivity|]. fold (to_be 32 s).
  unfold schnorr_parse.
  rewrite firstn_app, (xonly_length r), Nat.sub_diag, firstn_O, app_nil_r.
  rewrite (firstn_all2 (xonly r)) by (rewrite xonly_length; lia).
  rewrite skipn_app, (xonly_length r), Nat.sub_diag, skipn_O.
  rewrite (skipn_all2 (xonly r)) by (rewrite xonly_length; lia). cbn [app].
  rewrite (firstn_all2 (to_be 32 s)) by (rewrite to_be_length; lia).
  unfold parse_point. rewrite xonly_length. cbn [Nat.eqb].
  change ((32 =? 32)%nat) with true. cbn iota.
  rewrite lift_ok by assumption. cbn [bind].
  rewrite from_be_to_be by assumption. fold n. destruct (n <=? s) eqn:E3; [lia|]. reflexivity.
Qed.

Lemma even_point_ok' P : valid P -> P <> None -> even_point C P = Ok (evenT P).
Proof. destruct P as [[x y]|]; [|congruence]. intros H _. now apply (even_point_ok C SL). Qed.

Lemma parity_sgn P : P <> None ->
  (parity P = Ok 0 /\ sgn_of P = 1) \/ (parity P = Ok 1 /\ sgn_of P = -1).
Proof.
  destruct P as [[x y]|]; [|congruence]. intros _. cbn.
  pose proof (Z.mod_pos_bound y 2 ltac:(lia)).
  destruct (y mod 2 =? 1) eqn:E.
  - right. apply Z.eqb_eq in E. rewrite E. auto.
  - left. apply Z.eqb_neq in E. replace (y mod 2) with 0 by lia. auto.
Qed.

(* the core: with R = Kt G, Q = q G and a sum congruent to rho Kt + e gQ q, the final
   signature is (even R, s) and verifies for the external key *)
Lemma final_verifies ms R msg root q Kt s_sum Q ext :
  Q = ms_point ms -> Q = mulT q Gp -> Q <> None ->
  R = mulT Kt Gp -> R <> None ->
  ext = mulT (sgn_of Q * q + tw Q root) Gp -> ext <> None ->
  s_sum == sgn_of R * sgn_of ext * Kt + challenge C sha256 R ext msg * (sgn_of Q * q) ->
  exists s,
    musig_get_signature C sha256 ms s_sum R msg root = Ok (evenT R, s) /\
    schnorr_verify C sha256 ext msg (evenT R) s = Ok true /\ 0 <= s < n.
Proof.
  intros HQm HQ HQni HR HRni Hexteq Hext Hsum.
  set (e := challenge C sha256 R ext msg) in *.
  set (t := tw Q root) in *.
  assert (HQv : valid Q) by (rewrite HQ; now apply (mul_valid C SL)).
  assert (HRv : valid R) by (rewrite HR; now apply (mul_valid C SL)).
  assert (Hextv : valid ext) by (rewrite Hexteq; now apply (mul_valid C SL)).
  assert (Hexternal : musig_external C sha256 ms root = Ok ext).
  { rewrite Hexteq. unfold t. rewrite HQm. apply external_form; rewrite <- HQm; assumption. }
  (* the final s *)
  assert (Hfs : exists s, musig_final_s C sha256 ms s_sum R msg root = Ok s /\ 0 <= s < n /\
                          s == sgn_of ext * (s_sum + e * t)).
  { unfold musig_final_s. unfold musig_external in Hexternal. rewrite <- HQm in *.
    destruct root as [|r0 root].
    - rewrite Hexternal. cbn [bind]. eexists. split; [reflexivity|].
      split; [apply Z.mod_pos_bound; lia|].
      assert (Hse : sgn_of ext = 1).
      { rewrite (even_point_ok' Q HQv HQni) in Hexternal.
        assert (Hx : ext = evenT Q) by congruence. rewrite Hx. now apply evenT_sgn. }
      rewrite Hse. apply cong_mod_l, cong_of_eq. unfold t. cbn [tw]. lia.
    - rewrite Hexternal. cbn [bind]. fold e.
      change (from_be (tweak sha256 Q (r0 :: root))) with t.
      destruct (parity_sgn ext Hext) as [[Hp Hs] | [Hp Hs]]; rewrite Hp, Hs; cbn [bind Z.eqb];
        (eexists; split; [reflexivity|]; split; [apply Z.mod_pos_bound; lia|]);
        apply cong_mod_l, cong_of_eq; lia. }
  destruct Hfs as (s & Hfs & Hsr & Hsc).
  destruct (schnorr_parse_ok R s HRv HRni Hsr) as (sb & Hsb & Hparse).
  (* verification *)
  assert (Hver : schnorr_verify C sha256 ext msg (evenT R) s = Ok true).
  { unfold schnorr_verify.
    rewrite (even_point_ok' ext Hextv Hext). cbn [bind].
    pose proof (evenT_not_inf R HRni HRv) as HeRni.
    pose proof (evenT_sgn R HRv HRni) as HeRs.
    destruct (evenT R) as [[xr yr]|] eqn:EeR; [|congruence]. rewrite <- EeR.
    rewrite (xonly_evenT R HRv), (xonly_evenT ext Hextv).
    change (from_be (tagged_hash sha256 tag_challenge (xonly R ++ xonly ext ++ msg)) mod cn C) with e.
    assert (Hpt : evenT ext = mulT (sgn_of ext * (sgn_of Q * q + t)) Gp).
    { rewrite Hexteq at 1. rewrite (evenT_mulG C SL). now rewrite <- Hexteq. }
    rewrite (rmul_ok C SL) by (now apply (evenT_valid C SL)). cbn [bind].
    rewrite (padd_int_ok C SL) by (apply (mul_valid C SL); now apply (evenT_valid C SL)). cbn [bind].
    rewrite Hpt, (sl_mul_mul C SL), (mulG_add C SL) by assumption.
    assert (Hres : mulT (- e * (sgn_of ext * (sgn_of Q * q + t)) + s) Gp = evenT R).
    { rewrite HR at 1. rewrite (evenT_mulG C SL). rewrite <- HR. apply mulT_eqm.
      rewrite Hsc, Hsum.
      transitivity (sgn_of ext * sgn_of ext * (sgn_of R * Kt)).
      - apply cong_of_eq. fold e. ring.
      - rewrite sgn_sq. apply cong_of_eq. ring. }
    rewrite Hres, EeR. cbn [sgn_of] in HeRs.
    destruct (yr mod 2 =? 1); [discriminate|]. now rewrite <- EeR, (xonly_evenT R HRv), beq_refl. }
  exists s. split; [|split; assumption].
  unfold musig_get_signature. rewrite Hexternal. cbn [bind]. rewrite Hfs. cbn [bind].
  rewrite Hsb. cbn [bind]. rewrite Hparse. cbn [bind]. rewrite Hver. reflexivity.
Qed.

(* any sum in another residue class is rejected: at most one class is accepted *)
Lemma add_cancel_l A X Y : valid A -> valid X -> valid Y -> addT A X = addT A Y -> X = Y.
Proof.
  intros HA HX HY E.
  assert (K : forall Z0, valid Z0 -> addT (negT A) (addT A Z0) = Z0).
  { intros Z0 HZ. rewrite <- (sl_add_assoc C SL) by (auto; now apply (neg_valid C SL)).
    rewrite (sl_add_comm C SL (negT A) A) by (auto; now apply (neg_valid C SL)).
    rewrite (sl_add_neg C SL) by assumption. apply (sl_add_0_l C SL). }
  rewrite <- (K X HX), <- (K Y HY). now rewrite E.
Qed.

Lemma to_be32_inj a b : 0 <= a < p -> 0 <= b < p -> to_be 32 a = to_be 32 b -> a = b.
Proof.
  intros Ha Hb E. unfold to_be in E. apply (f_equal (@rev Z)) in E. rewrite !rev_involutive in E.
  fold p in P256. apply (to_le_inj 32); [lia | lia | exact E].
Qed.


(* ---------------- a whole session ---------------- *)
Lemma nonce_points_ok k1 k2 : nonce_points C k1 k2 = Ok (mulT k1 Gp, mulT k2 Gp).
Proof. unfold nonce_points. now rewrite !(rmul_ok C SL) by assumption. Qed.

Definition pk1 (p : Z * (Z * Z)) : Z := fst (snd p).
Definition pk2 (p : Z * (Z * Z)) : Z := snd (snd p).

Lemma zsum_cons x l : zsum (x :: l) = x + zsum l.
Proof. reflexivity. Qed.

Lemma partial_sum rho e gQ b (h : Z * (Z * Z) -> Z) (l : list (Z * (Z * Z))) :
  zsum (map (fun p => (rho * ((pk1 p + b * pk2 p) mod n) +
                       ((h p * e) mod n) * (gQ * sg (fst p) * fst p)) mod n) l)
  == rho * (zsum (map pk1 l) + b * zsum (map pk2 l)) +
     e * (gQ * zsum (map (fun p => h p * (sg (fst p) * fst p)) l)).
Proof.
  induction l as [|x l IH]; cbn [map]; rewrite ?zsum_cons.
  - apply cong_of_eq. cbn. ring.
  - transitivity ((rho * (pk1 x + b * pk2 x) + (h x * e) * (gQ * sg (fst x) * fst x)) +
                  (rho * (zsum (map pk1 l) + b * zsum (map pk2 l)) +
                   e * (gQ * zsum (map (fun p => h p * (sg (fst p) * fst p)) l)))).
    + apply add_cong; [|exact IH]. apply cong_mod_l.
      apply add_cong; apply mul_cong; try reflexivity; apply mod_cong.
    + apply cong_of_eq. ring.
Qed.

Section Session.
Variable parts : list (Z * (Z * Z)).
Variable msg root : bytes.
Hypothesis Hrange : Forall in_range (map fst parts).
Hypothesis Hlen : (2 <= length parts)%nat.
Hypothesis Hnodup : NoDup (map xonly (map pub (map fst parts))).

Definition K1 : Z := zsum (map pk1 parts).
Definition K2 : Z := zsum (map pk2 parts).

Lemma parts_ne : parts <> [].
Proof. destruct parts; cbn in *; [lia | discriminate]. Qed.

Lemma nonce_sums_ok :
  exists nps, mapM (fun p => nonce_points C (fst (snd p)) (snd (snd p))) parts = Ok nps /\
              nonce_sums C nps = Ok (mulT K1 Gp, mulT K2 Gp).
Proof.
  eexists. split.
  - apply (mapM_ok _ (fun p => (mulT (pk1 p) Gp, mulT (pk2 p) Gp))). intros pp _. apply nonce_points_ok.
  - unfold nonce_sums. rewrite !map_map. cbn [fst snd].
    rewrite !combine_points_ok; try apply Forall_valid_mulG;
      try (intros E; apply (f_equal (@length _)) in E; rewrite map_length in E; cbn in E; lia).
    cbn [bind]. now rewrite !gsum_mulG.
Qed.

Lemma session_r_ok ms :
  mulT K1 Gp <> None -> mulT K2 Gp <> None ->
  exists b,
    compute_coefficient sha256 ms (mulT K1 Gp, mulT K2 Gp) msg = Ok b /\
    musig_session_r C sha256 ms parts msg = Ok ((mulT K1 Gp, mulT K2 Gp), mulT (K1 + b * K2) Gp).
Proof.
  intros H1 H2.
  assert (Hc : exists b, compute_coefficient sha256 ms (mulT K1 Gp, mulT K2 Gp) msg = Ok b).
  { unfold compute_coefficient. cbn [fst snd].
    destruct (mulT K1 Gp) as [[x1 y1]|]; [|congruence]. destruct (mulT K2 Gp) as [[x2 y2]|]; [|congruence].
    cbn [sec bind]. eexists. reflexivity. }
  destruct Hc as [b Hb]. exists b. split; [exact Hb|].
  unfold musig_session_r. destruct nonce_sums_ok as (nps & -> & Hs). cbn [bind]. rewrite Hs. cbn [bind].
  unfold compute_r. rewrite Hb. cbn [bind snd fst].
  rewrite (rmul_ok C SL) by now apply (mul_valid C SL). cbn [bind].
  cbn [combine_points sum_from]. rewrite (padd_ok C SL) by (repeat apply (mul_valid C SL); assumption).
  cbn [bind]. rewrite (sl_mul_mul C SL), (mulG_add C SL) by assumption. reflexivity.
Qed.

Theorem musig_sum_verifies :
  exists ms, musig_init C sha256 (map pub (map fst parts)) = Ok ms /\ valid (ms_point ms) /\
   (ms_point ms <> None -> mulT K1 Gp <> None -> mulT K2 Gp <> None ->
    exists sums R, musig_session_r C sha256 ms parts msg = Ok (sums, R) /\ valid R /\
     (R <> None ->
      exists ext, musig_external C sha256 ms root = Ok ext /\ valid ext /\
       (ext <> None ->
        exists ps s,
          musig_partials C sha256 ms parts sums R msg root = Ok ps /\
          musig_get_signature C sha256 ms (zsum ps) R msg root = Ok (evenT R, s) /\
          musig_session C sha256 parts msg root = Ok (evenT R, s) /\
          schnorr_verify C sha256 ext msg (evenT R) s = Ok true /\ 0 <= s < n))).
Proof.
  destruct (musig_init_ok (map fst parts) Hrange ltac:(now rewrite map_length) Hnodup)
    as (ms & Hinit & Hxs & Hlc & HQ & Hlook).
  set (xs := sort_bytes (map xonly (map pub (map fst parts)))) in *.
  set (hd := fun d => look xs (ms_coefs ms) (xonly (pub d))) in *.
  set (q := zsum (map (fun d => hd d * (sg d * d)) (map fst parts))) in *.
  exists ms. split; [exact Hinit|]. split; [rewrite HQ; now apply (mul_valid C SL)|].
  intros HQni HS1 HS2.
  destruct (session_r_ok ms HS1 HS2) as (b & Hb & Hsr).
  set (Kt := K1 + b * K2) in *. set (R := mulT Kt Gp) in *.
  exists (mulT K1 Gp, mulT K2 Gp), R. split; [exact Hsr|]. split; [now apply (mul_valid C SL)|].
  intros HRni.
  set (Q := ms_point ms) in *.
  set (ext := mulT (sgn_of Q * q + tw Q root) Gp).
  assert (Hexternal : musig_external C sha256 ms root = Ok ext) by (now apply external_form).
  exists ext. split; [exact Hexternal|]. split; [now apply (mul_valid C SL)|].
  intros Hext.
  set (e := challenge C sha256 R ext msg).
  set (rho := sgn_of R * sgn_of ext).
  set (partial := fun p : Z * (Z * Z) =>
         (rho * ((pk1 p + b * pk2 p) mod n) +
          ((hd (fst p) * e) mod n) * (sgn_of Q * sg (fst p) * fst p)) mod n).
  assert (Hparts : musig_partials C sha256 ms parts (mulT K1 Gp, mulT K2 Gp) R msg root =
                   Ok (map partial parts)).
  { unfold musig_partials. apply mapM_ok. intros pp Hin.
    assert (Hd : In (fst pp) (map fst parts)) by now apply in_map.
    assert (Hr : in_range (fst pp)) by (rewrite Forall_forall in Hrange; now apply Hrange).
    unfold compute_k. rewrite Hb. cbn [bind].
    unfold musig_sign. rewrite Hexternal. cbn [bind].
    rewrite (pubkey_ok C SL) by exact Hr. cbn [bind]. fold (pub (fst pp)).
    rewrite (Hlook _ Hd). cbn [bind]. fold (hd (fst pp)).
    destruct (parity_ok R HRni) as [a Ha]. destruct (parity_ok ext Hext) as [a' Ha'].
    destruct (parity_ok Q HQni) as [c Hc]. destruct (parity_ok (pub (fst pp)) (pub_not_inf _ Hr)) as [c' Hc'].
    fold Q. rewrite Ha, Ha', Hc, Hc'. cbn [bind].
    rewrite (parity_sel R ext a a' _ Ha Ha'), (parity_sel Q (pub (fst pp)) c c' _ Hc Hc').
    unfold partial, rho, pk1, pk2, sg. fold e. fold n. reflexivity. }
  assert (Hsum : zsum (map partial parts) == sgn_of R * sgn_of ext * Kt + e * (sgn_of Q * q)).
  { unfold partial. rewrite (partial_sum rho e (sgn_of Q) b (fun p => hd (fst p)) parts).
    apply cong_of_eq. unfold Kt, K1, K2, q, rho. rewrite !map_map. reflexivity. }
  destruct (final_verifies ms R msg root q Kt (zsum (map partial parts)) Q ext
              eq_refl HQ HQni eq_refl HRni eq_refl Hext Hsum) as (s & Hgs & Hv & Hsr').
  exists (map partial parts), s.
  split; [exact Hparts|]. split; [exact Hgs|]. split; [|split; [exact Hv | exact Hsr']].
  unfold musig_session.
  rewrite (mapM_ok (fun p => pubkey C (fst p)) (fun p => pub (fst p)) parts).
  2:{ intros pp Hin. apply (pubkey_ok C SL). rewrite Forall_forall in Hrange. apply Hrange. now apply in_map. }
  cbn [bind]. rewrite <- (map_map fst pub). rewrite Hinit. cbn [bind]. rewrite Hsr. cbn [bind].
  rewrite Hparts. cbn [bind]. exact Hgs.
Qed.

End Session.

(* ---------------- any other sum is rejected ---------------- *)
Lemma final_s_affine ms R msg root :
  (forall s, musig_final_s C sha256 ms s R msg root = Err) \/
  exists g c, (g = 1 \/ g = -1) /\
    forall s, musig_final_s C sha256 ms s R msg root = Ok ((g * s + c) mod n).
Proof.
  unfold musig_final_s. destruct root as [|r0 root].
  - destruct (even_point C (ms_point ms)); cbn [bind]; [|now left].
    right. exists 1, 0. split; [now left|]. intros s. do 2 f_equal. lia.
  - destruct (tweaked_key C sha256 (ms_point ms) (r0 :: root)) as [ext|]; cbn [bind]; [|now left].
    destruct (parity ext) as [a|]; cbn [bind]; [|now left].
    right. destruct (a =? 0).
    + exists 1. eexists. split; [now left|]. intros s. do 2 f_equal.
      instantiate (1 := challenge C sha256 R ext msg * from_be (tweak sha256 (ms_point ms) (r0 :: root))). lia.
    + exists (-1). eexists. split; [now right|]. intros s. do 2 f_equal.
      instantiate (1 := - (challenge C sha256 R ext msg * from_be (tweak sha256 (ms_point ms) (r0 :: root)))). lia.
Qed.

Lemma verify_unique ext msg r s1 s2 :
  valid ext -> 
  schnorr_verify C sha256 ext msg r s1 = Ok true ->
  schnorr_verify C sha256 ext msg r s2 = Ok true -> s1 == s2.
Proof.
  intros Hv H1 H2. unfold schnorr_verify in *.
  destruct ext as [[xe ye]|]; [|discriminate].
  rewrite (even_point_ok C SL) in * by assumption. cbn [bind] in *.
  set (pt := CurveAlg.evenT C (Some (xe, ye))) in *.
  assert (Hptv : valid pt) by now apply (evenT_valid C SL).
  destruct r as [[xr yr]|]; [|discriminate].
  set (e := from_be _ mod cn C) in *.
  rewrite (rmul_ok C SL) in * by assumption. cbn [bind] in *.
  assert (HePv : valid (mulT (- e) pt)) by now apply (mul_valid C SL).
  rewrite !(padd_int_ok C SL) in * by assumption. cbn [bind] in *.
  set (A := mulT (- e) pt) in *.
  assert (V1 : valid (addT A (mulT s1 Gp))) by (apply (add_valid C SL); auto; now apply (mul_valid C SL)).
  assert (V2 : valid (addT A (mulT s2 Gp))) by (apply (add_valid C SL); auto; now apply (mul_valid C SL)).
  destruct (addT A (mulT s1 Gp)) as [[x1 y1]|] eqn:E1; [|discriminate].
  destruct (addT A (mulT s2 Gp)) as [[x2 y2]|] eqn:E2; [|discriminate].
  destruct (y1 mod 2 =? 1) eqn:P1; [discriminate|]. destruct (y2 mod 2 =? 1) eqn:P2; [discriminate|].
  assert (B1 : beq (xonly (Some (x1, y1))) (xonly (Some (xr, yr))) = true) by congruence.
  assert (B2 : beq (xonly (Some (x2, y2))) (xonly (Some (xr, yr))) = true) by congruence.
  apply beq_eq in B1, B2. unfold xonly in B1, B2.
  assert (Ex : x1 = x2).
  { pose proof (valid_range C SL x1 y1 V1) as [R1 _]. pose proof (valid_range C SL x2 y2 V2) as [R2 _].
    apply to_be32_inj; auto. congruence. }
  subst x2.
  assert (Ey : y1 = y2).
  { apply (same_x_even C SL x1); auto. apply Z.eqb_neq in P1, P2.
    pose proof (Z.mod_pos_bound y1 2 ltac:(lia)). pose proof (Z.mod_pos_bound y2 2 ltac:(lia)). lia. }
  subst y2. rewrite <- E2 in E1.
  apply add_cancel_l in E1; auto; try now apply (mul_valid C SL).
  apply (mulG_inj C SL) in E1. exact E1.
Qed.

Theorem other_sum_rejected ms R msg root s1 s2 sig :
  valid (ms_point ms) ->
  musig_get_signature C sha256 ms s1 R msg root = Ok sig ->
  ~ (s1 == s2) ->
  musig_get_signature C sha256 ms s2 R msg root = Err.
Proof.
  intros HQv H1 Hne.
  unfold musig_get_signature in *.
  destruct (musig_external C sha256 ms root) as [ext|] eqn:Eext; [|discriminate]. cbn [bind] in *.
  assert (Hextv : valid ext).
  { unfold musig_external in Eext. destruct root as [|r0 root].
    - destruct (ms_point ms) as [[x y]|] eqn:EQ; [|discriminate].
      rewrite (even_point_ok C SL) in Eext by assumption.
      assert (Hx : ext = CurveAlg.evenT C (Some (x, y))) by congruence. rewrite Hx. now apply (evenT_valid C SL).
    - eapply (tweaked_key_valid C sha256 SL); eauto. }
  destruct (final_s_affine ms R msg root) as [Herr | (g & c & Hg & Haff)].
  - rewrite Herr in H1. discriminate.
  - rewrite Haff in *. cbn [bind] in *.
    set (f1 := (g * s1 + c) mod n) in *. set (f2 := (g * s2 + c) mod n).
    assert (R1 : 0 <= f1 < n) by (apply Z.mod_pos_bound; lia).
    assert (R2 : 0 <= f2 < n) by (apply Z.mod_pos_bound; lia).
    assert (Hf : ~ (f1 == f2)).
    { intros E. apply Hne.
      assert (E' : g * s1 + c == g * s2 + c).
      { transitivity f1; [symmetry; apply mod_cong|]. transitivity f2; [exact E | apply mod_cong]. }
      assert (E'' : g * (g * s1 + c - c) == g * (g * s2 + c - c)).
      { apply mul_cong; [reflexivity|]. apply sub_cong; [exact E' | reflexivity]. }
      transitivity (g * (g * s1 + c - c)).
      - apply cong_of_eq. destruct Hg as [-> | ->]; ring.
      - transitivity (g * (g * s2 + c - c)); [exact E''|]. apply cong_of_eq. destruct Hg as [-> | ->]; ring. }
    assert (B : forall f, 0 <= f < n -> int_to_be f 32 = Ok (to_be 32 f)).
    { intros f Hr. unfold int_to_be. fold n in N256.
      destruct (0 <=? f) eqn:Ea; [|lia]. destruct (f <? pow256 32) eqn:Eb; [|lia]. reflexivity. }
    rewrite (B f1 R1) in H1. rewrite (B f2 R2). cbn [bind] in *.
    assert (Pp : forall f, 0 <= f < n ->
              schnorr_parse C (xonly R ++ to_be 32 f) = (r <- parse_point C (xonly R) ;; Ok (r, f))).
    { intros f Hr. unfold schnorr_parse.
      rewrite firstn_app, (xonly_length R), Nat.sub_diag, firstn_O, app_nil_r.
      rewrite (firstn_all2 (xonly R)) by (rewrite xonly_length; lia).
      rewrite skipn_app, (xonly_length R), Nat.sub_diag, skipn_O.
      rewrite (skipn_all2 (xonly R)) by (rewrite xonly_length; lia). cbn [app].
      rewrite (firstn_all2 (to_be 32 f)) by (rewrite to_be_length; lia).
      destruct (parse_point C (xonly R)) as [r|]; [|reflexivity]. cbn [bind].
      rewrite from_be_to_be by (fold n in N256; lia). fold n. destruct (n <=? f) eqn:E3; [lia|]. reflexivity. }
    rewrite (Pp f1 R1) in H1. rewrite (Pp f2 R2).
    destruct (parse_point C (xonly R)) as [r|]; [|reflexivity]. cbn [bind] in *.
    destruct (schnorr_verify C sha256 ext msg r f1) as [[|]|] eqn:V1; try discriminate.
    destruct (schnorr_verify C sha256 ext msg r f2) as [[|]|] eqn:V2; try reflexivity.
    exfalso. apply Hf. eapply verify_unique; eauto.
Qed.

End MusigAlg.
