(* Proofs/EcdsaDerP.v — C01, the DER codec in depth:
     - exactly which byte strings Signature.parse accepts (der_parse_iff), with no size bound;
     - minimal positive DER integers are unique (der_min_unique), hence the image of the encoder is
       exactly the canonical grammar (der_image_iff) and der . parse = id on that image and ONLY there
       (der_parse_der_iff); the parser is not strict (der_parse_not_strict: witnesses);
     - the encoder is injective; the length of the encoding as a function of (r, s), classes 8..72. *)
From Coq Require Import Znumtheory Zdiv.
From V Require Import Base.Prelude Base.Ints Model.Pecc Model.EcdsaApi Proofs.BytesP Proofs.EcdsaP.

(* SEQUENCE { INTEGER rb, INTEGER sb } with one-byte lengths *)
Definition der_frame (rb sb : bytes) : bytes :=
  48 :: zlen ((2 :: zlen rb :: rb) ++ (2 :: zlen sb :: sb)) ::
  (2 :: zlen rb :: rb) ++ (2 :: zlen sb :: sb).

Lemma der_frame_length rb sb : length (der_frame rb sb) = (6 + length rb + length sb)%nat.
Proof. unfold der_frame. cbn [length app]. rewrite app_length. cbn [length]. lia. Qed.

(* ------------------------------------------------------------------ what the parser accepts *)

Theorem der_parse_inv b r s : der_parse b = Ok (r, s) ->
  exists rb sb, b = der_frame rb sb /\ (1 <= length rb)%nat /\ (1 <= length sb)%nat /\
                r = from_be rb /\ s = from_be sb.
Proof.
  unfold der_parse. intros H.
  destruct b as [|compound [|ln [|marker [|rlen s1]]]]; try discriminate.
  destruct (compound =? 48) eqn:E1; cbn [negb] in H; [|discriminate].
  destruct (ln + 2 =? zlen (compound :: ln :: marker :: rlen :: s1)) eqn:E2; cbn [negb] in H; [|discriminate].
  destruct (marker =? 2) eqn:E3; cbn [negb] in H; [|discriminate].
  remember (firstn (Z.to_nat rlen) s1) as rb eqn:Erb.
  destruct (length rb =? 0)%nat eqn:E4; [discriminate|].
  destruct (skipn (Z.to_nat rlen) s1) as [|marker2 [|slen s3]] eqn:Es2; try discriminate.
  destruct (marker2 =? 2) eqn:E5; cbn [negb] in H; [|discriminate].
  remember (firstn (Z.to_nat slen) s3) as sb eqn:Esb.
  destruct (length sb =? 0)%nat eqn:E6; [discriminate|].
  destruct (zlen (compound :: ln :: marker :: rlen :: s1) =? 6 + rlen + slen) eqn:E7;
    cbn [negb] in H; [|discriminate].
  injection H as <- <-.
  apply Z.eqb_eq in E1, E2, E3, E5, E7. apply Nat.eqb_neq in E4, E6. subst compound marker marker2.
  assert (Hs1 : s1 = rb ++ 2 :: slen :: s3).
  { rewrite <- (firstn_skipn (Z.to_nat rlen) s1), <- Erb, Es2. reflexivity. }
  assert (Hlr : length rb = Z.to_nat rlen).
  { subst rb. apply firstn_length_le.
    pose proof (skipn_length (Z.to_nat rlen) s1) as Hk. rewrite Es2 in Hk. cbn [length] in Hk. lia. }
  assert (Hrl : rlen = zlen rb) by (unfold zlen; lia).
  assert (Hzl : zlen (48 :: ln :: 2 :: rlen :: s1) = 6 + zlen rb + zlen s3).
  { unfold zlen. cbn [length]. rewrite Hs1, app_length. cbn [length]. lia. }
  assert (Hsl : slen = zlen s3) by lia.
  assert (Hsb : sb = s3).
  { subst sb. rewrite Hsl, to_nat_zlen. apply firstn_all. }
  exists rb, sb. subst s3.
  split.
  - unfold der_frame. cbn [app]. rewrite Hs1. rewrite <- Hrl, <- Hsl.
    f_equal. f_equal.
    assert (zlen (2 :: rlen :: rb ++ 2 :: slen :: sb) = zlen rb + zlen sb + 4).
    { unfold zlen. cbn [length]. rewrite app_length. cbn [length]. lia. }
    lia.
  - repeat split; try reflexivity; lia.
Qed.

(* no hypothesis on the sizes: the frame with any two non-empty bodies is accepted (a Python bytes object
   additionally has every element below 256, i.e. bodies of at most 255 bytes and a total of at most 257) *)
Theorem der_parse_iff b r s :
  der_parse b = Ok (r, s) <->
  exists rb sb, b = der_frame rb sb /\ (1 <= length rb)%nat /\ (1 <= length sb)%nat /\
                r = from_be rb /\ s = from_be sb.
Proof.
  split; [apply der_parse_inv|].
  intros [rb [sb [-> [Hr [Hs [-> ->]]]]]]. unfold der_frame. now apply der_parse_build.
Qed.

(* everything else raises *)
Corollary der_parse_err_iff b :
  der_parse b = Err <->
  ~ exists rb sb, b = der_frame rb sb /\ (1 <= length rb)%nat /\ (1 <= length sb)%nat.
Proof.
  split.
  - intros E [rb [sb [-> [Hr Hs]]]]. unfold der_frame in E. rewrite der_parse_build in E by assumption.
    discriminate.
  - intros Hn. destruct (der_parse b) as [[r s]|] eqn:E; [|reflexivity].
    exfalso. apply Hn. apply der_parse_inv in E as [rb [sb [E [Hr [Hs _]]]]]. now exists rb, sb.
Qed.

(* the frame determines its bodies *)
Lemma der_frame_inj rb sb rb' sb' : der_frame rb sb = der_frame rb' sb' -> rb = rb' /\ sb = sb'.
Proof.
  unfold der_frame. cbn [app]. intros H.
  injection H as _ Hl H.
  assert (Hlen : length rb = length rb') by (unfold zlen in Hl; lia).
  assert (Hrb : rb = rb').
  { apply (f_equal (firstn (length rb))) in H. rewrite firstn_app_exact in H.
    rewrite Hlen, firstn_app_exact in H. exact H. }
  subst rb'. apply app_inv_head in H. injection H as _ H. now split.
Qed.

(* ------------------------------------------------------------------ minimal integers are unique *)

Lemma pow256_mono a b : (a <= b)%nat -> pow256 a <= pow256 b.
Proof.
  intros H. unfold pow256. apply Z.pow_le_mono_r; lia.
Qed.

Lemma der_min_upper b : bytes_ok b -> der_min b -> from_be b < 128 * pow256 (length b - 1).
Proof.
  intros Hok Hm. destruct b as [|x [|y t]]; [contradiction| |].
  - cbn [der_min] in Hm. rewrite from_be_cons, from_be_nil. cbn [length]. change (pow256 (1 - 1)) with 1.
    change (pow256 0) with 1. lia.
  - cbn [der_min] in Hm. destruct Hm as [Hx _].
    apply bytes_ok_cons in Hok as [Hbx Hok]. apply bytes_ok_cons in Hok as [Hby Hok].
    rewrite !from_be_cons. cbn [length].
    replace (S (S (length t)) - 1)%nat with (S (length t)) by lia.
    rewrite !pow256_S. pose proof (from_be_bound t Hok) as Hf. pose proof (pow256_pos (length t)) as Hq.
    unfold byte_ok in *. nia.
Qed.

Lemma der_min_lower b : bytes_ok b -> der_min b -> (2 <= length b)%nat ->
  128 * pow256 (length b - 2) <= from_be b.
Proof.
  intros Hok Hm Hl. destruct b as [|x [|y t]]; [contradiction|cbn [length] in Hl; lia|].
  cbn [der_min] in Hm. destruct Hm as [Hx Hy].
  apply bytes_ok_cons in Hok as [Hbx Hok]. apply bytes_ok_cons in Hok as [Hby Hok].
  rewrite !from_be_cons. cbn [length].
  replace (S (S (length t)) - 2)%nat with (length t) by lia.
  rewrite !pow256_S. pose proof (from_be_bound t Hok) as Hf. pose proof (pow256_pos (length t)) as Hq.
  unfold byte_ok in *.
  destruct (Z.eq_dec x 0) as [->|Hx0]; [specialize (Hy eq_refl)|]; nia.
Qed.

Lemma der_min_not_shorter a b : bytes_ok a -> bytes_ok b -> der_min a -> der_min b ->
  from_be a = from_be b -> ~ (length a < length b)%nat.
Proof.
  intros Ha Hb Ma Mb E Hl.
  pose proof (der_min_upper a Ha Ma) as Hu.
  assert (1 <= length a)%nat by (destruct a; [contradiction|cbn [length]; lia]).
  pose proof (der_min_lower b Hb Mb ltac:(lia)) as Hlo.
  pose proof (pow256_mono (length a - 1) (length b - 2) ltac:(lia)). lia.
Qed.

Lemma der_min_same_length a b : bytes_ok a -> bytes_ok b -> der_min a -> der_min b ->
  from_be a = from_be b -> length a = length b.
Proof.
  intros Ha Hb Ma Mb E.
  pose proof (der_min_not_shorter a b Ha Hb Ma Mb E).
  pose proof (der_min_not_shorter b a Hb Ha Mb Ma (eq_sym E)). lia.
Qed.

Theorem der_min_unique a b : bytes_ok a -> bytes_ok b -> der_min a -> der_min b ->
  from_be a = from_be b -> a = b.
Proof.
  intros Ha Hb Ma Mb E.
  pose proof (der_min_same_length a b Ha Hb Ma Mb E) as Hl.
  rewrite <- (to_be_from_be a Ha), <- (to_be_from_be b Hb), Hl, E. reflexivity.
Qed.

(* ------------------------------------------------------------------ image of the encoder *)

Lemma der_ok_range r s b : der r s = Ok b -> 1 <= r < 2 ^ 256 /\ 1 <= s < 2 ^ 256.
Proof.
  intros H.
  destruct (Z_le_gt_dec r 0); [rewrite der_err in H by lia; discriminate|].
  destruct (Z_le_gt_dec (2 ^ 256) r); [rewrite der_err in H by lia; discriminate|].
  destruct (Z_le_gt_dec s 0); [rewrite der_err in H by lia; discriminate|].
  destruct (Z_le_gt_dec (2 ^ 256) s); [rewrite der_err in H by lia; discriminate|].
  lia.
Qed.

(* the strict grammar: both bodies minimal positive integers below 2^256 *)
Definition der_strict (b : bytes) (r s : Z) : Prop :=
  exists rb sb, b = der_frame rb sb /\ bytes_ok rb /\ bytes_ok sb /\ der_min rb /\ der_min sb /\
                from_be rb = r /\ from_be sb = s.

Theorem der_image_iff r s b : 1 <= r < 2 ^ 256 -> 1 <= s < 2 ^ 256 ->
  (der r s = Ok b <-> der_strict b r s).
Proof.
  intros Hr Hs.
  destruct (der_canonical r s Hr Hs) as [rb [sb [E [R2 [S2 [R3 [S3 [R4 [S4 _]]]]]]]]].
  split.
  - intros H. rewrite E in H. injection H as <-. exists rb, sb. unfold der_frame. repeat split; assumption.
  - intros [rb' [sb' [-> [R4' [S4' [R3' [S3' [R2' S2']]]]]]]].
    rewrite E. unfold der_frame.
    rewrite (der_min_unique rb rb') by (try assumption; congruence).
    rewrite (der_min_unique sb sb') by (try assumption; congruence). reflexivity.
Qed.

(* der after parse: the identity exactly on the strict grammar *)
Theorem der_parse_der_iff b r s : der_parse b = Ok (r, s) ->
  1 <= r < 2 ^ 256 -> 1 <= s < 2 ^ 256 ->
  (der r s = Ok b <-> der_strict b r s).
Proof. intros _. apply der_image_iff. Qed.

Theorem der_reencode_id_iff b :
  der_reencode b = Ok b <-> exists r s, 1 <= r < 2 ^ 256 /\ 1 <= s < 2 ^ 256 /\ der_strict b r s.
Proof.
  unfold der_reencode. split.
  - destruct (der_parse b) as [[r s]|] eqn:E; cbn [bind]; [|discriminate].
    intros H. destruct (der_ok_range r s b H) as [Hr Hs]. exists r, s.
    split; [assumption|]. split; [assumption|]. now apply der_image_iff.
  - intros [r [s [Hr [Hs H]]]].
    assert (Hd : der r s = Ok b) by now apply der_image_iff.
    destruct (der_roundtrip r s Hr Hs) as [b' [E1 E2]].
    rewrite Hd in E1. injection E1 as <-. rewrite E2. cbn [bind]. exact Hd.
Qed.

(* the encoder is injective, and parse is its left inverse *)
Theorem der_parse_der r s b : der r s = Ok b -> der_parse b = Ok (r, s).
Proof.
  intros H. destruct (der_ok_range r s b H) as [Hr Hs].
  destruct (der_roundtrip r s Hr Hs) as [b' [E1 E2]]. rewrite H in E1. now injection E1 as <-.
Qed.

Theorem der_injective r s r' s' b : der r s = Ok b -> der r' s' = Ok b -> r = r' /\ s = s'.
Proof.
  intros H1 H2. apply der_parse_der in H1, H2. rewrite H1 in H2. now injection H2 as <- <-.
Qed.

(* Signature.parse is NOT a strict DER parser: a superfluous leading zero octet and an integer whose top
   bit is set ("negative" in DER) are accepted, read as positive, and re-encode to a different string *)
Theorem der_parse_not_strict :
  exists b r s, bytes_ok b /\ der_parse b = Ok (r, s) /\ 1 <= r < 2 ^ 256 /\ 1 <= s < 2 ^ 256 /\
                der r s <> Ok b.
Proof.
  exists [48; 8; 2; 2; 0; 1; 2; 2; 0; 1], 1, 1.
  split; [repeat constructor; unfold byte_ok; lia|].
  split; [vm_compute; reflexivity|]. split; [lia|]. split; [lia|]. vm_compute. discriminate.
Qed.

Theorem der_parse_accepts_negative :
  exists b r s, bytes_ok b /\ der_parse b = Ok (r, s) /\ der r s <> Ok b /\
                exists b', der r s = Ok b' /\ length b' = S (S (length b)).
Proof.
  exists [48; 6; 2; 1; 128; 2; 1; 255], 128, 255.
  split; [repeat constructor; unfold byte_ok; lia|].
  split; [vm_compute; reflexivity|]. split; [vm_compute; discriminate|].
  eexists. split; [vm_compute; reflexivity|reflexivity].
Qed.

(* ------------------------------------------------------------------ lengths *)

(* number of octets of the minimal positive DER integer with value v >= 1 *)
Definition der_ilen (v : Z) : Z := (Z.log2 v + 9) / 8.

Lemma pow256_pow2 k : pow256 k = 2 ^ (8 * Z.of_nat k).
Proof. unfold pow256. change 256 with (2 ^ 8). rewrite <- Z.pow_mul_r by lia. reflexivity. Qed.

Lemma der_min_length b : bytes_ok b -> der_min b -> 1 <= from_be b ->
  zlen b = der_ilen (from_be b).
Proof.
  intros Hok Hm Hv. unfold der_ilen, zlen.
  pose proof (der_min_upper b Hok Hm) as Hu.
  assert (H1 : (1 <= length b)%nat) by (destruct b; [contradiction|cbn [length]; lia]).
  set (L := Z.of_nat (length b)) in *.
  assert (Hup : Z.log2 (from_be b) < 8 * L - 1).
  { apply Z.log2_lt_pow2; [lia|].
    replace (2 ^ (8 * L - 1)) with (128 * pow256 (length b - 1)); [assumption|].
    rewrite pow256_pow2. change 128 with (2 ^ 7). rewrite <- Z.pow_add_r by lia. f_equal. lia. }
  assert (Hlo : 8 * L - 9 <= Z.log2 (from_be b)).
  { destruct (Nat.eq_dec (length b) 1) as [E|E].
    - pose proof (Z.log2_nonneg (from_be b)). lia.
    - apply Z.log2_le_pow2; [lia|].
      pose proof (der_min_lower b Hok Hm ltac:(lia)) as Hl.
      replace (2 ^ (8 * L - 9)) with (128 * pow256 (length b - 2)); [assumption|].
      rewrite pow256_pow2. change 128 with (2 ^ 7). rewrite <- Z.pow_add_r by lia. f_equal. lia. }
  apply Z.div_unique with (Z.log2 (from_be b) + 9 - 8 * L); lia.
Qed.

Lemma der_ilen_range v : 1 <= v < 2 ^ 256 -> 1 <= der_ilen v <= 33.
Proof.
  intros Hv. unfold der_ilen.
  pose proof (Z.log2_nonneg v).
  assert (Z.log2 v < 256) by (apply Z.log2_lt_pow2; lia).
  split.
  - apply Z.div_le_lower_bound; lia.
  - apply Z.div_le_upper_bound; lia.
Qed.

(* total length of the encoding: 6 + octets(r) + octets(s); every class 8..72 *)
Theorem der_length r s b : der r s = Ok b ->
  zlen b = 6 + der_ilen r + der_ilen s /\ 8 <= zlen b <= 72.
Proof.
  intros H. destruct (der_ok_range r s b H) as [Hr Hs].
  destruct (der_canonical r s Hr Hs) as [rb [sb [E [R2 [S2 [R3 [S3 [R4 [S4 _]]]]]]]]].
  assert (Hb : b = der_frame rb sb) by (rewrite E in H; injection H as <-; reflexivity).
  subst b. clear H E.
  pose proof (der_min_length rb R4 R3 ltac:(lia)) as Lr.
  pose proof (der_min_length sb S4 S3 ltac:(lia)) as Ls.
  rewrite R2 in Lr. rewrite S2 in Ls.
  pose proof (der_ilen_range r Hr). pose proof (der_ilen_range s Hs).
  assert (zlen (der_frame rb sb) = 6 + zlen rb + zlen sb).
  { unfold zlen. rewrite der_frame_length. lia. }
  lia.
Qed.

(* the second byte of the encoding is the length of the rest *)
Theorem der_length_byte r s b : der r s = Ok b ->
  exists body, b = 48 :: zlen body :: body /\ zlen b = zlen body + 2.
Proof.
  unfold der. destruct (der_int r) as [rb|]; cbn [bind]; [|discriminate].
  destruct (der_int s) as [sb|]; cbn [bind]; [|discriminate].
  intros [= <-]. eexists. split; [reflexivity|]. unfold zlen. cbn [length]. lia.
Qed.

(* both ends of the range are attained *)
Example der_length_8 : exists b, der 1 1 = Ok b /\ zlen b = 8.
Proof. eexists. split; vm_compute; reflexivity. Qed.
Example der_length_72 : exists b, der (2 ^ 256 - 1) (2 ^ 255) = Ok b /\ zlen b = 72.
Proof. eexists. split; vm_compute; reflexivity. Qed.

(* a low-S signature with r < 2^256 never needs 72 bytes, and at most 71 with s < 2^255 *)
Theorem der_length_low_s r s b : der r s = Ok b -> s < 2 ^ 255 -> zlen b <= 71.
Proof.
  intros H Hs. destruct (der_length r s b H) as [E _]. destruct (der_ok_range r s b H) as [Hr Hs1].
  pose proof (der_ilen_range r Hr).
  assert (der_ilen s <= 32).
  { unfold der_ilen. assert (Z.log2 s < 255) by (apply Z.log2_lt_pow2; lia).
    assert (Hlt : (Z.log2 s + 9) / 8 < 33) by (apply Z.div_lt_upper_bound; lia). lia. }
  lia.
Qed.
