(* Proofs/TxCanonP.v — byte-level round trip against the INDEPENDENT definition of a canonically
   encoded transaction (Spec/ScriptCanon.v): every canonical byte string is the serialisation of a
   strict well-formed transaction, hence parses (anywhere in a stream, followed by anything) to a
   transaction that serialises to exactly those bytes (C04). *)
From V Require Import Base.Prelude Base.Ints Model.Helper Model.Script Model.Tx Spec.ScriptCanon
  Proofs.HelperP Proofs.ScriptP Proofs.TxP Proofs.TxidP Proofs.ScriptCanonP.

Lemma Forall_forallb {A} (f : A -> bool) l : Forall (fun x => f x = true) l -> forallb f l = true.
Proof. intros F. apply forallb_forall. now apply Forall_forall. Qed.

(* ================= fields ================= *)
Lemma le_field_ok w n b : le_field w n b -> int_to_le n w = Ok b.
Proof. intros [R ->]. now apply int_to_le_ok. Qed.

Lemma le_field_u32 n b : le_field 4 n b -> u32b n = true.
Proof. intros [R _]. rewrite pow256_4 in R. unfold u32b. apply andb_true_iff. split; [apply Z.leb_le|apply Z.ltb_lt]; lia. Qed.

Lemma le_field_u64 n b : le_field 8 n b -> u64b n = true.
Proof. intros [R _]. rewrite pow256_8 in R. unfold u64b. apply andb_true_iff. split; [apply Z.leb_le|apply Z.ltb_lt]; lia. Qed.

Lemma compact_size_ok n l : compact_size n l -> encode_varint n = Ok l.
Proof.
  unfold compact_size, encode_varint. intros [[R ->]|[[R ->]|[[R ->]|[R ->]]]].
  - destruct (n <? 0) eqn:E0; [lia|]. destruct (n <? 253) eqn:E1; [reflexivity|lia].
  - destruct (n <? 0) eqn:E0; [lia|]. destruct (n <? 253) eqn:E1; [lia|].
    destruct (n <? 65536) eqn:E2; [reflexivity|lia].
  - destruct (n <? 0) eqn:E0; [lia|]. destruct (n <? 253) eqn:E1; [lia|].
    destruct (n <? 65536) eqn:E2; [lia|]. destruct (n <? 4294967296) eqn:E3; [reflexivity|lia].
  - destruct (n <? 0) eqn:E0; [lia|]. destruct (n <? 253) eqn:E1; [lia|].
    destruct (n <? 65536) eqn:E2; [lia|]. destruct (n <? 4294967296) eqn:E3; [lia|].
    destruct (n <? 18446744073709551616) eqn:E4; [reflexivity|lia].
Qed.

Lemma var_bytes_ok d b : var_bytes d b -> encode_varstr d = Ok b /\ zlen d <= MAX_SIZE.
Proof.
  intros [l [L [C ->]]]. split; [|exact L]. unfold encode_varstr. now rewrite (compact_size_ok _ _ C).
Qed.

(* ================= scripts ================= *)
Lemma canon_var_script_ok b :
  canon_var_script b ->
  exists s, script_wfb s = true /\ cmds_strictb (s_cmds s) = true /\ serialize_script s = Ok b.
Proof.
  intros [raw [C V]]. destruct (var_bytes_ok _ _ V) as [E L].
  destruct (canon_bytes_cmds raw C) as [cs [S Hs]]. exists (mk_script cs).
  split; [|split; [exact S|]].
  - unfold script_wfb. cbn [mk_script s_raw s_cmds]. rewrite (cmds_strict_wf cs S). cbn [andb].
    apply Z.ltb_lt. pose proof (cmds_size_le cs raw Hs). unfold MAX_SIZE in L. lia.
  - unfold serialize_script, raw_serialize. cbn [mk_script s_raw s_cmds]. rewrite Hs. exact E.
Qed.

(* ================= inputs / outputs ================= *)
Definition in_ok (i : txin) : Prop :=
  txin_wfb i = true /\ cmds_strictb (s_cmds (i_script i)) = true /\ i_witness i = [].
Definition out_ok (o : txout) : Prop :=
  txout_wfb o = true /\ cmds_strictb (s_cmds (o_script o)) = true.

Lemma canon_txin_ok b : canon_txin b -> exists i, in_ok i /\ txin_serialize i = Ok b.
Proof.
  intros [oh [idx [idxb [sc [sq [sqb [Loh [Fi [Cs [Fs ->]]]]]]]]]].
  destruct (canon_var_script_ok sc Cs) as [s [Ws [Ss Es]]].
  exists {| i_prev_tx := rev oh; i_prev_index := idx; i_script := s; i_sequence := sq; i_witness := [] |}.
  split; [split; [|split; [exact Ss|reflexivity]]|].
  - unfold txin_wfb. cbn [i_prev_tx i_prev_index i_script i_sequence i_witness forallb].
    rewrite rev_length, Loh, (le_field_u32 _ _ Fi), (le_field_u32 _ _ Fs), Ws. reflexivity.
  - unfold txin_serialize. cbn [i_prev_tx i_prev_index i_script i_sequence].
    rewrite (le_field_ok _ _ _ Fi), Es, (le_field_ok _ _ _ Fs). cbn [bind]. now rewrite rev_involutive.
Qed.

Lemma canon_txout_ok b : canon_txout b -> exists o, out_ok o /\ txout_serialize o = Ok b.
Proof.
  intros [am [amb [sc [Fa [Cs ->]]]]].
  destruct (canon_var_script_ok sc Cs) as [s [Ws [Ss Es]]].
  exists {| o_amount := am; o_script := s |}. split; [split; [|exact Ss]|].
  - unfold txout_wfb. cbn [o_amount o_script]. now rewrite (le_field_u64 _ _ Fa), Ws.
  - unfold txout_serialize. cbn [o_amount o_script]. now rewrite (le_field_ok _ _ _ Fa), Es.
Qed.

Lemma canon_seq_ins n bs :
  canon_seq canon_txin n bs -> exists l, length l = n /\ Forall in_ok l /\ ser_ins l = Ok bs.
Proof.
  induction 1 as [|n a r Ha _ [l [Ll [Fl El]]]].
  - exists []. repeat split. constructor.
  - destruct (canon_txin_ok a Ha) as [i [Hi Ei]]. exists (i :: l).
    split; [cbn [length]; now rewrite Ll|]. split; [now constructor|].
    cbn [ser_ins]. now rewrite Ei, El.
Qed.

Lemma canon_seq_outs n bs :
  canon_seq canon_txout n bs -> exists l, length l = n /\ Forall out_ok l /\ ser_outs l = Ok bs.
Proof.
  induction 1 as [|n a r Ha _ [l [Ll [Fl El]]]].
  - exists []. repeat split. constructor.
  - destruct (canon_txout_ok a Ha) as [o [Ho Eo]]. exists (o :: l).
    split; [cbn [length]; now rewrite Ll|]. split; [now constructor|].
    cbn [ser_outs]. now rewrite Eo, El.
Qed.

(* ================= witness stacks ================= *)
Definition stack_ok (items : list bytes) : Prop :=
  lenb items = true /\ forallb (fun it => len63b it) items = true.

Lemma canon_items n bs :
  canon_seq (fun x => exists d, var_bytes d x) n bs ->
  exists items, length items = n /\ forallb (fun it => len63b it) items = true /\
                witness_items items = Ok bs.
Proof.
  induction 1 as [|n a r [d Hd] _ [l [Ll [Fl El]]]].
  - exists []. repeat split.
  - destruct (var_bytes_ok _ _ Hd) as [Ed Ld]. exists (d :: l).
    split; [cbn [length]; now rewrite Ll|]. split.
    + cbn [forallb]. rewrite Fl, andb_true_r. unfold len63b. apply Z.ltb_lt. unfold MAX_SIZE in Ld. lia.
    + cbn [witness_items]. now rewrite Ed, El.
Qed.

Lemma canon_witness_ok b :
  canon_witness b -> exists items, stack_ok items /\ witness_serialize items = Ok b.
Proof.
  intros [n [l [bs [Ln [C [S ->]]]]]]. destruct (canon_items n bs S) as [items [Li [Fi Ei]]].
  exists items. split; [split; [|exact Fi]|].
  - unfold lenb, zlen. rewrite Li. apply Z.ltb_lt. unfold MAX_SIZE in Ln. lia.
  - unfold witness_serialize, zlen. rewrite Li, (compact_size_ok _ _ C), Ei. reflexivity.
Qed.

Fixpoint ser_stacks (ws : list (list bytes)) : result bytes :=
  match ws with
  | [] => Ok []
  | w :: r => a <- witness_serialize w ;; b <- ser_stacks r ;; Ok (a ++ b)
  end.

Lemma canon_seq_wits n bs :
  canon_seq canon_witness n bs ->
  exists ws, length ws = n /\ Forall stack_ok ws /\ ser_stacks ws = Ok bs.
Proof.
  induction 1 as [|n a r Ha _ [l [Ll [Fl El]]]].
  - exists []. repeat split. constructor.
  - destruct (canon_witness_ok a Ha) as [w [Hw Ew]]. exists (w :: l).
    split; [cbn [length]; now rewrite Ll|]. split; [now constructor|].
    cbn [ser_stacks]. now rewrite Ew, El.
Qed.

Lemma set_wits_length l : forall ws, length (set_wits l ws) = length l.
Proof. induction l as [|i r IH]; intros ws; cbn [set_wits length]; [reflexivity|]. now rewrite IH. Qed.

Lemma ser_ins_set l : forall ws, ser_ins (set_wits l ws) = ser_ins l.
Proof.
  induction l as [|i r IH]; intros ws; cbn [set_wits ser_ins]; [reflexivity|]. rewrite IH. reflexivity.
Qed.

Lemma ser_wits_set l : forall ws, length ws = length l -> ser_wits (set_wits l ws) = ser_stacks ws.
Proof.
  induction l as [|i r IH]; intros [|w ws] L; cbn [length] in L; try discriminate; [reflexivity|].
  cbn [set_wits ser_wits ser_stacks hd tl i_witness]. rewrite IH by lia. reflexivity.
Qed.

Lemma set_wits_ok l : forall ws,
  length ws = length l -> Forall in_ok l -> Forall stack_ok ws ->
  Forall (fun i => txin_wfb i = true) (set_wits l ws) /\
  Forall (fun i => cmds_strictb (s_cmds (i_script i)) = true) (set_wits l ws).
Proof.
  induction l as [|i r IH]; intros [|w ws] L Fl Fw; cbn [length] in L; try discriminate.
  - split; constructor.
  - inversion Fl as [|? ? [Wi [Si _]] Fl']; subst. inversion Fw as [|? ? [Lw Iw] Fw']; subst.
    destruct (IH ws) as [A B]; [lia|assumption|assumption|].
    cbn [set_wits hd tl]. split; constructor; try assumption.
    unfold txin_wfb in *. cbn [i_prev_tx i_prev_index i_script i_sequence i_witness].
    split_andb. repeat match goal with H : ?x = true |- context [?x] => rewrite H end. reflexivity.
Qed.

(* ================= transactions ================= *)
Lemma zlen_of_length {A} (l : list A) n : length l = n -> zlen l = Z.of_nat n.
Proof. intros <-. reflexivity. Qed.

Lemma canon_tx_serialised b :
  canon_tx_bytes b ->
  exists t, tx_strictb t = true /\ (t_segwit t = true \/ t_ins t <> []) /\ tx_serialize t = Ok b.
Proof.
  intros [L|S].
  - destruct L as [ver [verb [nin [ins [nout [outs [lt [ltb [Fv [N1 [Ci [Co [Fl ->]]]]]]]]]]]]].
    destruct Ci as [li [bi [Mi [Csi [Si ->]]]]]. destruct Co as [lo [bo [Mo [Cso [So ->]]]]].
    destruct (canon_seq_ins _ _ Si) as [l [Ll [Fi Ei]]].
    destruct (canon_seq_outs _ _ So) as [o [Lo [Fo Eo]]].
    exists {| t_version := ver; t_ins := l; t_outs := o; t_locktime := lt; t_segwit := false |}.
    split; [|split].
    + unfold tx_strictb, tx_wfb. cbn [t_version t_ins t_outs t_locktime t_segwit orb].
      rewrite (le_field_u32 _ _ Fv), (le_field_u32 _ _ Fl).
      rewrite (Forall_forallb txin_wfb l) by (eapply Forall_impl; [|exact Fi]; intros i [H _]; exact H).
      rewrite (Forall_forallb txout_wfb o) by (eapply Forall_impl; [|exact Fo]; intros x [H _]; exact H).
      rewrite (Forall_forallb no_witness l)
        by (eapply Forall_impl; [|exact Fi]; intros i [_ [_ H]]; unfold no_witness; now rewrite H).
      rewrite (Forall_forallb (fun i => cmds_strictb (s_cmds (i_script i))) l)
        by (eapply Forall_impl; [|exact Fi]; intros i [_ [H _]]; exact H).
      rewrite (Forall_forallb (fun x => cmds_strictb (s_cmds (o_script x))) o)
        by (eapply Forall_impl; [|exact Fo]; intros x [_ H]; exact H).
      unfold lenb. rewrite (zlen_of_length l nin Ll), (zlen_of_length o nout Lo).
      unfold MAX_SIZE in *.
      replace (Z.of_nat nin <? 18446744073709551616) with true by (symmetry; apply Z.ltb_lt; lia).
      replace (Z.of_nat nout <? 18446744073709551616) with true by (symmetry; apply Z.ltb_lt; lia).
      reflexivity.
    + right. cbn [t_ins]. destruct l; [cbn [length] in Ll; lia|discriminate].
    + unfold tx_serialize, serialize_legacy. cbn [t_version t_ins t_outs t_locktime t_segwit].
      rewrite (zlen_of_length l nin Ll), (zlen_of_length o nout Lo).
      rewrite (le_field_ok _ _ _ Fv), (compact_size_ok _ _ Csi), Ei, (compact_size_ok _ _ Cso), Eo,
        (le_field_ok _ _ _ Fl).
      cbn [bind]. now rewrite <- !app_assoc.
  - destruct S as [ver [verb [nin [ins [nout [outs [wits [lt [ltb [Fv [Ci [Co [Cw [Fl ->]]]]]]]]]]]]]].
    destruct Ci as [li [bi [Mi [Csi [Si ->]]]]]. destruct Co as [lo [bo [Mo [Cso [So ->]]]]].
    destruct (canon_seq_ins _ _ Si) as [l [Ll [Fi Ei]]].
    destruct (canon_seq_outs _ _ So) as [o [Lo [Fo Eo]]].
    destruct (canon_seq_wits _ _ Cw) as [ws [Lw [Fw Ew]]].
    assert (length ws = length l) as Lwl by congruence.
    destruct (set_wits_ok l ws Lwl Fi Fw) as [Wi Sti].
    exists {| t_version := ver; t_ins := set_wits l ws; t_outs := o; t_locktime := lt; t_segwit := true |}.
    split; [|split; [left; reflexivity|]].
    + unfold tx_strictb, tx_wfb. cbn [t_version t_ins t_outs t_locktime t_segwit orb].
      rewrite (le_field_u32 _ _ Fv), (le_field_u32 _ _ Fl).
      rewrite (Forall_forallb txin_wfb _ Wi).
      rewrite (Forall_forallb txout_wfb o) by (eapply Forall_impl; [|exact Fo]; intros x [H _]; exact H).
      rewrite (Forall_forallb (fun i => cmds_strictb (s_cmds (i_script i))) _ Sti).
      rewrite (Forall_forallb (fun x => cmds_strictb (s_cmds (o_script x))) o)
        by (eapply Forall_impl; [|exact Fo]; intros x [_ H]; exact H).
      unfold lenb. rewrite (zlen_of_length _ nin (eq_trans (set_wits_length l ws) Ll)),
        (zlen_of_length o nout Lo).
      unfold MAX_SIZE in *.
      replace (Z.of_nat nin <? 18446744073709551616) with true by (symmetry; apply Z.ltb_lt; lia).
      replace (Z.of_nat nout <? 18446744073709551616) with true by (symmetry; apply Z.ltb_lt; lia).
      reflexivity.
    + unfold tx_serialize, serialize_segwit. cbn [t_version t_ins t_outs t_locktime t_segwit].
      rewrite (zlen_of_length _ nin (eq_trans (set_wits_length l ws) Ll)), (zlen_of_length o nout Lo).
      rewrite ser_ins_set, (ser_wits_set l ws Lwl).
      rewrite (le_field_ok _ _ _ Fv), (compact_size_ok _ _ Csi), Ei, (compact_size_ok _ _ Cso), Eo, Ew,
        (le_field_ok _ _ _ Fl).
      cbn [bind]. now rewrite <- !app_assoc.
Qed.

(* the first clause of C04 against the independent definition: a canonically encoded legacy or
   segwit transaction, followed by anything, parses to a transaction that consumes exactly the
   encoding and serialises to exactly the same bytes *)
Lemma canon_tx_bytes_roundtrip b :
  canon_tx_bytes b ->
  exists t, tx_strictb t = true /\ tx_serialize t = Ok b /\
            forall rest, tx_parse (b ++ rest) = Ok (t, rest).
Proof.
  intros C. destruct (canon_tx_serialised b C) as [t [S [Z E]]].
  destruct (tx_roundtrip_strict t S Z) as [b' [E' P]]. rewrite E in E'. inversion E'; subst b'.
  exists t. repeat split; assumption.
Qed.

Lemma canon_tx_bytes_reserialize b t rest :
  canon_tx_bytes b -> tx_parse (b ++ rest) = Ok (t, rest) -> tx_serialize t = Ok b.
Proof.
  intros C P. destruct (canon_tx_bytes_roundtrip b C) as [t' [_ [E P']]].
  rewrite P' in P. inversion P; subst. exact E.
Qed.

(* =====================================================================================
   the converse: what the serialisers emit for a well-formed transaction whose counts and
   lengths are at most MAX_SIZE IS a canonical encoding — so the independent definition
   describes exactly the serialiser's image on such transactions
   ===================================================================================== *)
From V Require Import Spec.TxSmall.

Lemma encode_varint_compact n l : encode_varint n = Ok l -> compact_size n l.
Proof.
  unfold encode_varint, compact_size.
  destruct (n <? 0) eqn:E0; [discriminate|].
  destruct (n <? 253) eqn:E1; [intros [= <-]; left; split; [lia|reflexivity]|].
  destruct (n <? 65536) eqn:E2; [intros [= <-]; right; left; split; [lia|reflexivity]|].
  destruct (n <? 4294967296) eqn:E3; [intros [= <-]; right; right; left; split; [lia|reflexivity]|].
  destruct (n <? 18446744073709551616) eqn:E4; [|discriminate].
  intros [= <-]; right; right; right; split; [lia|reflexivity].
Qed.

Lemma int_to_le_field n w b : int_to_le n w = Ok b -> le_field w n b.
Proof. intros H. apply int_to_le_inv in H as [R ->]. split; [exact R|reflexivity]. Qed.

Lemma encode_varstr_var d b : zlen d <= MAX_SIZE -> encode_varstr d = Ok b -> var_bytes d b.
Proof.
  intros L H. unfold encode_varstr in H. apply bind_ok in H as [l [Hl H]]. inversion H; subst b.
  exists l. split; [exact L|]. split; [now apply encode_varint_compact|reflexivity].
Qed.

Lemma serialize_script_canon_var s b :
  script_wfb s = true -> script_smallb s = true -> serialize_script s = Ok b -> canon_var_script b.
Proof.
  intros W Sm H. destruct (script_wf_inv s W) as [Es [Wc _]].
  unfold serialize_script in H. apply bind_ok in H as [raw [Hr H]].
  unfold raw_serialize in H, Hr. rewrite (script_wf_raw s W) in Hr.
  exists raw. split; [exact (cmds_wf_canon_bytes _ _ Wc Hr)|].
  apply encode_varstr_var; [|exact H].
  unfold script_smallb in Sm. apply Z.leb_le in Sm. pose proof (ser_cmds_size _ _ Hr). lia.
Qed.

Lemma txin_serialize_canon i b :
  txin_wfb i = true -> script_smallb (i_script i) = true -> txin_serialize i = Ok b -> canon_txin b.
Proof.
  intros W Sm H. unfold txin_wfb in W. split_andb.
  unfold txin_serialize in H. apply bind_ok in H as [pi [Hpi H]]. apply bind_ok in H as [sc [Hsc H]].
  apply bind_ok in H as [sq [Hsq H]]. inversion H; subst b.
  exists (rev (i_prev_tx i)), (i_prev_index i), pi, sc, (i_sequence i), sq.
  split; [rewrite rev_length; now apply Nat.eqb_eq|].
  split; [now apply int_to_le_field|]. split; [eapply serialize_script_canon_var; eassumption|].
  split; [now apply int_to_le_field|reflexivity].
Qed.

Lemma txout_serialize_canon o b :
  txout_wfb o = true -> script_smallb (o_script o) = true -> txout_serialize o = Ok b -> canon_txout b.
Proof.
  intros W Sm H. unfold txout_wfb in W. split_andb.
  unfold txout_serialize in H. apply bind_ok in H as [am [Ham H]]. apply bind_ok in H as [sc [Hsc H]].
  inversion H; subst b. exists (o_amount o), am, sc.
  split; [now apply int_to_le_field|]. split; [eapply serialize_script_canon_var; eassumption|reflexivity].
Qed.

Lemma ser_ins_canon_seq l : forall bs,
  forallb txin_wfb l = true -> forallb txin_smallb l = true -> ser_ins l = Ok bs ->
  canon_seq canon_txin (length l) bs.
Proof.
  induction l as [|i r IH]; intros bs W Sm H; cbn [ser_ins length] in *.
  - inversion H. constructor.
  - cbn [forallb] in W, Sm. split_andb.
    apply bind_ok in H as [a [Ha H]]. apply bind_ok in H as [b [Hb H]]. inversion H; subst bs.
    constructor; [|now apply IH].
    match goal with X : txin_smallb i = true |- _ => unfold txin_smallb in X end. split_andb.
    eapply txin_serialize_canon; eassumption.
Qed.

Lemma ser_outs_canon_seq l : forall bs,
  forallb txout_wfb l = true -> forallb txout_smallb l = true -> ser_outs l = Ok bs ->
  canon_seq canon_txout (length l) bs.
Proof.
  induction l as [|o r IH]; intros bs W Sm H; cbn [ser_outs length] in *.
  - inversion H. constructor.
  - cbn [forallb] in W, Sm. split_andb.
    apply bind_ok in H as [a [Ha H]]. apply bind_ok in H as [b [Hb H]]. inversion H; subst bs.
    constructor; [|now apply IH]. eapply txout_serialize_canon; eassumption.
Qed.

Lemma witness_items_canon_seq items : forall bs,
  forallb (fun it => smallb it) items = true -> witness_items items = Ok bs ->
  canon_seq (fun x => exists d, var_bytes d x) (length items) bs.
Proof.
  induction items as [|it r IH]; intros bs Sm H; cbn [witness_items length] in *.
  - inversion H. constructor.
  - cbn [forallb] in Sm. split_andb.
    apply bind_ok in H as [a [Ha H]]. apply bind_ok in H as [b [Hb H]]. inversion H; subst bs.
    constructor; [|now apply IH]. exists it. apply encode_varstr_var; [|exact Ha].
    match goal with X : smallb it = true |- _ => unfold smallb in X; now apply Z.leb_le in X end.
Qed.

Lemma witness_serialize_canon items b :
  smallb items = true -> forallb (fun it => smallb it) items = true ->
  witness_serialize items = Ok b -> canon_witness b.
Proof.
  intros Sl Si H. unfold witness_serialize in H.
  apply bind_ok in H as [n [Hn H]]. apply bind_ok in H as [bs [Hbs H]]. inversion H; subst b.
  exists (length items), n, bs. unfold smallb in Sl. apply Z.leb_le in Sl.
  split; [exact Sl|]. split; [now apply encode_varint_compact|].
  split; [now apply witness_items_canon_seq|reflexivity].
Qed.

Lemma ser_wits_canon_seq l : forall bs,
  forallb txin_smallb l = true -> ser_wits l = Ok bs -> canon_seq canon_witness (length l) bs.
Proof.
  induction l as [|i r IH]; intros bs Sm H; cbn [ser_wits length] in *.
  - inversion H. constructor.
  - cbn [forallb] in Sm. split_andb.
    apply bind_ok in H as [a [Ha H]]. apply bind_ok in H as [b [Hb H]]. inversion H; subst bs.
    constructor; [|now apply IH].
    match goal with X : txin_smallb i = true |- _ => unfold txin_smallb in X end. split_andb.
    eapply witness_serialize_canon; eassumption.
Qed.

Lemma tx_serialize_canon_bytes t b :
  tx_wfb t = true -> tx_smallb t = true -> t_segwit t = true \/ t_ins t <> [] ->
  tx_serialize t = Ok b -> canon_tx_bytes b.
Proof.
  intros W Sm Z H. unfold tx_wfb in W. unfold tx_smallb in Sm. split_andb.
  repeat match goal with X : smallb _ = true |- _ => unfold smallb in X; apply Z.leb_le in X end.
  unfold tx_serialize in H. destruct (t_segwit t) eqn:Esw.
  - right. unfold serialize_segwit in H.
    apply bind_ok in H as [v [Hv H]]. apply bind_ok in H as [ni [Hni H]].
    apply bind_ok in H as [bi [Hbi H]]. apply bind_ok in H as [no [Hno H]].
    apply bind_ok in H as [bo [Hbo H]]. apply bind_ok in H as [bw [Hbw H]].
    apply bind_ok in H as [lt [Hlt H]]. inversion H; subst b.
    exists (t_version t), v, (length (t_ins t)), (ni ++ bi), (length (t_outs t)), (no ++ bo), bw,
      (t_locktime t), lt.
    split; [now apply int_to_le_field|].
    split; [exists ni, bi; split; [assumption|]; split; [now apply encode_varint_compact|];
            split; [now apply ser_ins_canon_seq|reflexivity]|].
    split; [exists no, bo; split; [assumption|]; split; [now apply encode_varint_compact|];
            split; [now apply ser_outs_canon_seq|reflexivity]|].
    split; [now apply ser_wits_canon_seq|]. split; [now apply int_to_le_field|].
    now rewrite <- !app_assoc.
  - left. destruct Z as [Z|Z]; [discriminate|]. unfold serialize_legacy in H.
    apply bind_ok in H as [v [Hv H]]. apply bind_ok in H as [ni [Hni H]].
    apply bind_ok in H as [bi [Hbi H]]. apply bind_ok in H as [no [Hno H]].
    apply bind_ok in H as [bo [Hbo H]]. apply bind_ok in H as [lt [Hlt H]]. inversion H; subst b.
    exists (t_version t), v, (length (t_ins t)), (ni ++ bi), (length (t_outs t)), (no ++ bo),
      (t_locktime t), lt.
    split; [now apply int_to_le_field|].
    split; [destruct (t_ins t); [congruence|cbn [length]; lia]|].
    split; [exists ni, bi; split; [assumption|]; split; [now apply encode_varint_compact|];
            split; [now apply ser_ins_canon_seq|reflexivity]|].
    split; [exists no, bo; split; [assumption|]; split; [now apply encode_varint_compact|];
            split; [now apply ser_outs_canon_seq|reflexivity]|].
    split; [now apply int_to_le_field|]. now rewrite <- !app_assoc.
Qed.
