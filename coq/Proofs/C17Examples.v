(* Proofs/C17Examples.v — concrete instances (non-vacuity) for the C17 wire-level theorems.
   Every witness is an explicit closed term: no tactic here evaluates a goal that contains an
   existential variable. *)
From V Require Import Base.Prelude Base.Ints Model.Helper Model.Block Model.Merkle Model.MerkleBlock
  Model.Pow Model.Network Model.MerkleBlockX Spec.Bip37 Spec.MerkleBlockWire Proofs.MerkleWireP.

(* a "hash" with 32-byte output *)
Definition ex_hash (x : bytes) : bytes := firstn 32 (map (fun b => (b + 1) mod 256) x ++ repeatz 7 32).
Definition ex_ids : list bytes := [repeatz 1 32; repeatz 2 32; repeatz 3 32].
Definition ex_hdr : header :=
  {| h_version := 1; h_prev := repeatz 0 32;
     h_root := rev (consensus_root ex_hash (map (@rev Z) ex_ids));
     h_time := 5; h_bits := [255; 255; 0; 29]; h_nonce := [0; 0; 0; 0] |}.

Lemma ex_hash_32 : forall x, length (ex_hash x) = 32%nat.
Proof.
  intros x. unfold ex_hash. rewrite firstn_length, app_length, map_length.
  assert (length (repeatz 7 32) = 32%nat) as -> by reflexivity. lia.
Qed.

Lemma ex_proof_complete_instance :
  let '(total, hashes, flags) := bip37_proof ex_hash (map (@rev Z) ex_ids) [false; true; true] in
  mb_is_valid_rec ex_hash (rev (consensus_root ex_hash (map (@rev Z) ex_ids))) total (map (@rev Z) hashes) flags
  = Ok (true, [repeatz 2 32; repeatz 3 32]) /\
  mb_is_valid ex_hash (rev (consensus_root ex_hash (map (@rev Z) ex_ids))) total (map (@rev Z) hashes) flags
  = Ok (true, [repeatz 2 32; repeatz 3 32]).
Proof. vm_compute. split; reflexivity. Qed.

Lemma ex_populate_mut_instance :
  populate_tree_mut (fun x => x) 3 [1; 1; 0; 1; 1; 1; 0; 0; 0] [repeatz 1 32; repeatz 2 32; repeatz 3 32]
  = Ok (repeatz 1 32 ++ repeatz 2 32 ++ repeatz 3 32 ++ repeatz 3 32, [repeatz 2 32; repeatz 3 32], [0; 0; 0], []).
Proof. vm_compute. reflexivity. Qed.

Definition ex_hb : bytes := match serialize_header ex_hdr with Ok b => b | Err => [] end.
Definition ex_w : bytes := merkleblock_of_block ex_hash ex_hb (map (@rev Z) ex_ids) [true; false; true].
Definition ex_hashes : list bytes :=
  match mb_parse (ex_w ++ [9; 9]) with Ok (_, _, hs, _, _) => hs | Err => [] end.
Definition ex_flags : bytes :=
  match mb_parse (ex_w ++ [9; 9]) with Ok (_, _, _, fl, _) => fl | Err => [] end.

Lemma ex_wire_instance :
  exists hb, serialize_header ex_hdr = Ok hb /\
  let w := merkleblock_of_block ex_hash hb (map (@rev Z) ex_ids) [true; false; true] in
  exists hashes flags,
    mb_parse (w ++ [9; 9]) = Ok (ex_hdr, 3, hashes, flags, [9; 9]) /\
    validate_merkle_root ex_hash (h_root ex_hdr) ex_ids = Ok true /\
    mb_is_valid ex_hash (h_root ex_hdr) 3 hashes flags = Ok (true, [repeatz 1 32; repeatz 3 32]) /\
    mb_parse_is_valid ex_hash (w ++ [9; 9]) = Ok (true, [repeatz 1 32; repeatz 3 32]) /\
    Forall (fun t => length t = 32%nat) hashes.
Proof.
  exists ex_hb. split; [vm_compute; reflexivity|]. cbv zeta.
  exists ex_hashes, ex_flags.
  assert (mb_parse (merkleblock_of_block ex_hash ex_hb (map (@rev Z) ex_ids) [true; false; true] ++ [9; 9])
          = Ok (ex_hdr, 3, ex_hashes, ex_flags, [9; 9])) as P by (vm_compute; reflexivity).
  split; [exact P|]. split; [vm_compute; reflexivity|].
  split; [vm_compute; reflexivity|]. split; [vm_compute; reflexivity|].
  exact (mb_parse_hashes_32 _ _ _ _ _ _ P).
Qed.

(* a "hash" that meets every target, and two well-formed linked headers *)
Definition ex_zero_hash (_ : bytes) : bytes := repeatz 0 32.
Definition ex_h1 : header :=
  {| h_version := 1; h_prev := repeatz 5 32; h_root := repeatz 6 32; h_time := 7;
     h_bits := [255; 255; 0; 29]; h_nonce := [0; 0; 0; 0] |}.
Definition ex_h2 : header :=
  {| h_version := 2; h_prev := repeatz 0 32; h_root := repeatz 8 32; h_time := 9;
     h_bits := [255; 255; 0; 29]; h_nonce := [1; 0; 0; 0] |}.
Definition ex_layout : bytes := match headers_layout [ex_h1; ex_h2] with Ok b => b | Err => [] end.

Lemma ex_wf1 : header_wf ex_h1.
Proof. unfold header_wf. cbn. repeat split; try lia; try reflexivity; repeat constructor; lia. Qed.
Lemma ex_wf2 : header_wf ex_h2.
Proof. unfold header_wf. cbn. repeat split; try lia; try reflexivity; repeat constructor; lia. Qed.

Lemma ex_header_chain_instance :
  headers_is_valid ex_zero_hash [ex_h1; ex_h2] = Ok true /\
  Forall header_wf [ex_h1; ex_h2] /\ (forall x, ex_zero_hash x <> []) /\
  exists b, headers_layout [ex_h1; ex_h2] = Ok b /\ headers_parse_is_valid ex_zero_hash (b ++ [3]) = Ok true.
Proof.
  split; [vm_compute; reflexivity|].
  split; [constructor; [exact ex_wf1 | constructor; [exact ex_wf2 | constructor]]|].
  split; [intros x; discriminate|].
  exists ex_layout. split; vm_compute; reflexivity.
Qed.
