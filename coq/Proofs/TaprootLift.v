(* Proofs/TaprootLift.v — the x-only lift as a named hypothesis of the C12 wire-level theorems:
   parse_xonly of the 32-byte x coordinate of a valid point is its even-y representative.
   It follows from the encoding lemma of Proofs/PeccEnc.v (a = 0, p = 3 mod 4, p < 2^256, no valid
   point with x = 0) and is proved for the toy curve. *)
From V Require Import Base.Prelude Base.Ints Model.Pecc Proofs.GroupHyp Proofs.CurveAlg
  Proofs.PeccEnc Proofs.CurveSweep Proofs.ToyCurve.

Definition lift_x_ok (C : curve) : Prop :=
  forall x y, valid C (Some (x, y)) -> parse_xonly C (to_be 32 x) = Ok (evenT C (Some (x, y))).

Lemma lift_x_point C : lift_x_ok C ->
  forall P, valid C P -> P <> None -> parse_xonly C (xonly P) = Ok (evenT C P).
Proof. intros L [[x y]|] Hv Hn; [|congruence]. exact (L x y Hv). Qed.

Lemma xonly_evenT_eq C : scalar_laws C -> forall P, valid C P -> xonly (evenT C P) = xonly P.
Proof.
  intros SL [[x y]|] Hv; [|reflexivity].
  destruct (evenT_parity C SL x y Hv) as (y' & -> & _). reflexivity.
Qed.

Lemma lift_x_of_enc (C : curve) :
  scalar_laws C -> ca C = 0 -> cp C mod 4 = 3 -> cp C < pow256 32 ->
  (forall y, ~ valid C (Some (0, y))) ->
  lift_x_ok C.
Proof.
  intros SL Ha Hp4 Hp256 Hx0 x y Hv.
  assert (Hx : x <> 0) by (intros ->; exact (Hx0 y Hv)).
  pose proof (parse_xonly_xonly C SL Ha Hp4 Hp256 x y Hv Hx) as H.
  unfold xonly in H. rewrite H. f_equal.
  rewrite (evenT_coords C SL) by assumption. f_equal. f_equal. unfold even_lift.
  pose proof (Z.mod_pos_bound y 2 ltac:(lia)).
  destruct (y mod 2 =? 0) eqn:E0; destruct (y mod 2 =? 1) eqn:E1; try reflexivity; lia.
Qed.

Lemma toy_no_x_zero : forall y, ~ valid toy (Some (0, y)).
Proof.
  intros y Hv. apply valid_in_points in Hv.
  assert (F : forallb (fun P => match P with Some (0, _) => false | _ => true end) (points toy) = true)
    by (vm_compute; reflexivity).
  rewrite forallb_forall in F. specialize (F _ Hv). discriminate.
Qed.

Theorem toy_lift_x_ok : lift_x_ok toy.
Proof.
  apply lift_x_of_enc; [exact toy_scalar_laws | reflexivity | reflexivity | | exact toy_no_x_zero].
  vm_compute. reflexivity.
Qed.
